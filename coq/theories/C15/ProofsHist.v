(** C15 — histories: (1) a parameter linked to the listener distance has, after ANY history of
    chunks, the mapped distance of the last chunk (nothing of the history survives but the
    previous raw value used for interpolation); (2) listener and emitter translated TOGETHER
    from chunk to chunk (both read the vehicle's displacement of the same chunk: [T0] for the
    previous values, [T1] for the current ones) render the same frame at every instant of the
    chunk as the scene at rest. *)
From Coq Require Import Reals Lra List.
From KV Require Import Base.Outcome C15.Model C15.ModelHist C15.ProofsR C15.ProofsGains C15.ProofsAtten.
Import ListNotations.
Local Open Scope R_scope.

Lemma linked_follows_any (F D : Type) (SF : Scalar F) (SD : Scalar D) (up : F -> D) (down : D -> F) (map_ease : D -> D)
      (m : mapping F D) (st : F * F) (cs : list (chunk_info (F := F))) (li : listener F) (tp : vec3 F) :
  linked_run up down map_ease m st (cs ++ [(Some li, tp)]) =
  (snd (linked_run up down map_ease m st cs),
   mapping_map down map_ease m (up (v_length (v_sub (l_pos li) tp)))).
Proof. unfold linked_run. rewrite fold_left_app. reflexivity. Qed.

Lemma linked_keeps_without_listener (F D : Type) (SF : Scalar F) (SD : Scalar D) (up : F -> D) (down : D -> F)
      (map_ease : D -> D) (m : mapping F D) (st : F * F) (cs : list (chunk_info (F := F))) (tp : vec3 F) :
  linked_run up down map_ease m st (cs ++ [(None, tp)]) =
  (snd (linked_run up down map_ease m st cs), snd (linked_run up down map_ease m st cs)).
Proof. unfold linked_run. rewrite fold_left_app. reflexivity. Qed.

Lemma linked_history (F D : Type) (SF : Scalar F) (SD : Scalar D) (up : F -> D) (down : D -> F) (map_ease : D -> D)
      (m : mapping F D) (st : F * F) (cs : list (option (listener F) * vec3 F)) (tp : vec3 F) :
  (forall li : listener F,
     linked_run up down map_ease m st (cs ++ (Some li, tp) :: nil) =
     (snd (linked_run up down map_ease m st cs),
      mapping_map down map_ease m (up (v_length (v_sub (l_pos li) tp))))) /\
  linked_run up down map_ease m st (cs ++ (None, tp) :: nil) =
  (snd (linked_run up down map_ease m st cs), snd (linked_run up down map_ease m st cs)).
Proof. split; [intro li; apply linked_follows_any | apply linked_keeps_without_listener]. Qed.

(** ** common translation *)
Definition spatial_frame_R (p10 ease : R -> R) (d sinL cosL sinR cosR dmin dmax : R) (atten : bool)
           (input : R * R) (l : option (listener R)) (e : emitter R) (t : R) : outcome (R * R) :=
  spatial_frame (F := R) (D := R) idR idR p10 ease d sinL cosL sinR cosR dmin dmax atten input l e t.
Definition shift_listener (T0 T1 : vec) (li : listener R) : listener R :=
  {| l_prev_pos := v_add (l_prev_pos li) T0; l_pos := v_add (l_pos li) T1; l_prev_q := l_prev_q li; l_q := l_q li |}.
Definition shift_emitter (T0 T1 : vec) (e : emitter R) : emitter R :=
  {| e_prev_pos := v_add (e_prev_pos e) T0; e_pos := v_add (e_pos e) T1;
     e_prev_strength := e_prev_strength e; e_strength := e_strength e |}.

Lemma sub_shift (a b T : vec) : v_sub (v_add a T) (v_add b T) = v_sub a b.
Proof. destruct a, b, T; apply vec_eq; cbn; ring. Qed.
Lemma sub_shift_ear (pos lp T X : vec) : v_sub (v_add pos T) (v_add (v_add lp T) X) = v_sub pos (v_add lp X).
Proof. destruct pos, lp, T, X; apply vec_eq; cbn; ring. Qed.

Lemma spatialize_translate p10 ease d sinL cosL sinR cosR dmin dmax atten inp (T lp : vec) (lq : qtn) (pos : vec) sraw :
  spatialize_R p10 ease d sinL cosL sinR cosR dmin dmax atten inp (v_add lp T) lq (v_add pos T) sraw =
  spatialize_R p10 ease d sinL cosL sinR cosR dmin dmax atten inp lp lq pos sraw.
Proof.
  unfold spatialize_R, spatialize, ear_gains, ear_volumes, listener_ear_positions.
  rewrite !sub_shift, !sub_shift_ear. reflexivity.
Qed.

Lemma lerp_shift (a b T0 T1 : vec) (t : R) :
  v_lerp (v_add a T0) (v_add b T1) t = v_add (v_lerp a b t) (v_lerp T0 T1 t).
Proof. destruct a, b, T0, T1; apply vec_eq; cbn; ring. Qed.
Lemma interp_shift (a b T0 T1 : vec) (t : R) :
  v_interp (v_add a T0) (v_add b T1) t = v_add (v_interp a b t) (v_lerp T0 T1 t).
Proof. destruct a, b, T0, T1; apply vec_eq; cbn; ring. Qed.

Lemma riding_together p10 ease d sinL cosL sinR cosR dmin dmax atten inp (li : listener R) (e : emitter R) (T0 T1 : vec) (t : R) :
  spatial_frame_R p10 ease d sinL cosL sinR cosR dmin dmax atten inp (Some (shift_listener T0 T1 li)) (shift_emitter T0 T1 e) t =
  spatial_frame_R p10 ease d sinL cosL sinR cosR dmin dmax atten inp (Some li) e t.
Proof.
  unfold spatial_frame_R, spatial_frame, shift_listener, shift_emitter.
  cbn [l_prev_pos l_pos l_prev_q l_q e_prev_pos e_pos e_prev_strength e_strength].
  rewrite lerp_shift, interp_shift.
  apply (spatialize_translate p10 ease d sinL cosL sinR cosR dmin dmax atten inp).
Qed.
