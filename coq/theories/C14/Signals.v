(** C14 — discrete-time signals for the specifications: finite sums, convolution with an impulse
    response, the unit delay operator on signals, and the lemma that turns an invariant indexed by
    the frame number into the outputs of a frame-by-frame run. *)
From Coq Require Import List Arith Lia Reals Lra.
From KV Require Import C13.ModelOps.
Import ListNotations.
Local Open Scope R_scope.

(** ** sum_{m < n} f m *)
Fixpoint sumn (f : nat -> R) (n : nat) : R :=
  match n with O => 0 | S n' => sumn f n' + f n' end.

Lemma sumn_ext : forall f g n, (forall m, (m < n)%nat -> f m = g m) -> sumn f n = sumn g n.
Proof.
  induction n as [|n IH]; intros H; [reflexivity|]. cbn. rewrite IH by (intros; apply H; lia).
  rewrite H by lia. reflexivity.
Qed.
Lemma sumn_zero : forall f n, (forall m, (m < n)%nat -> f m = 0) -> sumn f n = 0.
Proof.
  induction n as [|n IH]; intros H; [reflexivity|]. cbn. rewrite IH by (intros; apply H; lia).
  rewrite H by lia. ring.
Qed.
Lemma sumn_split : forall f a b, sumn f (a + b) = sumn f a + sumn (fun j => f (a + j)%nat) b.
Proof.
  intros f a. induction b as [|b IH]; [rewrite Nat.add_0_r; cbn; ring|].
  rewrite Nat.add_succ_r. cbn. rewrite IH. ring.
Qed.
Lemma sumn_scale : forall f c n, sumn (fun m => c * f m) n = c * sumn f n.
Proof. induction n as [|n IH]; cbn; [ring|rewrite IH; ring]. Qed.
Lemma sumn_plus : forall f g n, sumn (fun m => f m + g m) n = sumn f n + sumn g n.
Proof. induction n as [|n IH]; cbn; [ring|rewrite IH; ring]. Qed.
Lemma sumn_single : forall f n k, (k < n)%nat -> (forall m, (m < n)%nat -> m <> k -> f m = 0) -> sumn f n = f k.
Proof.
  induction n as [|n IH]; intros k Hk H; [lia|]. cbn.
  destruct (Nat.eq_dec k n) as [->|NE].
  - rewrite sumn_zero; [ring|]. intros m Hm. apply H; lia.
  - rewrite (IH k) by (try lia; intros; apply H; lia). rewrite (H n) by lia. ring.
Qed.

(** ** causal convolution: (h * x)[n] = sum_{m <= n} h[m] x[n - m] *)
Definition conv (h x : nat -> R) (n : nat) : R := sumn (fun m => h m * x (n - m)%nat) (S n).

(** the unit impulse is the neutral element *)
Definition delta (a : R) (n : nat) : R := match n with O => a | _ => 0 end.
Lemma conv_delta : forall h a n, conv h (delta a) n = h n * a.
Proof.
  intros h a n. unfold conv. rewrite (sumn_single _ (S n) n); [rewrite Nat.sub_diag; reflexivity|lia|].
  intros m Hm NE. destruct (n - m)%nat eqn:E; [lia|]. cbn. ring.
Qed.

(** ** signals of frames *)
Definition sigL (xs : list (frame R)) (n : nat) : R := fst (nth n xs (0, 0)).
Definition sigR (xs : list (frame R)) (n : nat) : R := snd (nth n xs (0, 0)).

(** ** a frame-by-frame run whose state satisfies [Inv n] before frame [n] *)
Section Indexed.
  Context {S A B : Type}.
  Variable step : S -> A -> S * B.
  Variable Inv : nat -> S -> Prop.
  Variable x : nat -> A.
  Variable y : nat -> B.
  Hypothesis Hstep : forall n s, Inv n s -> Inv (Datatypes.S n) (fst (step s (x n))) /\ snd (step s (x n)) = y n.

  Lemma run_indexed : forall m k s, Inv k s ->
      Inv (k + m) (fst (run_frames step s (map x (seq k m)))) /\
      snd (run_frames step s (map x (seq k m))) = map y (seq k m).
  Proof.
    induction m as [|m IH]; intros k s H.
    - cbn. rewrite Nat.add_0_r. split; [exact H|reflexivity].
    - cbn [seq map run_frames]. destruct (Hstep k s H) as [H1 H2].
      destruct (step s (x k)) as [s1 o]. cbn [fst snd] in *.
      destruct (IH (Datatypes.S k) s1 H1) as [I1 I2].
      destruct (run_frames step s1 (map x (seq (Datatypes.S k) m))) as [s2 os]. cbn [fst snd] in *.
      split; [replace (k + Datatypes.S m)%nat with (Datatypes.S k + m)%nat by lia; exact I1|].
      congruence.
  Qed.
End Indexed.

(** a list is the map of its indexing function *)
Lemma list_as_map {A} (d : A) : forall l : list A, l = map (fun n => nth n l d) (seq 0 (length l)).
Proof.
  induction l as [|a l IH]; [reflexivity|]. cbn [length seq map nth]. f_equal.
  rewrite <- seq_shift, map_map. exact IH.
Qed.

(** the same with the step hypothesis only below a bound [N] *)
Section IndexedBounded.
  Context {S A B : Type}.
  Variable step : S -> A -> S * B.
  Variable Inv : nat -> S -> Prop.
  Variable x : nat -> A.
  Variable y : nat -> B.
  Variable N : nat.
  Hypothesis Hstep : forall n s, (n < N)%nat -> Inv n s ->
                                 Inv (Datatypes.S n) (fst (step s (x n))) /\ snd (step s (x n)) = y n.

  Lemma run_indexed_bounded : forall m k s, (k + m <= N)%nat -> Inv k s ->
      Inv (k + m) (fst (run_frames step s (map x (seq k m)))) /\
      snd (run_frames step s (map x (seq k m))) = map y (seq k m).
  Proof.
    induction m as [|m IH]; intros k s Hk H.
    - cbn. rewrite Nat.add_0_r. split; [exact H|reflexivity].
    - cbn [seq map run_frames]. destruct (Hstep k s ltac:(lia) H) as [H1 H2].
      destruct (step s (x k)) as [s1 o]. cbn [fst snd] in *.
      destruct (IH (Datatypes.S k) s1 ltac:(lia) H1) as [I1 I2].
      destruct (run_frames step s1 (map x (seq (Datatypes.S k) m))) as [s2 os]. cbn [fst snd] in *.
      split; [replace (k + Datatypes.S m)%nat with (Datatypes.S k + m)%nat by lia; exact I1|].
      congruence.
  Qed.
End IndexedBounded.
