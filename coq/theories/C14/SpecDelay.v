(** C14 — textbook specification of a feedback delay (feedback comb / echo): the wet signal is
    the input convolved with an impulse train: one echo at every multiple k*D (k >= 1) of the
    delay length D, echo k attenuated k times by the feedback gain g.  With effects in the
    feedback loop, echo k has passed through them k times (SpecDelayFx below in ProofsDelayFx.v).
    Nothing here mentions the effect models. *)
From Coq Require Import Arith Bool Reals Lra.
From KV Require Import C14.Signals.
Local Open Scope R_scope.

(** the delay time in frames: floor(delay_time * sample_rate), at least one frame *)
Definition delay_frames (d : nat) : nat := Nat.max d 1.

(** impulse response of the wet path *)
Definition echo_ir (D : nat) (g : R) (m : nat) : R :=
  if (0 <? m)%nat && (m mod D =? 0)%nat then g ^ (m / D) else 0.

Definition spec_delay_wet (D : nat) (g : R) (x : nat -> R) (n : nat) : R := conv (echo_ir D g) x n.
