(** C14 — the EQ filter: the model (complex instance, real coefficients) answers a complex exponential
    with m0 + m1 H_band + m2 H_low of the state-variable core; with the coefficients eq_filter.rs
    computes this is the Audio-EQ-Cookbook prototype of the requested kind under the bilinear
    transform: unity far from the band, A^2 = 10^(dB/20) at the bell centre and on the shelf. *)
From Coq Require Import ZArith List Bool Arith Lia Reals Lra.
From Coquelicot Require Import Complex.
From KV Require Import Base.Outcome C13.ModelOps C13.ModelEffects C13.ModelDelay C13.ModelTree
     C14.SpecLaws C14.ProofsLaws C14.Signals C14.OpsC C14.SpecSVF C14.ProofsSVF C14.ProofsResponse.
Import ListNotations.
Open Scope ops_scope.
Local Open Scope C_scope.

Definition H_eq_model (g k m0 m1 m2 : R) (z : C) : C :=
  RtoC m0 + RtoC m1 * H_svf_poly BandPass g k z + RtoC m2 * H_svf_poly LowPass g k z.

Lemma eq_step_steady : forall g k m0 m1 m2 z X w,
    (1 + g * (g + k) <> 0)%R -> svfD g k z <> RtoC 0 ->
    eq_step (RtoC (svf_a1 g k)) (RtoC (svf_a2 g k)) (RtoC (svf_a3 g k)) (RtoC m0) (RtoC m1) (RtoC m2)
            (steady g k z X w) (cscale X w) =
    (steady g k z X (z * w), cscale X (H_eq_model g k m0 m1 m2 z * w)).
Proof.
  intros g k m0 m1 m2 z [xl xr] w Hden HD. unfold eq_step. rewrite svf_core_steady by assumption.
  f_equal. unfold H_eq_model, cscale, fr_add, fr_scale. cbn [fst snd oadd omul Ops_C]. f_equal; ring.
Qed.

Theorem eq_transfer_C : forall g k m0 m1 m2 z X N,
    (1 + g * (g + k) <> 0)%R -> svfD g k z <> RtoC 0 ->
    let step := eq_step (RtoC (svf_a1 g k)) (RtoC (svf_a2 g k)) (RtoC (svf_a3 g k)) (RtoC m0) (RtoC m1) (RtoC m2) in
    run_frames step (steady g k z X c1) (map (cexp X z) (seq 0 N)) =
    (steady g k z X (Cpow z N), map (fun n => cscale X (H_eq_model g k m0 m1 m2 z * Cpow z n)) (seq 0 N)).
Proof.
  intros g k m0 m1 m2 z X N Hden HD step.
  pose proof (run_indexed step (fun n s => s = steady g k z X (Cpow z n)) (cexp X z)
                          (fun n => cscale X (H_eq_model g k m0 m1 m2 z * Cpow z n))) as H.
  assert (Hstep : forall n s, s = steady g k z X (Cpow z n) ->
                              fst (step s (cexp X z n)) = steady g k z X (Cpow z (S n)) /\
                              snd (step s (cexp X z n)) = cscale X (H_eq_model g k m0 m1 m2 z * Cpow z n)).
  { intros n s ->. unfold step, cexp. rewrite eq_step_steady by assumption. split; reflexivity. }
  destruct (H Hstep N 0%nat (steady g k z X c1) eq_refl) as [H1 H2].
  cbn [Nat.add] in H1.
  destruct (run_frames step (steady g k z X c1) (map (cexp X z) (seq 0 N))) as [s ys]. cbn [fst snd] in *.
  subst. reflexivity.
Qed.

Theorem eq_sinusoid_R : forall g k m0 m1 m2 z X N,
    (1 + g * (g + k) <> 0)%R -> svfD g k z <> RtoC 0 ->
    snd (run_frames (estep consts_R (EEq (svf_a1 g k) (svf_a2 g k) (svf_a3 g k) m0 m1 m2))
                    (SSvf (reS (steady g k z X c1)))
                    (map (fun n => reF (cexp X z n)) (seq 0 N))) =
    map (fun n => reF (cscale X (H_eq_model g k m0 m1 m2 z * Cpow z n))) (seq 0 N).
Proof.
  intros g k m0 m1 m2 z X N Hden HD. rewrite run_estep_eq. cbn [snd].
  pose proof (eq_transfer_C g k m0 m1 m2 z X N Hden HD) as HC. cbn zeta in HC.
  pose proof (run_pr Re
                     (eq_step (RtoC (svf_a1 g k)) (RtoC (svf_a2 g k)) (RtoC (svf_a3 g k)) (RtoC m0) (RtoC m1) (RtoC m2))
                     (eq_step (svf_a1 g k) (svf_a2 g k) (svf_a3 g k) m0 m1 m2) (prS Re)) as HP.
  assert (Hs : forall s x,
             prS Re (fst (eq_step (RtoC (svf_a1 g k)) (RtoC (svf_a2 g k)) (RtoC (svf_a3 g k)) (RtoC m0) (RtoC m1) (RtoC m2) s x)) =
             fst (eq_step (svf_a1 g k) (svf_a2 g k) (svf_a3 g k) m0 m1 m2 (prS Re s) (prF Re x)) /\
             prF Re (snd (eq_step (RtoC (svf_a1 g k)) (RtoC (svf_a2 g k)) (RtoC (svf_a3 g k)) (RtoC m0) (RtoC m1) (RtoC m2) s x)) =
             snd (eq_step (svf_a1 g k) (svf_a2 g k) (svf_a3 g k) m0 m1 m2 (prS Re s) (prF Re x))).
  { intros s x. apply (eq_step_pr Re Re_plus Re_minus Re_scal). }
  destruct (HP Hs (map (cexp X z) (seq 0 N)) (steady g k z X c1)) as [_ H2].
  rewrite HC in H2. cbn [snd] in H2. rewrite !map_map in H2. unfold reS, reF.
  symmetry. exact H2.
Qed.

(** * the three kinds: coefficients of eq_filter.rs in terms of g0 = tan(pi f/fs), A, Q *)
Definition eq_g (kind : eqkind) (g0 A : R) : R :=
  match kind with Bell => g0 | LowShelf => (g0 / sqrt A)%R | HighShelf => (g0 * sqrt A)%R end.
Definition eq_k (kind : eqkind) (A Q : R) : R :=
  match kind with Bell => (1 / (Q * A))%R | _ => (1 / Q)%R end.
Definition eq_m (kind : eqkind) (A Q : R) : R * R * R :=
  match kind with
  | Bell => (1, 1 / (Q * A) * (A * A - 1), 0)%R
  | LowShelf => (1, 1 / Q * (A - 1), A * A - 1)%R
  | HighShelf => (A * A, 1 / Q * (1 - A) * A, 1 - A * A)%R
  end.
Definition H_eq_kind (kind : eqkind) (g0 A Q : R) (z : C) : C :=
  let '(m0, m1, m2) := eq_m kind A Q in H_eq_model (eq_g kind g0 A) (eq_k kind A Q) m0 m1 m2 z.

Ltac fin_cond M E :=
  match goal with
  | |- ?L = _ =>
      let HM := fresh "HM" in
      assert (HM : L * M = RtoC 0) by (etransitivity; [|exact E]; change (R1, R0) with c1; field; repeat split; assumption);
      apply Cmult_integral in HM; destruct HM as [HM|HM]; [exact HM|exfalso];
      repeat (apply Cmult_integral in HM; destruct HM as [HM|HM]); auto
  end.

(** the model's transfer function is the cookbook prototype under the bilinear transform *)
Theorem eq_is_cookbook : forall kind g0 r Q z,
    (0 < g0)%R -> (0 < r)%R -> (0 < Q)%R -> z + c1 <> RtoC 0 ->
    let A := (r * r)%R in
    svfD (eq_g kind g0 A) (eq_k kind A Q) z <> RtoC 0 ->
    H_eq_kind kind g0 A Q z = H_eq kind g0 A Q z.
Proof.
  intros kind g0 r Q z Hg Hr HQ Hz A HD.
  assert (Hs : sqrt A = r) by (unfold A; apply sqrt_square; lra).
  pose proof (RtoC_neq_0 g0 ltac:(lra)) as Hg'. pose proof (RtoC_neq_0 r ltac:(lra)) as Hr'.
  pose proof (RtoC_neq_0 Q ltac:(lra)) as HQ'.
  revert HD. unfold H_eq_kind, H_eq, H_eq_proto, H_eq_model, H_svf_poly, bilinear, svfD, svfP, svfQ.
  destruct kind; cbn [eq_g eq_k eq_m]; rewrite ?Hs; unfold A;
    repeat (rewrite RtoC_mult || rewrite RtoC_minus || rewrite RtoC_plus
            || (rewrite RtoC_div by (repeat apply Rmult_integral_contrapositive_currified; lra))
            || (rewrite RtoC_inv by (repeat apply Rmult_integral_contrapositive_currified; lra)));
    intros HD.
  - field. repeat split; try assumption. intros E. apply HD. fin_cond (RtoC r * RtoC r * RtoC Q) E.
  - field. repeat split; try assumption. intros E. apply HD. fin_cond (RtoC r * RtoC r * RtoC Q) E.
  - field. repeat split; try assumption. intros E. apply HD. fin_cond (RtoC Q) E.
Qed.

(** * the requested gain: A^2 = 10^(dB/20) *)
Lemma eq_A_sq : forall db, (eq_A db * eq_A db)%R = db_to_gain db.
Proof.
  intros db. unfold eq_A, db_to_gain. rewrite <- Rpower_plus. f_equal. field.
Qed.
Lemma eq_A_pos : forall db, (0 < eq_A db)%R.
Proof. intros. unfold eq_A, Rpower. apply exp_pos. Qed.

(** values at DC and at Nyquist: unity away from the band / shelf, A^2 on the shelf *)
Lemma eq_at_dc : forall kind g0 A Q, (0 < g0)%R -> (0 < A)%R ->
    H_eq_kind kind g0 A Q c1 = match kind with LowShelf => RtoC (A * A) | _ => c1 end.
Proof.
  intros kind g0 A Q Hg HA.
  assert (Hs : (0 < sqrt A)%R) by (apply sqrt_lt_R0; exact HA).
  assert (Hgk : (eq_g kind g0 A <> 0)%R).
  { destruct kind; cbn [eq_g]; [lra| |apply Rmult_integral_contrapositive_currified; lra].
    unfold Rdiv. apply Rmult_integral_contrapositive_currified; [lra|apply Rinv_neq_0_compat; lra]. }
  unfold H_eq_kind. destruct (eq_m kind A Q) as [[m0 m1] m2] eqn:Em. unfold H_eq_model.
  destruct (svf_at_dc (eq_g kind g0 A) (eq_k kind A Q) Hgk) as (E1 & E2 & _). rewrite E1, E2.
  destruct kind; cbn [eq_m] in Em; injection Em as <- <- <-; rewrite ?RtoC_minus, ?RtoC_mult; ring.
Qed.
Lemma eq_at_nyquist : forall kind g0 A Q,
    H_eq_kind kind g0 A Q (- c1) = match kind with HighShelf => RtoC (A * A) | _ => c1 end.
Proof.
  intros kind g0 A Q.
  unfold H_eq_kind. destruct (eq_m kind A Q) as [[m0 m1] m2] eqn:Em. unfold H_eq_model.
  destruct (svf_at_nyquist (eq_g kind g0 A) (eq_k kind A Q)) as (E1 & E2 & _). rewrite E1, E2.
  destruct kind; cbn [eq_m] in Em; injection Em as <- <- <-; rewrite ?RtoC_mult; ring.
Qed.

(** the bell at its centre frequency: exactly A^2, a real gain (no phase shift) *)
Lemma eq_bell_at_centre : forall fc fs A Q, (0 < fs)%R -> (0 < fc / fs < 1 / 2)%R -> (0 < A)%R -> (0 < Q)%R ->
    H_eq_kind Bell (prewarp fc fs) A Q (cis (omega fc fs)) = RtoC (A * A).
Proof.
  intros fc fs A Q Hfs Hf HA HQ.
  destruct (prewarp_corner fc fs Hfs Hf) as (Hg & HP & HQz).
  assert (Hk : (1 / (Q * A) <> 0)%R).
  { unfold Rdiv. rewrite Rmult_1_l. apply Rinv_neq_0_compat. apply Rmult_integral_contrapositive_currified; lra. }
  unfold H_eq_kind, H_eq_model. cbn [eq_m eq_g eq_k].
  destruct (svf_at_corner (prewarp fc fs) (1 / (Q * A))%R _ HP HQz Hk) as (E1 & E2 & _).
  rewrite E1, E2. pose proof (RtoC_neq_0 _ Hk) as Hk'.
  rewrite RtoC_mult, RtoC_minus, RtoC_mult. field. exact Hk'.
Qed.
