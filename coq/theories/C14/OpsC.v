(** C14 — complex signals.  To speak about frequency responses the LINEAR effect models of C13 are
    also instantiated with Coquelicot's complex numbers: samples are complex, every parameter is a
    real number injected with [RtoC].  The operations that make no sense on complex numbers
    (comparison, absolute value, square root, max) are only ever applied to parameters by the linear
    effects; they are defined through the real part, so that on injected reals they agree with the
    real operations.  [realify_*]: a complex run with real parameters is nothing but two real runs
    (the real parts and the imaginary parts) — which ties every statement about complex exponentials
    back to the real-number instance of the model. *)
From Coq Require Import ZArith List Bool Reals Lra.
From Coquelicot Require Import Complex.
From KV Require Import C13.ModelOps C13.ModelEffects C14.SpecLaws C14.ProofsLaws.
Import ListNotations.
Open Scope ops_scope.

#[global] Instance Ops_C : Ops C := {|
  oZ := fun z => RtoC (IZR z);
  oadd := Cplus; osub := Cminus; omul := Cmult; odiv := Cdiv;
  oneg := Copp;
  oabs := fun z => RtoC (Cmod z);
  osqrt := fun z => RtoC (sqrt (Re z));
  oltb := fun x y => if Rlt_dec (Re x) (Re y) then true else false;
  oleb := fun x y => if Rle_dec (Re x) (Re y) then true else false;
  oeqb := fun x y => if Req_EM_T (Re x) (Re y) then true else false;
  omax := fun x y => if Rle_dec (Re x) (Re y) then y else x |}.

Definition consts_C : consts C :=
  {| c_half := RtoC (1 / 2); c_sqrt2 := RtoC (sqrt 2); c_gain := RtoC (15 / 1000) |}.

Local Open Scope C_scope.

Lemma two_C : RtoC 2 = RtoC 1 + RtoC 1.
Proof. rewrite <- RtoC_plus. f_equal. Qed.

(** scaling a complex frame *)
Definition cscale (x : frame C) (c : C) : frame C := (fst x * c, snd x * c).
Definition reF (x : frame C) : frame R := (Re (fst x), Re (snd x)).
Definition imF (x : frame C) : frame R := (Im (fst x), Im (snd x)).

(** the clamp of an injected real is the injected clamp *)
Lemma oclamp_RtoC : forall x lo hi : R, (lo <= hi)%R ->
    @oclamp C _ (RtoC x) (RtoC lo) (RtoC hi) = RtoC (clampR x lo hi).
Proof.
  intros x lo hi H. rewrite <- oclamp_R by exact H. unfold oclamp. cbn [oltb Ops_C Ops_R Re RtoC fst].
  destruct (Rlt_dec x lo); cbn [Re RtoC fst]; destruct (Rlt_dec hi _); reflexivity.
Qed.

(** the wet/dry blend with a real mix on complex frames *)
Lemma blend_C : forall (wet dry : frame C) (mix : R),
    blend wet dry (RtoC mix) =
    (let m := clampR mix 0 1 in
     (fst wet * RtoC (sqrt m) + fst dry * RtoC (sqrt (1 - m)),
      snd wet * RtoC (sqrt m) + snd dry * RtoC (sqrt (1 - m)))).
Proof.
  intros [wl wr] [dl dr] mix. unfold blend. change (@oZ C Ops_C 0) with (RtoC 0). change (@oZ C Ops_C 1) with (RtoC 1).
  rewrite oclamp_RtoC by lra. cbn [osub osqrt Ops_C]. rewrite <- RtoC_minus. cbn [Re RtoC fst].
  reflexivity.
Qed.

(** R-linear projections of C (real part, imaginary part) commute with the arithmetic used by the
    linear effects when the scalars are injected reals *)
Section Proj.
  Variable pr : C -> R.
  Hypothesis pr_plus : forall x y, pr (x + y) = (pr x + pr y)%R.
  Hypothesis pr_minus : forall x y, pr (x - y) = (pr x - pr y)%R.
  Hypothesis pr_scal : forall x (r : R), pr (x * RtoC r) = (pr x * r)%R.
  Definition prF (x : frame C) : frame R := (pr (fst x), pr (snd x)).

  Lemma prF_add : forall a b, prF (fr_add a b) = fr_add (prF a) (prF b).
  Proof. intros [? ?] [? ?]. unfold prF, fr_add. cbn [fst snd oadd Ops_C Ops_R]. rewrite !pr_plus. reflexivity. Qed.
  Lemma prF_sub : forall a b, prF (fr_sub a b) = fr_sub (prF a) (prF b).
  Proof. intros [? ?] [? ?]. unfold prF, fr_sub. cbn [fst snd osub Ops_C Ops_R]. rewrite !pr_minus. reflexivity. Qed.
  Lemma prF_scale : forall a (r : R), prF (fr_scale a (RtoC r)) = fr_scale (prF a) r.
  Proof. intros [? ?] r. unfold prF, fr_scale. cbn [fst snd omul Ops_C Ops_R]. rewrite !pr_scal. reflexivity. Qed.
  Lemma prF_scale2 : forall a, prF (fr_scale a (oZ 2)) = fr_scale (prF a) (oZ 2).
  Proof. intros a. change (@oZ C Ops_C 2) with (RtoC 2). apply prF_scale. Qed.

  Lemma prF_blend : forall wet dry (mix : R), prF (blend wet dry (RtoC mix)) = blend (prF wet) (prF dry) mix.
  Proof.
    intros [wl wr] [dl dr] mix. rewrite blend_C, blend_R. unfold prF, spec_mix. cbn [fst snd].
    rewrite !pr_plus, !pr_scal. reflexivity.
  Qed.

  Lemma svf_core_pr : forall (a1 a2 a3 : R) (ic1 ic2 x : frame C),
      let r := svf_core (RtoC a1) (RtoC a2) (RtoC a3) ic1 ic2 x in
      let r' := svf_core a1 a2 a3 (prF ic1) (prF ic2) (prF x) in
      prF (fst (fst r)) = fst (fst r') /\ prF (snd (fst r)) = snd (fst r') /\
      prF (fst (snd r)) = fst (snd r') /\ prF (snd (snd r)) = snd (snd r').
  Proof.
    intros. subst r r'. unfold svf_core. cbn [fst snd].
    rewrite ?prF_sub, ?prF_scale2, ?prF_add, ?prF_scale, ?prF_sub. auto.
  Qed.

  Definition prS (s : frame C * frame C) : frame R * frame R := (prF (fst s), prF (snd s)).

  Lemma filter_step_pr : forall m (a1 a2 a3 k mix : R) s x,
      let r := filter_step m (RtoC a1) (RtoC a2) (RtoC a3) (RtoC k) (RtoC mix) s x in
      let r' := filter_step m a1 a2 a3 k mix (prS s) (prF x) in
      prS (fst r) = fst r' /\ prF (snd r) = snd r'.
  Proof.
    intros m a1 a2 a3 k mix [ic1 ic2] x. cbn zeta. unfold filter_step. cbn [fst snd prS].
    pose proof (svf_core_pr a1 a2 a3 ic1 ic2 x) as (E1 & E2 & E3 & E4). cbn zeta in *.
    destruct (svf_core (RtoC a1) (RtoC a2) (RtoC a3) ic1 ic2 x) as [[v1 v2] [s1 s2]].
    destruct (svf_core a1 a2 a3 (prF ic1) (prF ic2) (prF x)) as [[w1 w2] [t1 t2]].
    cbn [fst snd] in *. subst. split; [reflexivity|].
    rewrite prF_blend. f_equal.
    destruct m; rewrite ?prF_sub, ?prF_scale; reflexivity.
  Qed.

  Lemma eq_step_pr : forall (a1 a2 a3 m0 m1 m2 : R) s x,
      let r := eq_step (RtoC a1) (RtoC a2) (RtoC a3) (RtoC m0) (RtoC m1) (RtoC m2) s x in
      let r' := eq_step a1 a2 a3 m0 m1 m2 (prS s) (prF x) in
      prS (fst r) = fst r' /\ prF (snd r) = snd r'.
  Proof.
    intros a1 a2 a3 m0 m1 m2 [ic1 ic2] x. cbn zeta. unfold eq_step. cbn [fst snd prS].
    pose proof (svf_core_pr a1 a2 a3 ic1 ic2 x) as (E1 & E2 & E3 & E4). cbn zeta in *.
    destruct (svf_core (RtoC a1) (RtoC a2) (RtoC a3) ic1 ic2 x) as [[v1 v2] [s1 s2]].
    destruct (svf_core a1 a2 a3 (prF ic1) (prF ic2) (prF x)) as [[w1 w2] [t1 t2]].
    cbn [fst snd] in *. subst. split; [reflexivity|].
    rewrite !prF_add, !prF_scale. reflexivity.
  Qed.

  (** runs *)
  Lemma run_pr {SC SR : Type} (stepC : SC -> frame C -> SC * frame C) (stepR : SR -> frame R -> SR * frame R)
        (prSt : SC -> SR) :
    (forall s x, prSt (fst (stepC s x)) = fst (stepR (prSt s) (prF x)) /\
                 prF (snd (stepC s x)) = snd (stepR (prSt s) (prF x))) ->
    forall xs s,
      prSt (fst (run_frames stepC s xs)) = fst (run_frames stepR (prSt s) (map prF xs)) /\
      map prF (snd (run_frames stepC s xs)) = snd (run_frames stepR (prSt s) (map prF xs)).
  Proof.
    intros H. induction xs as [|x xs IH]; intros s; [split; reflexivity|].
    cbn [run_frames map]. destruct (H s x) as [H1 H2].
    destruct (stepC s x) as [s1 y]. destruct (stepR (prSt s) (prF x)) as [t1 y']. cbn [fst snd] in *. subst.
    destruct (IH s1) as [I1 I2].
    destruct (run_frames stepC s1 xs) as [s2 ys]. destruct (run_frames stepR (prSt s1) (map prF xs)) as [t2 ys'].
    cbn [fst snd map] in *. subst. split; reflexivity.
  Qed.
End Proj.

Lemma Re_plus : forall x y, Re (x + y) = (Re x + Re y)%R. Proof. reflexivity. Qed.
Lemma Im_plus : forall x y, Im (x + y) = (Im x + Im y)%R. Proof. reflexivity. Qed.
Lemma Re_minus : forall x y, Re (x - y) = (Re x - Re y)%R. Proof. intros [? ?] [? ?]; cbn; ring. Qed.
Lemma Im_minus : forall x y, Im (x - y) = (Im x - Im y)%R. Proof. intros [? ?] [? ?]; cbn; ring. Qed.
Lemma Re_scal : forall x (r : R), Re (x * RtoC r) = (Re x * r)%R. Proof. intros [a b] c; cbn; ring. Qed.
Lemma Im_scal : forall x (r : R), Im (x * RtoC r) = (Im x * r)%R. Proof. intros [a b] c; cbn; ring. Qed.
