(** C14 — what the transfer function of the state-variable filter says: the polynomial form is the
    bilinear transform of the analog prototype; the unit circle is mapped onto the j-Omega axis with
    Omega = tan(theta/2)/g (frequency warping), so that with g = tan(pi fc/fs) the corner of the
    prototype sits at fc hertz for every sample rate; values at DC, Nyquist and at the corner; no pole on
    the unit circle for g > 0, k > 0. *)
From Coq Require Import ZArith List Bool Arith Lia Reals Lra.
From Coquelicot Require Import Complex.
From KV Require Import C13.ModelOps C13.ModelEffects C14.SpecLaws C14.ProofsLaws C14.OpsC C14.SpecSVF C14.ProofsSVF.
Local Open Scope C_scope.

Lemma C_neq_0_re : forall z : C, Re z <> 0%R -> z <> RtoC 0.
Proof. intros [a b] H E. apply H. injection E. auto. Qed.
Lemma C_neq_0_im : forall z : C, Im z <> 0%R -> z <> RtoC 0.
Proof. intros [a b] H E. apply H. injection E. auto. Qed.
Lemma RtoC_neq_0 : forall r : R, r <> 0%R -> RtoC r <> RtoC 0.
Proof. intros r H E. apply H. injection E. auto. Qed.

Lemma Cmult_integral : forall x y : C, x * y = RtoC 0 -> x = RtoC 0 \/ y = RtoC 0.
Proof.
  intros x y H. destruct (Ceq_dec x (RtoC 0)) as [E|NE]; [left; exact E|].
  destruct (Ceq_dec y (RtoC 0)) as [E|NE']; [right; exact E|].
  exfalso. exact (Cmult_neq_0 x y NE NE' H).
Qed.

(** * polynomial form = prototype o bilinear *)
Lemma H_svf_poly_is_bilinear : forall m g k z,
    g <> 0%R -> z + c1 <> RtoC 0 -> svfD g k z <> RtoC 0 ->
    H_svf_poly m g k z = H_svf m g k z.
Proof.
  intros m g k z Hg Hz HD. pose proof (RtoC_neq_0 g Hg) as Hg'.
  unfold H_svf, H_proto, bilinear, H_svf_poly. revert HD. unfold svfD, svfP, svfQ. intros HD.
  destruct m; field; repeat split; try assumption;
    (intros E; apply HD; rewrite <- E; ring).
Qed.

Ltac csolve := repeat split; try assumption; try (apply C_neq_0_re; cbn; lra).

(** * values at DC (z = 1) and Nyquist (z = -1) *)
Lemma svf_at_dc : forall g k, g <> 0%R ->
    H_svf_poly LowPass g k c1 = c1 /\ H_svf_poly BandPass g k c1 = RtoC 0 /\
    H_svf_poly HighPass g k c1 = RtoC 0 /\ H_svf_poly Notch g k c1 = c1.
Proof.
  intros g k Hg. pose proof (RtoC_neq_0 g Hg) as Hg'. pose proof (RtoC_neq_0 2 ltac:(lra)) as H2.
  rewrite two_C in H2.
  unfold H_svf_poly. repeat split; field; csolve.
Qed.
Lemma svf_at_nyquist : forall g k,
    H_svf_poly LowPass g k (- c1) = RtoC 0 /\ H_svf_poly BandPass g k (- c1) = RtoC 0 /\
    H_svf_poly HighPass g k (- c1) = c1 /\ H_svf_poly Notch g k (- c1) = c1.
Proof.
  intros g k. pose proof (RtoC_neq_0 2 ltac:(lra)) as H2. rewrite two_C in H2.
  unfold H_svf_poly. repeat split; field; csolve.
Qed.
Lemma svfD_at_nyquist : forall g k, svfD g k (- c1) <> RtoC 0.
Proof.
  intros g k. unfold svfD, svfP, svfQ.
  replace ((- c1 - c1) * (- c1 - c1) + RtoC k * (- c1 - c1) * (RtoC g * (- c1 + c1)) +
           RtoC g * (- c1 + c1) * (RtoC g * (- c1 + c1))) with (RtoC 4).
  - apply RtoC_neq_0. lra.
  - replace (RtoC 4) with ((c1 + c1) * (c1 + c1)) by (rewrite <- RtoC_plus, <- RtoC_mult; f_equal; ring). ring.
Qed.

(** * at the corner of the prototype (s = i): low / band / high have modulus 1/k, the notch is a null *)
Lemma svf_at_corner : forall g k z,
    svfP z = Ci * svfQ g z -> svfQ g z <> RtoC 0 -> k <> 0%R ->
    H_svf_poly LowPass g k z = - Ci / RtoC k /\ H_svf_poly BandPass g k z = c1 / RtoC k /\
    H_svf_poly HighPass g k z = Ci / RtoC k /\ H_svf_poly Notch g k z = RtoC 0 /\
    svfD g k z <> RtoC 0.
Proof.
  intros g k z HP HQ Hk. pose proof (RtoC_neq_0 k Hk) as Hk'.
  assert (Ci2 : Ci * Ci = - c1) by (apply injective_projections; cbn; ring).
  assert (HD : svfD g k z = Ci * RtoC k * (svfQ g z * svfQ g z)).
  { unfold svfD. rewrite HP.
    replace (Ci * svfQ g z * (Ci * svfQ g z)) with (Ci * Ci * (svfQ g z * svfQ g z)) by ring.
    rewrite Ci2. ring. }
  assert (HCi : Ci <> RtoC 0) by (apply C_neq_0_im; cbn; lra).
  unfold H_svf_poly. fold (svfP z) (svfQ g z).
  change (svfP z * svfP z + RtoC k * svfP z * svfQ g z + svfQ g z * svfQ g z) with (svfD g k z).
  rewrite HD. rewrite HP.
  assert (HQQ : svfQ g z * svfQ g z <> RtoC 0) by (apply Cmult_neq_0; assumption).
  replace (svfQ g z * svfQ g z / (Ci * RtoC k * (svfQ g z * svfQ g z))) with (c1 * (svfQ g z * svfQ g z) / (Ci * RtoC k * (svfQ g z * svfQ g z))) by (f_equal; ring).
  replace (Ci * svfQ g z * svfQ g z) with (Ci * (svfQ g z * svfQ g z)) by ring.
  replace (Ci * svfQ g z * (Ci * svfQ g z)) with (Ci * Ci * (svfQ g z * svfQ g z)) by ring.
  rewrite Ci2.
  remember (svfQ g z * svfQ g z) as QQ eqn:EQQ.
  assert (Hden : Ci * RtoC k * QQ <> RtoC 0) by (apply Cmult_neq_0; [apply Cmult_neq_0|]; assumption).
  assert (Cdiv_eq : forall a b d : C, d <> RtoC 0 -> a = b * d -> a / d = b).
  { intros a b d Hd ->. field. exact Hd. }
  repeat split.
  - apply Cdiv_eq; [exact Hden|].
    replace (- Ci / RtoC k * (Ci * RtoC k * QQ)) with (- (Ci * Ci) * QQ) by (field; exact Hk').
    rewrite Ci2. ring.
  - apply Cdiv_eq; [exact Hden|]. field. exact Hk'.
  - apply Cdiv_eq; [exact Hden|].
    replace (Ci / RtoC k * (Ci * RtoC k * QQ)) with (Ci * Ci * QQ) by (field; exact Hk'). rewrite Ci2. reflexivity.
  - apply Cdiv_eq; [exact Hden|]. ring.
  - exact Hden.
Qed.

Lemma Cmod_Ci : Cmod Ci = 1%R.
Proof. unfold Cmod, Ci. cbn. replace (0 * (0 * 1) + 1 * (1 * 1))%R with 1%R by ring. apply sqrt_1. Qed.

Lemma svf_corner_gain : forall g k z,
    svfP z = Ci * svfQ g z -> svfQ g z <> RtoC 0 -> (0 < k)%R ->
    Cmod (H_svf_poly LowPass g k z) = (1 / k)%R /\ Cmod (H_svf_poly BandPass g k z) = (1 / k)%R /\
    Cmod (H_svf_poly HighPass g k z) = (1 / k)%R /\ Cmod (H_svf_poly Notch g k z) = 0%R.
Proof.
  intros g k z HP HQ Hk. destruct (svf_at_corner g k z HP HQ ltac:(lra)) as (E1 & E2 & E3 & E4 & _).
  pose proof (RtoC_neq_0 k ltac:(lra)) as Hk'.
  rewrite E1, E2, E3, E4. rewrite !Cmod_div by exact Hk'.
  rewrite Cmod_opp, Cmod_Ci, Cmod_1, Cmod_0, Cmod_R, Rabs_right by lra. auto.
Qed.

(** * the unit circle: frequency warping *)
Lemma cis_plus_1_neq_0 : forall theta, cos (theta / 2) <> 0%R -> cis theta + c1 <> RtoC 0.
Proof.
  intros theta Hc. apply C_neq_0_re. unfold cis. cbn.
  replace theta with (2 * (theta / 2))%R at 1 by field. rewrite cos_2a_cos.
  assert (0 < cos (theta / 2) * cos (theta / 2))%R by nra. lra.
Qed.

(** e^(i theta) - 1 = i tan(theta/2) (e^(i theta) + 1) *)
Lemma Ci_scal : forall (T a b : R), Ci * RtoC T * ((a, b) + c1) = ((- (T * b))%R, (T * (a + 1))%R).
Proof. intros. apply injective_projections; cbn; ring. Qed.
Lemma cis_warp : forall theta, cos (theta / 2) <> 0%R ->
    cis theta - c1 = Ci * RtoC (tan (theta / 2)) * (cis theta + c1).
Proof.
  intros theta Hc. unfold cis. rewrite Ci_scal. unfold tan. set (t := (theta / 2)%R) in *.
  replace theta with (2 * t)%R by (unfold t; field).
  pose proof (sin2_cos2 t) as E. unfold Rsqr in E.
  apply injective_projections; cbn [fst snd Cminus Cplus Copp RtoC].
  - rewrite cos_2a_cos, sin_2a.
    replace (- (sin t / cos t * (2 * sin t * cos t)))%R with (- (2 * (sin t * sin t)))%R by (field; exact Hc).
    replace (sin t * sin t)%R with (1 - cos t * cos t)%R by lra. ring.
  - rewrite cos_2a_cos, sin_2a. field. exact Hc.
Qed.

Lemma bilinear_on_circle : forall g theta, g <> 0%R -> cos (theta / 2) <> 0%R ->
    bilinear g (cis theta) = Ci * RtoC (tan (theta / 2) / g).
Proof.
  intros g theta Hg Hc. unfold bilinear. rewrite cis_warp by exact Hc.
  pose proof (cis_plus_1_neq_0 theta Hc) as Hz. pose proof (RtoC_neq_0 g Hg) as Hg'.
  unfold Rdiv. rewrite RtoC_mult, RtoC_inv by exact Hg. field. split; assumption.
Qed.

Lemma svfP_on_circle : forall g theta, g <> 0%R -> cos (theta / 2) <> 0%R ->
    svfP (cis theta) = Ci * RtoC (tan (theta / 2) / g) * svfQ g (cis theta).
Proof.
  intros g theta Hg Hc. unfold svfP, svfQ. rewrite cis_warp by exact Hc.
  pose proof (RtoC_neq_0 g Hg) as Hg'.
  unfold Rdiv. rewrite RtoC_mult, RtoC_inv by exact Hg. field. exact Hg'.
Qed.

Lemma half_angle_zero : forall theta, cos (theta / 2) = 0%R -> cis theta = - c1.
Proof.
  intros theta Hc. unfold cis. replace theta with (2 * (theta / 2))%R by field.
  rewrite cos_2a_cos, sin_2a, Hc. apply injective_projections; cbn; ring.
Qed.

(** no pole on the unit circle *)
Lemma svfD_on_circle : forall g k theta, (0 < g)%R -> (0 < k)%R -> svfD g k (cis theta) <> RtoC 0.
Proof.
  intros g k theta Hg Hk.
  destruct (Req_dec (cos (theta / 2)) 0) as [Hc|Hc].
  - rewrite (half_angle_zero theta Hc). apply svfD_at_nyquist.
  - set (T := tan (theta / 2)).
    pose proof (cis_plus_1_neq_0 theta Hc) as Hz.
    assert (E : svfD g k (cis theta) =
                (cis theta + c1) * (cis theta + c1) * ((RtoC (g * g - T * T)) + Ci * RtoC (k * g * T))).
    { unfold svfD, svfP, svfQ. rewrite cis_warp by exact Hc. fold T.
      assert (Ci2 : Ci * Ci = - c1) by (apply injective_projections; cbn; ring).
      rewrite RtoC_minus, !RtoC_mult.
      replace (Ci * RtoC T * (cis theta + c1) * (Ci * RtoC T * (cis theta + c1)))
        with (Ci * Ci * (RtoC T * RtoC T) * ((cis theta + c1) * (cis theta + c1))) by ring.
      rewrite Ci2. ring. }
    rewrite E. apply Cmult_neq_0; [apply Cmult_neq_0; exact Hz|].
    destruct (Req_dec T 0) as [HT|HT].
    + apply C_neq_0_re. cbn. rewrite HT. nra.
    + apply C_neq_0_im. cbn.
      assert (Hkg : (k * g * T <> 0)%R) by (apply Rmult_integral_contrapositive_currified; [apply Rmult_integral_contrapositive_currified; lra|exact HT]).
      intros Hq. apply Hkg. nra.
Qed.

(** the frequency response on the unit circle IS the prototype on the j-Omega axis, Omega = tan(theta/2)/g *)
Theorem svf_response_on_circle : forall m g k theta,
    (0 < g)%R -> (0 < k)%R -> cos (theta / 2) <> 0%R ->
    H_svf_poly m g k (cis theta) = H_proto m k (Ci * RtoC (tan (theta / 2) / g)).
Proof.
  intros m g k theta Hg Hk Hc.
  rewrite H_svf_poly_is_bilinear.
  - unfold H_svf. rewrite bilinear_on_circle by (try exact Hc; lra). reflexivity.
  - lra.
  - apply cis_plus_1_neq_0; exact Hc.
  - apply svfD_on_circle; assumption.
Qed.

(** with g = tan(pi fc/fs), the point of the unit circle that belongs to fc hertz is the corner s = i *)
Lemma prewarp_corner : forall fc fs, (0 < fs)%R -> (0 < fc / fs < 1 / 2)%R ->
    let g := prewarp fc fs in let z := cis (omega fc fs) in
    (0 < g)%R /\ svfP z = Ci * svfQ g z /\ svfQ g z <> RtoC 0.
Proof.
  intros fc fs Hfs [H0 H1] g z.
  assert (Eh : (omega fc fs / 2 = PI * fc / fs)%R) by (unfold omega; field; lra).
  assert (Ha : (0 < PI * fc / fs < PI / 2)%R).
  { pose proof PI_RGT_0. replace (PI * fc / fs)%R with (PI * (fc / fs))%R by (field; lra). split; nra. }
  assert (Hc : (0 < cos (PI * fc / fs))%R) by (apply cos_gt_0; pose proof PI_RGT_0; lra).
  assert (Hg : (0 < g)%R) by (unfold g, prewarp; apply tan_gt_0; lra).
  split; [exact Hg|]. split.
  - unfold z. rewrite (svfP_on_circle g) by (rewrite ?Eh; lra). rewrite Eh. fold (prewarp fc fs). fold g.
    replace (g / g)%R with 1%R by (field; lra). ring.
  - unfold svfQ. apply Cmult_neq_0; [apply RtoC_neq_0; lra|]. apply cis_plus_1_neq_0. rewrite Eh. lra.
Qed.
