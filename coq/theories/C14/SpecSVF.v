(** C14 — textbook specification of the filter and the EQ filter, independent of the code:
    second-order analog prototypes normalised to a corner frequency of 1 rad/s, the bilinear
    transform with frequency pre-warping, and the frequency axis of a sampled system.
      - filter (Simper / Cytomic state-variable filter): low 1/(s^2+ks+1), band s/(..), high s^2/(..),
        notch (s^2+1)/(..) with damping k = 1/Q;
      - EQ (R. Bristow-Johnson's Audio EQ Cookbook prototypes, which Cytomic's SvfLinearTrapOptimised2
        realises): peaking (s^2 + s A/Q + 1)/(s^2 + s/(A Q) + 1), low shelf
        A (s^2 + sqrt(A)/Q s + A)/(A s^2 + sqrt(A)/Q s + 1), high shelf A (A s^2 + sqrt(A)/Q s + 1)/(s^2 + sqrt(A)/Q s + A),
        A = 10^(dB/40).
    Nothing here mentions the effect models. *)
From Coq Require Import Reals Lra.
From Coquelicot Require Import Complex.
From KV Require Import C13.ModelEffects.   (* only the enumerations [fmode], [eqkind] *)
Local Open Scope C_scope.

Notation c1 := (RtoC 1).

(** ** analog prototypes *)
Definition H_proto (m : fmode) (k : R) (s : C) : C :=
  let den := s * s + RtoC k * s + c1 in
  match m with
  | LowPass => c1 / den
  | BandPass => s / den
  | HighPass => s * s / den
  | Notch => (s * s + c1) / den
  end.

Definition H_eq_proto (kind : eqkind) (A Q : R) (s : C) : C :=
  let rA := RtoC (sqrt A) in
  match kind with
  | Bell => (s * s + RtoC (A / Q) * s + c1) / (s * s + RtoC (1 / (A * Q)) * s + c1)
  | LowShelf => RtoC A * (s * s + rA / RtoC Q * s + RtoC A) / (RtoC A * s * s + rA / RtoC Q * s + c1)
  | HighShelf => RtoC A * (RtoC A * s * s + rA / RtoC Q * s + c1) / (s * s + rA / RtoC Q * s + RtoC A)
  end.

(** ** bilinear transform: s = (z - 1) / (g (z + 1)), g = tan(pi fc / fs) maps the corner to fc *)
Definition bilinear (g : R) (z : C) : C := (z - c1) / (RtoC g * (z + c1)).

Definition H_svf (m : fmode) (g k : R) (z : C) : C := H_proto m k (bilinear g z).
Definition H_eq (kind : eqkind) (g A Q : R) (z : C) : C := H_eq_proto kind A Q (bilinear g z).

(** the same rational functions with the denominators cleared (P = z - 1, Q = g (z + 1), s = P / Q):
    also defined at z = -1 (Nyquist, s = infinity) *)
Definition H_svf_poly (m : fmode) (g k : R) (z : C) : C :=
  let P := z - c1 in let Q := RtoC g * (z + c1) in
  let D := P * P + RtoC k * P * Q + Q * Q in
  match m with
  | LowPass => Q * Q / D
  | BandPass => P * Q / D
  | HighPass => P * P / D
  | Notch => (P * P + Q * Q) / D
  end.

(** ** the frequency axis: a sinusoid of f hertz at sample rate fs is z^n with z = e^(i theta),
    theta = 2 pi f / fs *)
Definition cis (theta : R) : C := (cos theta, sin theta).
Definition omega (f fs : R) : R := 2 * PI * f / fs.
(** the pre-warped coefficient for a corner of fc hertz *)
Definition prewarp (fc fs : R) : R := tan (PI * fc / fs).

(** requested EQ gain in decibels -> A (amplitude A^2 = 10^(dB/20)) *)
Definition eq_A (gain_db : R) : R := Rpower 10 (gain_db / 40).

(** z^n *)
Fixpoint Cpow (z : C) (n : nat) : C := match n with O => c1 | S n' => z * Cpow z n' end.
