(** C14 — the delay WITH effects in its feedback loop.  For every feedback chain FX that is linear
    and time-invariant from its initial state (superposition, scaling, "zeros in front come out as
    zeros in front"), every input and run length, the wet signal of the model is the sum of the
    echoes  g^k FX^k(x) delayed by k D frames  (k >= 1): echo k has passed k times through the
    feedback effects and the feedback gain.  Real numbers. *)
From Coq Require Import ZArith List Bool Arith Lia Reals Lra.
From KV Require Import Base.Outcome C13.ModelOps C13.ModelEffects C13.ModelDelay C13.ModelTree
     C13.ProofsSeq C14.SpecLaws C14.ProofsLaws C14.Signals C14.SpecDelay.
Import ListNotations.
Open Scope ops_scope.
Local Open Scope R_scope.

Notation fz := (@fr_zero R Ops_R).
Definition zeros (k : nat) : list (frame R) := repeat fz k.
Definition ladd (xs ys : list (frame R)) : list (frame R) := map2 fr_add xs ys.
Definition lscale (a : R) (xs : list (frame R)) : list (frame R) := map (fun f => fr_scale f a) xs.

(** ** list algebra *)
Lemma zeros_length : forall k, length (zeros k) = k. Proof. intros; apply repeat_length. Qed.
Lemma ladd_length : forall xs ys, length xs = length ys -> length (ladd xs ys) = length xs.
Proof. unfold ladd. induction xs as [|x xs IH]; intros [|y ys] H; cbn [length map2] in *; try lia. rewrite IH; lia. Qed.
Lemma lscale_length : forall a xs, length (lscale a xs) = length xs.
Proof. intros; apply map_length. Qed.
Lemma ladd_app : forall a b c d, length a = length c -> ladd (a ++ b) (c ++ d) = ladd a c ++ ladd b d.
Proof. unfold ladd. induction a as [|x a IH]; intros b [|y c] d H; cbn [length app map2] in *; try lia; [reflexivity|]. rewrite IH by lia. reflexivity. Qed.
Lemma fz_add : fr_add fz fz = fz.
Proof. unfold fr_add, fr_zero. cbn. f_equal; ring. Qed.
Lemma ladd_zeros : forall k, ladd (zeros k) (zeros k) = zeros k.
Proof. unfold ladd, zeros. induction k as [|k IH]; [reflexivity|]. cbn [repeat map2]. rewrite fz_add. f_equal. exact IH. Qed.
Lemma ladd_zeros_r : forall xs, ladd xs (zeros (length xs)) = xs.
Proof.
  unfold ladd, zeros. induction xs as [|[l r] xs IH]; [reflexivity|]. cbn [length repeat map2]. rewrite IH. f_equal.
  unfold fr_add. cbn. f_equal; ring.
Qed.
Lemma ladd_firstn : forall n a b, ladd (firstn n a) (firstn n b) = firstn n (ladd a b).
Proof. unfold ladd. induction n as [|n IH]; intros [|x a] [|y b]; cbn [firstn map2]; try reflexivity. rewrite IH. reflexivity. Qed.
Lemma ladd_assoc : forall a b c, ladd (ladd a b) c = ladd a (ladd b c).
Proof.
  unfold ladd. induction a as [|[l1 r1] a IH]; intros [|[l2 r2] b] [|[l3 r3] c]; cbn [map2]; try reflexivity.
  rewrite IH. f_equal. unfold fr_add. cbn. f_equal; ring.
Qed.
Lemma lscale_app : forall a xs ys, lscale a (xs ++ ys) = lscale a xs ++ lscale a ys.
Proof. intros; apply map_app. Qed.
Lemma lscale_zeros : forall a k, lscale a (zeros k) = zeros k.
Proof.
  intros a. unfold lscale, zeros. induction k as [|k IH]; [reflexivity|]. cbn [repeat map]. rewrite IH. f_equal.
  unfold fr_scale, fr_zero. cbn. f_equal; ring.
Qed.
Lemma lscale_firstn : forall a n xs, lscale a (firstn n xs) = firstn n (lscale a xs).
Proof. intros. unfold lscale. symmetry. apply firstn_map. Qed.
Lemma lscale_ladd : forall a xs ys, lscale a (ladd xs ys) = ladd (lscale a xs) (lscale a ys).
Proof.
  intros a. unfold lscale, ladd. induction xs as [|[l1 r1] xs IH]; intros [|[l2 r2] ys]; cbn [map map2]; try reflexivity.
  rewrite IH. f_equal. unfold fr_scale, fr_add. cbn. f_equal; ring.
Qed.
Lemma lscale_lscale : forall a b xs, lscale a (lscale b xs) = lscale (b * a) xs.
Proof.
  intros. unfold lscale. rewrite map_map. apply map_ext. intros [l r]. unfold fr_scale. cbn. f_equal; ring.
Qed.
Lemma firstn_app_firstn_le {A} : forall (a b : list A) L M, (L <= M)%nat -> firstn L (a ++ firstn M b) = firstn L (a ++ b).
Proof.
  induction a as [|x a IH]; intros b L M H.
  - cbn. rewrite firstn_firstn. f_equal. lia.
  - destruct L; [reflexivity|]. cbn. f_equal. apply IH. lia.
Qed.
Lemma firstn_app_firstn {A} : forall L (a b : list A), firstn L (a ++ firstn L b) = firstn L (a ++ b).
Proof. intros. apply firstn_app_firstn_le. lia. Qed.
Lemma zeros_app : forall a b, zeros a ++ zeros b = zeros (a + b).
Proof. intros. unfold zeros. symmetry. apply repeat_app. Qed.
Lemma firstn_zeros_long : forall L k xs, (L <= k)%nat -> firstn L (zeros k ++ xs) = zeros L.
Proof.
  intros L k xs H. rewrite firstn_app. rewrite zeros_length. replace (L - k)%nat with 0%nat by lia.
  cbn. rewrite app_nil_r. unfold zeros. replace k with (L + (k - L))%nat by lia. rewrite repeat_app.
  rewrite firstn_app, repeat_length. replace (L - L)%nat with 0%nat by lia. cbn. rewrite app_nil_r.
  rewrite <- (repeat_length fz L) at 1. apply firstn_all.
Qed.

Section Loop.
  Variable S : Type.
  Variable fxstep : S -> frame R -> S * frame R.
  Variable s0 : S.
  (** the feedback chain as an operator on finite signals, from its initial state *)
  Definition FX (xs : list (frame R)) : list (frame R) := snd (run_frames fxstep s0 xs).

  Hypothesis FX_add : forall xs ys, length xs = length ys -> FX (ladd xs ys) = ladd (FX xs) (FX ys).
  Hypothesis FX_scale : forall a xs, FX (lscale a xs) = lscale a (FX xs).
  Hypothesis FX_shift : forall k xs, FX (zeros k ++ xs) = zeros k ++ FX xs.

  Lemma FX_length : forall xs, length (FX xs) = length xs.
  Proof. intros. unfold FX. apply run_frames_length. Qed.
  Lemma FX_prefix : forall n xs, FX (firstn n xs) = firstn n (FX xs).
  Proof.
    intros n xs. destruct (Nat.le_gt_cases n (length xs)) as [Hn|Hn].
    - unfold FX. rewrite <- (firstn_skipn n xs) at 2. rewrite run_frames_app. cbn [snd].
      pose proof (run_frames_length fxstep (firstn n xs) s0) as Hl. rewrite firstn_length_le in Hl by exact Hn.
      rewrite <- Hl at 2. rewrite <- (Nat.add_0_r (length _)). rewrite firstn_app_2. cbn. symmetry. apply app_nil_r.
    - rewrite firstn_all2 by lia. symmetry. apply firstn_all2. rewrite FX_length. lia.
  Qed.
  Lemma FX_zeros : forall k, FX (zeros k) = zeros k.
  Proof.
    intros k. pose proof (FX_shift k []) as H. rewrite app_nil_r in H. rewrite H. unfold FX. cbn. apply app_nil_r.
  Qed.

  Variable D : nat.
  Hypothesis HD : (1 <= D)%nat.
  Variable g : R.
  Variable L : nat.

  (** one trip round the loop: through the effects, the gain, the delay line (truncated to the run length) *)
  Definition trip (u : list (frame R)) : list (frame R) := firstn L (zeros D ++ lscale g (FX u)).

  Fixpoint iterFX (k : nat) (x : list (frame R)) : list (frame R) :=
    match k with O => x | Datatypes.S k' => FX (iterFX k' x) end.
  Lemma iterFX_length : forall k x, length (iterFX k x) = length x.
  Proof. induction k as [|k IH]; intros x; [reflexivity|]. cbn. rewrite FX_length. apply IH. Qed.

  (** echo k of the input x: k times through the effects and the gain, k D frames late *)
  Definition echo (x : list (frame R)) (k : nat) : list (frame R) :=
    firstn L (zeros (k * D) ++ lscale (g ^ k) (iterFX k x)).

  Lemma echo_length : forall x k, length x = L -> length (echo x k) = L.
  Proof.
    intros x k H. unfold echo. rewrite firstn_length, app_length, zeros_length, lscale_length, iterFX_length. lia.
  Qed.
  Lemma echo_0 : forall x, length x = L -> echo x 0 = x.
  Proof.
    intros x H. unfold echo. cbn [Nat.mul zeros repeat app pow iterFX].
    replace (lscale 1 x) with x.
    - rewrite <- H. apply firstn_all.
    - unfold lscale. rewrite <- (map_id x) at 1. apply map_ext. intros [l r]. unfold fr_scale. cbn. f_equal; ring.
  Qed.

  Lemma trip_echo : forall x k, trip (echo x k) = echo x (Datatypes.S k).
  Proof.
    intros x k. unfold trip, echo. rewrite FX_prefix, FX_shift, FX_scale.
    rewrite lscale_firstn, lscale_app, lscale_zeros, lscale_lscale.
    rewrite firstn_app_firstn. rewrite app_assoc, zeros_app. cbn [iterFX pow Nat.mul].
    replace (D + k * D)%nat with (D + k * D)%nat by lia. replace (g ^ k * g) with (g * g ^ k) by ring. reflexivity.
  Qed.

  Lemma trip_add : forall u v, length u = length v -> trip (ladd u v) = ladd (trip u) (trip v).
  Proof.
    intros u v H. unfold trip. rewrite FX_add by exact H. rewrite lscale_ladd.
    rewrite ladd_firstn. f_equal. rewrite ladd_app by reflexivity. rewrite ladd_zeros. reflexivity.
  Qed.
  Lemma trip_length : forall u, length u = L -> length (trip u) = L.
  Proof.
    intros u H. unfold trip. rewrite firstn_length, app_length, zeros_length, lscale_length, FX_length. lia.
  Qed.

  (** partial sums of the echo series: Y K = sum_{k <= K} echo k *)
  Fixpoint series (x : list (frame R)) (K : nat) : list (frame R) :=
    match K with O => echo x 0 | Datatypes.S K' => ladd (series x K') (echo x K) end.
  Lemma series_length : forall x K, length x = L -> length (series x K) = L.
  Proof.
    intros x K H. induction K as [|K IH]; cbn [series]; [apply echo_length; exact H|].
    rewrite ladd_length; [exact IH|]. rewrite IH, echo_length; auto.
  Qed.

  Lemma series_S : forall x K, series x (Datatypes.S K) = ladd (series x K) (echo x (Datatypes.S K)).
  Proof. reflexivity. Qed.
  Lemma loop_step : forall x K, length x = L -> ladd (echo x 0) (trip (series x K)) = series x (Datatypes.S K).
  Proof.
    intros x K H. induction K as [|K IH].
    - rewrite series_S. cbn [series]. rewrite trip_echo. reflexivity.
    - rewrite (series_S x (Datatypes.S K)). rewrite (series_S x K) at 1.
      rewrite trip_add by (rewrite series_length, echo_length by exact H; reflexivity).
      rewrite trip_echo. rewrite <- ladd_assoc. rewrite IH. reflexivity.
  Qed.

  Lemma echo_late : forall x k, (L <= k * D)%nat -> echo x k = zeros L.
  Proof. intros x k H. unfold echo. apply firstn_zeros_long. exact H. Qed.

  (** the loop equation: with enough terms the series is the fixed point y = x + trip y *)
  Theorem series_fixed_point : forall x K, length x = L -> (L <= Datatypes.S K * D)%nat ->
      ladd x (trip (series x K)) = series x K.
  Proof.
    intros x K H HK. rewrite <- (echo_0 x H) at 1. rewrite loop_step by exact H. cbn [series].
    rewrite echo_late by exact HK. pose proof (ladd_zeros_r (series x K)) as E.
    rewrite (series_length x K H) in E. exact E.
  Qed.
End Loop.

(** ** the model *)
Lemma run_snoc {S A B : Type} (step : S -> A -> S * B) (d : A) : forall l n s0, (n < length l)%nat ->
    let r := run_frames step s0 (firstn n l) in
    run_frames step s0 (firstn (Datatypes.S n) l) =
    (fst (step (fst r) (nth n l d)), snd r ++ [snd (step (fst r) (nth n l d))]).
Proof.
  intros l n s0 Hn r. subst r.
  assert (E : firstn (Datatypes.S n) l = firstn n l ++ [nth n l d]).
  { clear s0. revert n Hn. induction l as [|a l IH]; intros [|n] Hn; cbn in *; try lia; [reflexivity|].
    rewrite IH by lia. reflexivity. }
  rewrite E, run_frames_app. cbn [run_frames].
  destruct (step (fst (run_frames step s0 (firstn n l))) (nth n l d)) as [s1 y]. reflexivity.
Qed.
Lemma nth_run_prefix {S A B : Type} (step : S -> A -> S * B) (d : A) (e : B) : forall l n s0, (n < length l)%nat ->
    nth n (snd (run_frames step s0 l)) e = snd (step (fst (run_frames step s0 (firstn n l))) (nth n l d)).
Proof.
  intros l n s0 Hn. rewrite <- (firstn_skipn (Datatypes.S n) l) at 1. rewrite run_frames_app. cbn [snd].
  rewrite (run_snoc step d l n s0 Hn). cbn [fst snd].
  pose proof (run_frames_length step (firstn n l) s0) as Hl. rewrite firstn_length_le in Hl by lia.
  rewrite app_nth1 by (rewrite app_length; cbn; lia). rewrite app_nth2 by lia. rewrite Hl, Nat.sub_diag. reflexivity.
Qed.
Lemma window_shift {A} (d : A) : forall (r : list A) n D, (1 <= D)%nat -> (n + D < length r)%nat ->
    tl (firstn D (skipn n r)) ++ [nth (n + D) r d] = firstn D (skipn (Datatypes.S n) r).
Proof.
  intros r n D HD H. revert r H. induction n as [|n IH]; intros r H.
  - cbn [skipn Nat.add]. destruct r as [|a r]; [cbn in H; lia|]. destruct D as [|D]; [lia|]. cbn [firstn tl skipn].
    cbn [length] in H. clear HD. revert r H. induction D as [|D IHD]; intros r H.
    + destruct r; [cbn in H; lia|]. reflexivity.
    + destruct r as [|b r]; [cbn in H; lia|]. cbn [firstn nth app]. f_equal. apply IHD. cbn in *. lia.
  - destruct r as [|a r]; [cbn in H; lia|]. cbn [skipn Nat.add nth]. apply IH. cbn in H. lia.
Qed.
Lemma hd_window {A} (d : A) : forall (r : list A) n D, (1 <= D)%nat -> (n < length r)%nat ->
    hd d (firstn D (skipn n r)) = nth n r d.
Proof.
  intros r n D HD. revert r. induction n as [|n IH]; intros r H.
  - destruct r; [cbn in H; lia|]. destruct D; [lia|]. reflexivity.
  - destruct r; [cbn in H; lia|]. cbn [skipn nth]. apply IH. cbn in H. lia.
Qed.

Lemma nth_firstn_lt {A} (d : A) : forall (w : list A) l n, (n < l)%nat -> nth n (firstn l w) d = nth n w d.
Proof.
  induction w as [|x w IH]; intros l n H.
  - rewrite firstn_nil. reflexivity.
  - destruct l as [|l]; [lia|]. destruct n as [|n]; [reflexivity|]. cbn [firstn nth]. apply IH. lia.
Qed.
Lemma nth_map_lt {A B} (F : A -> B) (d : A) (e : B) : forall l n, (n < length l)%nat -> nth n (map F l) e = F (nth n l d).
Proof. induction l as [|x l IH]; intros [|n] H; cbn in *; try lia; [reflexivity|]. apply IH. lia. Qed.
Lemma nth_map2_add : forall (a b : list (frame R)) n, (n < length a)%nat -> (n < length b)%nat ->
    nth n (map2 fr_add a b) fz = fr_add (nth n a fz) (nth n b fz).
Proof. induction a as [|x a IH]; intros [|y b] [|m] H1 H2; cbn in *; try lia; [reflexivity|]. apply IH; lia. Qed.

Section Model.
  Variable S : Type.
  Variable fxstep : S -> frame R -> S * frame R.
  Variable s0 : S.
  Notation FXo := (FX S fxstep s0).
  Hypothesis FX_add : forall xs ys, length xs = length ys -> FXo (ladd xs ys) = ladd (FXo xs) (FXo ys).
  Hypothesis FX_scale : forall a xs, FXo (lscale a xs) = lscale a (FXo xs).
  Hypothesis FX_shift : forall k xs, FXo (zeros k ++ xs) = zeros k ++ FXo xs.
  Variable D : nat.
  Hypothesis HD : (1 <= D)%nat.
  Variables g mix : R.
  Variable xs : list (frame R).
  Variable K : nat.
  Let L := length xs.
  Hypothesis HK : (L <= Datatypes.S K * D)%nat.

  Let Y := series S fxstep s0 D g L xs K.
  Let r := zeros D ++ Y.
  Let W := lscale g (FXo r).
  Notation wet := (trip S fxstep s0 D g L Y).

  Lemma Y_length : length Y = L.
  Proof. unfold Y. apply series_length; auto. Qed.
  Lemma r_length : length r = (D + L)%nat.
  Proof. unfold r. rewrite app_length, zeros_length, Y_length. reflexivity. Qed.
  Lemma wet_is_W : wet = firstn L W.
  Proof.
    unfold trip, W, r. rewrite FX_shift, lscale_app, lscale_zeros. reflexivity.
  Qed.
  Lemma Y_fixed : ladd xs wet = Y.
  Proof. unfold Y. apply series_fixed_point; auto. Qed.
  Lemma Y_nth : forall n, (n < L)%nat -> nth n Y fz = fr_add (nth n xs fz) (nth n W fz).
  Proof.
    intros n Hn. rewrite <- Y_fixed at 1. rewrite wet_is_W. unfold ladd.
    assert (Hl : length (firstn L W) = L).
    { rewrite firstn_length. unfold W. rewrite lscale_length, FX_length, r_length. lia. }
    rewrite nth_map2_add by (fold L; lia). f_equal. apply nth_firstn_lt. exact Hn.
  Qed.

  Definition dinv (n : nat) (st : list (frame R) * S) : Prop :=
    fst st = firstn D (skipn n r) /\ snd st = fst (run_frames fxstep s0 (firstn n r)).
  Definition dout (n : nat) : frame R := blend (nth n W fz) (nth n xs fz) mix.

  Lemma delay_fx_step : forall n st, (n < L)%nat -> dinv n st ->
      dinv (Datatypes.S n) (fst (delay_step S g mix fxstep st (nth n xs fz))) /\
      snd (delay_step S g mix fxstep st (nth n xs fz)) = dout n.
  Proof.
    intros n [buf s] Hn [Hb Hs]. cbn [fst snd] in *. subst buf s. unfold delay_step.
    pose proof r_length as Hr.
    rewrite (hd_window fz r n D HD) by lia.
    pose proof (run_snoc fxstep fz r n s0 ltac:(lia)) as Esn. cbv zeta in Esn.
    pose proof (nth_run_prefix fxstep fz fz r n s0 ltac:(lia)) as Enth.
    destruct (fxstep (fst (run_frames fxstep s0 (firstn n r))) (nth n r fz)) as [s' r1] eqn:E.
    cbn [fst snd] in *.
    assert (Ew : fr_scale r1 g = nth n W fz).
    { unfold W, lscale. rewrite (nth_map_lt (fun f => fr_scale f g) fz fz) by (rewrite FX_length; lia).
      unfold FX. rewrite Enth. reflexivity. }
    rewrite Ew. split; [|reflexivity].
    split; cbn [fst snd].
    - rewrite <- (window_shift fz r n D HD) by lia. f_equal. f_equal.
      unfold r at 1. rewrite app_nth2 by (rewrite zeros_length; lia). rewrite zeros_length.
      replace (n + D - D)%nat with n by lia. symmetry. apply Y_nth. exact Hn.
    - rewrite Esn. reflexivity.
  Qed.

  Theorem delay_fx_run :
    snd (run_frames (delay_step S g mix fxstep) (zeros D, s0) xs) =
    map2 (fun w x => blend w x mix) wet xs.
  Proof.
    pose proof (run_indexed_bounded (delay_step S g mix fxstep) dinv (fun n => nth n xs fz) dout L delay_fx_step
                                    L 0 (zeros D, s0) ltac:(lia)) as H.
    assert (H0 : dinv 0 (zeros D, s0)).
    { split; cbn [fst snd skipn firstn run_frames]; [|reflexivity]. unfold r.
      rewrite firstn_app, zeros_length, Nat.sub_diag. cbn [firstn]. rewrite app_nil_r.
      rewrite <- (zeros_length D) at 2. symmetry. apply firstn_all. }
    destruct (H H0) as [_ H2]. pose proof (list_as_map fz xs) as E. fold L in E.
    rewrite E at 1. rewrite H2. rewrite wet_is_W.
    (* map dout (seq 0 L) = map2 blend (firstn L W) xs *)
    assert (HWl : (L <= length W)%nat).
    { unfold W. rewrite lscale_length, FX_length, r_length. lia. }
    unfold dout. clear -HWl. unfold L in *. clear L. revert HWl. generalize W as w. clear.
    induction xs as [|x l IH]; intros w Hw; [reflexivity|].
    destruct w as [|a w]; [cbn in Hw; lia|]. cbn [length seq map firstn map2 nth]. f_equal.
    rewrite <- seq_shift, map_map. apply IH. cbn in Hw. lia.
  Qed.

  (** the wet signal is the sum of the echoes 1 .. K+1 *)
  Fixpoint echoes_from1 (K' : nat) : list (frame R) :=
    match K' with
    | O => echo S fxstep s0 D g L xs 1
    | Datatypes.S K'' => ladd (echoes_from1 K'') (echo S fxstep s0 D g L xs (Datatypes.S K'))
    end.
  Lemma echoes_from1_length : forall K', length (echoes_from1 K') = L.
  Proof.
    induction K' as [|K' IH]; cbn [echoes_from1]; [apply echo_length; [exact HD|reflexivity]|].
    rewrite ladd_length; [exact IH|]. rewrite IH, echo_length; [reflexivity|exact HD|reflexivity].
  Qed.
  Lemma trip_series : forall K', trip S fxstep s0 D g L (series S fxstep s0 D g L xs K') = echoes_from1 K'.
  Proof.
    induction K' as [|K' IH].
    - cbn [series echoes_from1]. apply trip_echo; assumption.
    - rewrite series_S. rewrite trip_add; try assumption.
      + rewrite IH, trip_echo by assumption. reflexivity.
      + rewrite series_length, echo_length by (try exact HD; reflexivity). reflexivity.
  Qed.
End Model.

(** * the effect tree: a delay whose feedback chain consists of volume / panning / filter / EQ effects *)
From KV Require Import C13.ProofsLaws C13.ProofsInst C13.ProofsLinear.

Definition simple (e : effect R) : Prop :=
  match e with EVolume _ | EPanning _ | EFilter _ _ _ _ _ _ | EEq _ _ _ _ _ _ => True | _ => False end.
Fixpoint simple_list (l : list (effect R)) : Prop :=
  match l with [] => True | e :: l' => simple e /\ simple_list l' end.

Definition chainFX (fx : list (effect R)) : list (frame R) -> list (frame R) :=
  FX (list (estate R)) (chain_step consts_R fx) (map init fx).

Lemma chainFX_nil : forall xs, chainFX [] xs = xs.
Proof. intros xs. unfold chainFX, FX. rewrite chain_run. reflexivity. Qed.
Lemma chainFX_cons : forall e l xs, chainFX (e :: l) xs = chainFX l (out e xs).
Proof.
  intros e l xs. unfold chainFX, FX, out. cbn [map]. rewrite chain_run.
  destruct (run_frames (estep consts_R e) (init e) xs) as [s1 zs]. cbn [snd].
  destruct (run_frames (chain_step consts_R l) (map init l) zs) as [ss ws]. reflexivity.
Qed.

Lemma lcomb_ladd : forall xs ys, lcomb 1 1 xs ys = ladd xs ys.
Proof.
  unfold lcomb, ladd. induction xs as [|[a b] xs IH]; intros [|[c d] ys]; cbn [map2]; try reflexivity.
  rewrite IH. replace (fr_add (a, b) (c, d)) with ((1 * fst (a, b) + 1 * fst (c, d))%R, (1 * snd (a, b) + 1 * snd (c, d))%R); [reflexivity|].
  unfold fr_add. cbn. f_equal; ring.
Qed.
Lemma lcomb_lscale : forall a xs, lcomb a 0 xs xs = lscale a xs.
Proof.
  intros a. unfold lcomb, lscale. induction xs as [|[c d] xs IH]; cbn [map2 map]; [reflexivity|].
  rewrite IH. replace (fr_scale (c, d) a) with ((a * fst (c, d) + 0 * fst (c, d))%R, (a * snd (c, d) + 0 * snd (c, d))%R); [reflexivity|].
  unfold fr_scale. cbn. f_equal; ring.
Qed.

Lemma simple_linear : forall e, simple e -> linear e.
Proof. intros e H. destruct e; cbn in *; tauto. Qed.
Lemma simple_sil_ok : forall e, simple e -> sil_ok consts_R ZrR FinR e.
Proof.
  intros e H. destruct e; cbn in H; try contradiction; cbn [sil_ok]; unfold pan_ok, mix_ok, FinR; try tauto.
Qed.
Lemma simple_cleared_init : forall e s, simple e -> cleared ZrR s -> wf e s = true -> s = init e.
Proof.
  intros e s H Hc Hw. destruct e; cbn in H; try contradiction; destruct s; cbn in Hw; try discriminate; try reflexivity.
  - cbn in Hc. destruct Hc as [[A B] [C D]]. unfold ZrR in *. destruct ic as [[a b] [c d]]. cbn in *. subst. reflexivity.
  - cbn in Hc. destruct Hc as [[A B] [C D]]. unfold ZrR in *. destruct ic as [[a b] [c d]]. cbn in *. subst. reflexivity.
Qed.
Lemma simple_wf_init : forall e, simple e -> wf e (init e) = true.
Proof. intros e H. destruct e; cbn in H; try contradiction; reflexivity. Qed.

Lemma Forall_Zf_zeros : forall l : list (frame R), Forall (Zf ZrR) l -> l = zeros (length l).
Proof.
  induction 1 as [|[a b] l [Ha Hb] _ IH]; [reflexivity|]. cbn [length zeros repeat]. unfold ZrR in *. cbn in *. subst.
  f_equal. exact IH.
Qed.
Lemma zeros_Zf : forall k, Forall (Zf ZrR) (zeros k).
Proof. intros k. unfold zeros. apply Forall_forall. intros x Hx. apply repeat_spec in Hx. subst. split; reflexivity. Qed.

Lemma out_length : forall e xs, length (out e xs) = length xs.
Proof. intros. unfold out. apply run_frames_length. Qed.

Lemma out_shift : forall e k xs, simple e -> out e (zeros k ++ xs) = zeros k ++ out e xs.
Proof.
  intros e k xs H. unfold out. rewrite run_frames_app. cbn [snd].
  destruct (silence_R e (zeros k) (init e) (simple_sil_ok e H) (init_cleared_R e) (zeros_Zf k)) as [Hc Hz].
  pose proof (run_wf consts_R e (zeros k) (init e) (simple_wf_init e H)) as Hw.
  rewrite (simple_cleared_init e _ H Hc Hw).
  rewrite (Forall_Zf_zeros _ Hz). rewrite run_frames_length, zeros_length. reflexivity.
Qed.

Theorem chainFX_lti : forall fx, simple_list fx ->
    (forall xs, length (chainFX fx xs) = length xs) /\
    (forall xs ys, length xs = length ys -> chainFX fx (ladd xs ys) = ladd (chainFX fx xs) (chainFX fx ys)) /\
    (forall a xs, chainFX fx (lscale a xs) = lscale a (chainFX fx xs)) /\
    (forall k xs, chainFX fx (zeros k ++ xs) = zeros k ++ chainFX fx xs).
Proof.
  induction fx as [|e l IH]; intros H.
  - repeat split; intros; rewrite ?chainFX_nil; reflexivity.
  - destruct H as [He Hl]. destruct (IH Hl) as (I0 & I1 & I2 & I3).
    pose proof (simple_linear e He) as Hlin.
    repeat split; intros; rewrite ?chainFX_cons.
    + rewrite I0. apply out_length.
    + rewrite <- lcomb_ladd. rewrite (linear_R 1 1 e xs ys Hlin H). rewrite lcomb_ladd.
      apply I1. rewrite !out_length. exact H.
    + rewrite <- lcomb_lscale. rewrite (linear_R a 0 e xs xs Hlin eq_refl). rewrite lcomb_lscale. apply I2.
    + rewrite out_shift by exact He. apply I3.
Qed.

(** run of the delay effect = run of its per-frame recurrence *)
Lemma run_estep_delay : forall d g mix fx xs buf sub,
    snd (run_frames (estep consts_R (EDelay d g mix fx)) (SDelay buf sub) xs) =
    snd (run_frames (delay_step (list (estate R)) g mix (chain_step consts_R fx)) (buf, sub) xs).
Proof.
  intros d g mix fx. induction xs as [|x xs IH]; intros buf sub; [reflexivity|].
  cbn [run_frames]. rewrite estep_delay_eq.
  destruct (delay_step (list (estate R)) g mix (chain_step consts_R fx) (buf, sub) x) as [[buf' sub'] y].
  specialize (IH buf' sub').
  destruct (run_frames (estep consts_R (EDelay d g mix fx)) (SDelay buf' sub') xs) as [s1 o1].
  destruct (run_frames (delay_step (list (estate R)) g mix (chain_step consts_R fx)) (buf', sub') xs) as [s2 o2].
  cbn [snd] in *. congruence.
Qed.

(** echo k of the input: k times through the feedback effects and the feedback gain, k D frames late *)
Definition fx_echo (fx : list (effect R)) (D : nat) (g : R) (xs : list (frame R)) (k : nat) : list (frame R) :=
  echo (list (estate R)) (chain_step consts_R fx) (map init fx) D g (length xs) xs k.
Definition fx_wet (fx : list (effect R)) (D : nat) (g : R) (xs : list (frame R)) (K : nat) : list (frame R) :=
  echoes_from1 (list (estate R)) (chain_step consts_R fx) (map init fx) D g xs K.

Theorem delay_fx_echoes : forall (d : nat) (g mix : R) (fx : list (effect R)) (xs : list (frame R)) (K : nat),
    simple_list fx ->
    let D := delay_frames d in
    (length xs <= Datatypes.S K * D)%nat ->
    snd (run_frames (estep consts_R (EDelay d g mix fx)) (init (EDelay d g mix fx)) xs) =
    map2 (fun w x => blend w x mix) (fx_wet fx D g xs K) xs.
Proof.
  intros d g mix fx xs K Hs D HK.
  destruct (chainFX_lti fx Hs) as (_ & A1 & A2 & A3).
  change (init (EDelay d g mix fx)) with (SDelay (repeat fr_zero (Nat.max d 1)) (map init fx)).
  rewrite run_estep_delay.
  assert (HD : (1 <= D)%nat) by (unfold D, delay_frames; lia).
  pose proof (delay_fx_run (list (estate R)) (chain_step consts_R fx) (map init fx) A1 A2 A3 D HD g mix xs K HK) as H.
  unfold fx_wet. rewrite <- (trip_series (list (estate R)) (chain_step consts_R fx) (map init fx) A1 A2 A3 D HD g xs K).
  exact H.
Qed.

Lemma delay_loop_echoes :
  forall (S : Type) (fxstep : S -> frame R -> S * frame R) (s0 : S),
    (forall xs ys, length xs = length ys -> FX S fxstep s0 (ladd xs ys) = ladd (FX S fxstep s0 xs) (FX S fxstep s0 ys)) ->
    (forall a xs, FX S fxstep s0 (lscale a xs) = lscale a (FX S fxstep s0 xs)) ->
    (forall k xs, FX S fxstep s0 (zeros k ++ xs) = zeros k ++ FX S fxstep s0 xs) ->
    forall (D : nat), (1 <= D)%nat ->
    forall (g mix : R) (xs : list (frame R)) (K : nat),
      (length xs <= Datatypes.S K * D)%nat ->
      snd (run_frames (delay_step S g mix fxstep) (zeros D, s0) xs) =
      map2 (fun w x => blend w x mix) (echoes_from1 S fxstep s0 D g xs K) xs.
Proof.
  intros S fxstep s0 A1 A2 A3 D HD g mix xs K HK.
  rewrite <- (trip_series S fxstep s0 A1 A2 A3 D HD g xs K).
  exact (delay_fx_run S fxstep s0 A1 A2 A3 D HD g mix xs K HK).
Qed.
Lemma delay_echo_definition :
  forall (S : Type) (fxstep : S -> frame R -> S * frame R) (s0 : S) (D : nat) (g : R) (xs : list (frame R)),
    (forall k, echo S fxstep s0 D g (length xs) xs k =
               firstn (length xs) (zeros (k * D) ++ lscale (g ^ k) (iterFX S fxstep s0 k xs))) /\
    iterFX S fxstep s0 0 xs = xs /\
    (forall k, iterFX S fxstep s0 (Datatypes.S k) xs = FX S fxstep s0 (iterFX S fxstep s0 k xs)) /\
    echoes_from1 S fxstep s0 D g xs 0 = echo S fxstep s0 D g (length xs) xs 1 /\
    (forall K, echoes_from1 S fxstep s0 D g xs (Datatypes.S K) =
               ladd (echoes_from1 S fxstep s0 D g xs K) (echo S fxstep s0 D g (length xs) xs (Datatypes.S (Datatypes.S K)))).
Proof. intros. repeat split; reflexivity. Qed.
(** the hypotheses are satisfiable: the identity loop, and a loop with a low-pass filter and a volume control *)
Example lti_hypotheses_satisfiable :
  simple_list [] /\ simple_list [EFilter LowPass (3 / 4) (1 / 8) (1 / 32) 2 1; EVolume (1 / 2)].
Proof. cbn. tauto. Qed.
