(** C14 — entry point of the correspondence check (model / specification side).
    Bit-exact items: the SPECIFICATIONS (not the effect models) are evaluated in Flocq binary32
      - volume control = frame * C19's [db_as_amplitude]; panning control = C19's [panned];
      - distortion = the two clip curves around the drive;
      - delay impulse response = the closed-form echo train (g^k at frame k D, zero elsewhere);
      - reverb = the Freeverb network written with history lists (SpecFreeverb.v, growth);
    plus sample-by-sample traces of every effect against the C13 effect models ([CTrace]), which
    are the terms the C14 theorems are about — single runs ([C13.Run.Case], any internal buffer
    size and slicing, e.g. the compressor through slices of exact zeros) and runs across
    [on_change_sample_rate] ([C13.Run.CaseSR]: coefficients of the new rate, state carried over
    or lines rebuilt as [change_rate] says). *)
From Coq Require Import ZArith QArith List Bool.
From KV Require Import Base.IEEE Base.Outcome Base.Corr C13.ModelOps C13.ModelTree C19.ModelF32 C13.Run C14.SpecFreeverb C14.SpecQ.
Import ListNotations.
Local Open Scope Z_scope.

Inductive case :=
| CVol (db : Z) (tab : list (Z * Z)) (input : list (Z * Z))
| CPan (p : Z) (input : list (Z * Z))
| CDist (hard : Z) (db : Z) (tab : list (Z * Z)) (input : list (Z * Z))
| CEcho (D : Z) (fb : Z) (tab : list (Z * Z)) (mix : Z) (a b : Z) (N : Z)
| CFreeverb (sr : Z) (fb damp width : Z) (mix : Z) (input : list (Z * Z))   (* f64 x3, f32; the reference network *)
(** the harness's own binary64 evaluation of the textbook response (its reference for the measured
    responses) against the rational evaluation of the Coq prototypes: H_proto mode k (i om) and
    H_eq_proto kind (rA^2) q (i om); all numbers binary64 bit patterns *)
| CSpecFilter (mode : Z) (k om : Z) (re im : Z)
| CSpecEq (kind : Z) (rA q om : Z) (re im : Z)
| CTrace (c : C13.Run.case)
(** a HISTORY of device rates: segments (rate, slice sizes, input); [init] at the first rate, [on_change_sample_rate]
    ([change_rate], with the effect compiled for the new rate) before every later segment — any number of
    changes, repeats and returns to an earlier rate included *)
| CHist (T : Z) (tab : list (Z * Z * Z)) (e : C13.Run.edesc) (segs : list (Z * list Z * list (Z * Z))).

(** [10.0f32.powf(x)] as a table (argument bits, result bits) recorded from the platform's libm *)
Fixpoint lookup2 (tab : list (Z * Z)) (x : Z) : option Z :=
  match tab with
  | [] => None
  | (a, r) :: tab' => if a =? x then Some r else lookup2 tab' x
  end.
Definition powf10_tab (tab : list (Z * Z)) (x : f32) : f32 :=
  match lookup2 tab (bits_of_f32 x) with Some r => f32_of_bits r | None => f32_of_bits 0x01234567 end.

(** zeros are compared as values (the blend [wet * 1 + dry * 0] may turn -0 into +0) *)
Definition canon (x : f32) : Z := if eq32 x (Z32 0) then 0 else bits_of_f32 x.
Definition enc (out : list (f32 * f32)) : list Z := flat_map (fun fr => [canon (fst fr); canon (snd fr)]) out.
Definition frames (input : list (Z * Z)) : list (f32 * f32) :=
  map (fun p => (f32_of_bits (fst p), f32_of_bits (snd p))) input.

(** *** distortion: clip curve around the drive (fully wet) *)
Definition one32 := Z32 1.
Definition spec_dist32 (hard : bool) (d x : f32) : f32 :=
  if eq32 d (Z32 0) then x
  else
    let v := mul32 x d in
    let c := if hard then clamp32 v (Z32 (-1)) one32 else div32 v (add32 one32 (abs32 v)) in
    div32 c d.

(** *** delay: closed-form echo train for an impulse at frame 0 *)
Fixpoint iter_mul (k : nat) (v g : f32) : f32 :=
  match k with O => v | S k' => mul32 (iter_mul k' v g) g end.
Definition echo32 (D : Z) (g a : f32) (n : Z) : f32 :=
  if (n =? 0) || negb (n mod D =? 0) then Z32 0 else iter_mul (Z.to_nat (n / D)) a g.
Definition mix32 (wet dry mix : f32) : f32 :=
  let m := clamp32 mix (Z32 0) one32 in
  add32 (mul32 wet (sqrt32 m)) (mul32 dry (sqrt32 (sub32 one32 m))).
Definition zrange (n : Z) : list Z := map Z.of_nat (seq 0 (Z.to_nat n)).

(** exact value of a finite binary64 *)
Definition q_of_f64 (x : f64) : Q :=
  let '(m, e) := dyadic_of x in
  if (0 <=? e)%Z then inject_Z (m * 2 ^ e) else (m # Z.to_pos (2 ^ (- e))).
Definition qb (bits : Z) : Q := q_of_f64 (f64_of_bits bits).
(** |a - b|^2 <= (1e-9)^2 (1 + |a|^2) *)
Definition cq_close (a b : CQ) : bool :=
  let d := (fst a - fst b, snd a - snd b)%Q in
  Qle_bool (cq_norm2 d * 1000000000000000000) (1 + cq_norm2 a).
Definition verdict (den h spec_val : CQ) : list Z :=
  if Qeq_bool (cq_norm2 den) 0 then [2] else if cq_close h spec_val then [1] else [0].

Fixpoint hist_go (T : nat) (tab : list (Z * Z * Z)) (d : C13.Run.edesc) (s : estate f32) (first : bool)
         (segs : list (Z * list Z * list (Z * Z))) : outcome (list (frame f32)) :=
  match segs with
  | [] => Ok []
  | (sr, sl, inp) :: rest =>
      let e := compile sr tab d in
      let s0 := if first then s else change_rate e s in
      let! (s1, o1) := process_slices consts_f32 T e s0 (split_by (map Z.to_nat sl) (frames inp)) in
      let! o2 := hist_go T tab d s1 false rest in
      Ok (o1 ++ o2)
  end.

Definition run (c : case) : list Z :=
  match c with
  | CVol db tab input =>
      let amp := db_as_amplitude (powf10_tab tab) (f32_of_bits db) in
      enc (map (fun fr => (mul32 (fst fr) amp, mul32 (snd fr) amp)) (frames input))
  | CPan p input =>
      enc (map (fun fr => panned (fst fr) (snd fr) (f32_of_bits p)) (frames input))
  | CDist hard db tab input =>
      let d := db_as_amplitude (powf10_tab tab) (f32_of_bits db) in
      enc (map (fun fr => (spec_dist32 (hard =? 0) d (fst fr), spec_dist32 (hard =? 0) d (snd fr))) (frames input))
  | CEcho D fb tab mix a b N =>
      let g := db_as_amplitude (powf10_tab tab) (f32_of_bits fb) in
      let m := f32_of_bits mix in
      enc (map (fun n =>
                  let xa := if n =? 0 then f32_of_bits a else Z32 0 in
                  let xb := if n =? 0 then f32_of_bits b else Z32 0 in
                  (mix32 (echo32 D g (f32_of_bits a) n) xa m, mix32 (echo32 D g (f32_of_bits b) n) xb m))
               (zrange N))
  | CFreeverb sr fb damp width mix input =>
      flat_map (fun fr => [bits_of_f32 (fst fr); bits_of_f32 (snd fr)])
        (freeverb consts_f32 (fv_sizes sr fv_comb_tunings) (fv_sizes sr fv_allpass_tunings)
                  (f64_to_f32 (f64_of_bits fb)) (f64_to_f32 (f64_of_bits damp))
                  (f64_to_f32 (eff (f64_of_bits width))) (eff (f32_of_bits mix)) (frames input))
  | CSpecFilter mode k om re im =>
      let s := (0%Q, qb om) in
      verdict (proto_den_Q (qb k) s) (H_proto_Q (mode_of mode) (qb k) s) (qb re, qb im)
  | CSpecEq kind rA q om re im =>
      let s := (0%Q, qb om) in
      verdict (eq_den_Q (kind_of kind) (qb rA) (qb q) s) (H_eq_proto_Q (kind_of kind) (qb rA) (qb q) s) (qb re, qb im)
  | CTrace c13 => C13.Run.run c13
  | CHist T tab d segs =>
      match segs with
      | [] => encode_outcome enc_frames (Ok [])
      | (sr0, _, _) :: _ =>
          encode_outcome enc_frames (hist_go (Z.to_nat T) tab d (init (compile sr0 tab d)) true segs)
      end
  end.
