(** C14 — the compressor model: below the threshold the signal is only multiplied by the make-up
    gain; at a constant level above the threshold the envelope follows o + s^n (e0 - o) exactly, for
    every n, with s the attack coefficient when rising and the release coefficient when falling, so
    the gain change converges to (level - threshold) (1/ratio - 1) dB; s = exp(-dt/tau). *)
From Coq Require Import ZArith List Bool Arith Lia Reals Lra.
From KV Require Import Base.Outcome C13.ModelOps C13.ModelEffects C13.ModelDelay C13.ModelTree
     C14.SpecLaws C14.ProofsLaws C14.Signals C14.SpecCompressor.
Import ListNotations.
Open Scope ops_scope.
Local Open Scope R_scope.

Section Channel.
  Variables (lg pw : R -> R) (thr ratio att rel : R).

  (** one update of the follower as the model computes it *)
  Lemma comp_channel_R : forall env v,
      let o := overshoot thr (level_db lg v) in
      let sp := if Rlt_dec o env then rel else att in
      comp_channel lg pw thr ratio att rel env v =
      (o + sp * (env - o), pw ((o + sp * (env - o)) * (1 / ratio - 1) / 20)).
  Proof.
    intros env v. unfold comp_channel, overshoot, level_db. cbn.
    destruct (Rlt_dec (Rmax (20 * lg (Rabs v) - thr) 0) env); reflexivity.
  Qed.

  (** towards a constant target the update is the affine contraction with the speed chosen at the start *)
  Lemma follower_step : forall o e0 n, 0 <= att -> 0 <= rel ->
      let s := follower_speed att rel o e0 in
      let e := follower o s e0 n in
      o + (if Rlt_dec o e then rel else att) * (e - o) = follower o s e0 (S n).
  Proof.
    intros o e0 n Ha Hr s e. unfold e, follower. cbn [pow].
    unfold s, follower_speed. destruct (Rlt_dec o e0) as [H0|H0].
    - (* falling: release *)
      assert (Hp : 0 <= rel ^ n) by (apply pow_le; exact Hr).
      destruct (Rlt_dec o (o + rel ^ n * (e0 - o))) as [H1|H1]; [ring|].
      assert (E : rel ^ n * (e0 - o) = 0) by nra. rewrite E. replace (rel * rel ^ n * (e0 - o)) with (rel * (rel ^ n * (e0 - o))) by ring.
      rewrite E. ring.
    - (* rising: attack *)
      assert (Hp : 0 <= att ^ n) by (apply pow_le; exact Ha).
      destruct (Rlt_dec o (o + att ^ n * (e0 - o))) as [H1|H1]; [|ring]. exfalso. nra.
  Qed.
End Channel.

(** * the effect *)
Section Effect.
  Variables (lg pw : R -> R) (thr ratio att rel mk_db mix : R).
  Let e := ECompressor lg pw thr ratio att rel mk_db mix.
  Let mk := pw (mk_db / 20).

  (** below the threshold, follower at rest: unchanged up to the make-up gain (and the blend) *)
  Definition below (x : frame R) : Prop := level_db lg (fst x) <= thr /\ level_db lg (snd x) <= thr.

  Lemma comp_below_step : forall x, pw 0 = 1 -> below x ->
      estep consts_R e (SComp (0, 0)) x =
      (SComp (0, 0), blend (fst x * mk, snd x * mk) x mix).
  Proof.
    intros [l r] Hpw [Bl Br]. cbn [fst snd] in *. unfold e. cbn [estep]. unfold compressor_step. cbn [fst snd].
    rewrite !comp_channel_R. cbv zeta.
    assert (Ol : overshoot thr (level_db lg l) = 0) by (unfold overshoot; apply Rmax_right; lra).
    assert (Or : overshoot thr (level_db lg r) = 0) by (unfold overshoot; apply Rmax_right; lra).
    rewrite Ol, Or. destruct (Rlt_dec 0 0); [lra|].
    replace (0 + att * (0 - 0)) with 0 by ring. replace (0 * (1 / ratio - 1) / 20) with 0 by (unfold Rdiv; ring).
    rewrite Hpw. unfold fr_scale. cbn [fst snd omul Ops_R]. change (mk_db /! oZ 20) with (mk_db / 20). fold mk.
    replace (1 * l * mk) with (l * mk) by ring. replace (1 * r * mk) with (r * mk) by ring. reflexivity.
  Qed.

  Theorem compressor_below_threshold : forall xs, pw 0 = 1 -> Forall below xs ->
      run_frames (estep consts_R e) (SComp (0, 0)) xs =
      (SComp (0, 0), map (fun x => blend (fst x * mk, snd x * mk) x mix) xs).
  Proof.
    intros xs Hpw H. induction H as [|x xs Hx _ IH]; [reflexivity|].
    cbn [run_frames map]. rewrite comp_below_step by assumption. rewrite IH. reflexivity.
  Qed.

  (** constant levels Ll, Lr (in dB) on the two channels, follower starting at (el0, er0) *)
  Variables Ll Lr el0 er0 : R.
  Hypothesis Hatt : 0 <= att.
  Hypothesis Hrel : 0 <= rel.
  Let ol := overshoot thr Ll.
  Let or_ := overshoot thr Lr.
  Let sl := follower_speed att rel ol el0.
  Let sr := follower_speed att rel or_ er0.
  Definition at_levels (x : frame R) : Prop := level_db lg (fst x) = Ll /\ level_db lg (snd x) = Lr.

  (** gain change in dB on each channel at frame n (the follower is updated before it is applied) *)
  Definition gain_db_l (n : nat) : R := follower ol sl el0 (S n) * (1 / ratio - 1).
  Definition gain_db_r (n : nat) : R := follower or_ sr er0 (S n) * (1 / ratio - 1).

  Variable x : nat -> frame R.
  Hypothesis Hx : forall n, at_levels (x n).

  Definition comp_out (n : nat) : frame R :=
    blend (pw (gain_db_l n / 20) * fst (x n) * mk, pw (gain_db_r n / 20) * snd (x n) * mk) (x n) mix.

  Lemma comp_const_step : forall n s,
      s = SComp (follower ol sl el0 n, follower or_ sr er0 n) ->
      fst (estep consts_R e s (x n)) = SComp (follower ol sl el0 (S n), follower or_ sr er0 (S n)) /\
      snd (estep consts_R e s (x n)) = comp_out n.
  Proof.
    intros n s ->. destruct (Hx n) as [El Er]. unfold e. cbn [estep]. unfold compressor_step. cbn [fst snd].
    rewrite !comp_channel_R. cbv zeta. rewrite El, Er. fold ol or_.
    pose proof (follower_step att rel ol el0 n Hatt Hrel) as Fl. cbv zeta in Fl. fold sl in Fl.
    pose proof (follower_step att rel or_ er0 n Hatt Hrel) as Fr. cbv zeta in Fr. fold sr in Fr.
    rewrite Fl, Fr. cbn [fst snd]. split; [reflexivity|].
    unfold comp_out, gain_db_l, gain_db_r, fr_scale. cbn [fst snd omul Ops_R]. change (mk_db /! oZ 20) with (mk_db / 20). fold mk. reflexivity.
  Qed.

  Theorem compressor_constant_level : forall N,
      run_frames (estep consts_R e) (SComp (el0, er0)) (map x (seq 0 N)) =
      (SComp (follower ol sl el0 N, follower or_ sr er0 N), map comp_out (seq 0 N)).
  Proof.
    intros N.
    pose proof (run_indexed (estep consts_R e)
                            (fun n s => s = SComp (follower ol sl el0 n, follower or_ sr er0 n)) x comp_out) as H.
    assert (Hstep : forall n s, s = SComp (follower ol sl el0 n, follower or_ sr er0 n) ->
                                fst (estep consts_R e s (x n)) = SComp (follower ol sl el0 (S n), follower or_ sr er0 (S n)) /\
                                snd (estep consts_R e s (x n)) = comp_out n) by exact comp_const_step.
    assert (H0 : SComp (el0, er0) = SComp (follower ol sl el0 0, follower or_ sr er0 0)).
    { unfold follower. cbn [pow]. f_equal. f_equal; ring. }
    destruct (H Hstep N 0%nat _ H0) as [H1 H2]. cbn [Nat.add] in H1.
    destruct (run_frames (estep consts_R e) (SComp (el0, er0)) (map x (seq 0 N))) as [s ys]. cbn [fst snd] in *.
    subst. reflexivity.
  Qed.
End Effect.

(** * convergence and time constants *)
Lemma follower_converges : forall o s e0, 0 <= s < 1 ->
    forall eps, 0 < eps -> exists N, forall n, (N <= n)%nat -> Rabs (follower o s e0 n - o) < eps.
Proof.
  intros o s e0 Hs eps He. unfold follower.
  destruct (Req_dec (e0 - o) 0) as [E|NE].
  - exists 0%nat. intros n _. rewrite E. replace (o + s ^ n * 0 - o) with 0 by ring. rewrite Rabs_R0. exact He.
  - assert (Hd : 0 < Rabs (e0 - o)) by (apply Rabs_pos_lt; exact NE).
    destruct (pow_lt_1_zero s ltac:(rewrite Rabs_right; lra) (eps / Rabs (e0 - o)) ltac:(apply Rdiv_lt_0_compat; lra)) as [N HN].
    exists N. intros n Hn. replace (o + s ^ n * (e0 - o) - o) with (s ^ n * (e0 - o)) by ring.
    rewrite Rabs_mult. specialize (HN n ltac:(lia)).
    apply (Rmult_lt_compat_r (Rabs (e0 - o))) in HN; [|exact Hd].
    replace (eps / Rabs (e0 - o) * Rabs (e0 - o)) with eps in HN by (field; lra). exact HN.
Qed.

(** the gain change converges to the static curve: (level - threshold) (1/ratio - 1) dB above the threshold *)
Lemma gain_converges : forall thr ratio L s e0, 0 <= s < 1 ->
    forall eps, 0 < eps -> exists N, forall n, (N <= n)%nat ->
      Rabs (follower (overshoot thr L) s e0 n * (1 / ratio - 1) - static_gain_db thr ratio L) < eps.
Proof.
  intros thr ratio L s e0 Hs eps He. unfold static_gain_db.
  destruct (Req_dec (1 / ratio - 1) 0) as [E|NE].
  - exists 0%nat. intros n _. rewrite E. rewrite !Rmult_0_r. replace (0 - 0) with 0 by ring. rewrite Rabs_R0. exact He.
  - assert (Hd : 0 < Rabs (1 / ratio - 1)) by (apply Rabs_pos_lt; exact NE).
    destruct (follower_converges (overshoot thr L) s e0 Hs (eps / Rabs (1 / ratio - 1)) ltac:(apply Rdiv_lt_0_compat; lra)) as [N HN].
    exists N. intros n Hn. specialize (HN n Hn).
    replace (follower (overshoot thr L) s e0 n * (1 / ratio - 1) - overshoot thr L * (1 / ratio - 1))
      with ((follower (overshoot thr L) s e0 n - overshoot thr L) * (1 / ratio - 1)) by ring.
    rewrite Rabs_mult. apply (Rmult_lt_compat_r (Rabs (1 / ratio - 1))) in HN; [|exact Hd].
    replace (eps / Rabs (1 / ratio - 1) * Rabs (1 / ratio - 1)) with eps in HN by (field; lra). exact HN.
Qed.
Lemma static_gain_above : forall thr ratio L, thr <= L ->
    static_gain_db thr ratio L = - ((L - thr) * (1 - 1 / ratio)) /\
    L + static_gain_db thr ratio L = thr + (L - thr) / ratio.
Proof.
  intros thr ratio L H. unfold static_gain_db, overshoot. rewrite Rmax_left by lra. split; unfold Rdiv; ring.
Qed.
Lemma static_gain_below : forall thr ratio L, L <= thr -> static_gain_db thr ratio L = 0.
Proof. intros thr ratio L H. unfold static_gain_db, overshoot. rewrite Rmax_right by lra. ring. Qed.

(** the coefficient compressor.rs computes, (-1 / (tau / dt)).exp(), is exp(-dt/tau): after n frames
    (t = n dt seconds) the distance to the target has shrunk by e^(-t/tau): tau is the time constant *)
Lemma comp_speed_R : forall tau dt, 0 < tau -> 0 < dt ->
    comp_speed exp tau dt = smoothing tau dt /\ 0 < smoothing tau dt < 1.
Proof.
  intros tau dt Ht Hd. unfold comp_speed, smoothing. cbn. change (IZR (-1)) with (-1). split.
  - f_equal. field. lra.
  - split; [apply exp_pos|]. rewrite <- exp_0. apply exp_increasing.
    assert (0 < dt / tau) by (apply Rdiv_lt_0_compat; lra). unfold Rdiv in *. lra.
Qed.
Lemma smoothing_pow : forall tau dt n, smoothing tau dt ^ n = exp (- (INR n * dt) / tau).
Proof.
  intros tau dt. induction n as [|n IH].
  - cbn [pow INR]. replace (- (0 * dt) / tau) with 0 by (unfold Rdiv; ring). symmetry. apply exp_0.
  - cbn [pow]. rewrite IH, S_INR. unfold smoothing. rewrite <- exp_plus. f_equal. unfold Rdiv. ring.
Qed.
Lemma follower_time_constant : forall o e0 tau dt n,
    follower o (smoothing tau dt) e0 n - o = exp (- (INR n * dt) / tau) * (e0 - o).
Proof. intros. unfold follower. rewrite smoothing_pow. ring. Qed.
