(** C14 — the compressor through a PIECEWISE-constant level history, digital silence included.
    A segment is a stretch of frames whose overshoot above the threshold is constant on each channel
    (a constant level; any signal at or below the threshold, overshoot 0; exact zeros: the code
    computes 20 log10(0) = -inf, (-inf - threshold).max(0) = 0, again overshoot 0).  After any
    sequence of segments the follower is the composition of the per-segment closed forms
    o + s^n (e - o); in particular it keeps RELEASING through silence (rel^n), so that a signal
    below the threshold that follows a loud passage and a gap gets exactly the gain of
    rel^(gap + j + 1) e1, whatever the gap consists of and however the frames are cut into
    process calls (C13's partition theorem). *)
From Coq Require Import ZArith List Bool Arith Lia Reals Lra.
From Flocq Require Import Core IEEE754.BinarySingleNaN.
From KV Require Import Base.IEEE Base.Outcome C13.ModelOps C13.ModelEffects C13.ModelDelay C13.ModelTree C13.ProofsSeq
     C14.SpecLaws C14.ProofsLaws C14.Signals C14.SpecCompressor C14.ProofsCompressor.
Import ListNotations.
Open Scope ops_scope.
Local Open Scope R_scope.

(** a segment: the overshoot on the left and right channel, and the frames *)
Definition cseg : Type := (R * R * list (frame R))%type.
Definition seg_l (sg : cseg) : R := fst (fst sg).
Definition seg_r (sg : cseg) : R := snd (fst sg).
Definition seg_frames (sg : cseg) : list (frame R) := snd sg.

Section Segments.
  Variables (lg pw : R -> R) (thr ratio att rel mk_db mix : R).
  Hypothesis Hatt : 0 <= att.
  Hypothesis Hrel : 0 <= rel.
  Let e := ECompressor lg pw thr ratio att rel mk_db mix.
  Let mk := pw (mk_db / 20).

  (** the detector sees the overshoot (ol, or) in this frame *)
  Definition at_overshoot (ol or_ : R) (x : frame R) : Prop :=
    overshoot thr (level_db lg (fst x)) = ol /\ overshoot thr (level_db lg (snd x)) = or_.

  Lemma at_levels_overshoot : forall Ll Lr x,
      at_levels lg Ll Lr x -> at_overshoot (overshoot thr Ll) (overshoot thr Lr) x.
  Proof. intros Ll Lr x [Hl Hr]. unfold at_overshoot. rewrite Hl, Hr. split; reflexivity. Qed.
  Lemma below_overshoot : forall x, below lg thr x -> at_overshoot 0 0 x.
  Proof.
    intros x [Hl Hr]. unfold at_overshoot, overshoot. split; apply Rmax_right; lra.
  Qed.
  (** digital silence: the level of an exact zero is below the threshold (it is -inf in the code) *)
  Lemma silence_overshoot : 20 * lg (Rabs 0) <= thr -> at_overshoot 0 0 (0, 0).
  Proof. intros H. apply below_overshoot. split; cbn [fst snd]; unfold level_db; exact H. Qed.

  (** gain applied at frame n of a segment entered with the follower at e0 *)
  Definition seg_gain (o e0 : R) (n : nat) : R :=
    pw (follower o (follower_speed att rel o e0) e0 (S n) * (1 / ratio - 1) / 20).
  Fixpoint seg_out (ol or_ el0 er0 : R) (n : nat) (xs : list (frame R)) : list (frame R) :=
    match xs with
    | [] => []
    | x :: xs' =>
        blend (seg_gain ol el0 n * fst x * mk, seg_gain or_ er0 n * snd x * mk) x mix
        :: seg_out ol or_ el0 er0 (S n) xs'
    end.
  Definition seg_end (o e0 : R) (n : nat) : R := follower o (follower_speed att rel o e0) e0 n.

  Lemma seg_step : forall ol or_ el0 er0 n x,
      at_overshoot ol or_ x ->
      estep consts_R e (SComp (seg_end ol el0 n, seg_end or_ er0 n)) x =
      (SComp (seg_end ol el0 (S n), seg_end or_ er0 (S n)),
       blend (seg_gain ol el0 n * fst x * mk, seg_gain or_ er0 n * snd x * mk) x mix).
  Proof.
    intros ol or_ el0 er0 n x [El Er]. unfold e. cbn [estep]. unfold compressor_step. cbn [fst snd].
    rewrite !comp_channel_R. cbv zeta. rewrite El, Er.
    pose proof (follower_step att rel ol el0 n Hatt Hrel) as Fl. cbv zeta in Fl.
    pose proof (follower_step att rel or_ er0 n Hatt Hrel) as Fr. cbv zeta in Fr.
    unfold seg_end. rewrite Fl, Fr. cbn [fst snd].
    unfold seg_gain, fr_scale. cbn [fst snd omul Ops_R]. change (mk_db /! oZ 20) with (mk_db / 20). fold mk.
    reflexivity.
  Qed.

  Lemma seg_run : forall ol or_ el0 er0 xs n,
      Forall (at_overshoot ol or_) xs ->
      run_frames (estep consts_R e) (SComp (seg_end ol el0 n, seg_end or_ er0 n)) xs =
      (SComp (seg_end ol el0 (n + length xs), seg_end or_ er0 (n + length xs)), seg_out ol or_ el0 er0 n xs).
  Proof.
    intros ol or_ el0 er0. induction xs as [|x xs IH]; intros n H.
    - cbn. rewrite Nat.add_0_r. reflexivity.
    - inversion H as [|? ? Hx Hxs]; subst. cbn [run_frames seg_out length].
      rewrite seg_step by exact Hx. rewrite IH by exact Hxs.
      replace (S n + length xs)%nat with (n + S (length xs))%nat by lia. reflexivity.
  Qed.

  Lemma seg_end_0 : forall o e0, seg_end o e0 0 = e0.
  Proof. intros. unfold seg_end, follower. cbn [pow]. ring. Qed.

  (** one whole segment from an arbitrary follower state *)
  Lemma seg_run0 : forall ol or_ el0 er0 xs,
      Forall (at_overshoot ol or_) xs ->
      run_frames (estep consts_R e) (SComp (el0, er0)) xs =
      (SComp (seg_end ol el0 (length xs), seg_end or_ er0 (length xs)), seg_out ol or_ el0 er0 0 xs).
  Proof.
    intros ol or_ el0 er0 xs H. pose proof (seg_run ol or_ el0 er0 xs 0 H) as E.
    rewrite !seg_end_0 in E. exact E.
  Qed.

  (** ** sequences of segments *)
  Definition seg_ok (sg : cseg) : Prop := Forall (at_overshoot (seg_l sg) (seg_r sg)) (seg_frames sg).
  Fixpoint segs_state (st : R * R) (segs : list cseg) : R * R :=
    match segs with
    | [] => st
    | sg :: rest =>
        segs_state (seg_end (seg_l sg) (fst st) (length (seg_frames sg)),
                    seg_end (seg_r sg) (snd st) (length (seg_frames sg))) rest
    end.
  Fixpoint segs_out (st : R * R) (segs : list cseg) : list (frame R) :=
    match segs with
    | [] => []
    | sg :: rest =>
        seg_out (seg_l sg) (seg_r sg) (fst st) (snd st) 0 (seg_frames sg)
        ++ segs_out (seg_end (seg_l sg) (fst st) (length (seg_frames sg)),
                     seg_end (seg_r sg) (snd st) (length (seg_frames sg))) rest
    end.

  Theorem compressor_piecewise : forall segs st,
      Forall seg_ok segs ->
      run_frames (estep consts_R e) (SComp st) (concat (map seg_frames segs)) =
      (SComp (segs_state st segs), segs_out st segs).
  Proof.
    induction segs as [|sg segs IH]; intros [el0 er0] H; [reflexivity|].
    inversion H as [|? ? Hsg Hrest]; subst. cbn [map concat segs_state segs_out fst snd].
    rewrite run_frames_app. rewrite (seg_run0 (seg_l sg) (seg_r sg)) by exact Hsg. cbn [fst snd].
    rewrite IH by exact Hrest. reflexivity.
  Qed.

  (** the state is the composition of the closed forms of SpecCompressor.v *)
  Lemma segs_state_follower : forall segs st,
      segs_state st segs =
      (follower_segs att rel (fst st) (map (fun sg => (seg_l sg, length (seg_frames sg))) segs),
       follower_segs att rel (snd st) (map (fun sg => (seg_r sg, length (seg_frames sg))) segs)).
  Proof.
    induction segs as [|sg segs IH]; intros [a b]; [reflexivity|].
    cbn [segs_state map follower_segs fst snd]. rewrite IH. reflexivity.
  Qed.

  (** ... for ANY cut of the frames into process calls (slices that fit the internal buffer T) *)
  Theorem compressor_piecewise_sliced : forall (T : nat) segs st (slices : list (list (frame R))),
      Forall seg_ok segs -> Forall (fun sl => (length sl <= T)%nat) slices ->
      concat slices = concat (map seg_frames segs) ->
      process_slices consts_R T e (SComp st) slices = Ok (SComp (segs_state st segs), segs_out st segs).
  Proof.
    intros T segs st slices Hs Hl Hc.
    rewrite (process_slices_is_stepwise consts_R T e slices (SComp st) eq_refl Hl).
    rewrite Hc. rewrite compressor_piecewise by exact Hs. reflexivity.
  Qed.

  (** ** loud passage, gap, signal below the threshold *)
  Lemma seg_end_rest : forall n, seg_end 0 0 n = 0.
  Proof. intros. unfold seg_end, follower. ring. Qed.
  (** towards overshoot 0 from e0 >= 0 the follower is rel^n e0 *)
  Lemma seg_end_release : forall e0 n, 0 <= e0 -> seg_end 0 e0 n = rel ^ n * e0.
  Proof.
    intros e0 n H. unfold seg_end, follower, follower_speed.
    destruct (Rlt_dec 0 e0) as [_|N]; [ring|]. assert (e0 = 0) by lra. subst. ring.
  Qed.
  Lemma seg_gain_release : forall e0 n, 0 <= e0 ->
      seg_gain 0 e0 n = pw (rel ^ S n * e0 * (1 / ratio - 1) / 20).
  Proof.
    intros e0 n H. unfold seg_gain. fold (seg_end 0 e0 (S n)). rewrite seg_end_release by exact H. reflexivity.
  Qed.
  (** from rest towards o >= 0: o (1 - att^n), not negative *)
  Lemma seg_end_attack : forall o n, 0 <= o -> att <= 1 -> seg_end o 0 n = o * (1 - att ^ n) /\ 0 <= seg_end o 0 n.
  Proof.
    intros o n Ho Ha. unfold seg_end, follower, follower_speed.
    destruct (Rlt_dec o 0) as [N|_]; [lra|]. split; [ring|].
    assert (0 <= att ^ n <= 1).
    { split; [apply pow_le; exact Hatt|]. pose proof (pow_incr att 1 n (conj Hatt Ha)) as P. rewrite pow1 in P. exact P. }
    replace (o + att ^ n * (0 - o)) with (o * (1 - att ^ n)) by ring. apply Rmult_le_pos; lra.
  Qed.

  Fixpoint quiet_out (e1 : R) (n : nat) (xs : list (frame R)) : list (frame R) :=
    match xs with
    | [] => []
    | x :: xs' =>
        let a := pw (rel ^ S n * e1 * (1 / ratio - 1) / 20) in
        blend (a * fst x * mk, a * snd x * mk) x mix :: quiet_out e1 (S n) xs'
    end.
  Lemma seg_out_release : forall el0 xs n, 0 <= el0 -> seg_out 0 0 el0 el0 n xs = quiet_out el0 n xs.
  Proof.
    intros el0. induction xs as [|x xs IH]; intros n H; [reflexivity|].
    cbn [seg_out quiet_out]. rewrite seg_gain_release by exact H. rewrite IH by exact H. reflexivity.
  Qed.
  Lemma quiet_out_shift : forall e1 m xs n, quiet_out (rel ^ m * e1) n xs = quiet_out e1 (m + n) xs.
  Proof.
    intros e1 m. induction xs as [|x xs IH]; intros n; [reflexivity|].
    cbn [quiet_out]. rewrite IH. replace (m + S n)%nat with (S (m + n)) by lia.
    replace (rel ^ S n * (rel ^ m * e1)) with (rel ^ S (m + n) * e1)
      by (replace (S (m + n)) with (S n + m)%nat by lia; rewrite pow_add; ring).
    reflexivity.
  Qed.

  Theorem compressor_release_through_silence : forall (L : R) (loud gap quiet : list (frame R)),
      thr <= L -> att <= 1 ->
      Forall (at_levels lg L L) loud -> Forall (at_overshoot 0 0) gap -> Forall (at_overshoot 0 0) quiet ->
      let e1 := (L - thr) * (1 - att ^ length loud) in
      run_frames (estep consts_R e) (SComp (0, 0)) (loud ++ gap ++ quiet) =
      (SComp (rel ^ (length gap + length quiet) * e1, rel ^ (length gap + length quiet) * e1),
       seg_out (L - thr) (L - thr) 0 0 0 loud ++ quiet_out e1 0 gap ++ quiet_out e1 (length gap) quiet).
  Proof.
    intros L loud gap quiet HL Ha Hloud Hgap Hquiet e1.
    assert (Ho : overshoot thr L = L - thr) by (unfold overshoot; apply Rmax_left; lra).
    pose proof (compressor_piecewise [(L - thr, L - thr, loud); (0, 0, gap); (0, 0, quiet)] (0, 0)) as P.
    assert (Hok : Forall seg_ok [(L - thr, L - thr, loud); (0, 0, gap); (0, 0, quiet)]).
    { repeat constructor; unfold seg_ok, seg_l, seg_r, seg_frames; cbn [fst snd]; try assumption.
      rewrite <- Ho. eapply Forall_impl; [|exact Hloud]. intros x Hx. apply at_levels_overshoot. exact Hx. }
    specialize (P Hok). cbn [map concat seg_frames snd] in P. rewrite app_nil_r in P. rewrite P. clear P.
    cbn [segs_state segs_out seg_l seg_r seg_frames fst snd].
    destruct (seg_end_attack (L - thr) (length loud) ltac:(lra) Ha) as [E1 P1]. fold e1 in E1.
    rewrite E1 in *.
    assert (P2 : 0 <= rel ^ length gap * e1) by (apply Rmult_le_pos; [apply pow_le; exact Hrel|exact P1]).
    rewrite (seg_end_release e1 (length gap) P1). rewrite (seg_end_release _ (length quiet) P2).
    rewrite (seg_out_release e1 gap 0 P1). rewrite (seg_out_release _ quiet 0 P2).
    rewrite quiet_out_shift. rewrite Nat.add_0_r. rewrite app_nil_r.
    replace (rel ^ length quiet * (rel ^ length gap * e1)) with (rel ^ (length gap + length quiet) * e1) by (rewrite pow_add; ring).
    reflexivity.
  Qed.
End Segments.

(** * non-vacuity: a detector that maps 0 to a level far below any threshold, 1 to 0 dB, everything else to -40 dB;
    threshold -20 dB, ratio 4; two loud frames, three exact zeros, two quiet frames *)
Definition lg_ex (v : R) : R := if Req_EM_T v 0 then -1000 else if Req_EM_T v 1 then 0 else -2.
Example piecewise_hypotheses_satisfiable :
  let thr := -20 in
  Forall (at_levels lg_ex 0 0) [(1, -1); (-1, 1)] /\ thr <= 0 /\
  Forall (at_overshoot lg_ex thr 0 0) [(0, 0); (0, 0); (0, 0)] /\
  Forall (at_overshoot lg_ex thr 0 0) [(1 / 100, 1 / 100); (- (1 / 100), 1 / 100)] /\
  20 * lg_ex (Rabs 0) <= thr /\
  seg_ok lg_ex thr (20, 20, [(1, -1); (-1, 1)]).
Proof.
  assert (L1 : forall v, Rabs v = 1 -> level_db lg_ex v = 0).
  { intros v Hv. unfold level_db, lg_ex. rewrite Hv. destruct (Req_EM_T 1 0); [lra|]. destruct (Req_EM_T 1 1); lra. }
  assert (L0 : level_db lg_ex 0 = -20000).
  { unfold level_db, lg_ex. rewrite Rabs_R0. destruct (Req_EM_T 0 0); lra. }
  assert (Lq : forall v, Rabs v = 1 / 100 -> level_db lg_ex v = -40).
  { intros v Hv. unfold level_db, lg_ex. rewrite Hv. destruct (Req_EM_T (1 / 100) 0); [lra|]. destruct (Req_EM_T (1 / 100) 1); lra. }
  assert (A1 : Rabs 1 = 1) by (apply Rabs_right; lra).
  assert (A2 : Rabs (-1) = 1) by (unfold Rabs; destruct (Rcase_abs (-1)); lra).
  assert (A3 : Rabs (1 / 100) = 1 / 100) by (apply Rabs_right; lra).
  assert (A4 : Rabs (- (1 / 100)) = 1 / 100) by (rewrite Rabs_Ropp; exact A3).
  assert (O0 : overshoot (-20) (-20000) = 0) by (unfold overshoot; apply Rmax_right; lra).
  assert (Oq : overshoot (-20) (-40) = 0) by (unfold overshoot; apply Rmax_right; lra).
  assert (Ol : overshoot (-20) 0 = 20) by (unfold overshoot; rewrite Rmax_left by lra; lra).
  cbv zeta. repeat split; repeat constructor; unfold at_levels, at_overshoot, seg_l, seg_r; cbn [fst snd];
    rewrite ?L0, ?(L1 1 A1), ?(L1 (-1) A2), ?(Lq _ A3), ?(Lq _ A4), ?O0, ?Oq, ?Ol; try reflexivity; try lra.
  unfold lg_ex. rewrite Rabs_R0. destruct (Req_EM_T 0 0); lra.
Qed.

(** * what the code's arithmetic does with an exact zero, bit for bit (binary32): log10(+0) = -inf as libm
    returns it; for EVERY finite threshold the overshoot is +0, so the follower update is
    0 + speed * (env - 0) with the release coefficient whenever the follower is above 0 *)
Lemma max32_neginf_zero : max32 (B754_infinity true) (Z32 0) = Z32 0.
Proof. vm_compute. reflexivity. Qed.
Theorem compressor_exact_zero_b32 :
  forall (lg pw : f32 -> f32) (thr ratio sa sr env z : f32),
    (z = B754_zero false \/ z = B754_zero true) ->
    lg (B754_zero false) = B754_infinity true ->
    is_finite thr = true ->
    fst (comp_channel lg pw thr ratio sa sr env z) =
    add32 (Z32 0) (mul32 (if lt32 (Z32 0) env then sr else sa) (sub32 env (Z32 0))).
Proof.
  intros lg pw thr ratio sa sr env z Hz Hlg Ft.
  unfold comp_channel. cbn [fst oZ oadd osub omul oabs omax oltb Ops_f32].
  assert (Ea : abs32 z = B754_zero false) by (destruct Hz; subst; reflexivity).
  rewrite Ea, Hlg.
  assert (E20 : mul32 (Z32 20) (B754_infinity true) = B754_infinity true) by (vm_compute; reflexivity).
  rewrite E20.
  assert (Es : sub32 (B754_infinity true) thr = B754_infinity true).
  { destruct thr as [s|s| |s m ex Hm]; try discriminate; reflexivity. }
  rewrite Es, max32_neginf_zero. reflexivity.
Qed.
