(** C14 — textbook specification of a feed-forward compressor working in the decibel domain
    (cf. the "simple compressor" the code cites, and Giannoulis/Massberg/Reiss, "Digital Dynamic
    Range Compressor Design", JAES 2012): level detector in dB, static curve with threshold and
    ratio, one-pole smoothing with separate attack and release time constants.  Independent of the
    effect models. *)
From Coq Require Import Reals Lra.
Local Open Scope R_scope.

(** level of a sample in decibels; [lg] is the base-10 logarithm *)
Definition level_db (lg : R -> R) (v : R) : R := 20 * lg (Rabs v).
Definition log10R (x : R) : R := ln x / ln 10.

(** how far the level is above the threshold (0 below it) *)
Definition overshoot (thr L : R) : R := Rmax (L - thr) 0.

(** static curve: above the threshold an increase of x dB comes out as x / ratio dB, i.e. the gain
    change is overshoot * (1/ratio - 1) dB (a reduction for ratio > 1) *)
Definition static_gain_db (thr ratio L : R) : R := overshoot thr L * (1 / ratio - 1).

(** one-pole smoothing coefficient of a time constant tau at sample period dt *)
Definition smoothing (tau dt : R) : R := exp (- dt / tau).

(** the follower moving towards a constant target o from e0: after n updates *)
Definition follower (o s e0 : R) (n : nat) : R := o + s ^ n * (e0 - o).
(** which time constant applies: attack while the detected overshoot is not below the follower *)
Definition follower_speed (att rel o e0 : R) : R := if Rlt_dec o e0 then rel else att.

(** the follower through a piecewise-constant history: a list of segments (overshoot o held for n frames),
    the composition of the per-segment closed forms, each starting where the previous one ended with
    the speed that applies there *)
Fixpoint follower_segs (att rel e0 : R) (segs : list (R * nat)) : R :=
  match segs with
  | nil => e0
  | cons (o, n) rest => follower_segs att rel (follower o (follower_speed att rel o e0) e0 n) rest
  end.
