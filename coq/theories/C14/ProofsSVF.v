(** C14 — the state-variable core shared by filter.rs and eq_filter.rs has the transfer functions of
    the bilinear-transformed analog prototypes.  For a complex exponential input X z^n the model
    (complex instance, real coefficients) started in the matching state answers H(z) X z^n for EVERY n
    (induction over the run), with band output P Q / D and low output Q^2 / D
    (P = z - 1, Q = g (z + 1), D = P^2 + k P Q + Q^2); projected to the real-number instance this is
    the response to a (growing / decaying / steady) sinusoid. *)
From Coq Require Import ZArith List Bool Arith Lia Reals Lra.
From Coquelicot Require Import Complex.
From KV Require Import Base.Outcome C13.ModelOps C13.ModelEffects C13.ModelDelay C13.ModelTree
     C14.SpecLaws C14.ProofsLaws C14.Signals C14.OpsC C14.SpecSVF.
Import ListNotations.
Open Scope ops_scope.
Local Open Scope C_scope.

Definition svfP (z : C) : C := z - c1.
Definition svfQ (g : R) (z : C) : C := RtoC g * (z + c1).
Definition svfD (g k : R) (z : C) : C := svfP z * svfP z + RtoC k * svfP z * svfQ g z + svfQ g z * svfQ g z.
(** steady-state amplitudes of the two integrator states *)
Definition svfI1 (g k : R) (z : C) : C := (c1 + c1) * svfP z * RtoC g / svfD g k z.
Definition svfI2 (g k : R) (z : C) : C := (c1 + c1) * svfQ g z * RtoC g / svfD g k z.

(** the coefficients as filter.rs / eq_filter.rs compute them from g and k *)
Definition svf_a1 (g k : R) : R := (1 / (1 + g * (g + k)))%R.
Definition svf_a2 (g k : R) : R := (g * svf_a1 g k)%R.
Definition svf_a3 (g k : R) : R := (g * svf_a2 g k)%R.

Section Core.
  Variables g k : R.
  Hypothesis Hden : (1 + g * (g + k) <> 0)%R.
  Variable z : C.
  Hypothesis HD : svfD g k z <> RtoC 0.

  Lemma a1_C : RtoC (svf_a1 g k) = / (c1 + RtoC g * (RtoC g + RtoC k)).
  Proof.
    unfold svf_a1. unfold Rdiv. rewrite Rmult_1_l. rewrite RtoC_inv by exact Hden.
    rewrite RtoC_plus, RtoC_mult, RtoC_plus. reflexivity.
  Qed.
  Lemma den_C : c1 + RtoC g * (RtoC g + RtoC k) <> RtoC 0.
  Proof.
    rewrite <- RtoC_plus, <- RtoC_mult, <- RtoC_plus. intros E. apply Hden.
    injection E. auto.
  Qed.

  Ltac svf_field :=
    unfold svf_a3, svf_a2; rewrite ?RtoC_mult, ?a1_C;
    unfold svfI1, svfI2, H_svf_poly; fold (svfP z) (svfQ g z);
    change (svfP z * svfP z + RtoC k * svfP z * svfQ g z + svfQ g z * svfQ g z) with (svfD g k z);
    pose proof den_C;
    generalize HD; unfold svfD, svfP, svfQ; intros; field; repeat split; assumption.

  (** one step of the core on one channel *)
  Lemma core_v1 : forall x : C,
      svfI1 g k z * x * RtoC (svf_a1 g k) + (x - svfI2 g k z * x) * RtoC (svf_a2 g k) = H_svf_poly BandPass g k z * x.
  Proof. intros x. svf_field. Qed.
  Lemma core_v2 : forall x : C,
      svfI2 g k z * x + svfI1 g k z * x * RtoC (svf_a2 g k) + (x - svfI2 g k z * x) * RtoC (svf_a3 g k) =
      H_svf_poly LowPass g k z * x.
  Proof. intros x. svf_field. Qed.
  Lemma core_s1 : forall x : C,
      H_svf_poly BandPass g k z * x * RtoC 2 - svfI1 g k z * x = svfI1 g k z * (z * x).
  Proof. intros x. rewrite two_C. svf_field. Qed.
  Lemma core_s2 : forall x : C,
      H_svf_poly LowPass g k z * x * RtoC 2 - svfI2 g k z * x = svfI2 g k z * (z * x).
  Proof. intros x. rewrite two_C. svf_field. Qed.
  Lemma core_hp : forall x : C,
      x - H_svf_poly BandPass g k z * x * RtoC k - H_svf_poly LowPass g k z * x = H_svf_poly HighPass g k z * x.
  Proof. intros x. svf_field. Qed.
  Lemma core_notch : forall x : C,
      x - H_svf_poly BandPass g k z * x * RtoC k = H_svf_poly Notch g k z * x.
  Proof. intros x. svf_field. Qed.
End Core.

(** * frames, steps, runs *)
Definition steady (g k : R) (z : C) (X : frame C) (w : C) : frame C * frame C :=
  (cscale X (svfI1 g k z * w), cscale X (svfI2 g k z * w)).

Lemma svf_core_steady : forall g k z X w,
    (1 + g * (g + k) <> 0)%R -> svfD g k z <> RtoC 0 ->
    svf_core (RtoC (svf_a1 g k)) (RtoC (svf_a2 g k)) (RtoC (svf_a3 g k))
             (fst (steady g k z X w)) (snd (steady g k z X w)) (cscale X w) =
    ((cscale X (H_svf_poly BandPass g k z * w), cscale X (H_svf_poly LowPass g k z * w)),
     steady g k z X (z * w)).
Proof.
  intros g k z [xl xr] w Hden HD. unfold svf_core, steady, cscale, fr_sub, fr_add, fr_scale.
  cbn [fst snd oadd osub omul Ops_C]. change (@oZ C Ops_C 2) with (RtoC 2).
  assert (V1 : forall x, x * (svfI1 g k z * w) * RtoC (svf_a1 g k) + (x * w - x * (svfI2 g k z * w)) * RtoC (svf_a2 g k)
                         = x * (H_svf_poly BandPass g k z * w)).
  { intros x. pose proof (core_v1 g k Hden z HD (x * w)) as E.
    replace (x * (svfI1 g k z * w)) with (svfI1 g k z * (x * w)) by ring.
    replace (x * (svfI2 g k z * w)) with (svfI2 g k z * (x * w)) by ring.
    rewrite E. ring. }
  assert (V2 : forall x, x * (svfI2 g k z * w) + x * (svfI1 g k z * w) * RtoC (svf_a2 g k)
                         + (x * w - x * (svfI2 g k z * w)) * RtoC (svf_a3 g k)
                         = x * (H_svf_poly LowPass g k z * w)).
  { intros x. pose proof (core_v2 g k Hden z HD (x * w)) as E.
    replace (x * (svfI1 g k z * w)) with (svfI1 g k z * (x * w)) by ring.
    replace (x * (svfI2 g k z * w)) with (svfI2 g k z * (x * w)) by ring.
    rewrite E. ring. }
  rewrite !V1, !V2.
  assert (S1 : forall x, x * (H_svf_poly BandPass g k z * w) * RtoC 2 - x * (svfI1 g k z * w) = x * (svfI1 g k z * (z * w))).
  { intros x. pose proof (core_s1 g k Hden z HD (x * w)) as E.
    replace (x * (H_svf_poly BandPass g k z * w)) with (H_svf_poly BandPass g k z * (x * w)) by ring.
    replace (x * (svfI1 g k z * w)) with (svfI1 g k z * (x * w)) by ring. rewrite E. ring. }
  assert (S2 : forall x, x * (H_svf_poly LowPass g k z * w) * RtoC 2 - x * (svfI2 g k z * w) = x * (svfI2 g k z * (z * w))).
  { intros x. pose proof (core_s2 g k Hden z HD (x * w)) as E.
    replace (x * (H_svf_poly LowPass g k z * w)) with (H_svf_poly LowPass g k z * (x * w)) by ring.
    replace (x * (svfI2 g k z * w)) with (svfI2 g k z * (x * w)) by ring. rewrite E. ring. }
  rewrite !S1, !S2. reflexivity.
Qed.

(** transfer function including the equal-power wet/dry blend *)
Definition with_mix (H : C) (mix : R) : C :=
  let m := clampR mix 0 1 in H * RtoC (sqrt m) + RtoC (sqrt (1 - m)).

Lemma blend_cscale : forall X H w mix,
    blend (cscale X (H * w)) (cscale X w) (RtoC mix) = cscale X (with_mix H mix * w).
Proof.
  intros [xl xr] H w mix. rewrite blend_C. unfold cscale, with_mix. cbn [fst snd]. f_equal; ring.
Qed.

Lemma filter_step_steady : forall m g k mix z X w,
    (1 + g * (g + k) <> 0)%R -> svfD g k z <> RtoC 0 ->
    filter_step m (RtoC (svf_a1 g k)) (RtoC (svf_a2 g k)) (RtoC (svf_a3 g k)) (RtoC k) (RtoC mix)
                (steady g k z X w) (cscale X w) =
    (steady g k z X (z * w), cscale X (with_mix (H_svf_poly m g k z) mix * w)).
Proof.
  intros m g k mix z X w Hden HD. unfold filter_step. rewrite svf_core_steady by assumption.
  f_equal. rewrite <- blend_cscale. f_equal.
  destruct X as [xl xr]. destruct m; try reflexivity.
  - (* high *) unfold cscale, fr_sub, fr_scale. cbn [fst snd osub omul Ops_C].
    f_equal.
    + pose proof (core_hp g k Hden z HD (xl * w)) as E.
      replace (xl * (H_svf_poly HighPass g k z * w)) with (H_svf_poly HighPass g k z * (xl * w)) by ring.
      rewrite <- E. ring.
    + pose proof (core_hp g k Hden z HD (xr * w)) as E.
      replace (xr * (H_svf_poly HighPass g k z * w)) with (H_svf_poly HighPass g k z * (xr * w)) by ring.
      rewrite <- E. ring.
  - (* notch *) unfold cscale, fr_sub, fr_scale. cbn [fst snd osub omul Ops_C].
    f_equal.
    + pose proof (core_notch g k Hden z HD (xl * w)) as E.
      replace (xl * (H_svf_poly Notch g k z * w)) with (H_svf_poly Notch g k z * (xl * w)) by ring.
      rewrite <- E. ring.
    + pose proof (core_notch g k Hden z HD (xr * w)) as E.
      replace (xr * (H_svf_poly Notch g k z * w)) with (H_svf_poly Notch g k z * (xr * w)) by ring.
      rewrite <- E. ring.
Qed.

(** the complex exponential X z^n *)
Definition cexp (X : frame C) (z : C) (n : nat) : frame C := cscale X (Cpow z n).

Theorem filter_transfer_C : forall m g k mix z X N,
    (1 + g * (g + k) <> 0)%R -> svfD g k z <> RtoC 0 ->
    let step := filter_step m (RtoC (svf_a1 g k)) (RtoC (svf_a2 g k)) (RtoC (svf_a3 g k)) (RtoC k) (RtoC mix) in
    run_frames step (steady g k z X c1) (map (cexp X z) (seq 0 N)) =
    (steady g k z X (Cpow z N),
     map (fun n => cscale X (with_mix (H_svf_poly m g k z) mix * Cpow z n)) (seq 0 N)).
Proof.
  intros m g k mix z X N Hden HD step.
  pose proof (run_indexed step (fun n s => s = steady g k z X (Cpow z n)) (cexp X z)
                          (fun n => cscale X (with_mix (H_svf_poly m g k z) mix * Cpow z n))) as H.
  assert (Hstep : forall n s, s = steady g k z X (Cpow z n) ->
                              fst (step s (cexp X z n)) = steady g k z X (Cpow z (S n)) /\
                              snd (step s (cexp X z n)) = cscale X (with_mix (H_svf_poly m g k z) mix * Cpow z n)).
  { intros n s ->. unfold step, cexp. rewrite filter_step_steady by assumption. split; reflexivity. }
  destruct (H Hstep N 0%nat (steady g k z X c1) eq_refl) as [H1 H2].
  cbn [Nat.add] in H1.
  destruct (run_frames step (steady g k z X c1) (map (cexp X z) (seq 0 N))) as [s ys]. cbn [fst snd] in *.
  subst. reflexivity.
Qed.

(** * the real-number instance: response to a sinusoid Re (X z^n) *)
Lemma run_estep_filter : forall (F : Type) (OPS : Ops F) (K : consts F) m (a1 a2 a3 k mix : F) xs s,
    run_frames (estep K (EFilter m a1 a2 a3 k mix)) (SSvf s) xs =
    (SSvf (fst (run_frames (filter_step m a1 a2 a3 k mix) s xs)),
     snd (run_frames (filter_step m a1 a2 a3 k mix) s xs)).
Proof.
  intros F OPS K m a1 a2 a3 k mix. induction xs as [|x xs IH]; intros s; [reflexivity|].
  cbn [run_frames estep]. destruct (filter_step m a1 a2 a3 k mix s x) as [s1 y].
  rewrite IH. destruct (run_frames (filter_step m a1 a2 a3 k mix) s1 xs) as [s2 ys]. reflexivity.
Qed.
Lemma run_estep_eq : forall (F : Type) (OPS : Ops F) (K : consts F) (a1 a2 a3 m0 m1 m2 : F) xs s,
    run_frames (estep K (EEq a1 a2 a3 m0 m1 m2)) (SSvf s) xs =
    (SSvf (fst (run_frames (eq_step a1 a2 a3 m0 m1 m2) s xs)),
     snd (run_frames (eq_step a1 a2 a3 m0 m1 m2) s xs)).
Proof.
  intros F OPS K a1 a2 a3 m0 m1 m2. induction xs as [|x xs IH]; intros s; [reflexivity|].
  cbn [run_frames estep]. destruct (eq_step a1 a2 a3 m0 m1 m2 s x) as [s1 y].
  rewrite IH. destruct (run_frames (eq_step a1 a2 a3 m0 m1 m2) s1 xs) as [s2 ys]. reflexivity.
Qed.

Definition reS := prS Re.

Theorem filter_sinusoid_R : forall m g k mix z X N,
    (1 + g * (g + k) <> 0)%R -> svfD g k z <> RtoC 0 ->
    snd (run_frames (estep consts_R (EFilter m (svf_a1 g k) (svf_a2 g k) (svf_a3 g k) k mix))
                    (SSvf (reS (steady g k z X c1)))
                    (map (fun n => reF (cexp X z n)) (seq 0 N))) =
    map (fun n => reF (cscale X (with_mix (H_svf_poly m g k z) mix * Cpow z n))) (seq 0 N).
Proof.
  intros m g k mix z X N Hden HD. rewrite run_estep_filter. cbn [snd].
  pose proof (filter_transfer_C m g k mix z X N Hden HD) as HC. cbn zeta in HC.
  pose proof (run_pr Re
                     (filter_step m (RtoC (svf_a1 g k)) (RtoC (svf_a2 g k)) (RtoC (svf_a3 g k)) (RtoC k) (RtoC mix))
                     (filter_step m (svf_a1 g k) (svf_a2 g k) (svf_a3 g k) k mix) (prS Re)) as HP.
  assert (Hs : forall s x,
             prS Re (fst (filter_step m (RtoC (svf_a1 g k)) (RtoC (svf_a2 g k)) (RtoC (svf_a3 g k)) (RtoC k) (RtoC mix) s x)) =
             fst (filter_step m (svf_a1 g k) (svf_a2 g k) (svf_a3 g k) k mix (prS Re s) (prF Re x)) /\
             prF Re (snd (filter_step m (RtoC (svf_a1 g k)) (RtoC (svf_a2 g k)) (RtoC (svf_a3 g k)) (RtoC k) (RtoC mix) s x)) =
             snd (filter_step m (svf_a1 g k) (svf_a2 g k) (svf_a3 g k) k mix (prS Re s) (prF Re x))).
  { intros s x. apply (filter_step_pr Re Re_plus Re_minus Re_scal). }
  destruct (HP Hs (map (cexp X z) (seq 0 N)) (steady g k z X c1)) as [_ H2].
  rewrite HC in H2. cbn [snd] in H2. rewrite !map_map in H2. unfold reS, reF.
  symmetry. exact H2.
Qed.
