(** C14 — the delay effect without feedback effects: the real-number instance of the C13 delay
    model (a shift register of D frames) produces, for EVERY input and every run length, the echo
    train of SpecDelay.v: wet[n] = sum_{k >= 1, k D <= n} g^k x[n - k D]. *)
From Coq Require Import ZArith List Bool Arith Lia Reals Lra.
From KV Require Import Base.Outcome C13.ModelOps C13.ModelEffects C13.ModelDelay C13.ModelTree
     C13.ProofsSeq C14.SpecLaws C14.ProofsLaws C14.Signals C14.SpecDelay.
Import ListNotations.
Open Scope ops_scope.
Local Open Scope R_scope.

Section Echo.
  Variable D : nat.
  Hypothesis HD : (1 <= D)%nat.
  Variable g : R.

  (** impulse response of the loop signal (what is written into the line): the direct sound plus the echoes *)
  Definition loop_ir (m : nat) : R := if (m mod D =? 0)%nat then g ^ (m / D) else 0.

  Lemma loop_ir_split : forall m, loop_ir m = delta 1 m + echo_ir D g m.
  Proof.
    intros [|m]; unfold loop_ir, echo_ir, delta.
    - rewrite Nat.mod_0_l by lia. rewrite Nat.div_0_l by lia. cbn. ring.
    - cbn [Nat.ltb Nat.leb andb]. destruct (S m mod D =? 0)%nat; ring.
  Qed.
  Lemma loop_ir_0 : loop_ir 0 = 1.
  Proof. unfold loop_ir. rewrite Nat.mod_0_l by lia. rewrite Nat.div_0_l by lia. reflexivity. Qed.
  Lemma loop_ir_small : forall m, (0 < m < D)%nat -> loop_ir m = 0.
  Proof.
    intros m H. unfold loop_ir. rewrite Nat.mod_small by lia.
    destruct (Nat.eqb_spec m 0); [lia|reflexivity].
  Qed.
  Lemma loop_ir_shift : forall j, loop_ir (D + j) = g * loop_ir j.
  Proof.
    intros j. unfold loop_ir. replace (D + j)%nat with (j + 1 * D)%nat by lia.
    rewrite Nat.mod_add by lia. rewrite Nat.div_add by lia.
    destruct (j mod D =? 0)%nat; [|ring]. rewrite Nat.add_1_r. cbn. ring.
  Qed.

  Variable x : nat -> R.
  Definition loop_sig (n : nat) : R := conv loop_ir x n.

  Lemma loop_sig_wet : forall n, loop_sig n = x n + spec_delay_wet D g x n.
  Proof.
    intros n. unfold loop_sig, spec_delay_wet, conv.
    rewrite (sumn_ext _ (fun m => delta 1 m * x (n - m)%nat + echo_ir D g m * x (n - m)%nat)).
    2:{ intros m _. rewrite loop_ir_split. ring. }
    rewrite sumn_plus. f_equal.
    change (sumn (fun m => delta 1 m * x (n - m)%nat) (S n)) with (conv (delta 1) x n).
    unfold conv. rewrite (sumn_single _ (S n) 0%nat); [rewrite Nat.sub_0_r; cbn; ring|lia|].
    intros m _ NE. destruct m; [lia|]. cbn. ring.
  Qed.

  Lemma loop_sig_early : forall n, (n < D)%nat -> loop_sig n = x n.
  Proof.
    intros n H. unfold loop_sig, conv. rewrite (sumn_single _ (S n) 0%nat); [|lia|].
    - rewrite loop_ir_0, Nat.sub_0_r. ring.
    - intros m Hm NE. rewrite loop_ir_small by lia. ring.
  Qed.
  Lemma loop_sig_rec : forall n, (D <= n)%nat -> loop_sig n = x n + g * loop_sig (n - D).
  Proof.
    intros n H. unfold loop_sig, conv. replace (S n) with (D + S (n - D))%nat by lia.
    rewrite sumn_split. f_equal.
    - rewrite (sumn_single _ D 0%nat); [|lia|].
      + rewrite loop_ir_0, Nat.sub_0_r. ring.
      + intros m Hm NE. rewrite loop_ir_small by lia. ring.
    - rewrite <- sumn_scale. apply sumn_ext. intros j Hj. rewrite loop_ir_shift.
      replace (n - (D + j))%nat with (n - D - j)%nat by lia. ring.
  Qed.
  (** what the read head sees at frame n *)
  Definition read_sig (n : nat) : R := if (n <? D)%nat then 0 else loop_sig (n - D).
  Lemma wet_is_g_read : forall n, spec_delay_wet D g x n = read_sig n * g.
  Proof.
    intros n. pose proof (loop_sig_wet n) as E. unfold read_sig.
    destruct (Nat.ltb_spec n D) as [Hn|Hn].
    - rewrite loop_sig_early in E by exact Hn. lra.
    - rewrite loop_sig_rec in E by exact Hn. lra.
  Qed.
End Echo.

(** * the model *)
Lemma line_shift_gen {A} (r : nat -> A) : forall D' n k,
    map (fun j => r (n + j)%nat) (seq (S k) D') ++ [r (n + (S k + D'))%nat] = map (fun j => r (S n + j)%nat) (seq k (S D')).
Proof.
  induction D' as [|D' IH]; intros n k.
  - cbn. f_equal. f_equal. lia.
  - change (seq (S k) (S D')) with (S k :: seq (S (S k)) D').
    change (seq k (S (S D'))) with (k :: seq (S k) (S D')).
    cbn [map app]. f_equal; [f_equal; lia|].
    rewrite <- IH. f_equal. f_equal. f_equal. lia.
Qed.
Lemma line_shift {A} (r : nat -> A) : forall D' n,
    tl (map (fun j => r (n + j)%nat) (seq 0 (S D'))) ++ [r (n + S D')%nat] = map (fun j => r (S n + j)%nat) (seq 0 (S D')).
Proof.
  intros D' n. rewrite <- line_shift_gen. change (seq 0 (S D')) with (0%nat :: seq 1 D'). cbn [map tl].
  f_equal.
Qed.

Section Model.
  Variable d : nat.
  Variables g mix : R.
  Variable xs : list (frame R).
  Let D := delay_frames d.
  Let xL := sigL xs.
  Let xR := sigR xs.
  Let e := EDelay d g mix [].

  Lemma D_pos : (1 <= D)%nat.
  Proof. unfold D, delay_frames. lia. Qed.

  (** the line before frame n: slot j holds the loop signal of frame n + j - D *)
  Definition line_at (n : nat) : list (frame R) :=
    map (fun j => (read_sig D g xL (n + j), read_sig D g xR (n + j))) (seq 0 D).
  Definition dinv (n : nat) (s : estate R) : Prop := s = SDelay (line_at n) [].

  Definition delay_out (n : nat) : frame R :=
    (spec_mix (spec_delay_wet D g xL n) (xL n) mix, spec_mix (spec_delay_wet D g xR n) (xR n) mix).

  Lemma line_at_0 : line_at 0 = repeat fr_zero D.
  Proof.
    unfold line_at. assert (H : forall k m, (k + m <= D)%nat ->
      map (fun j => (read_sig D g xL (0 + j), read_sig D g xR (0 + j))) (seq k m) = repeat fr_zero m).
    { intros k m. revert k. induction m as [|m IH]; intros k H; [reflexivity|]. cbn [seq map repeat].
      rewrite IH by lia. unfold read_sig. cbn [Nat.add].
      destruct (Nat.ltb_spec k D); [reflexivity|lia]. }
    apply H. lia.
  Qed.

  Lemma delay_estep : forall n s, dinv n s ->
      dinv (S n) (fst (estep consts_R e s (nth n xs (0, 0)))) /\
      snd (estep consts_R e s (nth n xs (0, 0))) = delay_out n.
  Proof.
    intros n s ->. unfold e. rewrite estep_delay_eq. cbn [delay_step chain_step].
    pose proof D_pos as HD.
    set (r := fun t => (read_sig D g xL t, read_sig D g xR t)).
    assert (EL : forall k, line_at k = map (fun j => r (k + j)%nat) (seq 0 D)) by reflexivity.
    destruct (Nat.lt_exists_pred 0 D HD) as [D' [ED _]].
    assert (Hhd : hd fr_zero (line_at n) = r n).
    { rewrite EL, ED. cbn [seq map hd]. rewrite Nat.add_0_r. reflexivity. }
    rewrite Hhd. cbn [fst snd]. split.
    - unfold dinv. f_equal. rewrite (EL (S n)), (EL n), ED, <- (line_shift r D' n), <- ED. f_equal. f_equal.
      unfold fr_add, fr_scale, r. cbn [fst snd].
      assert (R1 : forall x, read_sig D g x (n + D) = loop_sig D g x n).
      { intros x. unfold read_sig. destruct (Nat.ltb_spec (n + D) D); [lia|]. f_equal. lia. }
      rewrite !R1. rewrite !(loop_sig_wet D HD g), !(wet_is_g_read D HD g).
      unfold xL, xR, sigL, sigR. reflexivity.
    - rewrite blend_R. unfold delay_out, fr_scale, r. cbn [fst snd].
      rewrite !(wet_is_g_read D HD g). unfold xL, xR, sigL, sigR. reflexivity.
  Qed.

  Theorem delay_run :
    snd (run_frames (estep consts_R e) (init e) xs) = map delay_out (seq 0 (length xs)).
  Proof.
    pose proof (run_indexed (estep consts_R e) dinv (fun n => nth n xs (0, 0)) delay_out delay_estep
                            (length xs) 0 (init e)) as H.
    assert (Hinit : dinv 0 (init e)).
    { unfold dinv, e. cbn [init map]. rewrite line_at_0. reflexivity. }
    destruct (H Hinit) as [_ H2]. pose proof (list_as_map (0, 0) xs) as E.
    rewrite E at 1. exact H2.
  Qed.
End Model.

(** the statement in closed form *)
Theorem delay_echoes : forall (d : nat) (g mix : R) (xs : list (frame R)),
    let D := delay_frames d in
    snd (run_frames (estep consts_R (EDelay d g mix [])) (init (EDelay d g mix [])) xs) =
    map (fun n => (spec_mix (spec_delay_wet D g (sigL xs) n) (sigL xs n) mix,
                   spec_mix (spec_delay_wet D g (sigR xs) n) (sigR xs n) mix)) (seq 0 (length xs)).
Proof. intros. apply delay_run. Qed.

(** impulse response: an impulse (a, b) at frame 0 comes back at frames D, 2D, 3D, ... as
    g (a, b), g^2 (a, b), ..., and nothing in between *)
Lemma nth_repeat_same {A} (z : A) : forall m n, nth n (repeat z m) z = z.
Proof. induction m as [|m IH]; intros [|n]; cbn; auto. Qed.
Lemma sig_impulse : forall a b m, sigL ((a, b) :: repeat (0, 0) m) = delta a /\ sigR ((a, b) :: repeat (0, 0) m) = delta b.
Proof.
  intros a b m. split; apply FunctionalExtensionality.functional_extensionality; intros [|n]; try reflexivity;
    unfold sigL, sigR; cbn [nth delta]; rewrite nth_repeat_same; reflexivity.
Qed.

Theorem delay_impulse_response : forall (d : nat) (g mix a b : R) (m : nat),
    let D := delay_frames d in
    snd (run_frames (estep consts_R (EDelay d g mix [])) (init (EDelay d g mix [])) ((a, b) :: repeat (0, 0) m)) =
    map (fun n => (spec_mix (echo_ir D g n * a) (delta a n) mix, spec_mix (echo_ir D g n * b) (delta b n) mix))
        (seq 0 (S m)).
Proof.
  intros d g mix a b m D. rewrite delay_echoes. fold D. destruct (sig_impulse a b m) as [EL ER].
  rewrite EL, ER. cbn [length]. rewrite repeat_length. apply map_ext. intros n.
  unfold spec_delay_wet. rewrite !conv_delta. reflexivity.
Qed.

(** the echoes, spelled out: exactly at multiples of D, echo k attenuated k times *)
Lemma echo_ir_at_multiple : forall D g k, (1 <= D)%nat -> (1 <= k)%nat -> echo_ir D g (k * D) = g ^ k.
Proof.
  intros D g k HD Hk. unfold echo_ir. rewrite Nat.mod_mul by lia. rewrite Nat.div_mul by lia.
  destruct (Nat.ltb_spec 0 (k * D)); [reflexivity|nia].
Qed.
Lemma echo_ir_elsewhere : forall D g n, (1 <= D)%nat -> (n mod D <> 0)%nat \/ n = 0%nat -> echo_ir D g n = 0.
Proof.
  intros D g n HD [H| ->]; unfold echo_ir.
  - destruct (Nat.eqb_spec (n mod D) 0); [contradiction|]. rewrite andb_false_r. reflexivity.
  - reflexivity.
Qed.
Lemma echo_ir_attenuated_once_more : forall D g n, (1 <= D)%nat -> (1 <= n)%nat ->
    echo_ir D g (n + D) = g * echo_ir D g n \/ echo_ir D g n = 0.
Proof.
  intros D g n HD Hn. unfold echo_ir. replace (n + D)%nat with (n + 1 * D)%nat by lia.
  rewrite Nat.mod_add, Nat.div_add by lia.
  destruct (Nat.ltb_spec 0 n); [|lia]. destruct (Nat.ltb_spec 0 (n + 1 * D)); [|lia]. cbn [andb].
  destruct (n mod D =? 0)%nat; [left|right; reflexivity]. rewrite Nat.add_1_r. cbn. ring.
Qed.

Lemma echo_train : forall (D : nat) (g : R), (1 <= D)%nat ->
    (forall k, (1 <= k)%nat -> echo_ir D g (k * D) = g ^ k) /\
    (forall n, (n mod D <> 0)%nat \/ n = 0%nat -> echo_ir D g n = 0) /\
    (forall n, (1 <= n)%nat -> echo_ir D g (n + D) = g * echo_ir D g n \/ echo_ir D g n = 0).
Proof.
  intros D g HD. repeat split.
  - intros k Hk. apply echo_ir_at_multiple; assumption.
  - intros n H. apply echo_ir_elsewhere; assumption.
  - intros n H. apply echo_ir_attenuated_once_more; assumption.
Qed.

(** * the delay length in frames is the exact floor of delay_time * sample_rate
    ([delay_time_frames] of delay.rs since the repair of F35: integer arithmetic on nanoseconds) *)
Definition delay_len_Z (nanos sr : Z) : Z := (nanos * sr / 1000000000)%Z.

Lemma delay_length_exact : forall nanos sr : Z,
    (0 <= nanos)%Z -> (0 < sr)%Z ->
    let D := delay_len_Z nanos sr in
    (0 <= D)%Z /\
    IZR D / IZR sr <= IZR nanos / 1000000000 < (IZR D + 1) / IZR sr /\
    ((1 <= D)%Z -> delay_frames (Z.to_nat D) = Z.to_nat D) /\
    ((D = 0)%Z -> delay_frames (Z.to_nat D) = 1%nat).
Proof.
  intros nanos sr Hn Hs D. unfold D, delay_len_Z.
  pose proof (Z.div_pos (nanos * sr) 1000000000 ltac:(nia) ltac:(lia)) as H0.
  pose proof (Z.mul_div_le (nanos * sr) 1000000000 ltac:(lia)) as H1.
  pose proof (Z.mul_succ_div_gt (nanos * sr) 1000000000 ltac:(lia)) as H2.
  set (q := (nanos * sr / 1000000000)%Z) in *.
  assert (Hsr : 0 < IZR sr) by (apply IZR_lt; exact Hs).
  split; [exact H0|]. split; [|split].
  - apply IZR_le in H1. apply IZR_lt in H2. unfold Z.succ in H2.
    rewrite ?mult_IZR, ?plus_IZR in H1, H2.
    assert (Hinv : 0 < / (IZR sr * 1000000000)) by (apply Rinv_0_lt_compat; nra).
    replace (IZR q / IZR sr) with (IZR q * 1000000000 * / (IZR sr * 1000000000)) by (field; lra).
    replace ((IZR q + 1) / IZR sr) with ((IZR q + 1) * 1000000000 * / (IZR sr * 1000000000)) by (field; lra).
    replace (IZR nanos / 1000000000) with (IZR nanos * IZR sr * / (IZR sr * 1000000000)) by (field; lra).
    split.
    + apply Rmult_le_compat_r; [lra|]. rewrite (Rmult_comm (IZR q)). exact H1.
    + apply Rmult_lt_compat_r; [lra|]. rewrite plus_IZR in H2. rewrite (Rmult_comm (IZR q + 1)). exact H2.
  - intros Hq. unfold delay_frames. lia.
  - intros ->. reflexivity.
Qed.
Example delay_length_F35_witnesses :
  delay_len_Z 35750000 48000 = 1716%Z /\ delay_len_Z 1001000000 8000 = 8008%Z /\ delay_len_Z 0 44100 = 0%Z.
Proof. repeat split. Qed.
