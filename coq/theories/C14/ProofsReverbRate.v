(** C14 — the reverb through a HISTORY of device rates.  [on_change_sample_rate] (C13's [change_rate])
    REBUILDS the network on every call: whatever the state, the new state is the freshly initialised
    network of the effect compiled for the rate now in force — every comb / all-pass line empty and of
    the length for THAT rate (floor(tuning * rate / 44100) with the reference tunings).  Hence after
    any list of rates (repeats and returns to an earlier or the initial rate included) the output of the
    last segment is that of the reference Freeverb network for the last rate, started empty.  For ANY
    sample operations (bit for bit in binary32). *)
From Coq Require Import ZArith List Bool Arith Lia.
From KV Require Import Base.Outcome C13.ModelOps C13.ModelEffects C13.ModelDelay C13.ModelTree C13.ProofsSeq
     C14.SpecFreeverb C14.ProofsFreeverb.
Import ListNotations.

Section Hist.
  Context {F : Type} {OPS : Ops F}.
  Variable K : consts F.
  Variable Rate : Type.
  (** the effect the builder parameters compile to at a rate *)
  Variable mk : Rate -> effect F.

  (** segments (rate, frames); [change_rate] at the start of every segment, then frame by frame *)
  Fixpoint run_hist (s : estate F) (hist : list (Rate * list (frame F))) : estate F * list (frame F) :=
    match hist with
    | [] => (s, [])
    | (r, xs) :: rest =>
        let (s1, o1) := run_frames (estep K (mk r)) (change_rate (mk r) s) xs in
        let (s2, o2) := run_hist s1 rest in
        (s2, o1 ++ o2)
    end.

  Lemma run_hist_app : forall h1 h2 s,
      run_hist s (h1 ++ h2) =
      (fst (run_hist (fst (run_hist s h1)) h2), snd (run_hist s h1) ++ snd (run_hist (fst (run_hist s h1)) h2)).
  Proof.
    induction h1 as [|[r xs] h1 IH]; intros h2 s.
    - cbn [app run_hist fst snd]. destruct (run_hist s h2); reflexivity.
    - cbn [app run_hist]. destruct (run_frames (estep K (mk r)) (change_rate (mk r) s) xs) as [s1 o1].
      rewrite IH. destruct (run_hist s1 h1) as [s2 o2]. cbn [fst snd].
      destruct (run_hist s2 h2) as [s3 o3]. cbn [fst snd]. rewrite app_assoc. reflexivity.
  Qed.
End Hist.

Section Reverb.
  Context {F : Type} {OPS : Ops F}.
  Variable K : consts F.
  Variable Rate : Type.
  Variables (csz asz : Rate -> list (nat * nat)) (fb damp width mix : F).
  Let mk (r : Rate) : effect F := EReverb (csz r) (asz r) fb damp width mix.

  Definition is_reverb_state (s : estate F) : Prop := match s with SReverb _ => True | _ => False end.

  (** the rebuild: from ANY reverb state the change gives the initial network for the new rate *)
  Lemma reverb_change_rebuilds : forall r s, is_reverb_state s -> change_rate (mk r) s = init (mk r).
  Proof. intros r s H. destruct s; try contradiction. reflexivity. Qed.

  Lemma reverb_run_keeps : forall r xs s, is_reverb_state s ->
      is_reverb_state (fst (run_frames (estep K (mk r)) s xs)).
  Proof.
    intros r. apply (run_frames_inv (estep K (mk r)) is_reverb_state).
    intros s x H. destruct s; try contradiction. unfold mk. cbn [estep].
    destruct (reverb_step K fb damp width mix r0 x). exact I.
  Qed.

  Lemma reverb_hist_keeps : forall hist s, is_reverb_state s -> is_reverb_state (fst (run_hist K Rate mk s hist)).
  Proof.
    induction hist as [|[r xs] hist IH]; intros s H; [exact H|].
    cbn [run_hist]. rewrite reverb_change_rebuilds by exact H.
    pose proof (reverb_run_keeps r xs (init (mk r)) I) as H1.
    destruct (run_frames (estep K (mk r)) (init (mk r)) xs) as [s1 o1]. cbn [fst] in H1.
    specialize (IH s1 H1). destruct (run_hist K Rate mk s1 hist) as [s2 o2]. exact IH.
  Qed.

  Theorem reverb_after_rate_history : forall (hist : list (Rate * list (frame F))) (s0 : estate F) (r : Rate) (xs : list (frame F)),
      is_reverb_state s0 -> sizes_ok (csz r) -> sizes_ok (asz r) ->
      (* the state the last change leaves: the empty network with the line lengths of r *)
      change_rate (mk r) (fst (run_hist K Rate mk s0 hist)) = SReverb (reverb_new (csz r) (asz r)) /\
      (* hence the last segment is the reference network for r *)
      snd (run_hist K Rate mk s0 (hist ++ [(r, xs)])) =
      snd (run_hist K Rate mk s0 hist) ++ freeverb K (csz r) (asz r) fb damp width mix xs.
  Proof.
    intros hist s0 r xs H0 Hc Ha.
    pose proof (reverb_hist_keeps hist s0 H0) as Hs.
    pose proof (reverb_change_rebuilds r _ Hs) as Hr. split; [exact Hr|].
    rewrite run_hist_app. cbn [snd]. f_equal. cbn [run_hist]. rewrite Hr.
    pose proof (reverb_is_freeverb K (csz r) (asz r) fb damp width mix xs Hc Ha) as HF. fold (mk r) in HF.
    destruct (run_frames (estep K (mk r)) (init (mk r)) xs) as [s1 o1]. cbn [snd] in *. rewrite app_nil_r. exact HF.
  Qed.
End Reverb.

(** the lengths of the rebuilt lines *)
Lemma reverb_new_lengths : forall (F : Type) (OPS : Ops F) (csz asz : list (nat * nat)),
    map (fun p => (length (snd (fst (fst p))), length (snd (fst (snd p))))) (fst (@reverb_new F OPS csz asz)) = csz /\
    map (fun p => (length (fst (fst p)), length (fst (snd p)))) (snd (@reverb_new F OPS csz asz)) = asz.
Proof.
  intros F OPS csz asz. unfold reverb_new. cbn [fst snd]. rewrite !map_map. split.
  - induction csz as [|[a b] l IH]; [reflexivity|]. cbn [map]. rewrite IH. unfold comb_new. cbn [fst snd]. rewrite !repeat_length. reflexivity.
  - induction asz as [|[a b] l IH]; [reflexivity|]. cbn [map]. rewrite IH. unfold allpass_new. cbn [fst snd]. rewrite !repeat_length. reflexivity.
Qed.

(** non-vacuity: 44100 -> 48000 -> 44100 from the initial state; the shortest combs are 1116 / 1139 again *)
Example reverb_history_hypotheses_satisfiable :
  sizes_ok (fv_sizes 44100 fv_comb_tunings) /\ sizes_ok (fv_sizes 44100 fv_allpass_tunings) /\
  hd (0, 0) (fv_sizes 44100 fv_comb_tunings) = (1116, 1139) /\ hd (0, 0) (fv_sizes 48000 fv_comb_tunings) = (1214, 1239).
Proof. split; [apply fv_sizes_ok|split; [apply fv_sizes_ok|split; reflexivity]]. Qed.

(** the statement for the reference tunings: rates are integers (hertz) *)
Definition reverb_at {F : Type} (fb damp width mix : F) (sr : Z) : effect F :=
  EReverb (fv_sizes sr fv_comb_tunings) (fv_sizes sr fv_allpass_tunings) fb damp width mix.
Theorem reverb_after_rate_history_fv :
  forall (F : Type) (OPS : Ops F) (K : consts F) (fb damp width mix : F)
         (hist : list (Z * list (frame F))) (s0 : estate F) (r : Z) (xs : list (frame F)),
    is_reverb_state s0 ->
    let mk := reverb_at fb damp width mix in
    let rebuilt := @reverb_new F OPS (fv_sizes r fv_comb_tunings) (fv_sizes r fv_allpass_tunings) in
    change_rate (mk r) (fst (run_hist K Z mk s0 hist)) = SReverb rebuilt /\
    map (fun p => (length (snd (fst (fst p))), length (snd (fst (snd p))))) (fst rebuilt) =
    map (fun n => (Z.to_nat (Z.max 1 (n * r / 44100)), Z.to_nat (Z.max 1 ((n + 23) * r / 44100)))) fv_comb_tunings /\
    map (fun p => (length (fst (fst p)), length (fst (snd p)))) (snd rebuilt) =
    map (fun n => (Z.to_nat (Z.max 1 (n * r / 44100)), Z.to_nat (Z.max 1 ((n + 23) * r / 44100)))) fv_allpass_tunings /\
    snd (run_hist K Z mk s0 (hist ++ [(r, xs)])) =
    snd (run_hist K Z mk s0 hist) ++
    freeverb K (fv_sizes r fv_comb_tunings) (fv_sizes r fv_allpass_tunings) fb damp width mix xs.
Proof.
  intros F OPS K fb damp width mix hist s0 r xs H0 mk rebuilt.
  destruct (reverb_after_rate_history K Z (fun sr => fv_sizes sr fv_comb_tunings) (fun sr => fv_sizes sr fv_allpass_tunings)
              fb damp width mix hist s0 r xs H0 (fv_sizes_ok _ _) (fv_sizes_ok _ _)) as [H1 H2].
  destruct (reverb_new_lengths F OPS (fv_sizes r fv_comb_tunings) (fv_sizes r fv_allpass_tunings)) as [L1 L2].
  split; [exact H1|split; [exact L1|split; [exact L2|exact H2]]].
Qed.

From Coq Require Import Reals.
From KV Require Import C14.ProofsFilterRate.
Lemma run_history_is_run_hist : forall (mk : R -> effect R) hist s,
    run_history mk s hist = run_hist consts_R R mk s hist.
Proof.
  intros mk. induction hist as [|[r xs] hist IH]; intros s; [reflexivity|].
  cbn [run_history run_hist]. destruct (run_frames (estep consts_R (mk r)) (change_rate (mk r) s) xs) as [s1 o1].
  rewrite IH. reflexivity.
Qed.
Lemma rate_history_definitions :
  forall (F : Type) (OPS : Ops F) (K : consts F),
    (forall (Rate : Type) (mk : Rate -> effect F) s, run_hist K Rate mk s [] = (s, [])) /\
    (forall (Rate : Type) (mk : Rate -> effect F) s r xs rest,
        run_hist K Rate mk s ((r, xs) :: rest) =
        (let (s1, o1) := run_frames (estep K (mk r)) (change_rate (mk r) s) xs in
         let (s2, o2) := run_hist K Rate mk s1 rest in (s2, o1 ++ o2))) /\
    (forall (mk : R -> effect R) s hist, run_history mk s hist = run_hist consts_R R mk s hist) /\
    (forall (fb damp width mix : F) sr,
        reverb_at fb damp width mix sr = EReverb (fv_sizes sr fv_comb_tunings) (fv_sizes sr fv_allpass_tunings) fb damp width mix) /\
    (forall (r : @reverb_state F), is_reverb_state (SReverb r)) /\
    (forall (fb damp width mix : F) sr, is_reverb_state (init (reverb_at fb damp width mix sr))).
Proof.
  intros F OPS K. repeat split; try reflexivity.
  intros mk s hist. apply run_history_is_run_hist.
Qed.
