(** C14 — the prototypes of SpecSVF.v evaluated in exact rational arithmetic (complex numbers as
    pairs of rationals), for the correspondence check: the harness's own binary64 evaluation of the
    textbook formulas (its reference for the measured responses) is compared with this evaluation of
    the Coq definitions the theorems are about.  [*_Q_correct]: the rational evaluators compute the
    real-number definitions (same value after injection into R / C). *)
From Coq Require Import ZArith QArith Qreals Reals Lra.
From Coquelicot Require Import Complex.
From KV Require Import C13.ModelEffects C14.SpecSVF.

Definition CQ : Type := (Q * Q)%type.
(** results are kept in lowest terms ([Qred]) so that nested operations stay small *)
Definition cq_add (a b : CQ) : CQ := (Qred (fst a + fst b), Qred (snd a + snd b))%Q.
Definition cq_mul (a b : CQ) : CQ := (Qred (fst a * fst b - snd a * snd b), Qred (fst a * snd b + snd a * fst b))%Q.
Definition cq_norm2 (a : CQ) : Q := Qred (fst a * fst a + snd a * snd a)%Q.
Definition cq_div (a b : CQ) : CQ :=
  let n := cq_norm2 b in
  (Qred ((fst a * fst b + snd a * snd b) / n), Qred ((snd a * fst b - fst a * snd b) / n))%Q.
Definition cq_re (x : Q) : CQ := (x, 0%Q).
Definition cq_one : CQ := (1%Q, 0%Q).

Definition toC (a : CQ) : C := (Q2R (fst a), Q2R (snd a)).

Definition H_proto_Q (m : fmode) (k : Q) (s : CQ) : CQ :=
  let den := cq_add (cq_add (cq_mul s s) (cq_mul (cq_re k) s)) cq_one in
  match m with
  | LowPass => cq_div cq_one den
  | BandPass => cq_div s den
  | HighPass => cq_div (cq_mul s s) den
  | Notch => cq_div (cq_add (cq_mul s s) cq_one) den
  end.
Definition proto_den_Q (k : Q) (s : CQ) : CQ := cq_add (cq_add (cq_mul s s) (cq_mul (cq_re k) s)) cq_one.

(** cookbook prototypes; [rA] stands for sqrt A (the evaluator is used with A = rA * rA) *)
Definition H_eq_proto_Q (kind : eqkind) (rA Q0 : Q) (s : CQ) : CQ :=
  let A := (rA * rA)%Q in
  let ss := cq_mul s s in
  match kind with
  | Bell => cq_div (cq_add (cq_add ss (cq_mul (cq_re (A / Q0)) s)) cq_one)
                   (cq_add (cq_add ss (cq_mul (cq_re (1 / (A * Q0))) s)) cq_one)
  | LowShelf => cq_div (cq_mul (cq_re A) (cq_add (cq_add ss (cq_mul (cq_re (rA / Q0)) s)) (cq_re A)))
                       (cq_add (cq_add (cq_mul (cq_mul (cq_re A) s) s) (cq_mul (cq_re (rA / Q0)) s)) cq_one)
  | HighShelf => cq_div (cq_mul (cq_re A) (cq_add (cq_add (cq_mul (cq_mul (cq_re A) s) s) (cq_mul (cq_re (rA / Q0)) s)) cq_one))
                        (cq_add (cq_add ss (cq_mul (cq_re (rA / Q0)) s)) (cq_re A))
  end.

(** ** correctness of the rational evaluation *)
Lemma Q2R_red : forall q, Q2R (Qred q) = Q2R q.
Proof. intros q. apply Qeq_eqR. apply Qred_correct. Qed.
Local Open Scope C_scope.
Lemma toC_add : forall a b, toC (cq_add a b) = toC a + toC b.
Proof. intros [a1 a2] [b1 b2]. unfold toC, cq_add. cbn [fst snd]. rewrite !Q2R_red, !Q2R_plus. reflexivity. Qed.
Lemma toC_mul : forall a b, toC (cq_mul a b) = toC a * toC b.
Proof.
  intros [a1 a2] [b1 b2]. unfold toC, cq_mul. cbn [fst snd]. rewrite !Q2R_red, Q2R_minus, Q2R_plus, !Q2R_mult. reflexivity.
Qed.
Lemma toC_re : forall x, toC (cq_re x) = RtoC (Q2R x).
Proof. intros x. unfold toC, cq_re, RtoC. cbn. f_equal. unfold Q2R. cbn. lra. Qed.
Lemma toC_one : toC cq_one = RtoC 1.
Proof. unfold toC, cq_one, RtoC. cbn. f_equal; unfold Q2R; cbn; lra. Qed.
Lemma norm2_zero : forall b, ~ (cq_norm2 b == 0)%Q -> toC b <> RtoC 0.
Proof.
  intros [b1 b2] H E. apply H. unfold toC, RtoC in E. cbn in E. injection E as E1 E2.
  unfold cq_norm2. cbn [fst snd]. apply eqR_Qeq. rewrite Q2R_red, Q2R_plus, !Q2R_mult, E1, E2. unfold Q2R. cbn. lra.
Qed.
Lemma toC_div : forall a b, ~ (cq_norm2 b == 0)%Q -> toC (cq_div a b) = toC a / toC b.
Proof.
  intros [a1 a2] [b1 b2] H. pose proof (norm2_zero (b1, b2) H) as Hb.
  assert (Hn : Q2R (cq_norm2 (b1, b2)) <> 0%R).
  { intros E. apply H. apply eqR_Qeq. rewrite E. unfold Q2R. cbn. lra. }
  unfold toC, cq_div. cbn [fst snd]. rewrite !Q2R_red. rewrite !Q2R_div by exact H.
  unfold cq_norm2 in *. cbn [fst snd] in *. rewrite ?Q2R_red in *.
  rewrite ?Q2R_plus, ?Q2R_minus, ?Q2R_mult in *.
  unfold toC in Hb. cbn [fst snd] in Hb.
  apply injective_projections; cbn [fst snd Cdiv Cmult Cinv]; field; intros E; apply Hn; rewrite <- E; ring.
Qed.

Theorem H_proto_Q_correct : forall m k s,
    ~ (cq_norm2 (proto_den_Q k s) == 0)%Q ->
    toC (H_proto_Q m k s) = H_proto m (Q2R k) (toC s).
Proof.
  intros m k s H. unfold H_proto_Q, H_proto. fold (proto_den_Q k s).
  destruct m; rewrite toC_div by exact H; unfold proto_den_Q;
    rewrite ?toC_add, ?toC_mul, ?toC_re, ?toC_one; reflexivity.
Qed.

Definition eq_den_Q (kind : eqkind) (rA Q0 : Q) (s : CQ) : CQ :=
  let A := (rA * rA)%Q in
  let ss := cq_mul s s in
  match kind with
  | Bell => cq_add (cq_add ss (cq_mul (cq_re (1 / (A * Q0))) s)) cq_one
  | LowShelf => cq_add (cq_add (cq_mul (cq_mul (cq_re A) s) s) (cq_mul (cq_re (rA / Q0)) s)) cq_one
  | HighShelf => cq_add (cq_add ss (cq_mul (cq_re (rA / Q0)) s)) (cq_re A)
  end.

Theorem H_eq_proto_Q_correct : forall kind rA Q0 s,
    (0 < rA)%Q -> (0 < Q0)%Q ->
    ~ (cq_norm2 (eq_den_Q kind rA Q0 s) == 0)%Q ->
    toC (H_eq_proto_Q kind rA Q0 s) = H_eq_proto kind (Q2R (rA * rA)) (Q2R Q0) (toC s).
Proof.
  intros kind rA Q0 s HrA HQ0 H.
  assert (Hr : (0 < Q2R rA)%R) by (replace 0%R with (Q2R 0) by (unfold Q2R; cbn; lra); apply Qlt_Rlt; exact HrA).
  assert (Hq : (0 < Q2R Q0)%R) by (replace 0%R with (Q2R 0) by (unfold Q2R; cbn; lra); apply Qlt_Rlt; exact HQ0).
  assert (Hs : sqrt (Q2R (rA * rA)) = Q2R rA) by (rewrite Q2R_mult; apply sqrt_square; lra).
  assert (HQn : ~ (Q0 == 0)%Q) by (intros E; rewrite E in HQ0; discriminate).
  assert (HAQn : ~ (rA * rA * Q0 == 0)%Q).
  { intros E. apply Qeq_eqR in E. rewrite !Q2R_mult in E. replace (Q2R 0) with 0%R in E by (unfold Q2R; cbn; lra).
    assert (0 < Q2R rA * Q2R rA * Q2R Q0)%R by (apply Rmult_lt_0_compat; [apply Rmult_lt_0_compat|]; assumption).
    lra. }
  unfold H_eq_proto_Q, H_eq_proto. rewrite Hs.
  destruct kind; unfold eq_den_Q in H; rewrite toC_div by exact H;
    repeat (rewrite toC_add || rewrite toC_mul || rewrite toC_re || rewrite toC_one);
    rewrite ?Q2R_div by assumption; rewrite ?Q2R_mult;
    replace (Q2R 1) with 1%R by (unfold Q2R; cbn; lra);
    rewrite ?RtoC_div by lra; reflexivity.
Qed.
