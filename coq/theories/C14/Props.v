(** C14 — property theorems.  This file contains nothing but statements closed by [exact]. *)
From Coq Require Import ZArith QArith Qreals List Bool Arith Reals.
From Coquelicot Require Import Complex.
From KV Require Import Base.Outcome C13.ModelOps C13.ModelEffects C13.ModelDelay C13.ModelTree
     C14.SpecLaws C14.ProofsLaws C14.Signals C14.SpecDelay C14.ProofsDelay
     C14.OpsC C14.SpecSVF C14.ProofsSVF C14.ProofsResponse C14.ProofsEQ C14.ProofsFreqResp
     C14.SpecFreeverb C14.ProofsFreeverb C14.SpecCompressor C14.ProofsCompressor C14.ProofsDecay C14.ProofsDelayFx C14.SpecQ
     C14.ProofsCompSeg C14.ProofsFilterRate C14.ProofsReverbRate.
From KV Require C13.Run Base.IEEE.
From Flocq Require IEEE754.BinarySingleNaN.
Import ListNotations.
Open Scope ops_scope.
Local Open Scope R_scope.

(** Volume control applies the decibel law: every frame is multiplied by 10^(dB/20) (0 at -60 dB and
    below), whatever the state and the length of the run. *)
Theorem volume_law_R :
  forall (db : R) (s : estate R) (xs : list (frame R)),
    snd (run_frames (estep consts_R (EVolume (db_amp (Rpower 10) (eff db)))) s xs) =
    map (fun x => (fst x * spec_volume_gain db, snd x * spec_volume_gain db)) xs.
Proof. exact volume_law. Qed.

(** ... and that gain is the decibel value: 20 log10 (gain) = dB, gain 1 at 0 dB, 10 at +20 dB, levels add
    as gains multiply, and a louder setting is never a smaller gain. *)
Theorem decibel_law_R :
  (forall db, gain_to_db (db_to_gain db) = db) /\
  (forall a, 0 < a -> db_to_gain (gain_to_db a) = a) /\
  db_to_gain 0 = 1 /\ db_to_gain 20 = 10 /\
  (forall a b, db_to_gain (a + b) = db_to_gain a * db_to_gain b) /\
  (forall a b, a <= b -> spec_volume_gain a <= spec_volume_gain b).
Proof.
  exact (conj gain_to_db_inverse (conj db_to_gain_inverse (conj db_to_gain_0 (conj db_to_gain_20
        (conj db_to_gain_add spec_volume_gain_monotone))))).
Qed.

(** Panning control applies the equal-power law: gains sqrt(1 - p), sqrt(1 + p) for p clamped to [-1, 1]. *)
Theorem pan_law_R :
  forall (p : R) (s : estate R) (xs : list (frame R)),
    snd (run_frames (estep consts_R (EPanning (eff p))) s xs) =
    map (fun x => (fst x * pan_gain_left p, snd x * pan_gain_right p)) xs.
Proof. exact pan_law. Qed.

(** Equal power: the squared gains sum to 2 for EVERY position; unity gains at the centre; hard left / right
    silence the other channel; moving right never raises the left gain nor lowers the right one. *)
Theorem pan_equal_power_R :
  (forall p, (pan_gain_left p)² + (pan_gain_right p)² = 2) /\
  (pan_gain_left 0 = 1 /\ pan_gain_right 0 = 1) /\
  (forall p, p <= -1 -> pan_gain_left p = sqrt 2 /\ pan_gain_right p = 0) /\
  (forall p, 1 <= p -> pan_gain_left p = 0 /\ pan_gain_right p = sqrt 2) /\
  (forall p q, p <= q -> pan_gain_left q <= pan_gain_left p /\ pan_gain_right p <= pan_gain_right q).
Proof.
  exact (conj pan_equal_power (conj pan_centre (conj pan_hard_left (conj pan_hard_right pan_monotone)))).
Qed.

(** Distortion, drive amplitude d <> 0 (any drive above -60 dB): each channel is the clip curve applied to
    the driven signal, divided by the drive again, blended with the dry signal by the equal-power mix. *)
Theorem distortion_curves_R :
  forall (hard : bool) (d mix : R) (s : estate R) (xs : list (frame R)),
    d <> 0 ->
    snd (run_frames (estep consts_R (EDistortion hard d mix)) s xs) =
    map (fun x => (spec_mix (spec_distortion hard d (fst x)) (fst x) mix,
                   spec_mix (spec_distortion hard d (snd x)) (snd x) mix)) xs.
Proof. exact distortion_curves. Qed.

(** Hard clip: the driven output never exceeds unit level; inside it the signal is returned unchanged;
    beyond it the output is pinned at +-1/d. *)
Theorem hard_clip_unit_level_R :
  forall d x : R, 0 < d ->
    Rabs (spec_distortion true d x * d) <= 1 /\
    (Rabs (x * d) <= 1 -> spec_distortion true d x = x) /\
    (1 <= x * d -> spec_distortion true d x = 1 / d) /\
    (x * d <= -1 -> spec_distortion true d x = -1 / d).
Proof. exact hard_clip_unit_level. Qed.

(** Soft clip: x / (1 + |x d|), i.e. the curve v / (1 + |v|) on the driven signal; strictly inside unit
    level; transparent for small signals: the deviation from the input is at most d x^2. *)
Theorem soft_clip_R :
  forall d x : R, 0 < d ->
    spec_distortion false d x = x / (1 + Rabs (x * d)) /\
    spec_distortion false d x * d = soft_clip_curve (x * d) /\
    Rabs (spec_distortion false d x * d) < 1 /\
    Rabs (spec_distortion false d x - x) <= d * x².
Proof. exact soft_clip_all. Qed.

(** A drive of -60 dB or less is an amplitude of exactly 0: the wet signal is the input itself. *)
Theorem distortion_silent_drive_R :
  forall (hard : bool) (mix : R) (s : estate R) (xs : list (frame R)),
    snd (run_frames (estep consts_R (EDistortion hard 0 mix)) s xs) =
    map (fun x => (spec_mix (fst x) (fst x) mix, spec_mix (snd x) (snd x) mix)) xs.
Proof. exact distortion_silent_drive. Qed.

(** The equal-power wet/dry blend used by every effect with a mix: fully wet / fully dry / unit power. *)
Theorem mix_law_R :
  (forall wet dry : frame R, forall mix : R,
      blend wet dry mix = (spec_mix (fst wet) (fst dry) mix, spec_mix (snd wet) (snd dry) mix)) /\
  (forall wet dry, spec_mix wet dry 1 = wet) /\ (forall wet dry, spec_mix wet dry 0 = dry) /\
  (forall mix, let m := clampR mix 0 1 in (sqrt m)² + (sqrt (1 - m))² = 1).
Proof. exact (conj blend_R (conj spec_mix_wet (conj spec_mix_dry spec_mix_equal_power))). Qed.

(** Delay without feedback effects, from [init], EVERY input, every run length: the wet signal is the input
    convolved with the echo train (echo k at frame k D, gain g^k; D = max(floor(delay_time * rate), 1)). *)
Theorem delay_echoes_R :
  forall (d : nat) (g mix : R) (xs : list (frame R)),
    let D := delay_frames d in
    snd (run_frames (estep consts_R (EDelay d g mix [])) (init (EDelay d g mix [])) xs) =
    map (fun n => (spec_mix (spec_delay_wet D g (sigL xs) n) (sigL xs n) mix,
                   spec_mix (spec_delay_wet D g (sigR xs) n) (sigR xs n) mix)) (seq 0 (length xs)).
Proof. exact delay_echoes. Qed.

(** Impulse response: an impulse (a, b) comes back as g^k (a, b) at frame k D and nothing in between. *)
Theorem delay_impulse_response_R :
  forall (d : nat) (g mix a b : R) (m : nat),
    let D := delay_frames d in
    snd (run_frames (estep consts_R (EDelay d g mix [])) (init (EDelay d g mix [])) ((a, b) :: repeat (0, 0) m)) =
    map (fun n => (spec_mix (echo_ir D g n * a) (delta a n) mix, spec_mix (echo_ir D g n * b) (delta b n) mix))
        (seq 0 (S m)).
Proof. exact delay_impulse_response. Qed.

(** The echo train: g^k exactly at k D (k >= 1), zero at every other frame, each echo once more attenuated. *)
Theorem echo_train_R :
  forall (D : nat) (g : R), (1 <= D)%nat ->
    (forall k, (1 <= k)%nat -> echo_ir D g (k * D) = g ^ k) /\
    (forall n, (n mod D <> 0)%nat \/ n = 0%nat -> echo_ir D g n = 0) /\
    (forall n, (1 <= n)%nat -> echo_ir D g (n + D) = g * echo_ir D g n \/ echo_ir D g n = 0).
Proof. exact echo_train. Qed.

(** The delay length in frames is the exact floor of delay_time x sample_rate (integer arithmetic on
    nanoseconds, F35 repaired): D / rate <= delay_time < (D + 1) / rate; at least one frame. *)
Theorem delay_length_exact_R :
  forall nanos sr : Z,
    (0 <= nanos)%Z -> (0 < sr)%Z ->
    let D := delay_len_Z nanos sr in
    (0 <= D)%Z /\
    IZR D / IZR sr <= IZR nanos / 1000000000 < (IZR D + 1) / IZR sr /\
    ((1 <= D)%Z -> delay_frames (Z.to_nat D) = Z.to_nat D) /\
    ((D = 0)%Z -> delay_frames (Z.to_nat D) = 1%nat).
Proof. exact delay_length_exact. Qed.

(** The state-variable core of filter.rs: complex-exponential input X z^n from the matching state gives
    H(z) X z^n at EVERY frame, H = Q^2/D (low), PQ/D (band), P^2/D (high), (P^2+Q^2)/D (notch) with
    P = z - 1, Q = g (z + 1), D = P^2 + k P Q + Q^2, blended with the dry signal. *)
Theorem svf_transfer_C :
  forall (m : fmode) (g k mix : R) (z : C) (X : frame C) (N : nat),
    (1 + g * (g + k) <> 0)%R -> svfD g k z <> RtoC 0 ->
    let step := filter_step m (RtoC (svf_a1 g k)) (RtoC (svf_a2 g k)) (RtoC (svf_a3 g k)) (RtoC k) (RtoC mix) in
    run_frames step (steady g k z X c1) (map (cexp X z) (seq 0 N)) =
    (steady g k z X (Cpow z N),
     map (fun n => cscale X (with_mix (H_svf_poly m g k z) mix * Cpow z n)%C) (seq 0 N)).
Proof. exact filter_transfer_C. Qed.

(** ... and that rational function is the analog prototype under the bilinear transform s = (z-1)/(g(z+1)). *)
Theorem svf_is_bilinear_prototype_C :
  forall (m : fmode) (g k : R) (z : C),
    g <> 0%R -> (z + c1)%C <> RtoC 0 -> svfD g k z <> RtoC 0 ->
    H_svf_poly m g k z = H_svf m g k z.
Proof. exact H_svf_poly_is_bilinear. Qed.

(** On the unit circle the response is the prototype on the j-Omega axis at Omega = tan(theta/2)/g
    (frequency warping); no pole on the circle for g, k > 0. *)
Theorem svf_response_on_circle_C :
  forall (m : fmode) (g k theta : R),
    (0 < g)%R -> (0 < k)%R -> cos (theta / 2) <> 0%R ->
    H_svf_poly m g k (cis theta) = H_proto m k (Ci * RtoC (tan (theta / 2) / g))%C.
Proof. exact svf_response_on_circle. Qed.

(** Filter, code coefficients (tan = Coq's tan), any sample rate, cutoff inside the clamp range, any probe
    frequency f (not an odd multiple of Nyquist), any amplitude/phase X, any run length: the REAL model's
    response to the sinusoid Re (X e^(i n theta)) is Re (H X e^(i n theta)), H the prototype at
    Omega = tan(pi f/fs)/tan(pi fc/fs), k = 2 - 1.9 resonance. *)
Theorem filter_frequency_response_R :
  forall (m : fmode) (fc res mix fs f : R) (X : frame C) (N : nat),
    (0 < fs)%R -> (lit_1e4 <= fc / fs < lit_half)%R -> cos (PI * f / fs) <> 0%R ->
    let '(a1, a2, a3, k) := filter_coeffs PI lit_1e4 lit_half lit_1p9 tan fc res (1 / fs)%R in
    let g := prewarp fc fs in
    let z := cis (omega f fs) in
    let H := H_proto m k (Ci * RtoC (tan (PI * f / fs) / tan (PI * fc / fs)))%C in
    snd (run_frames (estep consts_R (EFilter m a1 a2 a3 k mix))
                    (SSvf (reS (steady g k z X c1)))
                    (map (fun n => reF (cexp X z n)) (seq 0 N))) =
    map (fun n => reF (cscale X (with_mix H mix * Cpow z n)%C)) (seq 0 N).
Proof. exact filter_frequency_response. Qed.

(** Unity pass bands, nulls in the stop bands, and at the requested cutoff (in hertz, for the sample rate in
    force) gain 1/k for low / band / high and a null for the notch. *)
Theorem filter_landmarks_C :
  forall fc res fs : R,
    (0 < fs)%R -> (lit_1e4 <= fc / fs < lit_half)%R ->
    let g := prewarp fc fs in let k := filter_k res in
    (H_svf_poly LowPass g k c1 = c1 /\ H_svf_poly Notch g k c1 = c1 /\
     H_svf_poly HighPass g k (- c1)%C = c1 /\ H_svf_poly Notch g k (- c1)%C = c1) /\
    (H_svf_poly HighPass g k c1 = RtoC 0 /\ H_svf_poly BandPass g k c1 = RtoC 0 /\
     H_svf_poly LowPass g k (- c1)%C = RtoC 0 /\ H_svf_poly BandPass g k (- c1)%C = RtoC 0) /\
    (let zc := cis (omega fc fs) in
     Cmod (H_svf_poly LowPass g k zc) = (1 / k)%R /\ Cmod (H_svf_poly BandPass g k zc) = (1 / k)%R /\
     Cmod (H_svf_poly HighPass g k zc) = (1 / k)%R /\ H_svf_poly Notch g k zc = RtoC 0).
Proof. exact filter_landmarks. Qed.

(** EQ filter: the model's transfer function m0 + m1 H_band + m2 H_low with the coefficients of eq_filter.rs
    is the Audio-EQ-Cookbook prototype (bell / low shelf / high shelf) under the bilinear transform. *)
Theorem eq_is_cookbook_C :
  forall (kind : eqkind) (g0 r Q : R) (z : C),
    (0 < g0)%R -> (0 < r)%R -> (0 < Q)%R -> (z + c1)%C <> RtoC 0 ->
    let A := (r * r)%R in
    svfD (eq_g kind g0 A) (eq_k kind A Q) z <> RtoC 0 ->
    H_eq_kind kind g0 A Q z = H_eq kind g0 A Q z.
Proof. exact eq_is_cookbook. Qed.

(** EQ filter, code coefficients (tan, 10^x = Coq's), any sample rate, any probe frequency: the REAL model's
    response to a sinusoid is that of the cookbook prototype at Omega = tan(pi f/fs)/tan(pi fc/fs). *)
Theorem eq_frequency_response_R :
  forall (kind : eqkind) (fc q gain fs f : R) (X : frame C) (N : nat),
    (0 < fs)%R -> (lit_1e4 <= fc / fs < lit_half)%R -> cos (PI * f / fs) <> 0%R ->
    let A := eq_A gain in let Q := Rmax q lit_minq in
    let '((a1, a2, a3), (m0, m1, m2)) :=
      eq_coeffs PI lit_1e4 lit_half lit_minq tan (Rpower 10) kind fc q gain (1 / fs)%R in
    let g := eq_g kind (prewarp fc fs) A in let k := eq_k kind A Q in
    let z := cis (omega f fs) in
    let H := H_eq_proto kind A Q (Ci * RtoC (tan (PI * f / fs) / tan (PI * fc / fs)))%C in
    snd (run_frames (estep consts_R (EEq a1 a2 a3 m0 m1 m2))
                    (SSvf (reS (steady g k z X c1)))
                    (map (fun n => reF (cexp X z n)) (seq 0 N))) =
    map (fun n => reF (cscale X (H * Cpow z n)%C)) (seq 0 N).
Proof. exact eq_frequency_response. Qed.

(** The requested gain, exactly 10^(dB/20): at the bell centre (in hertz, for the rate in force), at DC for
    the low shelf, at Nyquist for the high shelf; unity at the other ends. *)
Theorem eq_landmarks_C :
  forall fc q gain fs : R,
    (0 < fs)%R -> (lit_1e4 <= fc / fs < lit_half)%R ->
    let A := eq_A gain in let Q := Rmax q lit_minq in let g0 := prewarp fc fs in
    (H_eq_kind Bell g0 A Q (cis (omega fc fs)) = RtoC (db_to_gain gain) /\
     H_eq_kind Bell g0 A Q c1 = c1 /\ H_eq_kind Bell g0 A Q (- c1)%C = c1) /\
    (H_eq_kind LowShelf g0 A Q c1 = RtoC (db_to_gain gain) /\ H_eq_kind LowShelf g0 A Q (- c1)%C = c1) /\
    (H_eq_kind HighShelf g0 A Q (- c1)%C = RtoC (db_to_gain gain) /\ H_eq_kind HighShelf g0 A Q c1 = c1).
Proof. exact eq_landmarks. Qed.

(** Reverb = Freeverb: the model (arrays with a running index) equals the reference network written with
    delay-line histories (8 parallel lowpass-feedback combs + 4 series all-passes per channel, input gain
    0.015, width mixing), for ANY sample operations (bit for bit in binary32), every input and run length;
    only condition: every delay line holds at least one sample. *)
Theorem reverb_is_freeverb_any :
  forall (F : Type) (OPS : Ops F) (K : consts F) (csz asz : list (nat * nat)) (fb damp width mix : F)
         (xs : list (frame F)),
    sizes_ok csz -> sizes_ok asz ->
    snd (run_frames (estep K (EReverb csz asz fb damp width mix)) (init (EReverb csz asz fb damp width mix)) xs) =
    freeverb K csz asz fb damp width mix xs.
Proof. exact @reverb_is_freeverb. Qed.

(** The delay lengths the code computes in binary64 are, at every standard device rate, exactly
    floor(tuning * rate / 44100) of the reference tunings 1116 ... 1617 / 556 ... 225, right channel + 23. *)
Theorem freeverb_tunings :
  (forall sr, In sr standard_rates ->
     C13.Run.sizes sr C13.Run.comb_tunings = fv_sizes sr fv_comb_tunings /\
     C13.Run.sizes sr C13.Run.allpass_tunings = fv_sizes sr fv_allpass_tunings) /\
  (fv_sizes 44100 fv_comb_tunings =
   [(1116, 1139); (1188, 1211); (1277, 1300); (1356, 1379); (1422, 1445); (1491, 1514); (1557, 1580); (1617, 1640)]%nat /\
   fv_sizes 44100 fv_allpass_tunings = [(556, 579); (441, 464); (341, 364); (225, 248)]%nat) /\
  (forall sr l, sizes_ok (fv_sizes sr l)).
Proof. exact (conj tunings_scaled_exactly (conj tunings_at_44100 fv_sizes_ok)). Qed.

(** Compressor, below the threshold from rest: the signal is only multiplied by the make-up gain (then
    blended); the follower stays at rest.  Any log10; 10^0 = 1 is the only fact about powf used. *)
Theorem compressor_below_threshold_R :
  forall (lg pw : R -> R) (thr ratio att rel mk_db mix : R) (xs : list (frame R)),
    pw 0 = 1 -> Forall (below lg thr) xs ->
    run_frames (estep consts_R (ECompressor lg pw thr ratio att rel mk_db mix)) (SComp (0, 0)) xs =
    (SComp (0, 0), map (fun x => blend (fst x * pw (mk_db / 20), snd x * pw (mk_db / 20)) x mix) xs).
Proof. exact compressor_below_threshold. Qed.

(** Constant levels Ll, Lr dB: the follower is o + s^n (e0 - o) at EVERY frame (o = overshoot above the
    threshold, s = attack coefficient when rising / release when falling), the gain applied at frame n is
    10^(follower(n+1) (1/ratio - 1) / 20). *)
Theorem compressor_constant_level_R :
  forall (lg pw : R -> R) (thr ratio att rel mk_db mix Ll Lr el0 er0 : R),
    0 <= att -> 0 <= rel ->
    forall x : nat -> frame R, (forall n, at_levels lg Ll Lr (x n)) ->
    forall N : nat,
      run_frames (estep consts_R (ECompressor lg pw thr ratio att rel mk_db mix)) (SComp (el0, er0)) (map x (seq 0 N)) =
      (SComp (follower (overshoot thr Ll) (follower_speed att rel (overshoot thr Ll) el0) el0 N,
              follower (overshoot thr Lr) (follower_speed att rel (overshoot thr Lr) er0) er0 N),
       map (fun n =>
              let gl := follower (overshoot thr Ll) (follower_speed att rel (overshoot thr Ll) el0) el0 (S n) * (1 / ratio - 1) in
              let gr := follower (overshoot thr Lr) (follower_speed att rel (overshoot thr Lr) er0) er0 (S n) * (1 / ratio - 1) in
              blend (pw (gl / 20) * fst (x n) * pw (mk_db / 20), pw (gr / 20) * snd (x n) * pw (mk_db / 20)) (x n) mix)
           (seq 0 N)).
Proof. exact compressor_constant_level. Qed.

(** ... which converges to the static curve (level - threshold) (1/ratio - 1) dB, output level
    threshold + (level - threshold)/ratio; nothing below the threshold. *)
Theorem compressor_static_curve_R :
  (forall thr ratio L s e0, 0 <= s < 1 ->
     forall eps, 0 < eps -> exists N, forall n, (N <= n)%nat ->
       Rabs (follower (overshoot thr L) s e0 n * (1 / ratio - 1) - static_gain_db thr ratio L) < eps) /\
  (forall thr ratio L, thr <= L ->
     static_gain_db thr ratio L = - ((L - thr) * (1 - 1 / ratio)) /\
     L + static_gain_db thr ratio L = thr + (L - thr) / ratio) /\
  (forall thr ratio L, L <= thr -> static_gain_db thr ratio L = 0).
Proof. exact (conj gain_converges (conj static_gain_above static_gain_below)). Qed.

(** Attack / release are time constants: the coefficient of compressor.rs is exp(-dt/tau), in (0, 1), and
    after n frames (n dt seconds) the distance to the target has shrunk by exactly e^(-n dt / tau). *)
Theorem compressor_time_constants_R :
  (forall tau dt, 0 < tau -> 0 < dt -> comp_speed exp tau dt = smoothing tau dt /\ 0 < smoothing tau dt < 1) /\
  (forall o e0 tau dt n, follower o (smoothing tau dt) e0 n - o = exp (- (INR n * dt) / tau) * (e0 - o)).
Proof. exact (conj comp_speed_R follower_time_constant). Qed.

(** The reverb decays for feedback below 1: with the input silent, every comb of the network (model: array +
    running index, in ANY state related to a delay-line history bounded by W) loses at least the factor
    rho = f + d^N (1 - f) < 1 every two trips round its line: |out[n]| <= rho^(n / 2N) W.  (The four all-passes
    that follow are fixed, stable filters; the decay of their output is measured, not proved.) *)
Theorem reverb_comb_decays_R :
  forall (N : nat) (f d : R) (c : @comb R) (s : line * R) (m : nat) (W : R),
    (1 <= N)%nat -> 0 <= f < 1 -> 0 <= d < 1 ->
    comb_rel N c s -> 0 <= W -> bounded N W W s ->
    forall n, (n < m * (N + N))%nat ->
      Rabs (nth n (snd (run_frames (comb_step f d) c (repeat 0 (m * (N + N))))) 0) <= rho N f d ^ (n / (N + N)) * W.
Proof. exact model_comb_decays. Qed.

(** ... rho is below 1, rho^m W falls below every eps, and every comb state is bounded by some W. *)
Theorem reverb_decay_rate_R :
  (forall (N : nat), (1 <= N)%nat -> forall f d : R, 0 <= f < 1 -> 0 <= d < 1 -> 0 <= rho N f d < 1) /\
  (forall r W, 0 <= r < 1 -> 0 <= W -> forall eps, 0 < eps -> exists M, forall m, (M <= m)%nat -> r ^ m * W < eps) /\
  (forall (N : nat) (s : line * R), exists W, 0 <= W /\ bounded N W W s).
Proof. exact (conj rho_range (conj geometric_vanishes comb_state_bounded)). Qed.

(** Delay WITH feedback effects: for ANY feedback chain that is linear and time-invariant from its initial
    state (hypotheses stated on the chain as an operator on finite signals), every input, every run length:
    the wet signal is the sum of the echoes 1 .. K+1 (enough to cover the run), echo k = the input passed k
    times through the feedback effects and the feedback gain, delayed by k D frames. *)
Theorem delay_loop_echoes_R :
  forall (S : Type) (fxstep : S -> frame R -> S * frame R) (s0 : S),
    (forall xs ys, length xs = length ys -> FX S fxstep s0 (ladd xs ys) = ladd (FX S fxstep s0 xs) (FX S fxstep s0 ys)) ->
    (forall a xs, FX S fxstep s0 (lscale a xs) = lscale a (FX S fxstep s0 xs)) ->
    (forall k xs, FX S fxstep s0 (zeros k ++ xs) = zeros k ++ FX S fxstep s0 xs) ->
    forall (D : nat), (1 <= D)%nat ->
    forall (g mix : R) (xs : list (frame R)) (K : nat),
      (length xs <= Datatypes.S K * D)%nat ->
      snd (run_frames (delay_step S g mix fxstep) (zeros D, s0) xs) =
      map2 (fun w x => blend w x mix) (echoes_from1 S fxstep s0 D g xs K) xs.
Proof. exact delay_loop_echoes. Qed.

(** what the echoes are *)
Theorem delay_echo_definition_R :
  forall (S : Type) (fxstep : S -> frame R -> S * frame R) (s0 : S) (D : nat) (g : R) (xs : list (frame R)),
    (forall k, echo S fxstep s0 D g (length xs) xs k =
               firstn (length xs) (zeros (k * D) ++ lscale (g ^ k) (iterFX S fxstep s0 k xs))) /\
    iterFX S fxstep s0 0 xs = xs /\
    (forall k, iterFX S fxstep s0 (Datatypes.S k) xs = FX S fxstep s0 (iterFX S fxstep s0 k xs)) /\
    echoes_from1 S fxstep s0 D g xs 0 = echo S fxstep s0 D g (length xs) xs 1 /\
    (forall K, echoes_from1 S fxstep s0 D g xs (Datatypes.S K) =
               ladd (echoes_from1 S fxstep s0 D g xs K) (echo S fxstep s0 D g (length xs) xs (Datatypes.S (Datatypes.S K)))).
Proof. exact delay_echo_definition. Qed.

(** The delay effect of the tree with volume / panning / filter / EQ effects in its feedback loop (any number,
    any order, any parameters): those chains ARE linear and time-invariant, so the echo law holds for them. *)
Theorem delay_feedback_effects_R :
  forall (d : nat) (g mix : R) (fx : list (effect R)) (xs : list (frame R)) (K : nat),
    simple_list fx ->
    let D := delay_frames d in
    (length xs <= Datatypes.S K * D)%nat ->
    snd (run_frames (estep consts_R (EDelay d g mix fx)) (init (EDelay d g mix fx)) xs) =
    map2 (fun w x => blend w x mix) (fx_wet fx D g xs K) xs.
Proof. exact delay_fx_echoes. Qed.

(** ... and such chains satisfy the three hypotheses (length-preserving, additive, homogeneous, shift-invariant). *)
Theorem feedback_chain_is_lti_R :
  forall fx : list (effect R), simple_list fx ->
    (forall xs, length (chainFX fx xs) = length xs) /\
    (forall xs ys, length xs = length ys -> chainFX fx (ladd xs ys) = ladd (chainFX fx xs) (chainFX fx ys)) /\
    (forall a xs, chainFX fx (lscale a xs) = lscale a (chainFX fx xs)) /\
    (forall k xs, chainFX fx (zeros k ++ xs) = zeros k ++ chainFX fx xs).
Proof. exact chainFX_lti. Qed.

(** The rational evaluators used by the correspondence check to validate the harness's reference formulas
    compute the real / complex prototypes the theorems are about. *)
Theorem reference_evaluators_correct :
  (forall m k s, ~ (cq_norm2 (proto_den_Q k s) == 0)%Q ->
                 toC (H_proto_Q m k s) = H_proto m (Q2R k) (toC s)) /\
  (forall kind rA Q0 s, (0 < rA)%Q -> (0 < Q0)%Q -> ~ (cq_norm2 (eq_den_Q kind rA Q0 s) == 0)%Q ->
                        toC (H_eq_proto_Q kind rA Q0 s) = H_eq_proto kind (Q2R (rA * rA)) (Q2R Q0) (toC s)).
Proof. exact (conj H_proto_Q_correct H_eq_proto_Q_correct). Qed.

(** Outside the guard of the response theorems: a requested cutoff below fs/10000 is clamped, the filter is
    the one for fs/10000 hertz — 10 Hz requested at 192 kHz gives the filter for 19.2 Hz (corner too high). *)
Theorem filter_low_cutoff_clamped_refuted :
  exists fc fs res : R,
    0 < fs /\ 0 < fc /\ fc / fs < lit_1e4 /\
    filter_coeffs PI lit_1e4 lit_half lit_1p9 tan fc res (1 / fs) =
    filter_coeffs PI lit_1e4 lit_half lit_1p9 tan (lit_1e4 * fs) res (1 / fs) /\
    lit_1e4 * fs = 96 / 5 /\ fc = 10 /\ prewarp fc fs < prewarp (lit_1e4 * fs) fs.
Proof. exact filter_low_cutoff_clamped_refuted. Qed.

(** Same for the EQ filter: a 12 Hz bell requested at 192 kHz has the coefficients of a 19.2 Hz bell (F42). *)
Theorem eq_low_frequency_clamped_refuted :
  exists (kind : eqkind) (fc q gain fs : R),
    0 < fs /\ 0 < fc /\ fc / fs < lit_1e4 /\
    eq_coeffs PI lit_1e4 lit_half lit_minq tan (Rpower 10) kind fc q gain (1 / fs) =
    eq_coeffs PI lit_1e4 lit_half lit_minq tan (Rpower 10) kind (lit_1e4 * fs) q gain (1 / fs) /\
    lit_1e4 * fs = 96 / 5 /\ fc = 12.
Proof. exact eq_low_frequency_clamped_refuted. Qed.

(** Compressor, PIECEWISE-constant level history: the input is any sequence of segments, each a run of frames in
    which the detector sees a constant overshoot above the threshold on each channel; from ANY follower state the
    run ends with the follower at the composition of the per-segment closed forms and produces the per-segment
    outputs, the gain of frame n of a segment entered at e0 being 10^(follower(n+1) (1/ratio - 1) / 20). *)
Theorem compressor_piecewise_R :
  forall (lg pw : R -> R) (thr ratio att rel mk_db mix : R),
    0 <= att -> 0 <= rel ->
    forall (segs : list cseg) (st : R * R),
      Forall (seg_ok lg thr) segs ->
      run_frames (estep consts_R (ECompressor lg pw thr ratio att rel mk_db mix)) (SComp st) (concat (map seg_frames segs)) =
      (SComp (segs_state att rel st segs), segs_out pw ratio att rel mk_db mix st segs).
Proof. exact compressor_piecewise. Qed.

(** ... whatever way the frames are cut into process calls (slices of at most the internal buffer size): in
    particular no slice is special for consisting of zeros only (C13's partition theorem). *)
Theorem compressor_piecewise_any_slicing_R :
  forall (lg pw : R -> R) (thr ratio att rel mk_db mix : R),
    0 <= att -> 0 <= rel ->
    forall (T : nat) (segs : list cseg) (st : R * R) (slices : list (list (frame R))),
      Forall (seg_ok lg thr) segs -> Forall (fun sl => (length sl <= T)%nat) slices ->
      concat slices = concat (map seg_frames segs) ->
      process_slices consts_R T (ECompressor lg pw thr ratio att rel mk_db mix) (SComp st) slices =
      Ok (SComp (segs_state att rel st segs), segs_out pw ratio att rel mk_db mix st segs).
Proof. exact compressor_piecewise_sliced. Qed.

(** What those terms are: the follower at the end of a segment, the output of a segment, of a sequence; the
    follower is the composition of the closed forms of the specification ([follower_segs]). *)
Theorem compressor_segment_definitions_R :
  forall (pw : R -> R) (ratio att rel mk_db mix : R),
    (forall o e0 n, seg_end att rel o e0 n = follower o (follower_speed att rel o e0) e0 n) /\
    (forall ol or_ el0 er0 n x xs,
        seg_out pw ratio att rel mk_db mix ol or_ el0 er0 n (x :: xs) =
        blend (pw (seg_end att rel ol el0 (S n) * (1 / ratio - 1) / 20) * fst x * pw (mk_db / 20),
               pw (seg_end att rel or_ er0 (S n) * (1 / ratio - 1) / 20) * snd x * pw (mk_db / 20)) x mix
        :: seg_out pw ratio att rel mk_db mix ol or_ el0 er0 (S n) xs) /\
    (forall ol or_ el0 er0 n, seg_out pw ratio att rel mk_db mix ol or_ el0 er0 n [] = []) /\
    (forall st, segs_state att rel st [] = st /\ segs_out pw ratio att rel mk_db mix st [] = []) /\
    (forall st sg rest,
        let st1 := (seg_end att rel (seg_l sg) (fst st) (length (seg_frames sg)),
                    seg_end att rel (seg_r sg) (snd st) (length (seg_frames sg))) in
        segs_state att rel st (sg :: rest) = segs_state att rel st1 rest /\
        segs_out pw ratio att rel mk_db mix st (sg :: rest) =
        seg_out pw ratio att rel mk_db mix (seg_l sg) (seg_r sg) (fst st) (snd st) 0 (seg_frames sg)
        ++ segs_out pw ratio att rel mk_db mix st1 rest) /\
    (forall segs st,
        segs_state att rel st segs =
        (follower_segs att rel (fst st) (map (fun sg => (seg_l sg, length (seg_frames sg))) segs),
         follower_segs att rel (snd st) (map (fun sg => (seg_r sg, length (seg_frames sg))) segs))) /\
    (forall e1 n x xs,
        quiet_out pw ratio rel mk_db mix e1 n (x :: xs) =
        blend (pw (rel ^ S n * e1 * (1 / ratio - 1) / 20) * fst x * pw (mk_db / 20),
               pw (rel ^ S n * e1 * (1 / ratio - 1) / 20) * snd x * pw (mk_db / 20)) x mix
        :: quiet_out pw ratio rel mk_db mix e1 (S n) xs) /\
    (forall e1 n, quiet_out pw ratio rel mk_db mix e1 n [] = []).
Proof.
  exact (fun pw ratio att rel mk_db mix =>
           conj (fun o e0 n => eq_refl) (conj (fun ol or_ el0 er0 n x xs => eq_refl) (conj (fun ol or_ el0 er0 n => eq_refl)
           (conj (fun st => conj eq_refl eq_refl) (conj (fun st sg rest => conj eq_refl eq_refl)
           (conj (segs_state_follower att rel) (conj (fun e1 n x xs => eq_refl) (fun e1 n => eq_refl)))))))).
Qed.

(** Which frames make a segment: a constant level (overshoot = level - threshold, 0 below it); ANY signal at or
    below the threshold (overshoot 0); exact zeros, provided the level the detector assigns to 0 is not above the
    threshold (it is -inf in the code, see [compressor_exact_zero_b32]). *)
Theorem compressor_segment_kinds_R :
  forall (lg : R -> R) (thr : R),
    (forall Ll Lr x, at_levels lg Ll Lr x -> at_overshoot lg thr (overshoot thr Ll) (overshoot thr Lr) x) /\
    (forall x, below lg thr x -> at_overshoot lg thr 0 0 x) /\
    (20 * lg (Rabs 0) <= thr -> at_overshoot lg thr 0 0 (0, 0)) /\
    (forall ol or_ x, at_overshoot lg thr ol or_ x <->
                      overshoot thr (level_db lg (fst x)) = ol /\ overshoot thr (level_db lg (snd x)) = or_) /\
    (forall sg : cseg, seg_ok lg thr sg <-> Forall (at_overshoot lg thr (fst (fst sg)) (snd (fst sg))) (snd sg)) /\
    (forall sg : cseg, seg_l sg = fst (fst sg) /\ seg_r sg = snd (fst sg) /\ seg_frames sg = snd sg).
Proof.
  exact (fun lg thr => conj (at_levels_overshoot lg thr) (conj (below_overshoot lg thr) (conj (silence_overshoot lg thr)
        (conj (fun ol or_ x => conj (fun h => h) (fun h => h)) (conj (fun sg => conj (fun h => h) (fun h => h))
        (fun sg => conj eq_refl (conj eq_refl eq_refl))))))).
Qed.

(** Loud passage from rest, then a gap (silence or anything at or below the threshold), then a signal below the
    threshold: the follower reaches e1 = (L - threshold)(1 - att^n1), RELEASES through the gap, and frame j of the
    quiet signal gets the gain 10^(rel^(gap + j + 1) e1 (1/ratio - 1) / 20) — the release clock does not stop. *)
Theorem compressor_release_through_silence_R :
  forall (lg pw : R -> R) (thr ratio att rel mk_db mix : R),
    0 <= att -> 0 <= rel ->
    forall (L : R) (loud gap quiet : list (frame R)),
      thr <= L -> att <= 1 ->
      Forall (at_levels lg L L) loud -> Forall (at_overshoot lg thr 0 0) gap -> Forall (at_overshoot lg thr 0 0) quiet ->
      let e1 := (L - thr) * (1 - att ^ length loud) in
      run_frames (estep consts_R (ECompressor lg pw thr ratio att rel mk_db mix)) (SComp (0, 0)) (loud ++ gap ++ quiet) =
      (SComp (rel ^ (length gap + length quiet) * e1, rel ^ (length gap + length quiet) * e1),
       seg_out pw ratio att rel mk_db mix (L - thr) (L - thr) 0 0 0 loud ++
       quiet_out pw ratio rel mk_db mix e1 0 gap ++ quiet_out pw ratio rel mk_db mix e1 (length gap) quiet).
Proof. exact compressor_release_through_silence. Qed.

(** binary32, bit for bit, what the code does with an exact zero (either sign): log10(+0) = -inf (libm), for EVERY
    finite threshold the overshoot is +0, and the follower becomes 0 + speed (env - 0) with the release coefficient
    whenever it is above 0. *)
Theorem compressor_exact_zero_b32 :
  forall (lg pw : IEEE.f32 -> IEEE.f32) (thr ratio sa sr env z : IEEE.f32),
    (z = BinarySingleNaN.B754_zero false \/ z = BinarySingleNaN.B754_zero true) ->
    lg (BinarySingleNaN.B754_zero false) = BinarySingleNaN.B754_infinity true ->
    BinarySingleNaN.is_finite thr = true ->
    fst (comp_channel lg pw thr ratio sa sr env z) =
    IEEE.add32 (IEEE.Z32 0) (IEEE.mul32 (if IEEE.lt32 (IEEE.Z32 0) env then sr else sa) (IEEE.sub32 env (IEEE.Z32 0))).
Proof. exact compressor_exact_zero_b32. Qed.

(** Filter after ANY history of device rates (segments (rate, frames) with on_change_sample_rate in between, any
    initial integrator state): the response to a sinusoid at the rate fs now in force is that of a filter that has
    always run at fs — H the prototype at Omega = tan(pi f/fs)/tan(pi fc/fs), corner at fc HERTZ — plus the
    zero-input response of that same filter to the state offset the history left, which decays geometrically. *)
Theorem filter_response_after_rate_change_R :
  forall (m : fmode) (fc res mix : R) (hist : list (R * list (frame R))) (ic0 : svfst) (fs f : R) (X : frame C) (N : nat),
    (0 < fs)%R -> (lit_1e4 <= fc / fs < lit_half)%R -> cos (PI * f / fs) <> 0%R ->
    let mk := filter_at m fc res mix in
    let g := prewarp fc fs in let k := filter_k res in let z := cis (omega f fs) in
    let H := H_proto m k (Ci * RtoC (tan (PI * f / fs) / tan (PI * fc / fs)))%C in
    let probe := map (fun n => reF (cexp X z n)) (seq 0 N) in
    let d := st_sub (svf_state (fst (run_history mk (SSvf ic0) hist))) (reS (steady g k z X c1)) in
    let transient := snd (run_frames (estep consts_R (mk fs)) (SSvf d) (repeat fzero N)) in
    snd (run_history mk (SSvf ic0) (hist ++ [(fs, probe)])) =
    snd (run_history mk (SSvf ic0) hist) ++
    map2 fr_add (map (fun n => reF (cscale X (with_mix H mix * Cpow z n)%C)) (seq 0 N)) transient /\
    (forall n, (n < N)%nat ->
               (fr_norm2 (nth n transient fzero) <= filter_C g k * svf_rho g k ^ n * st_energy d)%R) /\
    (0 <= svf_rho g k < 1)%R.
Proof. exact filter_response_after_rate_change. Qed.

(** Same for the EQ filter: after any history the bell / shelf sits at the requested frequency for the rate in force. *)
Theorem eq_response_after_rate_change_R :
  forall (kind : eqkind) (fc q gain : R) (hist : list (R * list (frame R))) (ic0 : svfst) (fs f : R) (X : frame C) (N : nat),
    (0 < fs)%R -> (lit_1e4 <= fc / fs < lit_half)%R -> cos (PI * f / fs) <> 0%R ->
    let mk := eq_at kind fc q gain in
    let A := eq_A gain in let Q := Rmax q lit_minq in
    let g := eq_g kind (prewarp fc fs) A in let k := eq_k kind A Q in let z := cis (omega f fs) in
    let H := H_eq_proto kind A Q (Ci * RtoC (tan (PI * f / fs) / tan (PI * fc / fs)))%C in
    let probe := map (fun n => reF (cexp X z n)) (seq 0 N) in
    let d := st_sub (svf_state (fst (run_history mk (SSvf ic0) hist))) (reS (steady g k z X c1)) in
    let transient := snd (run_frames (estep consts_R (mk fs)) (SSvf d) (repeat fzero N)) in
    snd (run_history mk (SSvf ic0) (hist ++ [(fs, probe)])) =
    snd (run_history mk (SSvf ic0) hist) ++
    map2 fr_add (map (fun n => reF (cscale X (H * Cpow z n)%C)) (seq 0 N)) transient /\
    (forall n, (n < N)%nat ->
               (fr_norm2 (nth n transient fzero) <=
                eq_C g k (snd (fst (eq_m kind A Q))) (snd (eq_m kind A Q)) * svf_rho g k ^ n * st_energy d)%R) /\
    (0 <= svf_rho g k < 1)%R.
Proof. exact eq_response_after_rate_change. Qed.

(** What a history is, which effect is in force at rate fs, and the constants of the decay bound. *)
Theorem rate_history_definitions_R :
  (forall mk s, run_history mk s [] = (s, [])) /\
  (forall mk s r xs rest,
      run_history mk s ((r, xs) :: rest) =
      (let (s1, o1) := run_frames (estep consts_R (mk r)) (change_rate (mk r) s) xs in
       let (s2, o2) := run_history mk s1 rest in (s2, o1 ++ o2))) /\
  (forall m fc res mix fs,
      filter_at m fc res mix fs =
      (let '(a1, a2, a3, k) := filter_coeffs PI lit_1e4 lit_half lit_1p9 tan fc res (1 / fs) in EFilter m a1 a2 a3 k mix)) /\
  (forall kind fc q gain fs,
      eq_at kind fc q gain fs =
      (let '((a1, a2, a3), (m0, m1, m2)) := eq_coeffs PI lit_1e4 lit_half lit_minq tan (Rpower 10) kind fc q gain (1 / fs) in
       EEq a1 a2 a3 m0 m1 m2)) /\
  (forall ic, svf_state (SSvf ic) = ic) /\
  (forall x : frame R, fr_norm2 x = fst x * fst x + snd x * snd x) /\
  (forall s : svfst, st_energy s = fr_norm2 (fst s) + fr_norm2 (snd s)) /\
  (forall g k, svf_rho g k = 1 - g * (2 * k / (2 + k * k)) / (3 + 6 * (g * g) * (k * k + 1))) /\
  (forall g k, filter_C g k = 3 * (k * k + 1) / (g * (2 * k / (2 + k * k)))) /\
  (forall g k m1 m2, eq_C g k m1 m2 = 3 / 2 * (m1 * m1 + m2 * m2) / (g * (2 * k / (2 + k * k)))).
Proof.
  exact (conj (fun mk s => eq_refl) (conj (fun mk s r xs rest => eq_refl) (conj (fun m fc res mix fs => eq_refl)
        (conj (fun kind fc q gain fs => eq_refl) (conj (fun ic => eq_refl) (conj (fun x => eq_refl) (conj (fun s => eq_refl)
        (conj (fun g k => eq_refl) (conj (fun g k => eq_refl) (fun g k m1 m2 => eq_refl)))))))))).
Qed.

(** The statement has content: the coefficients in force differ from those of any other rate (inside the clamp
    range), so an instance that kept the coefficients of the previous rate would contradict it. *)
Theorem filter_coeffs_follow_rate_R :
  forall (m : fmode) (fc res mix fs1 fs2 : R),
    0 < fs1 < fs2 -> lit_1e4 <= fc / fs2 -> fc / fs1 < lit_half ->
    filter_at m fc res mix fs1 <> filter_at m fc res mix fs2.
Proof. exact filter_coeffs_follow_rate. Qed.

(** Reverb after ANY history of device rates (any list of integer rates: repeats, returns to an earlier or to the
    initial rate included), from any reverb state, for ANY sample operations: [on_change_sample_rate] rebuilds the
    network on EVERY call, so the state the last change leaves is the empty network whose comb / all-pass lines have
    the lengths floor(tuning * r / 44100) (at least 1; right channel + 23) for the rate r now in force, and the
    output from then on is the reference Freeverb network for r. *)
Theorem reverb_after_rate_history_any :
  forall (F : Type) (OPS : Ops F) (K : consts F) (fb damp width mix : F)
         (hist : list (Z * list (frame F))) (s0 : estate F) (r : Z) (xs : list (frame F)),
    is_reverb_state s0 ->
    let mk := reverb_at fb damp width mix in
    let rebuilt := @reverb_new F OPS (fv_sizes r fv_comb_tunings) (fv_sizes r fv_allpass_tunings) in
    change_rate (mk r) (fst (run_hist K Z mk s0 hist)) = SReverb rebuilt /\
    map (fun p => (length (snd (fst (fst p))), length (snd (fst (snd p))))) (fst rebuilt) =
    map (fun n => (Z.to_nat (Z.max 1 (n * r / 44100)), Z.to_nat (Z.max 1 ((n + 23) * r / 44100)))) fv_comb_tunings /\
    map (fun p => (length (fst (fst p)), length (fst (snd p)))) (snd rebuilt) =
    map (fun n => (Z.to_nat (Z.max 1 (n * r / 44100)), Z.to_nat (Z.max 1 ((n + 23) * r / 44100)))) fv_allpass_tunings /\
    snd (run_hist K Z mk s0 (hist ++ [(r, xs)])) =
    snd (run_hist K Z mk s0 hist) ++
    freeverb K (fv_sizes r fv_comb_tunings) (fv_sizes r fv_allpass_tunings) fb damp width mix xs.
Proof. exact reverb_after_rate_history_fv. Qed.

(** What a history is for any effect family [mk] and any operations (the filter / EQ histories above are this with
    real rates), the reverb compiled for a rate, which states are reverb states ([init] is one). *)
Theorem rate_history_definitions_any :
  forall (F : Type) (OPS : Ops F) (K : consts F),
    (forall (Rate : Type) (mk : Rate -> effect F) s, run_hist K Rate mk s [] = (s, [])) /\
    (forall (Rate : Type) (mk : Rate -> effect F) s r xs rest,
        run_hist K Rate mk s ((r, xs) :: rest) =
        (let (s1, o1) := run_frames (estep K (mk r)) (change_rate (mk r) s) xs in
         let (s2, o2) := run_hist K Rate mk s1 rest in (s2, o1 ++ o2))) /\
    (forall (mk : R -> effect R) s hist, run_history mk s hist = run_hist consts_R R mk s hist) /\
    (forall (fb damp width mix : F) sr,
        reverb_at fb damp width mix sr = EReverb (fv_sizes sr fv_comb_tunings) (fv_sizes sr fv_allpass_tunings) fb damp width mix) /\
    (forall (r : @reverb_state F), is_reverb_state (SReverb r)) /\
    (forall (fb damp width mix : F) sr, is_reverb_state (init (reverb_at fb damp width mix sr))).
Proof. exact rate_history_definitions. Qed.
