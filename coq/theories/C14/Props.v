(** C14 — property theorems.  This file contains nothing but statements closed by [exact]. *)
From Coq Require Import ZArith List Bool Arith Reals.
From KV Require Import Base.Outcome C13.ModelOps C13.ModelEffects C13.ModelDelay C13.ModelTree
     C14.SpecLaws C14.ProofsLaws C14.Signals C14.SpecDelay C14.ProofsDelay.
Import ListNotations.
Open Scope ops_scope.
Local Open Scope R_scope.

(** Volume control applies the decibel law: every frame is multiplied by 10^(dB/20) (0 at -60 dB and
    below), whatever the state and the length of the run. *)
Theorem volume_law_R :
  forall (db : R) (s : estate R) (xs : list (frame R)),
    snd (run_frames (estep consts_R (EVolume (db_amp (Rpower 10) (eff db)))) s xs) =
    map (fun x => (fst x * spec_volume_gain db, snd x * spec_volume_gain db)) xs.
Proof. exact volume_law. Qed.

(** ... and that gain is the decibel value: 20 log10 (gain) = dB, gain 1 at 0 dB, 10 at +20 dB, levels add
    as gains multiply, and a louder setting is never a smaller gain. *)
Theorem decibel_law_R :
  (forall db, gain_to_db (db_to_gain db) = db) /\
  (forall a, 0 < a -> db_to_gain (gain_to_db a) = a) /\
  db_to_gain 0 = 1 /\ db_to_gain 20 = 10 /\
  (forall a b, db_to_gain (a + b) = db_to_gain a * db_to_gain b) /\
  (forall a b, a <= b -> spec_volume_gain a <= spec_volume_gain b).
Proof.
  exact (conj gain_to_db_inverse (conj db_to_gain_inverse (conj db_to_gain_0 (conj db_to_gain_20
        (conj db_to_gain_add spec_volume_gain_monotone))))).
Qed.

(** Panning control applies the equal-power law: gains sqrt(1 - p), sqrt(1 + p) for p clamped to [-1, 1]. *)
Theorem pan_law_R :
  forall (p : R) (s : estate R) (xs : list (frame R)),
    snd (run_frames (estep consts_R (EPanning (eff p))) s xs) =
    map (fun x => (fst x * pan_gain_left p, snd x * pan_gain_right p)) xs.
Proof. exact pan_law. Qed.

(** Equal power: the squared gains sum to 2 for EVERY position; unity gains at the centre; hard left / right
    silence the other channel; moving right never raises the left gain nor lowers the right one. *)
Theorem pan_equal_power_R :
  (forall p, (pan_gain_left p)² + (pan_gain_right p)² = 2) /\
  (pan_gain_left 0 = 1 /\ pan_gain_right 0 = 1) /\
  (forall p, p <= -1 -> pan_gain_left p = sqrt 2 /\ pan_gain_right p = 0) /\
  (forall p, 1 <= p -> pan_gain_left p = 0 /\ pan_gain_right p = sqrt 2) /\
  (forall p q, p <= q -> pan_gain_left q <= pan_gain_left p /\ pan_gain_right p <= pan_gain_right q).
Proof.
  exact (conj pan_equal_power (conj pan_centre (conj pan_hard_left (conj pan_hard_right pan_monotone)))).
Qed.

(** Distortion, drive amplitude d <> 0 (any drive above -60 dB): each channel is the clip curve applied to
    the driven signal, divided by the drive again, blended with the dry signal by the equal-power mix. *)
Theorem distortion_curves_R :
  forall (hard : bool) (d mix : R) (s : estate R) (xs : list (frame R)),
    d <> 0 ->
    snd (run_frames (estep consts_R (EDistortion hard d mix)) s xs) =
    map (fun x => (spec_mix (spec_distortion hard d (fst x)) (fst x) mix,
                   spec_mix (spec_distortion hard d (snd x)) (snd x) mix)) xs.
Proof. exact distortion_curves. Qed.

(** Hard clip: the driven output never exceeds unit level; inside it the signal is returned unchanged;
    beyond it the output is pinned at +-1/d. *)
Theorem hard_clip_unit_level_R :
  forall d x : R, 0 < d ->
    Rabs (spec_distortion true d x * d) <= 1 /\
    (Rabs (x * d) <= 1 -> spec_distortion true d x = x) /\
    (1 <= x * d -> spec_distortion true d x = 1 / d) /\
    (x * d <= -1 -> spec_distortion true d x = -1 / d).
Proof. exact hard_clip_unit_level. Qed.

(** Soft clip: x / (1 + |x d|), i.e. the curve v / (1 + |v|) on the driven signal; strictly inside unit
    level; transparent for small signals: the deviation from the input is at most d x^2. *)
Theorem soft_clip_R :
  forall d x : R, 0 < d ->
    spec_distortion false d x = x / (1 + Rabs (x * d)) /\
    spec_distortion false d x * d = soft_clip_curve (x * d) /\
    Rabs (spec_distortion false d x * d) < 1 /\
    Rabs (spec_distortion false d x - x) <= d * x².
Proof. exact soft_clip_all. Qed.

(** A drive of -60 dB or less is an amplitude of exactly 0: the wet signal is the input itself. *)
Theorem distortion_silent_drive_R :
  forall (hard : bool) (mix : R) (s : estate R) (xs : list (frame R)),
    snd (run_frames (estep consts_R (EDistortion hard 0 mix)) s xs) =
    map (fun x => (spec_mix (fst x) (fst x) mix, spec_mix (snd x) (snd x) mix)) xs.
Proof. exact distortion_silent_drive. Qed.

(** The equal-power wet/dry blend used by every effect with a mix: fully wet / fully dry / unit power. *)
Theorem mix_law_R :
  (forall wet dry : frame R, forall mix : R,
      blend wet dry mix = (spec_mix (fst wet) (fst dry) mix, spec_mix (snd wet) (snd dry) mix)) /\
  (forall wet dry, spec_mix wet dry 1 = wet) /\ (forall wet dry, spec_mix wet dry 0 = dry) /\
  (forall mix, let m := clampR mix 0 1 in (sqrt m)² + (sqrt (1 - m))² = 1).
Proof. exact (conj blend_R (conj spec_mix_wet (conj spec_mix_dry spec_mix_equal_power))). Qed.

(** Delay without feedback effects, from [init], EVERY input, every run length: the wet signal is the input
    convolved with the echo train (echo k at frame k D, gain g^k; D = max(floor(delay_time * rate), 1)). *)
Theorem delay_echoes_R :
  forall (d : nat) (g mix : R) (xs : list (frame R)),
    let D := delay_frames d in
    snd (run_frames (estep consts_R (EDelay d g mix [])) (init (EDelay d g mix [])) xs) =
    map (fun n => (spec_mix (spec_delay_wet D g (sigL xs) n) (sigL xs n) mix,
                   spec_mix (spec_delay_wet D g (sigR xs) n) (sigR xs n) mix)) (seq 0 (length xs)).
Proof. exact delay_echoes. Qed.

(** Impulse response: an impulse (a, b) comes back as g^k (a, b) at frame k D and nothing in between. *)
Theorem delay_impulse_response_R :
  forall (d : nat) (g mix a b : R) (m : nat),
    let D := delay_frames d in
    snd (run_frames (estep consts_R (EDelay d g mix [])) (init (EDelay d g mix [])) ((a, b) :: repeat (0, 0) m)) =
    map (fun n => (spec_mix (echo_ir D g n * a) (delta a n) mix, spec_mix (echo_ir D g n * b) (delta b n) mix))
        (seq 0 (S m)).
Proof. exact delay_impulse_response. Qed.

(** The echo train: g^k exactly at k D (k >= 1), zero at every other frame, each echo once more attenuated. *)
Theorem echo_train_R :
  forall (D : nat) (g : R), (1 <= D)%nat ->
    (forall k, (1 <= k)%nat -> echo_ir D g (k * D) = g ^ k) /\
    (forall n, (n mod D <> 0)%nat \/ n = 0%nat -> echo_ir D g n = 0) /\
    (forall n, (1 <= n)%nat -> echo_ir D g (n + D) = g * echo_ir D g n \/ echo_ir D g n = 0).
Proof. exact echo_train. Qed.
