(** C14 — the memoryless effects (volume control, panning control, distortion): the real-number
    instance of the C13 effect models computes the textbook laws of SpecLaws.v. *)
From Coq Require Import ZArith List Bool Lia Reals Lra.
From KV Require Import Base.Outcome C13.ModelOps C13.ModelEffects C13.ModelDelay C13.ModelTree
     C13.ProofsSeq C13.ProofsInst C14.SpecLaws.
Import ListNotations.
Open Scope ops_scope.
Local Open Scope R_scope.

(** * bridges between the model's operations over R and the usual real functions *)
Lemma eff_R : forall a : R, eff a = a.
Proof. intros a. unfold eff, interp. cbn. ring. Qed.

Lemma oclamp_R : forall x lo hi : R, lo <= hi -> @oclamp R _ x lo hi = clampR x lo hi.
Proof.
  intros x lo hi H. unfold oclamp, clampR. cbn.
  destruct (Rlt_dec x lo) as [H1|H1].
  - destruct (Rlt_dec hi lo) as [H2|H2]; [lra|].
    rewrite Rmin_right by lra. rewrite Rmax_left by lra. reflexivity.
  - destruct (Rlt_dec hi x) as [H2|H2].
    + rewrite Rmin_left by lra. rewrite Rmax_right by lra. reflexivity.
    + rewrite Rmin_right by lra. rewrite Rmax_right by lra. reflexivity.
Qed.

Lemma clampR_range : forall x lo hi, lo <= hi -> lo <= clampR x lo hi <= hi.
Proof.
  intros x lo hi H. unfold clampR. split; [apply Rmax_l|].
  apply Rmax_lub; [exact H|apply Rmin_l].
Qed.
Lemma clampR_id : forall x lo hi, lo <= x <= hi -> clampR x lo hi = x.
Proof. intros x lo hi [H1 H2]. unfold clampR. rewrite Rmin_right by lra. apply Rmax_right; lra. Qed.

Lemma blend_R : forall (wet dry : frame R) (mix : R),
    blend wet dry mix = (spec_mix (fst wet) (fst dry) mix, spec_mix (snd wet) (snd dry) mix).
Proof.
  intros [wl wr] [dl dr] mix. unfold blend, spec_mix, fr_add, fr_scale. cbn [fst snd].
  change (oZ 0 : R) with 0. change (oZ 1 : R) with 1. rewrite oclamp_R by lra. reflexivity.
Qed.

(** fully wet: the wet signal alone *)
Lemma spec_mix_wet : forall wet dry, spec_mix wet dry 1 = wet.
Proof.
  intros. unfold spec_mix. rewrite clampR_id by lra. replace (1 - 1) with 0 by ring.
  rewrite sqrt_0, sqrt_1. ring.
Qed.
Lemma spec_mix_dry : forall wet dry, spec_mix wet dry 0 = dry.
Proof.
  intros. unfold spec_mix. rewrite clampR_id by lra. rewrite Rminus_0_r, sqrt_0, sqrt_1. ring.
Qed.
(** the blend is equal-power: the squared weights sum to one *)
Lemma spec_mix_equal_power : forall mix,
    let m := clampR mix 0 1 in (sqrt m)² + (sqrt (1 - m))² = 1.
Proof.
  intros mix m. pose proof (clampR_range mix 0 1 ltac:(lra)) as [H0 H1]. fold m in H0, H1.
  rewrite !Rsqr_sqrt by lra. ring.
Qed.

(** * run of a memoryless effect = map *)
Lemma run_lift0 : forall (f : frame R -> frame R) (e : effect R),
    (forall s x, estep consts_R e s x = (s, f x)) ->
    forall xs s, snd (run_frames (estep consts_R e) s xs) = map f xs.
Proof.
  intros f e He. induction xs as [|x xs IH]; intros s; [reflexivity|].
  cbn [run_frames map]. rewrite He. specialize (IH s).
  destruct (run_frames (estep consts_R e) s xs) as [s2 ys]. cbn [snd] in *. congruence.
Qed.

(** * volume control: the decibel law *)
Lemma db_amp_R : forall db : R, db_amp (Rpower 10) (eff db) = spec_volume_gain db.
Proof.
  intros db. rewrite eff_R. unfold db_amp, spec_volume_gain, db_to_gain. cbn.
  destruct (Req_EM_T db 0) as [E|NE].
  - subst. destruct (Rle_dec 0 (-60)); [lra|]. unfold Rdiv. rewrite Rmult_0_l.
    symmetry. apply Rpower_O. lra.
  - destruct (Rle_dec db (-60)); reflexivity.
Qed.

Theorem volume_law : forall (db : R) (s : estate R) (xs : list (frame R)),
    snd (run_frames (estep consts_R (EVolume (db_amp (Rpower 10) (eff db)))) s xs) =
    map (fun x => (fst x * spec_volume_gain db, snd x * spec_volume_gain db)) xs.
Proof.
  intros db s xs. rewrite db_amp_R. apply run_lift0. intros s0 [l r]. reflexivity.
Qed.

(** the gain IS the decibel value: above -60 dB, 20 log10 (gain) = db; unity at 0 dB; +6.02 dB doubles
    (10^(1/20 * 20 log10 2) = 2); the gain is monotone in the decibel value *)
Lemma ln10_pos : 0 < ln 10.
Proof. rewrite <- ln_1. apply ln_increasing; lra. Qed.

Lemma gain_to_db_inverse : forall db, gain_to_db (db_to_gain db) = db.
Proof.
  intros db. unfold gain_to_db, db_to_gain, Rpower. rewrite ln_exp. pose proof ln10_pos. field. lra.
Qed.
Lemma db_to_gain_inverse : forall a, 0 < a -> db_to_gain (gain_to_db a) = a.
Proof.
  intros a Ha. unfold gain_to_db, db_to_gain, Rpower. pose proof ln10_pos.
  replace (20 * (ln a / ln 10) / 20 * ln 10) with (ln a) by (field; lra). apply exp_ln. exact Ha.
Qed.
Lemma db_to_gain_0 : db_to_gain 0 = 1.
Proof. unfold db_to_gain, Rdiv. rewrite Rmult_0_l. apply Rpower_O. lra. Qed.
Lemma db_to_gain_add : forall a b, db_to_gain (a + b) = db_to_gain a * db_to_gain b.
Proof. intros. unfold db_to_gain. rewrite <- Rpower_plus. f_equal. field. Qed.
Lemma db_to_gain_pos : forall a, 0 < db_to_gain a.
Proof. intros. unfold db_to_gain, Rpower. apply exp_pos. Qed.
Lemma db_to_gain_20 : db_to_gain 20 = 10.
Proof. unfold db_to_gain. replace (20 / 20) with 1 by field. apply Rpower_1. lra. Qed.
Lemma db_to_gain_increasing : forall a b, a < b -> db_to_gain a < db_to_gain b.
Proof.
  intros a b H. unfold db_to_gain, Rpower. apply exp_increasing. pose proof ln10_pos.
  apply Rmult_lt_compat_r; lra.
Qed.
Lemma spec_volume_gain_monotone : forall a b, a <= b -> spec_volume_gain a <= spec_volume_gain b.
Proof.
  intros a b H. unfold spec_volume_gain.
  destruct (Rle_dec a (-60)), (Rle_dec b (-60)); try lra.
  - left. apply db_to_gain_pos.
  - destruct H as [H|H]; [left; apply db_to_gain_increasing; exact H|subst; lra].
Qed.

(** * panning control: the equal-power law *)
Lemma sqrt2_sqrt_half : forall t, 0 <= t -> sqrt (t * (1 / 2)) * sqrt 2 = sqrt t.
Proof.
  intros t Ht. rewrite <- sqrt_mult by lra. f_equal. field.
Qed.

Lemma panned_R : forall (x : frame R) (p : R),
    panned consts_R x p = (fst x * pan_gain_left p, snd x * pan_gain_right p).
Proof.
  intros [l r] p. unfold panned, pan_gain_left, pan_gain_right. cbn [fst snd].
  change (oZ 0 : R) with 0. change (oZ 1 : R) with 1. change (oZ (-1) : R) with (-1).
  cbn [oeqb Ops_R].
  destruct (Req_EM_T p 0) as [E|NE].
  - subst. rewrite clampR_id by lra. rewrite Rminus_0_r, Rplus_0_r, sqrt_1. f_equal; ring.
  - rewrite oclamp_R by lra. pose proof (clampR_range p (-1) 1 ltac:(lra)) as [H0 H1].
    set (c := clampR p (-1) 1) in *. unfold fr_scale. cbn.
    replace (1 - (c + 1) * (1 / 2)) with ((1 - c) * (1 / 2)) by field.
    f_equal.
    + rewrite Rmult_assoc. rewrite sqrt2_sqrt_half by lra. reflexivity.
    + rewrite Rmult_assoc. replace ((c + 1) * (1 / 2)) with ((1 + c) * (1 / 2)) by ring.
      rewrite sqrt2_sqrt_half by lra. reflexivity.
Qed.

Theorem pan_law : forall (p : R) (s : estate R) (xs : list (frame R)),
    snd (run_frames (estep consts_R (EPanning (eff p))) s xs) =
    map (fun x => (fst x * pan_gain_left p, snd x * pan_gain_right p)) xs.
Proof.
  intros p s xs. rewrite eff_R. apply run_lift0. intros s0 x. cbn [estep]. unfold lift0. unfold panning_step.
  rewrite panned_R. reflexivity.
Qed.

Theorem pan_equal_power : forall p, (pan_gain_left p)² + (pan_gain_right p)² = 2.
Proof.
  intros p. unfold pan_gain_left, pan_gain_right.
  pose proof (clampR_range p (-1) 1 ltac:(lra)) as [H0 H1].
  rewrite !Rsqr_sqrt by lra. ring.
Qed.
Lemma pan_centre : pan_gain_left 0 = 1 /\ pan_gain_right 0 = 1.
Proof.
  unfold pan_gain_left, pan_gain_right. rewrite clampR_id by lra.
  rewrite Rminus_0_r, Rplus_0_r, sqrt_1. split; reflexivity.
Qed.
Lemma pan_hard_left : forall p, p <= -1 -> pan_gain_left p = sqrt 2 /\ pan_gain_right p = 0.
Proof.
  intros p H. unfold pan_gain_left, pan_gain_right.
  assert (E : clampR p (-1) 1 = -1).
  { unfold clampR. rewrite Rmin_right by lra. apply Rmax_left; lra. }
  rewrite E. split; [f_equal; ring|]. replace (1 + -1) with 0 by ring. apply sqrt_0.
Qed.
Lemma pan_hard_right : forall p, 1 <= p -> pan_gain_left p = 0 /\ pan_gain_right p = sqrt 2.
Proof.
  intros p H. unfold pan_gain_left, pan_gain_right.
  assert (E : clampR p (-1) 1 = 1).
  { unfold clampR. rewrite Rmin_left by lra. apply Rmax_right; lra. }
  rewrite E. split; [|f_equal; ring]. replace (1 - 1) with 0 by ring. apply sqrt_0.
Qed.
Lemma clampR_monotone : forall a b lo hi, a <= b -> clampR a lo hi <= clampR b lo hi.
Proof.
  intros a b lo hi H. unfold clampR. apply Rle_max_compat_l. apply Rle_min_compat_l. exact H.
Qed.
(** moving right never raises the left gain and never lowers the right gain *)
Lemma pan_monotone : forall p q, p <= q ->
    pan_gain_left q <= pan_gain_left p /\ pan_gain_right p <= pan_gain_right q.
Proof.
  intros p q H. unfold pan_gain_left, pan_gain_right.
  pose proof (clampR_monotone p q (-1) 1 H).
  split; apply sqrt_le_1_alt; lra.
Qed.

(** * distortion *)
Lemma Rabs_le_bounds : forall x a, Rabs x <= a -> -a <= x <= a.
Proof. intros x a H. unfold Rabs in H. destruct (Rcase_abs x); lra. Qed.
Lemma hard_clip_R : forall v : R, hard_clip v = hard_clip_curve v.
Proof.
  intros v. unfold hard_clip, hard_clip_curve. change (oZ 1 : R) with 1. change (oZ (-1) : R) with (-1).
  apply oclamp_R. lra.
Qed.
Lemma soft_clip_R : forall v : R, soft_clip v = soft_clip_curve v.
Proof. reflexivity. Qed.

Lemma distortion_step_R : forall (hard : bool) (d mix : R) (x : frame R),
    d <> 0 ->
    distortion_step hard d mix x =
    (spec_mix (spec_distortion hard d (fst x)) (fst x) mix,
     spec_mix (spec_distortion hard d (snd x)) (snd x) mix).
Proof.
  intros hard d mix [l r] Hd. unfold distortion_step. rewrite blend_R. cbn [oeqb Ops_R].
  change (oZ 0 : R) with 0. destruct (Req_EM_T d 0) as [E|_]; [contradiction|].
  unfold spec_distortion. destruct hard; cbn [fst snd fr_div fr_scale]; rewrite ?hard_clip_R, ?soft_clip_R; reflexivity.
Qed.

Theorem distortion_curves : forall (hard : bool) (d mix : R) (s : estate R) (xs : list (frame R)),
    d <> 0 ->
    snd (run_frames (estep consts_R (EDistortion hard d mix)) s xs) =
    map (fun x => (spec_mix (spec_distortion hard d (fst x)) (fst x) mix,
                   spec_mix (spec_distortion hard d (snd x)) (snd x) mix)) xs.
Proof.
  intros hard d mix s xs Hd. apply run_lift0. intros s0 x. cbn [estep]. unfold lift0. rewrite distortion_step_R by exact Hd.
  reflexivity.
Qed.

(** drive given in decibels, as the builder takes it: the amplitude is never 0 above -60 dB *)
Lemma drive_nonzero : forall db, -60 < db -> spec_volume_gain db <> 0 /\ 0 < spec_volume_gain db.
Proof.
  intros db H. unfold spec_volume_gain. destruct (Rle_dec db (-60)); [lra|].
  pose proof (db_to_gain_pos db). split; lra.
Qed.

(** hard clip: unit level after drive; exact identity while the driven signal is inside [-1, 1] *)
Lemma hard_clip_unit_level : forall d x, 0 < d ->
    Rabs (spec_distortion true d x * d) <= 1 /\
    (Rabs (x * d) <= 1 -> spec_distortion true d x = x) /\
    (1 <= x * d -> spec_distortion true d x = 1 / d) /\
    (x * d <= -1 -> spec_distortion true d x = -1 / d).
Proof.
  intros d x Hd. unfold spec_distortion, hard_clip_curve.
  pose proof (clampR_range (x * d) (-1) 1 ltac:(lra)) as [H0 H1].
  repeat split.
  - replace (clampR (x * d) (-1) 1 / d * d) with (clampR (x * d) (-1) 1) by (field; lra).
    apply Rabs_le. lra.
  - intros H. apply Rabs_le_bounds in H. rewrite clampR_id by lra. field. lra.
  - intros H. unfold clampR. rewrite Rmin_left by lra. rewrite Rmax_right by lra. reflexivity.
  - intros H. unfold clampR. rewrite Rmin_right by lra. rewrite Rmax_left by lra. reflexivity.
Qed.

(** soft clip: x / (1 + |x d|): the curve v / (1 + |v|) on the driven signal; stays strictly inside
    the unit level; odd; transparent for small signals: |out - x| <= d x^2 *)
Lemma soft_clip_closed_form : forall d x, 0 < d -> spec_distortion false d x = x / (1 + Rabs (x * d)).
Proof.
  intros d x Hd. unfold spec_distortion, soft_clip_curve.
  pose proof (Rabs_pos (x * d)). field. split; lra.
Qed.
Lemma soft_clip_below_unit : forall d x, 0 < d -> Rabs (spec_distortion false d x * d) < 1.
Proof.
  intros d x Hd. unfold spec_distortion, soft_clip_curve.
  replace (x * d / (1 + Rabs (x * d)) / d * d) with (x * d / (1 + Rabs (x * d)))
    by (pose proof (Rabs_pos (x * d)); field; split; lra).
  set (v := x * d). pose proof (Rabs_pos v) as Hv.
  unfold Rdiv. rewrite Rabs_mult. rewrite (Rabs_right (/ (1 + Rabs v))).
  2:{ apply Rle_ge. left. apply Rinv_0_lt_compat. lra. }
  apply (Rmult_lt_reg_r (1 + Rabs v)); [lra|]. rewrite Rmult_assoc, Rinv_l by lra. lra.
Qed.
Lemma soft_clip_transparent : forall d x, 0 < d ->
    Rabs (spec_distortion false d x - x) <= d * x².
Proof.
  intros d x Hd. rewrite soft_clip_closed_form by exact Hd.
  set (a := Rabs (x * d)). assert (Ha : 0 <= a) by apply Rabs_pos.
  replace (x / (1 + a) - x) with (- (x * a) / (1 + a)) by (field; lra).
  unfold Rdiv. rewrite Rabs_mult, Rabs_Ropp, Rabs_mult. rewrite (Rabs_right a) by lra.
  rewrite (Rabs_right (/ (1 + a))).
  2:{ apply Rle_ge. left. apply Rinv_0_lt_compat. lra. }
  assert (Ea : a = Rabs x * d) by (unfold a; rewrite Rabs_mult, (Rabs_right d); lra).
  assert (Ex : x² = Rabs x * Rabs x) by (rewrite <- Rabs_mult; unfold Rsqr; symmetry; apply Rabs_right; apply Rle_ge, Rle_0_sqr).
  rewrite Ex. pose proof (Rabs_pos x) as Hx.
  apply (Rmult_le_reg_r (1 + a)); [lra|]. rewrite Rmult_assoc, Rinv_l, Rmult_1_r by lra.
  rewrite Ea. assert (0 <= Rabs x * Rabs x * d * (Rabs x * d)).
  { repeat apply Rmult_le_pos; lra. }
  nra.
Qed.
Lemma soft_clip_all : forall d x : R, 0 < d ->
    spec_distortion false d x = x / (1 + Rabs (x * d)) /\
    spec_distortion false d x * d = soft_clip_curve (x * d) /\
    Rabs (spec_distortion false d x * d) < 1 /\
    Rabs (spec_distortion false d x - x) <= d * x².
Proof.
  intros d x Hd. repeat split.
  - apply soft_clip_closed_form; exact Hd.
  - unfold spec_distortion. field. lra.
  - apply soft_clip_below_unit; exact Hd.
  - apply soft_clip_transparent; exact Hd.
Qed.
Lemma hard_clip_transparent : forall d x, 0 < d -> Rabs (x * d) <= 1 -> spec_distortion true d x - x = 0.
Proof. intros d x Hd H. destruct (hard_clip_unit_level d x Hd) as (_ & E & _). rewrite E by exact H. ring. Qed.

(** drive of -60 dB or less (amplitude exactly 0): the wet signal is the input (documented limit) *)
Theorem distortion_silent_drive : forall (hard : bool) (mix : R) (s : estate R) (xs : list (frame R)),
    snd (run_frames (estep consts_R (EDistortion hard 0 mix)) s xs) =
    map (fun x => (spec_mix (fst x) (fst x) mix, spec_mix (snd x) (snd x) mix)) xs.
Proof.
  intros hard mix s xs. apply run_lift0. intros s0 x. cbn [estep]. unfold lift0. unfold distortion_step. cbn [oeqb Ops_R].
  change (oZ 0 : R) with 0. destruct (Req_EM_T 0 0) as [_|N]; [|contradiction]. rewrite blend_R. reflexivity.
Qed.
