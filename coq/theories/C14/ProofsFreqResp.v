(** C14 — headline statements for the filter and the EQ filter with the coefficient formulas of
    filter.rs / eq_filter.rs (libm's tan, powf instantiated with Coq's [tan], [Rpower]): for every
    sample rate fs, requested frequency fc (inside the clamp range), probe frequency f and amplitude,
    the real-number model answers the sinusoid Re (X e^(i n theta)), theta = 2 pi f / fs, with
    Re (H X e^(i n theta)) where H is the analog prototype at Omega = tan(pi f/fs) / tan(pi fc/fs). *)
From Coq Require Import ZArith List Bool Arith Lia Reals Lra.
From Coquelicot Require Import Complex.
From KV Require Import Base.Outcome C13.ModelOps C13.ModelEffects C13.ModelDelay C13.ModelTree
     C14.SpecLaws C14.ProofsLaws C14.Signals C14.OpsC C14.SpecSVF C14.ProofsSVF C14.ProofsResponse C14.ProofsEQ.
Import ListNotations.
Open Scope ops_scope.
Local Open Scope R_scope.

(** the literals of the code *)
Definition lit_1e4 : R := 1 / 10000.
Definition lit_half : R := 1 / 2.
Definition lit_1p9 : R := 19 / 10.
Definition lit_minq : R := 1 / 100.

(** resonance -> damping (filter.rs: k = 2 - 1.9 * resonance.clamp(0, 1)) *)
Definition filter_k (res : R) : R := 2 - lit_1p9 * clampR res 0 1.
Lemma filter_k_range : forall res, 1 / 10 <= filter_k res <= 2.
Proof.
  intros res. unfold filter_k, lit_1p9. pose proof (clampR_range res 0 1 ltac:(lra)). lra.
Qed.

Lemma one_over_inv : forall fs : R, fs <> 0 -> 1 / (1 / fs) = fs.
Proof. intros. field. exact H. Qed.

Lemma filter_coeffs_R : forall fc res fs,
    0 < fs -> lit_1e4 <= fc / fs <= lit_half ->
    filter_coeffs PI lit_1e4 lit_half lit_1p9 tan fc res (1 / fs) =
    (svf_a1 (prewarp fc fs) (filter_k res), svf_a2 (prewarp fc fs) (filter_k res),
     svf_a3 (prewarp fc fs) (filter_k res), filter_k res).
Proof.
  intros fc res fs Hfs Hf. unfold filter_coeffs. change (oZ 0 : R) with 0. change (oZ 1 : R) with 1. change (oZ 2 : R) with 2.
  cbn [odiv omul oadd osub Ops_R]. rewrite one_over_inv by lra.
  rewrite !oclamp_R by (unfold lit_1e4, lit_half; lra). rewrite (clampR_id (fc / fs)) by exact Hf.
  replace (PI * (fc / fs)) with (PI * fc / fs) by (field; lra).
  reflexivity.
Qed.

Lemma den_pos : forall g k, 0 < g -> 0 < k -> 1 + g * (g + k) <> 0.
Proof. intros. assert (0 < g * (g + k)) by (apply Rmult_lt_0_compat; lra). lra. Qed.

Local Open Scope C_scope.

(** de Moivre: the probe signal is the sinusoid (cos n theta, sin n theta) *)
Lemma Cpow_cis : forall theta n, Cpow (cis theta) n = cis (INR n * theta).
Proof.
  intros theta. induction n as [|n IH].
  - cbn [Cpow]. unfold cis. rewrite Rmult_0_l, cos_0, sin_0. reflexivity.
  - cbn [Cpow]. rewrite IH, S_INR. unfold cis.
    replace ((INR n + 1) * theta)%R with (theta + INR n * theta)%R by ring.
    rewrite cos_plus, sin_plus. apply injective_projections; cbn; ring.
Qed.

Theorem filter_frequency_response : forall m fc res mix fs f X N,
    (0 < fs)%R -> (lit_1e4 <= fc / fs < lit_half)%R -> cos (PI * f / fs) <> 0%R ->
    let '(a1, a2, a3, k) := filter_coeffs PI lit_1e4 lit_half lit_1p9 tan fc res (1 / fs)%R in
    let g := prewarp fc fs in
    let z := cis (omega f fs) in
    let H := H_proto m k (Ci * RtoC (tan (PI * f / fs) / tan (PI * fc / fs))) in
    snd (run_frames (estep consts_R (EFilter m a1 a2 a3 k mix))
                    (SSvf (reS (steady g k z X c1)))
                    (map (fun n => reF (cexp X z n)) (seq 0 N))) =
    map (fun n => reF (cscale X (with_mix H mix * Cpow z n))) (seq 0 N).
Proof.
  intros m fc res mix fs f X N Hfs Hf Hc.
  rewrite filter_coeffs_R by (try assumption; unfold lit_half in *; lra).
  cbv beta iota zeta.
  pose proof (filter_k_range res) as Hk.
  assert (Hf' : (0 < fc / fs < 1 / 2)%R) by (unfold lit_1e4, lit_half in *; lra).
  destruct (prewarp_corner fc fs Hfs Hf') as (Hg & _).
  assert (Eh : (omega f fs / 2 = PI * f / fs)%R) by (unfold omega; field; lra).
  rewrite filter_sinusoid_R.
  - rewrite svf_response_on_circle by (rewrite ?Eh; try assumption; lra). rewrite Eh. reflexivity.
  - apply den_pos; lra.
  - apply svfD_on_circle; lra.
Qed.

(** corollaries at the three landmark frequencies, in terms of the model's transfer function *)
Theorem filter_landmarks : forall fc res fs,
    (0 < fs)%R -> (lit_1e4 <= fc / fs < lit_half)%R ->
    let g := prewarp fc fs in let k := filter_k res in
    (* pass bands: unity at DC for low-pass and notch, unity at Nyquist for high-pass and notch *)
    (H_svf_poly LowPass g k c1 = c1 /\ H_svf_poly Notch g k c1 = c1 /\
     H_svf_poly HighPass g k (- c1) = c1 /\ H_svf_poly Notch g k (- c1) = c1) /\
    (* stop bands *)
    (H_svf_poly HighPass g k c1 = RtoC 0 /\ H_svf_poly BandPass g k c1 = RtoC 0 /\
     H_svf_poly LowPass g k (- c1) = RtoC 0 /\ H_svf_poly BandPass g k (- c1) = RtoC 0) /\
    (* at the requested cutoff, for this sample rate: gain 1/k = Q for low / band / high, a null for the notch *)
    (let zc := cis (omega fc fs) in
     Cmod (H_svf_poly LowPass g k zc) = (1 / k)%R /\ Cmod (H_svf_poly BandPass g k zc) = (1 / k)%R /\
     Cmod (H_svf_poly HighPass g k zc) = (1 / k)%R /\ H_svf_poly Notch g k zc = RtoC 0).
Proof.
  intros fc res fs Hfs Hf g k.
  assert (Hf' : (0 < fc / fs < 1 / 2)%R) by (unfold lit_1e4, lit_half in *; lra).
  destruct (prewarp_corner fc fs Hfs Hf') as (Hg & HP & HQ). fold g in Hg, HP, HQ.
  pose proof (filter_k_range res) as Hk. fold k in Hk.
  destruct (svf_at_dc g k ltac:(lra)) as (D1 & D2 & D3 & D4).
  destruct (svf_at_nyquist g k) as (N1 & N2 & N3 & N4).
  destruct (svf_corner_gain g k _ HP HQ ltac:(lra)) as (C1 & C2 & C3 & _).
  destruct (svf_at_corner g k _ HP HQ ltac:(lra)) as (_ & _ & _ & C4 & _).
  repeat split; assumption.
Qed.

(** * EQ filter *)
Local Open Scope R_scope.
Lemma eq_coeffs_R : forall kind fc q gain fs,
    0 < fs -> lit_1e4 <= fc / fs <= lit_half ->
    let A := eq_A gain in let Q := Rmax q lit_minq in
    eq_coeffs PI lit_1e4 lit_half lit_minq tan (Rpower 10) kind fc q gain (1 / fs) =
    (let g := eq_g kind (prewarp fc fs) A in let k := eq_k kind A Q in
     ((svf_a1 g k, svf_a2 g k, svf_a3 g k), eq_m kind A Q)).
Proof.
  intros kind fc q gain fs Hfs Hf A Q. unfold eq_coeffs.
  change (oZ 0 : R) with 0. change (oZ 1 : R) with 1. change (oZ 40 : R) with 40.
  cbn [odiv omul oadd osub omax osqrt Ops_R].
  rewrite !oclamp_R by (unfold lit_1e4, lit_half; lra).
  replace (fc * (1 / fs)) with (fc / fs) by (field; lra).
  rewrite (clampR_id (fc / fs)) by exact Hf.
  replace (PI * (fc / fs)) with (PI * fc / fs) by (field; lra).
  fold (prewarp fc fs). fold (eq_A gain). fold A. fold Q.
  destruct kind; reflexivity.
Qed.
Local Open Scope C_scope.

Theorem eq_frequency_response : forall kind fc q gain fs f X N,
    (0 < fs)%R -> (lit_1e4 <= fc / fs < lit_half)%R -> cos (PI * f / fs) <> 0%R ->
    let A := eq_A gain in let Q := Rmax q lit_minq in
    let '((a1, a2, a3), (m0, m1, m2)) :=
      eq_coeffs PI lit_1e4 lit_half lit_minq tan (Rpower 10) kind fc q gain (1 / fs)%R in
    let g := eq_g kind (prewarp fc fs) A in let k := eq_k kind A Q in
    let z := cis (omega f fs) in
    let H := H_eq_proto kind A Q (Ci * RtoC (tan (PI * f / fs) / tan (PI * fc / fs))) in
    snd (run_frames (estep consts_R (EEq a1 a2 a3 m0 m1 m2))
                    (SSvf (reS (steady g k z X c1)))
                    (map (fun n => reF (cexp X z n)) (seq 0 N))) =
    map (fun n => reF (cscale X (H * Cpow z n))) (seq 0 N).
Proof.
  intros kind fc q gain fs f X N Hfs Hf Hc A Q.
  rewrite eq_coeffs_R by (try assumption; unfold lit_half in *; lra).
  fold A. fold Q. destruct (eq_m kind A Q) as [[m0 m1] m2] eqn:Em. cbv beta iota zeta.
  assert (HA : (0 < A)%R) by apply eq_A_pos.
  assert (HQ : (0 < Q)%R) by (unfold Q, lit_minq; pose proof (Rmax_r q (1 / 100)); lra).
  assert (Hf' : (0 < fc / fs < 1 / 2)%R) by (unfold lit_1e4, lit_half in *; lra).
  destruct (prewarp_corner fc fs Hfs Hf') as (Hg0 & _).
  assert (Hs : (0 < sqrt A)%R) by (apply sqrt_lt_R0; exact HA).
  assert (Hg : (0 < eq_g kind (prewarp fc fs) A)%R).
  { destruct kind; cbn [eq_g]; [exact Hg0|apply Rdiv_lt_0_compat; assumption|apply Rmult_lt_0_compat; assumption]. }
  assert (Hk : (0 < eq_k kind A Q)%R).
  { destruct kind; cbn [eq_k]; apply Rdiv_lt_0_compat; try lra. apply Rmult_lt_0_compat; assumption. }
  assert (Eh : (omega f fs / 2 = PI * f / fs)%R) by (unfold omega; field; lra).
  rewrite eq_sinusoid_R; [|apply den_pos; assumption|apply svfD_on_circle; assumption].
  pose proof (eq_is_cookbook kind (prewarp fc fs) (sqrt A) Q (cis (omega f fs)) Hg0 Hs HQ) as HCB.
  cbv zeta in HCB. rewrite sqrt_sqrt in HCB by lra.
  unfold H_eq_kind in HCB. rewrite Em in HCB.
  rewrite HCB.
  - unfold H_eq. rewrite bilinear_on_circle by (rewrite ?Eh; try assumption; lra). rewrite Eh. reflexivity.
  - apply cis_plus_1_neq_0. rewrite Eh. exact Hc.
  - apply svfD_on_circle; assumption.
Qed.

(** the requested gain, exactly: 10^(dB/20) at the bell centre (for the sample rate in force), at DC for a
    low shelf, at Nyquist for a high shelf; unity at the other ends *)
Theorem eq_landmarks : forall fc q gain fs,
    (0 < fs)%R -> (lit_1e4 <= fc / fs < lit_half)%R ->
    let A := eq_A gain in let Q := Rmax q lit_minq in let g0 := prewarp fc fs in
    (H_eq_kind Bell g0 A Q (cis (omega fc fs)) = RtoC (db_to_gain gain) /\
     H_eq_kind Bell g0 A Q c1 = c1 /\ H_eq_kind Bell g0 A Q (- c1) = c1) /\
    (H_eq_kind LowShelf g0 A Q c1 = RtoC (db_to_gain gain) /\ H_eq_kind LowShelf g0 A Q (- c1) = c1) /\
    (H_eq_kind HighShelf g0 A Q (- c1) = RtoC (db_to_gain gain) /\ H_eq_kind HighShelf g0 A Q c1 = c1).
Proof.
  intros fc q gain fs Hfs Hf A Q g0.
  assert (HA : (0 < A)%R) by apply eq_A_pos.
  assert (HQ : (0 < Q)%R) by (unfold Q, lit_minq; pose proof (Rmax_r q (1 / 100)); lra).
  assert (Hf' : (0 < fc / fs < 1 / 2)%R) by (unfold lit_1e4, lit_half in *; lra).
  destruct (prewarp_corner fc fs Hfs Hf') as (Hg0 & _). fold g0 in Hg0.
  rewrite <- eq_A_sq. fold A.
  repeat split.
  - apply eq_bell_at_centre; assumption.
  - apply (eq_at_dc Bell); assumption.
  - apply (eq_at_nyquist Bell).
  - apply (eq_at_dc LowShelf); assumption.
  - apply (eq_at_nyquist LowShelf).
  - apply (eq_at_nyquist HighShelf).
  - apply (eq_at_dc HighShelf); assumption.
Qed.

(** the hypotheses of the response theorems are satisfiable: 1 kHz at 48 kHz probed at 100 Hz *)
Example response_hypotheses_satisfiable :
  (0 < 48000)%R /\ (lit_1e4 <= 1000 / 48000 < lit_half)%R /\ cos (PI * 100 / 48000) <> 0%R /\
  (1 + prewarp 1000 48000 * (prewarp 1000 48000 + filter_k (1 / 2)) <> 0)%R /\
  svfD (prewarp 1000 48000) (filter_k (1 / 2)) (cis (omega 100 48000)) <> RtoC 0.
Proof.
  assert (Hf : (0 < 1000 / 48000 < 1 / 2)%R) by lra.
  destruct (prewarp_corner 1000 48000 ltac:(lra) Hf) as (Hg & _).
  pose proof (filter_k_range (1 / 2)) as Hk.
  split; [lra|]. split; [unfold lit_1e4, lit_half; lra|]. split; [|split].
  - pose proof PI_RGT_0. assert (0 < cos (PI * 100 / 48000))%R by (apply cos_gt_0; lra). lra.
  - apply den_pos; lra.
  - apply svfD_on_circle; lra.
Qed.

(** * outside the guard: a requested frequency below fs/10000 is clamped — the corner then sits at
    fs/10000 hertz, not at the requested frequency (witness: 10 Hz at 192 kHz is realised at 19.2 Hz) *)
Local Open Scope R_scope.
Lemma filter_coeffs_clamped_low : forall fc res fs,
    0 < fs -> fc / fs < lit_1e4 ->
    filter_coeffs PI lit_1e4 lit_half lit_1p9 tan fc res (1 / fs) =
    (svf_a1 (prewarp (lit_1e4 * fs) fs) (filter_k res), svf_a2 (prewarp (lit_1e4 * fs) fs) (filter_k res),
     svf_a3 (prewarp (lit_1e4 * fs) fs) (filter_k res), filter_k res).
Proof.
  intros fc res fs Hfs Hf. unfold filter_coeffs. change (oZ 0 : R) with 0. change (oZ 1 : R) with 1. change (oZ 2 : R) with 2.
  cbn [odiv omul oadd osub Ops_R]. rewrite one_over_inv by lra.
  rewrite !oclamp_R by (unfold lit_1e4, lit_half; lra).
  assert (E : clampR (fc / fs) lit_1e4 lit_half = lit_1e4).
  { unfold clampR. rewrite Rmin_right by (unfold lit_1e4, lit_half in *; lra). apply Rmax_left. lra. }
  rewrite E. unfold prewarp. replace (PI * (lit_1e4 * fs) / fs) with (PI * lit_1e4) by (field; lra).
  reflexivity.
Qed.
Theorem filter_low_cutoff_clamped_refuted :
  exists fc fs res : R,
    0 < fs /\ 0 < fc /\ fc / fs < lit_1e4 /\
    filter_coeffs PI lit_1e4 lit_half lit_1p9 tan fc res (1 / fs) =
    filter_coeffs PI lit_1e4 lit_half lit_1p9 tan (lit_1e4 * fs) res (1 / fs) /\
    lit_1e4 * fs = 96 / 5 /\ fc = 10 /\ prewarp fc fs < prewarp (lit_1e4 * fs) fs.
Proof.
  exists 10, 192000, 0.
  assert (H1 : 10 / 192000 < lit_1e4) by (unfold lit_1e4; lra).
  split; [lra|]. split; [lra|]. split; [exact H1|]. split; [|split; [unfold lit_1e4; lra|split; [reflexivity|]]].
  - rewrite filter_coeffs_clamped_low by (try exact H1; lra).
    rewrite filter_coeffs_R by (unfold lit_1e4, lit_half; lra). reflexivity.
  - unfold prewarp. pose proof PI_RGT_0. pose proof PI_4 as P4.
    apply tan_increasing; unfold lit_1e4; try nra.
Qed.

Theorem eq_low_frequency_clamped_refuted :
  exists (kind : eqkind) (fc q gain fs : R),
    0 < fs /\ 0 < fc /\ fc / fs < lit_1e4 /\
    eq_coeffs PI lit_1e4 lit_half lit_minq tan (Rpower 10) kind fc q gain (1 / fs) =
    eq_coeffs PI lit_1e4 lit_half lit_minq tan (Rpower 10) kind (lit_1e4 * fs) q gain (1 / fs) /\
    lit_1e4 * fs = 96 / 5 /\ fc = 12.
Proof.
  exists Bell, 12, 2, 12, 192000.
  split; [lra|]. split; [lra|]. split; [unfold lit_1e4; lra|]. split; [|split; [unfold lit_1e4; lra|reflexivity]].
  unfold eq_coeffs. change (oZ 0 : R) with 0. change (oZ 1 : R) with 1. change (oZ 40 : R) with 40.
  cbn [odiv omul oadd osub omax osqrt Ops_R].
  rewrite !oclamp_R by (unfold lit_1e4, lit_half; lra).
  assert (E1 : clampR (12 * (1 / 192000)) lit_1e4 lit_half = lit_1e4).
  { unfold clampR. rewrite Rmin_right by (unfold lit_1e4, lit_half; lra). apply Rmax_left. unfold lit_1e4; lra. }
  assert (E2 : clampR (lit_1e4 * 192000 * (1 / 192000)) lit_1e4 lit_half = lit_1e4).
  { replace (lit_1e4 * 192000 * (1 / 192000)) with lit_1e4 by (unfold lit_1e4; field).
    apply clampR_id. unfold lit_1e4, lit_half. lra. }
  rewrite E1, E2. reflexivity.
Qed.
