(** C14 — the Freeverb network (Jezar at Dreampoint, public domain; J. O. Smith, "Freeverb", Physical
    Audio Signal Processing) written as the reference describes it, independently of kira's data
    layout: every delay line is the HISTORY of what was written into it (newest first); reading a
    line of length N returns what was written N steps ago (silence before that), i.e. z^-N.
      lowpass-feedback comb  LBCF_N^{f,d}:  out[n] = w[n-N],  store[n] = (1-d) out[n] + d store[n-1],
                                            w[n] = x[n] + f store[n]
      all-pass (feedback 1/2) AP_N:         bo[n] = v[n-N],  y[n] = -x[n] + bo[n],  v[n] = x[n] + bo[n]/2
      network: mono input (L+R) * 0.015 into 8 parallel combs per channel (tunings 1116 1188 1277 1356
      1422 1491 1557 1617, right channel + 23 = stereo spread), summed, then 4 all-passes in series
      (556 441 341 225, right + 23); output wet1 = width/2 + 1/2 of the own channel plus
      wet2 = (1 - width)/2 of the other one; all lengths scaled by rate/44100 (kira's addition, at
      least one sample).
    Written once over the abstract sample operations so that it runs in binary32 (Run.v) and is
    compared with the model for ANY operations (ProofsFreeverb.v). *)
From Coq Require Import ZArith List Bool.
From KV Require Import C13.ModelOps.
Import ListNotations.
Open Scope ops_scope.

Section Spec.
  Context {F : Type} {OPS : Ops F}.
  Variable K : consts F.

  (** a delay line: what was written, newest first; z^-N *)
  Definition line := list F.
  Definition line_read (N : nat) (h : line) : F := nth (N - 1) h (oZ 0).
  Definition line_write (v : F) (h : line) : line := v :: h.

  (** lowpass-feedback comb: state = (line, filter store) *)
  Definition lbcf_step (N : nat) (fb damp : F) (s : line * F) (x : F) : (line * F) * F :=
    let out := line_read N (fst s) in
    let store := out *! (oZ 1 -! damp) +! snd s *! damp in
    ((line_write (x +! store *! fb) (fst s), store), out).

  (** Schroeder all-pass section as Freeverb approximates it *)
  Definition ap_step (N : nat) (h : line) (x : F) : line * F :=
    let bo := line_read N h in
    (line_write (x +! bo *! c_half K) h, oneg x +! bo).

  (** the network for one stereo frame; combs and all-passes carry their lengths *)
  Definition fv_state : Type := (list ((line * F) * (line * F)) * list (line * line))%type.
  Fixpoint fv_combs (sz : list (nat * nat)) (fb damp : F) (cs : list ((line * F) * (line * F))) (input : F) (acc : frame F)
    : list ((line * F) * (line * F)) * frame F :=
    match sz, cs with
    | (nl, nr) :: sz', (cl, cr) :: cs' =>
        let (cl', ol) := lbcf_step nl fb damp cl input in
        let (cr', or_) := lbcf_step nr fb damp cr input in
        let (cs'', acc') := fv_combs sz' fb damp cs' input (fst acc +! ol, snd acc +! or_) in
        ((cl', cr') :: cs'', acc')
    | _, _ => (cs, acc)
    end.
  Fixpoint fv_allpasses (sz : list (nat * nat)) (aps : list (line * line)) (v : frame F) : list (line * line) * frame F :=
    match sz, aps with
    | (nl, nr) :: sz', (al, ar) :: aps' =>
        let (al', ol) := ap_step nl al (fst v) in
        let (ar', or_) := ap_step nr ar (snd v) in
        let (aps'', v') := fv_allpasses sz' aps' (ol, or_) in
        ((al', ar') :: aps'', v')
    | _, _ => (aps, v)
    end.
  Definition fv_step (csz asz : list (nat * nat)) (fb damp width mix : F) (s : fv_state) (x : frame F) : fv_state * frame F :=
    let input := (fst x +! snd x) *! c_gain K in
    let (cs', o1) := fv_combs csz fb damp (fst s) input fr_zero in
    let (aps', o2) := fv_allpasses asz (snd s) o1 in
    let wet1 := width /! oZ 2 +! c_half K in
    let wet2 := (oZ 1 -! width) /! oZ 2 in
    let out := (fst o2 *! wet1 +! snd o2 *! wet2, snd o2 *! wet1 +! fst o2 *! wet2) in
    ((cs', aps'), blend out x mix).
  Definition fv_init (csz asz : list (nat * nat)) : fv_state :=
    (map (fun _ => (([], oZ 0), ([], oZ 0))) csz, map (fun _ => ([], [])) asz).

  Definition freeverb (csz asz : list (nat * nat)) (fb damp width mix : F) (xs : list (frame F)) : list (frame F) :=
    snd (run_frames (fv_step csz asz fb damp width mix) (fv_init csz asz) xs).
End Spec.

(** the reference tunings (samples at 44100 Hz) and kira's scaling to the device rate *)
Definition fv_comb_tunings : list Z := [1116; 1188; 1277; 1356; 1422; 1491; 1557; 1617]%Z.
Definition fv_allpass_tunings : list Z := [556; 441; 341; 225]%Z.
Definition fv_stereo_spread : Z := 23%Z.
(** floor(tuning * rate / 44100), at least one sample *)
Definition fv_scale (sr n : Z) : nat := Z.to_nat (Z.max 1 (n * sr / 44100)).
Definition fv_sizes (sr : Z) (l : list Z) : list (nat * nat) :=
  map (fun n => (fv_scale sr n, fv_scale sr (n + fv_stereo_spread))) l.
