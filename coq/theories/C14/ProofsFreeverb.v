(** C14 — the reverb model (arrays with a running index, reverb.rs / comb.rs / all_pass.rs) is
    extensionally equal to the Freeverb network of SpecFreeverb.v (delay lines as histories), for
    ANY sample operations (hence bit for bit in binary32), every input, every run length. *)
From Coq Require Import ZArith List Bool Arith Lia.
From KV Require Import Base.Outcome C13.ModelOps C13.ModelEffects C13.ModelDelay C13.ModelTree C14.SpecFreeverb.
Import ListNotations.
Open Scope ops_scope.

Lemma nth_upd_same {A} : forall (l : list A) i v d, i < length l -> nth i (upd i v l) d = v.
Proof. induction l as [|a l IH]; intros [|i] v d H; cbn in *; try lia; auto. apply IH. lia. Qed.
Lemma nth_upd_other {A} : forall (l : list A) i j v d, i <> j -> nth j (upd i v l) d = nth j l d.
Proof. induction l as [|a l IH]; intros [|i] [|j] v d H; cbn; auto; try lia. Qed.
Lemma upd_len {A} : forall (l : list A) i v, length (upd i v l) = length l.
Proof. induction l as [|a l IH]; intros [|i] v; cbn; auto. Qed.
Lemma nth_repeat {A} (z : A) : forall m n, nth n (repeat z m) z = z.
Proof. induction m as [|m IH]; intros [|n]; cbn; auto. Qed.

Section Circular.
  Context {F : Type} {OPS : Ops F}.

  (** a circular buffer of length N at position idx holds the history h: what will be read at the
      future step m (before being overwritten) is what was written N steps before m *)
  Definition cb_rel (N : nat) (buf : list F) (idx : nat) (h : line) : Prop :=
    length buf = N /\
    exists n, idx = n mod N /\
              forall m, n <= m < n + N -> nth (m mod N) buf (oZ 0) = nth (N - 1 - (m - n)) h (oZ 0).

  Lemma cb_init : forall N, cb_rel N (repeat (oZ 0) N) 0 [].
  Proof.
    intros N. split; [apply repeat_length|]. exists 0. split.
    - destruct N; [reflexivity|symmetry; apply Nat.mod_0_l; lia].
    - intros m _. rewrite nth_repeat. destruct (N - 1 - (m - 0)); reflexivity.
  Qed.

  Lemma cb_read : forall N buf idx h, 1 <= N -> cb_rel N buf idx h -> nth idx buf (oZ 0) = line_read N h.
  Proof.
    intros N buf idx h HN (Hl & n & -> & H). unfold line_read. rewrite (H n) by lia.
    f_equal. lia.
  Qed.

  Lemma mod_differs : forall N n m, 1 <= N -> n < m < n + N -> m mod N <> n mod N.
  Proof.
    intros N n m HN H E.
    pose proof (Nat.div_mod m N ltac:(lia)) as Em. pose proof (Nat.div_mod n N ltac:(lia)) as En.
    pose proof (Nat.mod_upper_bound m N ltac:(lia)). pose proof (Nat.mod_upper_bound n N ltac:(lia)).
    assert (Hd : N * (m / N) - N * (n / N) = m - n) by lia.
    assert (m / N = n / N \/ m / N >= n / N + 1 \/ m / N + 1 <= n / N) as [C|[C|C]] by lia; nia.
  Qed.

  Lemma cb_write : forall N buf idx h v, 1 <= N -> cb_rel N buf idx h ->
      cb_rel N (upd idx v buf) (S idx mod length buf) (line_write v h).
  Proof.
    intros N buf idx h v HN (Hl & n & -> & H). rewrite Hl. split; [rewrite upd_len; exact Hl|].
    exists (S n). split.
    - replace (S (n mod N)) with (n mod N + 1) by lia. rewrite Nat.add_mod_idemp_l by lia. f_equal. lia.
    - intros m Hm. unfold line_write.
      destruct (Nat.eq_dec m (n + N)) as [->|NE].
      + replace ((n + N) mod N) with (n mod N).
        2:{ replace (n + N) with (n + 1 * N) by lia. rewrite Nat.mod_add by lia. reflexivity. }
        rewrite nth_upd_same by (rewrite Hl; apply Nat.mod_upper_bound; lia).
        replace (N - 1 - (n + N - S n)) with 0 by lia. reflexivity.
      + rewrite nth_upd_other by (intros E; apply (mod_differs N n m HN); [lia|congruence]).
        rewrite H by lia.
        replace (N - 1 - (m - S n)) with (S (N - 1 - (m - n))) by lia. reflexivity.
  Qed.
End Circular.

Section Network.
  Context {F : Type} {OPS : Ops F}.
  Variable K : consts F.

  Definition comb_rel (N : nat) (c : @comb F) (s : line * F) : Prop :=
    fst (fst c) = snd s /\ cb_rel N (snd (fst c)) (snd c) (fst s).
  Definition ap_rel (N : nat) (a : @allpass F) (h : line) : Prop := cb_rel N (fst a) (snd a) h.

  Lemma comb_sim : forall N fb damp c s x, 1 <= N -> comb_rel N c s ->
      snd (comb_step fb damp c x) = snd (lbcf_step N fb damp s x) /\
      comb_rel N (fst (comb_step fb damp c x)) (fst (lbcf_step N fb damp s x)).
  Proof.
    intros N fb damp [[store buf] idx] [h st] x HN [E R]. cbn [fst snd] in *. subst st.
    unfold comb_step, lbcf_step. cbn [fst snd]. rewrite (cb_read N buf idx h HN R).
    split; [reflexivity|]. split; cbn [fst snd]; [reflexivity|]. apply cb_write; assumption.
  Qed.
  Lemma ap_sim : forall N a h x, 1 <= N -> ap_rel N a h ->
      snd (allpass_step K a x) = snd (ap_step K N h x) /\
      ap_rel N (fst (allpass_step K a x)) (fst (ap_step K N h x)).
  Proof.
    intros N [buf idx] h x HN R. unfold ap_rel in *. cbn [fst snd] in *.
    unfold allpass_step, ap_step. cbn [fst snd]. rewrite (cb_read N buf idx h HN R).
    split; [reflexivity|]. apply cb_write; assumption.
  Qed.

  Inductive combs_rel : list (nat * nat) -> list (@comb F * @comb F) -> list ((line * F) * (line * F)) -> Prop :=
  | cr_nil : combs_rel [] [] []
  | cr_cons : forall nl nr sz cl cr cs sl sr ss,
      1 <= nl -> 1 <= nr -> comb_rel nl cl sl -> comb_rel nr cr sr -> combs_rel sz cs ss ->
      combs_rel ((nl, nr) :: sz) ((cl, cr) :: cs) ((sl, sr) :: ss).
  Inductive aps_rel : list (nat * nat) -> list (@allpass F * @allpass F) -> list (line * line) -> Prop :=
  | ar_nil : aps_rel [] [] []
  | ar_cons : forall nl nr sz al ar aps hl hr hs,
      1 <= nl -> 1 <= nr -> ap_rel nl al hl -> ap_rel nr ar hr -> aps_rel sz aps hs ->
      aps_rel ((nl, nr) :: sz) ((al, ar) :: aps) ((hl, hr) :: hs).

  Lemma combs_sim : forall sz cs ss fb damp x, combs_rel sz cs ss -> forall acc,
      snd (combs_step fb damp cs x acc) = snd (fv_combs sz fb damp ss x acc) /\
      combs_rel sz (fst (combs_step fb damp cs x acc)) (fst (fv_combs sz fb damp ss x acc)).
  Proof.
    intros sz cs ss fb damp x H. induction H as [|nl nr sz cl cr cs sl sr ss Hl Hr Rl Rr Hrest IH]; intros acc.
    - cbn. split; [reflexivity|constructor].
    - cbn [combs_step fv_combs].
      destruct (comb_sim nl fb damp cl sl x Hl Rl) as [O1 R1].
      destruct (comb_sim nr fb damp cr sr x Hr Rr) as [O2 R2].
      destruct (comb_step fb damp cl x) as [cl' ol]. destruct (lbcf_step nl fb damp sl x) as [sl' ol'].
      destruct (comb_step fb damp cr x) as [cr' or_]. destruct (lbcf_step nr fb damp sr x) as [sr' or'].
      cbn [fst snd] in *. subst ol' or'.
      destruct (IH (fst acc +! ol, snd acc +! or_)) as [O3 R3].
      destruct (combs_step fb damp cs x (fst acc +! ol, snd acc +! or_)) as [cs' a1].
      destruct (fv_combs sz fb damp ss x (fst acc +! ol, snd acc +! or_)) as [ss' a2].
      cbn [fst snd] in *. split; [exact O3|]. constructor; assumption.
  Qed.
  Lemma aps_sim : forall sz aps hs, aps_rel sz aps hs -> forall v,
      snd (allpasses_step K aps v) = snd (fv_allpasses K sz hs v) /\
      aps_rel sz (fst (allpasses_step K aps v)) (fst (fv_allpasses K sz hs v)).
  Proof.
    intros sz aps hs H. induction H as [|nl nr sz al ar aps hl hr hs Hl Hr Rl Rr Hrest IH]; intros v.
    - cbn. split; [reflexivity|constructor].
    - cbn [allpasses_step fv_allpasses].
      destruct (ap_sim nl al hl (fst v) Hl Rl) as [O1 R1].
      destruct (ap_sim nr ar hr (snd v) Hr Rr) as [O2 R2].
      destruct (allpass_step K al (fst v)) as [al' ol]. destruct (ap_step K nl hl (fst v)) as [hl' ol'].
      destruct (allpass_step K ar (snd v)) as [ar' or_]. destruct (ap_step K nr hr (snd v)) as [hr' or'].
      cbn [fst snd] in *. subst ol' or'.
      destruct (IH (ol, or_)) as [O3 R3].
      destruct (allpasses_step K aps (ol, or_)) as [aps' v1]. destruct (fv_allpasses K sz hs (ol, or_)) as [hs' v2].
      cbn [fst snd] in *. split; [exact O3|]. constructor; assumption.
  Qed.

  Definition rev_rel (csz asz : list (nat * nat)) (r : @reverb_state F) (s : @fv_state F) : Prop :=
    combs_rel csz (fst r) (fst s) /\ aps_rel asz (snd r) (snd s).

  Lemma reverb_sim : forall csz asz fb damp width mix r s x, rev_rel csz asz r s ->
      snd (reverb_step K fb damp width mix r x) = snd (fv_step K csz asz fb damp width mix s x) /\
      rev_rel csz asz (fst (reverb_step K fb damp width mix r x)) (fst (fv_step K csz asz fb damp width mix s x)).
  Proof.
    intros csz asz fb damp width mix [cs aps] [ss hs] x [Rc Ra]. cbn [fst snd] in *.
    unfold reverb_step, fv_step. cbn [fst snd].
    destruct (combs_sim csz cs ss fb damp ((fst x +! snd x) *! c_gain K) Rc fr_zero) as [O1 R1].
    destruct (combs_step fb damp cs ((fst x +! snd x) *! c_gain K) fr_zero) as [cs' o1].
    destruct (fv_combs csz fb damp ss ((fst x +! snd x) *! c_gain K) fr_zero) as [ss' o1'].
    cbn [fst snd] in *. subst o1'.
    destruct (aps_sim asz aps hs Ra o1) as [O2 R2].
    destruct (allpasses_step K aps o1) as [aps' o2]. destruct (fv_allpasses K asz hs o1) as [hs' o2'].
    cbn [fst snd] in *. subst o2'. split; [reflexivity|split; assumption].
  Qed.

  Definition sizes_ok (sz : list (nat * nat)) : Prop := Forall (fun p => 1 <= fst p /\ 1 <= snd p) sz.

  Lemma init_rel : forall csz asz, sizes_ok csz -> sizes_ok asz ->
      rev_rel csz asz (reverb_new csz asz) (fv_init csz asz).
  Proof.
    intros csz asz Hc Ha. split; cbn [fst snd reverb_new fv_init].
    - induction Hc as [|[nl nr] sz [H1 H2] _ IH]; cbn [map]; constructor; auto;
        (split; [reflexivity|apply cb_init]).
    - induction Ha as [|[nl nr] sz [H1 H2] _ IH]; cbn [map]; constructor; auto; apply cb_init.
  Qed.

  Lemma run_sim {S1 S2 A B : Type} (step1 : S1 -> A -> S1 * B) (step2 : S2 -> A -> S2 * B) (R : S1 -> S2 -> Prop) :
    (forall s t x, R s t -> snd (step1 s x) = snd (step2 t x) /\ R (fst (step1 s x)) (fst (step2 t x))) ->
    forall xs s t, R s t -> snd (run_frames step1 s xs) = snd (run_frames step2 t xs).
  Proof.
    intros H. induction xs as [|x xs IH]; intros s t Hr; [reflexivity|].
    cbn [run_frames]. destruct (H s t x Hr) as [H1 H2].
    destruct (step1 s x) as [s1 y1]. destruct (step2 t x) as [t1 y2]. cbn [fst snd] in *. subst y2.
    specialize (IH s1 t1 H2).
    destruct (run_frames step1 s1 xs) as [s2 ys1]. destruct (run_frames step2 t1 xs) as [t2 ys2].
    cbn [snd] in *. congruence.
  Qed.

  Lemma run_estep_reverb : forall csz asz fb damp width mix xs r,
      run_frames (estep K (EReverb csz asz fb damp width mix)) (SReverb r) xs =
      (SReverb (fst (run_frames (reverb_step K fb damp width mix) r xs)),
       snd (run_frames (reverb_step K fb damp width mix) r xs)).
  Proof.
    intros csz asz fb damp width mix. induction xs as [|x xs IH]; intros r; [reflexivity|].
    cbn [run_frames estep]. destruct (reverb_step K fb damp width mix r x) as [r1 y].
    rewrite IH. destruct (run_frames (reverb_step K fb damp width mix) r1 xs) as [r2 ys]. reflexivity.
  Qed.

  Theorem reverb_is_freeverb : forall csz asz fb damp width mix xs,
      sizes_ok csz -> sizes_ok asz ->
      snd (run_frames (estep K (EReverb csz asz fb damp width mix)) (init (EReverb csz asz fb damp width mix)) xs) =
      freeverb K csz asz fb damp width mix xs.
  Proof.
    intros csz asz fb damp width mix xs Hc Ha. cbn [init]. rewrite run_estep_reverb. unfold freeverb.
    apply (run_sim _ _ (rev_rel csz asz)).
    - intros s t x Hr. apply reverb_sim. exact Hr.
    - apply init_rel; assumption.
  Qed.
End Network.

(** * the delay lengths: reverb.rs scales the reference tunings in binary64
    ((n as f64 * (rate as f64 / 44100.0)) as usize); at every standard device rate this is the exact
    floor(n * rate / 44100) of SpecFreeverb.v — at 44100 Hz the reference tunings themselves *)
From KV Require C13.Run.
Definition standard_rates : list Z := [8000; 11025; 16000; 22050; 32000; 44100; 48000; 88200; 96000; 176400; 192000]%Z.
Fixpoint sizes_eqb (a b : list (nat * nat)) : bool :=
  match a, b with
  | [], [] => true
  | (x1, y1) :: a', (x2, y2) :: b' => Nat.eqb x1 x2 && Nat.eqb y1 y2 && sizes_eqb a' b'
  | _, _ => false
  end.
Lemma sizes_eqb_eq : forall a b, sizes_eqb a b = true -> a = b.
Proof.
  induction a as [|[x1 y1] a IH]; intros [|[x2 y2] b] H; cbn in H; try discriminate; [reflexivity|].
  apply andb_prop in H. destruct H as [H H3]. apply andb_prop in H. destruct H as [H1 H2].
  apply Nat.eqb_eq in H1, H2. subst. f_equal. apply IH. exact H3.
Qed.
Lemma tunings_scaled_exactly :
  forall sr, In sr standard_rates ->
    C13.Run.sizes sr C13.Run.comb_tunings = fv_sizes sr fv_comb_tunings /\
    C13.Run.sizes sr C13.Run.allpass_tunings = fv_sizes sr fv_allpass_tunings.
Proof.
  intros sr H. unfold standard_rates in H. cbn [In] in H.
  repeat (destruct H as [<-|H]; [split; apply sizes_eqb_eq; vm_compute; reflexivity|]). contradiction.
Qed.
Example tunings_at_44100 :
  fv_sizes 44100 fv_comb_tunings =
  [(1116, 1139); (1188, 1211); (1277, 1300); (1356, 1379); (1422, 1445); (1491, 1514); (1557, 1580); (1617, 1640)] /\
  fv_sizes 44100 fv_allpass_tunings = [(556, 579); (441, 464); (341, 364); (225, 248)].
Proof. split; vm_compute; reflexivity. Qed.
Lemma fv_sizes_ok : forall sr l, sizes_ok (fv_sizes sr l).
Proof.
  intros sr l. unfold sizes_ok, fv_sizes. apply Forall_forall. intros p Hp. apply in_map_iff in Hp.
  destruct Hp as [n [<- _]]. cbn [fst snd]. unfold fv_scale. split; lia.
Qed.
