(** C14 — the reverb decays for feedback below 1: once the input has stopped, every lowpass-feedback
    comb of the Freeverb network loses at least the factor rho = f + d^N (1 - f) < 1 of its amplitude
    every two trips round its delay line (f = feedback in [0,1), d = damping in [0,1), N = line
    length): geometric decay of the comb outputs, for every state the comb may be in. *)
From Coq Require Import ZArith List Bool Arith Lia Reals Lra.
From KV Require Import Base.Outcome C13.ModelOps C13.ModelEffects C14.Signals C14.SpecFreeverb C14.ProofsFreeverb.
Import ListNotations.
Open Scope ops_scope.
Local Open Scope R_scope.

Section Comb.
  Variable N : nat.
  Hypothesis HN : (1 <= N)%nat.
  Variables f d : R.
  Hypothesis Hf : 0 <= f < 1.
  Hypothesis Hd : 0 <= d < 1.

  Notation step := (lbcf_step (F := R) N f d).

  (** bounds on a comb state: the N newest entries of the line (the only ones ever read again) and the store *)
  Definition bounded (B S : R) (s : line * R) : Prop :=
    (forall i, (i < N)%nat -> Rabs (nth i (fst s) 0) <= B) /\ Rabs (snd s) <= S.

  (** inside a pass: j entries already rewritten *)
  Definition within (B W : R) (j : nat) (s : line * R) : Prop :=
    (forall i, (i < j)%nat -> Rabs (nth i (fst s) 0) <= f * W) /\
    (forall i, (j <= i < N + j)%nat -> Rabs (nth i (fst s) 0) <= B) /\
    Rabs (snd s) <= B + d ^ j * (W - B).

  Lemma within_step : forall B W j s, 0 <= B <= W -> (j < N)%nat -> within B W j s ->
      within B W (S j) (fst (step s 0)) /\ Rabs (snd (step s 0)) <= B.
  Proof.
    intros B W j [h st] HB Hj (Hnew & Hold & Hst). cbn [fst snd] in *.
    unfold lbcf_step, line_read, line_write. cbn [fst snd]. cbn [oadd omul osub oZ Ops_R].
    set (out := nth (N - 1) h 0).
    assert (Hout : Rabs out <= B) by (apply Hold; lia).
    assert (Hdj : 0 <= d ^ j <= 1).
    { split; [apply pow_le; lra|]. rewrite <- (pow1 j). apply pow_incr. lra. }
    set (st' := out * (1 - d) + st * d).
    assert (Hst' : Rabs st' <= B + d ^ S j * (W - B)).
    { unfold st'. eapply Rle_trans; [apply Rabs_triang|]. rewrite !Rabs_mult.
      rewrite (Rabs_right (1 - d)) by lra. rewrite (Rabs_right d) by lra. cbn [pow].
      assert (Rabs st * d <= (B + d ^ j * (W - B)) * d) by (apply Rmult_le_compat_r; lra).
      assert (Rabs out * (1 - d) <= B * (1 - d)) by (apply Rmult_le_compat_r; lra).
      lra. }
    assert (HstW : Rabs st' <= W).
    { assert (Hd1 : 0 <= d ^ S j <= 1).
      { split; [apply pow_le; lra|]. rewrite <- (pow1 (S j)). apply pow_incr. lra. }
      assert (d ^ S j * (W - B) <= 1 * (W - B)) by (apply Rmult_le_compat_r; lra). lra. }
    split; [|exact Hout].
    split; [|split].
    - intros [|i] Hi; cbn [fst nth].
      + match goal with |- Rabs ?t <= _ => replace t with (st' * f) by (unfold st', out; ring) end.
        rewrite Rabs_mult, (Rabs_right f) by lra.
        rewrite (Rmult_comm f). apply Rmult_le_compat_r; lra.
      + apply Hnew. lia.
    - intros [|i] Hi; [lia|]. cbn [fst nth]. apply Hold. lia.
    - exact Hst'.
  Qed.

  Fixpoint iter_zero (n : nat) (s : line * R) : (line * R) * list R :=
    match n with
    | O => (s, [])
    | S n' => let (s1, o) := step s 0 in let (s2, os) := iter_zero n' s1 in (s2, o :: os)
    end.
  Lemma iter_zero_is_run : forall n s, iter_zero n s = run_frames step s (repeat 0 n).
  Proof.
    induction n as [|n IH]; intros s; [reflexivity|]. cbn [iter_zero repeat run_frames].
    destruct (step s 0) as [s1 o]. rewrite IH. reflexivity.
  Qed.

  Lemma within_run : forall B W k j s, 0 <= B <= W -> (j + k <= N)%nat -> within B W j s ->
      within B W (j + k) (fst (iter_zero k s)) /\ Forall (fun o => Rabs o <= B) (snd (iter_zero k s)).
  Proof.
    intros B W k. induction k as [|k IH]; intros j s HB Hjk Hw.
    - cbn. rewrite Nat.add_0_r. split; [exact Hw|constructor].
    - cbn [iter_zero]. destruct (within_step B W j s HB ltac:(lia) Hw) as [H1 H2].
      destruct (step s 0) as [s1 o]. cbn [fst snd] in *.
      destruct (IH (S j) s1 HB ltac:(lia) H1) as [I1 I2].
      destruct (iter_zero k s1) as [s2 os]. cbn [fst snd] in *.
      split; [replace (j + S k)%nat with (S j + k)%nat by lia; exact I1|constructor; assumption].
  Qed.

  (** one pass (N frames of silence) *)
  Lemma pass : forall B S s, 0 <= B -> 0 <= S -> bounded B S s ->
      let W := Rmax B S in
      bounded (f * W) (B + d ^ N * (W - B)) (fst (iter_zero N s)) /\
      Forall (fun o => Rabs o <= B) (snd (iter_zero N s)).
  Proof.
    intros B S s HB HS [Hh Hst] W.
    assert (HW : B <= W /\ S <= W) by (unfold W; split; [apply Rmax_l|apply Rmax_r]).
    assert (Hw0 : within B W 0 s).
    { split; [intros i Hi; lia|]. split; [intros i Hi; apply Hh; lia|]. cbn [pow]. lra. }
    destruct (within_run B W N 0 s ltac:(lra) ltac:(lia) Hw0) as [(Hnew & _ & Hs) Ho]. cbn [Nat.add] in *.
    split; [|exact Ho]. split; [intros i Hi; apply Hnew; exact Hi|exact Hs].
  Qed.

  Definition rho : R := f + d ^ N * (1 - f).
  Lemma rho_range : 0 <= rho < 1.
  Proof.
    unfold rho. assert (Hp : 0 <= d ^ N < 1).
    { split; [apply pow_le; lra|]. destruct N as [|n]; [lia|]. cbn [pow].
      assert (0 <= d ^ n <= 1) by (split; [apply pow_le; lra|rewrite <- (pow1 n); apply pow_incr; lra]). nra. }
    nra.
  Qed.

  Lemma bounded_weaken : forall B S B' S' s, B <= B' -> S <= S' -> bounded B S s -> bounded B' S' s.
  Proof. intros B S B' S' s HB HS [H1 H2]. split; [intros i Hi; specialize (H1 i Hi); lra|lra]. Qed.

  Lemma iter_zero_app : forall a b s,
      iter_zero (a + b) s =
      (fst (iter_zero b (fst (iter_zero a s))), snd (iter_zero a s) ++ snd (iter_zero b (fst (iter_zero a s)))).
  Proof.
    induction a as [|a IH]; intros b s.
    - cbn. destruct (iter_zero b s); reflexivity.
    - cbn [Nat.add iter_zero]. destruct (step s 0) as [s1 o]. rewrite IH.
      destruct (iter_zero a s1) as [s2 os]. cbn [fst snd]. destruct (iter_zero b s2); reflexivity.
  Qed.

  (** two passes contract by rho *)
  Lemma two_passes : forall W s, 0 <= W -> bounded W W s ->
      bounded (rho * W) (rho * W) (fst (iter_zero (N + N) s)) /\
      Forall (fun o => Rabs o <= W) (snd (iter_zero (N + N) s)).
  Proof.
    intros W s HW Hb. rewrite iter_zero_app.
    destruct (pass W W s HW HW Hb) as [P1 O1]. cbv zeta in P1. rewrite Rmax_left in P1 by lra.
    replace (W + d ^ N * (W - W)) with W in P1 by ring.
    set (s1 := fst (iter_zero N s)) in *.
    assert (HfW : 0 <= f * W) by (apply Rmult_le_pos; lra).
    destruct (pass (f * W) W s1 HfW HW P1) as [P2 O2]. cbv zeta in P2.
    assert (HfW' : f * W <= W) by nra.
    rewrite Rmax_right in P2 by lra.
    cbn [fst snd]. split.
    - eapply bounded_weaken; [| |exact P2].
      + unfold rho. assert (0 <= d ^ N) by (apply pow_le; lra). nra.
      + unfold rho. right. ring.
    - apply Forall_app. split; [exact O1|].
      eapply Forall_impl; [|exact O2]. intros o Ho. cbv beta in Ho. lra.
  Qed.

  (** geometric decay, block by block *)
  Theorem comb_decays : forall m W s, 0 <= W -> bounded W W s ->
      bounded (rho ^ m * W) (rho ^ m * W) (fst (iter_zero (m * (N + N)) s)) /\
      forall n, (n < m * (N + N))%nat ->
                Rabs (nth n (snd (iter_zero (m * (N + N)) s)) 0) <= rho ^ (n / (N + N)) * W.
  Proof.
    pose proof rho_range as Hr.
    induction m as [|m IH]; intros W s HW Hb.
    - cbn [Nat.mul iter_zero fst snd pow]. rewrite Rmult_1_l. split; [exact Hb|intros n Hn; lia].
    - cbn [Nat.mul]. rewrite iter_zero_app. cbn [fst snd].
      destruct (two_passes W s HW Hb) as [P1 O1].
      assert (HrW : 0 <= rho * W) by (apply Rmult_le_pos; lra).
      destruct (IH (rho * W) (fst (iter_zero (N + N) s)) HrW P1) as [P2 O2].
      assert (Hlen : length (snd (iter_zero (N + N) s)) = (N + N)%nat).
      { rewrite iter_zero_is_run. clear. generalize (N + N)%nat as k. intros k. revert s.
        induction k as [|k IHk]; intros s; [reflexivity|]. cbn [repeat run_frames].
        destruct (step s 0) as [s1 o]. specialize (IHk s1). destruct (run_frames step s1 (repeat 0 k)). cbn [snd length] in *. lia. }
      split.
      + cbn [pow]. replace (rho * rho ^ m * W) with (rho ^ m * (rho * W)) by ring. exact P2.
      + intros n Hn. destruct (Nat.lt_ge_cases n (N + N)) as [Hlt|Hge].
        * rewrite app_nth1 by lia. rewrite Nat.div_small by lia. cbn [pow]. rewrite Rmult_1_l.
          rewrite Forall_forall in O1. apply O1. apply nth_In. lia.
        * rewrite app_nth2 by lia. rewrite Hlen.
          specialize (O2 (n - (N + N))%nat ltac:(lia)).
          replace (n / (N + N))%nat with (S ((n - (N + N)) / (N + N))).
          2:{ replace n with ((n - (N + N)) + 1 * (N + N))%nat at 2 by lia. rewrite Nat.div_add by lia. lia. }
          cbn [pow]. replace (rho * rho ^ ((n - (N + N)) / (N + N)) * W) with (rho ^ ((n - (N + N)) / (N + N)) * (rho * W)) by ring.
          exact O2.
  Qed.
End Comb.

(** the same for the model's comb (array + running index), in whatever state it is *)
Theorem model_comb_decays : forall (N : nat) (f d : R) (c : @comb R) (s : line * R) (m : nat) (W : R),
    (1 <= N)%nat -> 0 <= f < 1 -> 0 <= d < 1 ->
    comb_rel N c s -> 0 <= W -> bounded N W W s ->
    forall n, (n < m * (N + N))%nat ->
      Rabs (nth n (snd (run_frames (comb_step f d) c (repeat 0 (m * (N + N))))) 0) <= rho N f d ^ (n / (N + N)) * W.
Proof.
  intros N f d c s m W HN Hf Hd Hrel HW Hb n Hn.
  assert (E : snd (run_frames (comb_step f d) c (repeat 0 (m * (N + N)))) =
              snd (run_frames (lbcf_step N f d) s (repeat 0 (m * (N + N))))).
  { apply (run_sim (comb_step f d) (lbcf_step N f d) (comb_rel N)); [|exact Hrel].
    intros c1 s1 x Hr. apply comb_sim; assumption. }
  rewrite E, <- iter_zero_is_run.
  destruct (comb_decays N HN f d Hf Hd m W s HW Hb) as [_ H]. apply H. exact Hn.
Qed.

(** every state is bounded by some W, and rho^m W falls below every eps *)
Lemma geometric_vanishes : forall r W, 0 <= r < 1 -> 0 <= W ->
    forall eps, 0 < eps -> exists M, forall m, (M <= m)%nat -> r ^ m * W < eps.
Proof.
  intros r W Hr HW eps He. destruct (Req_dec W 0) as [->|NW].
  - exists 0%nat. intros m _. rewrite Rmult_0_r. exact He.
  - destruct (pow_lt_1_zero r ltac:(rewrite Rabs_right; lra) (eps / W) ltac:(apply Rdiv_lt_0_compat; lra)) as [M HM].
    exists M. intros m Hm. specialize (HM m ltac:(lia)). rewrite Rabs_right in HM by (apply Rle_ge, pow_le; lra).
    apply (Rmult_lt_compat_r W) in HM; [|lra]. replace (eps / W * W) with eps in HM by (field; lra). exact HM.
Qed.
Lemma comb_state_bounded : forall (N : nat) (s : line * R), exists W, 0 <= W /\ bounded N W W s.
Proof.
  intros N [h st]. induction N as [|N [W [HW [Hb Hs]]]].
  - exists (Rabs st). split; [apply Rabs_pos|]. split; [intros i Hi; lia|cbn; lra].
  - exists (Rmax W (Rabs (nth N h 0))). split; [eapply Rle_trans; [exact HW|apply Rmax_l]|]. split.
    + intros i Hi. cbn [fst] in *. destruct (Nat.eq_dec i N) as [->|NE]; [apply Rmax_r|].
      eapply Rle_trans; [apply Hb; lia|apply Rmax_l].
    + cbn [snd] in *. eapply Rle_trans; [exact Hs|apply Rmax_l].
Qed.
Example decay_hypotheses_satisfiable :
  (1 <= 1116)%nat /\ 0 <= 9 / 10 < 1 /\ 0 <= 1 / 10 < 1 /\
  comb_rel 1116 (comb_new 1116) ([], 0) /\ bounded 1116 0 0 ([], 0) /\ 0 <= rho 1116 (9 / 10) (1 / 10) < 1.
Proof.
  split; [lia|]. split; [lra|]. split; [lra|]. split; [|split].
  - split; [reflexivity|]. apply cb_init.
  - split; [intros i Hi; cbn [fst]; destruct i; cbn; rewrite Rabs_R0; lra|cbn; rewrite Rabs_R0; lra].
  - apply rho_range; [lia|lra|lra].
Qed.
