(** C14 — the filter and the EQ filter through a HISTORY of device rates.  The model recomputes its
    coefficients from [dt] in every frame and [on_change_sample_rate] leaves the two integrator states
    alone, so whatever sequence of (rate, frames) an instance has been through, what it does next is the
    step of the filter designed for the rate NOW in force, started from the state the history left.
    Because that step is linear, the response to a sinusoid after a rate change is
        (response of a filter that always ran at the new rate) + (zero-input response to the state offset),
    and the second term dies away geometrically: the trapezoidal integrators dissipate the energy
    ic1^2 + ic2^2 + eps ic1 ic2 by the factor rho(g, k) < 1 in every frame (g, k > 0). *)
From Coq Require Import ZArith List Bool Arith Lia Reals Lra Psatz.
From Coquelicot Require Import Complex.
From KV Require Import Base.Outcome C13.ModelOps C13.ModelEffects C13.ModelDelay C13.ModelTree C13.ProofsSeq
     C14.SpecLaws C14.ProofsLaws C14.Signals C14.OpsC C14.SpecSVF C14.ProofsSVF C14.ProofsResponse
     C14.ProofsEQ C14.ProofsFreqResp.
Import ListNotations.
Open Scope ops_scope.
Local Open Scope R_scope.

(** * 1. states and frames as vectors *)
Definition svfst : Type := (frame R * frame R)%type.
Definition fzero : frame R := (0, 0).
Definition st_add (s t : svfst) : svfst := (fr_add (fst s) (fst t), fr_add (snd s) (snd t)).
Definition st_sub (s t : svfst) : svfst := (fr_sub (fst s) (fst t), fr_sub (snd s) (snd t)).
Definition fr_norm2 (x : frame R) : R := fst x * fst x + snd x * snd x.
Definition st_energy (s : svfst) : R := fr_norm2 (fst s) + fr_norm2 (snd s).

Ltac pair_eq := repeat match goal with |- (_, _) = (_, _) => apply f_equal2 end.

Lemma st_add_sub : forall s t : svfst, st_add t (st_sub s t) = s.
Proof.
  intros [[a b] [c d]] [[a' b'] [c' d']]. unfold st_add, st_sub, fr_add, fr_sub. cbn [fst snd oadd osub Ops_R].
  pair_eq; ring.
Qed.
Lemma map2_add_zeros : forall xs : list (frame R), map2 fr_add xs (repeat fzero (length xs)) = xs.
Proof.
  induction xs as [|[a b] xs IH]; [reflexivity|]. cbn [length repeat map2]. rewrite IH.
  unfold fr_add, fzero. cbn [fst snd oadd Ops_R]. f_equal. pair_eq; ring.
Qed.

(** ** superposition of a run, for any step that is additive in (state, input) *)
Section Superposition.
  Variable step : svfst -> frame R -> svfst * frame R.
  Hypothesis Hadd : forall s t x y,
      step (st_add s t) (fr_add x y) =
      (st_add (fst (step s x)) (fst (step t y)), fr_add (snd (step s x)) (snd (step t y))).

  Lemma run_add : forall xs ys s t, length xs = length ys ->
      run_frames step (st_add s t) (map2 fr_add xs ys) =
      (st_add (fst (run_frames step s xs)) (fst (run_frames step t ys)),
       map2 fr_add (snd (run_frames step s xs)) (snd (run_frames step t ys))).
  Proof.
    induction xs as [|x xs IH]; intros [|y ys] s t Hl; try discriminate; [reflexivity|].
    cbn [map2 run_frames]. rewrite Hadd.
    destruct (step s x) as [s1 o1]. destruct (step t y) as [t1 p1]. cbn [fst snd].
    rewrite IH by (cbn in Hl; lia).
    destruct (run_frames step s1 xs) as [s2 o2]. destruct (run_frames step t1 ys) as [t2 p2]. reflexivity.
  Qed.
End Superposition.

Lemma filter_step_add : forall m a1 a2 a3 k mix (s t : svfst) (x y : frame R),
    filter_step m a1 a2 a3 k mix (st_add s t) (fr_add x y) =
    (st_add (fst (filter_step m a1 a2 a3 k mix s x)) (fst (filter_step m a1 a2 a3 k mix t y)),
     fr_add (snd (filter_step m a1 a2 a3 k mix s x)) (snd (filter_step m a1 a2 a3 k mix t y))).
Proof.
  intros m a1 a2 a3 k mix [[s1l s1r] [s2l s2r]] [[t1l t1r] [t2l t2r]] [xl xr] [yl yr].
  unfold filter_step, svf_core. cbn [fst snd]. rewrite !blend_R.
  unfold st_add, fr_add, fr_sub, fr_scale, spec_mix. cbn [fst snd oadd osub omul Ops_R]. change (oZ 2 : R) with 2.
  destruct m; cbn [fst snd]; pair_eq; ring.
Qed.
Lemma eq_step_add : forall a1 a2 a3 m0 m1 m2 (s t : svfst) (x y : frame R),
    eq_step a1 a2 a3 m0 m1 m2 (st_add s t) (fr_add x y) =
    (st_add (fst (eq_step a1 a2 a3 m0 m1 m2 s x)) (fst (eq_step a1 a2 a3 m0 m1 m2 t y)),
     fr_add (snd (eq_step a1 a2 a3 m0 m1 m2 s x)) (snd (eq_step a1 a2 a3 m0 m1 m2 t y))).
Proof.
  intros a1 a2 a3 m0 m1 m2 [[s1l s1r] [s2l s2r]] [[t1l t1r] [t2l t2r]] [xl xr] [yl yr].
  unfold eq_step, svf_core. cbn [fst snd].
  unfold st_add, fr_add, fr_sub, fr_scale. cbn [fst snd oadd osub omul Ops_R]. change (oZ 2 : R) with 2.
  pair_eq; ring.
Qed.

(** * 2. the zero-input response decays *)
(** ** one channel of the core, zero input, in terms of the integrator outputs (v1, v2) *)
Definition svf_eps (k : R) : R := 2 * k / (2 + k * k).
Definition lyap (e s1 s2 : R) : R := s1 * s1 + s2 * s2 + e * s1 * s2.
Definition svf_cm (g k : R) : R := 3 + 6 * (g * g) * (k * k + 1).
Definition svf_rho (g k : R) : R := 1 - g * svf_eps k / svf_cm g k.

Lemma svf_eps_range : forall k, 0 < k -> 0 < svf_eps k <= 1 /\ svf_eps k * (2 + k * k) = 2 * k.
Proof.
  intros k Hk. unfold svf_eps. assert (Hd : 0 < 2 + k * k) by nra. split; [split|].
  - apply Rdiv_lt_0_compat; lra.
  - apply (Rmult_le_reg_r (2 + k * k)); [exact Hd|]. unfold Rdiv. rewrite Rmult_assoc, Rinv_l by lra. nra.
  - field. lra.
Qed.
Lemma svf_cm_pos : forall g k, 3 <= svf_cm g k.
Proof. intros. unfold svf_cm. assert (0 <= g * g * (k * k + 1)) by nra. lra. Qed.
Lemma svf_rho_range : forall g k, 0 < g -> 0 < k -> 0 <= svf_rho g k < 1.
Proof.
  intros g k Hg Hk. destruct (svf_eps_range k Hk) as [[He0 He1] _]. pose proof (svf_cm_pos g k) as Hc.
  unfold svf_rho.
  assert (Hq : 0 < g * svf_eps k / svf_cm g k <= 1).
  { split; [apply Rdiv_lt_0_compat; nra|].
    apply (Rmult_le_reg_r (svf_cm g k)); [lra|]. unfold Rdiv. rewrite Rmult_assoc, Rinv_l by lra.
    unfold svf_cm in *. nra. }
  lra.
Qed.

(** the Lyapunov identity of the trapezoidal rule: with s = m - g A m, s' = m + g A m, A = [[-k, -1], [1, 0]] *)
Lemma lyap_identity : forall e g k m1 m2,
    lyap e (m1 + g * (k * m1 + m2)) (m2 - g * m1) - lyap e (m1 - g * (k * m1 + m2)) (m2 + g * m1) =
    2 * g * ((2 * k - e) * (m1 * m1) + e * k * (m1 * m2) + e * (m2 * m2)).
Proof. intros. unfold lyap. ring. Qed.
Lemma lyap_dissipation : forall e k m1 m2, 0 < k -> 0 <= e -> e * (2 + k * k) = 2 * k ->
    e / 2 * (m1 * m1 + m2 * m2) <= (2 * k - e) * (m1 * m1) + e * k * (m1 * m2) + e * (m2 * m2).
Proof.
  intros e k m1 m2 Hk He H2.
  assert (E : (2 * k - e) * (m1 * m1) + e * k * (m1 * m2) + e * (m2 * m2) - e / 2 * (m1 * m1 + m2 * m2) =
              e / 2 * ((k * m1 + m2) * (k * m1 + m2) + (1 + k * k) * (m1 * m1))).
  { rewrite <- H2. field. }
  assert (0 <= (k * m1 + m2) * (k * m1 + m2) + (1 + k * k) * (m1 * m1)) by nra.
  assert (0 <= e / 2 * ((k * m1 + m2) * (k * m1 + m2) + (1 + k * k) * (m1 * m1))) by (apply Rmult_le_pos; lra).
  lra.
Qed.
Lemma lyap_bounds : forall e s1 s2, 0 <= e <= 1 ->
    1 / 2 * (s1 * s1 + s2 * s2) <= lyap e s1 s2 <= 3 / 2 * (s1 * s1 + s2 * s2).
Proof.
  intros e s1 s2 He. unfold lyap.
  pose proof (Rle_0_sqr (s1 - s2)) as P1. pose proof (Rle_0_sqr (s1 + s2)) as P2. unfold Rsqr in *.
  split; nra.
Qed.
Lemma state_by_mid : forall g k m1 m2,
    (m1 + g * (k * m1 + m2)) * (m1 + g * (k * m1 + m2)) + (m2 - g * m1) * (m2 - g * m1) <=
    (2 + 4 * (g * g) * (k * k + 1)) * (m1 * m1 + m2 * m2).
Proof.
  intros g k m1 m2.
  pose proof (Rle_0_sqr (m1 - g * (k * m1 + m2))) as P1. pose proof (Rle_0_sqr (m2 + g * m1)) as P2.
  pose proof (Rle_0_sqr (g * (k * m2 - m1))) as P3. pose proof (Rle_0_sqr (g * m2)) as P4.
  pose proof (Rle_0_sqr (g * k * m1)) as P5. unfold Rsqr in *. nra.
Qed.

(** one step: the energy shrinks by rho, and the integrator outputs are bounded by the energy *)
Lemma lyap_step : forall g k m1 m2, 0 < g -> 0 < k ->
    let e := svf_eps k in
    let V := lyap e (m1 + g * (k * m1 + m2)) (m2 - g * m1) in
    let V' := lyap e (m1 - g * (k * m1 + m2)) (m2 + g * m1) in
    V' <= svf_rho g k * V /\ g * e * (m1 * m1 + m2 * m2) <= V /\ 0 <= V'.
Proof.
  intros g k m1 m2 Hg Hk e V V'.
  destruct (svf_eps_range k Hk) as [[He0 He1] H2]. fold e in He0, He1, H2.
  pose proof (lyap_identity e g k m1 m2) as Hid. fold V V' in Hid.
  pose proof (lyap_dissipation e k m1 m2 Hk ltac:(lra) H2) as Hdis.
  pose proof (lyap_bounds e (m1 + g * (k * m1 + m2)) (m2 - g * m1) ltac:(lra)) as [_ HVu]. fold V in HVu.
  pose proof (lyap_bounds e (m1 - g * (k * m1 + m2)) (m2 + g * m1) ltac:(lra)) as [HVlp _]. fold V' in HVlp.
  pose proof (state_by_mid g k m1 m2) as Hs.
  set (M := m1 * m1 + m2 * m2) in *. assert (HM : 0 <= M) by (unfold M; nra).
  assert (HVp : 0 <= V').
  { pose proof (Rle_0_sqr (m1 - g * (k * m1 + m2))) as Q1. pose proof (Rle_0_sqr (m2 + g * m1)) as Q2. unfold Rsqr in *. lra. }
  assert (Hdrop : g * e * M <= V - V').
  { rewrite Hid. assert (g * (e / 2 * M) <= g * ((2 * k - e) * (m1 * m1) + e * k * (m1 * m2) + e * (m2 * m2))) by (apply Rmult_le_compat_l; lra). lra. }
  assert (HVM : V <= svf_cm g k * M) by (unfold svf_cm; nra).
  split; [|split; [lra|exact HVp]].
  unfold svf_rho. fold e. pose proof (svf_cm_pos g k) as Hc.
  assert (Hq : g * e / svf_cm g k * V <= g * e * M).
  { unfold Rdiv. rewrite Rmult_assoc. rewrite (Rmult_comm (/ svf_cm g k)).
    assert (V * / svf_cm g k <= M).
    { apply (Rmult_le_reg_r (svf_cm g k)); [lra|]. rewrite Rmult_assoc, Rinv_l by lra. lra. }
    apply Rmult_le_compat_l; [nra|assumption]. }
  lra.
Qed.

(** ** the core on frames with zero input *)
Definition st_lyap (e : R) (s : svfst) : R :=
  lyap e (fst (fst s)) (fst (snd s)) + lyap e (snd (fst s)) (snd (snd s)).

Lemma st_lyap_energy : forall e s, 0 <= e <= 1 -> 1 / 2 * st_energy s <= st_lyap e s <= 3 / 2 * st_energy s.
Proof.
  intros e [[a b] [c d]] He. unfold st_lyap, st_energy, fr_norm2. cbn [fst snd].
  pose proof (lyap_bounds e a c He). pose proof (lyap_bounds e b d He). lra.
Qed.

Lemma core_zero_input : forall g k (s : svfst), 0 < g -> 0 < k ->
    let r := svf_core (svf_a1 g k) (svf_a2 g k) (svf_a3 g k) (fst s) (snd s) fzero in
    let v1 := fst (fst r) in let v2 := snd (fst r) in
    st_lyap (svf_eps k) (snd r) <= svf_rho g k * st_lyap (svf_eps k) s /\
    g * svf_eps k * (fr_norm2 v1 + fr_norm2 v2) <= st_lyap (svf_eps k) s /\
    0 <= st_lyap (svf_eps k) (snd r).
Proof.
  intros g k [[a b] [c d]] Hg Hk. cbv zeta.
  assert (Hden : 1 + g * (g + k) <> 0) by (apply den_pos; assumption).
  unfold svf_core, fzero, fr_sub, fr_add, fr_scale. cbn [fst snd oadd osub omul Ops_R]. change (oZ 2 : R) with 2.
  (* the integrator outputs of the two channels *)
  set (p1 := a * svf_a1 g k + (0 - c) * svf_a2 g k). set (p2 := c + a * svf_a2 g k + (0 - c) * svf_a3 g k).
  set (q1 := b * svf_a1 g k + (0 - d) * svf_a2 g k). set (q2 := d + b * svf_a2 g k + (0 - d) * svf_a3 g k).
  assert (Ea : a = p1 + g * (k * p1 + p2)) by (unfold p1, p2, svf_a3, svf_a2, svf_a1; field; exact Hden).
  assert (Ec : c = p2 - g * p1) by (unfold p1, p2, svf_a3, svf_a2, svf_a1; field; exact Hden).
  assert (Eb : b = q1 + g * (k * q1 + q2)) by (unfold q1, q2, svf_a3, svf_a2, svf_a1; field; exact Hden).
  assert (Ed : d = q2 - g * q1) by (unfold q1, q2, svf_a3, svf_a2, svf_a1; field; exact Hden).
  clearbody p1 p2 q1 q2. subst a c b d.
  unfold st_lyap, fr_norm2. cbn [fst snd].
  replace (p1 * 2 - (p1 + g * (k * p1 + p2))) with (p1 - g * (k * p1 + p2)) by ring.
  replace (p2 * 2 - (p2 - g * p1)) with (p2 + g * p1) by ring.
  replace (q1 * 2 - (q1 + g * (k * q1 + q2))) with (q1 - g * (k * q1 + q2)) by ring.
  replace (q2 * 2 - (q2 - g * q1)) with (q2 + g * q1) by ring.
  destruct (lyap_step g k p1 p2 Hg Hk) as (L1 & L2 & L3). destruct (lyap_step g k q1 q2 Hg Hk) as (R1 & R2 & R3).
  cbv zeta in *. repeat split; nra.
Qed.

(** ** decay of a run, generic in the step *)
Section Decay.
  Variable step : svfst -> frame R -> svfst * frame R.
  Variable W : svfst -> R.
  Variables rho C : R.
  Hypothesis Hrho : 0 <= rho.
  Hypothesis HC : 0 <= C.
  Hypothesis Hstep : forall d, W (fst (step d fzero)) <= rho * W d /\ fr_norm2 (snd (step d fzero)) <= C * W d /\ 0 <= W (fst (step d fzero)).

  Lemma run_decays : forall N d n, (n < N)%nat -> 0 <= W d ->
      fr_norm2 (nth n (snd (run_frames step d (repeat fzero N))) fzero) <= C * rho ^ n * W d.
  Proof.
    induction N as [|N IH]; intros d n Hn HW; [lia|].
    cbn [repeat run_frames]. destruct (Hstep d) as (H1 & H2 & H3).
    destruct (step d fzero) as [d1 y] eqn:E. cbn [fst snd] in *.
    destruct (run_frames step d1 (repeat fzero N)) as [d2 ys] eqn:E2. cbn [snd].
    destruct n as [|n].
    - cbn [nth pow]. lra.
    - cbn [nth]. specialize (IH d1 n ltac:(lia) H3). rewrite E2 in IH. cbn [snd] in IH. cbn [pow].
      assert (0 <= C * rho ^ n) by (apply Rmult_le_pos; [exact HC|apply pow_le; exact Hrho]).
      assert (C * rho ^ n * W d1 <= C * rho ^ n * (rho * W d)) by (apply Rmult_le_compat_l; assumption).
      lra.
  Qed.
End Decay.

(** ** the filter *)
Definition filter_C (g k : R) : R := 3 * (k * k + 1) / (g * svf_eps k).
Lemma spec_mix_zero_dry : forall w mix, spec_mix w 0 mix * spec_mix w 0 mix <= w * w.
Proof.
  intros w mix. unfold spec_mix. cbv zeta. pose proof (clampR_range mix 0 1 ltac:(lra)) as Hm.
  set (m := clampR mix 0 1) in *. rewrite Rmult_0_l, Rplus_0_r.
  replace (w * sqrt m * (w * sqrt m)) with (w * w * (sqrt m * sqrt m)) by ring. rewrite sqrt_sqrt by lra. nra.
Qed.
Lemma filter_zero_input_step : forall m g k mix (d : svfst), 0 < g -> 0 < k ->
    let W := st_lyap (svf_eps k) in
    let r := filter_step m (svf_a1 g k) (svf_a2 g k) (svf_a3 g k) k mix d fzero in
    W (fst r) <= svf_rho g k * W d /\ fr_norm2 (snd r) <= (2 * (k * k + 1) / (g * svf_eps k)) * W d /\ 0 <= W (fst r).
Proof.
  intros m g k mix d Hg Hk W r. pose proof (core_zero_input g k d Hg Hk) as Hc. cbv zeta in Hc.
  unfold r, filter_step. destruct (svf_core (svf_a1 g k) (svf_a2 g k) (svf_a3 g k) (fst d) (snd d) fzero) as [[v1 v2] s'] eqn:E.
  cbn [fst snd] in *. destruct Hc as (H1 & H2 & H3). fold W in H1, H2, H3.
  split; [exact H1|split; [|exact H3]].
  destruct (svf_eps_range k Hk) as [[He0 He1] _]. assert (Hge : 0 < g * svf_eps k) by nra.
  (* the wet output is a combination of v1, v2 with coefficients bounded by 1 and k; the blend only shrinks it *)
  assert (Hout : fr_norm2 (blend (match m with
                                  | LowPass => v2 | BandPass => v1
                                  | HighPass => fr_sub (fr_sub fzero (fr_scale v1 k)) v2
                                  | Notch => fr_sub fzero (fr_scale v1 k) end) fzero mix)
                 <= 2 * (k * k + 1) * (fr_norm2 v1 + fr_norm2 v2)).
  { rewrite blend_R. unfold fr_norm2 at 1. cbn [fst snd].
    destruct v1 as [v1l v1r], v2 as [v2l v2r]. unfold fzero. cbn [fst snd].
    match goal with
    | |- spec_mix ?a 0 mix * _ + spec_mix ?b 0 mix * _ <= _ => set (ol := a); set (or_ := b)
    end.
    pose proof (spec_mix_zero_dry ol mix) as Bl. pose proof (spec_mix_zero_dry or_ mix) as Br.
    assert (Hl : ol * ol <= 2 * (k * k + 1) * (v1l * v1l + v2l * v2l)).
    { unfold ol. destruct m; unfold fr_sub, fr_scale; cbn [fst snd osub omul Ops_R];
        pose proof (Rle_0_sqr (k * v2l - v1l)) as Q; unfold Rsqr in Q; nra. }
    assert (Hr : or_ * or_ <= 2 * (k * k + 1) * (v1r * v1r + v2r * v2r)).
    { unfold or_. destruct m; unfold fr_sub, fr_scale; cbn [fst snd osub omul Ops_R];
        pose proof (Rle_0_sqr (k * v2r - v1r)) as Q; unfold Rsqr in Q; nra. }
    clearbody ol or_. unfold fr_norm2. cbn [fst snd]. nra. }
  eapply Rle_trans; [exact Hout|].
  unfold Rdiv. rewrite (Rmult_comm (2 * (k * k + 1))), Rmult_assoc, (Rmult_comm (2 * (k * k + 1))), <- Rmult_assoc.
  apply (Rmult_le_reg_l (g * svf_eps k)); [exact Hge|].
  replace (g * svf_eps k * (/ (g * svf_eps k) * W d * (2 * (k * k + 1)))) with (W d * (2 * (k * k + 1))) by (field; lra).
  assert (0 <= fr_norm2 v1 + fr_norm2 v2) by (unfold fr_norm2; nra).
  assert (0 <= k * k + 1) by nra. nra.
Qed.

Theorem filter_transient_decays : forall m g k mix (d : svfst) N n, 0 < g -> 0 < k -> (n < N)%nat ->
    fr_norm2 (nth n (snd (run_frames (filter_step m (svf_a1 g k) (svf_a2 g k) (svf_a3 g k) k mix) d (repeat fzero N))) fzero)
    <= filter_C g k * svf_rho g k ^ n * st_energy d.
Proof.
  intros m g k mix d N n Hg Hk Hn.
  destruct (svf_eps_range k Hk) as [[He0 He1] _]. assert (Hge : 0 < g * svf_eps k) by nra.
  destruct (svf_rho_range g k Hg Hk) as [Hr0 Hr1].
  pose proof (st_lyap_energy (svf_eps k) d ltac:(lra)) as [HWl HWu].
  assert (HE : 0 <= st_energy d) by (destruct d as [[a b] [c e]]; unfold st_energy, fr_norm2; cbn [fst snd]; nra).
  assert (HC : 0 <= 2 * (k * k + 1) / (g * svf_eps k)) by (apply Rmult_le_pos; [nra|left; apply Rinv_0_lt_compat; exact Hge]).
  pose proof (run_decays (filter_step m (svf_a1 g k) (svf_a2 g k) (svf_a3 g k) k mix) (st_lyap (svf_eps k))
                         (svf_rho g k) (2 * (k * k + 1) / (g * svf_eps k)) Hr0 HC
                         (fun d0 => filter_zero_input_step m g k mix d0 Hg Hk) N d n Hn ltac:(lra)) as HD.
  eapply Rle_trans; [exact HD|].
  assert (Hp : 0 <= svf_rho g k ^ n) by (apply pow_le; exact Hr0).
  unfold filter_C.
  replace (3 * (k * k + 1) / (g * svf_eps k) * svf_rho g k ^ n * st_energy d)
    with (2 * (k * k + 1) / (g * svf_eps k) * svf_rho g k ^ n * (3 / 2 * st_energy d)) by (field; lra).
  apply Rmult_le_compat_l; [apply Rmult_le_pos; assumption|exact HWu].
Qed.

(** ** the EQ filter: output m1 v1 + m2 v2 on zero input *)
Definition eq_C (g k m1 m2 : R) : R := 3 / 2 * (m1 * m1 + m2 * m2) / (g * svf_eps k).
Lemma eq_zero_input_step : forall g k m0 m1 m2 (d : svfst), 0 < g -> 0 < k ->
    let W := st_lyap (svf_eps k) in
    let r := eq_step (svf_a1 g k) (svf_a2 g k) (svf_a3 g k) m0 m1 m2 d fzero in
    W (fst r) <= svf_rho g k * W d /\ fr_norm2 (snd r) <= ((m1 * m1 + m2 * m2) / (g * svf_eps k)) * W d /\ 0 <= W (fst r).
Proof.
  intros g k m0 m1 m2 d Hg Hk W r. pose proof (core_zero_input g k d Hg Hk) as Hc. cbv zeta in Hc.
  unfold r, eq_step. destruct (svf_core (svf_a1 g k) (svf_a2 g k) (svf_a3 g k) (fst d) (snd d) fzero) as [[v1 v2] s'] eqn:E.
  cbn [fst snd] in *. destruct Hc as (H1 & H2 & H3). fold W in H1, H2, H3.
  split; [exact H1|split; [|exact H3]].
  destruct (svf_eps_range k Hk) as [[He0 He1] _]. assert (Hge : 0 < g * svf_eps k) by nra.
  assert (Hout : fr_norm2 (fr_add (fr_add (fr_scale fzero m0) (fr_scale v1 m1)) (fr_scale v2 m2))
                 <= (m1 * m1 + m2 * m2) * (fr_norm2 v1 + fr_norm2 v2)).
  { destruct v1 as [v1l v1r], v2 as [v2l v2r]. unfold fzero, fr_norm2, fr_add, fr_scale. cbn [fst snd oadd omul Ops_R].
    pose proof (Rle_0_sqr (m1 * v2l - m2 * v1l)) as Q1. pose proof (Rle_0_sqr (m1 * v2r - m2 * v1r)) as Q2.
    unfold Rsqr in *. nra. }
  eapply Rle_trans; [exact Hout|].
  apply (Rmult_le_reg_l (g * svf_eps k)); [exact Hge|].
  replace (g * svf_eps k * ((m1 * m1 + m2 * m2) / (g * svf_eps k) * W d)) with ((m1 * m1 + m2 * m2) * W d) by (field; lra).
  assert (0 <= m1 * m1 + m2 * m2) by nra.
  assert (0 <= fr_norm2 v1 + fr_norm2 v2) by (unfold fr_norm2; nra). nra.
Qed.
Theorem eq_transient_decays : forall g k m0 m1 m2 (d : svfst) N n, 0 < g -> 0 < k -> (n < N)%nat ->
    fr_norm2 (nth n (snd (run_frames (eq_step (svf_a1 g k) (svf_a2 g k) (svf_a3 g k) m0 m1 m2) d (repeat fzero N))) fzero)
    <= eq_C g k m1 m2 * svf_rho g k ^ n * st_energy d.
Proof.
  intros g k m0 m1 m2 d N n Hg Hk Hn.
  destruct (svf_eps_range k Hk) as [[He0 He1] _]. assert (Hge : 0 < g * svf_eps k) by nra.
  destruct (svf_rho_range g k Hg Hk) as [Hr0 Hr1].
  pose proof (st_lyap_energy (svf_eps k) d ltac:(lra)) as [HWl HWu].
  assert (HE : 0 <= st_energy d) by (destruct d as [[a b] [c e]]; unfold st_energy, fr_norm2; cbn [fst snd]; nra).
  assert (HC : 0 <= (m1 * m1 + m2 * m2) / (g * svf_eps k)) by (apply Rmult_le_pos; [nra|left; apply Rinv_0_lt_compat; exact Hge]).
  pose proof (run_decays (eq_step (svf_a1 g k) (svf_a2 g k) (svf_a3 g k) m0 m1 m2) (st_lyap (svf_eps k))
                         (svf_rho g k) ((m1 * m1 + m2 * m2) / (g * svf_eps k)) Hr0 HC
                         (fun d0 => eq_zero_input_step g k m0 m1 m2 d0 Hg Hk) N d n Hn ltac:(lra)) as HD.
  eapply Rle_trans; [exact HD|].
  assert (Hp : 0 <= svf_rho g k ^ n) by (apply pow_le; exact Hr0).
  unfold eq_C.
  replace (3 / 2 * (m1 * m1 + m2 * m2) / (g * svf_eps k) * svf_rho g k ^ n * st_energy d)
    with ((m1 * m1 + m2 * m2) / (g * svf_eps k) * svf_rho g k ^ n * (3 / 2 * st_energy d)) by (field; lra).
  apply Rmult_le_compat_l; [apply Rmult_le_pos; assumption|exact HWu].
Qed.

(** * 3. histories of device rates *)
(** an instance lives through segments (device rate, frames): at every change of segment the code calls
    [on_change_sample_rate] (C13's [change_rate]) and from then on passes dt = 1 / rate; [mk r] is the effect
    the builder parameters compile to at rate r *)
Fixpoint run_history (mk : R -> effect R) (s : estate R) (hist : list (R * list (frame R)))
  : estate R * list (frame R) :=
  match hist with
  | [] => (s, [])
  | (r, xs) :: rest =>
      let (s1, o1) := run_frames (estep consts_R (mk r)) (change_rate (mk r) s) xs in
      let (s2, o2) := run_history mk s1 rest in
      (s2, o1 ++ o2)
  end.

Lemma run_history_app : forall mk h1 h2 s,
    run_history mk s (h1 ++ h2) =
    (fst (run_history mk (fst (run_history mk s h1)) h2),
     snd (run_history mk s h1) ++ snd (run_history mk (fst (run_history mk s h1)) h2)).
Proof.
  intros mk. induction h1 as [|[r xs] h1 IH]; intros h2 s.
  - cbn [app run_history fst snd]. destruct (run_history mk s h2); reflexivity.
  - cbn [app run_history]. destruct (run_frames (estep consts_R (mk r)) (change_rate (mk r) s) xs) as [s1 o1].
    rewrite IH. destruct (run_history mk s1 h1) as [s2 o2]. cbn [fst snd].
    destruct (run_history mk s2 h2) as [s3 o3]. cbn [fst snd]. rewrite app_assoc. reflexivity.
Qed.

Definition svf_state (s : estate R) : svfst := match s with SSvf ic => ic | _ => (fzero, fzero) end.

(** the filter / EQ filter the builder parameters compile to at device rate fs (the R instance of C13.Run.compile) *)
Definition filter_at (m : fmode) (fc res mix fs : R) : effect R :=
  let '(a1, a2, a3, k) := filter_coeffs PI lit_1e4 lit_half lit_1p9 tan fc res (1 / fs) in
  EFilter m a1 a2 a3 k mix.
Definition eq_at (kind : eqkind) (fc q gain fs : R) : effect R :=
  let '((a1, a2, a3), (m0, m1, m2)) := eq_coeffs PI lit_1e4 lit_half lit_minq tan (Rpower 10) kind fc q gain (1 / fs) in
  EEq a1 a2 a3 m0 m1 m2.

(** through any history the state stays a pair of integrator states *)
Definition svf_effect (e : effect R) : Prop :=
  match e with EFilter _ _ _ _ _ _ | EEq _ _ _ _ _ _ => True | _ => False end.
Lemma filter_at_svf : forall m fc res mix fs, svf_effect (filter_at m fc res mix fs).
Proof. intros. unfold filter_at. destruct (filter_coeffs _ _ _ _ _ _ _ _) as [[[a1 a2] a3] k]. exact I. Qed.
Lemma eq_at_svf : forall kind fc q gain fs, svf_effect (eq_at kind fc q gain fs).
Proof. intros. unfold eq_at. destruct (eq_coeffs _ _ _ _ _ _ _ _ _ _ _) as [[[a1 a2] a3] [[m0 m1] m2]]. exact I. Qed.
Lemma svf_effect_run : forall e ic xs, svf_effect e ->
    change_rate e (SSvf ic) = SSvf ic /\ exists ic', fst (run_frames (estep consts_R e) (SSvf ic) xs) = SSvf ic'.
Proof.
  intros e ic xs He. destruct e; try contradiction; (split; [reflexivity|]).
  - rewrite run_estep_filter. eexists; reflexivity.
  - rewrite run_estep_eq. eexists; reflexivity.
Qed.
Lemma history_keeps_svf : forall mk, (forall r, svf_effect (mk r)) ->
    forall hist ic, exists ic', fst (run_history mk (SSvf ic) hist) = SSvf ic'.
Proof.
  intros mk Hmk. induction hist as [|[r xs] hist IH]; intros ic; [eexists; reflexivity|].
  cbn [run_history]. destruct (svf_effect_run (mk r) ic xs (Hmk r)) as [Ec [ic1 E1]]. rewrite Ec.
  destruct (run_frames (estep consts_R (mk r)) (SSvf ic) xs) as [s1 o1]. cbn [fst] in E1. subst s1.
  destruct (IH ic1) as [ic2 E2]. destruct (run_history mk (SSvf ic1) hist) as [s2 o2]. cbn [fst] in *.
  exists ic2. exact E2.
Qed.

(** the last segment of a history is a run of the effect for the rate now in force from the state left behind *)
Lemma history_last_segment : forall mk, (forall r, svf_effect (mk r)) ->
    forall hist ic fs xs,
      snd (run_history mk (SSvf ic) (hist ++ [(fs, xs)])) =
      snd (run_history mk (SSvf ic) hist) ++
      snd (run_frames (estep consts_R (mk fs)) (SSvf (svf_state (fst (run_history mk (SSvf ic) hist)))) xs).
Proof.
  intros mk Hmk hist ic fs xs. rewrite run_history_app. cbn [snd]. f_equal.
  destruct (history_keeps_svf mk Hmk hist ic) as [ic' E]. rewrite E. cbn [svf_state run_history].
  destruct (svf_effect_run (mk fs) ic' xs (Hmk fs)) as [Ec _]. rewrite Ec.
  destruct (run_frames (estep consts_R (mk fs)) (SSvf ic') xs) as [s1 o1]. cbn [snd]. apply app_nil_r.
Qed.

Local Open Scope C_scope.

(** ** the filter after any history *)
Theorem filter_response_after_rate_change :
  forall (m : fmode) (fc res mix : R) (hist : list (R * list (frame R))) (ic0 : svfst) (fs f : R) (X : frame C) (N : nat),
    (0 < fs)%R -> (lit_1e4 <= fc / fs < lit_half)%R -> cos (PI * f / fs) <> 0%R ->
    let mk := filter_at m fc res mix in
    let g := prewarp fc fs in let k := filter_k res in let z := cis (omega f fs) in
    let H := H_proto m k (Ci * RtoC (tan (PI * f / fs) / tan (PI * fc / fs))) in
    let probe := map (fun n => reF (cexp X z n)) (seq 0 N) in
    let d := st_sub (svf_state (fst (run_history mk (SSvf ic0) hist))) (reS (steady g k z X c1)) in
    let transient := snd (run_frames (estep consts_R (mk fs)) (SSvf d) (repeat fzero N)) in
    snd (run_history mk (SSvf ic0) (hist ++ [(fs, probe)])) =
    snd (run_history mk (SSvf ic0) hist) ++
    map2 fr_add (map (fun n => reF (cscale X (with_mix H mix * Cpow z n))) (seq 0 N)) transient /\
    (forall n, (n < N)%nat ->
               (fr_norm2 (nth n transient fzero) <= filter_C g k * svf_rho g k ^ n * st_energy d)%R) /\
    (0 <= svf_rho g k < 1)%R.
Proof.
  intros m fc res mix hist ic0 fs f X N Hfs Hf Hc mk g k z H probe d transient.
  pose proof (filter_k_range res) as Hk. fold k in Hk.
  assert (Hf' : (0 < fc / fs < 1 / 2)%R) by (unfold lit_1e4, lit_half in *; lra).
  destruct (prewarp_corner fc fs Hfs Hf') as (Hg & _). fold g in Hg.
  assert (Emk : mk fs = EFilter m (svf_a1 g k) (svf_a2 g k) (svf_a3 g k) k mix).
  { unfold mk, filter_at. rewrite filter_coeffs_R by (try assumption; unfold lit_half in *; lra). reflexivity. }
  split; [|split].
  - rewrite (history_last_segment mk (filter_at_svf m fc res mix)). f_equal.
    set (sh := svf_state (fst (run_history mk (SSvf ic0) hist))) in *.
    pose proof (filter_frequency_response m fc res mix fs f X N Hfs Hf Hc) as HR.
    rewrite filter_coeffs_R in HR by (try assumption; unfold lit_half in *; lra). cbv beta iota zeta in HR.
    fold g k z H probe in HR.
    unfold transient. rewrite Emk. rewrite <- HR. rewrite !run_estep_filter. cbn [snd].
    rewrite <- (st_add_sub sh (reS (steady g k z X c1))). fold d.
    rewrite <- (map2_add_zeros probe) at 1.
    assert (Hl : length probe = N) by (unfold probe; rewrite map_length, seq_length; reflexivity).
    rewrite Hl.
    rewrite (run_add _ (filter_step_add m (svf_a1 g k) (svf_a2 g k) (svf_a3 g k) k mix)) by (rewrite repeat_length; exact Hl).
    reflexivity.
  - intros n Hn. unfold transient. rewrite Emk, run_estep_filter. cbn [snd].
    apply filter_transient_decays; [exact Hg|lra|exact Hn].
  - apply svf_rho_range; [exact Hg|lra].
Qed.

(** ** the EQ filter after any history *)
Theorem eq_response_after_rate_change :
  forall (kind : eqkind) (fc q gain : R) (hist : list (R * list (frame R))) (ic0 : svfst) (fs f : R) (X : frame C) (N : nat),
    (0 < fs)%R -> (lit_1e4 <= fc / fs < lit_half)%R -> cos (PI * f / fs) <> 0%R ->
    let mk := eq_at kind fc q gain in
    let A := eq_A gain in let Q := Rmax q lit_minq in
    let g := eq_g kind (prewarp fc fs) A in let k := eq_k kind A Q in let z := cis (omega f fs) in
    let H := H_eq_proto kind A Q (Ci * RtoC (tan (PI * f / fs) / tan (PI * fc / fs))) in
    let probe := map (fun n => reF (cexp X z n)) (seq 0 N) in
    let d := st_sub (svf_state (fst (run_history mk (SSvf ic0) hist))) (reS (steady g k z X c1)) in
    let transient := snd (run_frames (estep consts_R (mk fs)) (SSvf d) (repeat fzero N)) in
    snd (run_history mk (SSvf ic0) (hist ++ [(fs, probe)])) =
    snd (run_history mk (SSvf ic0) hist) ++
    map2 fr_add (map (fun n => reF (cscale X (H * Cpow z n))) (seq 0 N)) transient /\
    (forall n, (n < N)%nat ->
               (fr_norm2 (nth n transient fzero) <=
                eq_C g k (snd (fst (eq_m kind A Q))) (snd (eq_m kind A Q)) * svf_rho g k ^ n * st_energy d)%R) /\
    (0 <= svf_rho g k < 1)%R.
Proof.
  intros kind fc q gain hist ic0 fs f X N Hfs Hf Hc mk A Q g k z H probe d transient.
  assert (HA : (0 < A)%R) by apply eq_A_pos.
  assert (HQ : (0 < Q)%R) by (unfold Q, lit_minq; pose proof (Rmax_r q (1 / 100)); lra).
  assert (Hf' : (0 < fc / fs < 1 / 2)%R) by (unfold lit_1e4, lit_half in *; lra).
  destruct (prewarp_corner fc fs Hfs Hf') as (Hg0 & _).
  assert (Hs : (0 < sqrt A)%R) by (apply sqrt_lt_R0; exact HA).
  assert (Hg : (0 < g)%R).
  { unfold g. destruct kind; cbn [eq_g]; [exact Hg0|apply Rdiv_lt_0_compat; assumption|apply Rmult_lt_0_compat; assumption]. }
  assert (Hk : (0 < k)%R).
  { unfold k. destruct kind; cbn [eq_k]; apply Rdiv_lt_0_compat; try lra. apply Rmult_lt_0_compat; assumption. }
  destruct (eq_m kind A Q) as [[m0 m1] m2] eqn:Em. cbn [fst snd].
  assert (Emk : mk fs = EEq (svf_a1 g k) (svf_a2 g k) (svf_a3 g k) m0 m1 m2).
  { unfold mk, eq_at. rewrite eq_coeffs_R by (try assumption; unfold lit_half in *; lra). cbv zeta.
    fold A Q g k. rewrite Em. reflexivity. }
  split; [|split].
  - rewrite (history_last_segment mk (eq_at_svf kind fc q gain)). f_equal.
    set (sh := svf_state (fst (run_history mk (SSvf ic0) hist))) in *.
    pose proof (eq_frequency_response kind fc q gain fs f X N Hfs Hf Hc) as HR. cbv zeta in HR.
    rewrite eq_coeffs_R in HR by (try assumption; unfold lit_half in *; lra). cbv zeta in HR.
    fold A Q g k in HR. rewrite Em in HR. cbv beta iota zeta in HR. fold z H probe in HR.
    unfold transient. rewrite Emk. rewrite <- HR. rewrite !run_estep_eq. cbn [snd].
    rewrite <- (st_add_sub sh (reS (steady g k z X c1))). fold d.
    rewrite <- (map2_add_zeros probe) at 1.
    assert (Hl : length probe = N) by (unfold probe; rewrite map_length, seq_length; reflexivity).
    rewrite Hl.
    rewrite (run_add _ (eq_step_add (svf_a1 g k) (svf_a2 g k) (svf_a3 g k) m0 m1 m2)) by (rewrite repeat_length; exact Hl).
    reflexivity.
  - intros n Hn. unfold transient. rewrite Emk, run_estep_eq. cbn [snd].
    apply eq_transient_decays; assumption.
  - apply svf_rho_range; assumption.
Qed.

Local Open Scope R_scope.

(** * 4. the statement has content: the coefficients DO depend on the rate (a filter that kept those of the
    previous rate would contradict it), and a history can leave a non-zero offset *)
Lemma svf_a1_decreasing : forall k g1 g2, 0 < k -> 0 < g1 < g2 -> svf_a1 g2 k < svf_a1 g1 k.
Proof.
  intros k g1 g2 Hk [H1 H2]. unfold svf_a1.
  assert (0 < 1 + g1 * (g1 + k)) by nra. assert (1 + g1 * (g1 + k) < 1 + g2 * (g2 + k)) by nra.
  unfold Rdiv. rewrite !Rmult_1_l. apply Rinv_lt_contravar; [nra|assumption].
Qed.
Theorem filter_coeffs_follow_rate : forall m fc res mix fs1 fs2,
    0 < fs1 < fs2 -> lit_1e4 <= fc / fs2 -> fc / fs1 < lit_half ->
    filter_at m fc res mix fs1 <> filter_at m fc res mix fs2.
Proof.
  intros m fc res mix fs1 fs2 [H1 H2] Hlo Hhi.
  assert (Hfc : 0 < fc).
  { unfold lit_1e4 in Hlo. assert (0 < fc / fs2) by lra. unfold Rdiv in H.
    assert (0 < / fs2) by (apply Rinv_0_lt_compat; lra). nra. }
  assert (Hr : fc / fs2 < fc / fs1).
  { unfold Rdiv. apply Rmult_lt_compat_l; [exact Hfc|]. apply Rinv_lt_contravar; [nra|exact H2]. }
  unfold filter_at.
  rewrite !filter_coeffs_R by (unfold lit_1e4, lit_half in *; lra).
  intros E. injection E as Ea _ _.
  pose proof (filter_k_range res) as Hk.
  assert (Hg : 0 < prewarp fc fs2 < prewarp fc fs1).
  { unfold prewarp. pose proof PI_RGT_0 as Hpi.
    assert (A2 : 0 < PI * fc / fs2) by (unfold Rdiv in *; unfold lit_1e4 in Hlo; nra).
    assert (A1 : PI * fc / fs1 < PI / 2).
    { replace (PI * fc / fs1) with (PI * (fc / fs1)) by (unfold Rdiv; ring). unfold lit_half in Hhi. nra. }
    assert (A12 : PI * fc / fs2 < PI * fc / fs1).
    { replace (PI * fc / fs1) with (PI * (fc / fs1)) by (unfold Rdiv; ring).
      replace (PI * fc / fs2) with (PI * (fc / fs2)) by (unfold Rdiv; ring). nra. }
    split; [apply tan_gt_0; lra|apply tan_increasing; lra]. }
  pose proof (svf_a1_decreasing (filter_k res) _ _ ltac:(lra) Hg). lra.
Qed.
Example rate_change_hypotheses_satisfiable :
  (0 < 44100 < 48000) /\ lit_1e4 <= 1000 / 48000 /\ 1000 / 44100 < lit_half /\
  filter_at LowPass 1000 0 1 44100 <> filter_at LowPass 1000 0 1 48000 /\
  (* one frame at 44100 Hz leaves a state that is not the rest state *)
  svf_state (fst (run_history (filter_at LowPass 1000 0 1) (SSvf (fzero, fzero)) [(44100, [(1, 1)])])) <> (fzero, fzero).
Proof.
  assert (H1 : 0 < 44100 < 48000) by lra.
  assert (H2 : lit_1e4 <= 1000 / 48000) by (unfold lit_1e4; lra).
  assert (H3 : 1000 / 44100 < lit_half) by (unfold lit_half; lra).
  split; [exact H1|split; [exact H2|split; [exact H3|split]]].
  - apply filter_coeffs_follow_rate; assumption.
  - cbn [run_history]. unfold filter_at.
    rewrite filter_coeffs_R by (unfold lit_1e4, lit_half; lra).
    cbn [change_rate run_frames estep filter_step svf_core fst snd svf_state].
    set (g := prewarp 1000 44100). set (k := filter_k 0).
    assert (Hg : 0 < g) by (apply (prewarp_corner 1000 44100); lra).
    pose proof (filter_k_range 0) as Hk. fold k in Hk.
    intros E. injection E as E1 _ _ _. revert E1.
    unfold fzero, fr_sub, fr_add, fr_scale. cbn [fst snd oadd osub omul Ops_R]. change (oZ 2 : R) with 2.
    unfold svf_a2, svf_a1. intros E1.
    assert (0 < 1 + g * (g + k)) by nra.
    assert (0 < g * (1 / (1 + g * (g + k)))) by (apply Rmult_lt_0_compat; [lra|apply Rdiv_lt_0_compat; lra]).
    lra.
Qed.
