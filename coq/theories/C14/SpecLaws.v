(** C14 — textbook specifications of the memoryless effects, written independently of the code:
    the decibel law, the equal-power (square-root) panning law, the two clipping curves.
    Real numbers; nothing here mentions the effect models. *)
From Coq Require Import Reals Lra.
Local Open Scope R_scope.

(** ** decibels: a level of [db] decibels is the amplitude ratio 10^(db/20); kira documents
    that -60 dB and below is silence *)
Definition db_to_gain (db : R) : R := Rpower 10 (db / 20).
Definition spec_volume_gain (db : R) : R := if Rle_dec db (-60) then 0 else db_to_gain db.
(** the inverse direction (definition of the decibel): level of an amplitude ratio *)
Definition gain_to_db (a : R) : R := 20 * (ln a / ln 10).

(** ** equal-power panning, normalised to unity gain at the centre: for a position
    [p] in [-1, 1] the channel gains are sqrt(1 - p) and sqrt(1 + p); positions outside the
    range are clamped *)
Definition clampR (x lo hi : R) : R := Rmax lo (Rmin hi x).
Definition pan_gain_left (p : R) : R := sqrt (1 - clampR p (-1) 1).
Definition pan_gain_right (p : R) : R := sqrt (1 + clampR p (-1) 1).

(** ** clipping curves on a signal [v] (already multiplied by the drive) *)
Definition hard_clip_curve (v : R) : R := clampR v (-1) 1.
Definition soft_clip_curve (v : R) : R := v / (1 + Rabs v).
(** drive [d] (an amplitude > 0) is applied before the curve and undone after it *)
Definition spec_distortion (hard : bool) (d x : R) : R :=
  (if hard then hard_clip_curve (x * d) else soft_clip_curve (x * d)) / d.

(** wet/dry mixing as kira documents [Mix]: equal-power blend, wet * sqrt(mix) + dry * sqrt(1 - mix) *)
Definition spec_mix (wet dry mix : R) : R :=
  let m := clampR mix 0 1 in wet * sqrt m + dry * sqrt (1 - m).
