(** C04 — proofs about [Transport]: the invariant, the closed form of the loop wraps of increment /
    decrement (and of the seek before its repair), the refutations for each guard clause.  The seek
    as it is now, and the safety of every history, are in [C04.ProofsSeek]. *)
From Coq Require Import ZArith List Bool Lia.
From KV Require Import Base.Outcome C04.Transport.
Import ListNotations.
Local Open Scope Z_scope.

(** ** the invariant.  [B] bounds every quantity the transport can hold while playing: the
    length, the start position, every loop end.  The property's own guard is the instance
    [B = N]: start inside the sound, loop regions inside the sound. *)
Definition wf_loop (B : Z) (lr : option (Z * Z)) : Prop :=
  match lr with None => True | Some (ls, le) => 0 <= ls /\ ls < le /\ le <= B end.
Definition wf_transport (B : Z) (t : transport) : Prop :=
  0 <= t_pos t /\ (t_playing t = true -> t_pos t < B) /\ wf_loop B (t_loop t).
(** a requested region is any pair of [usize] values not beyond the bound: empty and inverted
    ones included (they are filtered out) *)
Definition req_loop (B : Z) (lr : option (Z * Z)) : Prop :=
  match lr with None => True | Some (ls, le) => 0 <= ls /\ le <= B end.
(** a seek target is ANY [usize] *)
Definition wf_top (B : Z) (o : top) : Prop :=
  match o with
  | TSeek p => 0 <= p <= u64_max
  | TSetLoop lr => req_loop B lr
  | _ => True
  end.

Lemma filter_region_wf : forall B lr, req_loop B lr -> wf_loop B (filter_region lr).
Proof.
  intros B [[ls le]|] H; cbn [filter_region]; [|exact I].
  destruct (Z.gtb_spec le ls); [|exact I]. cbn in *. lia.
Qed.

Lemma sub_chk_ok : forall a b, b <= a -> sub_chk a b = Ok (a - b).
Proof. intros a b H. unfold sub_chk. destruct (Z.ltb_spec a b); [lia | reflexivity]. Qed.
Lemma sub_chk_panic : forall a b, a < b -> sub_chk a b = Panic Overflow.
Proof. intros a b H. unfold sub_chk. destruct (Z.ltb_spec a b); [reflexivity | lia]. Qed.
Lemma add_chk_ok : forall a b, a + b <= u64_max -> add_chk a b = Ok (a + b).
Proof. intros a b H. unfold add_chk. destruct (Z.gtb_spec (a + b) u64_max); [lia | reflexivity]. Qed.

(** ** the three loops: termination within the bound, range and closed form of the result *)
Lemma wrap_down_spec : forall fuel p ls le,
  0 <= ls -> ls < le -> 0 <= p -> p < Z.of_nat fuel ->
  exists q, wrap_down fuel p ls le = Ok q /\ 0 <= q /\ q < le /\ q <= p /\
            (p < le -> q = p) /\ (le <= p -> q = ls + (p - ls) mod (le - ls)).
Proof.
  induction fuel as [|f IH]; intros p ls le Hls Hlt Hp Hf; [simpl in Hf; lia|].
  cbn [wrap_down]. destruct (Z.geb_spec p le) as [Hge|Hlt'].
  - rewrite (sub_chk_ok le ls) by lia. cbn [obind].
    rewrite (sub_chk_ok p (le - ls)) by lia. cbn [obind].
    destruct (IH (p - (le - ls)) ls le) as (q & Hq & Hq0 & Hq1 & Hq2 & Hq3 & Hq4); try lia.
    exists q. repeat split; try assumption; try lia.
    intros _. destruct (Z_lt_le_dec (p - (le - ls)) le) as [Hs|Hs].
    + rewrite (Hq3 Hs).
      replace (p - ls) with ((p - (le - ls) - ls) + 1 * (le - ls)) by lia.
      rewrite Z_mod_plus_full. rewrite Z.mod_small by lia. lia.
    + rewrite (Hq4 Hs).
      replace (p - ls) with ((p - (le - ls) - ls) + 1 * (le - ls)) by lia.
      rewrite Z_mod_plus_full. reflexivity.
  - exists p. repeat split; try lia.
Qed.

Lemma wrap_up_le_spec : forall fuel p ls le,
  0 <= ls -> ls < le -> le <= u64_max -> 0 <= p -> Z.max 0 (ls + 1 - p) < Z.of_nat fuel ->
  exists q, wrap_up_le fuel p ls le = Ok q /\ ls < q /\ p <= q /\
            (ls < p -> q = p) /\ (p <= ls -> q <= le /\ (q - p) mod (le - ls) = 0).
Proof.
  induction fuel as [|f IH]; intros p ls le Hls Hlt Hmax Hp Hf; [simpl in Hf; lia|].
  cbn [wrap_up_le]. destruct (Z.leb_spec p ls) as [Hle|Hgt].
  - rewrite (sub_chk_ok le ls) by lia. cbn [obind].
    rewrite (add_chk_ok p (le - ls)) by lia. cbn [obind].
    destruct (IH (p + (le - ls)) ls le) as (q & Hq & Hq0 & Hq1 & Hq2 & Hq3); try lia.
    exists q. repeat split; try assumption; try lia.
    destruct (Z_lt_le_dec ls (p + (le - ls))) as [Hs|Hs].
    + rewrite (Hq2 Hs). replace (p + (le - ls) - p) with (le - ls) by lia. apply Z_mod_same_full.
    + destruct (Hq3 Hs) as [_ Hm].
      replace (q - p) with ((q - (p + (le - ls))) + 1 * (le - ls)) by lia.
      rewrite Z_mod_plus_full. exact Hm.
  - exists p. repeat split; try lia.
Qed.

Lemma wrap_up_lt_spec : forall fuel p ls le,
  0 <= ls -> ls < le -> le <= u64_max -> 0 <= p -> Z.max 0 (ls + 1 - p) < Z.of_nat fuel ->
  exists q, wrap_up_lt fuel p ls le = Ok q /\ ls <= q /\ p <= q /\
            (ls <= p -> q = p) /\ (p < ls -> q < le /\ (q - p) mod (le - ls) = 0).
Proof.
  induction fuel as [|f IH]; intros p ls le Hls Hlt Hmax Hp Hf; [simpl in Hf; lia|].
  cbn [wrap_up_lt]. destruct (Z.ltb_spec p ls) as [Hle|Hgt].
  - rewrite (sub_chk_ok le ls) by lia. cbn [obind].
    rewrite (add_chk_ok p (le - ls)) by lia. cbn [obind].
    destruct (IH (p + (le - ls)) ls le) as (q & Hq & Hq0 & Hq1 & Hq2 & Hq3); try lia.
    exists q. repeat split; try assumption; try lia.
    destruct (Z_le_gt_dec ls (p + (le - ls))) as [Hs|Hs].
    + rewrite (Hq2 Hs). replace (p + (le - ls) - p) with (le - ls) by lia. apply Z_mod_same_full.
    + destruct (Hq3 ltac:(lia)) as [_ Hm].
      replace (q - p) with ((q - (p + (le - ls))) + 1 * (le - ls)) by lia.
      rewrite Z_mod_plus_full. exact Hm.
  - exists p. repeat split; try lia.
Qed.

(** ** one operation preserves the guard and neither panics nor hangs *)
Section Safe.
  Variable fuel : nat.
  Variables N B : Z.
  Hypothesis HNB : N <= B.
  Hypothesis HBmax : B < u64_max.
  Hypothesis Hfuel : B < Z.of_nat fuel.

  Lemma increment_safe : forall t, wf_transport B t ->
    exists t', increment_position fuel t N = Ok t' /\ wf_transport B t' /\ t_loop t' = t_loop t.
  Proof.
    intros [p lr pl] (Hp & Hpl & Hlr). cbn [t_pos t_loop t_playing] in *.
    unfold increment_position. cbn [t_pos t_loop t_playing].
    destruct pl; cbn [negb].
    2:{ eexists; split; [reflexivity|]. split; [|reflexivity]. repeat split; cbn; auto; try discriminate. }
    specialize (Hpl eq_refl).
    rewrite add_chk_ok by lia. cbn [obind].
    destruct lr as [[ls le]|].
    - destruct Hlr as (H0 & H1 & H2).
      destruct (wrap_down_spec fuel (p + 1) ls le) as (q & Hq & Hq0 & Hq1 & Hq2 & _); try lia.
      rewrite Hq. cbn [obind]. eexists; split; [reflexivity|]. split; [|reflexivity].
      repeat split; cbn [t_pos t_loop t_playing]; try lia.
      all: try (destruct (Z.geb_spec q N); [discriminate | lia]).
    - cbn [obind]. eexists; split; [reflexivity|]. split; [|reflexivity].
      repeat split; cbn [t_pos t_loop t_playing]; try lia.
      all: try (destruct (Z.geb_spec (p + 1) N); [discriminate | lia]).
  Qed.

  Lemma decrement_safe : forall t, wf_transport B t ->
    exists t', decrement_position fuel t = Ok t' /\ wf_transport B t' /\ t_loop t' = t_loop t.
  Proof.
    intros [p lr pl] (Hp & Hpl & Hlr). cbn [t_pos t_loop t_playing] in *.
    unfold decrement_position. cbn [t_pos t_loop t_playing].
    destruct pl; cbn [negb].
    2:{ eexists; split; [reflexivity|]. split; [|reflexivity]. repeat split; cbn; auto; try discriminate. }
    specialize (Hpl eq_refl).
    assert (Hgen : forall q, 0 <= q -> q <= B ->
      exists t', (if q =? 0 then Ok {| t_pos := q; t_loop := lr; t_playing := false |}
                  else Ok {| t_pos := q - 1; t_loop := lr; t_playing := true |}) = Ok t' /\
                 wf_transport B t' /\ t_loop t' = lr).
    { intros q Hq0 HqN. destruct (Z.eqb_spec q 0).
      - eexists; split; [reflexivity|]. split; [|reflexivity]. repeat split; cbn; try lia; auto; try discriminate.
      - eexists; split; [reflexivity|]. split; [|reflexivity]. repeat split; cbn; try lia; auto. }
    destruct lr as [[ls le]|].
    - destruct Hlr as (H0 & H1 & H2).
      destruct (wrap_up_le_spec fuel p ls le) as (q & Hq & Hq0 & Hq1 & Hq2 & Hq3); try lia.
      rewrite Hq. cbn [obind]. apply Hgen; [lia|].
      destruct (Z_lt_le_dec ls p) as [Hs|Hs]; [rewrite (Hq2 Hs); lia | destruct (Hq3 Hs); lia].
    - cbn [obind]. apply Hgen; lia.
  Qed.

End Safe.

(** [Transport::new]: any start position below the bound, any requested region *)
Lemma transport_new_safe : forall start lr reverse N B,
  0 <= start -> start < B -> N <= B -> req_loop B lr ->
  wf_transport B (transport_new start lr reverse N) /\
  t_loop (transport_new start lr reverse N) = filter_region lr /\
  (start < N ->
     t_pos (transport_new start lr reverse N) = (if reverse then N - 1 - start else start) /\
     t_playing (transport_new start lr reverse N) = true) /\
  (reverse = true -> N <= start ->
     t_pos (transport_new start lr reverse N) = 0 /\ t_playing (transport_new start lr reverse N) = false).
Proof.
  intros start lr reverse N B H0 H1 HNB Hlr. pose proof (filter_region_wf B lr Hlr) as Hf.
  unfold transport_new. destruct reverse.
  - destruct (Z.leb_spec 1 N) as [Ha|Ha]; destruct (Z.leb_spec start (N - 1)) as [Hb|Hb];
      cbn [andb t_pos t_loop t_playing].
    + split; [split; [cbn; lia|]; split; [cbn; intros; lia | exact Hf]|].
      split; [reflexivity|]. split; [intros; split; reflexivity | intros; lia].
    + split; [split; [cbn; lia|]; split; [cbn; discriminate | exact Hf]|].
      split; [reflexivity|]. split; [intros; lia | intros; split; reflexivity].
    + split; [split; [cbn; lia|]; split; [cbn; discriminate | exact Hf]|].
      split; [reflexivity|]. split; [intros; lia | intros; split; reflexivity].
    + split; [split; [cbn; lia|]; split; [cbn; discriminate | exact Hf]|].
      split; [reflexivity|]. split; [intros; lia | intros; split; reflexivity].
  - cbn [t_pos t_loop t_playing].
    split; [split; [cbn; lia|]; split; [cbn; intros; lia | exact Hf]|].
    split; [reflexivity|]. split; [intros; split; reflexivity | discriminate].
Qed.

(** ** what the repaired code does with the requests that used to hang or panic *)
Lemma filter_region_empty : forall ls le, le <= ls -> filter_region (Some (ls, le)) = None.
Proof. intros ls le H. cbn [filter_region]. destruct (Z.gtb_spec le ls); [lia | reflexivity]. Qed.
Lemma filter_region_keeps : forall ls le, ls < le -> filter_region (Some (ls, le)) = Some (ls, le).
Proof. intros ls le H. cbn [filter_region]. destruct (Z.gtb_spec le ls); [reflexivity | lia]. Qed.

(** the loops themselves still do not terminate on an empty region and underflow on an inverted
    one: the filter is what keeps such regions out of the transport *)
Lemma wrap_down_empty_hangs : forall fuel p ls, 0 <= p -> ls <= p -> wrap_down fuel p ls ls = Hang.
Proof.
  induction fuel as [|f IH]; intros p ls H0 H; [reflexivity|]. cbn [wrap_down].
  destruct (Z.geb_spec p ls); [|lia]. rewrite sub_chk_ok by lia. cbn [obind].
  rewrite sub_chk_ok by lia. cbn [obind]. replace (p - (ls - ls)) with p by lia. apply IH; assumption.
Qed.
Lemma wrap_down_inverted_panics : forall fuel p ls le, le < ls -> le <= p -> wrap_down (S fuel) p ls le = Panic Overflow.
Proof.
  intros fuel p ls le H1 H2. cbn [wrap_down]. destruct (Z.geb_spec p le); [|lia].
  rewrite sub_chk_panic by lia. reflexivity.
Qed.

Lemma transport_new_reverse_beyond_end : forall start lr N,
  0 <= start -> N <= start ->
  transport_new start lr true N = {| t_pos := 0; t_loop := filter_region lr; t_playing := false |}.
Proof.
  intros start lr N H0 H1. unfold transport_new.
  destruct (Z.leb_spec 1 N); destruct (Z.leb_spec start (N - 1)); cbn [andb]; try reflexivity; lia.
Qed.
