(** C04 — [StaticSoundData] (sound/static_sound/data.rs, static_sound.rs helpers) and
    [PlaybackPosition::into_samples] (sound/playback_position.rs), [Region] (sound.rs). *)
From Coq Require Import ZArith List Bool.
From KV Require Import Base.Outcome Base.Num C06.Model.
Local Open Scope Z_scope.

Section Pos.
  Context {T : Type} {NT : Num T}.

  Inductive ppos := Seconds (s : T) | Samples (n : Z).
  (** [PlaybackPosition::into_samples]: [(seconds * sample_rate as f64).round() as usize] *)
  Definition into_samples (p : ppos) (sample_rate : Z) : Z :=
    match p with
    | Seconds s => ntoU64 (nround (nmul s (nofZ sample_rate)))
    | Samples n => n
    end.
  Inductive endpos := EndOfAudio | Custom (p : ppos).
  Record region := { rg_start : ppos; rg_end : endpos }.
  (** the closure of [Transport::new] / [set_loop_region] / [StaticSoundData::slice] *)
  Definition region_samples (r : region) (sample_rate num_frames : Z) : Z * Z :=
    (into_samples (rg_start r) sample_rate,
     match rg_end r with EndOfAudio => num_frames | Custom e => into_samples e sample_rate end).
End Pos.
Arguments ppos : clear implicits.
Arguments endpos : clear implicits.
Arguments region : clear implicits.

Section Data.
  Variable A : Type.
  (** [Arc<[Frame]>]: a length and an accessor; indexing is bounds-checked *)
  Record source := { src_len : Z; src_get : Z -> A }.
  Definition src_index (s : source) (i : Z) : outcome A :=
    if (0 <=? i) && (i <? src_len s) then Ok (src_get s i) else Panic OutOfBounds.

  (** [num_frames(frames, slice)]: [end.min(frames.len()).saturating_sub(start)] *)
  Definition num_frames (s : source) (slice : option (Z * Z)) : Z :=
    match slice with
    | Some (st, en) => sat_sub (Z.min en (src_len s)) st
    | None => src_len s
    end.
  (** [frame_at_index(index, frames, slice)] *)
  Definition frame_at_index (index : Z) (s : source) (slice : option (Z * Z)) : outcome (option A) :=
    let n := num_frames s slice in
    if index >=? n then Ok None
    else
      let start := match slice with Some (st, _) => st | None => 0 end in
      let! i := add_chk index start in
      let! f := src_index s i in
      Ok (Some f).
End Data.
Arguments src_len {A}.
Arguments src_get {A}.
Arguments Build_source {A}.
Arguments src_index {A}.
Arguments num_frames {A}.
Arguments frame_at_index {A}.

Section Duration.
  Context {T : Type} {NT : Num T} {ND : NumDur T}.
  (** [StaticSoundData::duration]: [Duration::from_secs_f64(num_frames as f64 / sample_rate as f64)] (ns) *)
  Definition duration {A} (s : source A) (slice : option (Z * Z)) (sample_rate : Z) : outcome Z :=
    let n := num_frames s slice in
    secs_to_ns (ndiv (nofZ n) (nofZ sample_rate)).
End Duration.
