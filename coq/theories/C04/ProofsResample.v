(** C04 — the resampling law in exact arithmetic (time type Q): one output frame is the
    interpolation of the current window at the current fraction; adding the increment and
    carrying performs exactly floor(fraction + increment) position updates and leaves the
    fractional part. *)
From Coq Require Import ZArith QArith Qround List Bool Lia Lqa.
From KV Require Import Base.Outcome Base.Num Base.QLemmas C19.Model C06.Model.
From KV Require Import C04.Transport C04.Resampler C04.StaticData C04.StaticSound C04.ProofsTransport C04.ProofsSound.
Import ListNotations.

Section Resample.
  Variable A : Type.
  Variable azero : A.
  Variable F : Type.
  Variable interp : A -> A -> A -> A -> F -> A.
  Variable cast : Q -> F.
  Variable ascale : A -> F -> A.
  Variable fone : F.
  Variable fuel : nat.
  Variable B : Z.

  Notation upd := (update_position A azero fuel).
  Notation SI := (SInv A fuel B).

  (** [update_position] neither reads nor writes the fractional position *)
  Lemma upd_set_fpos : forall (s : ssound Q A) x,
    upd (set_fpos A s x) = omap (fun s' => set_fpos A s' x) (upd s).
  Proof.
    intros s x. unfold update_position, push_frame_to_resampler, is_playing_backwards.
    cbn [set_fpos set_rs s_tr s_src s_slice s_rs s_rate s_reverse].
    destruct (t_playing (s_tr s)); [destruct (frame_at_index _ _ _) as [fo| |]|]; cbn [obind omap]; try reflexivity;
      cbn [set_fpos set_rs s_tr s_src s_slice s_rs s_rate s_reverse];
      (match goal with |- context [obind ?X _] => destruct X as [t| |] end; cbn [obind omap]; try reflexivity;
       cbn [set_tr set_rs s_tr s_rs]; destruct (_ && _); reflexivity).
  Qed.

  Lemma SInv_set_fpos : forall (s : ssound Q A) x, SI s -> SI (set_fpos A s x).
  Proof. intros s x H. exact H. Qed.

  (** the carry loop: floor(f) updates, fraction f - floor(f) *)
  Lemma carry_Q : forall fl (s : ssound Q A),
    SI s -> 0 <= s_fpos s -> (Qfloor (s_fpos s) < Z.of_nat fl)%Z ->
    exists s1 s',
      update_n A azero fuel (Z.to_nat (Qfloor (s_fpos s))) s = Ok s1 /\
      carry A azero fuel fl s = Ok s' /\ SI s' /\
      s' = set_fpos A s1 (s_fpos s') /\
      s_fpos s' == s_fpos s - inject_Z (Qfloor (s_fpos s)) /\ 0 <= s_fpos s' /\ s_fpos s' < 1.
  Proof.
    induction fl as [|fl IH]; intros s Hs H0 Hfl.
    - exfalso. destruct (Qfloor_bounds (s_fpos s)) as [L1 L2].
      assert (-1 < Qfloor (s_fpos s))%Z by (rewrite Zlt_Qlt; change (inject_Z (-1)) with (-1#1); lra).
      simpl in Hfl. lia.
    - cbn [carry]. cbn [nleb n1 nsub Num_Q].
      destruct (Qle_bool 1 (s_fpos s)) eqn:E.
      + apply Qle_bool_iff in E.
        assert (Hf' : Qred (s_fpos s - 1) == s_fpos s - 1) by apply Qred_correct.
        assert (Hfl' : Qfloor (Qred (s_fpos s - 1)) = (Qfloor (s_fpos s) - 1)%Z).
        { destruct (Qfloor_bounds (s_fpos s)) as [L1 L2]. apply Qfloor_unique; rewrite Hf';
            unfold Z.sub; rewrite inject_Z_plus; change (inject_Z (- (1))) with (-1#1); lra. }
        rewrite upd_set_fpos.
        destruct (update_position_spec A azero fuel B s Hs) as (t' & _ & _ & _ & Hu & Hi).
        rewrite Hu. cbn [omap obind].
        set (s2 := finish A _) in *.
        destruct (IH (set_fpos A s2 (Qred (s_fpos s - 1)))) as (s1 & s' & Hn & Hc & Hs' & Heq & Hfr & Hlo & Hhi).
        * exact Hi.
        * cbn [set_fpos s_fpos]. rewrite Hf'. lra.
        * cbn [set_fpos s_fpos]. rewrite Hfl'. lia.
        * cbn [set_fpos s_fpos] in *.
          assert (Hpos : (0 < Qfloor (s_fpos s))%Z).
          { destruct (Qfloor_bounds (s_fpos s)) as [L1 L2]. rewrite Zlt_Qlt. change (inject_Z 0) with 0. lra. }
          destruct (update_n_safe A azero fuel B (Z.to_nat (Qfloor (s_fpos s) - 1)) s2 Hi) as (s1' & Hn' & _).
          exists s1', s'. 
          split.
          { replace (Z.to_nat (Qfloor (s_fpos s))) with (S (Z.to_nat (Qfloor (s_fpos s) - 1))) by lia.
            cbn [update_n]. rewrite Hu. cbn [obind]. exact Hn'. }
          split; [exact Hc|]. split; [exact Hs'|].
          split.
          { rewrite Heq. rewrite Hfl' in Hn.
            clear - Hn Hn'.
            assert (G : forall k (a : ssound Q A) x r, update_n A azero fuel k (set_fpos A a x) = Ok r ->
                         forall r', update_n A azero fuel k a = Ok r' -> forall y, set_fpos A r y = set_fpos A r' y).
            { induction k as [|k IHk]; intros a x r Hr r' Hr' y.
              - cbn in *. inversion Hr; inversion Hr'; subst. reflexivity.
              - cbn [update_n] in *. rewrite upd_set_fpos in Hr.
                destruct (upd a) as [a'| |]; cbn [omap obind] in *; try discriminate.
                eapply IHk; eassumption. }
            apply (G _ _ _ _ Hn _ Hn'). }
          split; [|split; assumption].
          rewrite Hfr, Hfl', Hf'. unfold Z.sub. rewrite inject_Z_plus. change (inject_Z (- (1))) with (-1#1). lra.
      + assert (Hlt : s_fpos s < 1).
        { apply Qnot_le_lt. intros C. apply Qle_bool_iff in C. congruence. }
        assert (Hz : Qfloor (s_fpos s) = 0%Z).
        { apply Qfloor_unique; change (inject_Z 0) with 0; lra. }
        exists s, s. rewrite Hz. cbn [Z.to_nat update_n].
        split; [reflexivity|]. split; [reflexivity|]. split; [exact Hs|].
        split; [destruct s; reflexivity|]. split; [change (inject_Z 0) with 0; lra|]. split; assumption.
  Qed.

  (** one output frame: the interpolation of the current window at the current fraction; then
      floor(fraction + increment) position updates, and the fractional part remains *)
  Lemma frame_step_Q : forall (s : ssound Q A) (inc : Q),
    SI s -> 0 <= s_fpos s -> 0 <= inc -> (Qfloor (s_fpos s + inc) < Z.of_nat fuel)%Z ->
    exists s1 s',
      update_n A azero fuel (Z.to_nat (Qfloor (s_fpos s + inc))) (set_fpos A s (Qred (s_fpos s + inc))) = Ok s1 /\
      frame_step A azero F interp cast ascale fone fuel s inc =
        Ok (s', ascale (ascale (resampler_get interp (s_rs s) (cast (s_fpos s))) fone) fone) /\
      SI s' /\ s' = set_fpos A s1 (s_fpos s') /\
      s_fpos s' == s_fpos s + inc - inject_Z (Qfloor (s_fpos s + inc)) /\ 0 <= s_fpos s' /\ s_fpos s' < 1.
  Proof.
    intros s inc Hs H0 Hi Hfl. unfold frame_step. cbn [nadd Num_Q].
    assert (Hr : Qred (s_fpos s + inc) == s_fpos s + inc) by apply Qred_correct.
    assert (Hfe : Qfloor (Qred (s_fpos s + inc)) = Qfloor (s_fpos s + inc)) by (apply Qfloor_comp; exact Hr).
    destruct (carry_Q fuel (set_fpos A s (Qred (s_fpos s + inc)))) as (s1 & s' & Hn & Hc & Hs' & Heq & Hfr & Hlo & Hhi).
    - exact Hs.
    - cbn [set_fpos s_fpos]. rewrite Hr. lra.
    - cbn [set_fpos s_fpos]. rewrite Hfe. exact Hfl.
    - cbn [set_fpos s_fpos] in Hn, Hfr. rewrite Hfe in Hn, Hfr. exists s1, s'.
      split; [exact Hn|]. split; [rewrite Hc; reflexivity|]. split; [exact Hs'|]. split; [exact Heq|].
      split; [rewrite Hfr, Hr; reflexivity|]. split; assumption.
  Qed.
End Resample.
