(** C04 — [Transport::seek_to] (crates/kira/src/sound/transport.rs) after the repairs of F40 and F24.

    [C04.Transport] is left as it was: its [transport_seek_to] (with fuel) transcribes the
    seek as it stood BEFORE the repairs — `while position >= loop_end { position -= loop_end -
    loop_start }` and its mirror, [playing] only ever cleared — and is kept as the counter-model,
    here under the name [transport_seek_to_old] (C07's decoder model still applies it under its
    old name; the two coincide wherever the loops returned: [seek_to_wrap_agrees_with_loop]).

    This file is the seek that exists now.  Import it AFTER [C04.Transport]: [transport_seek_to],
    [tstep] and [trun] below take the place of the definitions of the same names there.

      if let Some((loop_start, loop_end)) = self.loop_region {
          if position > self.position {
              if position >= loop_end {
                  position = loop_start + (position - loop_start) % (loop_end - loop_start);
              }
          } else if position < loop_start {
              position = loop_end - 1 - (loop_start - 1 - position) % (loop_end - loop_start);
          }
      }
      self.position = position;
      self.playing = self.position < num_frames;

    No loop, hence no fuel.  Every [usize] operation is checked as in a debug build. *)
From Coq Require Import ZArith List Bool.
From KV Require Import Base.Outcome C04.Transport.
Local Open Scope Z_scope.

(** the seek before the repairs (counter-model) *)
Notation transport_seek_to_old := C04.Transport.transport_seek_to.
Notation tstep_old := C04.Transport.tstep.
Notation trun_old := C04.Transport.trun.

(** [a % b] on [usize]: "attempt to calculate the remainder with a divisor of zero" *)
Definition rem_chk (a b : Z) : outcome Z :=
  if b =? 0 then Panic OtherPanic else Ok (a mod b).

(** the wrap of the target into the loop region; [cur] is [self.position] *)
Definition seek_wrap (cur position ls le : Z) : outcome Z :=
  if position >? cur then
    if position >=? le then
      (* loop_start + (position - loop_start) % (loop_end - loop_start) *)
      let! a := sub_chk position ls in
      let! d := sub_chk le ls in
      let! r := rem_chk a d in
      add_chk ls r
    else Ok position
  else if position <? ls then
    (* loop_end - 1 - (loop_start - 1 - position) % (loop_end - loop_start) *)
    let! a := sub_chk le 1 in
    let! b := sub_chk ls 1 in
    let! c := sub_chk b position in
    let! d := sub_chk le ls in
    let! r := rem_chk c d in
    sub_chk a r
  else Ok position.

(** [Transport::seek_to].  [playing] is set from the landing position (F24: it used to be cleared
    only, so a transport that had reached the end stayed stopped whatever the target) *)
Definition transport_seek_to (t : transport) (position num_frames : Z) : outcome transport :=
  let! p := match t_loop t with
            | Some (ls, le) => seek_wrap (t_pos t) position ls le
            | None => Ok position
            end in
  Ok {| t_pos := p; t_loop := t_loop t; t_playing := p <? num_frames |}.

(** the seek with the repair of F40 only (the wrap in constant time, [playing] still only ever
    cleared): the intermediate commit, and the term with which the old loops agree exactly *)
Definition transport_seek_to_wrap_only (t : transport) (position num_frames : Z) : outcome transport :=
  let! p := match t_loop t with
            | Some (ls, le) => seek_wrap (t_pos t) position ls le
            | None => Ok position
            end in
  Ok {| t_pos := p; t_loop := t_loop t;
        t_playing := if p >=? num_frames then false else t_playing t |}.

(** histories of transport operations ([fuel] bounds the wraps of increment / decrement only) *)
Section Fuel.
  Variable fuel : nat.
  Definition tstep (num_frames : Z) (t : transport) (o : top) : outcome transport :=
    match o with
    | TInc => increment_position fuel t num_frames
    | TDec => decrement_position fuel t
    | TSeek p => transport_seek_to t p num_frames
    | TSetLoop lr => Ok (transport_set_loop_region t lr)
    end.
  Fixpoint trun (num_frames : Z) (t : transport) (ops : list top) : outcome transport :=
    match ops with
    | nil => Ok t
    | o :: ops' => let! t' := tstep num_frames t o in trun num_frames t' ops'
    end.
End Fuel.
