(** C04 — model side of the correspondence check. *)
From Coq Require Import ZArith List Bool.
From Flocq Require Import IEEE754.BinarySingleNaN.
From KV Require Import Base.IEEE Base.Outcome Base.Num Base.Corr C19.Model C19.Run C06.Model C06.Dur C04.Model.
Import ListNotations.
Local Open Scope Z_scope.

Inductive rpos := PSec (bits : Z) | PSmp (n : Z).
Inductive rend := EEnd | ECus (p : rpos).
Inductive rcmd :=
| KRate (v dur_ns : Z)                 (* set_playback_rate(v, Tween { Immediate, dur, Linear }) *)
| KLoop (start : rpos) (e : rend)      (* set_loop_region(Region) *)
| KNoLoop                              (* set_loop_region(None) *)
| KSeekBy (a : Z) | KSeekTo (p : Z).
(** one callback: commands written to the handle before it, then [on_start_processing] and
    [process] on [len] frames with the given [dt] *)
Inductive rstep := Proc (cs : list rcmd) (len dt : Z).
Inductive rsrc :=
| SrcIdx (n : Z)                       (* harness::backend::indexed_frame *)
| SrcPoi (n lo hi : Z)                 (* index-coded inside [lo, hi), NaN outside: a read outside the slice poisons the output *)
| SrcBits (l : list (Z * Z)).
Inductive case :=
| CPlay (fast : bool) (sr : Z) (src : rsrc) (slice : option (Z * Z)) (start : rpos)
        (lp : option (rpos * rend)) (rev : bool) (rate : Z) (steps : list rstep)
| CDur (sr n : Z) (slice : option (Z * Z))
| CInterp (p c n1 n2 : Z * Z) (x : Z).

Definition mk_pos (p : rpos) : ppos f64 := match p with PSec b => Seconds (f64_of_bits b) | PSmp n => Samples n end.
Definition mk_end (e : rend) : endpos f64 := match e with EEnd => EndOfAudio | ECus p => Custom (mk_pos p) end.
Definition mk_region (s : rpos) (e : rend) : region f64 := {| rg_start := mk_pos s; rg_end := mk_end e |}.

(** frame i of the index-coded sound: ((i+1) * 2^-16, -(i+1) * 2^-16 + 2^-20) in binary32 *)
Definition indexed_frame (i : Z) : frame32 :=
  let x := div32 (add32 (Z32 i) (Z32 1)) (Z32 65536) in
  (x, add32 (neg32 x) (div32 (Z32 1) (Z32 1048576))).
Definition mk_frame (lr : Z * Z) : frame32 := (f32_of_bits (fst lr), f32_of_bits (snd lr)).
Definition mk_src (s : rsrc) : source frame32 :=
  match s with
  | SrcIdx n => {| src_len := n; src_get := indexed_frame |}
  | SrcPoi n lo hi => {| src_len := n;
                         src_get := fun i => if (lo <=? i) && (i <? hi) then indexed_frame i
                                             else (B754_nan, B754_nan) |}
  | SrcBits l => {| src_len := Z.of_nat (length l);
                    src_get := fun i => mk_frame (nth (Z.to_nat i) l (0, 0)) |}
  end.

(** checked fast path of the interpolation at fraction +0.0: for finite inputs below 2^114 and
    [current] not -0.0 the result is [current] (theorem [interp_zero_b32] of C04.Props) *)
Definition small32 (x : f32) : bool :=
  match x with
  | B754_zero _ => true
  | B754_finite _ _ e _ => e <=? 90
  | _ => false
  end.
Definition not_negzero (x : f32) : bool := match x with B754_zero true => false | _ => true end.
Definition interp1_fast (p c n1 n2 x : f32) : f32 :=
  match x with
  | B754_zero false =>
      if small32 p && small32 c && small32 n1 && small32 n2 && not_negzero c then c
      else interp1 p c n1 n2 x
  | _ => interp1 p c n1 n2 x
  end.
Definition interpolate_fast (p c n1 n2 : frame32) (x : f32) : frame32 :=
  (interp1_fast (fst p) (fst c) (fst n1) (fst n2) x, interp1_fast (snd p) (snd c) (snd n1) (snd n2) x).
(** [x * 1.0] for the fade / volume amplitudes: identity on non-NaN values (checked fast path) *)
Definition scale_fast (f : frame32) (a : f32) : frame32 :=
  if eq32 a (Z32 1) then f else frame_scale f a.

Section Go.
  Variable fast : bool.
  Variable fuel : nat.
  Let interp := if fast then interpolate_fast else @interpolate_frame f32 _.
  Let scale := if fast then scale_fast else @frame_scale f32 _.
  Let tab : list (Z * Z * Z) := [].

  Definition mk_cmds (cs : list rcmd) : cmds f64 :=
    fold_left (fun c k =>
      match k with
      | KRate v d => {| c_rate := Some (f64_of_bits v, {| tw_start := Immediate; tw_dur := d; tw_easing := Linear |});
                        c_loop := c_loop c; c_seek_by := c_seek_by c; c_seek_to := c_seek_to c |}
      | KLoop s e => {| c_rate := c_rate c; c_loop := Some (Some (mk_region s e));
                        c_seek_by := c_seek_by c; c_seek_to := c_seek_to c |}
      | KNoLoop => {| c_rate := c_rate c; c_loop := Some None; c_seek_by := c_seek_by c; c_seek_to := c_seek_to c |}
      | KSeekBy a => {| c_rate := c_rate c; c_loop := c_loop c; c_seek_by := Some (f64_of_bits a); c_seek_to := c_seek_to c |}
      | KSeekTo p => {| c_rate := c_rate c; c_loop := c_loop c; c_seek_by := c_seek_by c; c_seek_to := Some (f64_of_bits p) |}
      end) cs no_cmds.

  Definition enc_frames (l : list frame32) : list Z :=
    flat_map (fun f : frame32 => [bits_of_f32 (fst f); bits_of_f32 (snd f)]) l.

  Fixpoint go (s : ssound_b) (steps : list rstep) : list Z :=
    match steps with
    | [] => []
    | Proc cs len dt :: rest =>
        match (let! s1 := on_start_processing frame32 frame_zero s (mk_cmds cs) in
               process (powf64_tab tab) frame32 frame_zero f32 interp f64_to_f32 scale (Z32 1) fuel s1 len (f64_of_bits dt)) with
        | Ok (s2, outs) => enc_frames outs ++ sh_state s2 :: bits_of_f64 (sh_pos s2) :: go s2 rest
        | Panic k => [1000 + panic_code k]
        | Hang => [2000]
        end
    end.
End Go.

(** iterations any one loop may take before the model calls it a hang (the harness keeps
    terminating loops well below this) *)
Definition run_fuel : nat := Z.to_nat 20000.

Definition run (c : case) : list Z :=
  match c with
  | CPlay fast sr src slice start lp rev rate steps =>
      let fuel := run_fuel in
      let d := {| d_sr := sr; d_src := mk_src src; d_slice := slice;
                  d_settings := {| st_start := mk_pos start;
                                   st_loop := option_map (fun '(s, e) => mk_region s e) lp;
                                   st_reverse := rev; st_rate := f64_of_bits rate |} |} in
      match sound_new frame32 frame_zero fuel d with
      | Ok s => 0 :: sh_state s :: bits_of_f64 (sh_pos s) :: go fast fuel s steps
      | Panic k => [1; panic_code k]
      | Hang => [2]
      end
  | CDur sr n slice =>
      encode_outcome (fun ns => [ns]) (duration {| src_len := n; src_get := fun _ => tt |} slice sr)
  | CInterp p c n1 n2 x =>
      let f := interpolate_frame (mk_frame p) (mk_frame c) (mk_frame n1) (mk_frame n2) (f32_of_bits x) in
      [bits_of_f32 (fst f); bits_of_f32 (snd f)]
  end.
