(** C04 — the static sound's [Resampler] (sound/static_sound/sound/resampler.rs): a window of
    the four most recently pushed (frame, source index) pairs. *)
From Coq Require Import ZArith.
From KV Require Import Base.Outcome.
Local Open Scope Z_scope.

Section Resampler.
  Variable A : Type.          (* Frame *)
  Variable azero : A.         (* Frame::ZERO *)
  Variable F : Type.          (* f32 *)
  Variable interp : A -> A -> A -> A -> F -> A.   (* interpolate_frame *)

  Record recent := { rf_frame : A; rf_index : Z }.
  Record resampler := { r_0 : recent; r_1 : recent; r_2 : recent; r_3 : recent; r_tue : Z }.

  (** [Resampler::new] *)
  Definition resampler_new (starting_frame_index : Z) : resampler :=
    let z := {| rf_frame := azero; rf_index := starting_frame_index |} in
    {| r_0 := z; r_1 := z; r_2 := z; r_3 := z; r_tue := 0 |}.

  (** [Resampler::push_frame] *)
  Definition push_frame (r : resampler) (frame : option A) (sample_index : Z) : resampler :=
    let tue := match frame with Some _ => 4 | None => sat_sub (r_tue r) 1 end in
    let f := match frame with Some f => f | None => azero end in
    {| r_0 := r_1 r; r_1 := r_2 r; r_2 := r_3 r;
       r_3 := {| rf_frame := f; rf_index := sample_index |}; r_tue := tue |}.

  (** [Resampler::get] *)
  Definition resampler_get (r : resampler) (fractional_position : F) : A :=
    interp (rf_frame (r_0 r)) (rf_frame (r_1 r)) (rf_frame (r_2 r)) (rf_frame (r_3 r)) fractional_position.

  (** [Resampler::current_frame_index] *)
  Definition current_frame_index (r : resampler) : Z := rf_index (r_1 r).
  (** [Resampler::empty] *)
  Definition resampler_empty (r : resampler) : bool := r_tue r =? 0.
End Resampler.

Arguments rf_frame {A}.
Arguments rf_index {A}.
Arguments Build_recent {A}.
Arguments r_0 {A}.
Arguments r_1 {A}.
Arguments r_2 {A}.
Arguments r_3 {A}.
Arguments r_tue {A}.
Arguments Build_resampler {A}.
Arguments resampler_new {A}.
Arguments push_frame {A}.
Arguments resampler_get {A F}.
Arguments current_frame_index {A}.
Arguments resampler_empty {A}.
