(** C04 — proofs about the static sound: what [update_position] does exactly (one in-slice
    read, one transport step, the Stopped rule), unit-rate frame steps, where [position()] and
    the seeks are measured from. *)
From Coq Require Import ZArith QArith List Bool Lia.
From KV Require Import Base.Outcome Base.Num C19.Model C06.Model.
From KV Require Import C04.Transport C04.TransportSeek C04.Resampler C04.StaticData C04.StaticSound C04.ProofsTransport C04.ProofsSeek.
Import ListNotations.
Local Open Scope Z_scope.

Section Sound.
  Context {T : Type} {NT : Num T}.
  Variable A : Type.
  Variable azero : A.
  Variable F : Type.
  Variable interp : A -> A -> A -> A -> F -> A.
  Variable cast : T -> F.
  Variable ascale : A -> F -> A.
  Variable fone : F.
  Variable fuel : nat.

  Variable B : Z.           (* bound on everything the transport can hold, see ProofsTransport *)

  (** ** the slice: ANY pair of [usize] values; it is clipped to the audio that exists *)
  Definition slice_ok (src : source A) (slice : option (Z * Z)) : Prop :=
    0 <= src_len src /\ src_len src < u64_max /\
    match slice with Some (a, b) => 0 <= a | None => True end.
  Definition soff (slice : option (Z * Z)) : Z := match slice with Some (a, _) => a | None => 0 end.
  Definition send (src : source A) (slice : option (Z * Z)) : Z :=
    match slice with Some (_, b) => Z.min b (src_len src) | None => src_len src end.

  Lemma num_frames_range : forall src slice, slice_ok src slice ->
    0 <= num_frames src slice /\ num_frames src slice < u64_max /\
    (0 < num_frames src slice -> soff slice + num_frames src slice = send src slice).
  Proof.
    intros src [[a b]|] (H0 & Hm & Ha); cbn [num_frames soff send]; unfold sat_sub; lia.
  Qed.
  (** inside the sound, [frame_at_index i] is [frames[slice.start + i]], and that is inside the
      slice and inside the audio *)
  Lemma frame_at_index_ok : forall src slice i, slice_ok src slice -> 0 <= i -> i < num_frames src slice ->
    frame_at_index i src slice = Ok (Some (src_get src (soff slice + i))) /\
    soff slice <= soff slice + i /\ soff slice + i < send src slice /\ send src slice <= src_len src.
  Proof.
    intros src slice i Hok Hi0 Hi. unfold frame_at_index.
    destruct (Z.geb_spec i (num_frames src slice)); [lia|].
    destruct (num_frames_range _ _ Hok) as (Hn0 & Hnm & Hs). specialize (Hs ltac:(lia)).
    destruct Hok as (Hl0 & Hm & Ha).
    assert (Hb : 0 <= soff slice /\ send src slice <= src_len src).
    { destruct slice as [[a b]|]; cbn [soff send] in *; lia. }
    replace (match slice with Some (st, _) => st | None => 0 end) with (soff slice) by reflexivity.
    rewrite add_chk_ok by lia. cbn [obind]. unfold src_index.
    destruct (Z.leb_spec 0 (i + soff slice)); [|lia].
    destruct (Z.ltb_spec (i + soff slice) (src_len src)); [|lia].
    cbn [andb obind]. rewrite (Z.add_comm i). split; [reflexivity | lia].
  Qed.
  Lemma frame_at_index_beyond : forall (src : source A) slice i, num_frames src slice <= i ->
    frame_at_index i src slice = Ok None.
  Proof.
    intros src slice i Hi. unfold frame_at_index.
    destruct (Z.geb_spec i (num_frames src slice)); [reflexivity | lia].
  Qed.

  (** ** the invariant of a running sound *)
  Definition NS (s : ssound T A) : Z := num_frames (s_src s) (s_slice s).
  Definition SInv (s : ssound T A) : Prop :=
    slice_ok (s_src s) (s_slice s) /\ NS s <= B /\ B < u64_max /\ B < Z.of_nat fuel /\
    wf_transport B (s_tr s).

  (** what the next push reads: the source frame under the transport, if it is playing
      (a playing transport outside the sound — start position or loop end beyond it — reads nothing) *)
  Definition pushed (s : ssound T A) : option A :=
    if t_playing (s_tr s) then
      Some (if t_pos (s_tr s) <? NS s then src_get (s_src s) (soff (s_slice s) + t_pos (s_tr s)) else azero)
    else None.

  (** the only source access of the sound: at most one read, at [slice.start + position], inside
      the slice and inside the audio *)
  Lemma push_reads_inside : forall s, SInv s ->
    push_frame_to_resampler A azero s = Ok (set_rs A s (push_frame azero (s_rs s) (pushed s) (t_pos (s_tr s)))) /\
    (t_playing (s_tr s) = true -> t_pos (s_tr s) < NS s ->
       soff (s_slice s) <= soff (s_slice s) + t_pos (s_tr s) < send (s_src s) (s_slice s) /\
       send (s_src s) (s_slice s) <= src_len (s_src s)).
  Proof.
    intros s (Hok & _ & _ & _ & Hp0 & Hpl & Hlr). unfold push_frame_to_resampler, pushed.
    destruct (t_playing (s_tr s)) eqn:E.
    - destruct (Z.ltb_spec (t_pos (s_tr s)) (NS s)) as [Hin|Hout].
      + destruct (frame_at_index_ok _ _ (t_pos (s_tr s)) Hok Hp0 Hin) as (Hf & Hb).
        rewrite Hf. cbn [obind]. split; [reflexivity|]. intros _ _. lia.
      + rewrite frame_at_index_beyond by exact Hout. cbn [obind]. split; [reflexivity|]. intros _ H; unfold NS in *; lia.
    - cbn [obind]. split; [reflexivity | discriminate].
  Qed.

  (** the Stopped rule at the end of [update_position] *)
  Definition finish (s : ssound T A) : ssound T A :=
    if negb (t_playing (s_tr s)) && resampler_empty (s_rs s) then mark_stopped A s else s.

  (** [update_position] = one in-slice read pushed to the window, one transport step in the
      current direction, the Stopped rule; it preserves the invariant and cannot fail *)
  Lemma update_position_spec : forall s, SInv s ->
    exists t',
      (if is_playing_backwards A s then decrement_position fuel (s_tr s)
       else increment_position fuel (s_tr s) (NS s)) = Ok t' /\
      wf_transport B t' /\ t_loop t' = t_loop (s_tr s) /\
      update_position A azero fuel s =
        Ok (finish (set_tr A (set_rs A s (push_frame azero (s_rs s) (pushed s) (t_pos (s_tr s)))) t')) /\
      SInv (finish (set_tr A (set_rs A s (push_frame azero (s_rs s) (pushed s) (t_pos (s_tr s)))) t')).
  Proof.
    intros s Hinv. pose proof Hinv as (Hok & HNB & HBm & Hfuel & Hwf).
    unfold update_position. destruct (push_reads_inside s Hinv) as [Hpush _]. rewrite Hpush. cbn [obind].
    replace (is_playing_backwards A (set_rs A s _)) with (is_playing_backwards A s) by reflexivity.
    cbn [set_rs s_tr s_src s_slice]. fold (NS s).
    assert (Hstep : exists t', (if is_playing_backwards A s then decrement_position fuel (s_tr s)
                                else increment_position fuel (s_tr s) (NS s)) = Ok t' /\
                               wf_transport B t' /\ t_loop t' = t_loop (s_tr s)).
    { destruct (is_playing_backwards A s).
      - apply decrement_safe; auto.
      - apply increment_safe; auto. }
    destruct Hstep as (t' & Ht' & Hwf' & Hl'). exists t'.
    split; [exact Ht'|]. split; [exact Hwf'|]. split; [exact Hl'|].
    rewrite Ht'. cbn [obind]. split.
    - unfold finish. cbn [set_tr set_rs s_tr s_rs].
      destruct (negb (t_playing t') && resampler_empty _); reflexivity.
    - unfold finish, SInv, NS. cbn [set_tr set_rs s_tr s_rs s_src s_slice].
      destruct (negb (t_playing t') && resampler_empty _); cbn [mark_stopped set_tr set_rs s_tr s_rs s_src s_slice];
        (split; [exact Hok|]; split; [exact HNB|]; split; [exact HBm|]; split; [exact Hfuel | exact Hwf']).
  Qed.

  Lemma update_n_safe : forall k s, SInv s -> exists s', update_n A azero fuel k s = Ok s' /\ SInv s'.
  Proof.
    induction k as [|k IH]; intros s Hs; [exists s; split; [reflexivity | assumption]|].
    cbn [update_n]. destruct (update_position_spec s Hs) as (t' & _ & _ & _ & Hu & Hi).
    rewrite Hu. cbn [obind]. apply IH. exact Hi.
  Qed.

  (** ** unit increments: exactly one position update per output frame, the fraction stays 0.
      The four facts about the time type hold in binary64 and in Q (closed computations). *)
  Section Unit.
    Hypothesis U1 : nadd n0 n1 = n1.
    Hypothesis U2 : nleb n1 n1 = true.
    Hypothesis U3 : nsub n1 n1 = n0.
    Hypothesis U4 : nleb n1 n0 = false.

    Lemma update_keeps_fpos : forall s s', update_position A azero fuel s = Ok s' -> s_fpos s' = s_fpos s.
    Proof.
      intros s s'. unfold update_position, push_frame_to_resampler.
      destruct (t_playing (s_tr s)).
      - destruct (frame_at_index _ _ _) as [fo| |]; cbn [obind]; try discriminate.
        destruct (if is_playing_backwards A _ then _ else _) as [t| |]; cbn [obind]; try discriminate.
        destruct (_ && _); intros H; inversion H; reflexivity.
      - cbn [obind].
        destruct (if is_playing_backwards A _ then _ else _) as [t| |]; cbn [obind]; try discriminate.
        destruct (_ && _); intros H; inversion H; reflexivity.
    Qed.

    Lemma frame_step_unit : forall s, SInv s -> s_fpos s = n0 -> (2 <= fuel)%nat ->
      exists s', update_position A azero fuel s = Ok s' /\ SInv s' /\ s_fpos s' = n0 /\
        frame_step A azero F interp cast ascale fone fuel s n1 =
          Ok (s', ascale (ascale (resampler_get interp (s_rs s) (cast n0)) fone) fone).
    Proof.
      intros s Hs Hf Hfu. destruct (update_position_spec s Hs) as (t' & _ & _ & _ & Hu & Hi).
      eexists. split; [exact Hu|]. split; [exact Hi|].
      pose proof (update_keeps_fpos _ _ Hu) as Hk. split; [congruence|].
      unfold frame_step. rewrite Hf, U1.
      destruct fuel as [|[|f]]; [lia | lia |].
      cbn [carry set_fpos s_fpos]. rewrite U2, U3.
      assert (Hset : set_fpos A (set_fpos A s n1) n0 = s).
      { destruct s; cbn in *; subst; reflexivity. }
      rewrite Hset, Hu. cbn [obind]. rewrite Hk, Hf, U4. reflexivity.
    Qed.
  End Unit.

  (** ** where [position()] and the seeks are measured from.
      In a straight forward run (no loop, not backwards, after the pre-fill) the window holds the
      three frames before the transport position: the frame being heard (slot 1, the one
      [position()] names) is three frames behind the position that [seek_by] measures from. *)
  Definition straight (s : ssound T A) : Prop :=
    t_playing (s_tr s) = true /\ t_loop (s_tr s) = None /\ is_playing_backwards A s = false /\
    rf_index (r_1 (s_rs s)) = t_pos (s_tr s) - 3 /\
    rf_index (r_2 (s_rs s)) = t_pos (s_tr s) - 2 /\
    rf_index (r_3 (s_rs s)) = t_pos (s_tr s) - 1.

  Lemma straight_update : forall s, SInv s -> straight s -> t_pos (s_tr s) + 1 < NS s ->
    exists s', update_position A azero fuel s = Ok s' /\ SInv s' /\ straight s' /\
               t_pos (s_tr s') = t_pos (s_tr s) + 1 /\
               current_frame_index (s_rs s') = current_frame_index (s_rs s) + 1.
  Proof.
    intros s Hs (Hpl & Hl & Hb & H1 & H2 & H3) Hn.
    destruct (update_position_spec s Hs) as (t' & Ht' & _ & _ & Hu & Hi).
    rewrite Hb in Ht'. unfold increment_position in Ht'. rewrite Hpl, Hl in Ht'. cbn [negb] in Ht'.
    destruct Hs as (Hok & HNB & HBm & _ & Hp0 & _).
    rewrite add_chk_ok in Ht' by lia. cbn [obind] in Ht'.
    destruct (Z.geb_spec (t_pos (s_tr s) + 1) (NS s)); [lia|]. inversion Ht'; subst t'; clear Ht'.
    eexists. split; [exact Hu|]. split; [exact Hi|].
    unfold finish. cbn [set_tr set_rs s_tr s_rs t_playing negb andb].
    unfold straight, is_playing_backwards, current_frame_index in *.
    cbn [set_tr set_rs s_tr s_rs s_rate s_reverse t_playing t_loop t_pos push_frame r_1 r_2 r_3 rf_index].
    repeat split; try assumption; try lia.
  Qed.

  (** after the pre-fill of [new] a forward sound is in a straight run *)
  Lemma straight_position_offset : forall s, straight s ->
    current_frame_index (s_rs s) = t_pos (s_tr s) - 3.
  Proof. intros s (_ & _ & _ & H1 & _). exact H1. Qed.

  (** [seek_by] measures from the transport (push) position: three frames ahead of the frame
      [position()] names *)
  Lemma seek_by_from_push_position : forall s a, straight s ->
    seek_by_index A s a =
      ntoU64 (nmul (nadd (ndiv (nofZ (current_frame_index (s_rs s) + 3)) (nofZ (s_sr s))) a) (nofZ (s_sr s))).
  Proof.
    intros s a Hs. unfold seek_by_index. rewrite (straight_position_offset s Hs).
    replace (t_pos (s_tr s) - 3 + 3) with (t_pos (s_tr s)) by lia. reflexivity.
  Qed.

  (** ** every history of sound-level operations keeps the invariant: no panic, no hang, every
      read inside the slice *)
  Inductive sop := SUpdate | SSeekIndex (i : Z) | SSetLoop (lr : option (Z * Z)).
  Definition sstep (s : ssound T A) (o : sop) : outcome (ssound T A) :=
    match o with
    | SUpdate => update_position A azero fuel s
    | SSeekIndex i => seek_to_index A azero s i
    | SSetLoop lr => Ok (set_tr A s (transport_set_loop_region (s_tr s) lr))
    end.
  Fixpoint srun (s : ssound T A) (ops : list sop) : outcome (ssound T A) :=
    match ops with
    | [] => Ok s
    | o :: ops' => let! s' := sstep s o in srun s' ops'
    end.
  Definition wf_sop (o : sop) : Prop :=
    match o with
    | SUpdate => True
    | SSeekIndex i => 0 <= i <= u64_max
    | SSetLoop lr => req_loop B lr
    end.

  Lemma seek_to_index_safe : forall s i, SInv s -> 0 <= i <= u64_max ->
    exists s', seek_to_index A azero s i = Ok s' /\ SInv s'.
  Proof.
    intros s i Hs Hi. pose proof Hs as (Hok & HNB & HBm & Hfuel & Hwf).
    unfold seek_to_index. fold (NS s).
    destruct (seek_safe (NS s) B HNB HBm (s_tr s) i Hwf Hi) as (t' & Ht' & Hwf' & _).
    rewrite Ht'. cbn [obind].
    assert (Hs' : SInv (set_tr A s t')).
    { unfold SInv, NS. cbn [set_tr s_src s_slice s_tr].
      split; [exact Hok|]; split; [exact HNB|]; split; [exact HBm|]; split; [exact Hfuel | exact Hwf']. }
    destruct (is_advancing A (set_tr A s t')).
    - destruct (push_reads_inside _ Hs') as [Hp _]. rewrite Hp. eexists; split; [reflexivity|].
      destruct Hs' as (a & b & c & d & e). unfold SInv, NS. cbn [set_rs set_tr s_src s_slice s_tr] in *.
      split; [exact a|]; split; [exact b|]; split; [exact c|]; split; [exact d | exact e].
    - eexists; split; [reflexivity | exact Hs'].
  Qed.

  (** F24: a seek to an index inside a sound without a loop region — whether its transport is still
      playing or has already reached the end, as long as the sound has not gone Stopped — leaves the
      transport PLAYING at that index and pushes that very source frame into the window: the sound
      plays on from the target *)
  Lemma seek_inside_resumes : forall s i, SInv s -> t_loop (s_tr s) = None -> s_stopped s = false ->
    0 <= i < NS s ->
    seek_to_index A azero s i =
      Ok (set_rs A (set_tr A s {| t_pos := i; t_loop := None; t_playing := true |})
            (push_frame azero (s_rs s) (Some (src_get (s_src s) (soff (s_slice s) + i))) i)) /\
    SInv (set_rs A (set_tr A s {| t_pos := i; t_loop := None; t_playing := true |})
            (push_frame azero (s_rs s) (Some (src_get (s_src s) (soff (s_slice s) + i))) i)).
  Proof.
    intros s i Hs Hl Hst Hi. pose proof Hs as (Hok & HNB & HBm & Hfuel & Hwf).
    unfold seek_to_index. fold (NS s). rewrite (seek_inside_plays (s_tr s) i (NS s) Hl Hi). cbn [obind].
    set (s1 := set_tr A s {| t_pos := i; t_loop := None; t_playing := true |}).
    assert (Hs1 : SInv s1).
    { unfold SInv, NS, s1. cbn [set_tr s_src s_slice s_tr].
      split; [exact Hok|]; split; [exact HNB|]; split; [exact HBm|]; split; [exact Hfuel|].
      split; [cbn [t_pos]; lia|]. split; [cbn [t_pos t_playing]; intros _; lia | exact I]. }
    assert (Hadv : is_advancing A s1 = true) by (unfold is_advancing, s1; cbn [set_tr s_stopped]; rewrite Hst; reflexivity).
    rewrite Hadv. destruct (push_reads_inside s1 Hs1) as [Hp _]. rewrite Hp.
    assert (Hpushed : pushed s1 = Some (src_get (s_src s) (soff (s_slice s) + i))).
    { unfold pushed, s1, NS. cbn [set_tr s_tr s_src s_slice t_playing t_pos].
      unfold NS in Hi. destruct (Z.ltb_spec i (num_frames (s_src s) (s_slice s))); [reflexivity | lia]. }
    rewrite Hpushed. unfold s1 at 2 3. cbn [set_tr s_rs s_tr t_pos]. split; [reflexivity|].
    destruct Hs1 as (a & b & c & d & e). unfold SInv, NS. cbn [set_rs set_tr s_src s_slice s_tr] in *.
    split; [exact a|]; split; [exact b|]; split; [exact c|]; split; [exact d | exact e].
  Qed.

  Lemma srun_safe : forall ops s, SInv s -> Forall wf_sop ops -> exists s', srun s ops = Ok s' /\ SInv s'.
  Proof.
    induction ops as [|o ops IH]; intros s Hs Hops; [exists s; split; [reflexivity | exact Hs]|].
    inversion Hops as [|? ? Ho Hops']; subst. cbn [srun].
    assert (H1 : exists s1, sstep s o = Ok s1 /\ SInv s1).
    { destruct o as [|i|lr]; cbn [sstep].
      - destruct (update_position_spec s Hs) as (t' & _ & _ & _ & Hu & Hi). eauto.
      - apply seek_to_index_safe; assumption.
      - eexists; split; [reflexivity|]. destruct Hs as (a & b & c & d & e0 & e1 & e2).
        unfold SInv, NS. cbn [set_tr s_src s_slice s_tr transport_set_loop_region t_pos t_playing t_loop].
        split; [exact a|]; split; [exact b|]; split; [exact c|]; split; [exact d|].
        split; [exact e0|]. split; [exact e1|]. apply filter_region_wf. exact Ho. }
    destruct H1 as (s1 & H1 & Hs1). rewrite H1. cbn [obind]. apply IH; assumption.
  Qed.
End Sound.

(** the four closed facts [frame_step_unit] needs, in binary64 and in Q *)
From KV Require Import Base.IEEE.
Lemma unit_facts_f64 :
  @nadd f64 _ n0 n1 = n1 /\ @nleb f64 _ n1 n1 = true /\ @nsub f64 _ n1 n1 = n0 /\ @nleb f64 _ n1 n0 = false.
Proof.
  split; [apply Flocq.IEEE754.BinarySingleNaN.B2SF_inj; vm_compute; reflexivity|].
  split; [vm_compute; reflexivity|].
  split; [apply Flocq.IEEE754.BinarySingleNaN.B2SF_inj; vm_compute; reflexivity|].
  vm_compute; reflexivity.
Qed.
Lemma unit_facts_Q :
  @nadd Q _ n0 n1 = n1 /\ @nleb Q _ n1 n1 = true /\ @nsub Q _ n1 n1 = n0 /\ @nleb Q _ n1 n0 = false.
Proof. vm_compute. repeat split; reflexivity. Qed.
