(** C04 — [StaticSound] (sound/static_sound/sound.rs): [new] with the three-frame pre-fill,
    [update_position], [is_playing_backwards], [push_frame_to_resampler],
    [seek_to_index / seek_by / seek_to], [on_start_processing] + [read_commands], [process].

    Generic over the time type [T] ([Num]: binary64 or Q), the frame type [A] and the
    interpolation-fraction type [F] (binary32) with its operations as Section variables.

    Taken as constant here (C03 / C06 cover them): the playback state manager is in state
    Playing (fade amplitude [fone]) until [mark_as_stopped], volume is 0 dB (amplitude [fone]),
    panning is centre ([panned] returns the frame unchanged), start time is Immediate.  The way
    [process] uses them is transcribed: [(resampler_out * fade_volume * volume).panned(CENTER)]. *)
From Coq Require Import ZArith List Bool.
From KV Require Import Base.Outcome Base.Num C19.Model C06.Model.
From KV Require Import C04.Transport C04.TransportSeek C04.Resampler C04.StaticData.
Import ListNotations.
Local Open Scope Z_scope.

Section Sound.
  Context {T : Type} {NT : Num T} {ND : NumDur T}.
  Variable powf : T -> T -> T.                      (* libm, only reachable through eased rate tweens *)
  Variable A : Type.                                (* Frame *)
  Variable azero : A.                               (* Frame::ZERO *)
  Variable F : Type.                                (* f32 *)
  Variable interp : A -> A -> A -> A -> F -> A.     (* interpolate_frame *)
  Variable cast : T -> F.                           (* [as f32] *)
  Variable ascale : A -> F -> A.                    (* Frame * f32 *)
  Variable fone : F.                                (* Decibels(0.0).as_amplitude() = 1.0 *)
  Variable fuel : nat.                              (* bound on the iterations of any one loop (the seek has none) *)

  (** [f64::abs] *)
  Definition nabs (x : T) : T := if nsignneg x then nneg x else x.

  Record settings := { st_start : ppos T; st_loop : option (region T); st_reverse : bool; st_rate : T }.
  Record sdata := { d_sr : Z; d_src : source A; d_slice : option (Z * Z); d_settings : settings }.

  Record ssound := {
    s_sr : Z; s_src : source A; s_slice : option (Z * Z); s_reverse : bool;
    s_stopped : bool;                     (* playback_state_manager: false = Playing, true = Stopped *)
    s_rs : resampler A; s_tr : transport; s_fpos : T; s_rate : param T T;
    sh_state : Z;                         (* shared.state: PlaybackState as u8 (0 Playing, 6 Stopped) *)
    sh_pos : T;                           (* shared.position *)
  }.
  Definition set_rs (s : ssound) (r : resampler A) : ssound :=
    {| s_sr := s_sr s; s_src := s_src s; s_slice := s_slice s; s_reverse := s_reverse s;
       s_stopped := s_stopped s; s_rs := r; s_tr := s_tr s; s_fpos := s_fpos s; s_rate := s_rate s;
       sh_state := sh_state s; sh_pos := sh_pos s |}.
  Definition set_tr (s : ssound) (t : transport) : ssound :=
    {| s_sr := s_sr s; s_src := s_src s; s_slice := s_slice s; s_reverse := s_reverse s;
       s_stopped := s_stopped s; s_rs := s_rs s; s_tr := t; s_fpos := s_fpos s; s_rate := s_rate s;
       sh_state := sh_state s; sh_pos := sh_pos s |}.
  Definition set_fpos (s : ssound) (f : T) : ssound :=
    {| s_sr := s_sr s; s_src := s_src s; s_slice := s_slice s; s_reverse := s_reverse s;
       s_stopped := s_stopped s; s_rs := s_rs s; s_tr := s_tr s; s_fpos := f; s_rate := s_rate s;
       sh_state := sh_state s; sh_pos := sh_pos s |}.
  Definition set_rate (s : ssound) (p : param T T) : ssound :=
    {| s_sr := s_sr s; s_src := s_src s; s_slice := s_slice s; s_reverse := s_reverse s;
       s_stopped := s_stopped s; s_rs := s_rs s; s_tr := s_tr s; s_fpos := s_fpos s; s_rate := p;
       sh_state := sh_state s; sh_pos := sh_pos s |}.
  Definition set_shpos (s : ssound) (p : T) : ssound :=
    {| s_sr := s_sr s; s_src := s_src s; s_slice := s_slice s; s_reverse := s_reverse s;
       s_stopped := s_stopped s; s_rs := s_rs s; s_tr := s_tr s; s_fpos := s_fpos s; s_rate := s_rate s;
       sh_state := sh_state s; sh_pos := p |}.
  (** [playback_state_manager.mark_as_stopped(); update_shared_playback_state()] *)
  Definition mark_stopped (s : ssound) : ssound :=
    {| s_sr := s_sr s; s_src := s_src s; s_slice := s_slice s; s_reverse := s_reverse s;
       s_stopped := true; s_rs := s_rs s; s_tr := s_tr s; s_fpos := s_fpos s; s_rate := s_rate s;
       sh_state := 6; sh_pos := sh_pos s |}.

  (** [playback_state().is_advancing()] *)
  Definition is_advancing (s : ssound) : bool := negb (s_stopped s).

  (** [StaticSound::is_playing_backwards]: [playback_rate.value().0 < 0.0] (so -0.0, like 0.0, is forwards) *)
  Definition is_playing_backwards (s : ssound) : bool :=
    let b := nltb (p_raw (s_rate s)) n0 in
    if s_reverse s then negb b else b.

  (** [StaticSound::push_frame_to_resampler] *)
  Definition push_frame_to_resampler (s : ssound) : outcome ssound :=
    let! frame :=
      (if t_playing (s_tr s) then
         let! fo := frame_at_index (t_pos (s_tr s)) (s_src s) (s_slice s) in
         Ok (Some (match fo with Some f => f | None => azero end))
       else Ok None) in
    Ok (set_rs s (push_frame azero (s_rs s) frame (t_pos (s_tr s)))).

  (** [StaticSound::update_position] *)
  Definition update_position (s : ssound) : outcome ssound :=
    let! s := push_frame_to_resampler s in
    let! t := (if is_playing_backwards s then decrement_position fuel (s_tr s)
               else increment_position fuel (s_tr s) (num_frames (s_src s) (s_slice s))) in
    let s := set_tr s t in
    if negb (t_playing (s_tr s)) && resampler_empty (s_rs s) then Ok (mark_stopped s) else Ok s.

  (** [StaticSound::seek_to_index] *)
  Definition seek_to_index (s : ssound) (index : Z) : outcome ssound :=
    let n := num_frames (s_src s) (s_slice s) in
    let! t := transport_seek_to (s_tr s) index n in
    let s := set_tr s t in
    if is_advancing s then push_frame_to_resampler s else Ok s.

  (** the landing index computations of [seek_by] / [seek_to] *)
  Definition seek_by_index (s : ssound) (amount : T) : Z :=
    let current_position := ndiv (nofZ (t_pos (s_tr s))) (nofZ (s_sr s)) in
    let position := nadd current_position amount in
    ntoU64 (nmul position (nofZ (s_sr s))).
  Definition seek_to_target (s : ssound) (position : T) : Z :=
    ntoU64 (nmul position (nofZ (s_sr s))).
  Definition seek_by (s : ssound) (amount : T) : outcome ssound := seek_to_index s (seek_by_index s amount).
  Definition seek_to (s : ssound) (position : T) : outcome ssound := seek_to_index s (seek_to_target s position).

  (** [StaticSound::new] before the pre-fill loop *)
  Definition sound_init (d : sdata) : outcome ssound :=
    let st := d_settings d in
    let start := into_samples (st_start st) (d_sr d) in
    let n := num_frames (d_src d) (d_slice d) in
    let lr := option_map (fun r => region_samples r (d_sr d) n) (st_loop st) in
    let t := transport_new start lr (st_reverse st) n in
    let starting_frame_index := t_pos t in
    let position := ndiv (nofZ starting_frame_index) (nofZ (d_sr d)) in
    Ok {| s_sr := d_sr d; s_src := d_src d; s_slice := d_slice d; s_reverse := st_reverse st;
          s_stopped := false; s_rs := resampler_new azero starting_frame_index; s_tr := t;
          s_fpos := n0; s_rate := param_new (Fixed (st_rate st)) n1;
          sh_state := 0; sh_pos := position |}.

  Fixpoint update_n (k : nat) (s : ssound) : outcome ssound :=
    match k with
    | O => Ok s
    | S k' => let! s' := update_position s in update_n k' s'
    end.

  (** [StaticSound::new]: "fill the resample buffer with 3 samples so playback can start immediately" *)
  Definition sound_new (d : sdata) : outcome ssound :=
    let! s := sound_init d in update_n 3 s.

  (** commands that can be pending at the start of a callback (each reader holds the latest) *)
  Record cmds := {
    c_rate : option (T * tween T);
    c_loop : option (option (region T));
    c_seek_by : option T;
    c_seek_to : option T;
  }.
  Definition no_cmds : cmds := {| c_rate := None; c_loop := None; c_seek_by := None; c_seek_to := None |}.

  (** [Sound::on_start_processing]: publish the position, then [read_commands] in its order *)
  Definition on_start_processing (s : ssound) (c : cmds) : outcome ssound :=
    let s := set_shpos s (ndiv (nofZ (current_frame_index (s_rs s))) (nofZ (s_sr s))) in
    let s := match c_rate c with
             | Some (v, tw) => set_rate s (param_set (s_rate s) (Fixed v) tw)
             | None => s end in
    let! s := match c_loop c with
              | Some lr =>
                  let n := num_frames (s_src s) (s_slice s) in
                  Ok (set_tr s (transport_set_loop_region (s_tr s)
                                  (option_map (fun r => region_samples r (s_sr s) n) lr)))
              | None => Ok s end in
    let! s := match c_seek_by c with Some a => seek_by s a | None => Ok s end in
    match c_seek_to c with Some p => seek_to s p | None => Ok s end.

  (** [while self.fractional_position >= 1.0 { self.fractional_position -= 1.0; self.update_position() }] *)
  Fixpoint carry (fl : nat) (s : ssound) : outcome ssound :=
    match fl with
    | O => Hang
    | S f => if nleb n1 (s_fpos s) then
               let! s' := update_position (set_fpos s (nsub (s_fpos s) n1)) in carry f s'
             else Ok s
    end.

  (** body of the per-frame loop of [process] for a given position increment
      [sample_rate as f64 * playback_rate.abs() * dt] *)
  Definition frame_step (s : ssound) (inc : T) : outcome (ssound * A) :=
    let resampler_out := resampler_get interp (s_rs s) (cast (s_fpos s)) in
    let! s' := carry fuel (set_fpos s (nadd (s_fpos s) inc)) in
    Ok (s', ascale (ascale resampler_out fone) fone).

  Definition increment_of (s : ssound) (i num : Z) (dt : T) : T :=
    let time_in_chunk := ndiv (nofZ (i + 1)) (nofZ num) in
    let playback_rate := param_interpolated T lerp (s_rate s) time_in_chunk in
    nmul (nmul (nofZ (s_sr s)) (nabs playback_rate)) dt.

  Fixpoint frames_loop (k : nat) (i num : Z) (dt : T) (s : ssound) : outcome (ssound * list A) :=
    match k with
    | O => Ok (s, [])
    | S k' =>
        let! (s1, a) := frame_step s (increment_of s i num dt) in
        let! (s2, l) := frames_loop k' (i + 1) num dt s1 in
        Ok (s2, a :: l)
    end.

  (** [Sound::process] on a buffer of [len] frames *)
  Definition process (s : ssound) (len : Z) (dt : T) : outcome (ssound * list A) :=
    let! (rate', _) := param_update powf T lerp (s_rate s) (nmul dt (nofZ len)) no_info in
    let s := set_rate s rate' in
    if negb (is_advancing s) then Ok (s, repeat azero (Z.to_nat len))
    else frames_loop (Z.to_nat len) 0 len dt s.

  (** [frame_step] over a list of increments (what the resampling theorems speak about) *)
  Fixpoint frame_steps (s : ssound) (incs : list T) : outcome (ssound * list A) :=
    match incs with
    | [] => Ok (s, [])
    | inc :: incs' =>
        let! (s1, a) := frame_step s inc in
        let! (s2, l) := frame_steps s1 incs' in
        Ok (s2, a :: l)
    end.
End Sound.

Arguments s_sr {T A}.
Arguments s_src {T A}.
Arguments s_slice {T A}.
Arguments s_reverse {T A}.
Arguments s_stopped {T A}.
Arguments s_rs {T A}.
Arguments s_tr {T A}.
Arguments s_fpos {T A}.
Arguments s_rate {T A}.
Arguments sh_state {T A}.
Arguments sh_pos {T A}.
Arguments Build_ssound {T A}.
Arguments Build_settings {T}.
Arguments st_start {T}.
Arguments st_loop {T}.
Arguments st_reverse {T}.
Arguments st_rate {T}.
Arguments settings : clear implicits.
Arguments Build_sdata {T A}.
Arguments d_sr {T A}.
Arguments d_src {T A}.
Arguments d_slice {T A}.
Arguments d_settings {T A}.
Arguments sdata : clear implicits.
Arguments ssound : clear implicits.
Arguments cmds : clear implicits.
Arguments Build_cmds {T}.
Arguments c_rate {T}.
Arguments c_loop {T}.
Arguments c_seek_by {T}.
Arguments c_seek_to {T}.
Arguments no_cmds {T}.
