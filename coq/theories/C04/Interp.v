(** C04 — [interpolate_frame] (crates/kira/src/frame.rs) over an abstract sample type.
    Transcribed statement by statement, same evaluation order.  No law is assumed about the
    operations, so whatever is proved about this term holds bit-for-bit of binary32. *)
From Coq Require Import ZArith.

(** the sample operations [Frame]'s arithmetic uses *)
Class SOps (S : Type) := {
  s0 : S;                       (* 0.0 *)
  s1 : S;                       (* 1.0  (amplitude of 0 dB) *)
  sadd : S -> S -> S; ssub : S -> S -> S; smul : S -> S -> S;
  k_half : S; k_1_5 : S; k_2 : S; k_2_5 : S;   (* 0.5 1.5 2.0 2.5 *)
}.

Section Interp.
  Context {S : Type} {SO : SOps S}.

  (** one channel of [interpolate_frame previous current next_1 next_2 fraction] *)
  Definition interp1 (previous current next_1 next_2 fraction : S) : S :=
    let c0 := current in
    let c1 := smul (ssub next_1 previous) k_half in
    let c2 := ssub (sadd (ssub previous (smul current k_2_5)) (smul next_1 k_2)) (smul next_2 k_half) in
    let c3 := sadd (smul (ssub next_2 previous) k_half) (smul (ssub current next_1) k_1_5) in
    sadd (smul (sadd (smul (sadd (smul c3 fraction) c2) fraction) c1) fraction) c0.

  (** the polynomial itself, for statements about coefficients *)
  Definition horner (c0 c1 c2 c3 x : S) : S :=
    sadd (smul (sadd (smul (sadd (smul c3 x) c2) x) c1) x) c0.

  Definition frame : Type := (S * S)%type.
  Definition frame_zero : frame := (s0, s0).
  Definition interpolate_frame (p c n1 n2 : frame) (fraction : S) : frame :=
    (interp1 (fst p) (fst c) (fst n1) (fst n2) fraction,
     interp1 (snd p) (snd c) (snd n1) (snd n2) fraction).
  (** [Frame * f32] *)
  Definition frame_scale (f : frame) (a : S) : frame := (smul (fst f) a, smul (snd f) a).
End Interp.
