(** C04 — the played sequence: the successor of a position in each direction (with the wrap
    from loop end to loop start), the straight run and the exact end without a loop. *)
From Coq Require Import ZArith List Bool Lia.
From KV Require Import Base.Outcome C04.Transport C04.TransportSeek C04.ProofsTransport.
Import ListNotations.
Local Open Scope Z_scope.

(** successor of position [p] playing forward: [p + 1], wrapped into the loop when it reaches the
    loop end (from [le - 1] straight to [ls]; a position at or beyond the loop end joins the loop
    at [ls + (p + 1 - ls) mod (le - ls)]) *)
Definition next_fwd (lr : option (Z * Z)) (p : Z) : Z :=
  match lr with
  | Some (ls, le) => if p + 1 <? le then p + 1 else ls + (p + 1 - ls) mod (le - ls)
  | None => p + 1
  end.

Lemma next_fwd_wrap : forall ls le, ls < le -> next_fwd (Some (ls, le)) (le - 1) = ls.
Proof.
  intros ls le H. cbn [next_fwd]. destruct (Z.ltb_spec (le - 1 + 1) le); [lia|].
  replace (le - 1 + 1 - ls) with (le - ls) by lia. rewrite Z_mod_same_full. lia.
Qed.

Section Seq.
  Variable fuel : nat.
  Variables N B : Z.
  Hypothesis HNB : N <= B.
  Hypothesis HBmax : B < u64_max.
  Hypothesis Hfuel : B < Z.of_nat fuel.

  Lemma increment_spec : forall p lr, 0 <= p -> p < B -> wf_loop B lr ->
    increment_position fuel {| t_pos := p; t_loop := lr; t_playing := true |} N =
      Ok {| t_pos := next_fwd lr p; t_loop := lr; t_playing := negb (next_fwd lr p >=? N) |}.
  Proof.
    intros p lr Hp0 HpB Hlr. unfold increment_position. cbn [t_pos t_loop t_playing negb].
    rewrite add_chk_ok by lia. cbn [obind]. destruct lr as [[ls le]|]; cbn [next_fwd].
    - destruct Hlr as (H0 & H1 & H2).
      destruct (wrap_down_spec fuel (p + 1) ls le) as (q & Hq & _ & _ & _ & Ha & Hb); try lia.
      rewrite Hq. cbn [obind]. destruct (Z.ltb_spec (p + 1) le) as [Hlt|Hge].
      + rewrite (Ha Hlt). destruct (p + 1 >=? N); reflexivity.
      + rewrite (Hb Hge). destruct (_ >=? N); reflexivity.
    - cbn [obind]. destruct (p + 1 >=? N); reflexivity.
  Qed.

  (** backward: [p - 1]; from the loop start straight to [le - 1]; position 0 ends the sound *)
  Lemma decrement_spec_inside : forall p lr, 0 <= p -> p < B -> wf_loop B lr ->
    (match lr with Some (ls, _) => ls < p | None => True end) ->
    decrement_position fuel {| t_pos := p; t_loop := lr; t_playing := true |} =
      Ok (if p =? 0 then {| t_pos := 0; t_loop := lr; t_playing := false |}
          else {| t_pos := p - 1; t_loop := lr; t_playing := true |}).
  Proof.
    intros p lr Hp0 HpB Hlr Hin. unfold decrement_position. cbn [t_pos t_loop t_playing negb].
    destruct lr as [[ls le]|].
    - destruct Hlr as (H0 & H1 & H2).
      destruct (wrap_up_le_spec fuel p ls le) as (q & Hq & _ & _ & Ha & _); try lia.
      rewrite Hq, (Ha Hin). cbn [obind]. destruct (Z.eqb_spec p 0); [subst; reflexivity | reflexivity].
    - cbn [obind]. destruct (Z.eqb_spec p 0); [subst; reflexivity | reflexivity].
  Qed.
  Lemma decrement_spec_wrap : forall ls le, 0 <= ls -> ls < le -> le <= B ->
    decrement_position fuel {| t_pos := ls; t_loop := Some (ls, le); t_playing := true |} =
      Ok {| t_pos := le - 1; t_loop := Some (ls, le); t_playing := true |}.
  Proof.
    intros ls le H0 H1 H2. unfold decrement_position. cbn [t_pos t_loop t_playing negb].
    destruct fuel as [|[|f]] eqn:E; [lia | lia |].
    cbn [wrap_up_le]. destruct (Z.leb_spec ls ls); [|lia].
    rewrite sub_chk_ok by lia. cbn [obind]. rewrite add_chk_ok by lia. cbn [obind].
    destruct (Z.leb_spec (ls + (le - ls)) ls); [lia|]. cbn [obind].
    destruct (Z.eqb_spec (ls + (le - ls)) 0); [lia|]. replace (ls + (le - ls) - 1) with (le - 1) by lia. reflexivity.
  Qed.

  (** the straight run: [k] increments from [start] without a loop reach [start + k]; the sound
      is playing exactly as long as that is inside it, so it ends after the frame [N - 1] *)
  Lemma straight_run : forall k start, 0 <= start -> start + Z.of_nat k <= N ->
    trun fuel N {| t_pos := start; t_loop := None; t_playing := true |} (repeat TInc k) =
      Ok {| t_pos := start + Z.of_nat k; t_loop := None;
            t_playing := (Nat.eqb k 0) || (start + Z.of_nat k <? N) |}.
  Proof.
    induction k as [|k IH]; intros start H0 Hk.
    - cbn [repeat trun Nat.eqb orb Z.of_nat]. rewrite Z.add_0_r. reflexivity.
    - cbn [repeat trun tstep]. rewrite (increment_spec start None) by (cbn; lia). cbn [obind next_fwd].
      destruct (Z.geb_spec (start + 1) N) as [Hge|Hlt]; cbn [negb].
      + (* start + 1 = N: k must be 0 *)
        assert (k = 0)%nat by lia. subst k. cbn [repeat trun Nat.eqb orb].
        destruct (Z.ltb_spec (start + Z.of_nat 1) N); [lia|]. replace (start + Z.of_nat 1) with (start + 1) by lia. reflexivity.
      + rewrite IH by lia. cbn [Nat.eqb orb]. f_equal.
        replace (start + 1 + Z.of_nat k) with (start + Z.of_nat (S k)) by lia.
        destruct k; cbn [Nat.eqb orb]; [|reflexivity].
        destruct (Z.ltb_spec (start + Z.of_nat 1) N); [reflexivity | lia].
  Qed.

  (** in a loop the forward sequence never ends and stays inside the loop once it has entered *)
  Lemma loop_never_ends : forall ls le p, 0 <= ls -> ls < le -> le <= N -> 0 <= p -> p < B ->
    ls <= next_fwd (Some (ls, le)) p \/ next_fwd (Some (ls, le)) p = p + 1 /\ p + 1 < ls.
  Proof.
    intros ls le p H0 H1 H2 Hp HpB. cbn [next_fwd]. destruct (Z.ltb_spec (p + 1) le).
    - destruct (Z_lt_le_dec (p + 1) ls); [right; lia | left; lia].
    - left. pose proof (Z.mod_pos_bound (p + 1 - ls) (le - ls) ltac:(lia)). lia.
  Qed.
  Lemma next_fwd_in_loop : forall ls le p, 0 <= ls -> ls < le -> 0 <= p ->
    next_fwd (Some (ls, le)) p < le.
  Proof.
    intros ls le p H0 H1 Hp. cbn [next_fwd]. destruct (Z.ltb_spec (p + 1) le); [lia|].
    pose proof (Z.mod_pos_bound (p + 1 - ls) (le - ls) ltac:(lia)). lia.
  Qed.
End Seq.
