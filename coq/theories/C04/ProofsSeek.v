(** C04 — proofs about the repaired [Transport::seek_to] ([C04.TransportSeek]):
    totality for every [usize] target, agreement with the loops it replaced wherever they
    returned, the cost of those loops (F40), and the safety of every transport history. *)
From Coq Require Import ZArith List Bool Lia.
From KV Require Import Base.Outcome C04.Transport C04.TransportSeek C04.ProofsTransport.
Import ListNotations.
Local Open Scope Z_scope.

Lemma rem_chk_ok : forall a b, b <> 0 -> rem_chk a b = Ok (a mod b).
Proof. intros a b H. unfold rem_chk. destruct (Z.eqb_spec b 0); [contradiction | reflexivity]. Qed.

(** ** the wrap: total on well-formed regions, for every [usize] target and position *)
(** the one value of [[ls, le)] congruent to [p] modulo the loop length, for a [p] below the region *)
Lemma below_region_unique : forall p ls le q, p < ls -> ls < le ->
  ls <= q < le -> (q - p) mod (le - ls) = 0 ->
  q = le - 1 - (ls - 1 - p) mod (le - ls).
Proof.
  intros p ls le q Hp Hl Hq Hm.
  set (d := le - ls) in *. assert (Hd : 0 < d) by (unfold d; lia).
  pose proof (Z.mod_pos_bound (ls - 1 - p) d Hd) as Hr.
  pose proof (Z.div_mod (ls - 1 - p) d ltac:(lia)) as Hk.
  pose proof (Z.div_mod (q - p) d ltac:(lia)) as Hj. rewrite Hm in Hj.
  set (k := (ls - 1 - p) / d) in *. set (r := (ls - 1 - p) mod d) in *. set (j := (q - p) / d) in *.
  assert (Hjk : j = k + 1) by (unfold d in *; nia).
  unfold d in *. nia.
Qed.

Lemma seek_wrap_spec : forall cur p ls le,
  0 <= ls -> ls < le -> le <= u64_max -> 0 <= p ->
  exists q, seek_wrap cur p ls le = Ok q /\ 0 <= q /\
    (cur < p -> q < le /\ q <= p) /\ (p <= cur -> ls <= q /\ p <= q) /\
    (ls <= p < le -> q = p) /\ (q - p) mod (le - ls) = 0 /\
    (cur < p -> le <= p -> q = ls + (p - ls) mod (le - ls) /\ ls <= q) /\
    (p <= cur -> p < ls -> q = le - 1 - (ls - 1 - p) mod (le - ls) /\ q < le).
Proof.
  intros cur p ls le Hls Hlt Hmax Hp. unfold seek_wrap.
  assert (Hd : 0 < le - ls) by lia.
  destruct (Z.gtb_spec p cur) as [Hf|Hb].
  - destruct (Z.geb_spec p le) as [Hge|Hin].
    + rewrite (sub_chk_ok p ls) by lia. cbn [obind].
      rewrite (sub_chk_ok le ls) by lia. cbn [obind].
      rewrite rem_chk_ok by lia. cbn [obind].
      pose proof (Z.mod_pos_bound (p - ls) (le - ls) Hd) as Hr.
      pose proof (Z.mod_le (p - ls) (le - ls) ltac:(lia) Hd) as Hle.
      rewrite add_chk_ok by lia.
      exists (ls + (p - ls) mod (le - ls)). split; [reflexivity|].
      split; [lia|]. split; [intros _; lia|]. split; [intros; lia|]. split; [intros; lia|].
      split.
      * replace (ls + (p - ls) mod (le - ls) - p) with ((p - ls) mod (le - ls) - (p - ls)) by lia.
        rewrite Zminus_mod, Z.mod_mod, Z.sub_diag by lia. reflexivity.
      * split; [intros; split; [reflexivity | lia] | intros; lia].
    + exists p. split; [reflexivity|]. split; [lia|]. split; [intros; lia|]. split; [intros; lia|].
      split; [reflexivity|]. split; [rewrite Z.sub_diag; apply Z.mod_0_l; lia|].
      split; intros; lia.
  - destruct (Z.ltb_spec p ls) as [Hlo|Hin].
    + rewrite (sub_chk_ok le 1) by lia. cbn [obind].
      rewrite (sub_chk_ok ls 1) by lia. cbn [obind].
      rewrite (sub_chk_ok (ls - 1) p) by lia. cbn [obind].
      rewrite (sub_chk_ok le ls) by lia. cbn [obind].
      rewrite rem_chk_ok by lia. cbn [obind].
      pose proof (Z.mod_pos_bound (ls - 1 - p) (le - ls) Hd) as Hr.
      rewrite sub_chk_ok by lia.
      exists (le - 1 - (ls - 1 - p) mod (le - ls)). split; [reflexivity|].
      split; [lia|]. split; [intros; lia|]. split; [intros _; lia|]. split; [intros; lia|].
      split.
      * replace (le - 1 - (ls - 1 - p) mod (le - ls) - p)
          with ((ls - 1 - p) - (ls - 1 - p) mod (le - ls) + 1 * (le - ls)) by lia.
        rewrite Z_mod_plus_full, Zminus_mod, Z.mod_mod, Z.sub_diag by lia. reflexivity.
      * split; [intros; lia | intros; split; [reflexivity | lia]].
    + exists p. split; [reflexivity|]. split; [lia|]. split; [intros; lia|]. split; [intros; lia|].
      split; [reflexivity|]. split; [rewrite Z.sub_diag; apply Z.mod_0_l; lia|].
      split; intros; lia.
Qed.

(** ** agreement with the loops, for ANY [usize] values (region well-formed or not): whenever a
    loop returned, the remainder is what it returned *)
Lemma wrap_down_ok : forall fuel p ls le q, 0 <= ls ->
  wrap_down fuel p ls le = Ok q ->
  (p < le /\ q = p) \/ (le <= p /\ ls < le /\ q = ls + (p - ls) mod (le - ls)).
Proof.
  induction fuel as [|f IH]; intros p ls le q Hls H; [discriminate|].
  cbn [wrap_down] in H. destruct (Z.geb_spec p le) as [Hge|Hlt]; [|inversion H; left; lia].
  right. unfold sub_chk at 1 in H. destruct (Z.ltb_spec le ls); [discriminate|]. cbn [obind] in H.
  unfold sub_chk in H. destruct (Z.ltb_spec p (le - ls)); [discriminate|]. cbn [obind] in H.
  destruct (IH _ _ _ _ Hls H) as [[Ha Hb]|[Ha [Hb Hc]]].
  - assert (ls < le) by lia. split; [assumption|]. split; [assumption|]. subst q.
    replace (p - ls) with ((p - (le - ls) - ls) + 1 * (le - ls)) by lia.
    rewrite Z_mod_plus_full, Z.mod_small by lia. lia.
  - split; [assumption|]. split; [assumption|]. subst q.
    replace (p - ls) with ((p - (le - ls) - ls) + 1 * (le - ls)) by lia.
    rewrite Z_mod_plus_full. reflexivity.
Qed.

Lemma wrap_up_lt_ok : forall fuel p ls le q,
  wrap_up_lt fuel p ls le = Ok q ->
  (ls <= p /\ q = p) \/ (p < ls /\ ls < le /\ ls <= q < le /\ (q - p) mod (le - ls) = 0).
Proof.
  induction fuel as [|f IH]; intros p ls le q H; [discriminate|].
  cbn [wrap_up_lt] in H. destruct (Z.ltb_spec p ls) as [Hlo|Hin]; [|inversion H; left; lia].
  right. unfold sub_chk in H. destruct (Z.ltb_spec le ls); [discriminate|]. cbn [obind] in H.
  unfold add_chk in H. destruct (Z.gtb_spec (p + (le - ls)) u64_max); [discriminate|]. cbn [obind] in H.
  destruct (IH _ _ _ _ H) as [[Ha Hb]|[Ha [Hb [Hc Hd]]]].
  - subst q. assert (ls < le) by lia. split; [assumption|]. split; [assumption|]. split; [lia|].
    replace (p + (le - ls) - p) with (le - ls) by lia. apply Z_mod_same_full.
  - split; [assumption|]. split; [assumption|]. split; [assumption|].
    replace (q - p) with ((q - (p + (le - ls))) + 1 * (le - ls)) by lia.
    rewrite Z_mod_plus_full. exact Hd.
Qed.

Lemma seek_wrap_agrees : forall fuel cur p ls le q,
  0 <= ls -> le <= u64_max -> 0 <= p ->
  (if p >? cur then wrap_down fuel p ls le else wrap_up_lt fuel p ls le) = Ok q ->
  seek_wrap cur p ls le = Ok q.
Proof.
  intros fuel cur p ls le q Hls Hmax Hp H. unfold seek_wrap.
  destruct (Z.gtb_spec p cur) as [Hf|Hb].
  - destruct (wrap_down_ok _ _ _ _ _ Hls H) as [[Ha Hq]|[Ha [Hb' Hq]]].
    + destruct (Z.geb_spec p le); [lia|]. subst q. reflexivity.
    + destruct (Z.geb_spec p le); [|lia].
      rewrite (sub_chk_ok p ls) by lia. cbn [obind].
      rewrite (sub_chk_ok le ls) by lia. cbn [obind].
      rewrite rem_chk_ok by lia. cbn [obind].
      pose proof (Z.mod_pos_bound (p - ls) (le - ls) ltac:(lia)).
      rewrite add_chk_ok by lia. subst q. reflexivity.
  - destruct (wrap_up_lt_ok _ _ _ _ _ H) as [[Ha Hq]|[Ha [Hb' [Hc Hd]]]].
    + destruct (Z.ltb_spec p ls); [lia|]. subst q. reflexivity.
    + destruct (Z.ltb_spec p ls); [|lia].
      rewrite (sub_chk_ok le 1) by lia. cbn [obind].
      rewrite (sub_chk_ok ls 1) by lia. cbn [obind].
      rewrite (sub_chk_ok (ls - 1) p) by lia. cbn [obind].
      rewrite (sub_chk_ok le ls) by lia. cbn [obind].
      rewrite rem_chk_ok by lia. cbn [obind].
      pose proof (Z.mod_pos_bound (ls - 1 - p) (le - ls) ltac:(lia)).
      rewrite sub_chk_ok by lia.
      rewrite (below_region_unique p ls le q Ha Hb' Hc Hd). reflexivity.
Qed.

(** [usize] values: the position, the target and the loop region of a transport *)
Definition usize_transport (t : transport) : Prop :=
  0 <= t_pos t /\
  match t_loop t with Some (ls, le) => 0 <= ls /\ le <= u64_max | None => True end.

Lemma seek_to_agrees_wrap_only : forall fuel t p N t',
  usize_transport t -> 0 <= p ->
  transport_seek_to_old fuel t p N = Ok t' -> transport_seek_to_wrap_only t p N = Ok t'.
Proof.
  intros fuel [cur lr pl] p N t' [_ Hu] Hp H. cbn [t_pos t_loop] in *.
  unfold C04.Transport.transport_seek_to in H. unfold transport_seek_to_wrap_only. cbn [t_pos t_loop t_playing] in *.
  destruct lr as [[ls le]|]; [|exact H]. destruct Hu as [Hls Hle].
  destruct (if p >? cur then wrap_down fuel p ls le else wrap_up_lt fuel p ls le) as [q| |] eqn:E;
    cbn [obind] in H; try discriminate.
  rewrite (seek_wrap_agrees fuel cur p ls le q Hls Hle Hp E). exact H.
Qed.

(** the seek as it is now differs from the wrap-only one in the [playing] flag alone: it is set from
    the landing position; the two coincide unless a stopped transport lands inside the sound (F24) *)
Lemma seek_to_vs_wrap_only : forall t p N t',
  transport_seek_to_wrap_only t p N = Ok t' ->
  transport_seek_to t p N = Ok {| t_pos := t_pos t'; t_loop := t_loop t'; t_playing := t_pos t' <? N |} /\
  (t_playing t = true -> transport_seek_to t p N = Ok t').
Proof.
  intros t p N t' H. unfold transport_seek_to_wrap_only in H. unfold transport_seek_to.
  destruct (match t_loop t with Some (ls, le) => seek_wrap (t_pos t) p ls le | None => Ok p end) as [q| |];
    cbn [obind] in *; try discriminate.
  inversion H; subst t'; clear H. cbn [t_pos t_loop t_playing]. split; [reflexivity|].
  intro Hpl. rewrite Hpl. destruct (Z.geb_spec q N); destruct (Z.ltb_spec q N); try lia; reflexivity.
Qed.

Lemma seek_to_agrees : forall fuel t p N t',
  usize_transport t -> 0 <= p ->
  transport_seek_to_old fuel t p N = Ok t' ->
  transport_seek_to_wrap_only t p N = Ok t' /\
  transport_seek_to t p N = Ok {| t_pos := t_pos t'; t_loop := t_loop t'; t_playing := t_pos t' <? N |} /\
  (t_playing t = true -> transport_seek_to t p N = Ok t').
Proof.
  intros fuel t p N t' Hu Hp H. pose proof (seek_to_agrees_wrap_only fuel t p N t' Hu Hp H) as Hw.
  split; [exact Hw|]. exact (seek_to_vs_wrap_only t p N t' Hw).
Qed.

(** ** the cost of the loop that was replaced (F40): [(p - le) / (le - ls) + 1] subtractions *)
Lemma wrap_down_cost : forall fuel p ls le, 0 <= ls -> ls < le -> le <= p ->
  Z.of_nat fuel <= (p - le) / (le - ls) + 1 -> wrap_down fuel p ls le = Hang.
Proof.
  induction fuel as [|f IH]; intros p ls le Hls Hlt Hge Hf; [reflexivity|].
  cbn [wrap_down]. destruct (Z.geb_spec p le); [|lia].
  rewrite (sub_chk_ok le ls) by lia. cbn [obind].
  rewrite (sub_chk_ok p (le - ls)) by lia. cbn [obind].
  destruct (Z_lt_le_dec (p - (le - ls)) le) as [Hs|Hs].
  - assert (E : (p - le) / (le - ls) = 0) by (apply Z.div_small; lia).
    rewrite E in Hf. assert (f = O) by lia. subst f. reflexivity.
  - apply IH; try lia.
    replace (p - le) with ((p - (le - ls) - le) + 1 * (le - ls)) in Hf by lia.
    rewrite Z.div_add in Hf by lia. lia.
Qed.
Lemma wrap_down_enough : forall fuel p ls le, 0 <= ls -> ls < le -> le <= p ->
  (p - le) / (le - ls) + 1 < Z.of_nat fuel ->
  wrap_down fuel p ls le = Ok (ls + (p - ls) mod (le - ls)).
Proof.
  induction fuel as [|f IH]; intros p ls le Hls Hlt Hge Hf.
  - pose proof (Z.div_pos (p - le) (le - ls) ltac:(lia) ltac:(lia)). simpl in Hf. lia.
  - cbn [wrap_down]. destruct (Z.geb_spec p le); [|lia].
    rewrite (sub_chk_ok le ls) by lia. cbn [obind].
    rewrite (sub_chk_ok p (le - ls)) by lia. cbn [obind].
    replace (p - ls) with ((p - (le - ls) - ls) + 1 * (le - ls)) by lia. rewrite Z_mod_plus_full.
    destruct (Z_lt_le_dec (p - (le - ls)) le) as [Hs|Hs].
    + destruct f as [|f]; [rewrite Z.div_small in Hf by lia; lia|].
      cbn [wrap_down]. destruct (Z.geb_spec (p - (le - ls)) le); [lia|].
      rewrite Z.mod_small by lia. f_equal. lia.
    + apply IH; try lia.
      replace (p - le) with ((p - (le - ls) - le) + 1 * (le - ls)) in Hf by lia.
      rewrite Z.div_add in Hf by lia. lia.
Qed.

(** ** one seek preserves the guard, for every [usize] target *)
Section Safe.
  Variable fuel : nat.
  Variables N B : Z.
  Hypothesis HNB : N <= B.
  Hypothesis HBmax : B < u64_max.

  Lemma seek_total : forall t i, wf_transport B t -> 0 <= i <= u64_max ->
    exists t', transport_seek_to t i N = Ok t' /\ wf_transport B t' /\ t_loop t' = t_loop t /\
      match t_loop t with
      | Some (ls, le) =>
          (t_pos t < i -> t_pos t' < le) /\ (i <= t_pos t -> ls <= t_pos t') /\
          (ls <= i < le -> t_pos t' = i) /\ (t_pos t' - i) mod (le - ls) = 0
      | None => t_pos t' = i
      end /\
      t_playing t' = (t_pos t' <? N).
  Proof.
    intros [p lr pl] i (Hp & Hpl & Hlr) Hi. cbn [t_pos t_loop t_playing] in *.
    unfold transport_seek_to. cbn [t_pos t_loop t_playing].
    assert (Hgen : forall q, 0 <= q ->
      wf_transport B {| t_pos := q; t_loop := lr; t_playing := q <? N |}).
    { intros q Hq0. repeat split; cbn [t_pos t_loop t_playing]; try lia; auto.
      all: try (destruct (Z.ltb_spec q N); [lia | discriminate]). }
    destruct lr as [[ls le]|].
    - destruct Hlr as (H0 & H1 & H2).
      destruct (seek_wrap_spec p i ls le) as (q & Hq & Hq0 & Hf & Hb & Hin & Hm & _); try lia.
      rewrite Hq. cbn [obind]. eexists. split; [reflexivity|]. split; [apply Hgen; lia|].
      split; [reflexivity|]. cbn [t_pos t_playing]. split; [|reflexivity].
      split; [intros; apply Hf; lia|]. split; [intros; apply Hb; lia|]. split; assumption.
    - cbn [obind]. eexists. split; [reflexivity|]. split; [apply Hgen; lia|].
      split; [reflexivity|]. cbn [t_pos t_playing]. split; reflexivity.
  Qed.

  Lemma seek_safe : forall t i, wf_transport B t -> 0 <= i <= u64_max ->
    exists t', transport_seek_to t i N = Ok t' /\ wf_transport B t' /\ t_loop t' = t_loop t.
  Proof.
    intros t i Ht Hi. destruct (seek_total t i Ht Hi) as (t' & H1 & H2 & H3 & _). eauto.
  Qed.

  Hypothesis Hfuel : B < Z.of_nat fuel.

  Lemma tstep_safe : forall t o, wf_transport B t -> wf_top B o ->
    exists t', tstep fuel N t o = Ok t' /\ wf_transport B t'.
  Proof.
    intros t o Ht Ho. destruct o as [| |i|lr]; cbn [tstep].
    - destruct (increment_safe fuel N B HNB HBmax Hfuel t Ht) as (t' & H1 & H2 & _); eauto.
    - destruct (decrement_safe fuel B HBmax Hfuel t Ht) as (t' & H1 & H2 & _); eauto.
    - destruct (seek_safe t i Ht Ho) as (t' & H1 & H2 & _); eauto.
    - eexists; split; [reflexivity|]. destruct Ht as (H1 & H2 & H3).
      split; [exact H1|]. split; [exact H2|]. cbn [transport_set_loop_region t_loop].
      apply filter_region_wf. exact Ho.
  Qed.

  Lemma trun_safe : forall ops t, wf_transport B t -> Forall (wf_top B) ops ->
    exists t', trun fuel N t ops = Ok t' /\ wf_transport B t'.
  Proof.
    induction ops as [|o ops IH]; intros t Ht Hops.
    - exists t; split; [reflexivity | assumption].
    - inversion Hops as [|? ? Ho Hops']; subst. cbn [trun].
      destruct (tstep_safe t o Ht Ho) as (t1 & H1 & Ht1). rewrite H1. cbn [obind]. apply IH; assumption.
  Qed.
End Safe.

Lemma transport_safe_all :
  forall (fuel : nat) (N B start : Z) (lr : option (Z * Z)) (reverse : bool) (ops : list top),
    0 <= start -> start < B -> N <= B -> B < u64_max -> B < Z.of_nat fuel -> req_loop B lr ->
    Forall (wf_top B) ops ->
    exists t', trun fuel N (transport_new start lr reverse N) ops = Ok t' /\
               0 <= t_pos t' /\ (t_playing t' = true -> t_pos t' < B) /\ wf_loop B (t_loop t').
Proof.
  intros fuel N B start lr reverse ops H0 H1 H2 H3 H4 H5 H6.
  destruct (transport_new_safe start lr reverse N B H0 H1 H2 H5) as (Hwf & _).
  destruct (trun_safe fuel N B H2 H3 H4 ops _ Hwf H6) as (t' & Ht' & Hwf').
  exists t'. split; [exact Ht'|]. exact Hwf'.
Qed.

(** the property's own guard is the instance [B = N] *)
Lemma transport_safe_guarded :
  forall (fuel : nat) (N start : Z) (lr : option (Z * Z)) (reverse : bool) (ops : list top),
    0 <= start -> start < N -> N < u64_max -> N < Z.of_nat fuel -> req_loop N lr ->
    Forall (wf_top N) ops ->
    exists t', trun fuel N (transport_new start lr reverse N) ops = Ok t' /\
               0 <= t_pos t' /\ (t_playing t' = true -> t_pos t' < N) /\ wf_loop N (t_loop t').
Proof.
  intros fuel N start lr reverse ops H0 H1 H2 H3 H4 H5.
  apply (transport_safe_all fuel N N start lr reverse ops); try assumption. lia.
Qed.

(** ** F40, the regression: the loop needs [(p - le) / (le - ls) + 1] iterations — with no more
    fuel than that the old seek hangs — while the repaired seek returns the wrapped position *)
Lemma seek_old_cost : forall fuel t p N ls le,
  t_loop t = Some (ls, le) -> 0 <= ls -> ls < le -> le <= u64_max -> 0 <= t_pos t ->
  t_pos t < p -> le <= p -> p <= u64_max ->
  (Z.of_nat fuel <= (p - le) / (le - ls) + 1 -> transport_seek_to_old fuel t p N = Hang) /\
  ((p - le) / (le - ls) + 1 < Z.of_nat fuel ->
     transport_seek_to_old fuel t p N =
       Ok {| t_pos := ls + (p - ls) mod (le - ls); t_loop := t_loop t;
             t_playing := if ls + (p - ls) mod (le - ls) >=? N then false else t_playing t |}) /\
  transport_seek_to t p N =
    Ok {| t_pos := ls + (p - ls) mod (le - ls); t_loop := t_loop t;
          t_playing := ls + (p - ls) mod (le - ls) <? N |}.
Proof.
  intros fuel [cur lr pl] p N ls le Hl Hls Hlt Hmax Hc Hf Hge Hp. cbn [t_pos t_loop t_playing] in *. subst lr.
  unfold C04.Transport.transport_seek_to, transport_seek_to. cbn [t_pos t_loop t_playing].
  destruct (Z.gtb_spec p cur); [|lia]. split; [|split].
  - intro Hfu. rewrite wrap_down_cost by assumption. reflexivity.
  - intro Hfu. rewrite wrap_down_enough by assumption. reflexivity.
  - destruct (seek_wrap_spec cur p ls le) as (q & Hq & _ & _ & _ & _ & _ & Hc' & _); try lia.
    destruct (Hc' ltac:(lia) Hge) as [Hqe _]. rewrite Hq, Hqe. reflexivity.
Qed.

(** the witness: [seek_to(1e300)] saturates to [usize::MAX]; a loop of 4 frames asks the old code
    for 2^62 - 1 subtractions *)
Lemma seek_old_cost_witness : forall fuel N,
  Z.of_nat fuel < 2 ^ 62 ->
  transport_seek_to_old fuel {| t_pos := 3; t_loop := Some (0, 4); t_playing := true |} u64_max N = Hang /\
  transport_seek_to {| t_pos := 3; t_loop := Some (0, 4); t_playing := true |} u64_max N =
    Ok {| t_pos := 3; t_loop := Some (0, 4); t_playing := 3 <? N |}.
Proof.
  intros fuel N Hf.
  destruct (seek_old_cost fuel {| t_pos := 3; t_loop := Some (0, 4); t_playing := true |} u64_max N 0 4)
    as (H1 & _ & H3); try reflexivity; try (vm_compute; first [reflexivity | congruence]).
  split.
  - apply H1. replace ((u64_max - 4) / (4 - 0) + 1) with (2 ^ 62 - 1) by (vm_compute; reflexivity). lia.
  - rewrite H3. reflexivity.
Qed.

(** ** F24: a transport that has reached the end plays again after a seek to a target inside the sound *)
Lemma seek_inside_plays : forall t i N, t_loop t = None -> 0 <= i < N ->
  transport_seek_to t i N = Ok {| t_pos := i; t_loop := None; t_playing := true |}.
Proof.
  intros [p lr pl] i N Hl Hi. cbn [t_loop] in Hl. subst lr. unfold transport_seek_to. cbn [t_pos t_loop t_playing obind].
  destruct (Z.ltb_spec i N); [reflexivity | lia].
Qed.
(** the regression: before the repair the seek moved a stopped transport without starting it *)
Lemma seek_inside_old_stays_stopped : forall fuel p i N, 0 <= i < N ->
  transport_seek_to_old fuel {| t_pos := p; t_loop := None; t_playing := false |} i N =
    Ok {| t_pos := i; t_loop := None; t_playing := false |}.
Proof.
  intros fuel p i N Hi. unfold C04.Transport.transport_seek_to. cbn [t_pos t_loop t_playing obind].
  destruct (i >=? N); reflexivity.
Qed.
(** the witness: 5 frames played forward to the end (the last three are still being heard), seek to frame 0 *)
Lemma seek_at_end_witness :
  trun_old 8 5 (transport_new 0 None false 5) (repeat TInc 5 ++ [TSeek 0]) =
    Ok {| t_pos := 0; t_loop := None; t_playing := false |} /\
  trun 8 5 (transport_new 0 None false 5) (repeat TInc 5 ++ [TSeek 0]) =
    Ok {| t_pos := 0; t_loop := None; t_playing := true |}.
Proof. split; vm_compute; reflexivity. Qed.
