(** C04 — the model instantiated: bit-exact (binary32 samples, binary64 time) and exact (Q). *)
From Coq Require Import ZArith QArith List Bool.
From Flocq Require Import IEEE754.BinarySingleNaN.
From KV Require Import Base.IEEE Base.Outcome Base.Num C19.Model C06.Model C06.Dur.
From KV Require Export C04.Interp C04.Transport C04.TransportSeek C04.Resampler C04.StaticData C04.StaticSound.
Local Open Scope Z_scope.

#[global] Instance SOps_f32 : SOps f32 := {|
  s0 := Z32 0; s1 := Z32 1; sadd := add32; ssub := sub32; smul := mul32;
  k_half := dy32 1 (-1); k_1_5 := dy32 3 (-1); k_2 := Z32 2; k_2_5 := dy32 5 (-1);
|}.
#[global] Instance SOps_Q : SOps Q := {|
  s0 := 0%Q; s1 := 1%Q;
  sadd := fun a b => Qred (a + b); ssub := fun a b => Qred (a - b); smul := fun a b => Qred (a * b);
  k_half := (1#2)%Q; k_1_5 := (3#2)%Q; k_2 := 2%Q; k_2_5 := (5#2)%Q;
|}.

(** binary32 frames, binary64 time: what kira computes *)
Definition frame32 : Type := @frame f32.
Definition ssound_b := ssound f64 frame32.
Definition sound_new_b (fuel : nat) (d : sdata f64 frame32) : outcome ssound_b :=
  sound_new frame32 frame_zero fuel d.
Definition on_start_b (s : ssound_b) (c : cmds f64) : outcome ssound_b :=
  on_start_processing frame32 frame_zero s c.

(** exact instance: Q frames, Q time, the cast is the identity *)
Definition frameQ : Type := @frame Q.
Definition ssound_q := ssound Q frameQ.
