(** C04 — proofs about [interpolate_frame]: the polynomial (over Q), the value at fraction 0
    for any operations with two zero laws, those laws for binary32, unit increments. *)
From Coq Require Import ZArith QArith List Bool Lia.
From Flocq Require Import Core IEEE754.BinarySingleNaN.
From KV Require Import Base.IEEE Base.Outcome Base.Num C04.Interp C04.Model.
Import ListNotations.

(** ** exact arithmetic: the cubic and its two interpolation conditions *)
Section OverQ.
  Local Open Scope Q_scope.
  Lemma interp1_Q_poly : forall p c n1 n2 x : Q,
    interp1 p c n1 n2 x ==
      c + ((n1 - p) * (1#2)) * x
        + (p - c * (5#2) + n1 * 2 - n2 * (1#2)) * x * x
        + ((n2 - p) * (1#2) + (c - n1) * (3#2)) * x * x * x.
  Proof.
    intros. unfold interp1. cbn [sadd ssub smul k_half k_1_5 k_2 k_2_5 SOps_Q].
    repeat rewrite Qred_correct. ring.
  Qed.
  Lemma interp1_Q_at_0 : forall p c n1 n2 : Q, interp1 p c n1 n2 0 == c.
  Proof. intros. rewrite interp1_Q_poly. ring. Qed.
  Lemma interp1_Q_at_1 : forall p c n1 n2 : Q, interp1 p c n1 n2 1 == n1.
  Proof. intros. rewrite interp1_Q_poly. ring. Qed.
  (** Hermite: the slope at 0 is the central difference (n1 - p)/2, at 1 it is (n2 - c)/2 *)
  Lemma interp1_Q_slopes : forall p c n1 n2 : Q,
    let c1 := (n1 - p) * (1#2) in
    let c2 := p - c * (5#2) + n1 * 2 - n2 * (1#2) in
    let c3 := (n2 - p) * (1#2) + (c - n1) * (3#2) in
    c1 == (n1 - p) / 2 /\ c1 + 2 * c2 + 3 * c3 == (n2 - c) / 2.
  Proof. intros. subst c1 c2 c3. split; field. Qed.
  (** linear data is reproduced exactly at every fraction *)
  Lemma interp1_Q_linear : forall a b x : Q,
    interp1 (a - b) a (a + b) (a + 2 * b) x == a + b * x.
  Proof. intros. rewrite interp1_Q_poly. ring. Qed.
End OverQ.

(** ** fraction 0 for any operations with the zero laws *)
Section ZeroLaw.
  Context {S : Type} {SO : SOps S}.
  Variable fin : S -> Prop.        (* finite values *)
  Variable isz : S -> Prop.        (* the zeros *)
  Hypothesis isz_dec : forall x, isz x \/ ~ isz x.
  Hypothesis isz_fin : forall x, isz x -> fin x.
  Hypothesis mul_zero : forall x z, fin x -> isz z -> isz (smul x z).
  Hypothesis add_zero_l : forall a x, isz a -> fin x -> ~ isz x -> sadd a x = x.
  Hypothesis add_zero_z : forall a x, isz a -> isz x -> isz (sadd a x).

  Lemma zero_plus_fin : forall a x, isz a -> fin x -> fin (sadd a x) /\ (~ isz x -> sadd a x = x) /\ (isz x -> isz (sadd a x)).
  Proof.
    intros a x Ha Hx. destruct (isz_dec x) as [Hz|Hz].
    - split; [apply isz_fin, add_zero_z; assumption|]. split; [tauto|]. intros _. apply add_zero_z; assumption.
    - rewrite (add_zero_l a x Ha Hx Hz). split; [assumption|]. split; [reflexivity | tauto].
  Qed.

  (** [((c3*z + c2)*z + c1)*z + c0] with [z] a zero and finite coefficients *)
  Lemma horner_at_zero : forall c0 c1 c2 c3 z,
    isz z -> fin c0 -> fin c1 -> fin c2 -> fin c3 ->
    (~ isz c0 -> horner c0 c1 c2 c3 z = c0) /\ (isz c0 -> isz (horner c0 c1 c2 c3 z)).
  Proof.
    intros c0 c1 c2 c3 z Hz H0 H1 H2 H3. unfold horner.
    destruct (zero_plus_fin (smul c3 z) c2 (mul_zero c3 z H3 Hz) H2) as (F2 & _ & _).
    destruct (zero_plus_fin _ c1 (mul_zero _ z F2 Hz) H1) as (F1 & _ & _).
    destruct (zero_plus_fin _ c0 (mul_zero _ z F1 Hz) H0) as (_ & A & B).
    split; assumption.
  Qed.

  (** hence the interpolation at fraction zero returns [current], exactly unless [current]
      is itself a zero (then the result is a zero: the sign of zero may differ) *)
  Lemma interp1_at_zero : forall p c n1 n2 z,
    isz z -> fin c ->
    fin (smul (ssub n1 p) k_half) ->
    fin (ssub (sadd (ssub p (smul c k_2_5)) (smul n1 k_2)) (smul n2 k_half)) ->
    fin (sadd (smul (ssub n2 p) k_half) (smul (ssub c n1) k_1_5)) ->
    (~ isz c -> interp1 p c n1 n2 z = c) /\ (isz c -> isz (interp1 p c n1 n2 z)).
  Proof.
    intros p c n1 n2 z Hz Hc H1 H2 H3. apply (horner_at_zero c _ _ _ z Hz Hc H1 H2 H3).
  Qed.
End ZeroLaw.

(** ** the zero laws hold in binary32 (for all finite values; no rounding is involved) *)
Definition fin32 (x : f32) : Prop := is_finite x = true.
Definition isz32 (x : f32) : Prop := exists s, x = B754_zero s.

Lemma isz32_dec : forall x, isz32 x \/ ~ isz32 x.
Proof.
  intros [s| s | |s m e H]; [left; eexists; reflexivity| | |]; right; intros [s' Hs]; discriminate.
Qed.
Lemma isz32_fin : forall x, isz32 x -> fin32 x.
Proof. intros x [s ->]. reflexivity. Qed.
Lemma mul32_zero : forall x z, fin32 x -> isz32 z -> isz32 (mul32 x z).
Proof.
  intros x z Hx [s ->]. destruct x as [sx|sx| |sx m e H]; try discriminate Hx; eexists; reflexivity.
Qed.
Lemma add32_zero_l : forall a x, isz32 a -> fin32 x -> ~ isz32 x -> add32 a x = x.
Proof.
  intros a x [s ->] Hx Hnz. destruct x as [sx|sx| |sx m e H]; try discriminate Hx.
  - exfalso; apply Hnz; eexists; reflexivity.
  - reflexivity.
Qed.
Lemma add32_zero_z : forall a x, isz32 a -> isz32 x -> isz32 (add32 a x).
Proof.
  intros a x [s ->] [s' ->]. destruct s, s'; eexists; reflexivity.
Qed.

Lemma interp1_at_zero_b32 : forall (p c n1 n2 z : f32),
  isz32 z -> fin32 c ->
  fin32 (mul32 (sub32 n1 p) (dy32 1 (-1))) ->
  fin32 (sub32 (add32 (sub32 p (mul32 c (dy32 5 (-1)))) (mul32 n1 (Z32 2))) (mul32 n2 (dy32 1 (-1)))) ->
  fin32 (add32 (mul32 (sub32 n2 p) (dy32 1 (-1))) (mul32 (sub32 c n1) (dy32 3 (-1)))) ->
  (~ isz32 c -> interp1 p c n1 n2 z = c) /\ (isz32 c -> isz32 (interp1 p c n1 n2 z)).
Proof.
  intros p c n1 n2 z. 
  exact (interp1_at_zero fin32 isz32 isz32_dec isz32_fin mul32_zero add32_zero_l add32_zero_z p c n1 n2 z).
Qed.

(** the sign-of-zero caveat is real: current = -0.0 between zeros comes out as +0.0 *)
Lemma interp1_negzero_witness :
  let nz : f32 := B754_zero true in let pz : f32 := B754_zero false in
  interp1 pz nz pz pz pz = pz.
Proof. vm_compute. reflexivity. Qed.

(** ** unit increments: [sample_rate as f64 * 1.0 * (1.0 / sample_rate as f64)] *)
Definition unit_increment (sr : Z) : f64 := mul64 (mul64 (Z64 sr) (Z64 1)) (div64 (Z64 1) (Z64 sr)).
Definition is_unit (sr : Z) : bool := Z.eqb (bits_of_f64 (unit_increment sr)) (bits_of_f64 (Z64 1)).
Definition standard_rates : list Z :=
  [8000; 11025; 16000; 22050; 32000; 44100; 48000; 88200; 96000; 176400; 192000]%Z.
Lemma unit_increment_standard : forallb is_unit standard_rates = true.
Proof. vm_compute. reflexivity. Qed.
Lemma unit_increment_49 : is_unit 49 = false.
Proof. vm_compute. reflexivity. Qed.
