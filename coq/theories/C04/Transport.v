(** C04 — [Transport] (crates/kira/src/sound/transport.rs), integer part.
    [usize] is a non-negative [Z]; checked arithmetic as in a debug build ([sub_chk]/[add_chk]
    give [Panic Overflow]); every [while] gets fuel and returns [Hang] when it runs out, so
    [fuel] is an upper bound on the iterations of one loop execution.
    Loop regions arrive here already converted to frame indices (conversion:
    [C04.StaticData.region_samples]). *)
From Coq Require Import ZArith List Bool.
From KV Require Import Base.Outcome.
Local Open Scope Z_scope.

Record transport := { t_pos : Z; t_loop : option (Z * Z); t_playing : bool }.

(** [.filter(|(loop_start, loop_end)| loop_end > loop_start)]: an empty or inverted region is ignored *)
Definition filter_region (lr : option (Z * Z)) : option (Z * Z) :=
  match lr with
  | Some (ls, le) => if le >? ls then Some (ls, le) else None
  | None => None
  end.

(** [Transport::new]: reversed, the position is [num_frames - 1 - start_position] by two
    [checked_sub]s; if either underflows there is nothing to play: [(0, false)] *)
Definition transport_new (start_position : Z) (loop_region : option (Z * Z)) (reverse : bool)
    (num_frames : Z) : transport :=
  let loop_region := filter_region loop_region in
  let '(position, playing) :=
    (if reverse then
       if (1 <=? num_frames) && (start_position <=? num_frames - 1)
       then (num_frames - 1 - start_position, true)
       else (0, false)
     else (start_position, true)) in
  {| t_pos := position; t_loop := loop_region; t_playing := playing |}.

(** [Transport::set_loop_region] *)
Definition transport_set_loop_region (t : transport) (loop_region : option (Z * Z)) : transport :=
  {| t_pos := t_pos t; t_loop := filter_region loop_region; t_playing := t_playing t |}.

(** [while position >= loop_end { position -= loop_end - loop_start }] *)
Fixpoint wrap_down (fuel : nat) (p ls le : Z) : outcome Z :=
  match fuel with
  | O => Hang
  | S f => if p >=? le then
             let! d := sub_chk le ls in let! p' := sub_chk p d in wrap_down f p' ls le
           else Ok p
  end.
(** [while position <= loop_start { position += loop_end - loop_start }] *)
Fixpoint wrap_up_le (fuel : nat) (p ls le : Z) : outcome Z :=
  match fuel with
  | O => Hang
  | S f => if p <=? ls then
             let! d := sub_chk le ls in let! p' := add_chk p d in wrap_up_le f p' ls le
           else Ok p
  end.
(** [while position < loop_start { position += loop_end - loop_start }] *)
Fixpoint wrap_up_lt (fuel : nat) (p ls le : Z) : outcome Z :=
  match fuel with
  | O => Hang
  | S f => if p <? ls then
             let! d := sub_chk le ls in let! p' := add_chk p d in wrap_up_lt f p' ls le
           else Ok p
  end.

Section Fuel.
  Variable fuel : nat.

  (** [Transport::increment_position] *)
  Definition increment_position (t : transport) (num_frames : Z) : outcome transport :=
    if negb (t_playing t) then Ok t
    else
      let! p := add_chk (t_pos t) 1 in
      let! p := match t_loop t with
                | Some (ls, le) => wrap_down fuel p ls le
                | None => Ok p
                end in
      Ok {| t_pos := p; t_loop := t_loop t;
            t_playing := if p >=? num_frames then false else t_playing t |}.

  (** [Transport::decrement_position] *)
  Definition decrement_position (t : transport) : outcome transport :=
    if negb (t_playing t) then Ok t
    else
      let! p := match t_loop t with
                | Some (ls, le) => wrap_up_le fuel (t_pos t) ls le
                | None => Ok (t_pos t)
                end in
      if p =? 0 then Ok {| t_pos := p; t_loop := t_loop t; t_playing := false |}
      else Ok {| t_pos := p - 1; t_loop := t_loop t; t_playing := t_playing t |}.

  (** [Transport::seek_to] *)
  Definition transport_seek_to (t : transport) (position num_frames : Z) : outcome transport :=
    let! p := match t_loop t with
              | Some (ls, le) =>
                  if position >? t_pos t then wrap_down fuel position ls le
                  else wrap_up_lt fuel position ls le
              | None => Ok position
              end in
    Ok {| t_pos := p; t_loop := t_loop t;
          t_playing := if p >=? num_frames then false else t_playing t |}.

  (** histories of transport operations *)
  Inductive top := TInc | TDec | TSeek (position : Z) | TSetLoop (loop_region : option (Z * Z)).
  Definition tstep (num_frames : Z) (t : transport) (o : top) : outcome transport :=
    match o with
    | TInc => increment_position t num_frames
    | TDec => decrement_position t
    | TSeek p => transport_seek_to t p num_frames
    | TSetLoop lr => Ok (transport_set_loop_region t lr)
    end.
  Fixpoint trun (num_frames : Z) (t : transport) (ops : list top) : outcome transport :=
    match ops with
    | nil => Ok t
    | o :: ops' => let! t' := tstep num_frames t o in trun num_frames t' ops'
    end.
End Fuel.
