(** C04 — property theorems (statements closed by [exact]). *)
From Coq Require Import ZArith QArith List Bool.
From KV Require Import Base.Outcome Base.Num C04.Model C04.ProofsTransport.
Import ListNotations.
Local Open Scope Z_scope.

(** Under the guard (start inside the sound, loop region [0 <= ls < le <= N]) every history of
    increments, decrements, seeks and [set_loop_region]s with well-formed regions runs to the
    end: no panic, no hang (each loop ends within [fuel] iterations for any bound above the
    length and the seek targets), and while [playing] the position is inside the sound. *)
Theorem transport_safe :
  forall (fuel : nat) (N start : Z) (lr : option (Z * Z)) (reverse : bool) (ops : list top),
    0 <= start -> start < N -> N < u64_max -> N < Z.of_nat fuel -> wf_loop N lr ->
    Forall (wf_top N fuel) ops ->
    exists t t', transport_new start lr reverse N = Ok t /\ trun fuel N t ops = Ok t' /\
                 0 <= t_pos t' /\ (t_playing t' = true -> t_pos t' < N) /\ wf_loop N (t_loop t').
Proof. exact transport_safe_all. Qed.

Theorem transport_safe_refuted_empty_region :
  forall (fuel : nat) (p ls N : Z),
    0 <= p -> p + 1 <= u64_max -> ls <= p + 1 ->
    increment_position fuel {| t_pos := p; t_loop := Some (ls, ls); t_playing := true |} N = Hang.
Proof. exact increment_empty_region_hangs. Qed.

Theorem transport_safe_refuted_empty_region_backward :
  forall (fuel : nat) (p ls : Z),
    0 <= p -> p <= ls -> ls <= u64_max ->
    decrement_position fuel {| t_pos := p; t_loop := Some (ls, ls); t_playing := true |} = Hang.
Proof. exact decrement_empty_region_hangs. Qed.

Theorem transport_safe_refuted_inverted_region :
  forall (fuel : nat) (p ls le N : Z),
    0 <= p -> p + 1 <= u64_max -> le < ls -> le <= p + 1 ->
    increment_position (S fuel) {| t_pos := p; t_loop := Some (ls, le); t_playing := true |} N = Panic Overflow.
Proof. exact increment_inverted_region_panics. Qed.

Theorem transport_safe_refuted_inverted_region_backward :
  forall (fuel : nat) (p ls le : Z),
    le < ls -> p <= ls ->
    decrement_position (S fuel) {| t_pos := p; t_loop := Some (ls, le); t_playing := true |} = Panic Overflow.
Proof. exact decrement_inverted_region_panics. Qed.

Theorem transport_safe_refuted_reverse_start_beyond_end :
  forall (start : Z) (lr : option (Z * Z)) (N : Z),
    0 <= N -> N <= start -> transport_new start lr true N = Panic Overflow.
Proof. exact transport_new_reverse_beyond_end_panics. Qed.
