(** C04 — property theorems (statements closed by [exact]). *)
From Coq Require Import ZArith QArith Qround List Bool.
From Flocq Require Import IEEE754.BinarySingleNaN.
From KV Require Import Base.IEEE Base.Outcome Base.Num C04.Model.
From KV Require Import C04.ProofsTransport C04.ProofsSeek C04.ProofsInterp C04.ProofsSound C04.ProofsSeq C04.ProofsResample.
Import ListNotations.
Local Open Scope Z_scope.

(** For ANY start position, ANY requested loop regions (empty and inverted ones included: they
    are ignored), every history of increments, decrements, seeks and [set_loop_region]s runs to
    the end: no panic, no hang.  [B] is any bound on the length, the start and the loop ends;
    each loop of the transport (the wraps of increment / decrement) ends within [fuel] iterations
    for any [fuel] above [B]; a seek target is ANY [usize] ([wf_top]: [0 <= p <= u64_max]) — the
    seek has no loop since the repair of F40. *)
Theorem transport_safe :
  forall (fuel : nat) (N B start : Z) (lr : option (Z * Z)) (reverse : bool) (ops : list top),
    0 <= start -> start < B -> N <= B -> B < u64_max -> B < Z.of_nat fuel -> req_loop B lr ->
    Forall (wf_top B) ops ->
    exists t', trun fuel N (transport_new start lr reverse N) ops = Ok t' /\
               0 <= t_pos t' /\ (t_playing t' = true -> t_pos t' < B) /\ wf_loop B (t_loop t').
Proof. exact transport_safe_all. Qed.

(** Under the property's guard (start inside the sound, loop regions not beyond it) a playing
    transport is always inside the sound. *)
Theorem transport_safe_guarded :
  forall (fuel : nat) (N start : Z) (lr : option (Z * Z)) (reverse : bool) (ops : list top),
    0 <= start -> start < N -> N < u64_max -> N < Z.of_nat fuel -> req_loop N lr ->
    Forall (wf_top N) ops ->
    exists t', trun fuel N (transport_new start lr reverse N) ops = Ok t' /\
               0 <= t_pos t' /\ (t_playing t' = true -> t_pos t' < N) /\ wf_loop N (t_loop t').
Proof. exact ProofsSeek.transport_safe_guarded. Qed.

(** The former failures, now positive: an empty or inverted region is ignored ... *)
Theorem empty_or_inverted_region_ignored :
  forall ls le : Z, le <= ls -> filter_region (Some (ls, le)) = None.
Proof. exact filter_region_empty. Qed.

(** ... which is necessary: the wrap loop itself never ends on an empty region and underflows
    on an inverted one ... *)
Theorem wrap_loop_hangs_on_empty_region :
  forall (fuel : nat) (p ls : Z), 0 <= p -> ls <= p -> wrap_down fuel p ls ls = Hang.
Proof. exact wrap_down_empty_hangs. Qed.

Theorem wrap_loop_panics_on_inverted_region :
  forall (fuel : nat) (p ls le : Z), le < ls -> le <= p -> wrap_down (S fuel) p ls le = Panic Overflow.
Proof. exact wrap_down_inverted_panics. Qed.

(** ... and a reversed sound whose start position is at or beyond its end plays nothing. *)
Theorem reverse_start_beyond_end_plays_nothing :
  forall (start : Z) (lr : option (Z * Z)) (N : Z),
    0 <= start -> N <= start ->
    transport_new start lr true N = {| t_pos := 0; t_loop := filter_region lr; t_playing := false |}.
Proof. exact transport_new_reverse_beyond_end. Qed.

(** * [Transport::seek_to] since the repairs of F40 (constant time, total) and F24 ([playing] is set
    from the landing position).

    For every well-formed transport (position a [usize], a playing position below the bound, loop
    region [0 <= ls < le <= B]) and EVERY [usize] target the seek returns — it has no loop, hence
    no fuel — keeps the invariant and the region, and lands where the wrap says: a forward seek
    (target after the current position) below the loop end, a backward one at or after the loop
    start, a target inside the region on itself, always on a position congruent to the target
    modulo the loop length; without a region exactly on the target.  The transport plays
    afterwards exactly if it has landed inside the sound — whatever it did before (F24). *)
Theorem seek_to_total :
  forall (N B : Z), N <= B -> B < u64_max ->
  forall (t : transport) (i : Z), wf_transport B t -> 0 <= i <= u64_max ->
    exists t', transport_seek_to t i N = Ok t' /\ wf_transport B t' /\ t_loop t' = t_loop t /\
      match t_loop t with
      | Some (ls, le) =>
          (t_pos t < i -> t_pos t' < le) /\ (i <= t_pos t -> ls <= t_pos t') /\
          (ls <= i < le -> t_pos t' = i) /\ (t_pos t' - i) mod (le - ls) = 0
      | None => t_pos t' = i
      end /\
      t_playing t' = (t_pos t' <? N).
Proof. exact seek_total. Qed.

(** It computes what the loops it replaced computed: for ANY [usize] position, target and region
    (well-formed or not), whenever the old seek returned — with whatever fuel — the seek with the
    constant-time wrap ([transport_seek_to_wrap_only]: the repair of F40 alone) returns exactly the
    same transport; the seek as it is now returns the same position and region, with [playing] set
    from the position — hence exactly the same transport whenever the transport was playing. *)
Theorem seek_to_wrap_agrees_with_loop :
  forall (fuel : nat) (t : transport) (p N : Z) (t' : transport),
    usize_transport t -> 0 <= p ->
    transport_seek_to_old fuel t p N = Ok t' ->
    transport_seek_to_wrap_only t p N = Ok t' /\
    transport_seek_to t p N = Ok {| t_pos := t_pos t'; t_loop := t_loop t'; t_playing := t_pos t' <? N |} /\
    (t_playing t = true -> transport_seek_to t p N = Ok t').
Proof. exact seek_to_agrees. Qed.

(** F40, REGRESSION.  The old loop `while position >= loop_end { position -= loop_end - loop_start }`
    runs [(p - le) / (le - ls) + 1] times before it can return: with no more fuel than that the
    old seek is [Hang], with more it returns [ls + (p - ls) mod (le - ls)] — which the repaired seek
    returns at once. *)
Theorem seek_loop_old_cost :
  forall (fuel : nat) (t : transport) (p N ls le : Z),
    t_loop t = Some (ls, le) -> 0 <= ls -> ls < le -> le <= u64_max -> 0 <= t_pos t ->
    t_pos t < p -> le <= p -> p <= u64_max ->
    (Z.of_nat fuel <= (p - le) / (le - ls) + 1 -> transport_seek_to_old fuel t p N = Hang) /\
    ((p - le) / (le - ls) + 1 < Z.of_nat fuel ->
       transport_seek_to_old fuel t p N =
         Ok {| t_pos := ls + (p - ls) mod (le - ls); t_loop := t_loop t;
               t_playing := if ls + (p - ls) mod (le - ls) >=? N then false else t_playing t |}) /\
    transport_seek_to t p N =
      Ok {| t_pos := ls + (p - ls) mod (le - ls); t_loop := t_loop t;
            t_playing := ls + (p - ls) mod (le - ls) <? N |}.
Proof. exact seek_old_cost. Qed.

(** the witness: `seek_to(1e300)` saturates to [usize::MAX]; on a loop of 4 frames the old code
    needed 2^62 - 1 subtractions (no fuel below 2^62 lets it return); the repaired seek lands on
    frame 3 = (2^64 - 1) mod 4 *)
Theorem seek_loop_old_cost_witness :
  forall (fuel : nat) (N : Z),
    Z.of_nat fuel < 2 ^ 62 ->
    transport_seek_to_old fuel {| t_pos := 3; t_loop := Some (0, 4); t_playing := true |} u64_max N = Hang /\
    transport_seek_to {| t_pos := 3; t_loop := Some (0, 4); t_playing := true |} u64_max N =
      Ok {| t_pos := 3; t_loop := Some (0, 4); t_playing := 3 <? N |}.
Proof. exact seek_old_cost_witness. Qed.

(** F24 (repaired).  A seek to a target inside a sound without a loop region makes the transport
    play from there — also a transport that has already reached the end (it runs three frames
    ahead of what is heard, so the last frames are still playing then) ... *)
Theorem seek_inside_sound_plays_again :
  forall (t : transport) (i N : Z), t_loop t = None -> 0 <= i < N ->
    transport_seek_to t i N = Ok {| t_pos := i; t_loop := None; t_playing := true |}.
Proof. exact seek_inside_plays. Qed.

(** ... and the static sound plays on from the target: whatever its transport did (playing or at
    the end), as long as the sound has not gone Stopped, [seek_to_index i] with [i] inside the
    sound leaves the transport playing at [i] and has pushed source frame [slice.start + i] into
    the window (the invariant holds, so every theorem about [update_position] applies from there). *)
Theorem seek_inside_sound_resumes_playback :
  forall (T : Type) (A : Type) (azero : A) (fuel : nat) (B : Z) (s : ssound T A) (i : Z),
    SInv A fuel B s -> t_loop (s_tr s) = None -> s_stopped s = false -> 0 <= i < NS A s ->
    seek_to_index A azero s i =
      Ok (set_rs A (set_tr A s {| t_pos := i; t_loop := None; t_playing := true |})
            (push_frame azero (s_rs s) (Some (src_get (s_src s) (soff (s_slice s) + i))) i)) /\
    SInv A fuel B (set_rs A (set_tr A s {| t_pos := i; t_loop := None; t_playing := true |})
            (push_frame azero (s_rs s) (Some (src_get (s_src s) (soff (s_slice s) + i))) i)).
Proof. exact (@seek_inside_resumes). Qed.

(** F24, REGRESSION: before the repair the seek moved a stopped transport without starting it (so
    nothing more was pushed: silence, then Stopped) ... *)
Theorem seek_during_last_frames_old_ignored :
  forall (fuel : nat) (p i N : Z), 0 <= i < N ->
    transport_seek_to_old fuel {| t_pos := p; t_loop := None; t_playing := false |} i N =
      Ok {| t_pos := i; t_loop := None; t_playing := false |}.
Proof. exact seek_inside_old_stays_stopped. Qed.

(** ... the witness: 5 frames played forward to the end, then `seek_to(0.0)` *)
Theorem seek_during_last_frames_witness :
  trun_old 8 5 (transport_new 0 None false 5) (repeat TInc 5 ++ [TSeek 0]) =
    Ok {| t_pos := 0; t_loop := None; t_playing := false |} /\
  trun 8 5 (transport_new 0 None false 5) (repeat TInc 5 ++ [TSeek 0]) =
    Ok {| t_pos := 0; t_loop := None; t_playing := true |}.
Proof. exact seek_at_end_witness. Qed.

(** The only access to the source frames: at most one read per position update, at
    [slice.start + position], inside the (clipped) slice and inside the audio — for ANY slice. *)
Theorem reads_inside_slice :
  forall (T : Type) (NT : Num T) (A : Type) (azero : A) (fuel : nat) (B : Z) (s : ssound T A),
    SInv A fuel B s ->
    push_frame_to_resampler A azero s =
      Ok (set_rs A s (push_frame azero (s_rs s) (pushed A azero s) (t_pos (s_tr s)))) /\
    (t_playing (s_tr s) = true -> t_pos (s_tr s) < NS A s ->
       soff (s_slice s) <= soff (s_slice s) + t_pos (s_tr s) < send A (s_src s) (s_slice s) /\
       send A (s_src s) (s_slice s) <= src_len (s_src s)).
Proof. exact (fun T _ => @push_reads_inside T). Qed.

(** [update_position] is exactly: that one read pushed into the window, one transport step in
    the current direction, the Stopped rule; it cannot fail and keeps the invariant. *)
Theorem update_position_exact :
  forall (T : Type) (NT : Num T) (A : Type) (azero : A) (fuel : nat) (B : Z) (s : ssound T A),
    SInv A fuel B s ->
    exists t',
      (if is_playing_backwards A s then decrement_position fuel (s_tr s)
       else increment_position fuel (s_tr s) (NS A s)) = Ok t' /\
      wf_transport B t' /\ t_loop t' = t_loop (s_tr s) /\
      update_position A azero fuel s =
        Ok (finish A (set_tr A (set_rs A s (push_frame azero (s_rs s) (pushed A azero s) (t_pos (s_tr s)))) t')) /\
      SInv A fuel B (finish A (set_tr A (set_rs A s (push_frame azero (s_rs s) (pushed A azero s) (t_pos (s_tr s)))) t')).
Proof. exact (@update_position_spec). Qed.

(** Every history of position updates, seeks (to ANY [usize] index) and loop region changes (any
    region) keeps the invariant: no panic, no hang, reads inside the slice. *)
Theorem sound_safe :
  forall (T : Type) (NT : Num T) (A : Type) (azero : A) (fuel : nat) (B : Z)
         (ops : list sop) (s : ssound T A),
    SInv A fuel B s -> Forall (wf_sop B) ops ->
    exists s', srun A azero fuel s ops = Ok s' /\ SInv A fuel B s'.
Proof. exact (@srun_safe). Qed.

(** The played sequence, forward: the successor of [p] is [p + 1], wrapped from [le - 1]
    straight to [ls] (a position at or after the loop end joins the loop at
    [ls + (p + 1 - ls) mod (le - ls)]); the sound stops exactly when the successor leaves it. *)
Theorem played_sequence_forward :
  forall (fuel : nat) (N B : Z), B < u64_max -> B < Z.of_nat fuel ->
  forall (p : Z) (lr : option (Z * Z)), 0 <= p -> p < B -> wf_loop B lr ->
    increment_position fuel {| t_pos := p; t_loop := lr; t_playing := true |} N =
      Ok {| t_pos := next_fwd lr p; t_loop := lr; t_playing := negb (next_fwd lr p >=? N) |}.
Proof. exact increment_spec. Qed.

Theorem played_sequence_loop_wrap :
  forall ls le : Z, ls < le -> next_fwd (Some (ls, le)) (le - 1) = ls.
Proof. exact next_fwd_wrap. Qed.

Theorem played_sequence_stays_in_loop :
  forall ls le p : Z, 0 <= ls -> ls < le -> 0 <= p -> next_fwd (Some (ls, le)) p < le.
Proof. exact (next_fwd_in_loop O). Qed.

(** Backward (reverse xor negative rate): [p - 1]; position 0 is the last frame; from the loop
    start straight to [le - 1]. *)
Theorem played_sequence_backward :
  forall (fuel : nat) (B : Z), B < u64_max -> B < Z.of_nat fuel ->
  forall (p : Z) (lr : option (Z * Z)), 0 <= p -> p < B -> wf_loop B lr ->
    match lr with Some (ls, _) => ls < p | None => True end ->
    decrement_position fuel {| t_pos := p; t_loop := lr; t_playing := true |} =
      Ok (if p =? 0 then {| t_pos := 0; t_loop := lr; t_playing := false |}
          else {| t_pos := p - 1; t_loop := lr; t_playing := true |}).
Proof. exact decrement_spec_inside. Qed.

Theorem played_sequence_backward_wrap :
  forall (fuel : nat) (B : Z), B < u64_max -> B < Z.of_nat fuel ->
  forall ls le : Z, 0 <= ls -> ls < le -> le <= B ->
    decrement_position fuel {| t_pos := ls; t_loop := Some (ls, le); t_playing := true |} =
      Ok {| t_pos := le - 1; t_loop := Some (ls, le); t_playing := true |}.
Proof. exact decrement_spec_wrap. Qed.

(** Without a loop, [k] updates from [start] reach [start + k]; the transport is playing
    exactly while that is inside the sound: the last frame pushed is [N - 1]. *)
Theorem played_sequence_end :
  forall (fuel : nat) (N B : Z), N <= B -> B < u64_max -> B < Z.of_nat fuel ->
  forall (k : nat) (start : Z), 0 <= start -> start + Z.of_nat k <= N ->
    trun fuel N {| t_pos := start; t_loop := None; t_playing := true |} (repeat TInc k) =
      Ok {| t_pos := start + Z.of_nat k; t_loop := None;
            t_playing := (Nat.eqb k 0) || (start + Z.of_nat k <? N) |}.
Proof. exact straight_run. Qed.

(** Unit increments (the increment evaluates to exactly 1 and the fraction is 0): exactly one
    position update per output frame, the fraction stays 0, the output is the interpolation of
    the window at fraction 0 scaled by the two unit amplitudes.  For any time type with the
    four closed facts (binary64 and Q have them: [unit_facts]). *)
Theorem rate1_one_update_per_frame :
  forall (T : Type) (NT : Num T) (A : Type) (azero : A) (F : Type)
         (interp : A -> A -> A -> A -> F -> A) (cast : T -> F) (ascale : A -> F -> A) (fone : F)
         (fuel : nat) (B : Z),
    nadd n0 n1 = n1 -> nleb n1 n1 = true -> nsub n1 n1 = n0 -> nleb n1 n0 = false ->
    forall s : ssound T A, SInv A fuel B s -> s_fpos s = n0 -> (2 <= fuel)%nat ->
    exists s', update_position A azero fuel s = Ok s' /\ SInv A fuel B s' /\ s_fpos s' = n0 /\
      frame_step A azero F interp cast ascale fone fuel s n1 =
        Ok (s', ascale (ascale (resampler_get interp (s_rs s) (cast n0)) fone) fone).
Proof. exact (@frame_step_unit). Qed.

Theorem unit_facts :
  (@nadd f64 _ n0 n1 = n1 /\ @nleb f64 _ n1 n1 = true /\ @nsub f64 _ n1 n1 = n0 /\ @nleb f64 _ n1 n0 = false) /\
  (@nadd Q _ n0 n1 = n1 /\ @nleb Q _ n1 n1 = true /\ @nsub Q _ n1 n1 = n0 /\ @nleb Q _ n1 n0 = false).
Proof. exact (conj unit_facts_f64 unit_facts_Q). Qed.

(** Interpolation at fraction 0, for any sample operations with the zero laws, if the three
    coefficients are finite: the result is [current], exactly unless [current] is itself a
    zero (then the result is a zero — its sign may differ). *)
Theorem rate1_interp_zero_any :
  forall (S : Type) (SO : SOps S) (fin isz : S -> Prop),
    (forall x, isz x \/ ~ isz x) -> (forall x, isz x -> fin x) ->
    (forall x z, fin x -> isz z -> isz (smul x z)) ->
    (forall a x, isz a -> fin x -> ~ isz x -> sadd a x = x) ->
    (forall a x, isz a -> isz x -> isz (sadd a x)) ->
    forall p c n1 n2 z : S,
      isz z -> fin c ->
      fin (smul (ssub n1 p) k_half) ->
      fin (ssub (sadd (ssub p (smul c k_2_5)) (smul n1 k_2)) (smul n2 k_half)) ->
      fin (sadd (smul (ssub n2 p) k_half) (smul (ssub c n1) k_1_5)) ->
      (~ isz c -> interp1 p c n1 n2 z = c) /\ (isz c -> isz (interp1 p c n1 n2 z)).
Proof. exact (@interp1_at_zero). Qed.

(** The same in binary32 (the zero laws hold there for all finite values): bit-for-bit. *)
Theorem rate1_bit_exact_b32 :
  forall (p c n1 n2 z : f32),
    isz32 z -> fin32 c ->
    fin32 (mul32 (sub32 n1 p) (dy32 1 (-1))) ->
    fin32 (sub32 (add32 (sub32 p (mul32 c (dy32 5 (-1)))) (mul32 n1 (Z32 2))) (mul32 n2 (dy32 1 (-1)))) ->
    fin32 (add32 (mul32 (sub32 n2 p) (dy32 1 (-1))) (mul32 (sub32 c n1) (dy32 3 (-1)))) ->
    (~ isz32 c -> interp1 p c n1 n2 z = c) /\ (isz32 c -> isz32 (interp1 p c n1 n2 z)).
Proof. exact interp1_at_zero_b32. Qed.

(** the sign-of-zero caveat is real *)
Theorem rate1_sign_of_zero_caveat :
  let nz : f32 := B754_zero true in let pz : f32 := B754_zero false in
  interp1 pz nz pz pz pz = pz.
Proof. exact interp1_negzero_witness. Qed.

Theorem unit_increment_standard_rates :
  forallb is_unit standard_rates = true.
Proof. exact unit_increment_standard. Qed.

Theorem unit_increment_refuted_49 :
  is_unit 49 = false.
Proof. exact unit_increment_49. Qed.

(** The interpolation polynomial (exact arithmetic): it passes through [current] at 0 and
    [next_1] at 1, with the central-difference slopes of a Hermite spline. *)
Theorem hermite_polynomial :
  (forall p c n1 n2 x : Q,
    interp1 p c n1 n2 x ==
      c + ((n1 - p) * (1#2)) * x
        + (p - c * (5#2) + n1 * 2 - n2 * (1#2)) * x * x
        + ((n2 - p) * (1#2) + (c - n1) * (3#2)) * x * x * x)%Q.
Proof. exact interp1_Q_poly. Qed.

Theorem hermite_interpolates :
  (forall p c n1 n2 : Q, interp1 p c n1 n2 0 == c /\ interp1 p c n1 n2 1 == n1)%Q.
Proof. exact (fun p c n1 n2 => conj (interp1_Q_at_0 p c n1 n2) (interp1_Q_at_1 p c n1 n2)). Qed.

Theorem hermite_slopes :
  (forall p c n1 n2 : Q,
    let c1 := (n1 - p) * (1#2) in
    let c2 := p - c * (5#2) + n1 * 2 - n2 * (1#2) in
    let c3 := (n2 - p) * (1#2) + (c - n1) * (3#2) in
    c1 == (n1 - p) / 2 /\ c1 + 2 * c2 + 3 * c3 == (n2 - c) / 2)%Q.
Proof. exact interp1_Q_slopes. Qed.

Theorem hermite_reproduces_lines :
  (forall a b x : Q, interp1 (a - b) a (a + b) (a + 2 * b) x == a + b * x)%Q.
Proof. exact interp1_Q_linear. Qed.

(** The resampling law (exact arithmetic): one output frame is the interpolation of the
    current window at the current fraction; then exactly floor(fraction + increment) position
    updates happen and the fractional part remains (so integer position + fraction accumulates
    the increments exactly, and the fraction stays in [0, 1)). *)
Theorem resample_law :
  (forall (A : Type) (azero : A) (F : Type) (interp : A -> A -> A -> A -> F -> A) (cast : Q -> F)
         (ascale : A -> F -> A) (fone : F) (fuel : nat) (B : Z) (s : ssound Q A) (inc : Q),
    SInv A fuel B s -> 0 <= s_fpos s -> 0 <= inc -> (Qfloor (s_fpos s + inc) < Z.of_nat fuel)%Z ->
    exists s1 s',
      update_n A azero fuel (Z.to_nat (Qfloor (s_fpos s + inc))) (set_fpos A s (Qred (s_fpos s + inc))) = Ok s1 /\
      frame_step A azero F interp cast ascale fone fuel s inc =
        Ok (s', ascale (ascale (resampler_get interp (s_rs s) (cast (s_fpos s))) fone) fone) /\
      SInv A fuel B s' /\ s' = set_fpos A s1 (s_fpos s') /\
      s_fpos s' == s_fpos s + inc - inject_Z (Qfloor (s_fpos s + inc)) /\ 0 <= s_fpos s' /\ s_fpos s' < 1)%Q.
Proof. exact frame_step_Q. Qed.

(** Where [position()] and the seeks are measured from.  In a straight forward run the window
    holds the three frames before the transport position; [position()] names slot 1 (the frame
    being heard), one update moves both by one frame ... *)
Theorem position_reports :
  forall (T : Type) (NT : Num T) (A : Type) (azero : A) (fuel : nat) (B : Z) (s : ssound T A),
    SInv A fuel B s -> straight A s -> t_pos (s_tr s) + 1 < NS A s ->
    exists s', update_position A azero fuel s = Ok s' /\ SInv A fuel B s' /\ straight A s' /\
               t_pos (s_tr s') = t_pos (s_tr s) + 1 /\
               current_frame_index (s_rs s') = current_frame_index (s_rs s) + 1.
Proof. exact (@straight_update). Qed.

(** ... and [seek_by] measures from the transport position, exactly three frames ahead of the
    frame [position()] names: this contradicts "within one frame" (known finding F19). *)
Theorem seek_by_offset :
  forall (T : Type) (NT : Num T) (A : Type) (s : ssound T A) (a : T),
    straight A s ->
    seek_by_index A s a =
      ntoU64 (nmul (nadd (ndiv (nofZ (current_frame_index (s_rs s) + 3)) (nofZ (s_sr s))) a) (nofZ (s_sr s))).
Proof. exact (@seek_by_from_push_position). Qed.
