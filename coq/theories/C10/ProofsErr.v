(** C10 — decode errors stop the sound and reach the handle; the lingering thread of a sound whose
    removed track waits in the unused-resource queue (F31). *)
From Coq Require Import ZArith List Bool Lia.
From KV Require Import C10.Model C10.ProofsBase C10.ProofsLive.
Import ListNotations.
Local Open Scope Z_scope.

(** * F31: removed track not yet drained => the thread sleeps for ever *)
Definition no_drain (e : event) : bool := match e with GDrain | GDropSound => false | _ => true end.
Record Linger (cfg : config) (s : state) : Prop := {
  j_limbo : a_where s = Limbo;
  j_ns : a_psm s <> Stopped;
  j_A : IA s;
  j_top : d_pc (st_d s) = PcTop;
  j_run : d_status (st_d s) = DRunning;
  j_full : cf_cap cfg <= sh_n s;
}.
Lemma linger_step cfg s e :
  no_drain e = true -> Linger cfg s ->
  Linger cfg (step cfg s e) /\
  d_sleeps (st_d (step cfg s e)) = (d_sleeps (st_d s) + (if is_D e then 1 else 0))%nat.
Proof.
  intros He [Hl Hn HA Ht Hr Hf].
  destruct e; try discriminate; cbn [step g_step is_D].
  - (* D *)
    unfold d_step. rewrite Hr, Ht.
    assert (E6 : sh_state s =? 6 = false).
    { apply Z.eqb_neq. intros H. apply Hn, state_code_6. rewrite <- HA. exact H. }
    rewrite E6. unfold abandoned. rewrite Hl.
    assert (Ef : cf_cap cfg <=? sh_n s = true) by (apply Z.leb_le; exact Hf). rewrite Ef.
    split; [split; cbn; auto|cbn; lia].
  - unfold a_start. rewrite Hl. split; [destruct (a_rem s); split; auto|destruct (a_rem s); lia].
  - unfold a_proc. rewrite Hl. split; [split; auto|lia].
  - unfold a_frame. rewrite Hl. split; [split; auto|lia].
  - destruct (g_handle s); (split; [split; cbn; auto|cbn; lia]).
  - destruct (g_handle s); (split; [split; cbn; auto|cbn; lia]).
  - destruct (g_handle s); (split; [split; cbn; auto|cbn; lia]).
  - destruct (g_handle s); (split; [split; cbn; auto|cbn; lia]).
  - destruct (g_handle s); (split; [split; cbn; auto|cbn; lia]).
  - split; [split; cbn; auto|cbn; lia].
  - rewrite Hl. split; [split; auto|lia].
  - split; [split; cbn; auto|cbn; lia].
  - split; [split; cbn; auto|cbn; lia].
Qed.
Lemma linger_run cfg sched : forall s,
  forallb no_drain sched = true -> Linger cfg s ->
  Linger cfg (run cfg sched s) /\ d_sleeps (st_d (run cfg sched s)) = (d_sleeps (st_d s) + count_D sched)%nat.
Proof.
  induction sched as [|e t IH]; intros s Hs HJ; [split; [exact HJ|unfold count_D; cbn; lia]|].
  cbn in Hs. apply andb_true_iff in Hs. destruct Hs as [He Ht].
  destruct (linger_step cfg s e He HJ) as [HJ' Hsl].
  destruct (IH (step cfg s e) Ht HJ') as [HJ'' Hsl'].
  split; [exact HJ''|]. cbn [run fold_left]. change (fold_left (step cfg) t (step cfg s e)) with (run cfg t (step cfg s e)).
  rewrite Hsl', Hsl. unfold count_D. cbn. destruct (is_D e); cbn; lia.
Qed.

(** * Errors *)
Inductive err_state (s : state) : Prop :=
| NoError : l_raised s = [] -> sh_err s = false -> sh_err_slot s = None -> l_popped s = [] -> err_state s
| OneError (e : Z) :
    l_raised s = [e] -> sh_err s = true -> d_status (st_d s) = DEnded ->
    (sh_err_slot s = Some e /\ l_popped s = []) \/ (sh_err_slot s = None /\ l_popped s = [e]) -> err_state s.

Lemma d_step_err cfg s :
  d_status (st_d s) = DRunning ->
  (exists d e, d_step cfg s = d_raise s d e) \/
  (sh_err (d_step cfg s) = sh_err s /\ l_raised (d_step cfg s) = l_raised s /\
   sh_err_slot (d_step cfg s) = sh_err_slot s /\ l_popped (d_step cfg s) = l_popped s).
Proof.
  intros Hr. unfold d_step. rewrite Hr.
  assert (Hf : forall d, sh_err (d_fetch cfg s d) = sh_err s /\ l_raised (d_fetch cfg s d) = l_raised s /\
                         sh_err_slot (d_fetch cfg s d) = sh_err_slot s /\ l_popped (d_fetch cfg s d) = l_popped s).
  { intros d. destruct (d_fetch_frame cfg s d) as (_&Hg&_&H1&H2&H3&_). unfold game_part in Hg. injection Hg as _ _ Hg. auto. }
  assert (Hd : forall d fr, sh_err (d_deliver cfg s d fr) = sh_err s /\ l_raised (d_deliver cfg s d fr) = l_raised s /\
                         sh_err_slot (d_deliver cfg s d fr) = sh_err_slot s /\ l_popped (d_deliver cfg s d fr) = l_popped s).
  { intros d fr. destruct (d_deliver_frame cfg s d fr) as (_&Hg&_&H1&H2&H3&_). unfold game_part in Hg. injection Hg as _ _ Hg. auto. }
  destruct (d_pc (st_d s)).
  - destruct (sh_state s =? 6); [right; cbn; auto|].
    destruct (abandoned s); [right; cbn; auto|].
    destruct (cf_cap cfg <=? sh_n s); [right; cbn; auto|].
    destruct (c_seek s); [right; cbn; auto|right; apply Hf].
  - destruct (dec_seek cfg (d_dec (st_d s)) i) as [dec [j|e]]; [right; apply Hf|left; eauto].
  - destruct (dec_seek cfg (d_dec (st_d s)) idx) as [dec [j|e]]; [right; cbn; auto|left; eauto].
  - destruct (dec_decode cfg (d_dec (st_d s))) as [dec [[tstart len]|e]]; [|left; eauto].
    destruct (chunk_lookup _ idx); [right; apply Hd|right; cbn; auto].
Qed.

Lemma other_step_errfields cfg s e :
  is_D e = false ->
  sh_err (step cfg s e) = sh_err s /\ l_raised (step cfg s e) = l_raised s /\
  ((sh_err_slot (step cfg s e) = sh_err_slot s /\ l_popped (step cfg s e) = l_popped s) \/
   (exists x, sh_err_slot s = Some x /\ sh_err_slot (step cfg s e) = None /\ l_popped (step cfg s e) = x :: l_popped s)).
Proof.
  intros He. split; [apply other_step_err, He|].
  destruct e; try discriminate; cbn [step g_step];
    try (unfold a_start, a_on_start, a_proc, a_frame; break; cbn; auto; fail).
  destruct (g_handle s); [|auto]. cbn. destruct (sh_err_slot s) as [x|]; [|auto].
  split; [reflexivity|]. right. exists x. auto.
Qed.

Lemma step_err_state cfg s e : err_state s -> err_state (step cfg s e).
Proof.
  intros H. destruct (is_D e) eqn:E.
  - destruct e; try discriminate. cbn [step].
    destruct H as [H1 H2 H3 H4|x H1 H2 H3 H4].
    + destruct (d_status (st_d s)) eqn:Est; try (unfold d_step; rewrite Est; apply NoError; assumption).
      destruct (d_step_err cfg s Est) as [(d&x&->)|(A&B&C&F)].
      * apply (OneError _ x); cbn; auto. rewrite H1. reflexivity. left. rewrite H3. auto.
      * apply NoError; congruence.
    + rewrite ended_d_step by exact H3. apply (OneError _ x); assumption.
  - destruct (other_step_errfields cfg s e E) as (A&B&C).
    destruct H as [H1 H2 H3 H4|x H1 H2 H3 H4].
    + destruct C as [[C1 C2]|(y&C1&_)]; [|congruence]. apply NoError; congruence.
    + apply (OneError _ x); try congruence.
      * rewrite other_step_d by exact E. exact H3.
      * destruct C as [[C1 C2]|(y&C1&C2&C3)].
        -- rewrite C1, C2. exact H4.
        -- right. destruct H4 as [[H5 H6]|[H5 H6]]; [|congruence].
           rewrite C2, C3, H6. split; [reflexivity|]. congruence.
Qed.
Lemma run_err_state cfg sched s : err_state s -> err_state (run cfg sched s).
Proof. revert s. induction sched as [|e t IH]; intros s H; [exact H|]. cbn. apply IH, step_err_state, H. Qed.
Lemma init_err_state cfg : err_state (init cfg).
Proof. unfold init. destruct (dec_seek cfg _ _) as [dec [j|e]]; apply NoError; reflexivity. Qed.

(** a Stopped sound is silent and stays Stopped, whatever happens *)
Lemma stopped_silent_step cfg s e :
  a_psm s = Stopped -> a_rem s = O ->
  a_rem (step cfg s e) = O /\ exists k, l_out (step cfg s e) = zeros k ++ l_out s.
Proof.
  intros Hp Hr. destruct e; cbn [step g_step].
  - destruct (d_step_frame cfg s) as (Ha&_&Ho). unfold audio_part in Ha. unfold out_part in Ho.
    injection Ha as _ _ _ _ Ha _ _ _ _. injection Ho as Ho _ _. split; [congruence|exists O; exact Ho].
  - unfold a_start, a_on_start. rewrite Hr. break; cbn; (split; [auto|exists O; reflexivity]).
  - unfold a_proc. rewrite Hr, Hp. destruct (a_where s); try (split; [auto|exists O; reflexivity]).
    destruct (sh_err s); cbn; (split; [reflexivity|exists n; reflexivity]).
  - unfold a_frame. rewrite Hr. destruct (a_where s); (split; [auto|exists O; reflexivity]).
  - break; cbn; (split; [auto|exists O; reflexivity]).
  - break; cbn; (split; [auto|exists O; reflexivity]).
  - break; cbn; (split; [auto|exists O; reflexivity]).
  - break; cbn; (split; [auto|exists O; reflexivity]).
  - break; cbn; (split; [auto|exists O; reflexivity]).
  - cbn; (split; [auto|exists O; reflexivity]).
  - break; cbn; (split; [auto|exists O; reflexivity]).
  - break; cbn; (split; [auto|exists O; reflexivity]).
  - break; cbn; (split; [auto|exists O; reflexivity]).
  - cbn; (split; [auto|exists O; reflexivity]).
  - cbn; (split; [auto|exists O; reflexivity]).
Qed.
Lemma zeros_app a b : zeros a ++ zeros b = zeros (a + b).
Proof. unfold zeros. rewrite <- repeat_app. reflexivity. Qed.
Lemma stopped_silent cfg sched : forall s,
  a_psm s = Stopped -> a_rem s = O ->
  a_psm (run cfg sched s) = Stopped /\ a_rem (run cfg sched s) = O /\
  exists k, l_out (run cfg sched s) = zeros k ++ l_out s.
Proof.
  induction sched as [|e t IH]; intros s Hp Hr; [repeat split; auto; exists O; reflexivity|].
  cbn [run fold_left]. change (fold_left (step cfg) t (step cfg s e)) with (run cfg t (step cfg s e)).
  destruct (stopped_silent_step cfg s e Hp Hr) as [Hr' [k Hk]].
  destruct (IH (step cfg s e) (stopped_final_step cfg s e Hp) Hr') as (A&B&k'&Hk').
  repeat split; auto. exists (k' + k)%nat. rewrite Hk', Hk, app_assoc, zeros_app. reflexivity.
Qed.

(** the first [process] after the flag *)
Lemma a_proc_error s n :
  sh_err s = true -> a_where s = OnTrack -> a_rem s = O ->
  a_psm (a_proc s n) = Stopped /\ sh_state (a_proc s n) = 6 /\ a_rem (a_proc s n) = O /\
  l_out (a_proc s n) = zeros n ++ l_out s /\ sh_ring (a_proc s n) = sh_ring s.
Proof. intros He Hw Hr. unfold a_proc. rewrite Hw, Hr, He. cbn. auto. Qed.

(** ** error_reaches_handle *)
Theorem error_reaches_handle cfg sched1 :
  1 < cf_cap cfg ->
  let s1 := run cfg sched1 (init cfg) in
  forall e, l_raised s1 = [e] ->                       (* some decode / seek call — the k-th, any k — has failed *)
  (* the flag is up, the thread has ended, and the error waits in the handle's 1-slot ring until popped *)
  sh_err s1 = true /\ d_status (st_d s1) = DEnded /\
  ((sh_err_slot s1 = Some e /\ l_popped s1 = []) \/ (sh_err_slot s1 = None /\ l_popped s1 = [e])) /\
  (* the first process after that makes the sound Stopped; it is silent from then on, for ever *)
  (a_where s1 = OnTrack -> a_rem s1 = O ->
   forall n sched2,
     let s2 := run cfg (AProc n :: sched2) s1 in
     a_psm s2 = Stopped /\ sh_state s2 = 6 /\ exists k, l_out s2 = zeros k ++ l_out s1).
Proof.
  intros Hcap s1 e He.
  assert (HE : err_state s1) by apply run_err_state, init_err_state.
  assert (HI : Inv0 cfg s1) by (apply run_Inv0, init_Inv0, Hcap).
  destruct HE as [H1 _ _ _|x H1 H2 H3 H4]; [congruence|].
  assert (x = e) by congruence. subst x.
  split; [exact H2|]. split; [exact H3|]. split; [exact H4|].
  - intros Hw Hr n sched2 s2. subst s2. cbn [run fold_left step].
    change (fold_left (step cfg) sched2 (a_proc s1 n)) with (run cfg sched2 (a_proc s1 n)).
    destruct (a_proc_error s1 n H2 Hw Hr) as (A&B&C&F&_).
    destruct (stopped_silent cfg sched2 (a_proc s1 n) A C) as (A'&_&k&Hk).
    assert (HI2 : Inv0 cfg (run cfg sched2 (a_proc s1 n))).
    { apply run_Inv0. apply (step_Inv0 cfg s1 (AProc n) HI). }
    repeat split; auto.
    + rewrite (i_A _ _ HI2), A'. reflexivity.
    + exists (k + n)%nat. rewrite Hk, F, app_assoc, zeros_app. reflexivity.
Qed.

(** whatever [pop_error] has returned so far is the first (and only) error; nothing else ever is *)
Theorem pop_error_returns_first_error cfg sched :
  let s := run cfg sched (init cfg) in
  forall e, In e (l_popped s) -> l_raised s = [e] /\ l_popped s = [e].
Proof.
  intros s e Hin. assert (HE : err_state s) by apply run_err_state, init_err_state.
  destruct HE as [_ _ _ H4|x H1 _ _ [[_ H4]|[_ H4]]]; try (rewrite H4 in Hin; destruct Hin).
  - subst. auto.
  - contradiction.
Qed.

(** a Stopped sound is unloaded by the next callback *)
Theorem stopped_is_unloaded s :
  a_psm s = Stopped -> a_where s = OnTrack -> a_rem s = O -> a_where (a_start s) = Unloaded.
Proof. intros Hp Hw Hr. unfold a_start. rewrite Hr, Hw, Hp. reflexivity. Qed.
