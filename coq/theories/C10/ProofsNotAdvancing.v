(** C10 — a decoder error stops the sound whatever its playback state: [StreamingSound::process] tests
    [encountered_error] before the parameter / playback-state updates and before the early returns of a
    sound that has nothing to emit (not advancing: Paused, or waiting), so a sound that is Paused when its
    decoder fails is Stopped by the next callback that processes it, silent, and unloaded one callback later.
    ([error_reaches_handle] already quantifies over all reachable states; here the playback state is explicit.) *)
From Coq Require Import ZArith List Bool Lia.
From KV Require Import C10.Model C10.ProofsBase C10.ProofsErr C10.ProofsExamples.
Import ListNotations.
Local Open Scope Z_scope.

(** one [process] call with the error flag raised, from ANY playback state [p] (advancing or not) *)
Theorem error_stops_sound_in_any_playback_state (s : state) (p : pstate) (n : nat) :
  sh_err s = true -> a_where s = OnTrack -> a_rem s = O -> a_psm s = p ->
  let s' := a_proc s n in
  a_psm s' = Stopped /\ sh_state s' = 6 /\
  l_out s' = zeros n ++ l_out s /\ l_obs s' = mones n ++ l_obs s /\
  sh_err_slot s' = sh_err_slot s /\
  a_where (a_start s') = Unloaded.
Proof.
  intros He Hw Hr _. cbv zeta. unfold a_proc. rewrite Hw, Hr, He. cbn. repeat split; reflexivity.
Qed.

(** the hypotheses are met with a Paused sound: packet 1 is played, the sound is paused (fade 0), and only then
    the decoder's 2nd call fails; the handle reads Paused (2) before, Stopped (6) after the next callback,
    unloaded after the one after, nothing but silence is emitted from the pause on, and the error is popped *)
Example error_while_paused_example :
  let cfg := cfg_fault [2] [] None in
  let s1 := run cfg (Ds 4 ++ [AStart; AProc 1; AFrame; GPause 0; AStart; AProc 1] ++ Ds 3) (init cfg) in
  let s2 := run cfg [AStart; AProc 2] s1 in
  let s3 := run cfg [AStart; GPopError; GPopError] s2 in
  (a_psm s1 = Paused /\ sh_state s1 = 2 /\ is_advancing (a_psm s1) = false /\
   sh_err s1 = true /\ a_where s1 = OnTrack /\ a_rem s1 = O /\ l_raised s1 = [1002] /\ d_status (st_d s1) = DEnded) /\
  (a_psm s2 = Stopped /\ sh_state s2 = 6 /\ a_where s2 = OnTrack) /\
  (a_where s3 = Unloaded /\ l_popped s3 = [1002] /\ rev (map out_value (l_out s3)) = [0; -1; -1; -1]).
Proof. vm_compute. repeat split. Qed.
