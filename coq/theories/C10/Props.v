(** C10 — property theorems: statements (as printed by Coq) closed by [exact]. *)
From Coq Require Import ZArith List Bool.
From KV Require Import C10.Model C10.ProofsBase C10.ProofsLive C10.ProofsErr C10.ProofsGap C10.ProofsResume C10.ProofsExamples C10.ProofsNotAdvancing.
Import ListNotations.
Local Open Scope Z_scope.

Theorem thread_ends_when_stopped_or_abandoned :
  forall (cfg : config) (sched0 sched : list event),
       1 < cf_cap cfg ->
       let s := run cfg sched0 (init cfg) in
       end_cause s ->
       (length (cf_packets cfg) + 4 <= count_D sched)%nat ->
       d_status (st_d (run cfg sched s)) = DEnded \/ d_status (st_d (run cfg sched s)) = DNever.
Proof. exact @thread_ends_bounded. Qed.

Theorem thread_ends_at_next_wakeup :
  forall (cfg : config) (sched0 : list event),
       1 < cf_cap cfg ->
       let s := run cfg sched0 (init cfg) in
       end_cause s ->
       d_status (st_d s) = DRunning -> d_pc (st_d s) = PcTop -> d_status (st_d (d_step cfg s)) = DEnded.
Proof. exact @thread_ends_at_next_wakeup. Qed.

Theorem thread_ends_at_eof_and_only_for_a_reason :
  forall (cfg : config) (sched : list event),
       1 < cf_cap cfg ->
       let s := run cfg sched (init cfg) in
       (sh_reached_end s = true -> d_status (st_d s) = DEnded) /\
       (d_status (st_d s) = DEnded ->
        sh_reached_end s = true \/ a_psm s = Stopped \/ a_where s = Gone \/ sh_err s = true) /\
       d_status (st_d s) <> DPanicked.
Proof. exact @thread_end_reasons. Qed.

Theorem no_busy_spin :
  forall (cfg : config) (sched : list event), (d_spin (st_d (run cfg sched (init cfg))) <= 1)%nat.
Proof. exact @no_busy_spin. Qed.

Theorem decoder_step_sleeps_progresses_or_ends :
  forall (cfg : config) (s : state),
       d_status (st_d s) = DRunning ->
       let s' := d_step cfg s in
       d_status (st_d s') <> DRunning \/
       d_sleeps (st_d s') = S (d_sleeps (st_d s)) \/
       (d_good (st_d s) < d_good (st_d s'))%nat \/
       d_spin (st_d s') = S (d_spin (st_d s)) /\ d_pc (st_d s') <> PcTop.
Proof. exact @d_step_classified. Qed.

Theorem thread_lingers_refuted :
  exists (cfg : config) (sched0 : list event),
         let s := run cfg sched0 (init cfg) in
         a_where s = Limbo /\
         (forall sched : list event,
          forallb no_drain sched = true ->
          d_status (st_d (run cfg sched s)) = DRunning /\
          d_sleeps (st_d (run cfg sched s)) = (d_sleeps (st_d s) + count_D sched)%nat).
Proof. exact @thread_lingers_refuted. Qed.

Theorem lingering_thread_ends_after_drain :
  d_status (st_d (run cfg_loop (sched_linger ++ [GDrain; D]) (init cfg_loop))) = DEnded.
Proof. exact @lingering_thread_ends_after_drain. Qed.

Theorem rejected_thread_ends_now :
  let s := run cfg_loop (Ds 3 ++ reject ++ Ds 4) (init cfg_loop) in
       d_status (st_d s) = DEnded /\ a_where s = Gone /\ sh_state s = 0.
Proof. exact @rejected_thread_ends_now. Qed.

Theorem dropped_with_manager_thread_ends_now :
  let s := run cfg_loop (Ds 6 ++ [AStart; AProc 1; AFrame; GDropSound] ++ Ds 6) (init cfg_loop) in
       d_status (st_d s) = DEnded /\ a_where s = Gone.
Proof. exact @dropped_with_manager_thread_ends_now. Qed.

Theorem error_thread_ends_now :
  let s := run cfg_err (Ds 40) (init cfg_err) in
       d_status (st_d s) = DEnded /\
       l_raised s = [1002] /\ sh_err_slot s = Some 1002 /\ dc_ndec (d_dec (st_d s)) = 2.
Proof. exact @error_thread_ends_now. Qed.

Theorem error_reaches_handle :
  forall (cfg : config) (sched1 : list event),
       1 < cf_cap cfg ->
       let s1 := run cfg sched1 (init cfg) in
       forall e : Z,
       l_raised s1 = [e] ->
       sh_err s1 = true /\
       d_status (st_d s1) = DEnded /\
       (sh_err_slot s1 = Some e /\ l_popped s1 = [] \/ sh_err_slot s1 = None /\ l_popped s1 = [e]) /\
       (a_where s1 = OnTrack ->
        a_rem s1 = 0%nat ->
        forall (n : nat) (sched2 : list event),
        let s2 := run cfg (AProc n :: sched2) s1 in
        a_psm s2 = Stopped /\ sh_state s2 = 6 /\ (exists k : nat, l_out s2 = zeros k ++ l_out s1)).
Proof. exact @error_reaches_handle. Qed.

Theorem pop_error_returns_first_error :
  forall (cfg : config) (sched : list event),
       let s := run cfg sched (init cfg) in
       forall e : Z, In e (l_popped s) -> l_raised s = [e] /\ l_popped s = [e].
Proof. exact @pop_error_returns_first_error. Qed.

Theorem stopped_is_unloaded :
  forall s : state,
       a_psm s = Stopped -> a_where s = OnTrack -> a_rem s = 0%nat -> a_where (a_start s) = Unloaded.
Proof. exact @stopped_is_unloaded. Qed.

Theorem error_at_decode_call_k :
  l_raised (run (cfg_fault [1] [] None) (Ds 30) (init (cfg_fault [1] [] None))) = [1001] /\
       l_raised (run (cfg_fault [2] [] None) (Ds 30) (init (cfg_fault [2] [] None))) = [1002] /\
       l_raised (run (cfg_fault [3] [] None) (Ds 30) (init (cfg_fault [3] [] None))) = [1003] /\
       l_raised (run (cfg_fault [] [2] (Some (0, 6))) (Ds 30) (init (cfg_fault [] [2] (Some (0, 6))))) =
       [2002] /\
       l_raised (run (cfg_fault [] [2] None) (Ds 3 ++ [GSeekTo 1] ++ Ds 3) (init (cfg_fault [] [2] None))) =
       [2002] /\
       g_play_err (init (cfg_fault [] [1] None)) = Some 2001 /\
       d_status (st_d (init (cfg_fault [] [1] None))) = DNever.
Proof. exact @error_at_decode_call_k. Qed.

Theorem error_path_example :
  let s :=
         run (cfg_fault [2] [] None)
           (Ds 4 ++
            [AStart; AProc 2; AFrame; AFrame] ++
            Ds 3 ++ [AStart; AProc 2; AStart; GPopError; GPopError; GObsH]) (init (cfg_fault [2] [] None)) in
       a_psm s = Stopped /\
       a_where s = Unloaded /\
       l_popped s = [1002] /\ d_status (st_d s) = DEnded /\ rev (map out_value (l_out s)) = [0; 1; -1; -1].
Proof. exact @error_path_example. Qed.

Theorem end_cause_reachable :
  let s := run cfg_loop (Ds 6 ++ [GStop 0; AStart; AProc 2]) (init cfg_loop) in
       end_cause s /\ d_status (st_d s) = DRunning /\ sh_state s = 6.
Proof. exact @end_cause_reachable. Qed.

Theorem slow_decoder_gaps :
  forall (cfg : config) (sched : list event),
       1 < cf_cap cfg ->
       let s := run cfg sched (init cfg) in
       desc (heard (l_out s)) /\
       (forall it : item, In (OHeard it) (l_out s) -> (it_seq it < d_pushes (st_d s))%nat /\ good_item it) /\
       (forall it : item, In it (l_skipped s) -> it_on_empty it = true).
Proof. exact @slow_decoder_gaps. Qed.

Theorem starved_chunk_silent_and_frozen :
  forall (s : state) (n : nat),
       a_where s = OnTrack ->
       a_rem s = 0%nat ->
       sh_err s = false ->
       is_advancing (fst (psm_update (a_psm s) (Z.of_nat n))) = true ->
       sh_n s < 2 ->
       sh_reached_end s = false ->
       let s' := a_proc s n in
       l_out s' = zeros n ++ l_out s /\
       sh_ring s' = sh_ring s /\
       sh_n s' = sh_n s /\ a_rem s' = 0%nat /\ a_head_heard s' = a_head_heard s /\ l_skipped s' = l_skipped s.
Proof. exact @starved_chunk_silent_and_frozen. Qed.

Theorem starved_frame_is_zero :
  forall (s : state) (r : nat),
       a_where s = OnTrack ->
       a_rem s = S r -> (length (sh_ring s) < 2)%nat -> l_out (a_frame s) = OZero :: l_out s.
Proof. exact @starved_frame_is_zero. Qed.

Theorem starved_between_chunks_loses_nothing :
  let s :=
         run cfg_plain
           (Ds 4 ++
            [AStart; AProc 2; AFrame; AFrame; AProc 3; AStart; AProc 3] ++ Ds 4 ++ [AProc 2; AFrame; AFrame])
           (init cfg_plain) in
       rev (map out_value (l_out s)) = [0; 1; -1; -1; -1; -1; -1; -1; 2; 3] /\ l_skipped s = [].
Proof. exact @starved_between_chunks_loses_nothing. Qed.

Theorem resume_offset :
  forall (cfg : config) (sched : list event),
       1 < cf_cap cfg -> atomic cfg sched (init cfg) -> close (heard (l_out (run cfg sched (init cfg)))).
Proof. exact @resume_offset. Qed.

Theorem atomic_gap_example :
  atomic cfg_plain sched_atomic_gap (init cfg_plain) /\
       (let s := run cfg_plain sched_atomic_gap (init cfg_plain) in
        rev (map out_value (l_out s)) = [0; 1; -1; -1; -1; -1; 3; 4; -1] /\ map it_index (l_skipped s) = [2]).
Proof. exact @atomic_gap_example. Qed.

Theorem resume_offset_midchunk_refuted :
  exists (cfg : config) (sched : list event),
         let s := run cfg sched (init cfg) in
         rev (map out_value (l_out s)) = [0; 1; -1; -1; -1; -1; -1; 7; -1; -1] /\
         map it_index (l_skipped s) = [6; 5; 4; 3; 2] /\ d_status (st_d s) = DEnded.
Proof. exact @resume_offset_midchunk_refuted. Qed.

Theorem error_stops_sound_in_any_playback_state :
  forall (s : state) (p : pstate) (n : nat),
       sh_err s = true ->
       a_where s = OnTrack ->
       a_rem s = 0%nat ->
       a_psm s = p ->
       let s' := a_proc s n in
       a_psm s' = Stopped /\
       sh_state s' = 6 /\
       l_out s' = zeros n ++ l_out s /\
       l_obs s' = mones n ++ l_obs s /\ sh_err_slot s' = sh_err_slot s /\ a_where (a_start s') = Unloaded.
Proof. exact @error_stops_sound_in_any_playback_state. Qed.

Theorem error_while_paused_example :
  let cfg := cfg_fault [2] [] None in
       let s1 := run cfg (Ds 4 ++ [AStart; AProc 1; AFrame; GPause 0; AStart; AProc 1] ++ Ds 3) (init cfg) in
       let s2 := run cfg [AStart; AProc 2] s1 in
       let s3 := run cfg [AStart; GPopError; GPopError] s2 in
       (a_psm s1 = Paused /\
        sh_state s1 = 2 /\
        is_advancing (a_psm s1) = false /\
        sh_err s1 = true /\
        a_where s1 = OnTrack /\ a_rem s1 = 0%nat /\ l_raised s1 = [1002] /\ d_status (st_d s1) = DEnded) /\
       (a_psm s2 = Stopped /\ sh_state s2 = 6 /\ a_where s2 = OnTrack) /\
       a_where s3 = Unloaded /\ l_popped s3 = [1002] /\ rev (map out_value (l_out s3)) = [0; -1; -1; -1].
Proof. exact @error_while_paused_example. Qed.
