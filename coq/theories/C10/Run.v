(** C10 — model side of the correspondence check.  The harness drives the real streaming sound with
    a scripted [Decoder] whose every [decode]/[seek] call (except seek #1, made by [play] itself)
    waits for a permit (paced mode), or runs freely (free mode; the harness then acts only when the
    thread is quiescent: ended, asleep on a full ring, or spinning).  The same scenario is run here
    with the schedule that pacing enforces. *)
From Coq Require Import ZArith List Bool.
From KV Require Import Base.Corr C10.Model.
Import ListNotations.
Local Open Scope Z_scope.

Inductive revent :=
| RPermit                      (* paced: let the pending decoder call return *)
| RCb (chunks : list Z)        (* a device callback: on_start_processing, then process per internal chunk *)
| RCbPaused (n : Z)            (* a callback of n frames while the parent track is paused: on_start_processing only *)
| RG (e : event)               (* a gameplay-thread operation / observation *)
| RRejectEarly                 (* only as the first event: the full track rejected the sound before the new thread's first test *)
| RFree                        (* the harness stops pacing: from now on the thread runs freely *)
| RObsF.                       (* free mode: 0 asleep or blocked, 1 thread ended, 2 spinning, 3 panicked, 4 never spawned *)

(** configuration with integers only: packets, seek granularity, failing decode calls (listed / from),
    failing seek calls (listed / from), start position, loop region, ring capacity *)
Inductive rcfg :=
| RCfg (packets : list Z) (gran : Z) (dec_at : list Z) (dec_from : Z) (seek_at : list Z) (seek_from : Z)
       (start : Z) (lp : option (Z * Z)) (cap : Z).
Definition mk_cfg (c : rcfg) : config :=
  match c with
  | RCfg packets gran dec_at dec_from seek_at seek_from start lp cap =>
      {| cf_packets := packets; cf_gran := Z.to_nat gran;
         cf_faults := {| f_dec_at := dec_at; f_dec_from := dec_from; f_seek_at := seek_at; f_seek_from := seek_from |};
         cf_start := start; cf_loop := lp; cf_cap := cap |}
  end.

Inductive case := CRun (free : bool) (cfg : rcfg) (evs : list revent).

Definition at_top (s : state) : bool := match d_pc (st_d s) with PcTop => true | _ => false end.
Definition running (s : state) : bool := match d_status (st_d s) with DRunning => true | _ => false end.
Definition ring_full (cfg : config) (s : state) : bool := cf_cap cfg <=? sh_n s.
Definition spin_limit : nat := 8.

(** what the real thread does on its own between two actions of the harness *)
Fixpoint d_auto (free : bool) (cfg : config) (fuel : nat) (s : state) : state :=
  match fuel with
  | O => s
  | S fuel' =>
      if running s && (free || at_top s)
         && ((sh_state s =? 6) || abandoned s || (negb (at_top s && ring_full cfg s) && (d_spin (st_d s) <? spin_limit)%nat))
      then d_auto free cfg fuel' (d_step cfg s) else s
  end.
Definition auto_fuel (cfg : config) : nat := (2 * Z.to_nat (cf_cap cfg) + 4 * length (cf_packets cfg) + 64)%nat.
Definition settle (free : bool) (cfg : config) (s : state) : state := d_auto free cfg (auto_fuel cfg) s.

Fixpoint frames (n : nat) (s : state) : state :=
  match n with O => s | S n' => frames n' (a_frame s) end.
Definition on_track (s : state) : bool := match a_where s with OnTrack => true | _ => false end.
(** the device output is recorded for every callback; a sound that is not (or no longer) processed
    contributes silence *)
Definition silent (s : state) (n : Z) : state := set_obs s (mones (Z.to_nat n) ++ l_obs s).
Definition chunk_step (s : state) (n : Z) : state :=
  if on_track s then let s1 := a_proc s (Z.to_nat n) in frames (a_rem s1) s1 else silent s n.

Definition rstep (cfg : config) (fs : bool * state) (e : revent) : bool * state :=
  let '(free, s) := fs in
  let free := match e with RFree => true | _ => free end in
  let s' :=
    match e with
    | RPermit => if at_top s then s else d_step cfg s
    | RCb chunks => fold_left chunk_step chunks (a_start s)
    | RCbPaused n => silent (a_start s) n
    | RG e => g_step s e
    | RFree => s
    | RRejectEarly => s
    | RObsF =>
        set_obs s ((match d_status (st_d s) with
                    | DRunning => if (spin_limit <=? d_spin (st_d s))%nat then 2 else 0
                    | DEnded => 1 | DPanicked => 3 | DNever => 4
                    end) :: l_obs s)
    end in
  (free, settle free cfg s').

Definition run (c : case) : list Z :=
  match c with
  | CRun free rc evs =>
      let cfg := mk_cfg rc in
      (* [play] on a full track drops the sound right after spawning the thread: the thread's first
         [is_abandoned] test may come before or after that; the harness reports which it saw *)
      let s0 := match evs with
                | RRejectEarly :: _ => settle free cfg (fold_left g_step reject (init cfg))
                | _ => settle free cfg (init cfg)
                end in
      let s := snd (fold_left (rstep cfg) evs (free, s0)) in
      (match g_play_err s with Some e => e | None => -1 end) :: rev (l_obs s)
  end.
