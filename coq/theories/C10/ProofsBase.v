(** C10 — basic lemmas: the newest-first ring, what each thread's step leaves alone, and the first
    inductive invariants (state mirror, ring count / no push on a full ring, why a thread ends). *)
From Coq Require Import ZArith List Bool Lia.
From KV Require Import C10.Model.
Import ListNotations.
Local Open Scope Z_scope.

Ltac break :=
  repeat match goal with
         | |- context [match ?x with _ => _ end] => destruct x eqn:?
         | |- context [if ?x then _ else _] => destruct x eqn:?
         end.
Ltac break_in H :=
  repeat match type of H with
         | context [match ?x with _ => _ end] => destruct x eqn:?
         | context [if ?x then _ else _] => destruct x eqn:?
         end.

(** * The ring, newest first; [rev] is the oldest-first view *)
Section Ring.
  Context {A : Type}.
  Lemma ring_oldest_rev (r : list A) : ring_oldest r = hd_error (rev r).
  Proof.
    induction r as [|x t IH]; [reflexivity|].
    cbn [ring_oldest rev]. destruct t as [|y t']; [reflexivity|].
    rewrite IH. cbn [rev]. destruct (rev t' ++ [y]) eqn:E; [destruct (rev t'); discriminate|reflexivity].
  Qed.
  Lemma ring_oldest_none (r : list A) : ring_oldest r = None <-> r = [].
  Proof.
    split; [|intros ->; reflexivity].
    induction r as [|x t IH]; [reflexivity|]. cbn [ring_oldest]. destruct t; [discriminate|].
    intros H; apply IH in H; discriminate.
  Qed.
  Lemma ring_second_rev (r : list A) : ring_second r = nth_error (rev r) 1.
  Proof.
    induction r as [|x t IH]; [reflexivity|].
    cbn [ring_second rev]. destruct t as [|y t']; [reflexivity|].
    destruct t' as [|z t'']; [reflexivity|].
    rewrite IH. cbn [rev].
    rewrite (nth_error_app1 _ [x]); [reflexivity|].
    rewrite !app_length. cbn. lia.
  Qed.
  Lemma ring_pop_rev (r : list A) : rev (ring_pop r) = tl (rev r).
  Proof.
    unfold ring_pop. destruct r as [|x t] using rev_ind; [reflexivity|].
    rewrite removelast_last, rev_app_distr. reflexivity.
  Qed.
  Lemma ring_pop_length (r : list A) : length (ring_pop r) = pred (length r).
  Proof.
    unfold ring_pop. destruct r as [|x t] using rev_ind; [reflexivity|].
    rewrite removelast_last, app_length. cbn. lia.
  Qed.
  Lemma ring_pop_In (r : list A) x : In x (ring_pop r) -> In x r.
  Proof.
    unfold ring_pop. destruct r as [|y t] using rev_ind; [intros []|].
    rewrite removelast_last. intros H. apply in_or_app. now left.
  Qed.
  Lemma ring_second_In (r : list A) x : ring_second r = Some x -> In x r.
  Proof. rewrite ring_second_rev. intros H. apply nth_error_In in H. now apply in_rev. Qed.
  Lemma ring_oldest_In (r : list A) x : ring_oldest r = Some x -> In x r.
  Proof.
    rewrite ring_oldest_rev. destruct (rev r) eqn:E; [discriminate|]. cbn. intros [= ->].
    apply in_rev. rewrite E. now left.
  Qed.
  Lemma ring_pop_Forall (P : A -> Prop) (r : list A) : Forall P r -> Forall P (ring_pop r).
  Proof. rewrite !Forall_forall. intros H x Hx. apply H, ring_pop_In, Hx. Qed.
End Ring.

(** * What the steps leave alone *)
Definition audio_part (s : state) :=
  (sh_state s, sh_pos s, a_where s, a_psm s, a_rem s, a_cur s, c_pause s, c_resume s, c_stop s).
Definition game_part (s : state) := (g_handle s, g_play_err s, l_popped s).
Definition out_part (s : state) := (l_out s, l_skipped s, l_obs s).

Lemma d_deliver_frame cfg s d fr :
  audio_part (d_deliver cfg s d fr) = audio_part s /\ game_part (d_deliver cfg s d fr) = game_part s /\
  out_part (d_deliver cfg s d fr) = out_part s /\ sh_err (d_deliver cfg s d fr) = sh_err s /\
  l_raised (d_deliver cfg s d fr) = l_raised s /\ sh_err_slot (d_deliver cfg s d fr) = sh_err_slot s /\
  c_seek (d_deliver cfg s d fr) = c_seek s.
Proof. unfold d_deliver. destruct (cf_cap cfg <=? sh_n s); cbn; repeat split. Qed.
Lemma d_fetch_frame cfg s d :
  audio_part (d_fetch cfg s d) = audio_part s /\ game_part (d_fetch cfg s d) = game_part s /\
  out_part (d_fetch cfg s d) = out_part s /\ sh_err (d_fetch cfg s d) = sh_err s /\
  l_raised (d_fetch cfg s d) = l_raised s /\ sh_err_slot (d_fetch cfg s d) = sh_err_slot s /\
  c_seek (d_fetch cfg s d) = c_seek s.
Proof. unfold d_fetch. break; try apply d_deliver_frame; cbn; repeat split. Qed.
Lemma d_step_frame cfg s :
  audio_part (d_step cfg s) = audio_part s /\ game_part (d_step cfg s) = game_part s /\
  out_part (d_step cfg s) = out_part s.
Proof.
  assert (Hf : forall d, audio_part (d_fetch cfg s d) = audio_part s /\ game_part (d_fetch cfg s d) = game_part s /\
                         out_part (d_fetch cfg s d) = out_part s).
  { intros d. destruct (d_fetch_frame cfg s d) as (?&?&?&_). auto. }
  assert (Hd : forall d fr, audio_part (d_deliver cfg s d fr) = audio_part s /\ game_part (d_deliver cfg s d fr) = game_part s /\
                            out_part (d_deliver cfg s d fr) = out_part s).
  { intros d fr. destruct (d_deliver_frame cfg s d fr) as (?&?&?&_). auto. }
  unfold d_step.
  destruct (d_status (st_d s)); try (repeat split; fail).
  destruct (d_pc (st_d s)).
  - destruct (sh_state s =? 6); [repeat split|].
    destruct (abandoned s); [repeat split|].
    destruct (cf_cap cfg <=? sh_n s); [repeat split|].
    destruct (c_seek s); [repeat split|apply Hf].
  - destruct (dec_seek cfg (d_dec (st_d s)) i) as [dec [j|e]]; [apply Hf|repeat split].
  - destruct (dec_seek cfg (d_dec (st_d s)) idx) as [dec [j|e]]; repeat split.
  - destruct (dec_decode cfg (d_dec (st_d s))) as [dec [[tstart len]|e]]; [|repeat split].
    destruct (chunk_lookup _ idx); [apply Hd|repeat split].
Qed.

Definition is_D (e : event) : bool := match e with D => true | _ => false end.
(** the audio and gameplay threads never touch the decoder thread's own state *)
Lemma other_step_d cfg s e : is_D e = false -> st_d (step cfg s e) = st_d s.
Proof.
  destruct e; try discriminate; intros _; cbn [step g_step];
    unfold a_start, a_on_start, a_proc, a_frame; break; reflexivity.
Qed.

(** * Invariant A: the handle's state mirror is the sound's playback state *)
Definition IA (s : state) : Prop := sh_state s = state_code (a_psm s).

Lemma psm_stop_code p f : is_stopped (psm_stop p f) = is_stopped p.
Proof. destruct p; reflexivity. Qed.

Lemma a_on_start_IA s : IA s -> IA (a_on_start s).
Proof.
  unfold IA, a_on_start. intros H.
  destruct (c_pause s), (c_resume s), (c_stop s); cbn; try reflexivity; exact H.
Qed.
Lemma a_start_IA s : IA s -> IA (a_start s).
Proof. unfold a_start. intros H. break; try exact H; try (apply a_on_start_IA; exact H). Qed.
Lemma psm_update_code p n : state_code (fst (psm_update p n)) = state_code p \/ snd (psm_update p n) = true.
Proof. destruct p; cbn; break; cbn; auto. Qed.
Lemma a_proc_IA s n : IA s -> IA (a_proc s n).
Proof.
  unfold IA, a_proc. intros H. destruct (a_where s); try exact H. destruct (a_rem s); try exact H.
  destruct (sh_err s); [reflexivity|].
  destruct (psm_update (a_psm s) (Z.of_nat n)) as [p ch] eqn:E.
  assert (Hc : (if ch then state_code p else sh_state s) = state_code p).
  { destruct ch; [reflexivity|]. destruct (psm_update_code (a_psm s) (Z.of_nat n)) as [H1|H1]; rewrite E in H1; cbn in H1; congruence. }
  break; cbn; exact Hc.
Qed.
Lemma a_frame_IA s : IA s -> IA (a_frame s).
Proof.
  unfold IA, a_frame. intros H. destruct (a_where s); try exact H. destruct (a_rem s); try exact H.
  cbn. break; [reflexivity|exact H].
Qed.
Lemma g_step_IA s e : IA s -> IA (g_step s e).
Proof. unfold IA. intros H. destruct e; cbn [g_step]; break; cbn; exact H. Qed.
Lemma step_IA cfg s e : IA s -> IA (step cfg s e).
Proof.
  intros H. destruct e; cbn [step]; try (apply g_step_IA; exact H).
  - unfold IA. destruct (d_step_frame cfg s) as (Ha&_). unfold audio_part in Ha. injection Ha as -> _ _ -> _ _ _ _ _. exact H.
  - apply a_start_IA, H.
  - apply a_proc_IA, H.
  - apply a_frame_IA, H.
Qed.

(** * Invariant B: the ring count is the ring's length; a thread that has passed the fullness test
      finds room; the push never panics *)
Definition running (s : state) : Prop := d_status (st_d s) = DRunning.
Definition at_top (s : state) : Prop := d_pc (st_d s) = PcTop.
Record IB (cfg : config) (s : state) : Prop := {
  ib_len : sh_n s = Z.of_nat (length (sh_ring s));
  ib_room : running s -> ~ at_top s -> sh_n s < cf_cap cfg;
  ib_nopanic : d_status (st_d s) <> DPanicked;
}.

Lemma d_deliver_IB cfg s d fr :
  sh_n s = Z.of_nat (length (sh_ring s)) -> sh_n s < cf_cap cfg -> IB cfg (d_deliver cfg s d fr).
Proof.
  intros Hl Hr. unfold d_deliver. destruct (cf_cap cfg <=? sh_n s) eqn:E; [lia|].
  split; cbn.
  - rewrite Hl. lia.
  - unfold running, at_top. cbn. intros _ H. now elim H.
  - break; discriminate.
Qed.
Lemma set_d_IB cfg s d :
  sh_n s = Z.of_nat (length (sh_ring s)) -> sh_n s < cf_cap cfg -> d_status d <> DPanicked -> IB cfg (set_d s d).
Proof. intros Hl Hr Hp. split; cbn; auto. Qed.
Lemma d_fetch_IB cfg s d :
  sh_n s = Z.of_nat (length (sh_ring s)) -> sh_n s < cf_cap cfg -> IB cfg (d_fetch cfg s d).
Proof.
  intros Hl Hr. unfold d_fetch. break; try (apply d_deliver_IB; assumption); apply set_d_IB; cbn; auto; discriminate.
Qed.
Lemma d_raise_IB cfg s d e : sh_n s = Z.of_nat (length (sh_ring s)) -> IB cfg (d_raise s d e).
Proof. intros Hl. split; cbn; auto; try discriminate; unfold running; cbn; discriminate. Qed.

Lemma d_step_IB cfg s : IB cfg s -> IB cfg (d_step cfg s).
Proof.
  intros HB. pose proof HB as [Hl Hr Hp]. unfold d_step.
  destruct (d_status (st_d s)) eqn:Est; try exact HB.
  destruct (d_pc (st_d s)) eqn:Epc.
  - destruct (sh_state s =? 6).
    { split; cbn; auto; try discriminate; unfold running; cbn; discriminate. }
    destruct (abandoned s).
    { split; cbn; auto; try discriminate; unfold running; cbn; discriminate. }
    destruct (cf_cap cfg <=? sh_n s) eqn:Ef.
    { split; cbn; auto; try discriminate; unfold running, at_top; cbn; intros _ H; now elim H. }
    destruct (c_seek s).
    + apply set_d_IB; cbn; auto; try lia; discriminate.
    + apply d_fetch_IB; auto; lia.
  - assert (Hroom : sh_n s < cf_cap cfg) by (apply Hr; [exact Est|unfold at_top; rewrite Epc; discriminate]).
    destruct (dec_seek cfg (d_dec (st_d s)) i) as [dec [j|e]].
    + apply d_fetch_IB; auto.
    + apply d_raise_IB; auto.
  - assert (Hroom : sh_n s < cf_cap cfg) by (apply Hr; [exact Est|unfold at_top; rewrite Epc; discriminate]).
    destruct (dec_seek cfg (d_dec (st_d s)) idx) as [dec [j|e]].
    + apply set_d_IB; cbn; auto; discriminate.
    + apply d_raise_IB; auto.
  - assert (Hroom : sh_n s < cf_cap cfg) by (apply Hr; [exact Est|unfold at_top; rewrite Epc; discriminate]).
    destruct (dec_decode cfg (d_dec (st_d s))) as [dec [[tstart len]|e]].
    + break.
      * apply d_deliver_IB; auto.
      * apply set_d_IB; cbn; auto; discriminate.
    + apply d_raise_IB; auto.
Qed.

Lemma a_frame_n s :
  sh_n s = Z.of_nat (length (sh_ring s)) ->
  sh_n (a_frame s) = Z.of_nat (length (sh_ring (a_frame s))) /\ sh_n (a_frame s) <= sh_n s.
Proof.
  intros Hl. unfold a_frame. destruct (a_where s); try (split; [exact Hl|lia]).
  destruct (a_rem s); try (split; [exact Hl|lia]). cbn.
  rewrite ring_pop_length. destruct (sh_n s =? 0) eqn:E; [apply Z.eqb_eq in E|apply Z.eqb_neq in E]; split; lia.
Qed.

Lemma other_step_IB cfg s e : is_D e = false -> IB cfg s -> IB cfg (step cfg s e).
Proof.
  intros He [Hl Hr Hp].
  assert (Hd := other_step_d cfg s e He).
  assert (Hn : sh_n (step cfg s e) = Z.of_nat (length (sh_ring (step cfg s e))) /\ sh_n (step cfg s e) <= sh_n s).
  { destruct e; try discriminate; cbn [step g_step]; try apply a_frame_n; try exact Hl;
      unfold a_start, a_on_start, a_proc; break; cbn; split; auto; lia. }
  destruct Hn as [Hn1 Hn2].
  split; auto.
  - unfold running, at_top. rewrite Hd. intros H1 H2. specialize (Hr H1 H2). lia.
  - rewrite Hd. exact Hp.
Qed.
Lemma step_IB cfg s e : IB cfg s -> IB cfg (step cfg s e).
Proof.
  intros H. destruct (is_D e) eqn:E.
  - destruct e; try discriminate. apply d_step_IB, H.
  - apply other_step_IB; assumption.
Qed.

(** * Invariant T: a thread ends for exactly two reasons *)
Record IT (s : state) : Prop := {
  it_eof : sh_reached_end s = true -> d_status (st_d s) = DEnded;
  it_why : d_status (st_d s) = DEnded ->
           sh_reached_end s = true \/ a_psm s = Stopped \/ a_where s = Gone \/ sh_err s = true;
}.
Lemma state_code_6 p : state_code p = 6 -> p = Stopped.
Proof. destruct p; cbn; intros; try lia; reflexivity. Qed.

Lemma d_deliver_IT cfg s d fr :
  sh_reached_end s = false -> IT (d_deliver cfg s d fr) \/ d_status (st_d (d_deliver cfg s d fr)) = DPanicked.
Proof.
  intros Hr. unfold d_deliver. destruct (cf_cap cfg <=? sh_n s); [right; reflexivity|left].
  split; cbn; destruct (negb (tr_playing (transport_increment (d_tr d) (num_frames cfg)))); auto; try congruence;
    try discriminate.
Qed.

Lemma abandoned_Gone s : abandoned s = true -> a_where s = Gone.
Proof. unfold abandoned. destruct (a_where s); try discriminate; reflexivity. Qed.

Lemma d_step_IT cfg s : IA s -> IB cfg s -> IT s -> IT (d_step cfg s).
Proof.
  intros HA HB HT. pose proof HT as [He Hw].
  assert (HB' := d_step_IB cfg s HB).
  unfold d_step in *. destruct (d_status (st_d s)) eqn:Est; try exact HT.
  assert (Hre : sh_reached_end s = false).
  { destruct (sh_reached_end s); [|reflexivity]. specialize (He eq_refl). congruence. }
  assert (Hset : forall d, d_status d = DRunning -> IT (set_d s d)).
  { intros d Hd. split; cbn; intros; congruence. }
  assert (Hdel : forall d fr, d_status (st_d (d_deliver cfg s d fr)) <> DPanicked -> IT (d_deliver cfg s d fr)).
  { intros d fr Hp. destruct (d_deliver_IT cfg s d fr Hre); [assumption|contradiction]. }
  assert (Hfetch : forall d, d_status (st_d (d_fetch cfg s d)) <> DPanicked -> IT (d_fetch cfg s d)).
  { intros d. unfold d_fetch. break; intros Hp; try (apply Hdel; exact Hp); apply Hset; reflexivity. }
  assert (Hraise : forall d e, IT (d_raise s d e)).
  { intros d e. split; cbn; intros; [congruence|]. right; right; right; reflexivity. }
  destruct (d_pc (st_d s)) eqn:Epc.
  - destruct (sh_state s =? 6) eqn:E6.
    { apply Z.eqb_eq in E6. split; cbn; [intros; congruence|]. intros _. right; left. apply state_code_6. rewrite <- HA. exact E6. }
    destruct (abandoned s) eqn:Eab.
    { split; cbn; [intros; congruence|]. intros _. right; right; left. apply abandoned_Gone, Eab. }
    destruct (cf_cap cfg <=? sh_n s); [apply Hset; reflexivity|].
    destruct (c_seek s).
    + split; cbn; intros; congruence.
    + apply Hfetch. apply (ib_nopanic _ _ HB').
  - destruct (dec_seek cfg (d_dec (st_d s)) i) as [dec [j|e]]; [|apply Hraise].
    apply Hfetch. apply (ib_nopanic _ _ HB').
  - destruct (dec_seek cfg (d_dec (st_d s)) idx) as [dec [j|e]]; [|apply Hraise].
    apply Hset; reflexivity.
  - destruct (dec_decode cfg (d_dec (st_d s))) as [dec [[tstart len]|e]]; [|apply Hraise].
    destruct (chunk_lookup _ idx).
    + apply Hdel. apply (ib_nopanic _ _ HB').
    + apply Hset; reflexivity.
Qed.

(** [Stopped] is final for the playback-state manager *)
Lemma a_on_start_stopped s : a_psm s = Stopped -> a_psm (a_on_start s) = Stopped.
Proof. unfold a_on_start. intros H. rewrite H. destruct (c_pause s), (c_resume s), (c_stop s); reflexivity. Qed.
Lemma stopped_final_step cfg s e : a_psm s = Stopped -> a_psm (step cfg s e) = Stopped.
Proof.
  intros H. destruct e; cbn [step g_step].
  - destruct (d_step_frame cfg s) as (Ha&_). unfold audio_part in Ha. injection Ha as _ _ _ -> _ _ _ _ _. exact H.
  - unfold a_start. break; cbn; try exact H; apply a_on_start_stopped, H.
  - unfold a_proc. rewrite H. break; cbn; try exact H; try reflexivity; cbn in *; congruence.
  - unfold a_frame. break; cbn; try exact H; reflexivity.
  - break; cbn; exact H.
  - break; cbn; exact H.
  - break; cbn; exact H.
  - break; cbn; exact H.
  - break; cbn; exact H.
  - cbn; exact H.
  - break; cbn; exact H.
  - break; cbn; exact H.
  - break; cbn; exact H.
  - cbn; exact H.
  - cbn; exact H.
Qed.

Lemma gone_final_step cfg s e : a_where s = Gone -> a_where (step cfg s e) = Gone.
Proof.
  intros H. destruct e; cbn [step g_step].
  - destruct (d_step_frame cfg s) as (Ha&_). unfold audio_part in Ha. injection Ha as _ _ -> _ _ _ _ _ _. exact H.
  - unfold a_start. rewrite H. break; exact H.
  - unfold a_proc. rewrite H. exact H.
  - unfold a_frame. rewrite H. exact H.
  - break; cbn; exact H.
  - break; cbn; exact H.
  - break; cbn; exact H.
  - break; cbn; exact H.
  - break; cbn; exact H.
  - cbn; exact H.
  - rewrite H. exact H.
  - rewrite H. exact H.
  - rewrite H. exact H.
  - cbn; exact H.
  - cbn; exact H.
Qed.
Lemma other_step_err cfg s e : is_D e = false -> sh_err (step cfg s e) = sh_err s.
Proof.
  destruct e; try discriminate; intros _; cbn [step g_step];
    unfold a_start, a_on_start, a_proc, a_frame; break; cbn; congruence.
Qed.

Lemma other_step_IT cfg s e : is_D e = false -> IT s -> IT (step cfg s e).
Proof.
  intros He [H1 H2].
  assert (Hd := other_step_d cfg s e He).
  assert (Hr : sh_reached_end (step cfg s e) = sh_reached_end s).
  { destruct e; try discriminate; cbn [step g_step];
      unfold a_start, a_on_start, a_proc, a_frame; break; reflexivity. }
  split; rewrite Hd, Hr; [exact H1|].
  intros H. destruct (H2 H) as [H3|[H3|[H3|H3]]]; [left; exact H3|right; left; apply stopped_final_step; exact H3| |].
  - right; right; left. apply gone_final_step, H3.
  - right; right; right. rewrite other_step_err; assumption.
Qed.
Lemma step_IT cfg s e : IA s -> IB cfg s -> IT s -> IT (step cfg s e).
Proof.
  intros HA HB H. destruct (is_D e) eqn:E.
  - destruct e; try discriminate. apply d_step_IT; assumption.
  - apply other_step_IT; assumption.
Qed.

(** * The three together, for every schedule *)
Record Inv0 (cfg : config) (s : state) : Prop := { i_A : IA s; i_B : IB cfg s; i_T : IT s }.
Lemma step_Inv0 cfg s e : Inv0 cfg s -> Inv0 cfg (step cfg s e).
Proof. intros [A B T]. split; [apply step_IA|apply step_IB|apply step_IT]; assumption. Qed.
Lemma run_Inv0 cfg sched s : Inv0 cfg s -> Inv0 cfg (run cfg sched s).
Proof. revert s. induction sched as [|e t IH]; intros s H; [exact H|]. cbn. apply IH, step_Inv0, H. Qed.
Lemma init_Inv0 cfg : 1 < cf_cap cfg -> Inv0 cfg (init cfg).
Proof.
  intros Hc. unfold init. destruct (dec_seek cfg _ (cf_start cfg)) as [dec [j|e]].
  - split; [reflexivity| |].
    + split; cbn; auto; try discriminate; unfold running, at_top; cbn; intros _ H; now elim H.
    + split; cbn; intros; discriminate.
  - split; [reflexivity| |].
    + split; cbn; auto; try discriminate; unfold running; cbn; discriminate.
    + split; cbn; intros; discriminate.
Qed.
