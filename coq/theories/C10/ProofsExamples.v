(** C10 — concrete schedules (vm_compute): non-vacuity of the hypotheses, the F31 witness, regression
    witnesses of the repaired F12 / F13, the mid-chunk underrun. *)
From Coq Require Import ZArith List Bool Lia.
From KV Require Import C10.Model C10.ProofsBase C10.ProofsLive C10.ProofsErr C10.ProofsGap C10.ProofsResume.
Import ListNotations.
Local Open Scope Z_scope.

Definition nofaults := {| f_dec_at := []; f_dec_from := 0; f_seek_at := []; f_seek_from := 0 |}.
Definition Ds (n : nat) : list event := repeat D n.

(** a looping 4-frame stream in two packets, ring of 4 *)
Definition cfg_loop : config :=
  {| cf_packets := [2; 2]; cf_gran := 1; cf_faults := nofaults; cf_start := 0; cf_loop := Some (0, 4); cf_cap := 4 |}.
(** the sound is adopted by its track, the track handle is dropped, the ring fills up *)
Definition sched_linger : list event := Ds 6 ++ [AStart; GDropTrack] ++ Ds 4.

Lemma linger_witness : Linger cfg_loop (run cfg_loop sched_linger (init cfg_loop)).
Proof.
  split; try (vm_compute; reflexivity).
  - vm_compute. discriminate.
  - vm_compute. discriminate.
Qed.

(** F31: a removed track that is not drained: the thread sleeps for ever, in every schedule *)
Theorem thread_lingers_refuted :
  exists cfg sched0,
    let s := run cfg sched0 (init cfg) in
    a_where s = Limbo /\
    forall sched, forallb no_drain sched = true ->
      d_status (st_d (run cfg sched s)) = DRunning /\
      d_sleeps (st_d (run cfg sched s)) = (d_sleeps (st_d s) + count_D sched)%nat.
Proof.
  exists cfg_loop, sched_linger. cbv zeta. split; [vm_compute; reflexivity|].
  intros sched Hs. destruct (linger_run cfg_loop sched _ Hs linger_witness) as [HJ Hsl].
  split; [apply (j_run _ _ HJ)|exact Hsl].
Qed.
(** ... and ends at its next wake-up once the gameplay thread drains the queue *)
Example lingering_thread_ends_after_drain :
  d_status (st_d (run cfg_loop (sched_linger ++ [GDrain; D]) (init cfg_loop))) = DEnded.
Proof. vm_compute. reflexivity. Qed.

(** regression witnesses of F12 (fixed by 44357a4): rejected by a full track / dropped with the manager *)
Example rejected_thread_ends_now :
  let s := run cfg_loop (Ds 3 ++ reject ++ Ds 4) (init cfg_loop) in
  d_status (st_d s) = DEnded /\ a_where s = Gone /\ sh_state s = 0.
Proof. vm_compute. auto. Qed.
Example dropped_with_manager_thread_ends_now :
  let s := run cfg_loop (Ds 6 ++ [AStart; AProc 1; AFrame; GDropSound] ++ Ds 6) (init cfg_loop) in
  d_status (st_d s) = DEnded /\ a_where s = Gone.
Proof. vm_compute. auto. Qed.

(** regression witness of F13 (fixed by f5181da): a decoder that fails from its 2nd call on; no callback *)
Definition cfg_err : config :=
  {| cf_packets := [4; 4]; cf_gran := 1;
     cf_faults := {| f_dec_at := []; f_dec_from := 2; f_seek_at := []; f_seek_from := 0 |};
     cf_start := 0; cf_loop := None; cf_cap := 16 |}.
Example error_thread_ends_now :
  let s := run cfg_err (Ds 40) (init cfg_err) in
  d_status (st_d s) = DEnded /\ l_raised s = [1002] /\ sh_err_slot s = Some 1002 /\ dc_ndec (d_dec (st_d s)) = 2.
Proof. vm_compute. auto. Qed.

(** errors at the k-th decode call, at a seek command, at the loop's re-seek, and at seek #1 (made by play) *)
Definition cfg_fault (dec_at seek_at : list Z) (lp : option (Z * Z)) : config :=
  {| cf_packets := [2; 2; 2]; cf_gran := 1;
     cf_faults := {| f_dec_at := dec_at; f_dec_from := 0; f_seek_at := seek_at; f_seek_from := 0 |};
     cf_start := 0; cf_loop := lp; cf_cap := 64 |}.
Example error_at_decode_call_k :
  l_raised (run (cfg_fault [1] [] None) (Ds 30) (init (cfg_fault [1] [] None))) = [1001] /\
  l_raised (run (cfg_fault [2] [] None) (Ds 30) (init (cfg_fault [2] [] None))) = [1002] /\
  l_raised (run (cfg_fault [3] [] None) (Ds 30) (init (cfg_fault [3] [] None))) = [1003] /\
  l_raised (run (cfg_fault [] [2] (Some (0, 6))) (Ds 30) (init (cfg_fault [] [2] (Some (0, 6))))) = [2002] /\
  l_raised (run (cfg_fault [] [2] None) (Ds 3 ++ [GSeekTo 1] ++ Ds 3) (init (cfg_fault [] [2] None))) = [2002] /\
  g_play_err (init (cfg_fault [] [1] None)) = Some 2001 /\ d_status (st_d (init (cfg_fault [] [1] None))) = DNever.
Proof. vm_compute. repeat split. Qed.

(** the whole error path on one schedule: error, processed, Stopped, silent, unloaded, popped *)
Example error_path_example :
  let s := run (cfg_fault [2] [] None) (Ds 4 ++ [AStart; AProc 2; AFrame; AFrame] ++ Ds 3 ++
                                        [AStart; AProc 2; AStart; GPopError; GPopError; GObsH]) (init (cfg_fault [2] [] None)) in
  a_psm s = Stopped /\ a_where s = Unloaded /\ l_popped s = [1002] /\ d_status (st_d s) = DEnded /\
  rev (map out_value (l_out s)) = [0; 1; -1; -1].
Proof. vm_compute. repeat split. Qed.

(** non-vacuity of [thread_ends_bounded]: a user stop reaches [end_cause] with the thread still running *)
Example end_cause_reachable :
  let s := run cfg_loop (Ds 6 ++ [GStop 0; AStart; AProc 2]) (init cfg_loop) in
  end_cause s /\ d_status (st_d s) = DRunning /\ sh_state s = 6.
Proof. vm_compute. repeat split. left. reflexivity. Qed.

(** a slow decoder: gaps, then playback resumes with the next frame *)
Definition cfg_plain : config :=
  {| cf_packets := [1; 1; 1; 1; 1; 1; 1; 1]; cf_gran := 1; cf_faults := nofaults; cf_start := 0; cf_loop := None; cf_cap := 16 |}.
Example starved_between_chunks_loses_nothing :
  let s := run cfg_plain (Ds 4 ++ [AStart; AProc 2; AFrame; AFrame; AProc 3; AStart; AProc 3] ++ Ds 4 ++
                          [AProc 2; AFrame; AFrame]) (init cfg_plain) in
  rev (map out_value (l_out s)) = [0; 1; -1; -1; -1; -1; -1; -1; 2; 3] /\ l_skipped s = [].
Proof. vm_compute. repeat split. Qed.

(** non-vacuity of [resume_offset]: a callback-atomic schedule with an underrun INSIDE a chunk: the ring
    runs dry while frames 0, 1 are played, the rest of the chunk and the next are silent, frame 2 arrives
    alone in the empty ring and is the one frame passed over *)
Definition sched_atomic_gap : list event :=
  Ds 4 ++ [AStart; AProc 4; AFrame; AFrame; AFrame; AFrame] ++ Ds 2 ++ [AStart; AProc 2] ++ Ds 4 ++
  [AStart; AProc 3; AFrame; AFrame; AFrame].
Example atomic_gap_example :
  atomic cfg_plain sched_atomic_gap (init cfg_plain) /\
  let s := run cfg_plain sched_atomic_gap (init cfg_plain) in
  rev (map out_value (l_out s)) = [0; 1; -1; -1; -1; -1; 3; 4; -1] /\ map it_index (l_skipped s) = [2].
Proof. vm_compute. repeat split. Qed.

(** the gap rule is tested once per chunk, the per-frame loop pops unconditionally: when the ring runs
    dry in mid-chunk and the decoder then delivers frames one at a time during the same chunk, every one
    of them is passed over — the resume offset is bounded only by the chunk length *)
Definition sched_trickle : list event :=
  [D; D; D; D; AStart; AProc 12; AFrame; AFrame; AFrame; D; D; AFrame; D; D; AFrame; D; D; AFrame; D; D; AFrame;
   D; D; D; D; AFrame; AFrame; AFrame].
Theorem resume_offset_midchunk_refuted :
  exists cfg sched,
    let s := run cfg sched (init cfg) in
    rev (map out_value (l_out s)) = [0; 1; -1; -1; -1; -1; -1; 7; -1; -1] /\
    map it_index (l_skipped s) = [6; 5; 4; 3; 2] /\ d_status (st_d s) = DEnded.
Proof. exists cfg_plain, sched_trickle. vm_compute. repeat split. Qed.
