(** C10 — resume offset: if the decoder thread never steps while a [process] chunk is running
    (callback-atomic schedules), playback resumes after a gap at most ONE source frame further than
    where it stopped.  (Without that restriction: [resume_offset_midchunk_refuted].) *)
From Coq Require Import ZArith List Bool Lia.
From KV Require Import C10.Model C10.ProofsBase C10.ProofsLive C10.ProofsGap.
Import ListNotations.
Local Open Scope Z_scope.

Definition last_heard (s : state) : nat := hd O (heard (l_out s)).
(** newest first: each frame heard is at most 2 further in the transport order than the one before *)
Fixpoint close (l : list nat) : Prop :=
  match l with
  | [] => True
  | a :: t => (a <= hd O t + 2)%nat /\ close t
  end.

Definition atomic_ok (s : state) (e : event) : Prop := match e with D => a_rem s = O | _ => True end.
Fixpoint atomic (cfg : config) (sched : list event) (s : state) : Prop :=
  match sched with
  | [] => True
  | e :: t => atomic_ok s e /\ atomic cfg t (step cfg s e)
  end.

Record IR (s : state) : Prop := {
  r_heard : forall o, ring_oldest (sh_ring s) = Some o -> a_head_heard s = true -> it_seq o = last_heard s;
  r_unheard : forall o, ring_oldest (sh_ring s) = Some o -> a_head_heard s = false -> it_seq o = S (last_heard s);
  r_empty : sh_ring s = [] -> d_pushes (st_d s) = S (last_heard s) \/ sh_reached_end s = true;
  r_live : (a_rem s > 0)%nat -> a_head_heard s = false -> sh_ring s <> [] ->
           (2 <= length (sh_ring s))%nat \/ sh_reached_end s = true;
  r_close : close (heard (l_out s));
}.

Lemma ring_oldest_pop {A} (r : list A) : ring_oldest (ring_pop r) = ring_second r.
Proof.
  rewrite ring_oldest_rev, ring_pop_rev, ring_second_rev. destruct (rev r) as [|a [|b t]]; reflexivity.
Qed.

Lemma reached_end_mono cfg s e : sh_reached_end s = true -> sh_reached_end (step cfg s e) = true.
Proof.
  intros H. destruct e; cbn [step g_step];
    try (unfold a_start, a_on_start, a_proc, a_frame; break; cbn; exact H).
  unfold d_step. destruct (d_status (st_d s)); try exact H.
  assert (Hd : forall d fr, sh_reached_end (d_deliver cfg s d fr) = true).
  { intros d fr. unfold d_deliver. break; cbn; auto. }
  assert (Hf : forall d, sh_reached_end (d_fetch cfg s d) = true).
  { intros d. unfold d_fetch. break; try apply Hd; cbn; exact H. }
  break; try apply Hd; try apply Hf; cbn; exact H.
Qed.

(** how [a_rem] changes *)
Lemma step_rem cfg s e :
  sh_n s = Z.of_nat (length (sh_ring s)) ->
  a_rem (step cfg s e) = a_rem s \/ a_rem (step cfg s e) = O \/
  (sh_ring (step cfg s e) = sh_ring s /\ ((2 <= length (sh_ring s))%nat \/ sh_reached_end s = true)) \/
  e = AFrame.
Proof.
  intros Hl. destruct e; cbn [step g_step]; try (right; right; right; reflexivity).
  - left. destruct (d_step_frame cfg s) as (Ha&_). unfold audio_part in Ha. injection Ha as _ _ _ _ Ha _ _ _ _. exact Ha.
  - left. unfold a_start, a_on_start. break; cbn; congruence.
  - unfold a_proc. destruct (a_where s); auto. destruct (a_rem s) eqn:Er; auto.
    destruct (sh_err s); [auto|].
    destruct (psm_update (a_psm s) (Z.of_nat n)) as [p ch].
    destruct (negb (is_advancing p)); [auto|].
    cbn [set_a sh_n sh_reached_end].
    destruct (sh_n s <? 2) eqn:E2; destruct (sh_reached_end s) eqn:Ere; cbn [negb andb]; auto.
    + right; right; left. split; [reflexivity|right; reflexivity].
    + right; right; left. split; [reflexivity|right; reflexivity].
    + right; right; left. split; [reflexivity|left]. apply Z.ltb_ge in E2. lia.
  - break; cbn; auto.
  - break; cbn; auto.
  - break; cbn; auto.
  - break; cbn; auto.
  - break; cbn; auto.
  - cbn; auto.
  - break; cbn; auto.
  - break; cbn; auto.
  - break; cbn; auto.
  - cbn; auto.
  - cbn; auto.
Qed.

Lemma step_IR cfg s e :
  IB cfg s -> IG s -> IT s -> atomic_ok s e -> IR s -> IR (step cfg s e).
Proof.
  intros HB HG HT Hat [R1 R2 R3 R4 R5].
  assert (Hlen := ib_len _ _ HB).
  destruct (step_shape cfg s e) as [H|[H|H]].
  - (* ring untouched *)
    destruct H as (Hr&Hn&Hp&Hh&Hs&Hhh&_).
    split; unfold last_heard; rewrite ?Hr, ?Hp, ?Hh, ?Hhh; auto.
    + intros He. destruct (R3 He) as [H|H]; [left; exact H|right; apply reached_end_mono, H].
    + intros Hrem Hf Hne.
      destruct (step_rem cfg s e Hlen) as [H|[H|[[_ H]|H]]].
      * rewrite H in Hrem. destruct (R4 Hrem Hf Hne) as [H1|H1]; [left; exact H1|right; apply reached_end_mono, H1].
      * rewrite H in Hrem. lia.
      * destruct H as [H|H]; [left; exact H|right; apply reached_end_mono, H].
      * subst e. cbn [step] in *. unfold a_frame in *.
        destruct (a_where s) eqn:Ew; try (destruct (R4 Hrem Hf Hne); auto; fail).
        destruct (a_rem s) eqn:Er; [lia|].
        (* a running frame always pops or finds the ring empty: it is not a "same ring" step unless empty *)
        cbn [sh_ring] in Hr. exfalso. apply Hne.
        assert (Hl2 : length (ring_pop (sh_ring s)) = length (sh_ring s)) by (rewrite Hr; reflexivity).
        rewrite ring_pop_length in Hl2. destruct (sh_ring s); [reflexivity|cbn in Hl2; lia].
  - (* a push: only the decoder thread pushes, and in an atomic schedule only between chunks *)
    destruct H as (it&Hr&Hq&Hp&Ho&Hs&Hoe&Hhh).
    assert (HD : is_D e = true).
    { destruct (is_D e) eqn:E; [reflexivity|]. rewrite (other_step_d cfg s e E) in Hp. lia. }
    destruct e; try discriminate. cbn [step] in *. cbn in Hat.
    assert (Hrun : d_status (st_d s) = DRunning).
    { destruct (d_status (st_d s)) eqn:Est; [reflexivity| | |]; unfold d_step in Hp; rewrite Est in Hp; lia. }
    assert (Hre : sh_reached_end s = false).
    { destruct (sh_reached_end s) eqn:E; [|reflexivity]. rewrite (it_eof _ HT E) in Hrun. discriminate. }
    assert (Hrem : a_rem (d_step cfg s) = O).
    { destruct (d_step_frame cfg s) as (Ha&_). unfold audio_part in Ha. injection Ha as _ _ _ _ Ha _ _ _ _. congruence. }
    split; unfold last_heard; rewrite ?Hr, ?Ho, ?Hhh; fold (last_heard s).
    + intros o Ho' Hf. cbn [ring_oldest] in Ho'. destruct (sh_ring s) as [|y t] eqn:Er.
      * assert (E0 : sh_n s =? 0 = true) by (apply Z.eqb_eq; rewrite Hlen; reflexivity). rewrite E0 in Hf. discriminate.
      * assert (E0 : sh_n s =? 0 = false) by (apply Z.eqb_neq; rewrite Hlen; cbn [length]; lia). rewrite E0 in Hf.
        apply R1; auto.
    + intros o Ho' Hf. cbn [ring_oldest] in Ho'. destruct (sh_ring s) as [|y t] eqn:Er.
      * injection Ho' as <-. rewrite Hq. destruct (R3 eq_refl) as [H|H]; [exact H|congruence].
      * assert (E0 : sh_n s =? 0 = false) by (apply Z.eqb_neq; rewrite Hlen; cbn [length]; lia). rewrite E0 in Hf.
        apply R2; auto.
    + discriminate.
    + rewrite Hrem. lia.
    + exact R5.
  - (* one frame of a running chunk *)
    destruct H as (->&Hw&r&Hr). unfold a_frame. rewrite Hw, Hr. unfold last_heard in R1, R2, R3.
    pose proof (g_seq _ HG) as G1. unfold view in G1.
    assert (Hrl : length (sh_ring s) = length (rev (sh_ring s))) by (symmetry; apply rev_length).
    assert (Hpop := ring_pop_rev (sh_ring s)).
    assert (Hold := ring_oldest_rev (sh_ring s)).
    assert (Hsec := ring_second_rev (sh_ring s)).
    assert (Hold' := ring_oldest_rev (ring_pop (sh_ring s))). rewrite Hpop in Hold'.
    assert (Hrem : (a_rem s > 0)%nat) by lia.
    destruct (rev (sh_ring s)) as [|a [|b t]] eqn:Erev; cbn [tl hd_error nth_error length] in *.
    + (* empty ring *)
      assert (Hr0 : sh_ring s = []) by (apply length_zero_iff_nil; lia).
      assert (E0 : sh_n s =? 0 = true) by (apply Z.eqb_eq; lia).
      split; unfold last_heard; cbn [sh_ring a_head_heard l_out st_d a_rem sh_reached_end]; rewrite ?Hsec, ?E0; cbn [heard].
      * intros o Ho. rewrite Hold' in Ho. discriminate.
      * intros o Ho. rewrite Hold' in Ho. discriminate.
      * intros _. apply R3, Hr0.
      * intros _ _ Hne. exfalso. apply Hne. rewrite Hr0. reflexivity.
      * exact R5.
    + (* one entry: it is popped *)
      assert (E0 : sh_n s =? 0 = false) by (apply Z.eqb_neq; lia).
      assert (E1 : sh_n s - 1 =? 0 = true) by (apply Z.eqb_eq; lia).
      assert (Hp0 : ring_pop (sh_ring s) = []).
      { apply length_zero_iff_nil. rewrite <- rev_length, Hpop. reflexivity. }
      split; unfold last_heard; cbn [sh_ring a_head_heard l_out st_d a_rem sh_reached_end]; rewrite ?Hsec, ?E0, ?E1; cbn [heard].
      * intros o Ho. rewrite Hold' in Ho. discriminate.
      * intros o Ho. rewrite Hold' in Ho. discriminate.
      * intros _. specialize (G1 O a eq_refl). cbn [length] in G1.
        destruct (a_head_heard s) eqn:Eh.
        -- left. rewrite <- (R1 a Hold eq_refl). lia.
        -- destruct (R4 Hrem eq_refl) as [H|H]; [intros E; rewrite E in Hrl; cbn in Hrl; lia|lia|right; exact H].
      * intros _ _ Hne. exfalso. apply Hne, Hp0.
      * exact R5.
    + (* two or more: the second is heard, the oldest popped *)
      assert (E0 : sh_n s =? 0 = false) by (apply Z.eqb_neq; lia).
      assert (E1 : sh_n s - 1 =? 0 = false) by (apply Z.eqb_neq; lia).
      pose proof (G1 O a eq_refl) as Ga. pose proof (G1 1%nat b eq_refl) as Gb. cbn [length] in Ga, Gb.
      split; unfold last_heard; cbn [sh_ring a_head_heard l_out st_d a_rem sh_reached_end]; rewrite ?Hsec, ?E0, ?E1; cbn [heard hd negb].
      * intros o Ho _. rewrite Hold' in Ho. injection Ho as <-. reflexivity.
      * intros o _ Hf. discriminate.
      * intros Hp0. exfalso. rewrite Hp0 in Hpop. discriminate.
      * intros _ Hf. discriminate.
      * cbn [close]. split; [|exact R5].
        destruct (a_head_heard s) eqn:Eh.
        -- rewrite <- (R1 a Hold eq_refl). lia.
        -- pose proof (R2 a Hold eq_refl). lia.
Qed.

Lemma init_IR cfg : IR (init cfg).
Proof.
  unfold init. destruct (dec_seek cfg _ _) as [dec [j|e]]; split; unfold last_heard; cbn; auto;
    try (intros o [= <-]; reflexivity); try discriminate; try lia; try (intros o _ H; discriminate).
Qed.

(** ** resume_offset *)
Theorem resume_offset cfg sched :
  1 < cf_cap cfg ->
  atomic cfg sched (init cfg) ->
  close (heard (l_out (run cfg sched (init cfg)))).
Proof.
  intros Hcap.
  assert (H0 : Inv0 cfg (init cfg)) by apply init_Inv0, Hcap.
  assert (HG0 := init_IG cfg). assert (HR0 := init_IR cfg).
  revert H0 HG0 HR0. generalize (init cfg).
  induction sched as [|e t IH]; intros s HI HG HR Hat; [apply (r_close _ HR)|].
  destruct Hat as [Ha Ht]. cbn [run fold_left]. change (fold_left (step cfg) t (step cfg s e)) with (run cfg t (step cfg s e)).
  apply IH; auto.
  - apply step_Inv0, HI.
  - apply step_IG; [apply (i_B _ _ HI)|exact HG].
  - apply step_IR; auto; [apply (i_B _ _ HI)|apply (i_T _ _ HI)].
Qed.
