(** C10 — a slow decoder causes gaps of silence, never repeated, reordered or foreign frames. *)
From Coq Require Import ZArith List Bool Lia.
From KV Require Import C10.Model C10.ProofsBase C10.ProofsLive.
Import ListNotations.
Local Open Scope Z_scope.

(** sequence numbers (= positions in the transport order) of the frames heard, newest first *)
Fixpoint heard (l : list out_entry) : list nat :=
  match l with
  | [] => []
  | OHeard it :: t => it_seq it :: heard t
  | OZero :: t => heard t
  end.
(** strictly decreasing (newest first) = strictly increasing in time *)
Fixpoint desc (l : list nat) : Prop :=
  match l with
  | [] => True
  | a :: t => (forall b, In b t -> (b < a)%nat) /\ desc t
  end.
Lemma heard_zeros k l : heard (zeros k ++ l) = heard l.
Proof. induction k; cbn; auto. Qed.

Definition view (s : state) : list item := rev (sh_ring s).

(** * The shape of a step, as far as the ring and the output are concerned *)
Definition same_ring (s s' : state) : Prop :=
  sh_ring s' = sh_ring s /\ sh_n s' = sh_n s /\ d_pushes (st_d s') = d_pushes (st_d s) /\
  heard (l_out s') = heard (l_out s) /\ l_skipped s' = l_skipped s /\ a_head_heard s' = a_head_heard s /\
  (forall it, In (OHeard it) (l_out s') -> In (OHeard it) (l_out s)).
Definition pushed (s s' : state) : Prop :=
  exists it, sh_ring s' = it :: sh_ring s /\ it_seq it = d_pushes (st_d s) /\ d_pushes (st_d s') = S (d_pushes (st_d s)) /\
             l_out s' = l_out s /\ l_skipped s' = l_skipped s /\ it_on_empty it = (sh_n s =? 0) /\
             a_head_heard s' = (if sh_n s =? 0 then false else a_head_heard s).
Definition framed (s s' : state) : Prop :=
  s' = a_frame s /\ a_where s = OnTrack /\ exists r, a_rem s = S r.

Lemma In_zeros it k l : In (OHeard it) (zeros k ++ l) -> In (OHeard it) l.
Proof. induction k; cbn; auto. intros [H|H]; [discriminate|auto]. Qed.

Lemma d_deliver_shape cfg s d fr :
  d_pushes d = d_pushes (st_d s) ->
  same_ring s (d_deliver cfg s d fr) \/ pushed s (d_deliver cfg s d fr).
Proof.
  intros Hp. unfold d_deliver. destruct (cf_cap cfg <=? sh_n s).
  - left. unfold same_ring; cbn. repeat split; auto.
  - right. eexists. cbn. repeat split; auto.
Qed.
Lemma d_fetch_shape cfg s d :
  d_pushes d = d_pushes (st_d s) -> same_ring s (d_fetch cfg s d) \/ pushed s (d_fetch cfg s d).
Proof.
  intros Hp. unfold d_fetch. break; try (apply d_deliver_shape; exact Hp); left; unfold same_ring; cbn; repeat split; auto.
Qed.
Lemma step_shape cfg s e :
  same_ring s (step cfg s e) \/ pushed s (step cfg s e) \/ framed s (step cfg s e).
Proof.
  destruct e; cbn [step g_step].
  - unfold d_step. destruct (d_status (st_d s)); try (left; unfold same_ring; repeat split; auto; fail).
    destruct (d_pc (st_d s)).
    + destruct (sh_state s =? 6); [left; unfold same_ring; cbn; repeat split; auto|].
      destruct (abandoned s); [left; unfold same_ring; cbn; repeat split; auto|].
      destruct (cf_cap cfg <=? sh_n s); [left; unfold same_ring; cbn; repeat split; auto|].
      destruct (c_seek s); [left; unfold same_ring; cbn; repeat split; auto|].
      destruct (d_fetch_shape cfg s (st_d s) eq_refl); auto.
    + destruct (dec_seek cfg (d_dec (st_d s)) i) as [dec [j|x]]; [|left; unfold same_ring; cbn; repeat split; auto].
      match goal with |- context [d_fetch cfg s ?d] => destruct (d_fetch_shape cfg s d eq_refl) end; auto.
    + destruct (dec_seek cfg (d_dec (st_d s)) idx) as [dec [j|x]]; left; unfold same_ring; cbn; repeat split; auto.
    + destruct (dec_decode cfg (d_dec (st_d s))) as [dec [[tstart len]|x]]; [|left; unfold same_ring; cbn; repeat split; auto].
      destruct (chunk_lookup _ idx); [|left; unfold same_ring; cbn; repeat split; auto].
      match goal with |- context [d_deliver cfg s ?d ?fr] => destruct (d_deliver_shape cfg s d fr eq_refl) end; auto.
  - left. unfold a_start, a_on_start. break; unfold same_ring; cbn; repeat split; auto.
  - left. unfold a_proc. break; unfold same_ring; cbn; repeat split; auto using heard_zeros; try (intros it; apply In_zeros).
  - destruct (a_where s) eqn:Ew; try (left; unfold a_frame; rewrite Ew; unfold same_ring; repeat split; auto; fail).
    destruct (a_rem s) eqn:Er; [left; unfold a_frame; rewrite Ew, Er; unfold same_ring; repeat split; auto|].
    right; right. unfold framed. repeat split; eauto.
  - left. break; unfold same_ring; cbn; repeat split; auto.
  - left. break; unfold same_ring; cbn; repeat split; auto.
  - left. break; unfold same_ring; cbn; repeat split; auto.
  - left. break; unfold same_ring; cbn; repeat split; auto.
  - left. break; unfold same_ring; cbn; repeat split; auto.
  - left. unfold same_ring; cbn; repeat split; auto.
  - left. break; unfold same_ring; cbn; repeat split; auto.
  - left. break; unfold same_ring; cbn; repeat split; auto.
  - left. break; unfold same_ring; cbn; repeat split; auto.
  - left. unfold same_ring; cbn; repeat split; auto.
  - left. unfold same_ring; cbn; repeat split; auto.
Qed.

(** * Invariant G: the ring holds consecutive pushes; what has been heard lies before it *)
Record IG (s : state) : Prop := {
  g_seq : forall k it, nth_error (view s) k = Some it -> (it_seq it + length (view s) = d_pushes (st_d s) + k)%nat;
  g_below : forall h, In h (heard (l_out s)) -> (h + length (view s) <= d_pushes (st_d s))%nat;
  g_desc : desc (heard (l_out s));
  g_pushed : forall it, In (OHeard it) (l_out s) -> (it_seq it < d_pushes (st_d s))%nat;
  g_skip : forall it, In it (l_skipped s) -> it_on_empty it = true;
  g_head : forall o, ring_oldest (sh_ring s) = Some o -> a_head_heard s = false -> it_on_empty o = true;
}.

Lemma nth_error_tl {A} (l : list A) k : nth_error (tl l) k = nth_error l (S k).
Proof. destruct l; [destruct k; reflexivity|reflexivity]. Qed.

Lemma step_IG cfg s e : IB cfg s -> IG s -> IG (step cfg s e).
Proof.
  intros HB [G1 G2 G3 G4 G5 G6].
  destruct (step_shape cfg s e) as [H|[H|H]].
  - destruct H as (Hr&Hn&Hp&Hh&Hs&Hhh&Hin). unfold view in *.
    split; unfold view; rewrite ?Hr, ?Hp, ?Hh, ?Hs, ?Hhh; auto.
  - destruct H as (it&Hr&Hq&Hp&Ho&Hs&Hoe&Hhh). unfold view in *.
    split; unfold view; rewrite ?Hr, ?Hp, ?Ho, ?Hs; cbn [rev]; rewrite ?app_length; cbn [length].
    + intros k x Hx. destruct (Nat.lt_ge_cases k (length (rev (sh_ring s)))) as [Hk|Hk].
      * rewrite nth_error_app1 in Hx by exact Hk. specialize (G1 k x Hx). lia.
      * rewrite nth_error_app2 in Hx by exact Hk.
        destruct (k - length (rev (sh_ring s)))%nat as [|m] eqn:Ek; [|destruct m; discriminate].
        cbn in Hx. injection Hx as <-. lia.
    + intros h Hh. specialize (G2 h Hh). lia.
    + exact G3.
    + intros x Hx. specialize (G4 x Hx). lia.
    + exact G5.
    + intros o Ho' Hf. rewrite Hhh in Hf. cbn [ring_oldest] in Ho'.
      destruct (sh_ring s) as [|y t] eqn:Er.
      * injection Ho' as <-. rewrite Hoe. rewrite (ib_len _ _ HB), Er. reflexivity.
      * assert (Hn0 : sh_n s =? 0 = false).
        { apply Z.eqb_neq. rewrite (ib_len _ _ HB), Er. cbn [length]. lia. }
        rewrite Hn0 in Hf. apply G6; [rewrite <- Er in *; exact Ho'|exact Hf].
  - destruct H as (->&Hw&r&Hr).
    assert (Hlen := ib_len _ _ HB).
    unfold a_frame. rewrite Hw, Hr. unfold view in *.
    split; unfold view; cbn [sh_ring st_d l_out l_skipped a_head_heard].
    + intros k it. rewrite !ring_pop_rev, nth_error_tl. intros Hk. specialize (G1 (S k) it Hk).
      destruct (rev (sh_ring s)) as [|a t]; [cbn in Hk; discriminate|]. cbn [tl length] in *. lia.
    + rewrite ring_second_rev. rewrite ring_pop_rev.
      destruct (nth_error (rev (sh_ring s)) 1) as [it|] eqn:E2; cbn [heard].
      * intros h [<-|Hh].
        -- specialize (G1 1%nat it E2). destruct (rev (sh_ring s)) as [|a [|b t]]; try discriminate. cbn [tl length] in *. lia.
        -- specialize (G2 h Hh). destruct (rev (sh_ring s)); cbn [tl length] in *; lia.
      * intros h Hh. specialize (G2 h Hh). destruct (rev (sh_ring s)); cbn [tl length] in *; lia.
    + rewrite ring_second_rev.
      destruct (nth_error (rev (sh_ring s)) 1) as [it|] eqn:E2; cbn [heard desc]; [|exact G3].
      split; [|exact G3]. intros b Hb. specialize (G2 b Hb). specialize (G1 1%nat it E2).
      destruct (rev (sh_ring s)) as [|a [|c t]]; try discriminate. cbn [length] in *. lia.
    + intros it [Hit|Hit]; [|apply G4, Hit].
      rewrite ring_second_rev in Hit. destruct (nth_error (rev (sh_ring s)) 1) as [x|] eqn:E2; [|discriminate].
      injection Hit as <-. specialize (G1 1%nat x E2).
      destruct (rev (sh_ring s)) as [|a [|c t]]; try discriminate. cbn [length] in *. lia.
    + intros it. destruct (ring_oldest (sh_ring s)) as [o|] eqn:Eo; [|apply G5].
      destruct (a_head_heard s) eqn:Eh; [apply G5|].
      intros [<-|Hit]; [apply G6; auto|apply G5, Hit].
    + intros o Ho Hf. exfalso.
      destruct (sh_n s =? 0) eqn:E0.
      * apply Z.eqb_eq in E0. assert (sh_ring s = []) by (apply length_zero_iff_nil; lia).
        rewrite H in Ho. discriminate.
      * apply Z.eqb_neq in E0. destruct (sh_n s - 1 =? 0) eqn:E1; [|discriminate].
        apply Z.eqb_eq in E1. assert (Hl1 : length (ring_pop (sh_ring s)) = O) by (rewrite ring_pop_length; lia).
        apply length_zero_iff_nil in Hl1. rewrite Hl1 in Ho. discriminate.
Qed.

Lemma init_IG cfg : IG (init cfg).
Proof.
  unfold init. destruct (dec_seek cfg _ _) as [dec [j|e]]; split; unfold view; cbn; auto; try contradiction;
    try (intros [|[|k]] it H; cbn in H; try discriminate; injection H as <-; reflexivity);
    try (intros o [= <-]; discriminate).
Qed.

Lemma run_IG cfg sched : forall s, IB cfg s -> IG s -> IG (run cfg sched s).
Proof.
  induction sched as [|e t IH]; intros s HB HG; [exact HG|]. cbn. apply IH; [apply step_IB, HB|apply step_IG; assumption].
Qed.

(** * Not foreign: every frame in the ring is the source frame of the transport position it is tagged
      with (or the zero frame) — the scripted decoder is a conforming one *)
Definition good_item (it : item) : Prop := it_frame it = None \/ it_frame it = Some (it_index it).
Record IC (cfg : config) (s : state) : Prop := {
  c_dcfi : d_dcfi (st_d s) = pstart (cf_packets cfg) (dc_cursor (d_dec (st_d s)));
  c_chunk : forall c, d_chunk (st_d s) = Some c -> ch_belief c = ch_truth c;
  c_pc : match d_pc (st_d s) with PcDecode idx | PcReseek idx => idx = tr_pos (d_tr (st_d s)) | _ => True end;
  c_ring : Forall good_item (sh_ring s);
  c_out : forall it, In (OHeard it) (l_out s) -> good_item it;
}.

Lemma pstart_S ps k len : nth_error ps k = Some len -> pstart ps (S k) = pstart ps k + len.
Proof.
  unfold pstart. revert k. induction ps as [|p t IH]; intros [|k] H; try discriminate.
  - injection H as ->. cbn. lia.
  - cbn [firstn zsum fold_right] in *. specialize (IH k H). cbn [nth_error] in H. fold (zsum (firstn (S k) t)). fold (zsum (firstn k t)).
    unfold zsum in *. rewrite IH. lia.
Qed.
Lemma dec_seek_ok cfg d i d' j : dec_seek cfg d i = (d', ROk j) -> j = pstart (cf_packets cfg) (dc_cursor d').
Proof. unfold dec_seek. destruct (fails _ _ _); [discriminate|]. intros [= <- <-]. reflexivity. Qed.
Lemma dec_seek_err cfg d i d' e : dec_seek cfg d i = (d', RErr e) -> dc_cursor d' = dc_cursor d.
Proof. unfold dec_seek. destruct (fails _ _ _); [|discriminate]. intros [= <- _]. reflexivity. Qed.
Lemma dec_decode_ok cfg d d' tstart len :
  dec_decode cfg d = (d', ROk (tstart, len)) ->
  tstart = pstart (cf_packets cfg) (dc_cursor d) /\
  pstart (cf_packets cfg) (dc_cursor d') = pstart (cf_packets cfg) (dc_cursor d) + len.
Proof.
  unfold dec_decode. destruct (fails _ _ _); [discriminate|].
  destruct (nth_error (cf_packets cfg) (dc_cursor d)) eqn:E; [|discriminate].
  intros [= <- <- <-]. cbn. split; [reflexivity|apply pstart_S, E].
Qed.
Lemma dec_decode_err cfg d d' e : dec_decode cfg d = (d', RErr e) -> dc_cursor d' = dc_cursor d.
Proof.
  unfold dec_decode. destruct (fails _ _ _); [intros [= <- _]; reflexivity|].
  destruct (nth_error _ _); [discriminate|intros [= <- _]; reflexivity].
Qed.
Lemma chunk_lookup_good c idx v : ch_belief c = ch_truth c -> chunk_lookup (Some c) idx = Some v -> v = idx.
Proof. unfold chunk_lookup. intros H. break; try discriminate. intros [= <-]. lia. Qed.

Lemma d_deliver_IC cfg s d fr :
  d_dcfi d = pstart (cf_packets cfg) (dc_cursor (d_dec d)) ->
  (forall c, d_chunk d = Some c -> ch_belief c = ch_truth c) ->
  (fr = None \/ fr = Some (tr_pos (d_tr d))) ->
  Forall good_item (sh_ring s) -> (forall it, In (OHeard it) (l_out s) -> good_item it) ->
  IC cfg (d_deliver cfg s d fr).
Proof.
  intros H1 H2 H3 H4 H5. unfold d_deliver. destruct (cf_cap cfg <=? sh_n s); split; cbn; auto.
  all: try (constructor; [|exact H4]; unfold good_item; cbn; exact H3).
Qed.
Lemma d_fetch_IC cfg s d :
  d_dcfi d = pstart (cf_packets cfg) (dc_cursor (d_dec d)) ->
  (forall c, d_chunk d = Some c -> ch_belief c = ch_truth c) ->
  Forall good_item (sh_ring s) -> (forall it, In (OHeard it) (l_out s) -> good_item it) ->
  IC cfg (d_fetch cfg s d).
Proof.
  intros H1 H2 H4 H5. unfold d_fetch.
  destruct (num_frames cfg <=? tr_pos (d_tr d)); [apply d_deliver_IC; auto|].
  destruct (chunk_lookup (d_chunk d) (tr_pos (d_tr d))) as [v|] eqn:El.
  - apply d_deliver_IC; auto. right. f_equal.
    destruct (d_chunk d) as [c|] eqn:Ec; [|discriminate]. apply (chunk_lookup_good c); auto.
  - destruct (tr_pos (d_tr d) <? d_dcfi d); split; cbn; auto.
Qed.

Lemma d_step_IC cfg s : IC cfg s -> IC cfg (d_step cfg s).
Proof.
  intros HC. pose proof HC as [H1 H2 H3 H4 H5]. unfold d_step.
  destruct (d_status (st_d s)); try exact HC.
  destruct (d_pc (st_d s)) eqn:Epc.
  - destruct (sh_state s =? 6); [split; cbn; auto|].
    destruct (abandoned s); [split; cbn; auto|].
    destruct (cf_cap cfg <=? sh_n s); [split; cbn; auto|].
    destruct (c_seek s); [split; cbn; auto|].
    apply d_fetch_IC; auto.
  - destruct (dec_seek cfg (d_dec (st_d s)) i) as [dec [j|e]] eqn:Es.
    + apply d_fetch_IC; cbn; auto. apply (dec_seek_ok _ _ _ _ _ Es).
    + split; cbn; auto. rewrite (dec_seek_err _ _ _ _ _ Es). exact H1.
  - destruct (dec_seek cfg (d_dec (st_d s)) idx) as [dec [j|e]] eqn:Es.
    + split; cbn; auto. apply (dec_seek_ok _ _ _ _ _ Es).
    + split; cbn; auto. rewrite (dec_seek_err _ _ _ _ _ Es). exact H1.
  - destruct (dec_decode cfg (d_dec (st_d s))) as [dec [[tstart len]|e]] eqn:Ed.
    + destruct (dec_decode_ok _ _ _ _ _ Ed) as [Ht Hp].
      assert (Hbt : ch_belief {| ch_belief := d_dcfi (st_d s); ch_truth := tstart; ch_len := len |} =
                    ch_truth {| ch_belief := d_dcfi (st_d s); ch_truth := tstart; ch_len := len |}).
      { cbn. rewrite Ht. exact H1. }
      destruct (chunk_lookup _ idx) as [v|] eqn:El.
      * apply d_deliver_IC; cbn; auto.
        -- rewrite H1. symmetry. exact Hp.
        -- intros c [= <-]. exact Hbt.
        -- right. f_equal. rewrite (chunk_lookup_good _ _ _ Hbt El). exact H3.
      * split; cbn; auto.
        -- rewrite H1. symmetry. exact Hp.
        -- intros c [= <-]. exact Hbt.
    + split; cbn; auto. rewrite (dec_decode_err _ _ _ _ Ed). exact H1.
Qed.

Lemma step_IC cfg s e : IC cfg s -> IC cfg (step cfg s e).
Proof.
  intros HC. destruct (is_D e) eqn:E.
  - destruct e; try discriminate. apply d_step_IC, HC.
  - pose proof HC as [H1 H2 H3 H4 H5].
    assert (Hd := other_step_d cfg s e E).
    destruct (step_shape cfg s e) as [H|[H|H]].
    + destruct H as (Hr&_&_&_&_&_&Hin). split; rewrite ?Hd, ?Hr; auto.
    + destruct H as (it&_&_&Hp&_). rewrite Hd in Hp. lia.
    + destruct H as (Hs&Hw&r&Hr). split; rewrite ?Hd; auto; rewrite Hs; unfold a_frame; rewrite Hw, Hr; cbn.
      * apply ring_pop_Forall, H4.
      * intros it [Hit|Hit]; [|apply H5, Hit].
        destruct (ring_second (sh_ring s)) as [x|] eqn:E2; [|discriminate]. injection Hit as <-.
        rewrite Forall_forall in H4. apply H4, ring_second_In, E2.
Qed.
Lemma init_IC cfg : IC cfg (init cfg).
Proof.
  unfold init. destruct (dec_seek cfg _ (cf_start cfg)) as [dec [j|e]] eqn:Es.
  - split; cbn; auto.
    + apply (dec_seek_ok _ _ _ _ _ Es).
    + discriminate.
    + constructor; [left; reflexivity|constructor].
    + contradiction.
  - split; cbn; auto.
    + rewrite (dec_seek_err _ _ _ _ _ Es). reflexivity.
    + discriminate.
    + constructor; [left; reflexivity|constructor].
    + contradiction.
Qed.
Lemma run_IC cfg sched : forall s, IC cfg s -> IC cfg (run cfg sched s).
Proof. induction sched as [|e t IH]; intros s H; [exact H|]. cbn. apply IH, step_IC, H. Qed.

(** ** slow_decoder_gaps *)
Theorem slow_decoder_gaps cfg sched :
  1 < cf_cap cfg ->
  let s := run cfg sched (init cfg) in
  (* the frames heard appear in strictly increasing transport order: never repeated, never reordered *)
  desc (heard (l_out s)) /\
  (* never foreign: each is a frame the decoder thread pushed, carrying the source frame of the transport
     position it is tagged with *)
  (forall it, In (OHeard it) (l_out s) -> (it_seq it < d_pushes (st_d s))%nat /\ good_item it) /\
  (* resume offset: the only frames ever passed over are frames that arrived in an EMPTY ring *)
  (forall it, In it (l_skipped s) -> it_on_empty it = true).
Proof.
  intros Hcap s.
  assert (HB : IB cfg (init cfg)) by apply (i_B _ _ (init_Inv0 cfg Hcap)).
  assert (HG : IG s) by (apply run_IG; [exact HB|apply init_IG]).
  assert (HC : IC cfg s) by apply run_IC, init_IC.
  destruct HG as [_ _ G3 G4 G5 _]. destruct HC as [_ _ _ _ C5].
  repeat split; auto.
Qed.

(** while starved the output is exact zero and nothing is consumed: playback continues from where it
    stopped *)
Theorem starved_chunk_silent_and_frozen s n :
  a_where s = OnTrack -> a_rem s = O -> sh_err s = false -> is_advancing (fst (psm_update (a_psm s) (Z.of_nat n))) = true ->
  sh_n s < 2 -> sh_reached_end s = false ->
  let s' := a_proc s n in
  l_out s' = zeros n ++ l_out s /\ sh_ring s' = sh_ring s /\ sh_n s' = sh_n s /\ a_rem s' = O /\
  a_head_heard s' = a_head_heard s /\ l_skipped s' = l_skipped s.
Proof.
  intros Hw Hr He Ha Hn Hre. unfold a_proc. rewrite Hw, Hr, He.
  destruct (psm_update (a_psm s) (Z.of_nat n)) as [p ch]. cbn [fst] in Ha. rewrite Ha. cbn [negb].
  assert (E : sh_n s <? 2 = true) by (apply Z.ltb_lt; exact Hn).
  cbn [set_a sh_n sh_ring sh_reached_end]. rewrite E, Hre. cbn. repeat split; reflexivity.
Qed.
(** a frame of a running chunk with fewer than two entries in the ring is exact zero *)
Theorem starved_frame_is_zero s r :
  a_where s = OnTrack -> a_rem s = S r -> (length (sh_ring s) < 2)%nat ->
  l_out (a_frame s) = OZero :: l_out s.
Proof.
  intros Hw Hr Hl. unfold a_frame. rewrite Hw, Hr. cbn.
  rewrite ring_second_rev. destruct (nth_error (rev (sh_ring s)) 1) eqn:E; [|reflexivity].
  assert (1 < length (rev (sh_ring s)))%nat by (apply nth_error_Some; congruence).
  rewrite rev_length in H. lia.
Qed.
