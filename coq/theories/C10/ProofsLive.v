(** C10 — the decoder thread ends (bounded number of its own steps, every schedule); it never
    busy-spins; the one situation in which it lingers (F31). *)
From Coq Require Import ZArith List Bool Lia.
From KV Require Import C10.Model C10.ProofsBase.
Import ListNotations.
Local Open Scope Z_scope.

Definition count_D (sched : list event) : nat := length (filter is_D sched).

(** the thread has a reason to end: the sound is Stopped (finished, stopped by the user, failed and
    processed) or its ring consumer is gone (rejected, dropped with its manager, removed track drained) *)
Definition end_cause (s : state) : Prop := a_psm s = Stopped \/ a_where s = Gone.

Lemma end_cause_step cfg s e : end_cause s -> end_cause (step cfg s e).
Proof. intros [H|H]; [left; apply stopped_final_step, H|right; apply gone_final_step, H]. Qed.

(** steps the thread may still need before it stands at the top of its loop again *)
Definition togo (cfg : config) (s : state) : nat :=
  let L := length (cf_packets cfg) in
  match d_pc (st_d s) with
  | PcTop => 1
  | PcDecode _ => 2 + (L - dc_cursor (d_dec (st_d s)))
  | PcReseek _ => 3 + L
  | PcSeekCmd _ => 4 + L
  end.
Lemma togo_bound cfg s : (togo cfg s <= length (cf_packets cfg) + 4)%nat.
Proof. unfold togo. destruct (d_pc (st_d s)); lia. Qed.

Lemma ended_d_step cfg s : d_status (st_d s) = DEnded -> d_step cfg s = s.
Proof. unfold d_step. intros ->. reflexivity. Qed.
Lemma ended_stable cfg sched s : d_status (st_d s) = DEnded -> d_status (st_d (run cfg sched s)) = DEnded.
Proof.
  revert s. induction sched as [|e t IH]; intros s H; [exact H|]. cbn. apply IH.
  destruct (is_D e) eqn:E.
  - destruct e; try discriminate. cbn. rewrite ended_d_step; assumption.
  - rewrite other_step_d; assumption.
Qed.

Lemma dec_decode_cursor cfg d d' r :
  dec_decode cfg d = (d', ROk r) -> (dc_cursor d < length (cf_packets cfg))%nat /\ dc_cursor d' = S (dc_cursor d).
Proof.
  unfold dec_decode. destruct (fails _ _ _); [discriminate|].
  destruct (nth_error (cf_packets cfg) (dc_cursor d)) eqn:E; [|discriminate].
  intros [= <- _]. cbn. split; [|reflexivity]. apply nth_error_Some. congruence.
Qed.

Lemma d_deliver_togo cfg s d fr :
  d_status (st_d (d_deliver cfg s d fr)) <> DPanicked ->
  d_status (st_d (d_deliver cfg s d fr)) = DEnded \/
  (running (d_deliver cfg s d fr) /\ togo cfg (d_deliver cfg s d fr) = 1%nat).
Proof.
  unfold d_deliver, running, togo. destruct (cf_cap cfg <=? sh_n s); cbn; [intros H; now elim H|].
  intros _. destruct (negb _); auto.
Qed.
Lemma d_fetch_togo cfg s d :
  d_status (st_d (d_fetch cfg s d)) <> DPanicked ->
  d_status (st_d (d_fetch cfg s d)) = DEnded \/
  (running (d_fetch cfg s d) /\ (togo cfg (d_fetch cfg s d) <= 3 + length (cf_packets cfg))%nat).
Proof.
  unfold d_fetch. break; intros Hp;
    try (destruct (d_deliver_togo cfg s d _ Hp) as [H|[H1 H2]]; [left; exact H|right; split; [exact H1|lia]]);
    right; unfold running, togo; cbn; split; auto; lia.
Qed.

(** with a reason to end, every step of the thread ends it or brings it strictly closer to the top *)
Lemma d_step_togo cfg s :
  Inv0 cfg s -> end_cause s -> running s ->
  d_status (st_d (d_step cfg s)) = DEnded \/ (running (d_step cfg s) /\ (togo cfg (d_step cfg s) < togo cfg s)%nat).
Proof.
  intros [HA HB HT] Hc Hr.
  assert (HB' := d_step_IB cfg s HB). assert (Hnp := ib_nopanic _ _ HB'). clear HB'.
  unfold running in Hr. unfold d_step in *. rewrite Hr in *.
  unfold togo at 2. destruct (d_pc (st_d s)) eqn:Epc.
  - destruct (sh_state s =? 6) eqn:E6; [left; reflexivity|].
    destruct (abandoned s) eqn:Eab; [left; reflexivity|].
    exfalso. destruct Hc as [Hc|Hc].
    + apply Z.eqb_neq in E6. apply E6. rewrite HA, Hc. reflexivity.
    + unfold abandoned in Eab. rewrite Hc in Eab. discriminate.
  - destruct (dec_seek cfg (d_dec (st_d s)) i) as [dec [j|e]]; [|left; reflexivity].
    destruct (d_fetch_togo cfg s _ Hnp) as [H|[H1 H2]]; [left; exact H|right; split; [exact H1|lia]].
  - destruct (dec_seek cfg (d_dec (st_d s)) idx) as [dec [j|e]]; [|left; reflexivity].
    right. unfold running, togo. cbn. split; [reflexivity|lia].
  - destruct (dec_decode cfg (d_dec (st_d s))) as [dec [[tstart len]|e]] eqn:Ed; [|left; reflexivity].
    apply dec_decode_cursor in Ed. destruct Ed as [Ed1 Ed2].
    destruct (chunk_lookup _ idx).
    + destruct (d_deliver_togo cfg s _ _ Hnp) as [H|[H1 H2]]; [left; exact H|right; split; [exact H1|lia]].
    + right. unfold running, togo. cbn. split; [reflexivity|lia].
Qed.

Lemma thread_ends_aux cfg sched : forall s,
  Inv0 cfg s -> end_cause s -> running s -> (togo cfg s <= count_D sched)%nat ->
  d_status (st_d (run cfg sched s)) = DEnded.
Proof.
  induction sched as [|e t IH]; intros s HI Hc Hr Hn.
  - unfold togo, count_D in Hn. cbn in Hn. destruct (d_pc (st_d s)); lia.
  - cbn [run fold_left]. change (fold_left (step cfg) t (step cfg s e)) with (run cfg t (step cfg s e)).
    destruct (is_D e) eqn:E.
    + destruct e; try discriminate. cbn [step].
      destruct (d_step_togo cfg s HI Hc Hr) as [H|[H1 H2]].
      * apply ended_stable, H.
      * apply IH; auto.
        -- apply (step_Inv0 cfg s D HI).
        -- apply (end_cause_step cfg s D Hc).
        -- unfold count_D in *. cbn in Hn. lia.
    + apply IH.
      * apply step_Inv0, HI.
      * apply end_cause_step, Hc.
      * unfold running. rewrite other_step_d; assumption.
      * unfold togo. rewrite other_step_d by assumption. unfold count_D in *. cbn in Hn. rewrite E in Hn. exact Hn.
Qed.

(** ** thread_ends_when_stopped_or_eof *)
Theorem thread_ends_bounded cfg sched0 sched :
  1 < cf_cap cfg ->
  let s := run cfg sched0 (init cfg) in
  end_cause s ->
  (length (cf_packets cfg) + 4 <= count_D sched)%nat ->
  d_status (st_d (run cfg sched s)) = DEnded \/ d_status (st_d (run cfg sched s)) = DNever.
Proof.
  intros Hcap s Hc Hn.
  assert (HI : Inv0 cfg s) by (apply run_Inv0, init_Inv0, Hcap).
  destruct (d_status (st_d s)) eqn:Est.
  - left. apply thread_ends_aux; auto. pose proof (togo_bound cfg s). lia.
  - left. apply ended_stable, Est.
  - exfalso. apply (ib_nopanic _ _ (i_B _ _ HI)), Est.
  - right. clear Hn. revert Est. generalize s. induction sched as [|e t IH]; intros s1 H1; [exact H1|].
    cbn. apply IH. destruct (is_D e) eqn:E.
    + destruct e; try discriminate. cbn. unfold d_step. rewrite H1. exact H1.
    + rewrite other_step_d; assumption.
Qed.

(** a thread standing at the top of its loop (asleep on a full ring, or between iterations) ends at its
    very next step: "within one wake-up" *)
Theorem thread_ends_at_next_wakeup cfg sched0 :
  1 < cf_cap cfg ->
  let s := run cfg sched0 (init cfg) in
  end_cause s -> d_status (st_d s) = DRunning -> d_pc (st_d s) = PcTop ->
  d_status (st_d (d_step cfg s)) = DEnded.
Proof.
  intros Hcap s Hc Hr Hp.
  assert (HI : Inv0 cfg s) by (apply run_Inv0, init_Inv0, Hcap).
  destruct (d_step_togo cfg s HI Hc Hr) as [H|[_ H]]; [exact H|].
  unfold togo at 2 in H. rewrite Hp in H. unfold togo in H. destruct (d_pc (st_d (d_step cfg s))); lia.
Qed.

(** at end of data the thread ends by itself; and these are all the reasons for which a thread ends *)
Theorem thread_end_reasons cfg sched :
  1 < cf_cap cfg ->
  let s := run cfg sched (init cfg) in
  (sh_reached_end s = true -> d_status (st_d s) = DEnded) /\
  (d_status (st_d s) = DEnded ->
   sh_reached_end s = true \/ a_psm s = Stopped \/ a_where s = Gone \/ sh_err s = true) /\
  d_status (st_d s) <> DPanicked.
Proof.
  intros Hcap s. assert (HI : Inv0 cfg s) by (apply run_Inv0, init_Inv0, Hcap).
  destruct HI as [HA HB [H1 H2]]. repeat split; auto. apply (ib_nopanic _ _ HB).
Qed.

(** * No busy spin: every step of a running thread ends it, sleeps, makes progress, or is the single
      bookkeeping step that precedes a decoder call *)
Definition IS (s : state) : Prop :=
  (d_spin (st_d s) <= 1)%nat /\ (running s -> at_top s -> d_spin (st_d s) = O).
Lemma d_deliver_IS cfg s d fr : (d_spin d <= 1)%nat -> IS (d_deliver cfg s d fr).
Proof.
  intros H. unfold d_deliver, IS, running, at_top. destruct (cf_cap cfg <=? sh_n s); cbn; [|split; auto].
  split; [exact H|discriminate].
Qed.
Lemma d_fetch_IS cfg s d : d_spin d = O -> IS (d_fetch cfg s d).
Proof.
  intros H. unfold d_fetch. break; try (apply d_deliver_IS; lia);
    unfold IS, running, at_top; cbn; rewrite H; split; auto; intros _ H1; discriminate.
Qed.
Lemma d_step_IS cfg s : IS s -> IS (d_step cfg s).
Proof.
  intros HS. pose proof HS as [H1 H2]. unfold d_step. destruct (d_status (st_d s)) eqn:Est; try exact HS.
  destruct (d_pc (st_d s)) eqn:Epc.
  - assert (H0 : d_spin (st_d s) = O) by (apply H2; [exact Est|exact Epc]).
    destruct (sh_state s =? 6); [unfold IS, running; cbn; split; [exact H1|discriminate]|].
    destruct (abandoned s); [unfold IS, running; cbn; split; [exact H1|discriminate]|].
    destruct (cf_cap cfg <=? sh_n s); [unfold IS; cbn; split; [lia|auto]|].
    destruct (c_seek s); [unfold IS, at_top; cbn; split; [lia|intros _ H; discriminate]|].
    apply d_fetch_IS, H0.
  - destruct (dec_seek cfg (d_dec (st_d s)) i) as [dec [j|e]].
    + apply d_fetch_IS. reflexivity.
    + unfold IS, running; cbn. split; [exact H1|discriminate].
  - destruct (dec_seek cfg (d_dec (st_d s)) idx) as [dec [j|e]].
    + unfold IS, running, at_top; cbn. split; [lia|intros _ H; discriminate].
    + unfold IS, running; cbn. split; [exact H1|discriminate].
  - destruct (dec_decode cfg (d_dec (st_d s))) as [dec [[tstart len]|e]].
    + destruct (chunk_lookup _ idx).
      * apply d_deliver_IS. cbn. lia.
      * unfold IS, running, at_top; cbn. split; [lia|intros _ H; discriminate].
    + unfold IS, running; cbn. split; [exact H1|discriminate].
Qed.
Lemma step_IS cfg s e : IS s -> IS (step cfg s e).
Proof.
  intros H. destruct (is_D e) eqn:E.
  - destruct e; try discriminate. apply d_step_IS, H.
  - unfold IS, running, at_top. rewrite other_step_d by assumption. exact H.
Qed.
Theorem no_busy_spin cfg sched : (d_spin (st_d (run cfg sched (init cfg))) <= 1)%nat.
Proof.
  assert (H : IS (run cfg sched (init cfg))).
  { assert (H0 : IS (init cfg)).
    { unfold init. destruct (dec_seek cfg _ _) as [dec [j|e]]; unfold IS; cbn; split; auto. }
    revert H0. generalize (init cfg). induction sched as [|e t IH]; intros s H0; [exact H0|]. cbn. apply IH, step_IS, H0. }
  apply H.
Qed.

(** what one step of a running thread can be *)
Theorem d_step_classified cfg s :
  d_status (st_d s) = DRunning ->
  let s' := d_step cfg s in
  d_status (st_d s') <> DRunning                                              (* ended *)
  \/ d_sleeps (st_d s') = S (d_sleeps (st_d s))                                (* slept 1 ms *)
  \/ (d_good (st_d s) < d_good (st_d s'))%nat                                  (* progress *)
  \/ (d_spin (st_d s') = S (d_spin (st_d s)) /\ d_pc (st_d s') <> PcTop).     (* stands before a call *)
Proof.
  intros Hr s'. subst s'. unfold d_step. rewrite Hr.
  assert (Hdel : forall d fr, d_status (st_d (d_deliver cfg s d fr)) <> DRunning \/
                              d_good (st_d (d_deliver cfg s d fr)) = S (d_good d)).
  { intros d fr. unfold d_deliver. destruct (cf_cap cfg <=? sh_n s); cbn; [left; discriminate|right; auto]. }
  assert (Hf : forall d, d_status (st_d (d_fetch cfg s d)) <> DRunning \/
                         d_good (st_d (d_fetch cfg s d)) = S (d_good d) \/
                         (d_good (st_d (d_fetch cfg s d)) = d_good d /\ d_spin (st_d (d_fetch cfg s d)) = S (d_spin d) /\
                          d_pc (st_d (d_fetch cfg s d)) <> PcTop)).
  { intros d. unfold d_fetch.
    destruct (num_frames cfg <=? tr_pos (d_tr d)); [destruct (Hdel d None); auto|].
    destruct (chunk_lookup (d_chunk d) (tr_pos (d_tr d))) as [v|]; [destruct (Hdel d (Some v)); auto|].
    destruct (tr_pos (d_tr d) <? d_dcfi d); right; right; cbn; repeat split; discriminate. }
  destruct (d_pc (st_d s)) eqn:Epc.
  - destruct (sh_state s =? 6); [left; cbn; discriminate|].
    destruct (abandoned s); [left; cbn; discriminate|].
    destruct (cf_cap cfg <=? sh_n s); [right; left; cbn; auto|].
    destruct (c_seek s); [right; right; left; cbn; lia|].
    destruct (Hf (st_d s)) as [H|[H|(H1&H2&H3)]]; auto. right; right; left. lia.
  - destruct (dec_seek cfg (d_dec (st_d s)) i) as [dec [j|e]]; [|left; cbn; discriminate].
    match goal with |- context [d_fetch cfg s ?d] => destruct (Hf d) as [H|[H|(H1&H2&H3)]] end; auto.
    + right; right; left. rewrite H. cbn. lia.
    + right; right; left. rewrite H1. cbn. lia.
  - destruct (dec_seek cfg (d_dec (st_d s)) idx) as [dec [j|e]]; [|left; cbn; discriminate].
    right; right; left. cbn. lia.
  - destruct (dec_decode cfg (d_dec (st_d s))) as [dec [[tstart len]|e]]; [|left; cbn; discriminate].
    destruct (chunk_lookup _ idx) as [v|].
    + match goal with |- context [d_deliver cfg s ?d ?fr] => destruct (Hdel d fr) as [H|H] end; auto.
      right; right; left. rewrite H. cbn. lia.
    + right; right; left. cbn. lia.
Qed.
