(** C10 — executable model of the decoder-thread SYSTEM of a streaming sound.

    Transcribed from
      sound/streaming/sound/decode_scheduler.rs  (DecodeScheduler::{new, start, run, frame_at_index,
                                                  seek_to, seek_to_index}, NextStep, the 1-slot error ring)
      sound/streaming/sound.rs                   (Shared, StreamingSound::{on_start_processing,
                                                  update_current_frame, read_commands, process, finished})
      sound/streaming/data.rs                    (split / into_sound: seek #1 on the caller's thread, spawn)
      sound/streaming/handle.rs                  (pop_error, stop/pause/resume/seek_to = command slots)
      sound/transport.rs                         (new, increment_position, seek_to; forward only)
      playback_state_manager.rs                  (pause/resume/stop/mark_as_stopped/update; fades counted in frames)
      track/{main,sub}/handle.rs + track/sub.rs  (play = into_sound THEN insert; remove_and_add; a paused
                                                  track calls on_start_processing but not process)

    Three threads, atomic steps, a schedule is a [list event]; an event names the thread that moves
    ([D] decoder thread, [A*] audio thread, [G*] gameplay thread) and, for the audio and gameplay
    threads, the operation it performs next (so quantifying over schedules also quantifies over the
    programs those two threads run).

    Granularity.  Decoder thread: one [D] step executes at most ONE call into the user's [Decoder]
    (the pending [decode]/[seek] call, if the thread stands before one) and then runs on up to the
    next such call or the end of the loop iteration — so the harness can pace the real thread with one
    permit per decoder call.  Audio thread: [AStart] = the track's [on_start_processing] for this sound
    (unload if finished, adopt if queued, [Sound::on_start_processing]); [AProc n] = the part of
    [process] before the per-frame loop for a chunk of [n] frames; [AFrame] = one iteration of the
    per-frame loop.  The sound plays at rate 1 with [sample_rate * dt = 1] (one pop per output frame,
    fractional position 0): frames are identified by their source index.  Not modelled: [seek_by],
    [set_loop_region] commands, slices, start times, playback rates other than 1, volume values. *)
From Coq Require Import ZArith List Bool.
Import ListNotations.
Local Open Scope Z_scope.

(** * The scripted decoder (the public [Decoder] trait, implemented by the harness) *)
Record faults := {
  f_dec_at : list Z;      (* numbers (1-based) of the [decode] calls that fail *)
  f_dec_from : Z;         (* > 0: every [decode] call from this number on fails *)
  f_seek_at : list Z;
  f_seek_from : Z;
}.
Definition zmem (x : Z) (l : list Z) : bool := existsb (Z.eqb x) l.
Definition fails (at_ : list Z) (from call : Z) : bool := zmem call at_ || ((0 <? from) && (from <=? call)).

Record config := {
  cf_packets : list Z;            (* packet sizes; frame [i] of the audio carries the value [i] *)
  cf_gran : nat;                  (* [seek] lands on a packet whose number is a multiple of this (0 = 1) *)
  cf_faults : faults;
  cf_start : Z;                   (* settings.start_position in frames *)
  cf_loop : option (Z * Z);       (* settings.loop_region in frames *)
  cf_cap : Z;                     (* BUFFER_SIZE = 16384 *)
}.

(** [n <= length l] without building the length (the ring holds up to 16384 entries) *)
Fixpoint len_ge {A : Type} (l : list A) (n : nat) : bool :=
  match n, l with
  | O, _ => true
  | S _, [] => false
  | S n', _ :: l' => len_ge l' n'
  end.

(** The frame ring is kept NEWEST FIRST (a push is a cons; the model is run with 16384 entries);
    the audio side looks at the two oldest entries and pops the oldest. *)
Fixpoint ring_oldest {A : Type} (r : list A) : option A :=
  match r with
  | [] => None
  | x :: t => match t with [] => Some x | _ => ring_oldest t end
  end.
Fixpoint ring_second {A : Type} (r : list A) : option A :=
  match r with
  | [] => None
  | x :: t => match t with
              | [] => None
              | _ :: t' => match t' with [] => Some x | _ => ring_second t end
              end
  end.
Definition ring_pop {A : Type} (r : list A) : list A := removelast r.

Definition zsum (l : list Z) : Z := fold_right Z.add 0 l.
Definition num_frames (cfg : config) : Z := zsum (cf_packets cfg).
Definition pstart (ps : list Z) (k : nat) : Z := zsum (firstn k ps).
(** number of the packet containing frame [i] ([length ps] beyond the end) *)
Fixpoint find_packet (ps : list Z) (i : Z) : nat :=
  match ps with
  | [] => O
  | p :: r => if i <? p then O else S (find_packet r (i - p))
  end.

Record decoder := { dc_cursor : nat; dc_ndec : Z; dc_nseek : Z }.
Inductive res (A : Type) := ROk (a : A) | RErr (code : Z).
Arguments ROk {A} a. Arguments RErr {A} code.
Definition err_eof : Z := 999.

(** [Decoder::decode]: true start index and length of the packet, or an error *)
Definition dec_decode (cfg : config) (d : decoder) : decoder * res (Z * Z) :=
  let call := dc_ndec d + 1 in
  let d1 := {| dc_cursor := dc_cursor d; dc_ndec := call; dc_nseek := dc_nseek d |} in
  if fails (f_dec_at (cf_faults cfg)) (f_dec_from (cf_faults cfg)) call then (d1, RErr (1000 + call))
  else match nth_error (cf_packets cfg) (dc_cursor d) with
       | Some len => ({| dc_cursor := S (dc_cursor d); dc_ndec := call; dc_nseek := dc_nseek d |},
                      ROk (pstart (cf_packets cfg) (dc_cursor d), len))
       | None => (d1, RErr err_eof)
       end.
(** [Decoder::seek]: the index actually landed on *)
Definition dec_seek (cfg : config) (d : decoder) (i : Z) : decoder * res Z :=
  let call := dc_nseek d + 1 in
  let d1 := {| dc_cursor := dc_cursor d; dc_ndec := dc_ndec d; dc_nseek := call |} in
  if fails (f_seek_at (cf_faults cfg)) (f_seek_from (cf_faults cfg)) call then (d1, RErr (2000 + call))
  else
    let k := find_packet (cf_packets cfg) i in
    let g := match cf_gran cfg with O => 1%nat | g => g end in
    let land := (Nat.div k g * g)%nat in
    ({| dc_cursor := land; dc_ndec := dc_ndec d; dc_nseek := call |}, ROk (pstart (cf_packets cfg) land)).

(** * Transport (forward) *)
Record transport := { tr_pos : Z; tr_loop : option (Z * Z); tr_playing : bool }.
Definition filter_loop (l : option (Z * Z)) : option (Z * Z) :=
  match l with Some (a, b) => if a <? b then Some (a, b) else None | None => None end.
Definition transport_new (start : Z) (lp : option (Z * Z)) : transport :=
  {| tr_pos := start; tr_loop := filter_loop lp; tr_playing := true |}.
(** [while position >= loop_end { position -= loop_end - loop_start }], closed form *)
Definition wrap_down (p ls le : Z) : Z := if le <=? p then ls + (p - le) mod (le - ls) else p.
(** [while position < loop_start { position += loop_end - loop_start }], closed form *)
Definition wrap_up (p ls le : Z) : Z := if p <? ls then ls + (p - ls) mod (le - ls) else p.
Definition transport_increment (t : transport) (n : Z) : transport :=
  if negb (tr_playing t) then t
  else
    let p := tr_pos t + 1 in
    let p := match tr_loop t with Some (ls, le) => wrap_down p ls le | None => p end in
    {| tr_pos := p; tr_loop := tr_loop t; tr_playing := negb (n <=? p) |}.
Definition transport_seek_to (t : transport) (position n : Z) : transport :=
  let p := match tr_loop t with
           | Some (ls, le) => if tr_pos t <? position then wrap_down position ls le else wrap_up position ls le
           | None => position
           end in
  {| tr_pos := p; tr_loop := tr_loop t; tr_playing := if n <=? p then false else tr_playing t |}.

(** * The system state *)
(** an entry of the frame ring.  [it_frame = None] is [Frame::ZERO]; [it_seq] (ghost) numbers the
    pushes = the transport order; [it_on_empty] (ghost): the ring was empty when it was pushed *)
Record item := { it_frame : option Z; it_index : Z; it_seq : nat; it_on_empty : bool }.

Inductive dpc :=
| PcTop                    (* about to call [run] *)
| PcSeekCmd (i : Z)        (* in [seek_to_index], before [decoder.seek(i)] *)
| PcReseek (idx : Z)       (* in [frame_at_index idx], before [decoder.seek(idx)] *)
| PcDecode (idx : Z).      (* in [frame_at_index idx], before [decoder.decode()] *)
Inductive dstatus :=
| DRunning
| DEnded                   (* the loop broke: scheduler and decoder dropped ON the decoder thread *)
| DPanicked                (* [expect("could not push frame")] *)
| DNever.                  (* [into_sound] failed: no thread; decoder dropped by the caller *)

Record chunk := { ch_belief : Z; ch_truth : Z; ch_len : Z }.
(** [DecodedChunk::frame_at_index]: the value found (the chunk's frames are the true ones) *)
Definition chunk_lookup (c : option chunk) (index : Z) : option Z :=
  match c with
  | Some c => if index <? ch_belief c then None
              else if index - ch_belief c <? ch_len c then Some (ch_truth c + (index - ch_belief c)) else None
  | None => None
  end.

Record dthread := {
  d_status : dstatus; d_pc : dpc;
  d_dec : decoder;
  d_dcfi : Z;                    (* decoder_current_frame_index *)
  d_chunk : option chunk;
  d_tr : transport;
  (* ghost *)
  d_pushes : nat;                (* frames pushed (the seed is number 0) *)
  d_sleeps : nat;                (* [NextStep::Wait] taken *)
  d_good : nat;                  (* steps that made progress: push, successful call, command taken *)
  d_spin : nat;                  (* consecutive steps that neither slept nor made progress nor ended *)
}.

Inductive pstate := Playing | Pausing (r : Z) | Paused | Resuming (r : Z) | Stopping (r : Z) | Stopped.
Definition state_code (p : pstate) : Z :=
  match p with Playing => 0 | Pausing _ => 1 | Paused => 2 | Resuming _ => 4 | Stopping _ => 5 | Stopped => 6 end.
Definition is_stopped (p : pstate) : bool := match p with Stopped => true | _ => false end.
Definition is_advancing (p : pstate) : bool :=
  match p with Playing | Pausing _ | Resuming _ | Stopping _ => true | _ => false end.
Definition psm_pause (p : pstate) (f : Z) : pstate := if is_stopped p then p else Pausing f.
Definition psm_resume (p : pstate) (f : Z) : pstate := if is_stopped p then p else Resuming f.
Definition psm_stop (p : pstate) (f : Z) : pstate := if is_stopped p then p else Stopping f.
(** [PlaybackStateManager::update] over [n] frames; the fade has [r] frames left *)
Definition psm_update (p : pstate) (n : Z) : pstate * bool :=
  match p with
  | Pausing r => if r <=? n then (Paused, true) else (Pausing (r - n), false)
  | Resuming r => if r <=? n then (Playing, true) else (Resuming (r - n), false)
  | Stopping r => if r <=? n then (Stopped, true) else (Stopping (r - n), false)
  | p => (p, false)
  end.

Inductive awhere :=
| Queued        (* inserted by [play], not yet adopted by the track *)
| OnTrack
| Unloaded      (* finished and removed by the track *)
| Limbo         (* its track was removed by the audio thread (track handle dropped): no longer processed, but
                   the Track object, the sound and its ring consumer wait in the parent's unused-resource
                   queue until the gameplay thread drains it (next add_sub_track, or the manager's drop) *)
| Gone.         (* dropped unfinished (ring consumer dropped): rejected by a full track, its manager was
                   dropped, or its removed track was drained *)

Inductive out_entry := OZero | OHeard (it : item).

Record state := {
  st_d : dthread;
  (* shared atomics and rings *)
  sh_state : Z; sh_pos : Z; sh_reached_end : bool; sh_err : bool;
  sh_ring : list item;           (* NEWEST first *)
  sh_n : Z;                      (* number of entries (rtrb: tail - head) *)
  sh_err_slot : option Z;        (* error ring, capacity 1 *)
  c_pause : option Z; c_resume : option Z; c_stop : option Z; c_seek : option Z;
  (* the StreamingSound on the audio thread *)
  a_where : awhere; a_psm : pstate; a_rem : nat; a_cur : Z;
  a_head_heard : bool;           (* ghost: the ring's oldest entry has been heard (or is the seed) *)
  (* gameplay side *)
  g_handle : bool;               (* the handle exists *)
  g_play_err : option Z;         (* [play] returned IntoSoundError *)
  (* ghost logs, newest first *)
  l_raised : list Z; l_popped : list Z;
  l_out : list out_entry; l_skipped : list item;
  l_obs : list Z;
}.

Inductive event :=
| D
| AStart | AProc (n : nat) | AFrame
| GStop (f : Z) | GPause (f : Z) | GResume (f : Z) | GSeekTo (i : Z)
| GPopError | GDropHandle | GDropSound | GDropTrack | GDrain
| GObsH | GObsD.

Definition status_code (s : dstatus) : Z :=
  match s with DRunning => 0 | DEnded => 1 | DPanicked => 3 | DNever => 4 end.

(** ** setters *)
Definition set_d (s : state) (d : dthread) : state :=
  {| st_d := d; sh_state := sh_state s; sh_pos := sh_pos s; sh_reached_end := sh_reached_end s; sh_err := sh_err s;
     sh_ring := sh_ring s; sh_n := sh_n s; sh_err_slot := sh_err_slot s; c_pause := c_pause s; c_resume := c_resume s;
     c_stop := c_stop s; c_seek := c_seek s; a_where := a_where s; a_psm := a_psm s; a_rem := a_rem s;
     a_cur := a_cur s; a_head_heard := a_head_heard s; g_handle := g_handle s; g_play_err := g_play_err s;
     l_raised := l_raised s; l_popped := l_popped s; l_out := l_out s; l_skipped := l_skipped s; l_obs := l_obs s |}.
Definition set_obs (s : state) (o : list Z) : state :=
  {| st_d := st_d s; sh_state := sh_state s; sh_pos := sh_pos s; sh_reached_end := sh_reached_end s; sh_err := sh_err s;
     sh_ring := sh_ring s; sh_n := sh_n s; sh_err_slot := sh_err_slot s; c_pause := c_pause s; c_resume := c_resume s;
     c_stop := c_stop s; c_seek := c_seek s; a_where := a_where s; a_psm := a_psm s; a_rem := a_rem s;
     a_cur := a_cur s; a_head_heard := a_head_heard s; g_handle := g_handle s; g_play_err := g_play_err s;
     l_raised := l_raised s; l_popped := l_popped s; l_out := l_out s; l_skipped := l_skipped s; l_obs := o |}.
(** the sound's thread-local fields and the state mirror *)
Definition set_a (s : state) (w : awhere) (p : pstate) (mirror : Z) (rem : nat) : state :=
  {| st_d := st_d s; sh_state := mirror; sh_pos := sh_pos s; sh_reached_end := sh_reached_end s; sh_err := sh_err s;
     sh_ring := sh_ring s; sh_n := sh_n s; sh_err_slot := sh_err_slot s; c_pause := c_pause s; c_resume := c_resume s;
     c_stop := c_stop s; c_seek := c_seek s; a_where := w; a_psm := p; a_rem := rem;
     a_cur := a_cur s; a_head_heard := a_head_heard s; g_handle := g_handle s; g_play_err := g_play_err s;
     l_raised := l_raised s; l_popped := l_popped s; l_out := l_out s; l_skipped := l_skipped s; l_obs := l_obs s |}.
Definition set_cmds (s : state) (pa re st sk : option Z) : state :=
  {| st_d := st_d s; sh_state := sh_state s; sh_pos := sh_pos s; sh_reached_end := sh_reached_end s; sh_err := sh_err s;
     sh_ring := sh_ring s; sh_n := sh_n s; sh_err_slot := sh_err_slot s; c_pause := pa; c_resume := re;
     c_stop := st; c_seek := sk; a_where := a_where s; a_psm := a_psm s; a_rem := a_rem s;
     a_cur := a_cur s; a_head_heard := a_head_heard s; g_handle := g_handle s; g_play_err := g_play_err s;
     l_raised := l_raised s; l_popped := l_popped s; l_out := l_out s; l_skipped := l_skipped s; l_obs := l_obs s |}.
Definition add_out (s : state) (o : list out_entry) (obs : list Z) : state :=
  {| st_d := st_d s; sh_state := sh_state s; sh_pos := sh_pos s; sh_reached_end := sh_reached_end s; sh_err := sh_err s;
     sh_ring := sh_ring s; sh_n := sh_n s; sh_err_slot := sh_err_slot s; c_pause := c_pause s; c_resume := c_resume s;
     c_stop := c_stop s; c_seek := c_seek s; a_where := a_where s; a_psm := a_psm s; a_rem := a_rem s;
     a_cur := a_cur s; a_head_heard := a_head_heard s; g_handle := g_handle s; g_play_err := g_play_err s;
     l_raised := l_raised s; l_popped := l_popped s; l_out := o ++ l_out s; l_skipped := l_skipped s;
     l_obs := obs ++ l_obs s |}.

Definition with_dthread (d : dthread) (st : dstatus) (pc : dpc) : dthread :=
  {| d_status := st; d_pc := pc; d_dec := d_dec d; d_dcfi := d_dcfi d; d_chunk := d_chunk d; d_tr := d_tr d;
     d_pushes := d_pushes d; d_sleeps := d_sleeps d; d_good := d_good d; d_spin := d_spin d |}.

(** the ring's consumer (held by the StreamingSound) has been dropped *)
Definition abandoned (s : state) : bool := match a_where s with Gone => true | _ => false end.

(** * Decoder thread *)
Section Decoder.
  Variable cfg : config.

  (** the [Err] arm of the loop in [start]: push to the error ring (dropped if occupied), set the flag,
      [break] (since commit f5181da; before, the loop went round again at once) *)
  Definition d_raise (s : state) (d : dthread) (e : Z) : state :=
    let d' := {| d_status := DEnded; d_pc := PcTop; d_dec := d_dec d; d_dcfi := d_dcfi d; d_chunk := d_chunk d;
                 d_tr := d_tr d; d_pushes := d_pushes d; d_sleeps := d_sleeps d; d_good := d_good d;
                 d_spin := d_spin d |} in
    {| st_d := d'; sh_state := sh_state s; sh_pos := sh_pos s; sh_reached_end := sh_reached_end s; sh_err := true;
       sh_ring := sh_ring s; sh_n := sh_n s;
       sh_err_slot := match sh_err_slot s with None => Some e | x => x end;
       c_pause := c_pause s; c_resume := c_resume s; c_stop := c_stop s; c_seek := c_seek s;
       a_where := a_where s; a_psm := a_psm s; a_rem := a_rem s; a_cur := a_cur s; a_head_heard := a_head_heard s;
       g_handle := g_handle s; g_play_err := g_play_err s;
       l_raised := e :: l_raised s; l_popped := l_popped s; l_out := l_out s; l_skipped := l_skipped s;
       l_obs := l_obs s |}.

  (** the tail of [run] once the frame is known: push, advance, end of data *)
  Definition d_deliver (s : state) (d : dthread) (fr : option Z) : state :=
    if cf_cap cfg <=? sh_n s then set_d s (with_dthread d DPanicked PcTop)
    else
      let it := {| it_frame := fr; it_index := tr_pos (d_tr d); it_seq := d_pushes d;
                   it_on_empty := (sh_n s =? 0) |} in
      let tr' := transport_increment (d_tr d) (num_frames cfg) in
      let ended := negb (tr_playing tr') in
      let d' := {| d_status := if ended then DEnded else DRunning; d_pc := PcTop; d_dec := d_dec d;
                   d_dcfi := d_dcfi d; d_chunk := d_chunk d; d_tr := tr';
                   d_pushes := S (d_pushes d); d_sleeps := d_sleeps d; d_good := S (d_good d); d_spin := O |} in
      {| st_d := d'; sh_state := sh_state s; sh_pos := sh_pos s;
         sh_reached_end := if ended then true else sh_reached_end s; sh_err := sh_err s;
         sh_ring := it :: sh_ring s; sh_n := sh_n s + 1; sh_err_slot := sh_err_slot s;
         c_pause := c_pause s; c_resume := c_resume s; c_stop := c_stop s; c_seek := c_seek s;
         a_where := a_where s; a_psm := a_psm s; a_rem := a_rem s; a_cur := a_cur s;
         a_head_heard := if sh_n s =? 0 then false else a_head_heard s;
         g_handle := g_handle s; g_play_err := g_play_err s;
         l_raised := l_raised s; l_popped := l_popped s; l_out := l_out s; l_skipped := l_skipped s;
         l_obs := l_obs s |}.

  Definition d_progress (d : dthread) (pc : dpc) : dthread :=
    {| d_status := DRunning; d_pc := pc; d_dec := d_dec d; d_dcfi := d_dcfi d; d_chunk := d_chunk d; d_tr := d_tr d;
       d_pushes := d_pushes d; d_sleeps := d_sleeps d; d_good := S (d_good d); d_spin := O |}.

  Definition d_idle (d : dthread) (pc : dpc) : dthread :=
    {| d_status := DRunning; d_pc := pc; d_dec := d_dec d; d_dcfi := d_dcfi d; d_chunk := d_chunk d; d_tr := d_tr d;
       d_pushes := d_pushes d; d_sleeps := d_sleeps d; d_good := d_good d; d_spin := S (d_spin d) |}.

  (** [frame_at_index (transport.position)] from its beginning up to the first decoder call *)
  Definition d_fetch (s : state) (d : dthread) : state :=
    let index := tr_pos (d_tr d) in
    if num_frames cfg <=? index then d_deliver s d None
    else match chunk_lookup (d_chunk d) index with
         | Some v => d_deliver s d (Some v)
         | None => (* stands before a decoder call: a step without sleep or progress *)
                   if index <? d_dcfi d then set_d s (d_idle d (PcReseek index))
                   else set_d s (d_idle d (PcDecode index))
         end.

  Definition with_dec (d : dthread) (dec : decoder) : dthread :=
    {| d_status := d_status d; d_pc := d_pc d; d_dec := dec; d_dcfi := d_dcfi d; d_chunk := d_chunk d; d_tr := d_tr d;
       d_pushes := d_pushes d; d_sleeps := d_sleeps d; d_good := d_good d; d_spin := d_spin d |}.
  Definition with_dcfi (d : dthread) (i : Z) (c : option chunk) : dthread :=
    {| d_status := d_status d; d_pc := d_pc d; d_dec := d_dec d; d_dcfi := i; d_chunk := c; d_tr := d_tr d;
       d_pushes := d_pushes d; d_sleeps := d_sleeps d; d_good := d_good d; d_spin := d_spin d |}.
  Definition with_tr (d : dthread) (t : transport) : dthread :=
    {| d_status := d_status d; d_pc := d_pc d; d_dec := d_dec d; d_dcfi := d_dcfi d; d_chunk := d_chunk d; d_tr := t;
       d_pushes := d_pushes d; d_sleeps := d_sleeps d; d_good := d_good d; d_spin := d_spin d |}.

  (** one step of the decoder thread *)
  Definition d_step (s : state) : state :=
    let d := st_d s in
    match d_status d with
    | DRunning =>
        match d_pc d with
        | PcTop =>
            (* run(): manually stopped => End *)
            if sh_state s =? 6 then set_d s (with_dthread d DEnded PcTop)
            (* the sound no longer exists: [frame_producer.is_abandoned()] => End (since commit 44357a4) *)
            else if abandoned s then set_d s (with_dthread d DEnded PcTop)
            (* ring full => Wait: sleep 1 ms *)
            else if cf_cap cfg <=? sh_n s then
              set_d s {| d_status := DRunning; d_pc := PcTop; d_dec := d_dec d; d_dcfi := d_dcfi d; d_chunk := d_chunk d;
                         d_tr := d_tr d; d_pushes := d_pushes d; d_sleeps := S (d_sleeps d); d_good := d_good d;
                         d_spin := O |}
            else match c_seek s with
                 | Some i =>
                     (* seek_to -> seek_to_index: transport first, then the decoder call *)
                     let s1 := set_cmds s (c_pause s) (c_resume s) (c_stop s) None in
                     set_d s1 (d_progress (with_tr d (transport_seek_to (d_tr d) i (num_frames cfg))) (PcSeekCmd i))
                 | None => d_fetch s d
                 end
        | PcSeekCmd i =>
            match dec_seek cfg (d_dec d) i with
            | (dec, RErr e) => d_raise s (with_dec d dec) e
            | (dec, ROk j) => d_fetch s (d_progress (with_dcfi (with_dec d dec) j (d_chunk d)) PcTop)
            end
        | PcReseek idx =>
            match dec_seek cfg (d_dec d) idx with
            | (dec, RErr e) => d_raise s (with_dec d dec) e
            | (dec, ROk j) => set_d s (d_progress (with_dcfi (with_dec d dec) j (d_chunk d)) (PcDecode idx))
            end
        | PcDecode idx =>
            match dec_decode cfg (d_dec d) with
            | (dec, RErr e) => d_raise s (with_dec d dec) e
            | (dec, ROk (tstart, len)) =>
                let c := {| ch_belief := d_dcfi d; ch_truth := tstart; ch_len := len |} in
                let d1 := d_progress (with_dcfi (with_dec d dec) (d_dcfi d + len) (Some c)) (PcDecode idx) in
                match chunk_lookup (Some c) idx with
                | Some v => d_deliver s d1 (Some v)
                | None => set_d s d1
                end
            end
        end
    | _ => s
    end.
End Decoder.

(** * Audio thread *)
Definition zeros (n : nat) : list out_entry := repeat OZero n.
Definition mones (n : nat) : list Z := repeat (-1) n.

(** [Sound::on_start_processing] *)
Definition a_on_start (s : state) : state :=
  let cur := match ring_second (sh_ring s) with Some it => it_index it | None => a_cur s end in
  let p := a_psm s in
  let '(p, m) := match c_pause s with Some f => (psm_pause p f, state_code (psm_pause p f)) | None => (p, sh_state s) end in
  let '(p, m) := match c_resume s with Some f => (psm_resume p f, state_code (psm_resume p f)) | None => (p, m) end in
  let '(p, m) := match c_stop s with Some f => (psm_stop p f, state_code (psm_stop p f)) | None => (p, m) end in
  {| st_d := st_d s; sh_state := m; sh_pos := cur; sh_reached_end := sh_reached_end s; sh_err := sh_err s;
     sh_ring := sh_ring s; sh_n := sh_n s; sh_err_slot := sh_err_slot s; c_pause := None; c_resume := None; c_stop := None;
     c_seek := c_seek s; a_where := OnTrack; a_psm := p; a_rem := a_rem s; a_cur := cur;
     a_head_heard := a_head_heard s; g_handle := g_handle s; g_play_err := g_play_err s;
     l_raised := l_raised s; l_popped := l_popped s; l_out := l_out s; l_skipped := l_skipped s; l_obs := l_obs s |}.

(** the track's [on_start_processing] as far as this sound is concerned *)
Definition a_start (s : state) : state :=
  match a_rem s with
  | O =>
      match a_where s with
      | Queued => a_on_start s
      | OnTrack => if is_stopped (a_psm s) then set_a s Unloaded (a_psm s) (sh_state s) O else a_on_start s
      | _ => s
      end
  | _ => s
  end.

(** [process] up to the per-frame loop *)
Definition a_proc (s : state) (n : nat) : state :=
  match a_where s, a_rem s with
  | OnTrack, O =>
      if sh_err s then add_out (set_a s OnTrack Stopped 6 O) (zeros n) (mones n)
      else
        let '(p, changed) := psm_update (a_psm s) (Z.of_nat n) in
        let s1 := set_a s OnTrack p (if changed then state_code p else sh_state s) O in
        if negb (is_advancing p) then add_out s1 (zeros n) (mones n)
        else if (sh_n s <? 2) && negb (sh_reached_end s) then add_out s1 (zeros n) (mones n)
        else set_a s1 OnTrack p (sh_state s1) n
  | _, _ => s
  end.

Definition out_value (o : out_entry) : Z :=
  match o with OHeard it => match it_frame it with Some v => v | None => -1 end | OZero => -1 end.

(** one iteration of the per-frame loop: interpolate at fraction 0 = the second ring entry (zero if
    absent), pop one entry, natural end *)
Definition a_frame (s : state) : state :=
  match a_where s, a_rem s with
  | OnTrack, S r =>
      let o := match ring_second (sh_ring s) with Some it => OHeard it | None => OZero end in
      let skipped := match ring_oldest (sh_ring s) with
                     | Some it => if a_head_heard s then l_skipped s else it :: l_skipped s
                     | None => l_skipped s
                     end in
      let ring' := ring_pop (sh_ring s) in
      let n' := if sh_n s =? 0 then 0 else sh_n s - 1 in
      let stop := sh_reached_end s && (n' =? 0) in
      {| st_d := st_d s; sh_state := if stop then 6 else sh_state s; sh_pos := sh_pos s;
         sh_reached_end := sh_reached_end s; sh_err := sh_err s;
         sh_ring := ring'; sh_n := n'; sh_err_slot := sh_err_slot s;
         c_pause := c_pause s; c_resume := c_resume s; c_stop := c_stop s; c_seek := c_seek s;
         a_where := OnTrack; a_psm := if stop then Stopped else a_psm s; a_rem := r; a_cur := a_cur s;
         a_head_heard := negb (n' =? 0);
         g_handle := g_handle s; g_play_err := g_play_err s;
         l_raised := l_raised s; l_popped := l_popped s; l_out := o :: l_out s; l_skipped := skipped;
         l_obs := out_value o :: l_obs s |}
  | _, _ => s
  end.

(** * Gameplay thread *)
Definition g_step (s : state) (e : event) : state :=
  match e with
  | GStop f => if g_handle s then set_cmds s (c_pause s) (c_resume s) (Some f) (c_seek s) else s
  | GPause f => if g_handle s then set_cmds s (Some f) (c_resume s) (c_stop s) (c_seek s) else s
  | GResume f => if g_handle s then set_cmds s (c_pause s) (Some f) (c_stop s) (c_seek s) else s
  | GSeekTo i => if g_handle s then set_cmds s (c_pause s) (c_resume s) (c_stop s) (Some i) else s
  | GPopError =>
      if g_handle s then
        {| st_d := st_d s; sh_state := sh_state s; sh_pos := sh_pos s; sh_reached_end := sh_reached_end s;
           sh_err := sh_err s; sh_ring := sh_ring s; sh_n := sh_n s; sh_err_slot := None;
           c_pause := c_pause s; c_resume := c_resume s; c_stop := c_stop s; c_seek := c_seek s;
           a_where := a_where s; a_psm := a_psm s; a_rem := a_rem s; a_cur := a_cur s; a_head_heard := a_head_heard s;
           g_handle := g_handle s; g_play_err := g_play_err s;
           l_raised := l_raised s;
           l_popped := match sh_err_slot s with Some e => e :: l_popped s | None => l_popped s end;
           l_out := l_out s; l_skipped := l_skipped s;
           l_obs := match sh_err_slot s with Some e => e | None => -1 end :: l_obs s |}
      else s
  | GDropHandle =>
      {| st_d := st_d s; sh_state := sh_state s; sh_pos := sh_pos s; sh_reached_end := sh_reached_end s;
         sh_err := sh_err s; sh_ring := sh_ring s; sh_n := sh_n s; sh_err_slot := sh_err_slot s;
         c_pause := c_pause s; c_resume := c_resume s; c_stop := c_stop s; c_seek := c_seek s;
         a_where := a_where s; a_psm := a_psm s; a_rem := a_rem s; a_cur := a_cur s; a_head_heard := a_head_heard s;
         g_handle := false; g_play_err := g_play_err s;
         l_raised := l_raised s; l_popped := l_popped s; l_out := l_out s; l_skipped := l_skipped s; l_obs := l_obs s |}
  | GDropSound =>
      (* rejected by a full track / the manager is dropped: the sound is dropped at once *)
      match a_where s with
      | Queued | OnTrack | Limbo => set_a s Gone (a_psm s) (sh_state s) O
      | _ => s
      end
  | GDropTrack =>
      (* the track's handle is dropped; the next callback removes the track before the sound's
         on_start_processing: from the sound's point of view it is simply never run again *)
      match a_where s with
      | Queued | OnTrack => set_a s Limbo (a_psm s) (sh_state s) O
      | _ => s
      end
  | GDrain =>
      match a_where s with
      | Limbo => set_a s Gone (a_psm s) (sh_state s) O
      | _ => s
      end
  | GObsH => set_obs s ((match a_where s with Queued | OnTrack | Limbo => 1 | _ => 0 end) :: sh_pos s :: sh_state s :: l_obs s)
  | GObsD => set_obs s (dc_nseek (d_dec (st_d s)) :: dc_ndec (d_dec (st_d s)) :: status_code (d_status (st_d s)) :: l_obs s)
  | _ => s
  end.

Definition step (cfg : config) (s : state) (e : event) : state :=
  match e with
  | D => d_step cfg s
  | AStart => a_start s
  | AProc n => a_proc s n
  | AFrame => a_frame s
  | e => g_step s e
  end.
Definition run (cfg : config) (sched : list event) (s : state) : state := fold_left (step cfg) sched s.

(** * [play]: [into_sound] ([split]: [DecodeScheduler::new] does seek #1 on the caller's thread; then the
    thread is spawned), then the insert into the track's queue *)
Definition seed : item := {| it_frame := None; it_index := 0; it_seq := O; it_on_empty := true |}.
Definition init (cfg : config) : state :=
  let d0 := {| dc_cursor := O; dc_ndec := 0; dc_nseek := 0 |} in
  let '(dec, r) := dec_seek cfg d0 (cf_start cfg) in
  let mk st dcfi w h perr :=
    {| st_d := {| d_status := st; d_pc := PcTop; d_dec := dec; d_dcfi := dcfi; d_chunk := None;
                  d_tr := transport_new (cf_start cfg) (cf_loop cfg);
                  d_pushes := 1; d_sleeps := O; d_good := O; d_spin := O |};
       sh_state := 0; sh_pos := cf_start cfg; sh_reached_end := false; sh_err := false;
       sh_ring := [seed]; sh_n := 1; sh_err_slot := None;
       c_pause := None; c_resume := None; c_stop := None; c_seek := None;
       a_where := w; a_psm := Playing; a_rem := O; a_cur := cf_start cfg; a_head_heard := true;
       g_handle := h; g_play_err := perr;
       l_raised := []; l_popped := []; l_out := []; l_skipped := []; l_obs := [] |} in
  match r with
  | ROk j => mk DRunning j Queued true None
  | RErr e => mk DNever 0 Gone false (Some e)
  end.

(** [play] on a full track: [into_sound] has spawned the thread, the insert fails, sound and handle are
    dropped at once *)
Definition reject : list event := [GDropSound; GDropHandle].
