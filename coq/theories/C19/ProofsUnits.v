(** C19 — decibels, panning, semitones: what the property says about them, over the reals
    ([ModelUnitsR]) and structurally for the binary32 / binary64 transcriptions ([ModelF32]) with
    libm's [powf] as a Section variable about which only what is stated is assumed. *)
From Coq Require Import ZArith Reals Lra Lia Bool.
From Flocq Require Import Core IEEE754.BinarySingleNaN.
From KV Require Import Base.IEEE C19.ModelF32 C19.ModelUnitsR.
Local Open Scope R_scope.

(** * decibels over the reals *)
Lemma db_amp_zero_l : db_amp_R 0 = 1.
Proof. unfold db_amp_R. destruct (Req_EM_T 0 0) as [_|N]; [reflexivity|exfalso; apply N; reflexivity]. Qed.

Lemma db_amp_silence_l db : db <= -60 -> db_amp_R db = 0.
Proof.
  intro H. unfold db_amp_R. destruct (Req_EM_T db 0) as [E|_]; [lra|].
  destruct (Rle_dec db (-60)) as [_|N]; [reflexivity|contradiction].
Qed.

Lemma db_amp_agrees_l db : -60 < db -> db_amp_R db = Rpower 10 (db / 20).
Proof.
  intro H. unfold db_amp_R. destruct (Req_EM_T db 0) as [E|_].
  - subst db. replace (0 / 20) with 0 by lra. rewrite Rpower_O; [reflexivity|lra].
  - destruct (Rle_dec db (-60)) as [L|_]; [lra|reflexivity].
Qed.

Lemma Rpower10_pos x : 0 < Rpower 10 x.
Proof. unfold Rpower. apply exp_pos. Qed.

Lemma db_amp_nonneg_l db : 0 <= db_amp_R db.
Proof.
  destruct (Rle_dec db (-60)) as [L|N].
  - rewrite db_amp_silence_l by exact L. lra.
  - rewrite db_amp_agrees_l by lra. left. apply Rpower10_pos.
Qed.

Lemma db_amp_monotone_l a b : a <= b -> db_amp_R a <= db_amp_R b.
Proof.
  intro H. destruct (Rle_dec a (-60)) as [La|Na].
  - rewrite (db_amp_silence_l a La). apply db_amp_nonneg_l.
  - rewrite !db_amp_agrees_l by lra. apply Rle_Rpower; lra.
Qed.

Lemma db_amp_strict_l a b : -60 < a -> a < b -> db_amp_R a < db_amp_R b.
Proof. intros Ha H. rewrite !db_amp_agrees_l by lra. apply Rpower_lt; lra. Qed.

Lemma db_amp_range_l db : db <= 0 -> 0 <= db_amp_R db <= 1.
Proof.
  intro H. split; [apply db_amp_nonneg_l|]. rewrite <- db_amp_zero_l. apply db_amp_monotone_l, H.
Qed.

(** twenty decibels are a factor of ten, (about) six a factor of two *)
Lemma db_amp_plus20_l db : -60 < db -> db_amp_R (db + 20) = 10 * db_amp_R db.
Proof.
  intro H. rewrite !db_amp_agrees_l by lra. replace ((db + 20) / 20) with (1 + db / 20) by lra.
  rewrite Rpower_plus, Rpower_1 by lra. reflexivity.
Qed.

(** * panning over the reals *)
Lemma clamp_R_range x : -1 <= clamp_R x (-1) 1 <= 1.
Proof. unfold clamp_R. destruct (Rlt_dec x (-1)); [lra|]. destruct (Rlt_dec 1 x); lra. Qed.

Lemma sqrt_half_sqrt2 : sqrt (1 / 2) * sqrt 2 = 1.
Proof. rewrite <- sqrt_mult by lra. replace (1 / 2 * 2) with 1 by lra. apply sqrt_1. Qed.

(** centre: the shortcut returns the input, and the formula it short-cuts gives the same *)
Lemma panned_centre_l l r : panned_R l r 0 = (l, r) /\ panned_formula_R l r 0 = (l, r).
Proof.
  split.
  - unfold panned_R. destruct (Req_EM_T 0 0) as [_|N]; [reflexivity|exfalso; apply N; reflexivity].
  - unfold panned_formula_R, clamp_R. destruct (Rlt_dec 0 (-1)); [lra|]. destruct (Rlt_dec 1 0); [lra|].
    replace ((0 + 1) * (1 / 2)) with (1 / 2) by lra. replace (1 - 1 / 2) with (1 / 2) by lra.
    rewrite !Rmult_assoc, sqrt_half_sqrt2, !Rmult_1_r. reflexivity.
Qed.

Lemma panned_is_formula_l l r p : panned_R l r p = panned_formula_R l r p.
Proof.
  unfold panned_R. destruct (Req_EM_T p 0) as [E|_]; [|reflexivity].
  subst p. symmetry. apply panned_centre_l.
Qed.

(** the total power of a centred signal (the same value in both channels) does not depend on the panning *)
Lemma panned_power_l x p : power2 (panned_R x x p) = power2 (x, x).
Proof.
  rewrite panned_is_formula_l. unfold panned_formula_R, power2; cbn [fst snd].
  set (m := (clamp_R p (-1) 1 + 1) * (1 / 2)).
  assert (Hm : 0 <= m <= 1) by (unfold m; pose proof (clamp_R_range p); lra).
  assert (S2 : sqrt 2 * sqrt 2 = 2) by (apply sqrt_sqrt; lra).
  assert (Sm : sqrt m * sqrt m = m) by (apply sqrt_sqrt; lra).
  assert (S1 : sqrt (1 - m) * sqrt (1 - m) = 1 - m) by (apply sqrt_sqrt; lra).
  replace (x * sqrt (1 - m) * sqrt 2 * (x * sqrt (1 - m) * sqrt 2))
    with (x * x * (sqrt (1 - m) * sqrt (1 - m)) * (sqrt 2 * sqrt 2)) by ring.
  replace (x * sqrt m * sqrt 2 * (x * sqrt m * sqrt 2))
    with (x * x * (sqrt m * sqrt m) * (sqrt 2 * sqrt 2)) by ring.
  rewrite S1, Sm, S2. ring.
Qed.

(** hard left / hard right (and anything beyond: the panning is clamped) *)
Lemma panned_hard_left_l l r p : p <= -1 -> panned_R l r p = (l * sqrt 2, 0).
Proof.
  intro H. rewrite panned_is_formula_l. unfold panned_formula_R, clamp_R.
  destruct (Rlt_dec p (-1)) as [_|N].
  - replace ((-1 + 1) * (1 / 2)) with 0 by lra. replace (1 - 0) with 1 by lra.
    rewrite sqrt_1, sqrt_0. f_equal; ring.
  - destruct (Rlt_dec 1 p); [lra|]. assert (p = -1) by lra. subst p.
    replace ((-1 + 1) * (1 / 2)) with 0 by lra. replace (1 - 0) with 1 by lra.
    rewrite sqrt_1, sqrt_0. f_equal; ring.
Qed.
Lemma panned_hard_right_l l r p : 1 <= p -> panned_R l r p = (0, r * sqrt 2).
Proof.
  intro H. rewrite panned_is_formula_l. unfold panned_formula_R, clamp_R.
  destruct (Rlt_dec p (-1)); [lra|]. destruct (Rlt_dec 1 p) as [_|N].
  - replace ((1 + 1) * (1 / 2)) with 1 by lra. replace (1 - 1) with 0 by lra.
    rewrite sqrt_1, sqrt_0. f_equal; ring.
  - assert (p = 1) by lra. subst p.
    replace ((1 + 1) * (1 / 2)) with 1 by lra. replace (1 - 1) with 0 by lra.
    rewrite sqrt_1, sqrt_0. f_equal; ring.
Qed.

(** moving the panning to the right never raises the left gain and never lowers the right gain *)
Lemma panned_gains_monotone_l p q :
  p <= q ->
  fst (panned_R 1 1 q) <= fst (panned_R 1 1 p) /\ snd (panned_R 1 1 p) <= snd (panned_R 1 1 q).
Proof.
  intro H. rewrite !panned_is_formula_l. unfold panned_formula_R; cbn [fst snd].
  assert (Hc : clamp_R p (-1) 1 <= clamp_R q (-1) 1).
  { unfold clamp_R. destruct (Rlt_dec p (-1)); destruct (Rlt_dec q (-1)); try lra;
      destruct (Rlt_dec 1 p); destruct (Rlt_dec 1 q); lra. }
  pose proof (clamp_R_range p) as Rp. pose proof (clamp_R_range q) as Rq.
  assert (S2 : 0 <= sqrt 2) by apply sqrt_pos.
  split; rewrite !Rmult_1_l; apply Rmult_le_compat_r; try exact S2; apply sqrt_le_1_alt; lra.
Qed.

(** * semitones over the reals *)
Lemma semitones_octave_l : semitones_to_rate_R 12 = 2.
Proof. unfold semitones_to_rate_R. replace (12 / 12) with 1 by lra. apply Rpower_1; lra. Qed.
Lemma semitones_zero_l : semitones_to_rate_R 0 = 1.
Proof. unfold semitones_to_rate_R. replace (0 / 12) with 0 by lra. apply Rpower_O; lra. Qed.
Lemma semitones_plus12_l s : semitones_to_rate_R (s + 12) = 2 * semitones_to_rate_R s.
Proof.
  unfold semitones_to_rate_R. replace ((s + 12) / 12) with (1 + s / 12) by lra.
  rewrite Rpower_plus, Rpower_1 by lra. reflexivity.
Qed.
Lemma semitones_minus12_l s : semitones_to_rate_R (s - 12) = semitones_to_rate_R s / 2.
Proof.
  pose proof (semitones_plus12_l (s - 12)) as H. replace (s - 12 + 12) with s in H by lra. lra.
Qed.
Lemma semitones_monotone_l a b : a <= b -> semitones_to_rate_R a <= semitones_to_rate_R b.
Proof. intro H. unfold semitones_to_rate_R. apply Rle_Rpower; lra. Qed.
Lemma semitones_additive_l a b : semitones_to_rate_R (a + b) = semitones_to_rate_R a * semitones_to_rate_R b.
Proof. unfold semitones_to_rate_R. replace ((a + b) / 12) with (a / 12 + b / 12) by lra. apply Rpower_plus. Qed.

(** * binary32: the structure of [db_as_amplitude] for any libm [powf] *)
Lemma fexp32_FLT_u : SpecFloat.fexp 24 128 = FLT_exp (-149) 24.
Proof. reflexivity. Qed.
Lemma Z32_small_exact : forall x, (Z.abs x < 2 ^ 24)%Z -> B2R (Z32 x) = IZR x /\ is_finite (Z32 x) = true.
Proof.
  intros x H. unfold Z32, of_Z.
  pose proof (binary_normalize_correct 24 128 Hprec32 Hmax32 mode_NE x 0 false) as C. cbv zeta in C.
  assert (HF : F2R (Float radix2 x 0) = IZR x) by (unfold F2R; simpl; ring).
  rewrite round_generic in C; [|apply valid_rnd_N|].
  2:{ rewrite fexp32_FLT_u. apply generic_format_FLT. exists (Float radix2 x 0); auto. cbn. lia. }
  rewrite HF in C. rewrite Rlt_bool_true in C.
  - destruct C as (A & B & _). now split.
  - apply Rlt_trans with (bpow radix2 24); [|apply bpow_lt; lia].
    rewrite <- abs_IZR. replace (bpow radix2 24) with (IZR (2 ^ 24)); [now apply IZR_lt|].
    replace (2 ^ 24)%Z with (Zpower radix2 24) by reflexivity. apply IZR_Zpower. lia.
Qed.

Notation rnd32 := (round radix2 (SpecFloat.fexp 24 128) (round_mode mode_NE)).

(** dividing a finite binary32 by 20 never overflows and is the correctly rounded quotient *)
Lemma div20_spec x : is_finite x = true ->
  is_finite (div32 x (Z32 20)) = true /\ B2R (div32 x (Z32 20)) = rnd32 (B2R x / 20).
Proof.
  intro Fx. destruct (Z32_small_exact 20 ltac:(cbn; lia)) as [B20 F20].
  assert (Hy : B2R (Z32 20) <> 0) by (rewrite B20; lra).
  pose proof (Bdiv_correct 24 128 Hprec32 Hmax32 mode_NE x (Z32 20) Hy) as C. rewrite B20 in C.
  rewrite Rlt_bool_true in C.
  - destruct C as (A & B & _). unfold div32, fdiv. rewrite A, B, Fx. now split.
  - apply Rle_lt_trans with (Rabs (B2R x)); [|apply abs_B2R_lt_emax].
    apply abs_round_le_generic; [apply fexp_correct; reflexivity|apply valid_rnd_N| |].
    + apply generic_format_abs, generic_format_B2R.
    + unfold Rdiv. rewrite Rabs_mult. rewrite (Rabs_pos_eq (/ 20)) by lra.
      pose proof (Rabs_pos (B2R x)). lra.
Qed.

Lemma div20_monotone x y : is_finite x = true -> is_finite y = true -> B2R x <= B2R y ->
  B2R (div32 x (Z32 20)) <= B2R (div32 y (Z32 20)).
Proof.
  intros Fx Fy H. destruct (div20_spec x Fx) as [_ ->]. destruct (div20_spec y Fy) as [_ ->].
  apply round_le; [apply fexp_correct; reflexivity|apply valid_rnd_N|lra].
Qed.

Lemma div20_sign x : is_finite x = true ->
  (B2R x <= 0 -> B2R (div32 x (Z32 20)) <= 0) /\ (0 <= B2R x -> 0 <= B2R (div32 x (Z32 20))).
Proof.
  intro Fx. destruct (div20_spec x Fx) as [_ ->]. split; intro H.
  - rewrite <- (round_0 radix2 (SpecFloat.fexp 24 128) (round_mode mode_NE)).
    apply round_le; [apply fexp_correct; reflexivity|apply valid_rnd_N|lra].
  - rewrite <- (round_0 radix2 (SpecFloat.fexp 24 128) (round_mode mode_NE)) at 1.
    apply round_le; [apply fexp_correct; reflexivity|apply valid_rnd_N|lra].
Qed.

Section PowfOracle.
  (** [powf10 x] stands for [10.0f32.powf(x)].  Assumed of it, and only for finite arguments:
      it is non-decreasing (its result may be +inf), never negative, and 10^(+0) = 1. *)
  Variable powf10 : f32 -> f32.
  Hypothesis powf10_monotone : forall x y, is_finite x = true -> is_finite y = true -> B2R x <= B2R y ->
    le32 (powf10 x) (powf10 y) = true.
  Hypothesis powf10_nonneg : forall x, is_finite x = true -> le32 (Z32 0) (powf10 x) = true.
  Hypothesis powf10_zero : powf10 (Z32 0) = Z32 1.

  Lemma db32_zero : db_as_amplitude powf10 (Z32 0) = Z32 1 /\ db_as_amplitude powf10 (neg32 (Z32 0)) = Z32 1.
  Proof. split; reflexivity. Qed.

  Lemma db32_cases db : is_finite db = true ->
    (B2R db = 0 /\ db_as_amplitude powf10 db = Z32 1) \/
    (B2R db <= -60 /\ db_as_amplitude powf10 db = Z32 0) \/
    (-60 < B2R db /\ B2R db <> 0 /\ db_as_amplitude powf10 db = powf10 (div32 db (Z32 20))).
  Proof.
    intro F. unfold db_as_amplitude, eq32, feq, le32, fle.
    destruct (Z32_small_exact 0 ltac:(cbn; lia)) as [B0 F0].
    destruct (Z32_small_exact (-60) ltac:(cbn; lia)) as [B60 F60].
    rewrite Beqb_correct, Bleb_correct by assumption. rewrite B0, B60.
    destruct (Req_bool_spec (B2R db) 0) as [E|N]; [left; now split|right].
    destruct (Rle_bool_spec (B2R db) (-60)) as [L|G]; [left; now split|right]. now repeat split.
  Qed.

  Lemma db32_silence db : is_finite db = true -> B2R db <= -60 -> db_as_amplitude powf10 db = Z32 0.
  Proof.
    intros F H. destruct (db32_cases db F) as [[E _]|[[_ A]|[G _]]]; [lra|exact A|lra].
  Qed.

  (** monotone: a louder setting never gives a smaller amplitude, whatever monotone [powf] is linked *)
  Theorem db32_monotone a b : is_finite a = true -> is_finite b = true -> B2R a <= B2R b ->
    le32 (db_as_amplitude powf10 a) (db_as_amplitude powf10 b) = true.
  Proof.
    intros Fa Fb H.
    assert (F0 : is_finite (Z32 0) = true) by reflexivity.
    assert (B0 : B2R (Z32 0) = 0) by (apply (Z32_small_exact 0); cbn; lia).
    destruct (div20_spec a Fa) as [Fa' _]. destruct (div20_spec b Fb) as [Fb' _].
    destruct (db32_cases a Fa) as [[Ea ->]|[[La ->]|[Ga [Na ->]]]];
      destruct (db32_cases b Fb) as [[Eb ->]|[[Lb ->]|[Gb [Nb ->]]]]; try lra; try reflexivity.
    - (* a = 0 < b *)
      rewrite <- powf10_zero. apply powf10_monotone; [exact F0|exact Fb'|]. rewrite B0.
      apply (div20_sign b Fb). lra.
    - (* a <= -60, b above *) apply powf10_nonneg, Fb'.
    - (* -60 < a < 0 = b *)
      rewrite <- powf10_zero. apply powf10_monotone; [exact Fa'|exact F0|]. rewrite B0.
      apply (div20_sign a Fa). lra.
    - apply powf10_monotone; [exact Fa'|exact Fb'|]. apply div20_monotone; assumption.
  Qed.
  (** the binary32 function takes, at every finite argument, the branch the real-number reading takes *)
  Theorem db32_branches db : is_finite db = true ->
    (B2R db = 0 /\ db_as_amplitude powf10 db = Z32 1 /\ db_amp_R (B2R db) = 1) \/
    (B2R db <= -60 /\ db_as_amplitude powf10 db = Z32 0 /\ db_amp_R (B2R db) = 0) \/
    (-60 < B2R db /\ db_as_amplitude powf10 db = powf10 (div32 db (Z32 20)) /\
     B2R (div32 db (Z32 20)) = rnd32 (B2R db / 20) /\ db_amp_R (B2R db) = Rpower 10 (B2R db / 20)).
  Proof.
    intro F. destruct (db32_cases db F) as [[E A]|[[L A]|[G [N A]]]].
    - left. rewrite E. repeat split; [exact A|apply db_amp_zero_l].
    - right; left. repeat split; [exact L|exact A|apply db_amp_silence_l, L].
    - right; right. repeat split; [exact G|exact A|apply div20_spec, F|apply db_amp_agrees_l, G].
  Qed.
End PowfOracle.

(** the hypotheses are satisfiable: e.g. by the (very coarse) step function 0 / 1 / +inf *)
Definition powf10_step (x : f32) : f32 :=
  if lt32 x (Z32 0) then Z32 0 else if eq32 x (Z32 0) then Z32 1 else B754_infinity false.
Lemma powf10_step_ok :
  (forall x y, is_finite x = true -> is_finite y = true -> B2R x <= B2R y -> le32 (powf10_step x) (powf10_step y) = true) /\
  (forall x, is_finite x = true -> le32 (Z32 0) (powf10_step x) = true) /\ powf10_step (Z32 0) = Z32 1.
Proof.
  assert (B0 : B2R (Z32 0) = 0) by (apply (Z32_small_exact 0); cbn; lia).
  assert (F0 : is_finite (Z32 0) = true) by reflexivity.
  assert (C : forall x, is_finite x = true ->
     (B2R x < 0 /\ powf10_step x = Z32 0) \/ (B2R x = 0 /\ powf10_step x = Z32 1) \/ (0 < B2R x /\ powf10_step x = B754_infinity false)).
  { intros x F. unfold powf10_step, lt32, flt, eq32, feq. rewrite Bltb_correct, Beqb_correct by assumption. rewrite B0.
    destruct (Rlt_bool_spec (B2R x) 0) as [L|G]; [left; now split|right].
    destruct (Req_bool_spec (B2R x) 0) as [E|N]; [left; now split|right]. split; [lra|reflexivity]. }
  split; [|split; [|reflexivity]].
  - intros x y Fx Fy H. destruct (C x Fx) as [[Hx ->]|[[Hx ->]|[Hx ->]]]; destruct (C y Fy) as [[Hy ->]|[[Hy ->]|[Hy ->]]];
      try lra; reflexivity.
  - intros x Fx. destruct (C x Fx) as [[Hx ->]|[[Hx ->]|[Hx ->]]]; reflexivity.
Qed.

(** * binary64: twelve semitones are [powf(2, 1)] exactly (12/12 is exact), zero semitones [powf(2, 0)] *)
Lemma semitones_b64_octave (powf2 : f64 -> f64) :
  semitones_to_rate powf2 (Z64 12) = powf2 (Z64 1) /\ semitones_to_rate powf2 (Z64 0) = powf2 (Z64 0) /\
  semitones_to_rate powf2 (Z64 (-12)) = powf2 (Z64 (-1)) /\ semitones_to_rate powf2 (Z64 24) = powf2 (Z64 2).
Proof. repeat split; unfold semitones_to_rate; f_equal; apply B2SF_inj; vm_compute; reflexivity. Qed.

(** * binary32: centre panning returns the frame untouched (both zeros), hard left / right silence the other side
      for every finite sample *)
Lemma panned32_centre l r : panned l r (Z32 0) = (l, r) /\ panned l r (neg32 (Z32 0)) = (l, r).
Proof. split; reflexivity. Qed.

(** * binary32: hard left / hard right (and beyond: the panning is clamped) silence the other channel exactly *)

Lemma Z32_m1_exact : B2R (Z32 (-1)) = -1 /\ is_finite_strict (Z32 (-1)) = true.
Proof. split; [|reflexivity]. unfold Z32, of_Z.
  pose proof (binary_normalize_correct 24 128 Hprec32 Hmax32 mode_NE (-1) 0 false) as C. cbv zeta in C.
  assert (HF : F2R (Float radix2 (-1) 0) = -1) by (unfold F2R; simpl; lra).
  rewrite round_generic in C; [|apply valid_rnd_N|].
  2:{ change (SpecFloat.fexp 24 128) with (FLT_exp (-149) 24). apply generic_format_FLT. exists (Float radix2 (-1) 0); auto; cbn; lia. }
  rewrite HF in C. rewrite Rlt_bool_true in C; [destruct C as (A & _); exact A|].
  apply Rlt_le_trans with 2; [unfold Rabs; destruct (Rcase_abs (-1)); lra | change 2 with (bpow radix2 1); apply bpow_le; lia].
Qed.
Lemma Z32_p1_exact : B2R (Z32 1) = 1 /\ is_finite_strict (Z32 1) = true.
Proof. split; [|reflexivity]. unfold Z32, of_Z.
  pose proof (binary_normalize_correct 24 128 Hprec32 Hmax32 mode_NE 1 0 false) as C. cbv zeta in C.
  assert (HF : F2R (Float radix2 1 0) = 1) by (unfold F2R; simpl; lra).
  rewrite round_generic in C; [|apply valid_rnd_N|].
  2:{ change (SpecFloat.fexp 24 128) with (FLT_exp (-149) 24). apply generic_format_FLT. exists (Float radix2 1 0); auto; cbn; lia. }
  rewrite HF in C. rewrite Rlt_bool_true in C; [destruct C as (A & _); exact A|].
  apply Rlt_le_trans with 2; [unfold Rabs; destruct (Rcase_abs 1); lra | change 2 with (bpow radix2 1); apply bpow_le; lia].
Qed.

(** a finite panning at or beyond hard left is clamped to exactly -1 (as a float), at or beyond hard right to 1 *)
Lemma clamp_left p : is_finite p = true -> B2R p <= -1 -> clamp32 p (Z32 (-1)) (Z32 1) = Z32 (-1).
Proof.
  intros F H. destruct Z32_m1_exact as [B1 S1]. destruct Z32_p1_exact as [Bp Sp].
  assert (Fm : is_finite (Z32 (-1)) = true) by reflexivity. assert (Fp : is_finite (Z32 1) = true) by reflexivity.
  unfold clamp32, fclamp, flt, fgt. cbv zeta. rewrite (Bltb_correct _ _ p (Z32 (-1))) by assumption. rewrite B1.
  destruct (Rlt_bool_spec (B2R p) (-1)) as [L|G].
  - rewrite Bltb_correct by assumption. rewrite Bp, B1. rewrite Rlt_bool_false by lra. reflexivity.
  - assert (E : B2R p = -1) by lra.
    rewrite Bltb_correct by assumption. rewrite Bp, E. rewrite Rlt_bool_false by lra.
    apply B2R_inj; [|exact S1|rewrite E, B1; reflexivity].
    destruct p; try discriminate; [cbn in E; lra|reflexivity].
Qed.
Lemma clamp_right p : is_finite p = true -> 1 <= B2R p -> clamp32 p (Z32 (-1)) (Z32 1) = Z32 1.
Proof.
  intros F H. destruct Z32_m1_exact as [B1 S1]. destruct Z32_p1_exact as [Bp Sp].
  assert (Fm : is_finite (Z32 (-1)) = true) by reflexivity. assert (Fp : is_finite (Z32 1) = true) by reflexivity.
  unfold clamp32, fclamp, flt, fgt. cbv zeta. rewrite (Bltb_correct _ _ p (Z32 (-1))) by assumption. rewrite B1.
  rewrite Rlt_bool_false by lra. rewrite Bltb_correct by assumption. rewrite Bp.
  destruct (Rlt_bool_spec 1 (B2R p)) as [L|G]; [reflexivity|].
  assert (E : B2R p = 1) by lra. apply B2R_inj; [|exact Sp|rewrite E, Bp; reflexivity].
  destruct p; try discriminate; [cbn in E; lra|reflexivity].
Qed.

Definition mix_of (p' : f32) : f32 := mul32 (add32 p' (Z32 1)) half32.
Lemma mix_left : sqrt32 (mix_of (Z32 (-1))) = B754_zero false /\ sqrt32 (sub32 (Z32 1) (mix_of (Z32 (-1)))) = Z32 1.
Proof. split; apply B2SF_inj; vm_compute; reflexivity. Qed.
Lemma mix_right : sqrt32 (mix_of (Z32 1)) = Z32 1 /\ sqrt32 (sub32 (Z32 1) (mix_of (Z32 1))) = B754_zero false.
Proof. split; apply B2SF_inj; vm_compute; reflexivity. Qed.

Lemma mul_zero_sqrt2 (x : f32) : is_finite x = true ->
  exists s, mul32 (mul32 x (B754_zero false)) SQRT2_32 = B754_zero s.
Proof.
  intro F. destruct x as [s| | |s m e H]; try discriminate; eexists; apply B2SF_inj; cbn; reflexivity.
Qed.

Lemma nonzero_of_le p : B2R p <= -1 \/ 1 <= B2R p -> is_finite p = true -> eq32 p (Z32 0) = false.
Proof.
  intros H F. unfold eq32, feq. rewrite Beqb_correct; [|exact F|reflexivity].
  change (B2R (Z32 0)) with 0. apply Req_bool_false. lra.
Qed.

Theorem panned32_hard_left l r p : is_finite p = true -> is_finite r = true -> B2R p <= -1 ->
  fst (panned l r p) = mul32 (mul32 l (Z32 1)) SQRT2_32 /\ exists s, snd (panned l r p) = B754_zero s.
Proof.
  intros Fp Fr H. unfold panned. rewrite (nonzero_of_le p (or_introl H) Fp). cbv zeta.
  rewrite (clamp_left p Fp H). fold (mix_of (Z32 (-1))). destruct mix_left as [-> ->]. cbn [fst snd].
  split; [reflexivity|apply mul_zero_sqrt2, Fr].
Qed.
Theorem panned32_hard_right l r p : is_finite p = true -> is_finite l = true -> 1 <= B2R p ->
  snd (panned l r p) = mul32 (mul32 r (Z32 1)) SQRT2_32 /\ exists s, fst (panned l r p) = B754_zero s.
Proof.
  intros Fp Fl H. unfold panned. rewrite (nonzero_of_le p (or_intror H) Fp). cbv zeta.
  rewrite (clamp_right p Fp H). fold (mix_of (Z32 1)). destruct mix_right as [-> ->]. cbn [fst snd].
  split; [reflexivity|apply mul_zero_sqrt2, Fl].
Qed.
