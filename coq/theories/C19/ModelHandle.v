(** C19 — the clock times a [ClockHandle] hands out.  [ClockHandle::time()] returns the pair
    (ticks, fraction) that the audio thread published at the start of the callback
    ([Clock::update_shared]: the u64 and the bits of the f64, stored and loaded unchanged), i.e.
    the audio side's state after the chunks rendered so far.  Transcribed from
    crates/kira/src/clock.rs ([Clock::update], the part below the speed parameter; the timer is
    split with [floor] in constant time) and backend/renderer.rs ([dt = 1.0 / sample_rate],
    one update per internal chunk with [dt * num_frames]).  Generic over [Num] like Model.v. *)
From Coq Require Import ZArith List Bool.
From KV Require Import Base.Outcome Base.Num C19.Model.
Import ListNotations.
Local Open Scope Z_scope.

Section Generic.
  Context {T : Type} {NT : Num T}.

  (** one [Clock::update] of a ticking, started clock whose timer advances by [inc]:
      [*tick_timer += inc; if *tick_timer >= 1.0 { whole = floor; ticks = ticks.saturating_add(whole as u64);
       timer = if whole.is_finite() { timer - whole } else { 0.0 } }] *)
  Definition clock_advance (c : ctime T) (inc : T) : ctime T :=
    let timer := nadd (fraction c) inc in
    if nleb n1 timer then
      let whole := nfloor timer in
      {| ticks := Z.min u64_max (ticks c + ntoU64 whole);
         fraction := if nisfinite whole then nsub timer whole else n0 |}
    else {| ticks := ticks c; fraction := timer |}.

  (** what the handle reports after the chunks whose timer increments are [incs] *)
  Definition handle_time (c : ctime T) (incs : list T) : ctime T := fold_left clock_advance incs c.

  (** the increment of one internal chunk of [frames] frames at device rate [sr]:
      [speed.as_ticks_per_second() * (dt * frames as f64)], [dt = 1.0 / sr as f64] *)
  Definition chunk_increment (s : cspeed T) (sr frames : Z) : T :=
    nmul (as_tps s) (nmul (ndiv n1 (nofZ sr)) (nofZ frames)).

  (** the start of the tick after [c] ([ClockTime::from_ticks_u64 (ticks + 1)]) *)
  Definition next_tick (c : ctime T) : ctime T := {| ticks := ticks c + 1; fraction := n0 |}.
End Generic.
