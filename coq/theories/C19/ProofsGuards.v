(** C19 — the guards of the easing / mapping theorems are exact: outside them the laws fail on the faithful
    model (finite arguments), both over Q and in binary64.  Known findings F36 (easing power <= 0) and F41
    (mapping with a zero-width input range). *)
From Coq Require Import ZArith QArith Qround Qminmax Lia Lqa Bool.
From KV Require Import Base.IEEE Base.Outcome Base.Num Base.QLemmas C19.Model C19.ProofsEasing.
Local Open Scope Q_scope.

(** [Easing::InPowi(0)]: x^0 = 1, so 0 is mapped to 1; [InPowi(-1)]: 1/x, so 1/2 is mapped to 2 (outside [0,1]) *)
Lemma easing_nonpositive_power_refuted_l (powf : Q -> Q -> Q) :
  ease powf (InPowi 0) 0 == 1 /\ ease powf (InPowi (-1)) (1 # 2) == 2 /\
  ~ shape (ease powf (InPowi 0)) /\ ~ shape (ease powf (InPowi (-1))) /\
  ~ positive_power (@InPowi Q 0) /\ ~ positive_power (@InPowi Q (-1)).
Proof.
  assert (A : ease powf (InPowi 0) 0 == 1) by reflexivity.
  assert (B : ease powf (InPowi (-1)) (1 # 2) == 2) by (vm_compute; reflexivity).
  repeat split; try assumption.
  - intros S. pose proof (sh_0 _ S) as Z. rewrite A in Z. discriminate Z.
  - intros S. destruct (shape_range _ S (1 # 2)) as [_ U]; [split; [discriminate|discriminate]|]. rewrite B in U. apply U. reflexivity.
  - cbn. lia.
  - cbn. lia.
Qed.

(** the same in binary64, as the implementation computes it: 0^0 = 1.0, 0.5^-1 = 2.0, 0^-1 = +inf *)
Definition b64 (z : Z) : f64 := f64_of_bits z.
Lemma easing_nonpositive_power_b64_l (powf : f64 -> f64 -> f64) :
  bits_of_f64 (ease powf (InPowi 0) (b64 0)) = 0x3FF0000000000000%Z /\
  bits_of_f64 (ease powf (InPowi (-1)) (b64 0x3FE0000000000000)) = 0x4000000000000000%Z /\
  bits_of_f64 (ease powf (InPowi (-1)) (b64 0)) = 0x7FF0000000000000%Z.
Proof. vm_compute. repeat split; reflexivity. Qed.

(** [Mapping] with a zero-width input range (finite arguments): amount = (x - a) / (a - a) is NaN for x = a
    (0/0) and stays NaN through clamp, easing and interpolation: [Mapping::map] returns NaN *)
Definition zero_width : mapping f64 :=
  {| in_lo := b64 0x4000000000000000; in_hi := b64 0x4000000000000000;   (* 2.0, 2.0 *)
     out_lo := b64 0; out_hi := b64 0x3FF0000000000000; m_easing := Linear |}.
Lemma mapping_zero_width_refuted_l (powf : f64 -> f64 -> f64) :
  (bits_of_f64 (map_value powf zero_width (b64 0x4000000000000000)) < 0)%Z.    (* negative code = NaN *)
Proof. vm_compute. reflexivity. Qed.
