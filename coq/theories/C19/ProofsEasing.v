(** C19 — easing laws and clock-speed / mapping laws over the exact (rational) instance. *)
From Coq Require Import ZArith QArith Qround Qminmax Lia Lqa Bool.
From KV Require Import Base.Outcome Base.Num Base.QLemmas C19.Model.
Local Open Scope Q_scope.

(** ** powi *)
Lemma Qpow_pos_nat_0 n : (0 < n)%nat -> Qpow_pos_nat 0 n == 0.
Proof. destruct n; [lia|]. intros _. cbn [Qpow_pos_nat]. rewrite Qred_correct. ring. Qed.
Lemma Qpow_pos_nat_1 n : Qpow_pos_nat 1 n == 1.
Proof. induction n; [reflexivity|]. cbn [Qpow_pos_nat]. rewrite Qred_correct, IHn. ring. Qed.
Lemma Qpow_pos_nat_nonneg a n : 0 <= a -> 0 <= Qpow_pos_nat a n.
Proof.
  intro H. induction n; cbn [Qpow_pos_nat]; [lra|]. rewrite Qred_correct. apply Qmult_le_0_compat; assumption.
Qed.
Lemma Qpow_pos_nat_mono a b n : 0 <= a -> a <= b -> Qpow_pos_nat a n <= Qpow_pos_nat b n.
Proof.
  intros Ha Hab. induction n; cbn [Qpow_pos_nat]; [lra|]. rewrite !Qred_correct.
  pose proof (Qpow_pos_nat_nonneg a n Ha).
  apply Qmult_le_compat_nonneg; split; assumption.
Qed.
Lemma Qpow_pos_nat_comp a b n : a == b -> Qpow_pos_nat a n == Qpow_pos_nat b n.
Proof. intro E. induction n; cbn [Qpow_pos_nat]; [reflexivity|]. rewrite !Qred_correct, IHn, E. reflexivity. Qed.

Ltac qred := repeat match goal with |- context [Qred ?a] => rewrite (Qred_correct a) end.

Lemma Qred_eq a b : a == b -> Qred a == Qred b.
Proof. intro E. rewrite !Qred_correct. exact E. Qed.

(** a shape function on [0,1] *)
Record shape (f : Q -> Q) : Prop := {
  sh_comp : forall x y, x == y -> f x == f y;
  sh_0 : f 0 == 0;
  sh_1 : f 1 == 1;
  sh_mono : forall x y, 0 <= x -> x <= y -> y <= 1 -> f x <= f y;
}.
Lemma shape_range f : shape f -> forall x, 0 <= x <= 1 -> 0 <= f x <= 1.
Proof.
  intros S x [H0 H1]. split.
  - rewrite <- (sh_0 f S). apply (sh_mono f S); lra.
  - rewrite <- (sh_1 f S). apply (sh_mono f S); lra.
Qed.

Definition out_of (f : Q -> Q) (x : Q) : Q := nsub n1 (f (nsub n1 x)).
Lemma shape_out f : shape f -> shape (out_of f).
Proof.
  intro S. unfold out_of. cbn [nsub n1 Num_Q]. split.
  - intros x y E. apply Qred_eq.
    assert (X : f (Qred (1 - x)) == f (Qred (1 - y))) by (apply (sh_comp f S); apply Qred_eq; rewrite E; reflexivity).
    rewrite X. reflexivity.
  - qred. rewrite (sh_comp f S _ 1); [rewrite (sh_1 f S); ring|]. qred. ring.
  - qred. rewrite (sh_comp f S _ 0); [rewrite (sh_0 f S); ring|]. qred. ring.
  - intros x y H0 Hxy H1. qred.
    assert (f (Qred (1 - y)) <= f (Qred (1 - x))); [|lra].
    apply (sh_mono f S); qred; lra.
Qed.

Lemma shape_inout f : shape f -> shape (inout f).
Proof.
  intro S. unfold inout, nhalf, n2. cbn [nmul nsub nadd ndiv nltb n1 nofZ Num_Q].
  assert (Hh : Qred (1 / inject_Z 2) == 1 # 2) by (qred; reflexivity).
  assert (Hcomp : forall x y, x == y ->
     (if Qltb (Qred (x * inject_Z 2)) 1 then Qred (Qred (1 / inject_Z 2) * f (Qred (x * inject_Z 2)))
      else Qred (Qred (Qred (1 / inject_Z 2) * Qred (1 - f (Qred (inject_Z 2 - Qred (x * inject_Z 2))))) + Qred (1 / inject_Z 2))) ==
     (if Qltb (Qred (y * inject_Z 2)) 1 then Qred (Qred (1 / inject_Z 2) * f (Qred (y * inject_Z 2)))
      else Qred (Qred (Qred (1 / inject_Z 2) * Qred (1 - f (Qred (inject_Z 2 - Qred (y * inject_Z 2))))) + Qred (1 / inject_Z 2)))).
  { intros x y E.
    assert (E2 : Qred (x * inject_Z 2) == Qred (y * inject_Z 2)) by (qred; rewrite E; reflexivity).
    destruct (Qltb (Qred (x * inject_Z 2)) 1) eqn:A, (Qltb (Qred (y * inject_Z 2)) 1) eqn:B.
    - qred. rewrite (sh_comp f S _ _ E2). reflexivity.
    - apply Qltb_true in A. apply Qltb_false in B. lra.
    - apply Qltb_false in A. apply Qltb_true in B. lra.
    - qred.
      rewrite (sh_comp f S (Qred (inject_Z 2 - Qred (x * inject_Z 2))) (Qred (inject_Z 2 - Qred (y * inject_Z 2)))); [reflexivity|].
      qred; rewrite E. reflexivity. }
  (* value in each branch *)
  assert (Hlo : forall x, x * 2 < 1 -> 
     (if Qltb (Qred (x * inject_Z 2)) 1 then Qred (Qred (1 / inject_Z 2) * f (Qred (x * inject_Z 2)))
      else Qred (Qred (Qred (1 / inject_Z 2) * Qred (1 - f (Qred (inject_Z 2 - Qred (x * inject_Z 2))))) + Qred (1 / inject_Z 2)))
     == (1#2) * f (Qred (x * inject_Z 2))).
  { intros x Hx. assert (A : Qltb (Qred (x * inject_Z 2)) 1 = true) by (apply Qltb_true; qred; change (inject_Z 2) with 2; lra).
    rewrite A, Qred_correct, Hh. reflexivity. }
  assert (Hhi : forall x, 1 <= x * 2 -> 
     (if Qltb (Qred (x * inject_Z 2)) 1 then Qred (Qred (1 / inject_Z 2) * f (Qred (x * inject_Z 2)))
      else Qred (Qred (Qred (1 / inject_Z 2) * Qred (1 - f (Qred (inject_Z 2 - Qred (x * inject_Z 2))))) + Qred (1 / inject_Z 2)))
     == (1#2) * (1 - f (Qred (inject_Z 2 - Qred (x * inject_Z 2)))) + (1#2)).
  { intros x Hx. assert (A : Qltb (Qred (x * inject_Z 2)) 1 = false) by (apply Qltb_false; qred; change (inject_Z 2) with 2; lra).
    rewrite A, !Qred_correct, Hh. reflexivity. }
  split.
  - exact Hcomp.
  - rewrite Hlo by lra. rewrite (sh_comp f S _ 0); [rewrite (sh_0 f S); ring|]. qred. ring.
  - rewrite Hhi by lra. rewrite (sh_comp f S _ 0); [rewrite (sh_0 f S); ring|].
    qred. change (inject_Z 2) with 2. ring.
  - intros x y H0 Hxy H1.
    destruct (Qlt_le_dec (x * 2) 1) as [Lx|Lx], (Qlt_le_dec (y * 2) 1) as [Ly|Ly].
    + rewrite (Hlo x Lx), (Hlo y Ly).
      assert (f (Qred (x * inject_Z 2)) <= f (Qred (y * inject_Z 2))); [|lra].
      apply (sh_mono f S); qred; change (inject_Z 2) with 2; lra.
    + rewrite (Hlo x Lx), (Hhi y Ly).
      assert (0 <= f (Qred (x * inject_Z 2)) <= 1).
      { apply shape_range; [assumption|]. qred. change (inject_Z 2) with 2. lra. }
      assert (0 <= f (Qred (inject_Z 2 - Qred (y * inject_Z 2))) <= 1).
      { apply shape_range; [assumption|]. qred. change (inject_Z 2) with 2. lra. }
      lra.
    + lra.
    + rewrite (Hhi x Lx), (Hhi y Ly).
      assert (f (Qred (inject_Z 2 - Qred (y * inject_Z 2))) <= f (Qred (inject_Z 2 - Qred (x * inject_Z 2)))); [|lra].
      apply (sh_mono f S); qred; change (inject_Z 2) with 2; lra.
Qed.

(** ** the built-in easings *)
Lemma shape_linear : shape (fun x => x).
Proof. split; intros; try assumption; try reflexivity. Qed.

Lemma shape_powi (p : Z) : (0 < p)%Z -> shape (fun x => npowi x p).
Proof.
  intro Hp. destruct p as [|p|p]; try lia. cbn [npowi Num_Q Qpowi].
  assert (0 < Pos.to_nat p)%nat by lia.
  split.
  - intros. apply Qpow_pos_nat_comp; assumption.
  - apply Qpow_pos_nat_0; assumption.
  - apply Qpow_pos_nat_1.
  - intros. apply Qpow_pos_nat_mono; assumption.
Qed.

(** the oracle hypotheses under which the Powf variants are shapes *)
Definition powf_ok (powf : Q -> Q -> Q) (p : Q) : Prop := shape (fun x => powf x p).

Definition positive_power (e : easing Q) : Prop :=
  match e with
  | Linear => True
  | InPowi p | OutPowi p | InOutPowi p => (0 < p)%Z
  | InPowf _ | OutPowf _ | InOutPowf _ => True
  end.
Definition oracle_ok (powf : Q -> Q -> Q) (e : easing Q) : Prop :=
  match e with
  | InPowf p | OutPowf p | InOutPowf p => powf_ok powf p
  | _ => True
  end.

(** Every built-in easing with a positive power maps 0 to 0, 1 to 1 and is monotone on [0,1]
    (Powf variants: provided libm's powf does, which is what [oracle_ok] says). *)
Lemma easing_shape powf (e : easing Q) : positive_power e -> oracle_ok powf e -> shape (ease powf e).
Proof.
  intros Hp Ho. destruct e as [|p|p|p|p|p|p]; cbn [ease positive_power oracle_ok] in *.
  - apply shape_linear.
  - apply shape_powi; assumption.
  - apply (shape_out (fun x => npowi x p)). apply shape_powi; assumption.
  - apply (shape_inout (fun y => npowi y p)). apply shape_powi; assumption.
  - exact Ho.
  - apply (shape_out (fun x => powf x p)). exact Ho.
  - apply (shape_inout (fun y => powf y p)). exact Ho.
Qed.

(** ** clock speed: the three units convert consistently *)
Lemma cspeed_consistent (s : cspeed Q) :
  (match s with SecondsPerTick x | TicksPerSecond x | TicksPerMinute x => ~ x == 0 end) ->
  as_tps s == / as_spt s /\ as_tpm s == 60 * as_tps s /\ as_spt s * as_tps s == 1.
Proof.
  destruct s as [x|x|x]; intro Hx; cbn [as_tps as_spt as_tpm ndiv nmul n1 n60 nofZ Num_Q];
    qred; change (inject_Z 60) with 60; repeat split; field; try assumption;
    try (split; [assumption|lra]); try lra.
Qed.

(** ** Mapping::map clamps its input to the input range *)
Definition clampQ (lo hi x : Q) : Q := if Qltb x lo then lo else if Qltb hi x then hi else x.
Lemma clamp01_idem x : clamp01 (clamp01 x) = clamp01 (T:=Q) x.
Proof.
  unfold clamp01. cbn [nltb n0 n1 Num_Q].
  destruct (Qltb x 0) eqn:A.
  - cbn. reflexivity.
  - destruct (Qltb 1 x) eqn:B.
    + cbn. reflexivity.
    + rewrite A, B. reflexivity.
Qed.

Definition amountQ (lo hi x : Q) : Q := ndiv (nsub x lo) (nsub hi lo).
Lemma amountQ_eq lo hi x : amountQ lo hi x == (x - lo) / (hi - lo).
Proof. unfold amountQ. cbn [ndiv nsub Num_Q]. qred. reflexivity. Qed.

Lemma Qred_const a b : a == b -> Qred a = Qred b.
Proof. apply Qred_complete. Qed.

Lemma clamp01_amount_clamped lo hi x :
  ~ lo == hi ->
  let a := Qmin lo hi in let b := Qmax lo hi in
  clamp01 (amountQ lo hi x) = clamp01 (amountQ lo hi (clampQ a b x)).
Proof.
  intros Hne a b. unfold clampQ.
  assert (Hd : ~ hi - lo == 0) by (intro H; apply Hne; lra).
  destruct (Qltb x a) eqn:A; [|destruct (Qltb b x) eqn:B; [|reflexivity]].
  - (* below the range *)
    apply Qltb_true in A. unfold clamp01. cbn [nltb n0 n1 Num_Q].
    destruct (Qlt_le_dec lo hi) as [L|L].
    + assert (Ea : a == lo) by (unfold a; apply Q.min_l; lra).
      assert (X : amountQ lo hi x < 0).
      { rewrite amountQ_eq. apply Qlt_shift_div_r; lra. }
      assert (Y : amountQ lo hi a == 0).
      { rewrite amountQ_eq, Ea. field. exact Hd. }
      apply Qltb_true in X as X1. rewrite X1.
      assert (Y1 : Qltb (amountQ lo hi a) 0 = false) by (apply Qltb_false; lra).
      assert (Y2 : Qltb 1 (amountQ lo hi a) = false) by (apply Qltb_false; lra).
      rewrite Y1, Y2.
      unfold amountQ. cbn [ndiv Num_Q]. change 0 with (Qred 0). apply Qred_const.
      pose proof Y as Y'. unfold amountQ in Y'. cbn [ndiv Num_Q] in Y'.
      rewrite Qred_correct in Y'. symmetry. exact Y'.
    + assert (Ea : a == hi) by (unfold a; apply Q.min_r; lra).
      assert (Hlt : hi < lo) by (apply Qle_lt_or_eq in L; destruct L as [L|L]; [exact L|exfalso; apply Hne; lra]).
      assert (X : 1 < amountQ lo hi x).
      { rewrite amountQ_eq. 
        assert (E : (x - lo) / (hi - lo) == (lo - x) / (lo - hi)) by (field; split; lra).
        rewrite E. apply Qlt_shift_div_l; lra. }
      assert (Y : amountQ lo hi a == 1).
      { rewrite amountQ_eq, Ea. field. exact Hd. }
      assert (X0 : Qltb (amountQ lo hi x) 0 = false) by (apply Qltb_false; lra).
      apply Qltb_true in X as X1. rewrite X0, X1.
      assert (Y1 : Qltb (amountQ lo hi a) 0 = false) by (apply Qltb_false; lra).
      assert (Y2 : Qltb 1 (amountQ lo hi a) = false) by (apply Qltb_false; lra).
      rewrite Y1, Y2.
      unfold amountQ. cbn [ndiv Num_Q]. change 1 with (Qred 1). apply Qred_const.
      pose proof Y as Y'. unfold amountQ in Y'. cbn [ndiv Num_Q] in Y'.
      rewrite Qred_correct in Y'. symmetry. exact Y'.
  - (* above the range *)
    apply Qltb_true in B. unfold clamp01. cbn [nltb n0 n1 Num_Q].
    destruct (Qlt_le_dec lo hi) as [L|L].
    + assert (Eb : b == hi) by (unfold b; apply Q.max_r; lra).
      assert (X : 1 < amountQ lo hi x).
      { rewrite amountQ_eq. apply Qlt_shift_div_l; lra. }
      assert (Y : amountQ lo hi b == 1).
      { rewrite amountQ_eq, Eb. field. exact Hd. }
      assert (X0 : Qltb (amountQ lo hi x) 0 = false) by (apply Qltb_false; lra).
      apply Qltb_true in X as X1. rewrite X0, X1.
      assert (Y1 : Qltb (amountQ lo hi b) 0 = false) by (apply Qltb_false; lra).
      assert (Y2 : Qltb 1 (amountQ lo hi b) = false) by (apply Qltb_false; lra).
      rewrite Y1, Y2.
      unfold amountQ. cbn [ndiv Num_Q]. change 1 with (Qred 1). apply Qred_const.
      pose proof Y as Y'. unfold amountQ in Y'. cbn [ndiv Num_Q] in Y'.
      rewrite Qred_correct in Y'. symmetry. exact Y'.
    + assert (Eb : b == lo) by (unfold b; apply Q.max_l; lra).
      assert (Hlt : hi < lo) by (apply Qle_lt_or_eq in L; destruct L as [L|L]; [exact L|exfalso; apply Hne; lra]).
      assert (X : amountQ lo hi x < 0).
      { rewrite amountQ_eq.
        assert (E : (x - lo) / (hi - lo) == (lo - x) / (lo - hi)) by (field; split; lra).
        rewrite E. apply Qlt_shift_div_r; lra. }
      assert (Y : amountQ lo hi b == 0).
      { rewrite amountQ_eq, Eb. field. exact Hd. }
      apply Qltb_true in X as X1. rewrite X1.
      assert (Y1 : Qltb (amountQ lo hi b) 0 = false) by (apply Qltb_false; lra).
      assert (Y2 : Qltb 1 (amountQ lo hi b) = false) by (apply Qltb_false; lra).
      rewrite Y1, Y2.
      unfold amountQ. cbn [ndiv Num_Q]. change 0 with (Qred 0). apply Qred_const.
      pose proof Y as Y'. unfold amountQ in Y'. cbn [ndiv Num_Q] in Y'.
      rewrite Qred_correct in Y'. symmetry. exact Y'.
Qed.

(** [Mapping::map] of any input equals [map] of the input clamped to the input range,
    for normal and inverted ranges, any easing, any libm. *)
Lemma map_value_clamps powf (m : mapping Q) (x : Q) :
  ~ in_lo m == in_hi m ->
  map_value powf m x = map_value powf m (clampQ (Qmin (in_lo m) (in_hi m)) (Qmax (in_lo m) (in_hi m)) x).
Proof.
  intro H. unfold map_value. fold (amountQ (in_lo m) (in_hi m) x).
  fold (amountQ (in_lo m) (in_hi m) (clampQ (Qmin (in_lo m) (in_hi m)) (Qmax (in_lo m) (in_hi m)) x)).
  rewrite (clamp01_amount_clamped (in_lo m) (in_hi m) x H). reflexivity.
Qed.
