(** C19 — clock-time arithmetic, exact (rational) semantics of the model. *)
From Coq Require Import ZArith QArith Qround Lia Lqa Bool.
From KV Require Import Base.Outcome Base.Num Base.QLemmas C19.Model.
Local Open Scope Q_scope.

Definition ctQ := ctime Q.
Definition value (c : ctQ) : Q := inject_Z (ticks c) + fraction c.
Definition frac_ok (c : ctQ) : Prop := 0 <= fraction c /\ fraction c < 1.
Definition wf (c : ctQ) : Prop := (0 <= ticks c)%Z /\ frac_ok c.



(** ** Add<f64> *)
Lemma ct_add_pos_spec (c : ctQ) (t : Q) :
  wf c -> 0 <= t -> value c + t < inject_Z (2 ^ 64) ->
  exists c', ct_add_pos c t = Ok c' /\ wf c' /\ value c' == value c + t.
Proof.
  intros [Ht [F1 F2]] Hpos Hbound.
  unfold ct_add_pos, value in *. cbn [nadd nfract ntrunc ntoU64 Num_Q].
  set (s := Qred (fraction c + t)).
  assert (Es : s == fraction c + t) by apply Qred_correct.
  assert (Hs : 0 <= s) by (rewrite Es; lra).
  unfold Qtrunc at 1. rewrite Qtruncz_inject.
  pose proof (Qtruncz_nonneg s Hs) as Hz.
  assert (Etr : Qtruncz s = Qfloor s).
  { unfold Qtruncz. apply Qle_bool_iff in Hs. now rewrite Hs. }
  destruct (Qfloor_bounds s) as [L1 L2].
  assert (Hlt : (ticks c + Qtruncz s < 2 ^ 64)%Z).
  { rewrite Zlt_Qlt, inject_Z_plus, Etr. lra. }
  rewrite Z.max_r by lia. rewrite Z.min_r by lia.
  unfold add_chk, u64_max.
  destruct (Z.gtb_spec (ticks c + Qtruncz s) (2 ^ 64 - 1)) as [G|G]; [lia|].
  cbn [obind]. eexists; split; [reflexivity|].
  destruct (Qfract_nonneg_range s Hs) as [R1 R2].
  split; [split; [cbn [ticks]; lia | split; cbn [fraction]; assumption]|].
  cbn [ticks fraction]. rewrite inject_Z_plus, Etr, Qfract_eq, (Qtrunc_nonneg s Hs). lra.
Qed.

(** what [Sub<f64>] computes, in exact arithmetic: it removes [- floor d] whole ticks and leaves
    the positive fractional part [d - floor d], where [d = fraction - t] *)
Lemma ct_sub_pos_unfold (c : ctQ) (t : Q) :
  (0 <= ticks c <= 2 ^ 64 - 1)%Z -> 0 <= fraction c -> fraction c < 1 -> 0 <= t ->
  let d := Qred (fraction c - t) in
  exists fr, fr == d - inject_Z (Qfloor d) /\
  ct_sub_pos c t =
    if (ticks c <? Z.min (2 ^ 64 - 1) (- Qfloor d))%Z then Ok {| ticks := 0; fraction := 0 |}
    else Ok {| ticks := ticks c - Z.min (2 ^ 64 - 1) (- Qfloor d); fraction := fr |}.
Proof.
  intros Ht F1 F2 Hpos d. unfold ct_sub_pos.
  cbn [nadd nsub nfract ntrunc nneg nltb nleb ntoU64 n1 n0 Num_Q]. fold d.
  assert (Ed : d == fraction c - t) by apply Qred_correct.
  destruct (Qfloor_bounds d) as [L1 L2].
  assert (Hfd : (Qfloor d <= 0)%Z).
  { assert (Qfloor d < 1)%Z; [|lia]. rewrite Zlt_Qlt. change (inject_Z 1) with 1. lra. }
  set (fr0 := Qred (Qfract d + 0)).
  assert (E0 : fr0 == Qfract d) by (unfold fr0; rewrite Qred_correct; ring).
  destruct (Qlt_le_dec d 0) as [Hd|Hd].
  - (* d < 0 : trunc = ceiling *)
    destruct (Qfract_neg_range d Hd) as [R1 R2].
    pose proof (Qfract_eq d) as Fe. rewrite (Qtrunc_neg d Hd) in Fe.
    destruct (Qceiling_bounds d) as [C1 C2].
    destruct (Qltb fr0 0) eqn:B.
    + (* non-integer: borrow *)
      apply Qltb_true in B.
      assert (Hle : Qle_bool 1 (Qred (fr0 + 1)) = false).
      { apply Qle_bool_false. rewrite Qred_correct. lra. }
      rewrite Hle.
      assert (Hfl : Qfloor d = (Qceiling d - 1)%Z).
      { apply Qfloor_unique; unfold Z.sub; rewrite inject_Z_plus, inject_Z_opp;
        change (inject_Z 1) with 1; lra. }
      assert (Hw : Qtruncz (Qred (Qred (- Qtrunc d) + 1)) = (- Qfloor d)%Z).
      { apply Qtruncz_eq_inject. rewrite !Qred_correct, (Qtrunc_neg d Hd), Hfl.
        unfold Z.sub. rewrite !inject_Z_opp, inject_Z_plus, inject_Z_opp. change (inject_Z 1) with 1. ring. }
      rewrite Hw. rewrite (Z.max_r 0 (- Qfloor d)) by lia.
      exists (Qred (fr0 + 1)). split; [|reflexivity].
      rewrite Qred_correct, E0, Fe, Hfl. unfold Z.sub. rewrite inject_Z_plus, inject_Z_opp.
      change (inject_Z 1) with 1. ring.
    + (* d is a negative integer *)
      apply Qltb_false in B.
      assert (Hz : Qfract d == 0) by lra.
      assert (Hd' : d == inject_Z (Qceiling d)) by lra.
      assert (Hfl : Qfloor d = Qceiling d) by (apply Qfloor_unique; lra).
      assert (Hw : Qtruncz (Qred (- Qtrunc d)) = (- Qfloor d)%Z).
      { apply Qtruncz_eq_inject. rewrite Qred_correct, (Qtrunc_neg d Hd), Hfl, inject_Z_opp. reflexivity. }
      rewrite Hw. rewrite (Z.max_r 0 (- Qfloor d)) by lia.
      exists fr0. split; [|reflexivity]. rewrite E0, Hz, Hfl. lra.
  - (* 0 <= d < 1 *)
    destruct (Qfract_nonneg_range d Hd) as [R1 R2].
    pose proof (Qfract_eq d) as Fe. rewrite (Qtrunc_nonneg d Hd) in Fe.
    assert (Hfl : Qfloor d = 0%Z) by (apply Qfloor_unique; change (inject_Z 0) with 0; lra).
    assert (B : Qltb fr0 0 = false) by (apply Qltb_false; lra).
    rewrite B.
    assert (Hw : Qtruncz (Qred (- Qtrunc d)) = 0%Z).
    { rewrite (Qtrunc_nonneg d Hd), Hfl. reflexivity. }
    rewrite Hw, Hfl. cbn [Z.opp]. rewrite (Z.max_r 0 0) by lia.
    exists fr0. split; [|reflexivity]. rewrite E0, Fe, Hfl. reflexivity.
Qed.

(** ** Sub<f64>, when the amount does not exceed the time *)
Lemma ct_sub_pos_spec (c : ctQ) (t : Q) :
  wf c -> 0 <= t -> t <= value c -> (ticks c <= 2 ^ 64 - 1)%Z ->
  exists c', ct_sub_pos c t = Ok c' /\ wf c' /\ value c' == value c - t.
Proof.
  intros [Ht [F1 F2]] Hpos Hle Hmax.
  destruct (ct_sub_pos_unfold c t) as [fr [FP E]]; try assumption; [lia|].
  rewrite E. clear E.
  unfold value in *.
  set (d := Qred (fraction c - t)) in *.
  assert (Ed : d == fraction c - t) by apply Qred_correct.
  destruct (Qfloor_bounds d) as [L1 L2].
  assert (Hfd2 : (- Qfloor d <= ticks c)%Z).
  { assert (- Qfloor d < ticks c + 1)%Z; [|lia].
    rewrite Zlt_Qlt, inject_Z_plus, inject_Z_opp. change (inject_Z 1) with 1. lra. }
  rewrite Z.min_r by lia.
  destruct (Z.ltb_spec (ticks c) (- Qfloor d)) as [B|B]; [lia|].
  eexists; split; [reflexivity|].
  split; [split; [cbn [ticks]; lia | split; cbn [fraction]; rewrite FP; lra]|].
  cbn [ticks fraction]. rewrite FP.
  unfold Z.sub. rewrite inject_Z_plus, !inject_Z_opp. lra.
Qed.

(** ** Sub<f64>, when the amount exceeds the time: saturates at (0, 0.0) *)
Lemma ct_sub_pos_saturates (c : ctQ) (t : Q) :
  wf c -> (ticks c <= 2 ^ 64 - 2)%Z -> value c < t ->
  ct_sub_pos c t = Ok {| ticks := 0; fraction := 0 |}.
Proof.
  intros [Ht [F1 F2]] Hmax Hlt.
  assert (Hpos : 0 <= t).
  { unfold value in Hlt. assert (0 <= inject_Z (ticks c)) by (change 0 with (inject_Z 0); rewrite <- Zle_Qle; lia). lra. }
  destruct (ct_sub_pos_unfold c t) as [fr [FP E]]; try assumption; [lia|].
  rewrite E. clear E.
  unfold value in *.
  set (d := Qred (fraction c - t)) in *.
  assert (Ed : d == fraction c - t) by apply Qred_correct.
  destruct (Qfloor_bounds d) as [L1 L2].
  assert (Hfd2 : (ticks c < - Qfloor d)%Z).
  { rewrite Zlt_Qlt, inject_Z_opp. lra. }
  destruct (Z.ltb_spec (ticks c) (Z.min (2 ^ 64 - 1) (- Qfloor d))) as [B|B]; [reflexivity|lia].
Qed.

(** the result of a subtraction is never later than the original time, and never negative *)
Lemma ct_sub_pos_le (c : ctQ) (t : Q) :
  wf c -> (ticks c <= 2 ^ 64 - 2)%Z -> 0 <= t ->
  exists c', ct_sub_pos c t = Ok c' /\ wf c' /\ value c' <= value c.
Proof.
  intros W Hmax Hpos.
  destruct (Qlt_le_dec (value c) t) as [L|L].
  - rewrite (ct_sub_pos_saturates c t W Hmax L). eexists; split; [reflexivity|].
    split; [split; [cbn; lia | split; cbn; lra]|].
    destruct W as [Ht [F1 F2]]. unfold value; cbn [ticks fraction].
    assert (0 <= inject_Z (ticks c)) by (change 0 with (inject_Z 0); rewrite <- Zle_Qle; lia).
    change (inject_Z 0) with 0. lra.
  - destruct (ct_sub_pos_spec c t W Hpos L) as [c' [E [W' V]]]; [lia|].
    exists c'. split; [assumption|]. split; [assumption|]. rewrite V. lra.
Qed.

(** ** decomposition is unique, so value-equality is equality of times *)
Lemma value_inj (a b : ctQ) :
  frac_ok a -> frac_ok b -> value a == value b -> ticks a = ticks b /\ fraction a == fraction b.
Proof.
  intros [A1 A2] [B1 B2] E. unfold value in E.
  assert (ticks a = ticks b).
  { assert (ticks a < ticks b + 1)%Z by (rewrite Zlt_Qlt, inject_Z_plus; change (inject_Z 1) with 1; lra).
    assert (ticks b < ticks a + 1)%Z by (rewrite Zlt_Qlt, inject_Z_plus; change (inject_Z 1) with 1; lra).
    lia. }
  split; [assumption|]. rewrite H in E. lra.
Qed.

(** adding and then subtracting the same amount returns the original time *)
Lemma ct_add_sub_roundtrip (c : ctQ) (t : Q) :
  wf c -> 0 <= t -> value c + t < inject_Z (2 ^ 64) ->
  exists c1 c2, ct_add_pos c t = Ok c1 /\ ct_sub_pos c1 t = Ok c2 /\
                ticks c2 = ticks c /\ fraction c2 == fraction c.
Proof.
  intros W Hpos Hb.
  destruct (ct_add_pos_spec c t W Hpos Hb) as [c1 [E1 [W1 V1]]].
  assert (Hmax : (ticks c1 <= 2 ^ 64 - 1)%Z).
  { destruct W1 as [T1 [G1 G2]]. unfold value in V1.
    assert (ticks c1 < 2 ^ 64)%Z.
    { rewrite Zlt_Qlt. unfold value in Hb. lra. }
    lia. }
  assert (Hle : t <= value c1).
  { rewrite V1. destruct W as [T [G1 G2]]. unfold value.
    assert (0 <= inject_Z (ticks c)) by (change 0 with (inject_Z 0); rewrite <- Zle_Qle; lia). lra. }
  destruct (ct_sub_pos_spec c1 t W1 Hpos Hle Hmax) as [c2 [E2 [W2 V2]]].
  exists c1, c2. split; [assumption|]. split; [assumption|].
  apply value_inj; [apply W2 | apply W |]. rewrite V2, V1. ring.
Qed.

(** adding two amounts one after the other is adding their sum: the representation (not only the
    value) is the same, so offsets accumulated step by step never drift from the offset added at once *)
Lemma ct_add_pos_additive (c : ctQ) (t1 t2 : Q) :
  wf c -> 0 <= t1 -> 0 <= t2 -> value c + (t1 + t2) < inject_Z (2 ^ 64) ->
  exists c1 c2 c12, ct_add_pos c t1 = Ok c1 /\ ct_add_pos c1 t2 = Ok c2 /\ ct_add_pos c (t1 + t2) = Ok c12 /\
                    ticks c2 = ticks c12 /\ fraction c2 == fraction c12.
Proof.
  intros W H1 H2 Hb.
  assert (Hb1 : value c + t1 < inject_Z (2 ^ 64)) by lra.
  destruct (ct_add_pos_spec c t1 W H1 Hb1) as [c1 [E1 [W1 V1]]].
  assert (Hb2 : value c1 + t2 < inject_Z (2 ^ 64)) by (rewrite V1; lra).
  destruct (ct_add_pos_spec c1 t2 W1 H2 Hb2) as [c2 [E2 [W2 V2]]].
  assert (H12 : 0 <= t1 + t2) by lra.
  destruct (ct_add_pos_spec c (t1 + t2) W H12 Hb) as [c12 [E12 [W12 V12]]].
  exists c1, c2, c12. repeat (split; [assumption|]).
  apply value_inj; [apply W2 | apply W12 |]. rewrite V2, V1, V12. ring.
Qed.

(** subtracting an amount not larger than the time and adding it again returns the original time *)
Lemma ct_sub_add_roundtrip (c : ctQ) (t : Q) :
  wf c -> 0 <= t -> t <= value c -> (ticks c <= 2 ^ 64 - 2)%Z ->
  exists c1 c2, ct_sub_pos c t = Ok c1 /\ ct_add_pos c1 t = Ok c2 /\
                ticks c2 = ticks c /\ fraction c2 == fraction c.
Proof.
  intros W Hpos Hle Hmax.
  assert (Hmax1 : (ticks c <= 2 ^ 64 - 1)%Z) by lia.
  destruct (ct_sub_pos_spec c t W Hpos Hle Hmax1) as [c1 [E1 [W1 V1]]].
  assert (Hb : value c1 + t < inject_Z (2 ^ 64)).
  { rewrite V1. destruct W as [T [G1 G2]]. unfold value.
    assert (inject_Z (ticks c) <= inject_Z (2 ^ 64 - 2)) by (rewrite <- Zle_Qle; lia).
    assert (inject_Z (2 ^ 64 - 2) + 1 < inject_Z (2 ^ 64)).
    { change 1 with (inject_Z 1). rewrite <- inject_Z_plus, <- Zlt_Qlt. lia. }
    lra. }
  destruct (ct_add_pos_spec c1 t W1 Hpos Hb) as [c2 [E2 [W2 V2]]].
  exists c1, c2. split; [assumption|]. split; [assumption|].
  apply value_inj; [apply W2 | apply W |]. rewrite V2, V1. ring.
Qed.

(** ** ordering agrees with ticks + fraction *)
Lemma ct_cmp_spec (a b : ctQ) :
  frac_ok a -> frac_ok b -> ct_cmp a b = Some (value a ?= value b).
Proof.
  intros [A1 A2] [B1 B2]. unfold ct_cmp, value.
  destruct (Z.compare_spec (ticks a) (ticks b)) as [E|L|G].
  - rewrite E. unfold ncompare. cbn [nltb neqb Num_Q].
    destruct (Qltb (fraction a) (fraction b)) eqn:L1.
    + apply Qltb_true in L1. f_equal. symmetry. apply (proj1 (Qlt_alt _ _)). lra.
    + apply Qltb_false in L1.
      destruct (Qeq_bool (fraction a) (fraction b)) eqn:E1.
      * apply Qeq_bool_iff in E1. f_equal. symmetry. apply (proj1 (Qeq_alt _ _)). lra.
      * assert (~ fraction a == fraction b) by (intro Q; apply Qeq_bool_iff in Q; congruence).
        assert (fraction b < fraction a) by (apply Qle_lt_or_eq in L1; destruct L1; [assumption|exfalso; apply H; symmetry; assumption]).
        apply Qltb_true in H0 as H1. rewrite H1. f_equal. symmetry. apply (proj1 (Qgt_alt _ _)). lra.
  - f_equal. symmetry. apply (proj1 (Qlt_alt _ _)).
    assert (inject_Z (ticks a) + 1 <= inject_Z (ticks b)).
    { change 1 with (inject_Z 1). rewrite <- inject_Z_plus, <- Zle_Qle. lia. }
    lra.
  - f_equal. symmetry. apply (proj1 (Qgt_alt _ _)).
    assert (inject_Z (ticks b) + 1 <= inject_Z (ticks a)).
    { change 1 with (inject_Z 1). rewrite <- inject_Z_plus, <- Zle_Qle. lia. }
    lra.
Qed.

(** ** F18 (fixed in /repo): subtracting more than the time used to saturate the ticks but wrap
    the fraction, (0, 0.25) - 0.5 = (0, 0.75); the repaired code yields (0, 0). *)
Lemma sub_below_zero_example :
  ct_sub_f64 {| ticks := 0; fraction := 1 # 4 |} (1 # 2) = Ok {| ticks := 0; fraction := 0 |}.
Proof. vm_compute. reflexivity. Qed.

(** non-vacuity of the hypotheses used above *)
Example wf_example : wf {| ticks := 5; fraction := 1 # 5 |} /\ value {| ticks := 5; fraction := 1 # 5 |} == 26 # 5.
Proof. split; [split; [cbn; lia | split; cbn; lra] | reflexivity]. Qed.
