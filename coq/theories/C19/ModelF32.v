(** C19 — binary32 unit conversions: decibels.rs, frame.rs (panned, as_mono), semitones.rs.
    libm's [powf] is an argument. *)
From Coq Require Import ZArith List Bool.
From KV Require Import Base.IEEE.
Local Open Scope Z_scope.

(** [Decibels::as_amplitude]; [powf10 x] stands for [10.0f32.powf(x)] *)
Definition db_as_amplitude (powf10 : f32 -> f32) (db : f32) : f32 :=
  if eq32 db (Z32 0) then Z32 1
  else if le32 db (Z32 (-60)) then Z32 0
  else powf10 (div32 db (Z32 20)).

(** [std::f32::consts::SQRT_2] *)
Definition SQRT2_32 : f32 := f32_of_bits 0x3FB504F3.
Definition half32 : f32 := f32_of_bits 0x3F000000.

(** [Frame::panned] *)
Definition panned (l r p : f32) : f32 * f32 :=
  if eq32 p (Z32 0) then (l, r)
  else
    let p' := clamp32 p (Z32 (-1)) (Z32 1) in
    let m := mul32 (add32 p' (Z32 1)) half32 in
    (mul32 (mul32 l (sqrt32 (sub32 (Z32 1) m))) SQRT2_32,
     mul32 (mul32 r (sqrt32 m)) SQRT2_32).

(** [Frame::as_mono] *)
Definition as_mono (l r : f32) : f32 * f32 :=
  let m := div32 (add32 l r) (Z32 2) in (m, m).

(** [From<Semitones> for PlaybackRate]; [powf2 x] stands for [2.0f64.powf(x)] *)
Definition semitones_to_rate (powf2 : f64 -> f64) (s : f64) : f64 :=
  powf2 (div64 s (Z64 12)).
