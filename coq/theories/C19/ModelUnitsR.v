(** C19 — the unit conversions read over the reals: the SAME statements as [ModelF32] (decibels.rs
    [Decibels::as_amplitude], frame.rs [Frame::panned] / [Frame::as_mono], semitones.rs
    [From<Semitones> for PlaybackRate]) with every rounding removed.  What the property says about
    these functions is a statement about these formulas; the binary32 / binary64 transcriptions in
    [ModelF32] are what is compared bit for bit with the code, and [ProofsUnits] relates the two
    structurally (same branches, same special cases). *)
From Coq Require Import Reals.
Local Open Scope R_scope.

(** [Decibels::as_amplitude] *)
Definition db_amp_R (db : R) : R :=
  if Req_EM_T db 0 then 1
  else if Rle_dec db (-60) then 0
  else Rpower 10 (db / 20).

Definition clamp_R (x lo hi : R) : R := if Rlt_dec x lo then lo else if Rlt_dec hi x then hi else x.

(** [Frame::panned] *)
Definition panned_R (l r p : R) : R * R :=
  if Req_EM_T p 0 then (l, r)
  else
    let p' := clamp_R p (-1) 1 in
    let m := (p' + 1) * (1 / 2) in
    (l * sqrt (1 - m) * sqrt 2, r * sqrt m * sqrt 2).

(** the formula branch alone (what [panned] would compute without the centre shortcut) *)
Definition panned_formula_R (l r p : R) : R * R :=
  let p' := clamp_R p (-1) 1 in
  let m := (p' + 1) * (1 / 2) in
  (l * sqrt (1 - m) * sqrt 2, r * sqrt m * sqrt 2).

(** [Frame::as_mono] *)
Definition as_mono_R (l r : R) : R * R := let m := (l + r) / 2 in (m, m).

(** [From<Semitones> for PlaybackRate] *)
Definition semitones_to_rate_R (s : R) : R := Rpower 2 (s / 12).

Definition power2 (f : R * R) : R := fst f * fst f + snd f * snd f.
