(** C19 — entry points of the correspondence check (model side). *)
From Coq Require Import ZArith List Bool.
From KV Require Import Base.IEEE Base.Outcome Base.Num Base.Corr C19.Model C19.ModelF32 C19.ModelHandle.
Import ListNotations.
Local Open Scope Z_scope.

Inductive case :=
| CFromTicks (x : Z)
| CAddF (tk fr t : Z) | CSubF (tk fr t : Z) | CAddU (tk fr k : Z) | CSubU (tk fr k : Z)
| CCmp (t1 f1 t2 f2 : Z)
| CSpeed (kind x : Z)
| CSpeedLerp (ka xa kb xb amt : Z)
| CEase (ekind p x : Z) (oracle : list (Z * Z * Z))
| CMap (lo hi olo ohi ekind p input : Z) (oracle : list (Z * Z * Z))
| CDb (db : Z) (oracle : list (Z * Z * Z))
| CPan (l r p : Z) | CMono (l r : Z)
| CSemi (s : Z) (oracle : list (Z * Z * Z))
(* the time a ClockHandle reports: from the reported time (tk, fr), one callback whose internal chunks have
   [frames] frames each, clock speed (kind, x), device rate sr *)
| CHandle (tk fr kind x sr : Z) (frames : list Z).

(** libm is supplied per case as a finite table [(x, y, pow x y)] of bit patterns recorded by
    the harness from the platform's libm; a missing entry yields a sentinel value, which shows
    up as a mismatch (the implementation called libm with other arguments than the model). *)
Fixpoint lookup (tab : list (Z * Z * Z)) (x y : Z) : option Z :=
  match tab with
  | [] => None
  | (a, b, r) :: tab' => if (a =? x) && (b =? y) then Some r else lookup tab' x y
  end.
Definition sentinel : Z := 0x0123456789ABCDEF.
Definition powf64_tab (tab : list (Z * Z * Z)) (x y : f64) : f64 :=
  match lookup tab (bits_of_f64 x) (bits_of_f64 y) with
  | Some r => f64_of_bits r | None => f64_of_bits sentinel end.
Definition powf32_tab (tab : list (Z * Z * Z)) (x y : f32) : f32 :=
  match lookup tab (bits_of_f32 x) (bits_of_f32 y) with
  | Some r => f32_of_bits r | None => f32_of_bits 0x01234567 end.

Definition mk_ct (tk fr : Z) : ctime f64 := {| ticks := tk; fraction := f64_of_bits fr |}.
Definition enc_ct (c : ctime f64) : list Z := [ticks c; bits_of_f64 (fraction c)].
Definition mk_speed (kind x : Z) : cspeed f64 :=
  match kind with
  | 0 => SecondsPerTick (f64_of_bits x) | 1 => TicksPerSecond (f64_of_bits x)
  | _ => TicksPerMinute (f64_of_bits x)
  end.
Definition mk_easing (ekind p : Z) : easing f64 :=
  match ekind with
  | 0 => Linear | 1 => InPowi p | 2 => OutPowi p | 3 => InOutPowi p
  | 4 => InPowf (f64_of_bits p) | 5 => OutPowf (f64_of_bits p) | _ => InOutPowf (f64_of_bits p)
  end.

Definition run (c : case) : list Z :=
  match c with
  | CFromTicks x => enc_ct (ct_from_ticks_f64 (f64_of_bits x))
  | CAddF tk fr t => encode_outcome enc_ct (ct_add_f64 (mk_ct tk fr) (f64_of_bits t))
  | CSubF tk fr t => encode_outcome enc_ct (ct_sub_f64 (mk_ct tk fr) (f64_of_bits t))
  | CAddU tk fr k => encode_outcome enc_ct (ct_add_u64 (mk_ct tk fr) k)
  | CSubU tk fr k => encode_outcome enc_ct (ct_sub_u64 (mk_ct tk fr) k)
  | CCmp t1 f1 t2 f2 =>
      match ct_cmp (mk_ct t1 f1) (mk_ct t2 f2) with
      | Some Lt => [0] | Some Eq => [1] | Some Gt => [2] | None => [3]
      end
  | CSpeed kind x =>
      let s := mk_speed kind x in
      [bits_of_f64 (as_spt s); bits_of_f64 (as_tps s); bits_of_f64 (as_tpm s)]
  | CSpeedLerp ka xa kb xb amt =>
      match cspeed_interpolate (mk_speed ka xa) (mk_speed kb xb) (f64_of_bits amt) with
      | SecondsPerTick v => [0; bits_of_f64 v]
      | TicksPerSecond v => [1; bits_of_f64 v]
      | TicksPerMinute v => [2; bits_of_f64 v]
      end
  | CEase ekind p x tab => [bits_of_f64 (ease (powf64_tab tab) (mk_easing ekind p) (f64_of_bits x))]
  | CMap lo hi olo ohi ekind p input tab =>
      [bits_of_f64 (map_value (powf64_tab tab)
         {| in_lo := f64_of_bits lo; in_hi := f64_of_bits hi; out_lo := f64_of_bits olo;
            out_hi := f64_of_bits ohi; m_easing := mk_easing ekind p |} (f64_of_bits input))]
  | CDb db tab => [bits_of_f32 (db_as_amplitude (powf32_tab tab (Z32 10)) (f32_of_bits db))]
  | CPan l r p => let '(a, b) := panned (f32_of_bits l) (f32_of_bits r) (f32_of_bits p) in
                  [bits_of_f32 a; bits_of_f32 b]
  | CMono l r => let '(a, b) := as_mono (f32_of_bits l) (f32_of_bits r) in
                 [bits_of_f32 a; bits_of_f32 b]
  | CSemi s tab => [bits_of_f64 (semitones_to_rate (powf64_tab tab (Z64 2)) (f64_of_bits s))]
  | CHandle tk fr kind x sr frames =>
      enc_ct (handle_time (mk_ct tk fr) (map (chunk_increment (mk_speed kind x) sr) frames))
  end.
