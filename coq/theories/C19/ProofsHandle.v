(** C19 — the clock times handed out by a handle are well-formed clock times: exact (rational)
    semantics of [ModelHandle.v]. *)
From Coq Require Import ZArith QArith Qround Lia Lqa Bool List.
From KV Require Import Base.Outcome Base.Num Base.QLemmas C19.Model C19.ProofsTime C19.ModelHandle.
Import ListNotations.
Local Open Scope Q_scope.

Definition Qsum (l : list Q) : Q := fold_right Qplus 0 l.

(** what one update computes, in exact arithmetic *)
Lemma clock_advance_unfold (c : ctQ) (inc : Q) :
  wf c -> 0 <= inc ->
  let timer := Qred (fraction c + inc) in
  (timer < 1 /\ clock_advance c inc = {| ticks := ticks c; fraction := timer |}) \/
  (1 <= timer /\
   clock_advance c inc =
     {| ticks := Z.min u64_max (ticks c + Z.min (2 ^ 64 - 1) (Qfloor timer));
        fraction := Qred (timer - inject_Z (Qfloor timer)) |}).
Proof.
  intros [Ht [F1 F2]] Hinc timer. unfold clock_advance.
  cbn [nadd nleb nfloor nisfinite nsub ntoU64 n1 n0 Num_Q]. fold timer.
  destruct (Qle_bool 1 timer) eqn:E.
  - right. apply Qle_bool_true in E. split; [exact E|].
    rewrite Qtruncz_inject.
    assert (Hf : (1 <= Qfloor timer)%Z).
    { destruct (Qfloor_bounds timer) as [_ L2].
      assert (0 < Qfloor timer)%Z; [|lia]. rewrite Zlt_Qlt. change (inject_Z 0) with 0. lra. }
    rewrite Z.max_r by lia. reflexivity.
  - left. apply Qle_bool_false in E. split; [exact E|reflexivity].
Qed.

Lemma clock_advance_wf (c : ctQ) (inc : Q) : wf c -> 0 <= inc -> wf (clock_advance c inc).
Proof.
  intros Hwf Hinc. pose proof Hwf as [Ht [F1 F2]].
  assert (Et : Qred (fraction c + inc) == fraction c + inc) by apply Qred_correct.
  destruct (clock_advance_unfold c inc Hwf Hinc) as [[L E]|[L E]]; rewrite E; clear E.
  - split; [exact Ht|]. split; cbn [fraction]; [rewrite Et; lra | exact L].
  - destruct (Qfloor_bounds (Qred (fraction c + inc))) as [L1 L2].
    assert (Hf : (1 <= Qfloor (Qred (fraction c + inc)))%Z).
    { assert (0 < Qfloor (Qred (fraction c + inc)))%Z; [|lia]. rewrite Zlt_Qlt. change (inject_Z 0) with 0. lra. }
    split; [cbn [ticks]; unfold u64_max; lia|].
    split; cbn [fraction]; rewrite Qred_correct; lra.
Qed.

Lemma clock_advance_value (c : ctQ) (inc : Q) :
  wf c -> 0 <= inc -> value c + inc < inject_Z (2 ^ 64) ->
  value (clock_advance c inc) == value c + inc.
Proof.
  intros Hwf Hinc Hb. pose proof Hwf as [Ht [F1 F2]].
  assert (Et : Qred (fraction c + inc) == fraction c + inc) by apply Qred_correct.
  destruct (clock_advance_unfold c inc Hwf Hinc) as [[L E]|[L E]]; rewrite E; clear E; unfold value in *.
  - cbn [ticks fraction]. rewrite Et. ring.
  - destruct (Qfloor_bounds (Qred (fraction c + inc))) as [L1 L2].
    set (f := Qfloor (Qred (fraction c + inc))) in *.
    assert (Hlt : (ticks c + f < 2 ^ 64)%Z).
    { rewrite Zlt_Qlt, inject_Z_plus. lra. }
    assert (Hf : (0 <= f)%Z).
    { assert (0 < f)%Z; [|lia]. rewrite Zlt_Qlt. change (inject_Z 0) with 0. lra. }
    cbn [ticks fraction]. unfold u64_max.
    rewrite (Z.min_r (2 ^ 64 - 1) f) by lia. rewrite Z.min_r by lia.
    rewrite Qred_correct, inject_Z_plus, Et. ring.
Qed.

(** ** any number of chunks *)
Lemma handle_time_wf_l (incs : list Q) : forall c : ctQ,
  wf c -> Forall (fun i => 0 <= i) incs -> wf (handle_time c incs).
Proof.
  induction incs as [|i incs IH]; intros c Hwf Hall; [exact Hwf|].
  inversion Hall as [|? ? Hi Hrest]; subst.
  unfold handle_time. cbn [fold_left]. apply IH; [apply clock_advance_wf; assumption|assumption].
Qed.

Lemma Qsum_nonneg (incs : list Q) : Forall (fun i => 0 <= i) incs -> 0 <= Qsum incs.
Proof.
  induction 1 as [|i incs Hi _ IH]; cbn [Qsum fold_right]; [lra|]. unfold Qsum in IH. lra.
Qed.

Lemma handle_time_value_l (incs : list Q) : forall c : ctQ,
  wf c -> Forall (fun i => 0 <= i) incs -> value c + Qsum incs < inject_Z (2 ^ 64) ->
  value (handle_time c incs) == value c + Qsum incs.
Proof.
  induction incs as [|i incs IH]; intros c Hwf Hall Hb.
  - cbn [handle_time fold_left Qsum fold_right]. ring.
  - inversion Hall as [|? ? Hi Hrest]; subst.
    pose proof (Qsum_nonneg incs Hrest) as Hs.
    cbn [Qsum fold_right] in Hb. fold (Qsum incs) in Hb.
    assert (Hv : value (clock_advance c i) == value c + i).
    { apply clock_advance_value; [assumption|assumption|lra]. }
    unfold handle_time. cbn [fold_left]. fold (handle_time (clock_advance c i) incs).
    rewrite IH; [|apply clock_advance_wf; assumption|assumption|rewrite Hv; lra].
    rewrite Hv. cbn [Qsum fold_right]. fold (Qsum incs). ring.
Qed.

(** a reported time lies before the start of the next tick, as a number and as a [ClockTime] *)
Lemma handle_time_before_next_tick_l (c : ctQ) (incs : list Q) :
  wf c -> Forall (fun i => 0 <= i) incs ->
  let h := handle_time c incs in
  value h < value (next_tick h) /\ ct_cmp h (next_tick h) = Some Lt /\
  ct_cmp h (next_tick h) = Some (value h ?= value (next_tick h)).
Proof.
  intros Hwf Hall h. pose proof (handle_time_wf_l incs c Hwf Hall) as [Ht [F1 F2]]. fold h in Ht, F1, F2.
  assert (Hv : value h < value (next_tick h)).
  { unfold value, next_tick. cbn [ticks fraction n0 Num_Q]. rewrite inject_Z_plus. change (inject_Z 1) with 1. lra. }
  split; [exact Hv|].
  assert (Hc : ct_cmp h (next_tick h) = Some (value h ?= value (next_tick h))).
  { apply ct_cmp_spec; [split; assumption|]. unfold frac_ok, next_tick. cbn [fraction n0 Num_Q]. lra. }
  split; [|exact Hc]. rewrite Hc. f_equal. apply Qlt_alt. exact Hv.
Qed.

(** the hypotheses are satisfiable: 120 ticks per minute at 48 kHz in chunks of 128 frames,
    375 chunks = one second = two ticks exactly *)
Example handle_time_example :
  let c : ctQ := {| ticks := 0; fraction := 0 |} in
  let incs := repeat (chunk_increment (TicksPerMinute (120 # 1)) 48000 128) 375 in
  wf c /\ Forall (fun i => 0 <= i) incs /\ handle_time c incs = {| ticks := 2; fraction := 0 |}.
Proof.
  cbn zeta. split; [split; [cbn; lia|split; cbn; lra]|]. split.
  - apply Forall_forall. intros x Hx. apply repeat_spec in Hx. subst x. vm_compute. discriminate.
  - vm_compute. reflexivity.
Qed.

(** statements in the argument order of Props.v *)
Lemma handle_time_wf (c : ctQ) (incs : list Q) :
  wf c -> Forall (fun i => 0 <= i) incs -> wf (handle_time c incs).
Proof. apply handle_time_wf_l. Qed.
Lemma handle_time_value (c : ctQ) (incs : list Q) :
  wf c -> Forall (fun i => 0 <= i) incs -> value c + Qsum incs < inject_Z (2 ^ 64) ->
  value (handle_time c incs) == value c + Qsum incs.
Proof. apply handle_time_value_l. Qed.
