(** C19 — property theorems.  This file contains nothing but statements closed by [exact]. *)
From Coq Require Import ZArith QArith.
From Coq Require Import Qminmax List Reals.
From Flocq Require Import Core IEEE754.BinarySingleNaN.
From KV Require Import Base.IEEE Base.Outcome Base.Num C19.Model C19.ProofsTime C19.ProofsEasing C19.ProofsGuards C19.ModelHandle C19.ProofsHandle C19.ModelF32 C19.ModelUnitsR C19.ProofsUnits.
Local Open Scope Q_scope.

(** Adding a non-negative amount: the fraction stays in [0,1), ticks + fraction grows by
    exactly the amount (exact arithmetic; no u64 overflow). *)
Theorem clocktime_add_exact :
  forall (c : ctime Q) (t : Q),
    wf c -> 0 <= t -> value c + t < inject_Z (2 ^ 64) ->
    exists c', ct_add_pos c t = Ok c' /\ wf c' /\ value c' == value c + t.
Proof. exact ct_add_pos_spec. Qed.

(** Subtracting an amount not larger than the time: fraction in [0,1), exact difference. *)
Theorem clocktime_sub_exact :
  forall (c : ctime Q) (t : Q),
    wf c -> 0 <= t -> t <= value c -> (ticks c <= 2 ^ 64 - 1)%Z ->
    exists c', ct_sub_pos c t = Ok c' /\ wf c' /\ value c' == value c - t.
Proof. exact ct_sub_pos_spec. Qed.

(** Subtracting more than the time itself saturates at zero (F18, repaired in /repo). *)
Theorem clocktime_sub_saturates :
  forall (c : ctime Q) (t : Q),
    wf c -> (ticks c <= 2 ^ 64 - 2)%Z -> value c < t ->
    ct_sub_pos c t = Ok {| ticks := 0; fraction := 0 |}.
Proof. exact ct_sub_pos_saturates. Qed.

(** Subtraction never wraps below zero and never yields a time later than the original. *)
Theorem clocktime_sub_never_later :
  forall (c : ctime Q) (t : Q),
    wf c -> (ticks c <= 2 ^ 64 - 2)%Z -> 0 <= t ->
    exists c', ct_sub_pos c t = Ok c' /\ wf c' /\ value c' <= value c.
Proof. exact ct_sub_pos_le. Qed.

(** Adding and then subtracting the same amount returns the original time. *)
Theorem clocktime_add_sub_roundtrip :
  forall (c : ctime Q) (t : Q),
    wf c -> 0 <= t -> value c + t < inject_Z (2 ^ 64) ->
    exists c1 c2, ct_add_pos c t = Ok c1 /\ ct_sub_pos c1 t = Ok c2 /\
                  ticks c2 = ticks c /\ fraction c2 == fraction c.
Proof. exact ct_add_sub_roundtrip. Qed.

(** Adding two amounts one after the other gives the same time — same ticks, same fraction — as
    adding their sum at once: offsets accumulated step by step do not drift. *)
Theorem clocktime_add_additive :
  forall (c : ctime Q) (t1 t2 : Q),
    wf c -> 0 <= t1 -> 0 <= t2 -> value c + (t1 + t2) < inject_Z (2 ^ 64) ->
    exists c1 c2 c12, ct_add_pos c t1 = Ok c1 /\ ct_add_pos c1 t2 = Ok c2 /\ ct_add_pos c (t1 + t2) = Ok c12 /\
                      ticks c2 = ticks c12 /\ fraction c2 == fraction c12.
Proof. exact ct_add_pos_additive. Qed.

(** Subtracting an amount not larger than the time and adding it again returns the original time. *)
Theorem clocktime_sub_add_roundtrip :
  forall (c : ctime Q) (t : Q),
    wf c -> 0 <= t -> t <= value c -> (ticks c <= 2 ^ 64 - 2)%Z ->
    exists c1 c2, ct_sub_pos c t = Ok c1 /\ ct_add_pos c1 t = Ok c2 /\
                  ticks c2 = ticks c /\ fraction c2 == fraction c.
Proof. exact ct_sub_add_roundtrip. Qed.

(** Ordering agrees with ticks + fraction. *)
Theorem clocktime_order :
  forall a b : ctime Q, frac_ok a -> frac_ok b -> ct_cmp a b = Some (value a ?= value b).
Proof. exact ct_cmp_spec. Qed.

(** Every built-in easing with a positive power maps 0 to 0 and 1 to 1, is monotone on [0,1]
    (record [shape]), hence stays in [0,1] there; Powf variants under the stated libm hypothesis. *)
Theorem easing_laws :
  forall (powf : Q -> Q -> Q) (e : easing Q), positive_power e -> oracle_ok powf e -> shape (ease powf e).
Proof. exact easing_shape. Qed.

Theorem easing_range :
  forall f : Q -> Q, shape f -> forall x, 0 <= x <= 1 -> 0 <= f x <= 1.
Proof. exact shape_range. Qed.

(** The three clock-speed units convert consistently (non-zero speeds). *)
Theorem clock_speed_consistent :
  forall s : cspeed Q,
    (match s with SecondsPerTick x | TicksPerSecond x | TicksPerMinute x => ~ x == 0 end) ->
    as_tps s == / as_spt s /\ as_tpm s == 60 * as_tps s /\ as_spt s * as_tps s == 1.
Proof. exact cspeed_consistent. Qed.

(** A mapping clamps its input to the input range (normal and inverted ranges). *)
Theorem mapping_clamps_input :
  forall (powf : Q -> Q -> Q) (m : mapping Q) (x : Q),
    ~ in_lo m == in_hi m ->
    map_value powf m x = map_value powf m (clampQ (Qmin (in_lo m) (in_hi m)) (Qmax (in_lo m) (in_hi m)) x).
Proof. exact map_value_clamps. Qed.

(** The guard [positive_power] is exact (known finding F36): with a power of 0 the easing maps 0 to 1, with a
    negative power it leaves [0,1] — over Q and, as the implementation computes it, in binary64 (0^-1 = +inf). *)
Theorem easing_nonpositive_power_refuted :
  forall powf : Q -> Q -> Q,
    ease powf (InPowi 0) 0 == 1 /\ ease powf (InPowi (-1)) (1 # 2) == 2 /\
    ~ shape (ease powf (InPowi 0)) /\ ~ shape (ease powf (InPowi (-1))) /\
    ~ positive_power (@InPowi Q 0) /\ ~ positive_power (@InPowi Q (-1)).
Proof. exact easing_nonpositive_power_refuted_l. Qed.
Theorem easing_nonpositive_power_b64 :
  forall powf : f64 -> f64 -> f64,
    bits_of_f64 (ease powf (InPowi 0) (b64 0)) = 0x3FF0000000000000%Z /\
    bits_of_f64 (ease powf (InPowi (-1)) (b64 0x3FE0000000000000)) = 0x4000000000000000%Z /\
    bits_of_f64 (ease powf (InPowi (-1)) (b64 0)) = 0x7FF0000000000000%Z.
Proof. exact easing_nonpositive_power_b64_l. Qed.
(** The guard [in_lo <> in_hi] of [mapping_clamps_input] is exact (known finding F41): a zero-width input range
    gives NaN in binary64 (0/0) for finite arguments. *)
Theorem mapping_zero_width_refuted :
  forall powf : f64 -> f64 -> f64,
    (bits_of_f64 (map_value powf zero_width (b64 0x4000000000000000)) < 0)%Z.
Proof. exact mapping_zero_width_refuted_l. Qed.

(** The clock times a [ClockHandle] hands out (the pair the audio thread publishes after any number of
    chunks, each advancing the timer by a non-negative amount) are well-formed clock times: ticks >= 0
    and the fraction in [0, 1). *)
Theorem handle_time_well_formed :
  forall (c : ctime Q) (incs : list Q),
    wf c -> Forall (fun i => 0 <= i) incs -> wf (handle_time c incs).
Proof. exact handle_time_wf. Qed.

(** ... their ticks + fraction is exactly the time that has passed (no u64 saturation), so successive
    reports are ordered like the audio that has been rendered ... *)
Theorem handle_time_exact :
  forall (c : ctime Q) (incs : list Q),
    wf c -> Forall (fun i => 0 <= i) incs -> value c + Qsum incs < inject_Z (2 ^ 64) ->
    value (handle_time c incs) == value c + Qsum incs.
Proof. exact handle_time_value. Qed.

(** ... and a reported time is strictly before the start of the next tick, as ticks + fraction and under
    [PartialOrd], which agree. *)
Theorem handle_time_before_next_tick :
  forall (c : ctime Q) (incs : list Q),
    wf c -> Forall (fun i => 0 <= i) incs ->
    let h := handle_time c incs in
    value h < value (next_tick h) /\ ct_cmp h (next_tick h) = Some Lt /\
    ct_cmp h (next_tick h) = Some (value h ?= value (next_tick h)).
Proof. exact handle_time_before_next_tick_l. Qed.

(** Decibels ([Decibels::as_amplitude] read over the reals, [ModelUnitsR]): 0 dB is 1, -60 dB or less is 0,
    otherwise it IS 10^(dB/20) — including at 0 dB, where the shortcut and the formula agree. *)
Theorem decibels_special_values_R :
  (db_amp_R 0 = 1 /\ (forall db, db <= -60 -> db_amp_R db = 0) /\
   (forall db, -60 < db -> db_amp_R db = Rpower 10 (db / 20)) /\
   (forall db, -60 < db -> db_amp_R (db + 20) = 10 * db_amp_R db))%R.
Proof. exact (conj db_amp_zero_l (conj db_amp_silence_l (conj db_amp_agrees_l db_amp_plus20_l))). Qed.

(** ... and it is monotone on the whole line (across both special cases), strictly above silence, and in
    [0, 1] up to 0 dB. *)
Theorem decibels_monotone_R :
  ((forall a b, a <= b -> db_amp_R a <= db_amp_R b) /\
   (forall a b, -60 < a -> a < b -> db_amp_R a < db_amp_R b) /\
   (forall db, db <= 0 -> 0 <= db_amp_R db <= 1))%R.
Proof. exact (conj db_amp_monotone_l (conj db_amp_strict_l db_amp_range_l)). Qed.

(** The binary32 transcription that is compared bit for bit with the code takes, at every finite argument,
    the branch the real-number reading takes, whatever [powf] is linked ([powf10 x] = [10.0f32.powf(x)]);
    the division by 20 never overflows and is correctly rounded. *)
Theorem decibels_branches_b32 :
  forall (powf10 : f32 -> f32) (db : f32), is_finite db = true ->
    (B2R db = 0 /\ db_as_amplitude powf10 db = Z32 1 /\ db_amp_R (B2R db) = 1)%R \/
    (B2R db <= -60 /\ db_as_amplitude powf10 db = Z32 0 /\ db_amp_R (B2R db) = 0)%R \/
    (-60 < B2R db /\ db_as_amplitude powf10 db = powf10 (div32 db (Z32 20)) /\
     B2R (div32 db (Z32 20)) = round radix2 (SpecFloat.fexp 24 128) (round_mode mode_NE) (B2R db / 20) /\
     db_amp_R (B2R db) = Rpower 10 (B2R db / 20))%R.
Proof. exact db32_branches. Qed.

(** ... and it is monotone in binary32 for EVERY libm [powf] that is itself non-decreasing, non-negative and
    has 10^0 = 1 (its result may be +inf): the two shortcuts and the rounded division cannot break the order. *)
Theorem decibels_monotone_b32 :
  forall powf10 : f32 -> f32,
    (forall x y, is_finite x = true -> is_finite y = true -> (B2R x <= B2R y)%R -> le32 (powf10 x) (powf10 y) = true) ->
    (forall x, is_finite x = true -> le32 (Z32 0) (powf10 x) = true) ->
    powf10 (Z32 0) = Z32 1 ->
    forall a b, is_finite a = true -> is_finite b = true -> (B2R a <= B2R b)%R ->
      le32 (db_as_amplitude powf10 a) (db_as_amplitude powf10 b) = true.
Proof. exact db32_monotone. Qed.
(** (the three hypotheses are satisfiable) *)
Theorem decibels_monotone_b32_nonvacuous :
  (forall x y, is_finite x = true -> is_finite y = true -> (B2R x <= B2R y)%R -> le32 (powf10_step x) (powf10_step y) = true) /\
  (forall x, is_finite x = true -> le32 (Z32 0) (powf10_step x) = true) /\ powf10_step (Z32 0) = Z32 1.
Proof. exact powf10_step_ok. Qed.

(** Panning ([Frame::panned] over the reals): centre keeps the frame — the shortcut and the formula it
    short-cuts agree there, so there is no jump at the centre —, the total power of a centred signal (the
    same value in both channels) is the same for every panning, hard left / right (and beyond: clamped)
    silence the other channel, and moving right never raises the left gain nor lowers the right one. *)
Theorem panning_centre_level_R :
  forall l r : R, panned_R l r 0 = (l, r) /\ panned_formula_R l r 0 = (l, r).
Proof. exact panned_centre_l. Qed.
Theorem panning_total_power_R :
  forall x p : R, power2 (panned_R x x p) = power2 (x, x).
Proof. exact panned_power_l. Qed.
Theorem panning_extremes_R :
  (forall l r p : R, (p <= -1)%R -> panned_R l r p = ((l * sqrt 2)%R, 0%R)) /\
  (forall l r p : R, (1 <= p)%R -> panned_R l r p = (0%R, (r * sqrt 2)%R)) /\
  (forall p q : R, (p <= q)%R ->
     (fst (panned_R 1 1 q) <= fst (panned_R 1 1 p))%R /\ (snd (panned_R 1 1 p) <= snd (panned_R 1 1 q))%R).
Proof. exact (conj panned_hard_left_l (conj panned_hard_right_l panned_gains_monotone_l)). Qed.
Theorem panning_centre_b32 :
  forall l r : f32, panned l r (Z32 0) = (l, r) /\ panned l r (neg32 (Z32 0)) = (l, r).
Proof. exact panned32_centre. Qed.

(** Semitones: twelve double the rate (and every further twelve double it again), zero leave it, the
    conversion is monotone and turns sums into products; in binary64 the argument handed to [powf] for
    +-12 / 0 / 24 semitones is exactly +-1 / 0 / 2. *)
Theorem semitones_octave_R :
  (semitones_to_rate_R 12 = 2 /\ semitones_to_rate_R 0 = 1 /\
   (forall s, semitones_to_rate_R (s + 12) = 2 * semitones_to_rate_R s) /\
   (forall s, semitones_to_rate_R (s - 12) = semitones_to_rate_R s / 2) /\
   (forall a b, a <= b -> semitones_to_rate_R a <= semitones_to_rate_R b) /\
   (forall a b, semitones_to_rate_R (a + b) = semitones_to_rate_R a * semitones_to_rate_R b))%R.
Proof.
  exact (conj semitones_octave_l (conj semitones_zero_l (conj semitones_plus12_l (conj semitones_minus12_l
          (conj semitones_monotone_l semitones_additive_l))))).
Qed.
Theorem semitones_octave_b64 :
  forall powf2 : f64 -> f64,
    semitones_to_rate powf2 (Z64 12) = powf2 (Z64 1) /\ semitones_to_rate powf2 (Z64 0) = powf2 (Z64 0) /\
    semitones_to_rate powf2 (Z64 (-12)) = powf2 (Z64 (-1)) /\ semitones_to_rate powf2 (Z64 24) = powf2 (Z64 2).
Proof. exact semitones_b64_octave. Qed.

(** In binary32, for every finite panning at or beyond hard left (hard right) the right (left) channel of a
    finite frame is exactly zero and the other channel is the sample times 1 times sqrt 2, rounded. *)
Theorem panning_extremes_b32 :
  (forall (l r p : f32), is_finite p = true -> is_finite r = true -> (B2R p <= -1)%R ->
     fst (panned l r p) = mul32 (mul32 l (Z32 1)) SQRT2_32 /\ exists s, snd (panned l r p) = B754_zero s) /\
  (forall (l r p : f32), is_finite p = true -> is_finite l = true -> (1 <= B2R p)%R ->
     snd (panned l r p) = mul32 (mul32 r (Z32 1)) SQRT2_32 /\ exists s, fst (panned l r p) = B754_zero s).
Proof. exact (conj panned32_hard_left panned32_hard_right). Qed.
