(** C19 — property theorems.  This file contains nothing but statements closed by [exact]. *)
From Coq Require Import ZArith QArith.
From Coq Require Import Qminmax List.
From KV Require Import Base.IEEE Base.Outcome Base.Num C19.Model C19.ProofsTime C19.ProofsEasing C19.ProofsGuards C19.ModelHandle C19.ProofsHandle.
Local Open Scope Q_scope.

(** Adding a non-negative amount: the fraction stays in [0,1), ticks + fraction grows by
    exactly the amount (exact arithmetic; no u64 overflow). *)
Theorem clocktime_add_exact :
  forall (c : ctime Q) (t : Q),
    wf c -> 0 <= t -> value c + t < inject_Z (2 ^ 64) ->
    exists c', ct_add_pos c t = Ok c' /\ wf c' /\ value c' == value c + t.
Proof. exact ct_add_pos_spec. Qed.

(** Subtracting an amount not larger than the time: fraction in [0,1), exact difference. *)
Theorem clocktime_sub_exact :
  forall (c : ctime Q) (t : Q),
    wf c -> 0 <= t -> t <= value c -> (ticks c <= 2 ^ 64 - 1)%Z ->
    exists c', ct_sub_pos c t = Ok c' /\ wf c' /\ value c' == value c - t.
Proof. exact ct_sub_pos_spec. Qed.

(** Subtracting more than the time itself saturates at zero (F18, repaired in /repo). *)
Theorem clocktime_sub_saturates :
  forall (c : ctime Q) (t : Q),
    wf c -> (ticks c <= 2 ^ 64 - 2)%Z -> value c < t ->
    ct_sub_pos c t = Ok {| ticks := 0; fraction := 0 |}.
Proof. exact ct_sub_pos_saturates. Qed.

(** Subtraction never wraps below zero and never yields a time later than the original. *)
Theorem clocktime_sub_never_later :
  forall (c : ctime Q) (t : Q),
    wf c -> (ticks c <= 2 ^ 64 - 2)%Z -> 0 <= t ->
    exists c', ct_sub_pos c t = Ok c' /\ wf c' /\ value c' <= value c.
Proof. exact ct_sub_pos_le. Qed.

(** Adding and then subtracting the same amount returns the original time. *)
Theorem clocktime_add_sub_roundtrip :
  forall (c : ctime Q) (t : Q),
    wf c -> 0 <= t -> value c + t < inject_Z (2 ^ 64) ->
    exists c1 c2, ct_add_pos c t = Ok c1 /\ ct_sub_pos c1 t = Ok c2 /\
                  ticks c2 = ticks c /\ fraction c2 == fraction c.
Proof. exact ct_add_sub_roundtrip. Qed.

(** Ordering agrees with ticks + fraction. *)
Theorem clocktime_order :
  forall a b : ctime Q, frac_ok a -> frac_ok b -> ct_cmp a b = Some (value a ?= value b).
Proof. exact ct_cmp_spec. Qed.

(** Every built-in easing with a positive power maps 0 to 0 and 1 to 1, is monotone on [0,1]
    (record [shape]), hence stays in [0,1] there; Powf variants under the stated libm hypothesis. *)
Theorem easing_laws :
  forall (powf : Q -> Q -> Q) (e : easing Q), positive_power e -> oracle_ok powf e -> shape (ease powf e).
Proof. exact easing_shape. Qed.

Theorem easing_range :
  forall f : Q -> Q, shape f -> forall x, 0 <= x <= 1 -> 0 <= f x <= 1.
Proof. exact shape_range. Qed.

(** The three clock-speed units convert consistently (non-zero speeds). *)
Theorem clock_speed_consistent :
  forall s : cspeed Q,
    (match s with SecondsPerTick x | TicksPerSecond x | TicksPerMinute x => ~ x == 0 end) ->
    as_tps s == / as_spt s /\ as_tpm s == 60 * as_tps s /\ as_spt s * as_tps s == 1.
Proof. exact cspeed_consistent. Qed.

(** A mapping clamps its input to the input range (normal and inverted ranges). *)
Theorem mapping_clamps_input :
  forall (powf : Q -> Q -> Q) (m : mapping Q) (x : Q),
    ~ in_lo m == in_hi m ->
    map_value powf m x = map_value powf m (clampQ (Qmin (in_lo m) (in_hi m)) (Qmax (in_lo m) (in_hi m)) x).
Proof. exact map_value_clamps. Qed.

(** The guard [positive_power] is exact (known finding F36): with a power of 0 the easing maps 0 to 1, with a
    negative power it leaves [0,1] — over Q and, as the implementation computes it, in binary64 (0^-1 = +inf). *)
Theorem easing_nonpositive_power_refuted :
  forall powf : Q -> Q -> Q,
    ease powf (InPowi 0) 0 == 1 /\ ease powf (InPowi (-1)) (1 # 2) == 2 /\
    ~ shape (ease powf (InPowi 0)) /\ ~ shape (ease powf (InPowi (-1))) /\
    ~ positive_power (@InPowi Q 0) /\ ~ positive_power (@InPowi Q (-1)).
Proof. exact easing_nonpositive_power_refuted_l. Qed.
Theorem easing_nonpositive_power_b64 :
  forall powf : f64 -> f64 -> f64,
    bits_of_f64 (ease powf (InPowi 0) (b64 0)) = 0x3FF0000000000000%Z /\
    bits_of_f64 (ease powf (InPowi (-1)) (b64 0x3FE0000000000000)) = 0x4000000000000000%Z /\
    bits_of_f64 (ease powf (InPowi (-1)) (b64 0)) = 0x7FF0000000000000%Z.
Proof. exact easing_nonpositive_power_b64_l. Qed.
(** The guard [in_lo <> in_hi] of [mapping_clamps_input] is exact (known finding F41): a zero-width input range
    gives NaN in binary64 (0/0) for finite arguments. *)
Theorem mapping_zero_width_refuted :
  forall powf : f64 -> f64 -> f64,
    (bits_of_f64 (map_value powf zero_width (b64 0x4000000000000000)) < 0)%Z.
Proof. exact mapping_zero_width_refuted_l. Qed.

(** The clock times a [ClockHandle] hands out (the pair the audio thread publishes after any number of
    chunks, each advancing the timer by a non-negative amount) are well-formed clock times: ticks >= 0
    and the fraction in [0, 1). *)
Theorem handle_time_well_formed :
  forall (c : ctime Q) (incs : list Q),
    wf c -> Forall (fun i => 0 <= i) incs -> wf (handle_time c incs).
Proof. exact handle_time_wf. Qed.

(** ... their ticks + fraction is exactly the time that has passed (no u64 saturation), so successive
    reports are ordered like the audio that has been rendered ... *)
Theorem handle_time_exact :
  forall (c : ctime Q) (incs : list Q),
    wf c -> Forall (fun i => 0 <= i) incs -> value c + Qsum incs < inject_Z (2 ^ 64) ->
    value (handle_time c incs) == value c + Qsum incs.
Proof. exact handle_time_value. Qed.

(** ... and a reported time is strictly before the start of the next tick, as ticks + fraction and under
    [PartialOrd], which agree. *)
Theorem handle_time_before_next_tick :
  forall (c : ctime Q) (incs : list Q),
    wf c -> Forall (fun i => 0 <= i) incs ->
    let h := handle_time c incs in
    value h < value (next_tick h) /\ ct_cmp h (next_tick h) = Some Lt /\
    ct_cmp h (next_tick h) = Some (value h ?= value (next_tick h)).
Proof. exact handle_time_before_next_tick_l. Qed.
