(** C19 — executable model of kira's unit conversions and clock-time arithmetic.
    Transcribed from crates/kira/src/{clock/time.rs, clock/clock_speed.rs, tween.rs,
    tween/tweenable.rs, value.rs}.  Generic over [Num]: the binary64 instance is compared
    bit-for-bit with the implementation, the rational instance carries the theorems. *)
From Coq Require Import ZArith List Bool.
From KV Require Import Base.Outcome Base.Num.
Import ListNotations.
Local Open Scope Z_scope.

Section Generic.
  Context {T : Type} {NT : Num T}.

  (** ** clock/time.rs *)
  Record ctime := { ticks : Z; fraction : T }.

  (** [ClockTime::from_ticks_f64]: [ticks as u64], [ticks.fract()] *)
  Definition ct_from_ticks_f64 (x : T) : ctime :=
    {| ticks := ntoU64 x; fraction := nfract x |}.

  (** [Add<u64>], [Sub<u64>]: plain [+]/[-] on u64 (debug builds panic on overflow) *)
  Definition ct_add_u64 (c : ctime) (k : Z) : outcome ctime :=
    let! t := add_chk (ticks c) k in Ok {| ticks := t; fraction := fraction c |}.
  Definition ct_sub_u64 (c : ctime) (k : Z) : outcome ctime :=
    let! t := sub_chk (ticks c) k in Ok {| ticks := t; fraction := fraction c |}.

  (** body of [Add<f64>] after the sign dispatch *)
  Definition ct_add_pos (c : ctime) (t : T) : outcome ctime :=
    let s := nadd (fraction c) t in
    let fr := nfract s in
    let! tk := add_chk (ticks c) (ntoU64 (ntrunc s)) in
    Ok {| ticks := tk; fraction := fr |}.

  (** body of [Sub<f64>] after the sign dispatch: fraction and whole ticks both come from
      [difference = fraction - t]; one tick is borrowed when the fractional part is negative
      (undone if the sum rounds up to 1.0); more than the time itself saturates at (0, 0.0). *)
  Definition ct_sub_pos (c : ctime) (t : T) : outcome ctime :=
    let d := nsub (fraction c) t in
    let fr0 := nadd (nfract d) n0 in
    let w0 := nneg (ntrunc d) in
    let '(fr, w) :=
      if nltb fr0 n0 then
        let fr1 := nadd fr0 n1 in
        let w1 := nadd w0 n1 in
        if nleb n1 fr1 then (n0, nsub w1 n1) else (fr1, w1)
      else (fr0, w0) in
    let wz := ntoU64 w in
    if ticks c <? wz then Ok {| ticks := 0; fraction := n0 |}
    else Ok {| ticks := ticks c - wz; fraction := fr |}.

  (** [Add<f64>]: [debug_assert!(finite)]; negative amounts go to [Sub] of the negation *)
  Definition ct_add_f64 (c : ctime) (t : T) : outcome ctime :=
    if negb (nisfinite t) then Panic OtherPanic
    else if nsignneg t then ct_sub_pos c (nneg t) else ct_add_pos c t.
  Definition ct_sub_f64 (c : ctime) (t : T) : outcome ctime :=
    if negb (nisfinite t) then Panic OtherPanic
    else if nsignneg t then ct_add_pos c (nneg t) else ct_sub_pos c t.

  (** [f64::partial_cmp] *)
  Definition ncompare (a b : T) : option comparison :=
    if nltb a b then Some Lt else if neqb a b then Some Eq else if nltb b a then Some Gt else None.

  (** [PartialOrd for ClockTime] (both times on the same clock) *)
  Definition ct_cmp (a b : ctime) : option comparison :=
    match Z.compare (ticks a) (ticks b) with
    | Eq => ncompare (fraction a) (fraction b)
    | o => Some o
    end.

  (** ** clock/clock_speed.rs *)
  Inductive cspeed := SecondsPerTick (x : T) | TicksPerSecond (x : T) | TicksPerMinute (x : T).
  Definition n60 : T := nofZ 60.
  Definition as_spt (s : cspeed) : T :=
    match s with
    | SecondsPerTick x => x | TicksPerSecond x => ndiv n1 x | TicksPerMinute x => ndiv n60 x
    end.
  Definition as_tps (s : cspeed) : T :=
    match s with
    | SecondsPerTick x => ndiv n1 x | TicksPerSecond x => x | TicksPerMinute x => ndiv x n60
    end.
  Definition as_tpm (s : cspeed) : T :=
    match s with
    | SecondsPerTick x => ndiv n60 x | TicksPerSecond x => nmul x n60 | TicksPerMinute x => x
    end.

  (** [Tweenable for f64]: [a + (b - a) * amount] *)
  Definition lerp (a b amount : T) : T := nadd a (nmul (nsub b a) amount).

  (** [Tweenable for ClockSpeed]: interpolate in the *target's* unit *)
  Definition cspeed_interpolate (a b : cspeed) (amount : T) : cspeed :=
    match b with
    | SecondsPerTick y => SecondsPerTick (lerp (as_spt a) y amount)
    | TicksPerSecond y => TicksPerSecond (lerp (as_tps a) y amount)
    | TicksPerMinute y => TicksPerMinute (lerp (as_tpm a) y amount)
    end.

  (** ** tween.rs: [Easing::apply].  [powf] is libm: an argument (oracle), never an axiom. *)
  Inductive easing :=
  | Linear | InPowi (p : Z) | OutPowi (p : Z) | InOutPowi (p : Z)
  | InPowf (p : T) | OutPowf (p : T) | InOutPowf (p : T).

  Section Ease.
    Variable powf : T -> T -> T.
    Definition n2 : T := nofZ 2.
    Definition nhalf : T := ndiv n1 n2.   (* 0.5, exact in both instances *)
    Definition inout (f : T -> T) (x : T) : T :=
      let x2 := nmul x n2 in
      if nltb x2 n1 then nmul nhalf (f x2)
      else nadd (nmul nhalf (nsub n1 (f (nsub n2 x2)))) nhalf.
    Definition ease (e : easing) (x : T) : T :=
      match e with
      | Linear => x
      | InPowi p => npowi x p
      | OutPowi p => nsub n1 (npowi (nsub n1 x) p)
      | InOutPowi p => inout (fun y => npowi y p) x
      | InPowf p => powf x p
      | OutPowf p => nsub n1 (powf (nsub n1 x) p)
      | InOutPowf p => inout (fun y => powf y p) x
      end.

    (** ** value.rs: [Mapping::map] for an f64 output.
        [f64::clamp(0.0, 1.0)]: NaN stays NaN (both comparisons false). *)
    Definition clamp01 (x : T) : T :=
      let x1 := if nltb x n0 then n0 else x in
      if nltb n1 x1 then n1 else x1.
    Record mapping := { in_lo : T; in_hi : T; out_lo : T; out_hi : T; m_easing : easing }.
    Definition map_value (m : mapping) (input : T) : T :=
      let amount := ndiv (nsub input (in_lo m)) (nsub (in_hi m) (in_lo m)) in
      let amount := clamp01 amount in
      let amount := ease (m_easing m) amount in
      lerp (out_lo m) (out_hi m) amount.
  End Ease.
End Generic.

Arguments ctime : clear implicits.
Arguments cspeed : clear implicits.
Arguments easing : clear implicits.
Arguments mapping : clear implicits.
