(** C05 — proofs added by the strengthening round: the event test on the clock's own two words (for
    ANY number type, hence bit for bit for binary64), and the pick-up order of clocks and of what
    waits for them under all interleavings of the user's thread with the audio thread. *)
From Coq Require Import ZArith List Bool Lia.
From KV Require Import Base.Outcome Base.Num C19.Model C06.Model C05.Pickup.
Import ListNotations.

Section TwoWords.
  Context {T : Type} {NT : Num T} {ND : NumDur T}.
  Local Open Scope Z_scope.

  (** [clock_info.time >= time] of [Info::when_to_start], on the two words *)
  Definition frac_ge (cfr fr : T) : bool :=
    match ncompare cfr fr with Some Gt | Some Eq => true | _ => false end.

  Lemma when_to_start_two_words (i : info T) (c : nat) (tk : Z) (fr : T) (ticking : bool) (ctk : Z) (cfr : T) :
    nth_error (i_clocks i) c = Some (Some (ticking, ctk, cfr)) ->
    (when_to_start i c tk fr = Now <->
       ticking = true /\ (tk < ctk \/ (ctk = tk /\ frac_ge cfr fr = true))) /\
    (ctk < tk -> when_to_start i c tk fr = Later).
  Proof.
    intro Hn. unfold when_to_start, ct_cmp, frac_ge. rewrite Hn. cbn [ticks fraction].
    destruct (Z.compare_spec ctk tk) as [E|L|G].
    - subst ctk. split; [|intro H; lia].
      destruct ticking; cbn [andb].
      + destruct (ncompare cfr fr) as [[| |]|]; split; intro H.
        all: try discriminate H.
        all: try (split; [reflexivity|right; split; reflexivity]).
        all: try reflexivity.
        all: destruct H as [_ [H|[_ H]]]; [lia|discriminate H].
      + split; intro H; [discriminate H|destruct H as [H _]; discriminate H].
    - split; [|intros _; destruct ticking; reflexivity].
      destruct ticking; cbn [andb]; split; intro H.
      all: try discriminate H.
      all: destruct H as [H1 [H|[H _]]]; [lia|lia].
    - split; [|intro H; lia].
      destruct ticking; cbn [andb]; split; intro H.
      all: try discriminate H.
      all: try reflexivity.
      + split; [reflexivity|left; lia].
      + destruct H as [H _]; discriminate H.
  Qed.
End TwoWords.

(** ** pick-up order *)
Definition pickup_inv (s : pst) : Prop :=
  p_cancelled s = false /\
  (p_pc s < 3)%nat /\
  match p_user s with
  | [GAddClock; GPlay] => p_cq s = false /\ p_cl s = false /\ p_sq s = false /\ p_sl s = false
  | [GPlay] => p_sq s = false /\ p_sl s = false /\ (p_cq s = true \/ p_cl s = true)
  | [] => (p_cq s = true \/ p_cl s = true) /\ (p_pc s = 2%nat -> p_sl s = true -> p_cl s = true)
  | _ => False
  end.

Lemma pickup_inv_step (s : pst) (t : ptid) :
  pickup_inv s -> pickup_inv (pstep (callback kira_order) s t).
Proof.
  intros (Hc & Hpc & Hu).
  destruct s as [cq cl sq sl ca pc u]. cbn [p_cq p_cl p_sq p_sl p_cancelled p_pc p_user] in *.
  subst ca.
  destruct t; cbn [pstep].
  - (* audio *)
    destruct pc as [|[|[|pc]]]; [| | |lia];
      unfold audio_step, pickup_inv; cbn;
      destruct u as [|[|] [|[|] [|? ?]]]; try contradiction; cbn;
      destruct cq, cl, sq, sl; cbn; intuition (try discriminate; try lia; auto).
  - (* user *)
    unfold user_step, pickup_inv; cbn.
    destruct u as [|[|] [|[|] [|? ?]]]; try contradiction; cbn;
      destruct cq, cl, sq, sl; cbn; intuition (try discriminate; try lia; auto).
Qed.

Lemma pickup_inv_run (sched : list ptid) (s : pst) :
  pickup_inv s -> pickup_inv (prun (callback kira_order) sched s).
Proof.
  revert s. induction sched as [|t sched IH]; intros s H; [exact H|].
  cbn [prun fold_left]. apply IH. apply pickup_inv_step. exact H.
Qed.

Lemma pickup_never_cancelled (pc : nat) (sched : list ptid) :
  (pc < 3)%nat -> p_cancelled (prun (callback kira_order) sched (pinit pc)) = false.
Proof.
  intro Hpc. apply (pickup_inv_run sched (pinit pc)).
  unfold pickup_inv, pinit; cbn. repeat split; auto.
Qed.

(** the other order loses: the user's two calls fall between the two drains *)
Lemma pickup_swapped_cancels :
  exists sched, p_cancelled (prun (callback swapped_order) sched (pinit 0)) = true.
Proof. exists [PAudio; PUser; PUser; PAudio; PAudio]. reflexivity. Qed.

(** the hypothesis of [pickup_never_cancelled] is met by every position, and the run is not vacuous:
    a schedule in which the sound is picked up and rendered *)
Example pickup_sound_rendered :
  let s := prun (callback kira_order) [PUser; PUser; PAudio; PAudio; PAudio] (pinit 0) in
  p_sl s = true /\ p_cl s = true /\ p_cancelled s = false.
Proof. cbn. repeat split. Qed.
