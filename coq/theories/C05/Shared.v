(** C05 — the two atomic words of [ClockShared] as an interleaving system.
    clock.rs: [ClockShared { ticks: AtomicU64, fractional_position: AtomicU64 (f64 bits), .. }];
    writer (audio thread, [Clock::update_shared]): [ticks.store(t)] THEN [fractional_position.store(f)];
    reader (any thread holding the handle, [ClockHandle::time]): [ticks.load()] THEN
    [fractional_position.load()]; [ClockHandle::stop] additionally stores 0 and then 0.0 from the
    caller's thread.  All accesses are SeqCst: one step = one atomic access, a schedule is a list of
    thread ids.  Words are integers (the fraction is its bit pattern). *)
From Coq Require Import ZArith List Bool.
Import ListNotations.
Local Open Scope Z_scope.

Inductive tid := Audio | Handle.
(** what the thread that owns the handle does *)
Inductive hop := HRead | HStop.

(** a completed [time()] call; ghost [r_clean = Some n]: both loads happened while the audio thread
    was at rest after exactly [n] complete publications (the read overlapped no publication) *)
Record read_rec := { r_tk : Z; r_fr : Z; r_clean : option nat }.

Record st := {
  m_ticks : Z; m_frac : Z;                    (* the two shared words *)
  a_todo : list (Z * Z);                      (* audio thread: the times it will publish, in order *)
  a_pc : bool;                                (* true: between the two stores *)
  a_done : nat;                               (* ghost: complete publications so far *)
  h_todo : list hop; h_pc : bool;             (* handle thread: program, true = between its two accesses *)
  h_tk : Z;                                   (* the ticks word it loaded *)
  h_at : nat * bool;                          (* ghost: (a_done, a_pc) at the first load *)
  h_reads : list read_rec                     (* completed reads, newest first *)
}.

Definition init_st (pubs : list (Z * Z)) (prog : list hop) : st :=
  {| m_ticks := 0; m_frac := 0; a_todo := pubs; a_pc := false; a_done := 0;
     h_todo := prog; h_pc := false; h_tk := 0; h_at := (O, false); h_reads := [] |}.

(** one atomic access of one thread; [None]: that thread has finished *)
Definition step (t : tid) (s : st) : option st :=
  match t with
  | Audio =>
      match a_todo s with
      | [] => None
      | (tk, fr) :: rest =>
          if a_pc s then
            Some {| m_ticks := m_ticks s; m_frac := fr; a_todo := rest; a_pc := false; a_done := S (a_done s);
                    h_todo := h_todo s; h_pc := h_pc s; h_tk := h_tk s; h_at := h_at s; h_reads := h_reads s |}
          else
            Some {| m_ticks := tk; m_frac := m_frac s; a_todo := a_todo s; a_pc := true; a_done := a_done s;
                    h_todo := h_todo s; h_pc := h_pc s; h_tk := h_tk s; h_at := h_at s; h_reads := h_reads s |}
      end
  | Handle =>
      match h_todo s with
      | [] => None
      | HRead :: rest =>
          if h_pc s then
            let clean := if negb (a_pc s) && negb (snd (h_at s)) && Nat.eqb (fst (h_at s)) (a_done s)
                         then Some (a_done s) else None in
            Some {| m_ticks := m_ticks s; m_frac := m_frac s; a_todo := a_todo s; a_pc := a_pc s; a_done := a_done s;
                    h_todo := rest; h_pc := false; h_tk := h_tk s; h_at := h_at s;
                    h_reads := {| r_tk := h_tk s; r_fr := m_frac s; r_clean := clean |} :: h_reads s |}
          else
            Some {| m_ticks := m_ticks s; m_frac := m_frac s; a_todo := a_todo s; a_pc := a_pc s; a_done := a_done s;
                    h_todo := h_todo s; h_pc := true; h_tk := m_ticks s; h_at := (a_done s, a_pc s);
                    h_reads := h_reads s |}
      | HStop :: rest =>
          if h_pc s then
            Some {| m_ticks := m_ticks s; m_frac := 0; a_todo := a_todo s; a_pc := a_pc s; a_done := a_done s;
                    h_todo := rest; h_pc := false; h_tk := h_tk s; h_at := h_at s; h_reads := h_reads s |}
          else
            Some {| m_ticks := 0; m_frac := m_frac s; a_todo := a_todo s; a_pc := a_pc s; a_done := a_done s;
                    h_todo := h_todo s; h_pc := true; h_tk := h_tk s; h_at := h_at s; h_reads := h_reads s |}
      end
  end.

(** a schedule is a list of thread ids; scheduling a finished thread does nothing *)
Fixpoint run_sched (sched : list tid) (s : st) : st :=
  match sched with
  | [] => s
  | t :: sched' => run_sched sched' (match step t s with Some s' => s' | None => s end)
  end.

(** the times the clock had: the initial (0, 0.0) and every published time *)
Definition hist (pubs : list (Z * Z)) (n : nat) : Z * Z := nth n ((0, 0) :: pubs) (0, 0).
