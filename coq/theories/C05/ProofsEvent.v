(** C05 — things scheduled for a clock time begin in the buffer during which the clock reaches
    that time; cancellation; stop; the renderer's order. *)
From Coq Require Import ZArith QArith Qround Lia Lqa Bool List.
From KV Require Import Base.Outcome Base.Num Base.QLemmas C19.Model C19.ProofsTime C06.Model C06.Dur
  C05.Model C05.ProofsClock.
Import ListNotations.
Local Open Scope Q_scope.

(** ** list surgery *)
Lemma set_nth_length {A} (k : nat) (x : A) (l : list A) : length (set_nth k x l) = length l.
Proof. revert k. induction l as [|y l IH]; intros [|k]; cbn; try reflexivity. rewrite IH. reflexivity. Qed.
Lemma nth_error_set_nth_eq {A} (k : nat) (x : A) (l : list A) :
  (k < length l)%nat -> nth_error (set_nth k x l) k = Some x.
Proof. revert k. induction l as [|y l IH]; intros [|k] H; cbn in *; try lia; [reflexivity|]. apply IH. lia. Qed.
Lemma nth_error_set_nth_neq {A} (k j : nat) (x : A) (l : list A) :
  j <> k -> nth_error (set_nth k x l) j = nth_error l j.
Proof.
  revert k j. induction l as [|y l IH]; intros [|k] [|j] H; cbn; try reflexivity; try congruence.
  apply IH. congruence.
Qed.

Section Event.
  Variable powf : Q -> Q -> Q.

  (** the clock [c] resolves in this [info] *)
  Definition resolves (i : info Q) (c : nat) : Prop := exists x, nth_error (i_clocks i) c = Some (Some x).
  (** the clock [c] is ticking and has reached [tau] *)
  Definition due (i : info Q) (c : nat) (tau : Q) : Prop :=
    exists tk fr, nth_error (i_clocks i) c = Some (Some (true, tk, fr)) /\ tau <= inject_Z tk + fr.
  Definition info_frac_ok (i : info Q) (c : nat) : Prop :=
    match nth_error (i_clocks i) c with Some (Some (_, _, fr)) => 0 <= fr /\ fr < 1 | _ => True end.

  Lemma ge_of_compare (a b : Q) :
    (match Some (a ?= b) with Some Gt | Some Eq => true | _ => false end = true) <-> b <= a.
  Proof.
    destruct (a ?= b) eqn:E.
    - apply Qeq_alt in E. split; [intros _; lra|reflexivity].
    - apply Qlt_alt in E. split; [discriminate|intro; lra].
    - apply Qgt_alt in E. split; [intros _; lra|reflexivity].
  Qed.

  Lemma when_to_start_spec (i : info Q) (c : nat) (tk : Z) (fr : Q) :
    info_frac_ok i c -> 0 <= fr -> fr < 1 ->
    (when_to_start i c tk fr = Now <-> due i c (inject_Z tk + fr)) /\
    (when_to_start i c tk fr = Never <-> ~ resolves i c).
  Proof.
    intros Hok F0 F1. unfold when_to_start, due, resolves, info_frac_ok in *.
    destruct (nth_error (i_clocks i) c) as [[[[tkg ctk] cfr]|]|] eqn:E.
    - destruct Hok as [C0 C1].
      rewrite (ct_cmp_spec {| ticks := ctk; fraction := cfr |} {| ticks := tk; fraction := fr |}) by (split; assumption).
      unfold ProofsTime.value. cbn [ticks fraction].
      pose proof (ge_of_compare (inject_Z ctk + cfr) (inject_Z tk + fr)) as G.
      destruct (match Some (inject_Z ctk + cfr ?= inject_Z tk + fr) with Some Gt | Some Eq => true | _ => false end) eqn:B.
      + destruct tkg; cbn [andb].
        * split; [split; [intros _|reflexivity]|split; [discriminate|]].
          -- exists ctk, cfr. split; [reflexivity|]. apply G. reflexivity.
          -- intro H. exfalso. apply H. eexists. reflexivity.
        * split; [split; [discriminate|]|split; [discriminate|]].
          -- intros (a & b & Ha & _). inversion Ha.
          -- intro H. exfalso. apply H. eexists. reflexivity.
      + rewrite andb_false_r.
        split; [split; [discriminate|]|split; [discriminate|]].
        * intros (a & b & Ha & Hb). inversion Ha as [[H1 H2 H3]]. rewrite <- H2, <- H3 in Hb. apply G in Hb. discriminate.
        * intro H. exfalso. apply H. eexists. reflexivity.
    - split; split.
      + discriminate.
      + intros (a & b & Ha & _). discriminate.
      + intros _ (x & Hx). discriminate.
      + intros _. reflexivity.
    - split; split.
      + discriminate.
      + intros (a & b & Ha & _). discriminate.
      + intros _ (x & Hx). discriminate.
      + intros _. reflexivity.
  Qed.

  (** a ticking clock that is not yet due is strictly short of the time *)
  Lemma not_due_short (i : info Q) (c : nat) (tau : Q) (tk : Z) (fr : Q) :
    nth_error (i_clocks i) c = Some (Some (true, tk, fr)) -> ~ due i c tau -> inject_Z tk + fr < tau.
  Proof.
    intros E N. apply Qnot_le_lt. intro L. apply N. exists tk, fr. split; assumption.
  Qed.
  (** a paused clock is never due *)
  Lemma paused_not_due (i : info Q) (c : nat) (tau : Q) (tk : Z) (fr : Q) :
    nth_error (i_clocks i) c = Some (Some (false, tk, fr)) -> ~ due i c tau.
  Proof. intros E (a & b & Ha & _). rewrite E in Ha. inversion Ha. Qed.

  (** ** a waiter over the chunks of a history: (dt, info after the clocks' update, first frame) *)
  Fixpoint wait_run (w : waiter Q) (l : list (Q * info Q * Z)) : outcome (waiter Q) :=
    match l with
    | [] => Ok w
    | (dt, i, f) :: l' => let! w' := waiter_update w dt i f in wait_run w' l'
    end.
  Definition pending (c : nat) (tau : Q) (x : Q * info Q * Z) : Prop :=
    let '(_, i, _) := x in info_frac_ok i c /\ resolves i c /\ ~ due i c tau.

  Lemma settled_forever (w : waiter Q) (l : list (Q * info Q * Z)) :
    w_state w <> WWaiting -> wait_run w l = Ok w.
  Proof.
    intro H. induction l as [|[[dt i] f] l IH]; [reflexivity|].
    cbn [wait_run]. unfold waiter_update. destruct (w_state w); [contradiction| |]; cbn [obind]; exact IH.
  Qed.

  Lemma sound_step (k : wkind) (c : nat) (tk : Z) (fr : Q) (dt : Q) (i : info Q) (f : Z) :
    info_frac_ok i c -> 0 <= fr -> fr < 1 ->
    let w := {| w_kind := k; w_start := ClockT c tk fr; w_state := WWaiting |} in
    let tau := inject_Z tk + fr in
    (due i c tau -> exists st, waiter_update w dt i f = Ok {| w_kind := k; w_start := st; w_state := WBegun f |}) /\
    (resolves i c -> ~ due i c tau -> waiter_update w dt i f = Ok w) /\
    (~ resolves i c -> waiter_update w dt i f =
        Ok (match k with WSound => {| w_kind := k; w_start := ClockT c tk fr; w_state := WStopped |} | WTween => w end)).
  Proof.
    intros Hok F0 F1 w tau. destruct (when_to_start_spec i c tk fr Hok F0 F1) as [[N1 N2] [V1 V2]]. fold tau in N1, N2.
    unfold waiter_update, w. cbn [w_state w_kind w_start start_update].
    destruct (when_to_start i c tk fr) eqn:W.
    - specialize (N1 eq_refl). split; [|split].
      + intros _. destruct k; cbn [obind]; eexists; reflexivity.
      + intros _ H. contradiction.
      + intro H. exfalso. apply H. destruct N1 as (a & b & Ha & _). eexists. exact Ha.
    - split; [|split].
      + intro D. apply N2 in D. discriminate.
      + intros _ _. destruct k; reflexivity.
      + intro H. apply V2 in H. discriminate.
    - specialize (V1 eq_refl). split; [|split].
      + intro D. apply N2 in D. discriminate.
      + intro H. contradiction.
      + intros _. destruct k; reflexivity.
  Qed.

  (** The event-buffer rule.  Something waiting for clock time [tau] on clock [c]:
      (a) stays waiting through every chunk after which the clock resolves but is paused or short of [tau];
      (b) begins exactly at the first chunk [k*] after whose clock update the clock is ticking and
          [T_k* >= tau] — at the first frame of that chunk; and if the clock was ticking in the
          chunk before, then [T_(k*-1) < tau <= T_k*] ([not_due_short]): at most one buffer early, never late;
      (c) a sound / resume is cancelled (Stopped) at the first chunk in which the clock does not resolve;
          a tween just keeps waiting. *)
  Lemma event_buffer_lemma (k : wkind) (c : nat) (tk : Z) (fr : Q) (l1 : list (Q * info Q * Z)) :
    0 <= fr -> fr < 1 ->
    let w := {| w_kind := k; w_start := ClockT c tk fr; w_state := WWaiting |} in
    let tau := inject_Z tk + fr in
    Forall (pending c tau) l1 ->
    wait_run w l1 = Ok w /\
    (forall dt i f l2, info_frac_ok i c -> due i c tau ->
       exists st, wait_run w (l1 ++ (dt, i, f) :: l2) = Ok {| w_kind := k; w_start := st; w_state := WBegun f |}) /\
    (forall dt i f l2, info_frac_ok i c -> ~ resolves i c ->
       match k with
       | WSound => wait_run w (l1 ++ (dt, i, f) :: l2) = Ok {| w_kind := k; w_start := ClockT c tk fr; w_state := WStopped |}
       | WTween => wait_run w (l1 ++ [(dt, i, f)]) = Ok w
       end).
  Proof.
    intros F0 F1 w tau HP.
    assert (A : forall rest, wait_run w (l1 ++ rest) = wait_run w rest).
    { induction HP as [|[[dt i] f] l (Hok & Hr & Hn) Hl IH]; intro rest; [reflexivity|].
      cbn [app wait_run]. destruct (sound_step k c tk fr dt i f Hok F0 F1) as [_ [S _]].
      fold w tau in S. rewrite (S Hr Hn). cbn [obind]. apply IH. }
    split; [|split].
    - rewrite <- (app_nil_r l1). rewrite A. reflexivity.
    - intros dt i f l2 Hok D. rewrite A. cbn [wait_run].
      destruct (sound_step k c tk fr dt i f Hok F0 F1) as [S _]. fold w tau in S. destruct (S D) as [st E].
      rewrite E. cbn [obind]. exists st. apply settled_forever. cbn. discriminate.
    - intros dt i f l2 Hok N.
      destruct (sound_step k c tk fr dt i f Hok F0 F1) as [_ [_ S]]. fold w in S. specialize (S N).
      destruct k.
      + rewrite A. cbn [wait_run]. rewrite S. cbn [obind]. apply settled_forever. cbn. discriminate.
      + rewrite A. cbn [wait_run]. rewrite S. reflexivity.
  Qed.

  (** ** the renderer's order: the waiters of a chunk see the clocks AFTER that chunk's advance *)
  Lemma chunk_order (y y' : sys Q) (frames : Z) :
    sys_chunk powf y frames = Ok y' ->
    let d := nmul (y_dt y) (nofZ frames) in
    clocks_update powf (y_slots y) d = Ok (y_slots y') /\
    waiters_update (y_waiters y) d (info_of (y_slots y')) (y_frames y) = Ok (y_waiters y') /\
    y_frames y' = (y_frames y + frames)%Z.
  Proof.
    unfold sys_chunk. intro H. cbn zeta.
    destruct (clocks_update powf (y_slots y) (nmul (y_dt y) (nofZ frames))) as [slots| |]; cbn [obind] in H; try discriminate.
    destruct (waiters_update (y_waiters y) (nmul (y_dt y) (nofZ frames)) (info_of slots) (y_frames y)) as [ws| |] eqn:W;
      cbn [obind] in H; try discriminate.
    inversion H. subst y'. cbn [y_slots y_waiters y_frames]. repeat split. exact W.
  Qed.

  (** what [info_of] shows for a clock id *)
  Lemma info_of_nth (slots : list (slot Q)) (c : nat) :
    nth_error (i_clocks (info_of slots)) c = option_map slot_info (nth_error slots c).
  Proof. unfold info_of. cbn [i_clocks]. apply nth_error_map. Qed.

  (** a dropped handle: at the next [on_start_processing] the clock is gone and no longer resolves *)
  Lemma dropped_clock_gone (slots : list (slot Q)) (c : nat) (s : slot Q) :
    nth_error slots c = Some s -> sl_life s = Live -> sl_marked s = true ->
    ~ resolves (info_of (map slot_on_start slots)) c.
  Proof.
    intros E L M (x & Hx). rewrite info_of_nth, nth_error_map, E in Hx. cbn [option_map] in Hx.
    unfold slot_on_start, slot_info in Hx. rewrite L, M in Hx. cbn in Hx. discriminate.
  Qed.

  (** ** stop: the handle reads (0, 0.0) at once; after the next [on_start_processing] the clock is
      [NotStarted], not ticking, and reads (0, 0.0) *)
  Lemma stop_resets_lemma (y : sys Q) (c : nat) (s : slot Q) :
    nth_error (y_slots y) c = Some s -> sl_life s = Live -> sl_marked s = false ->
    exists y1 y2 s2,
      sys_step powf y (OStop c) = Ok y1 /\
      handle_view y1 c = Some (s_ticking (sl_shared s), 0%Z, 0) /\
      sys_step powf y1 OStartProcessing = Ok y2 /\
      handle_view y2 c = Some (false, 0%Z, 0) /\
      nth_error (y_slots y2) c = Some s2 /\
      c_state (sl_clock s2) = NotStarted /\ c_ticking (sl_clock s2) = false.
  Proof.
    intros E L M.
    assert (Hlen : (c < length (y_slots y))%nat) by (apply nth_error_Some; congruence).
    cbn [sys_step]. unfold upd_slot. rewrite E.
    eexists. eexists. eexists. split; [reflexivity|].
    split.
    { unfold handle_view. cbn [y_slots]. rewrite nth_error_set_nth_eq by exact Hlen. reflexivity. }
    split; [reflexivity|].
    unfold handle_view. cbn [y_slots]. rewrite nth_error_map, nth_error_set_nth_eq by exact Hlen. cbn [option_map].
    unfold slot_on_start. cbn [sl_life sl_marked sl_cmds sl_clock sl_shared]. rewrite L, M.
    cbn [clock_on_start k_reset k_ticking c_state state_time sl_shared s_ticking s_ticks s_frac sl_clock c_ticking].
    split; [reflexivity|]. split; [reflexivity|]. split; reflexivity.
  Qed.
End Event.

(** non-vacuity of the hypotheses of [event_buffer_lemma]: a clock ticking at (0, 1/2) is pending for
    tau = 1 and due for tau = 1/4; a paused clock past tau is pending too *)
Example pending_example :
  let i := {| i_clocks := [Some (true, 0%Z, 1 # 2); Some (false, 7%Z, 0)]; i_mods := []; i_dist := None |} in
  pending 0 1 (1 # 8, i, 0%Z) /\ due i 0 (1 # 4) /\ info_frac_ok i 0 /\ pending 1 1 (1 # 8, i, 0%Z).
Proof.
  cbn zeta. split; [|split; [|split]].
  - split; [cbn; split; lra|]. split; [eexists; reflexivity|].
    intros (tk & fr & E & L). cbn in E. inversion E. subst tk fr. change (inject_Z 0) with 0 in L. lra.
  - exists 0%Z, (1 # 2). split; [reflexivity|change (inject_Z 0) with 0; lra].
  - cbn. split; lra.
  - split; [cbn; split; lra|]. split; [eexists; reflexivity|].
    intros (tk & fr & E & L). cbn in E. inversion E.
Qed.

(** non-vacuity: a sound scheduled for tick 1 of a clock at 8 ticks/s, 512 Hz, buffers of 16 frames:
    T_k = (k+1)/4, so it begins in chunk 3 = device frame 48 *)
Example event_example :
  let ops := [OAddClock (TicksPerSecond 8); OStart 0; OWait WSound (ClockT 0 1 0); OStartProcessing; OProcess 200] in
  exists y, sys_run (fun _ _ => 0) (sys_new 512 16) ops = Ok y /\
            map (@w_state Q) (y_waiters y) = [WBegun 48].
Proof. eexists. split; vm_compute; reflexivity. Qed.
