(** C05 — exact audio time: the tick loop and [Clock::update] in exact (rational) arithmetic. *)
From Coq Require Import ZArith QArith Qround Lia Lqa Bool List.
From KV Require Import Base.Outcome Base.Num Base.QLemmas C19.Model C19.ProofsTime C19.ProofsEasing
  C06.Model C06.Dur C05.Model.
Import ListNotations.
Local Open Scope Q_scope.

(** ** facts that hold for every number type: a paused clock, stop *)
Section AnyNum.
  Context {T : Type} {NT : Num T} {ND : NumDur T}.
  Variable powf : T -> T -> T.

  Lemma paused_frozen_any (c c' : clock T) (dt : T) (i : info T) :
    c_ticking c = false -> clock_update powf c dt i = Ok c' ->
    c_state c' = c_state c /\ c_ticking c' = false.
  Proof.
    intros Ht. unfold clock_update.
    destruct (param_update powf (cspeed T) cspeed_interpolate (c_speed c) dt i) as [[sp fin]| |]; cbn [obind]; try discriminate.
    rewrite Ht. cbn [negb]. intro H. inversion H. split; reflexivity.
  Qed.

  Lemma on_start_stop (c : clock T) (k : cmds T) :
    k_reset k = true -> k_ticking k = Some false ->
    c_state (clock_on_start c k) = NotStarted /\ c_ticking (clock_on_start c k) = false /\
    state_time (c_state (clock_on_start c k)) = (0%Z, n0).
  Proof. intros Hr Ht. unfold clock_on_start. rewrite Hr, Ht. repeat split. Qed.
End AnyNum.

Definition qsum (l : list Q) : Q := fold_right Qplus 0 l.

Section Clock.
  Variable powf : Q -> Q -> Q.
  Notation clockQ := (clock Q).
  Notation sparam := (param Q (cspeed Q)).

  (** the clock's time as one number *)
  Definition time_of (s : cstate Q) : Q := inject_Z (fst (state_time s)) + snd (state_time s).
  Definition state_ok (s : cstate Q) : Prop :=
    match s with NotStarted => True | Started tk fr => (0 <= tk)%Z /\ 0 <= fr /\ fr < 1 end.

  Lemma Qfloor_Qred q : Qfloor (Qred q) = Qfloor q.
  Proof. apply Qfloor_comp. apply Qred_correct. Qed.

  Lemma Qfloor_sub1 q : Qfloor (q - 1) = (Qfloor q - 1)%Z.
  Proof.
    destruct (Qfloor_bounds q) as [A B]. apply Qfloor_unique.
    - unfold Z.sub. rewrite inject_Z_plus, inject_Z_opp. change (inject_Z 1) with 1. lra.
    - unfold Z.sub. rewrite inject_Z_plus, inject_Z_opp. change (inject_Z 1) with 1. lra.
  Qed.

  (** COUNTER-MODEL (before the F7 repair).  The tick loop terminates after [floor timer] iterations
      and splits the timer exactly. *)
  Lemma tick_loop_old_spec (fuel : nat) : forall (tk : Z) (timer : Q),
    0 <= timer -> (Z.to_nat (Qfloor timer) < fuel)%nat -> (0 <= tk)%Z -> (tk + Qfloor timer <= u64_max)%Z ->
    exists fr, tick_loop_old fuel tk timer = Ok ((tk + Qfloor timer)%Z, fr) /\
               fr == timer - inject_Z (Qfloor timer) /\ 0 <= fr /\ fr < 1.
  Proof.
    induction fuel as [|f IH]; intros tk timer H0 Hf Htk Hmax; [lia|].
    cbn [tick_loop_old]. change (nleb n1 timer) with (Qle_bool 1 timer).
    destruct (Qle_bool 1 timer) eqn:E.
    - apply Qle_bool_iff in E.
      assert (F1 : (1 <= Qfloor timer)%Z).
      { change 1%Z with (Qfloor 1). apply Qfloor_resp_le. exact E. }
      unfold add_chk. destruct (Z.gtb_spec (tk + 1) u64_max) as [G|G]; [lia|]. cbn [obind].
      change (nsub timer n1) with (Qred (timer - 1)).
      assert (F2 : Qfloor (Qred (timer - 1)) = (Qfloor timer - 1)%Z) by (rewrite Qfloor_Qred; apply Qfloor_sub1).
      destruct (IH (tk + 1)%Z (Qred (timer - 1))) as [fr [R [V [L U]]]].
      + rewrite Qred_correct. lra.
      + rewrite F2. lia.
      + lia.
      + rewrite F2. lia.
      + exists fr. rewrite F2 in R, V.
        replace (tk + Qfloor timer)%Z with (tk + 1 + (Qfloor timer - 1))%Z by lia.
        split; [exact R|]. split; [|split; assumption].
        rewrite V, Qred_correct. unfold Z.sub. rewrite inject_Z_plus, inject_Z_opp. change (inject_Z 1) with 1. ring.
    - apply Qle_bool_false in E.
      assert (F : Qfloor timer = 0%Z) by (apply Qfloor_unique; change (inject_Z 0) with 0; lra).
      exists timer. rewrite F, Z.add_0_r. split; [reflexivity|]. split; [|split; assumption].
      change (inject_Z 0) with 0. ring.
  Qed.

  (** The tick split of the repaired [Clock::update]: no loop, no fuel, no overflow; the timer is
      split exactly into [floor timer] whole ticks (the count saturating at [u64::MAX]) and a
      fraction in [0,1). *)
  Lemma tick_update_spec (tk : Z) (timer : Q) :
    0 <= timer -> (0 <= tk <= u64_max)%Z ->
    exists fr, tick_update tk timer = (Z.min u64_max (tk + Qfloor timer), fr) /\
               fr == timer - inject_Z (Qfloor timer) /\ 0 <= fr /\ fr < 1.
  Proof.
    intros H0 Htk. unfold tick_update. change (nleb n1 timer) with (Qle_bool 1 timer).
    destruct (Qfloor_bounds timer) as [B1 B2].
    destruct (Qle_bool 1 timer) eqn:E.
    - apply Qle_bool_iff in E.
      assert (F1 : (1 <= Qfloor timer)%Z).
      { change 1%Z with (Qfloor 1). apply Qfloor_resp_le. exact E. }
      cbn [nisfinite nfloor ntoU64 nsub Num_Q].
      rewrite Qtruncz_inject. exists (Qred (timer - inject_Z (Qfloor timer))).
      split; [f_equal; unfold u64_max in *; lia|]. rewrite Qred_correct. split; [reflexivity|]. split; lra.
    - apply Qle_bool_false in E.
      assert (F : Qfloor timer = 0%Z) by (apply Qfloor_unique; change (inject_Z 0) with 0; lra).
      exists timer. rewrite F, Z.add_0_r, Z.min_r by lia. split; [reflexivity|]. split; [|split; assumption].
      change (inject_Z 0) with 0. ring.
  Qed.
  (** below the saturation point: exactly what the old loop returned, for every amount of fuel
      that let it finish *)
  Lemma tick_update_agrees_with_loop_Q (fuel : nat) (tk : Z) (timer : Q) :
    0 <= timer -> (Z.to_nat (Qfloor timer) < fuel)%nat -> (0 <= tk)%Z -> (tk + Qfloor timer <= u64_max)%Z ->
    exists fr fr', tick_loop_old fuel tk timer = Ok ((tk + Qfloor timer)%Z, fr) /\
                   tick_update tk timer = ((tk + Qfloor timer)%Z, fr') /\ fr == fr'.
  Proof.
    intros H0 Hf Htk Hmax.
    destruct (tick_loop_old_spec fuel tk timer H0 Hf Htk Hmax) as [fr [R [V _]]].
    assert (F0 : (0 <= Qfloor timer)%Z) by (change 0%Z with (Qfloor 0); apply Qfloor_resp_le; exact H0).
    destruct (tick_update_spec tk timer H0) as [fr' [R' [V' _]]]; [lia|].
    rewrite Z.min_r in R' by lia.
    exists fr, fr'. split; [exact R|]. split; [exact R'|]. rewrite V, V'. reflexivity.
  Qed.

  Lemma state_time_ok s : state_ok s -> (0 <= fst (state_time s))%Z /\ 0 <= snd (state_time s) /\ snd (state_time s) < 1.
  Proof. destruct s as [|tk fr]; cbn; [intros _; split; [lia|split; lra]|tauto]. Qed.

  (** the model's own increment term and its plain value *)
  Definition inc_of (sp : cspeed Q) (dt : Q) : Q := nmul (as_tps sp) dt.
  Lemma inc_of_eq sp dt : inc_of sp dt == as_tps sp * dt.
  Proof. unfold inc_of. cbn [nmul Num_Q]. apply Qred_correct. Qed.

  (** one update of a ticking clock: time advances by exactly speed * dt *)
  Lemma clock_update_ticking (c : clockQ) (dt : Q) (i : info Q) (sp : sparam) (fin : bool) :
    c_ticking c = true -> state_ok (c_state c) ->
    param_update powf (cspeed Q) cspeed_interpolate (c_speed c) dt i = Ok (sp, fin) ->
    let inc := inc_of (p_raw sp) dt in
    0 <= inc -> time_of (c_state c) + inc < inject_Z (2 ^ 64) ->
    exists c', clock_update powf c dt i = Ok c' /\ c_ticking c' = true /\ c_speed c' = sp /\
               state_ok (c_state c') /\ c_state c' <> NotStarted /\
               time_of (c_state c') == time_of (c_state c) + inc.
  Proof.
    intros Ht Hok Hp inc Hinc Hmax. unfold clock_update. rewrite Hp. cbn [obind]. rewrite Ht. cbn [negb].
    destruct (state_time_ok _ Hok) as [Z0 [F0 F1]]. unfold time_of in *.
    destruct (state_time (c_state c)) as [tk fr]. cbn [fst snd] in *.
    fold (inc_of (p_raw sp) dt). fold inc.
    change (nadd fr inc) with (Qred (fr + inc)).
    assert (Tm : Qred (fr + inc) == fr + inc) by apply Qred_correct.
    destruct (Qfloor_bounds (Qred (fr + inc))) as [B1 B2].
    assert (P0 : (0 <= Qfloor (Qred (fr + inc)))%Z) by (change 0%Z with (Qfloor 0); apply Qfloor_resp_le; rewrite Tm; lra).
    assert (A : (tk + Qfloor (Qred (fr + inc)) < 2 ^ 64)%Z).
    { rewrite Zlt_Qlt, inject_Z_plus. lra. }
    destruct (tick_update_spec tk (Qred (fr + inc))) as [fr' [R [V [L U]]]].
    - rewrite Tm. lra.
    - unfold u64_max. lia.
    - rewrite R. rewrite Z.min_r by (unfold u64_max; lia).
      eexists. split; [reflexivity|]. cbn [c_ticking c_speed c_state state_time fst snd state_ok].
      split; [reflexivity|]. split; [reflexivity|]. split.
      + split; [lia|split; assumption].
      + split; [discriminate|]. rewrite V, inject_Z_plus. lra.
  Qed.

  (** ** every list of updates (= every partition of audio time into callbacks and chunks) *)
  Fixpoint clock_run (c : clockQ) (l : list (Q * info Q)) : outcome clockQ :=
    match l with
    | [] => Ok c
    | (dt, i) :: l' => let! c' := clock_update powf c dt i in clock_run c' l'
    end.
  (** the clock's advance at each update: (speed parameter's value at that update) * dt, the
      parameter being run by the C06 model *)
  Fixpoint increments (p : sparam) (l : list (Q * info Q)) : outcome (list Q) :=
    match l with
    | [] => Ok []
    | (dt, i) :: l' =>
        let! (p', _) := param_update powf (cspeed Q) cspeed_interpolate p dt i in
        let! r := increments p' l' in Ok (inc_of (p_raw p') dt :: r)
    end.

  Lemma qsum_nonneg l : Forall (fun x => 0 <= x) l -> 0 <= qsum l.
  Proof. induction 1 as [|x l Hx Hl IH]; cbn [qsum fold_right]; [lra|]. fold (qsum l). lra. Qed.

  Lemma clock_run_exact (l : list (Q * info Q)) : forall (c : clockQ) (incs : list Q),
    c_ticking c = true -> state_ok (c_state c) ->
    increments (c_speed c) l = Ok incs -> Forall (fun x => 0 <= x) incs ->
    time_of (c_state c) + qsum incs < inject_Z (2 ^ 64) ->
    exists c', clock_run c l = Ok c' /\ c_ticking c' = true /\ state_ok (c_state c') /\
               time_of (c_state c') == time_of (c_state c) + qsum incs.
  Proof.
    induction l as [|[dt i] l IH]; intros c incs Ht Hok Hincs Hpos Hmax.
    - cbn in Hincs. inversion Hincs. subst incs. exists c. cbn. repeat split; try assumption. ring.
    - cbn [increments] in Hincs.
      destruct (param_update powf (cspeed Q) cspeed_interpolate (c_speed c) dt i) as [[sp fin]| |] eqn:Hp; cbn [obind] in Hincs; try discriminate.
      destruct (increments sp l) as [r| |] eqn:Hr; cbn [obind] in Hincs; try discriminate.
      inversion Hincs. subst incs. clear Hincs.
      inversion Hpos as [|x xs Hx Hxs]. subst x xs. pose proof (qsum_nonneg _ Hxs) as Hs.
      cbn [qsum fold_right] in Hmax. fold (qsum r) in Hmax.
      destruct (clock_update_ticking c dt i sp fin Ht Hok Hp) as [c1 [U [T1 [S1 [O1 [_ V1]]]]]].
      + exact Hx.
      + lra.
      + destruct (IH c1 r T1 O1) as [c' [R [T2 [O2 V2]]]].
        * rewrite S1. exact Hr.
        * exact Hxs.
        * rewrite V1. lra.
        * exists c'. cbn [clock_run]. rewrite U. cbn [obind]. split; [exact R|]. split; [exact T2|]. split; [exact O2|].
          rewrite V2, V1. cbn [qsum fold_right]. fold (qsum r). ring.
  Qed.

  (** ** constant speed *)
  Definition constant_speed (p : sparam) : Prop := p_stagnant p = true.
  Lemma increments_constant (l : list (Q * info Q)) : forall p : sparam,
    constant_speed p -> increments p l = Ok (map (fun x => inc_of (p_raw p) (fst x)) l).
  Proof.
    induction l as [|[dt i] l IH]; intros p Hc; [reflexivity|].
    cbn [increments map fst]. unfold param_update. rewrite Hc. cbn [obind].
    rewrite IH by reflexivity. cbn [obind p_raw]. reflexivity.
  Qed.
  Lemma qsum_scaled (r : Q) (sp : cspeed Q) (l : list (Q * info Q)) :
    as_tps sp == r -> qsum (map (fun x => inc_of sp (fst x)) l) == r * qsum (map fst l).
  Proof.
    intro E. induction l as [|[dt i] l IH]; cbn [map qsum fold_right fst]; [ring|].
    fold (qsum (map (fun x => inc_of sp (fst x)) l)). fold (qsum (map fst l)).
    rewrite IH, inc_of_eq, E. ring.
  Qed.

  Lemma clock_exact_time_lemma (c : clockQ) (l : list (Q * info Q)) :
    c_ticking c = true -> state_ok (c_state c) -> constant_speed (c_speed c) ->
    let r := as_tps (p_raw (c_speed c)) in
    let t := qsum (map fst l) in
    0 <= r -> Forall (fun x => 0 <= fst x) l ->
    time_of (c_state c) + r * t < inject_Z (2 ^ 64) ->
    exists c', clock_run c l = Ok c' /\ c_ticking c' = true /\ state_ok (c_state c') /\
               time_of (c_state c') == time_of (c_state c) + r * t.
  Proof.
    intros Ht Hok Hc r t Hr Hl Hmax.
    pose proof (qsum_scaled r (p_raw (c_speed c)) l (Qeq_refl _)) as E. fold t in E.
    destruct (clock_run_exact l c _ Ht Hok (increments_constant l _ Hc)) as [c' [R [T1 [O1 V1]]]].
    - clear - Hr Hl. induction Hl as [|[dt i] l Hd Hl IH]; cbn [map]; constructor; [|exact IH].
      cbn [fst] in *. rewrite inc_of_eq. fold r. apply Qmult_le_0_compat; assumption.
    - rewrite E. exact Hmax.
    - exists c'. split; [exact R|]. split; [exact T1|]. split; [exact O1|]. rewrite V1, E. reflexivity.
  Qed.

  (** the pair (ticks, fraction) is determined by the time *)
  Lemma state_time_unique (s1 s2 : cstate Q) :
    state_ok s1 -> state_ok s2 -> time_of s1 == time_of s2 ->
    fst (state_time s1) = fst (state_time s2) /\ snd (state_time s1) == snd (state_time s2).
  Proof.
    intros O1 O2 E. destruct (state_time_ok _ O1) as [A1 [B1 C1]]. destruct (state_time_ok _ O2) as [A2 [B2 C2]].
    unfold time_of in E. destruct (state_time s1) as [t1 f1], (state_time s2) as [t2 f2]. cbn [fst snd] in *.
    assert (t1 = t2).
    { assert (L1 : (t1 < t2 + 1)%Z) by (rewrite Zlt_Qlt, inject_Z_plus; change (inject_Z 1) with 1; lra).
      assert (L2 : (t2 < t1 + 1)%Z) by (rewrite Zlt_Qlt, inject_Z_plus; change (inject_Z 1) with 1; lra). lia. }
    subst t2. split; [reflexivity|]. lra.
  Qed.

  (** partition independence: equal audio time, however split, gives the same clock time *)
  Lemma partition_independent_lemma (c : clockQ) (l1 l2 : list (Q * info Q)) :
    c_ticking c = true -> state_ok (c_state c) -> constant_speed (c_speed c) ->
    let r := as_tps (p_raw (c_speed c)) in
    0 <= r -> Forall (fun x => 0 <= fst x) l1 -> Forall (fun x => 0 <= fst x) l2 ->
    qsum (map fst l1) == qsum (map fst l2) ->
    time_of (c_state c) + r * qsum (map fst l1) < inject_Z (2 ^ 64) ->
    exists c1 c2, clock_run c l1 = Ok c1 /\ clock_run c l2 = Ok c2 /\
                  fst (state_time (c_state c1)) = fst (state_time (c_state c2)) /\
                  snd (state_time (c_state c1)) == snd (state_time (c_state c2)).
  Proof.
    intros Ht Hok Hc r Hr H1 H2 E Hmax.
    destruct (clock_exact_time_lemma c l1 Ht Hok Hc Hr H1 Hmax) as [c1 [R1 [_ [O1 V1]]]].
    destruct (clock_exact_time_lemma c l2 Ht Hok Hc Hr H2) as [c2 [R2 [_ [O2 V2]]]].
    - fold r. rewrite <- E. exact Hmax.
    - exists c1, c2. split; [exact R1|]. split; [exact R2|].
      apply state_time_unique; [exact O1|exact O2|]. rewrite V1, V2. fold r. rewrite E. reflexivity.
  Qed.

  (** a paused clock is frozen for every list of updates *)
  Lemma paused_frozen_run (l : list (Q * info Q)) : forall (c c' : clockQ),
    c_ticking c = false -> clock_run c l = Ok c' -> c_state c' = c_state c /\ c_ticking c' = false.
  Proof.
    induction l as [|[dt i] l IH]; intros c c' Ht R.
    - cbn in R. inversion R. subst c'. split; [reflexivity|exact Ht].
    - cbn [clock_run] in R. destruct (clock_update powf c dt i) as [c1| |] eqn:U; cbn [obind] in R; try discriminate.
      destruct (paused_frozen_any powf c c1 dt i Ht U) as [S1 T1].
      destruct (IH c1 c' T1 R) as [S2 T2]. split; [congruence|exact T2].
  Qed.
End Clock.

(** non-vacuity: a clock at 3/8 ticks per second, three unequal updates summing to 3 s: 1 tick + 1/8 *)
Example exact_time_example :
  let c := {| c_ticking := true; c_speed := param_new (Fixed (TicksPerSecond (3 # 8))) (TicksPerMinute 120);
              c_state := NotStarted |} in
  exists c', clock_run (fun _ _ => 0) c [(1 # 2, no_info); (2, no_info); (1 # 2, no_info)] = Ok c' /\
             c_state c' = Started 1 (1 # 8).
Proof. eexists. split; vm_compute; reflexivity. Qed.
