(** C05 — the pick-up order inside [Renderer::on_start_processing], as far as clocks and what waits
    for them are concerned (executable definitions only).

    The user's thread creates a clock ([AudioManager::add_clock] pushes it on the clocks' ring) and
    THEN gives a track something that refers to it ([play] of a sound with a clock start time pushes
    it on the track's sound ring).  The audio thread drains the two rings at two different moments of
    [on_start_processing] (renderer.rs: [mixer.on_start_processing()] drains the sounds,
    [clocks.on_start_processing()] the clocks) and then renders; a waiting sound that finds no clock
    under its id is cancelled ([Info::when_to_start] = [Never], start_time.rs).  The two threads
    interleave arbitrarily: a schedule says whose step comes next. *)
From Coq Require Import List Bool.
Import ListNotations.

Inductive astep := DrainSounds | DrainClocks | Render.
Inductive gstep := GAddClock | GPlay.
Inductive ptid := PAudio | PUser.

Record pst := {
  p_cq : bool;        (* the clock sits in the clocks' ring *)
  p_cl : bool;        (* the audio thread has the clock *)
  p_sq : bool;        (* the sound sits in the track's ring *)
  p_sl : bool;        (* the audio thread has the sound *)
  p_cancelled : bool; (* a buffer was rendered with the sound but without the clock: [Never] *)
  p_pc : nat;         (* position of the audio thread in its callback *)
  p_user : list gstep (* what the user's thread still has to do *)
}.

(** the audio thread's callback: an order of the two drains, then the buffer(s); repeated for ever *)
Definition callback (order : list astep) : list astep := order ++ [Render].
Definition kira_order : list astep := [DrainSounds; DrainClocks].   (* mixer first, clocks second *)
Definition swapped_order : list astep := [DrainClocks; DrainSounds].

Definition audio_step (cb : list astep) (s : pst) : pst :=
  let pc' := if Nat.ltb (S (p_pc s)) (length cb) then S (p_pc s) else O in
  match nth (p_pc s) cb Render with
  | DrainSounds =>
      {| p_cq := p_cq s; p_cl := p_cl s; p_sq := false; p_sl := p_sl s || p_sq s;
         p_cancelled := p_cancelled s; p_pc := pc'; p_user := p_user s |}
  | DrainClocks =>
      {| p_cq := false; p_cl := p_cl s || p_cq s; p_sq := p_sq s; p_sl := p_sl s;
         p_cancelled := p_cancelled s; p_pc := pc'; p_user := p_user s |}
  | Render =>
      {| p_cq := p_cq s; p_cl := p_cl s; p_sq := p_sq s; p_sl := p_sl s;
         p_cancelled := p_cancelled s || (p_sl s && negb (p_cl s)); p_pc := pc'; p_user := p_user s |}
  end.
Definition user_step (s : pst) : pst :=
  match p_user s with
  | [] => s
  | GAddClock :: u =>
      {| p_cq := true; p_cl := p_cl s; p_sq := p_sq s; p_sl := p_sl s;
         p_cancelled := p_cancelled s; p_pc := p_pc s; p_user := u |}
  | GPlay :: u =>
      {| p_cq := p_cq s; p_cl := p_cl s; p_sq := true; p_sl := p_sl s;
         p_cancelled := p_cancelled s; p_pc := p_pc s; p_user := u |}
  end.
Definition pstep (cb : list astep) (s : pst) (t : ptid) : pst :=
  match t with PAudio => audio_step cb s | PUser => user_step s end.
Definition prun (cb : list astep) (sched : list ptid) (s : pst) : pst := fold_left (pstep cb) sched s.

(** nothing exists yet; the audio thread is anywhere in its callback; the user will create the clock
    and then play the sound that waits for it *)
Definition pinit (pc : nat) : pst :=
  {| p_cq := false; p_cl := false; p_sq := false; p_sl := false; p_cancelled := false;
     p_pc := pc; p_user := [GAddClock; GPlay] |}.
