(** C05 — executable model of kira's clocks and of everything that waits for a clock time.
    Transcribed from crates/kira/src/{clock.rs (Clock::{new, default, on_start_processing,
    set_ticking, reset, update_shared, update}), clock/handle.rs (start / pause / stop / set_speed /
    time / ticking / Drop), info.rs (clock_info; when_to_start is C06.Model.when_to_start),
    start_time.rs (StartTime::update), backend/resources.rs (SelfReferentialResourceStorage::
    {remove_and_add, for_each}), backend/resources/clocks.rs, backend/renderer.rs
    (on_start_processing, process, process_chunk)}.
    The speed [Parameter<ClockSpeed>] is C06's [param] with [V = cspeed] and
    [interp = cspeed_interpolate] (interpolation in the target's unit).
    Generic over [Num]: the binary64 instance is compared bit-for-bit with the implementation,
    the rational instance carries the theorems.
    [Clock::update] is modelled as it is since the F7 repair ([tick_update]: floor, saturating cast,
    one subtraction; total, no fuel anywhere in this file's renderer); the tick LOOP it replaced is
    kept as the counter-model [tick_loop_old] / [clock_update_old] of the regression theorems. *)
From Coq Require Import ZArith List Bool.
From KV Require Import Base.Outcome Base.Num C19.Model C06.Model.
Import ListNotations.
Local Open Scope Z_scope.

Section Generic.
  Context {T : Type} {NT : Num T} {ND : NumDur T}.
  Variable powf : T -> T -> T.

  (** ** clock.rs *)
  Inductive cstate := NotStarted | Started (tk : Z) (fr : T).
  Record clock := { c_ticking : bool; c_speed : param T (cspeed T); c_state : cstate }.

  (** [Clock::new]: not ticking, [NotStarted], default raw speed 120 ticks per minute *)
  Definition clock_new (speed : value T (cspeed T)) : clock :=
    {| c_ticking := false; c_speed := param_new speed (TicksPerMinute (nofZ 120)); c_state := NotStarted |}.
  (** [Clock::default]: what [SelfReferentialResourceStorage] keeps as its dummy *)
  Definition dummy_clock : clock := clock_new (Fixed (TicksPerSecond n0)).

  (** The tick split of [Clock::update] as it is since the F7 repair:
      [if *tick_timer >= 1.0 { let whole_ticks = tick_timer.floor();
         *ticks = ticks.saturating_add(whole_ticks as u64);
         *tick_timer = if whole_ticks.is_finite() { *tick_timer - whole_ticks } else { 0.0 }; }]
      ([as u64] saturates and sends NaN to 0; no loop, no checked arithmetic: a total function;
      [NaN >= 1.0] is false, so a NaN or negative timer is left as it is) *)
  Definition tick_update (tk : Z) (timer : T) : Z * T :=
    if nleb n1 timer then
      let whole := nfloor timer in
      let tk' := Z.min u64_max (tk + ntoU64 whole) in
      let timer' := if nisfinite whole then nsub timer whole else n0 in
      (tk', timer')
    else (tk, timer).

  (** COUNTER-MODEL (the code before the repair, finding F7):
      [while *tick_timer >= 1.0 { *tick_timer -= 1.0; *ticks += 1; }] ([u64] addition is checked
      in debug builds); the trip count depends on the data, so: fuel, and [Hang] when it runs out *)
  Fixpoint tick_loop_old (fuel : nat) (tk : Z) (timer : T) : outcome (Z * T) :=
    if nleb n1 timer then
      match fuel with
      | O => Hang
      | S f => let timer' := nsub timer n1 in
               let! tk' := add_chk tk 1 in tick_loop_old f tk' timer'
      end
    else Ok (tk, timer).

  (** the time a clock shows: [NotStarted] reads as (0, 0.0) (Info::clock_info, update_shared) *)
  Definition state_time (s : cstate) : Z * T :=
    match s with NotStarted => (0, n0) | Started tk fr => (tk, fr) end.

  (** [Clock::update].  (Its return value, the new tick count, is discarded by [Clocks::update].) *)
  Definition clock_update (c : clock) (dt : T) (i : info T) : outcome clock :=
    let! (sp, _) := param_update powf (cspeed T) cspeed_interpolate (c_speed c) dt i in
    if negb (c_ticking c) then Ok {| c_ticking := false; c_speed := sp; c_state := c_state c |}
    else
      (* NotStarted becomes Started { 0, 0.0 } first *)
      let '(tk, fr) := state_time (c_state c) in
      let timer := nadd fr (nmul (as_tps (p_raw sp)) dt) in
      let '(tk', fr') := tick_update tk timer in
      Ok {| c_ticking := true; c_speed := sp; c_state := Started tk' fr' |}.

  (** COUNTER-MODEL: [Clock::update] before the repair, around [tick_loop_old] *)
  Definition clock_update_old (fuel : nat) (c : clock) (dt : T) (i : info T) : outcome clock :=
    let! (sp, _) := param_update powf (cspeed T) cspeed_interpolate (c_speed c) dt i in
    if negb (c_ticking c) then Ok {| c_ticking := false; c_speed := sp; c_state := c_state c |}
    else
      let '(tk, fr) := state_time (c_state c) in
      let timer := nadd fr (nmul (as_tps (p_raw sp)) dt) in
      let! (tk', fr') := tick_loop_old fuel tk timer in
      Ok {| c_ticking := true; c_speed := sp; c_state := Started tk' fr' |}.

  (** the three command slots of a clock handle (each a last-write-wins register, C07) *)
  Record cmds := { k_speed : option (value T (cspeed T) * tween T); k_ticking : option bool; k_reset : bool }.
  Definition no_cmds : cmds := {| k_speed := None; k_ticking := None; k_reset := false |}.

  (** [Clock::on_start_processing] without the stores to [ClockShared]: speed command,
      [set_ticking], [reset] — in this order *)
  Definition clock_on_start (c : clock) (k : cmds) : clock :=
    let sp := match k_speed k with Some (v, tw) => param_set (c_speed c) v tw | None => c_speed c end in
    let tkg := match k_ticking k with Some b => b | None => c_ticking c end in
    let st := if k_reset k then NotStarted else c_state c in
    {| c_ticking := tkg; c_speed := sp; c_state := st |}.

  (** [Info::clock_info] *)
  Definition clock_info_of (c : clock) : bool * Z * T :=
    let '(tk, fr) := state_time (c_state c) in (c_ticking c, tk, fr).

  (** ** [ClockShared] as seen sequentially (the interleaved view is C05/Shared.v) *)
  Record shared := { s_ticking : bool; s_ticks : Z; s_frac : T }.
  Definition shared_new : shared := {| s_ticking := false; s_ticks := 0; s_frac := n0 |}.

  (** ** the clock storage: ids are positions in insertion order (= the [keys] vector) *)
  Inductive life := Pending | Live | Gone.
  Record slot := { sl_life : life; sl_marked : bool; sl_clock : clock; sl_cmds : cmds; sl_shared : shared }.

  Definition slot_info (s : slot) : option (bool * Z * T) :=
    match sl_life s with Live => Some (clock_info_of (sl_clock s)) | _ => None end.
  Definition info_of (slots : list slot) : info T :=
    {| i_clocks := map slot_info slots; i_mods := []; i_dist := None |}.

  Fixpoint set_nth {A} (k : nat) (x : A) (l : list A) : list A :=
    match l, k with
    | [], _ => []
    | _ :: l', O => x :: l'
    | y :: l', S k' => y :: set_nth k' x l'
    end.

  (** what clock [k] sees while it is being updated: [for_each] has swapped it for the dummy *)
  Definition info_for (slots : list slot) (k : nat) : info T :=
    {| i_clocks := set_nth k (Some (clock_info_of dummy_clock)) (map slot_info slots);
       i_mods := []; i_dist := None |}.

  Definition with_clock (s : slot) (c : clock) : slot :=
    {| sl_life := sl_life s; sl_marked := sl_marked s; sl_clock := c; sl_cmds := sl_cmds s; sl_shared := sl_shared s |}.

  (** [Clocks::update] = [for_each] in key order; clocks earlier in the order have already advanced *)
  Fixpoint clocks_update_from (todo : list nat) (slots : list slot) (dt : T) : outcome (list slot) :=
    match todo with
    | [] => Ok slots
    | k :: todo' =>
        match nth_error slots k with
        | Some s =>
            match sl_life s with
            | Live =>
                let! c' := clock_update (sl_clock s) dt (info_for slots k) in
                clocks_update_from todo' (set_nth k (with_clock s c') slots) dt
            | _ => clocks_update_from todo' slots dt
            end
        | None => clocks_update_from todo' slots dt
        end
    end.
  Definition clocks_update (slots : list slot) (dt : T) : outcome (list slot) :=
    clocks_update_from (seq 0 (length slots)) slots dt.

  (** [Clocks::on_start_processing]: remove marked clocks, insert new ones, then per clock
      [Clock::on_start_processing] (commands, then [update_shared]) *)
  Definition slot_on_start (s : slot) : slot :=
    match sl_life s with
    | Gone => s
    | Live =>
        if sl_marked s then
          {| sl_life := Gone; sl_marked := true; sl_clock := sl_clock s; sl_cmds := sl_cmds s; sl_shared := sl_shared s |}
        else
          let c := clock_on_start (sl_clock s) (sl_cmds s) in
          let '(tk, fr) := state_time (c_state c) in
          {| sl_life := Live; sl_marked := false; sl_clock := c; sl_cmds := no_cmds;
             sl_shared := {| s_ticking := match k_ticking (sl_cmds s) with Some b => b | None => s_ticking (sl_shared s) end;
                             s_ticks := tk; s_frac := fr |} |}
    | Pending =>
        let c := clock_on_start (sl_clock s) (sl_cmds s) in
        let '(tk, fr) := state_time (c_state c) in
        {| sl_life := Live; sl_marked := sl_marked s; sl_clock := c; sl_cmds := no_cmds;
           sl_shared := {| s_ticking := match k_ticking (sl_cmds s) with Some b => b | None => s_ticking (sl_shared s) end;
                           s_ticks := tk; s_frac := fr |} |}
    end.

  (** ** start_time.rs: [StartTime::update]; the flag is [will_never_start] *)
  Definition start_update (st : stime T) (dt : T) (i : info T) : outcome (stime T * bool) :=
    match st with
    | Immediate => Ok (Immediate, false)
    | Delayed rem =>
        let! d := secs_to_ns dt in
        let rem' := sat_sub rem d in
        Ok (if rem' =? 0 then Immediate else Delayed rem', false)
    | ClockT c tk fr =>
        match when_to_start i c tk fr with
        | Now => Ok (Immediate, false)
        | Later => Ok (st, false)
        | Never => Ok (st, true)
        end
    end.

  (** something that waits: a sound start / a resume ([StartTime::update], latching, cancelled when
      the clock is gone) or a tween ([Parameter::update_tween]: re-evaluated at every update, never
      cancelled).  [WBegun f]: began at the chunk that starts at device frame [f]. *)
  Inductive wkind := WSound | WTween.
  Inductive wstate := WWaiting | WBegun (frame : Z) | WStopped.
  Record waiter := { w_kind : wkind; w_start : stime T; w_state : wstate }.

  Definition waiter_update (w : waiter) (dt : T) (i : info T) (frame : Z) : outcome waiter :=
    match w_state w with
    | WWaiting =>
        match w_kind w with
        | WSound =>
            let! (st, never) := start_update (w_start w) dt i in
            Ok {| w_kind := WSound; w_start := st;
                  w_state := if never then WStopped
                             else match st with Immediate => WBegun frame | _ => WWaiting end |}
        | WTween =>
            match w_start w with
            | ClockT c tk fr =>
                Ok (match when_to_start i c tk fr with
                    | Now => {| w_kind := WTween; w_start := w_start w; w_state := WBegun frame |}
                    | _ => w
                    end)
            | _ => Ok {| w_kind := WTween; w_start := w_start w; w_state := WBegun frame |}
            end
        end
    | _ => Ok w
    end.
  Fixpoint waiters_update (ws : list waiter) (dt : T) (i : info T) (frame : Z) : outcome (list waiter) :=
    match ws with
    | [] => Ok []
    | w :: ws' => let! w' := waiter_update w dt i frame in
                  let! r := waiters_update ws' dt i frame in Ok (w' :: r)
    end.

  (** ** the renderer *)
  Record sys := { y_slots : list slot; y_waiters : list waiter; y_frames : Z; y_dt : T; y_buf : Z }.
  Definition sys_new (sample_rate buf : Z) : sys :=
    {| y_slots := []; y_waiters := []; y_frames := 0; y_dt := ndiv n1 (nofZ sample_rate); y_buf := buf |}.

  (** [process_chunk]: the clocks advance by the whole chunk ([dt * num_frames]) BEFORE the mixer
      (and with it every waiting sound and every parameter) runs *)
  Definition sys_chunk (y : sys) (frames : Z) : outcome sys :=
    let d := nmul (y_dt y) (nofZ frames) in
    let! slots := clocks_update (y_slots y) d in
    let! ws := waiters_update (y_waiters y) d (info_of slots) (y_frames y) in
    Ok {| y_slots := slots; y_waiters := ws; y_frames := y_frames y + frames; y_dt := y_dt y; y_buf := y_buf y |}.

  (** [out.chunks_mut(internal_buffer_size * channels)] *)
  Definition chunks_of (buf frames : Z) : list Z :=
    if (buf <=? 0) || (frames <=? 0) then []
    else repeat buf (Z.to_nat (frames / buf)) ++ (if frames mod buf =? 0 then [] else [frames mod buf]).
  Fixpoint sys_chunks (y : sys) (l : list Z) : outcome sys :=
    match l with
    | [] => Ok y
    | n :: l' => let! y' := sys_chunk y n in sys_chunks y' l'
    end.

  Definition upd_slot (y : sys) (k : nat) (f : slot -> slot) : sys :=
    {| y_slots := match nth_error (y_slots y) k with
                  | Some s => set_nth k (f s) (y_slots y) | None => y_slots y end;
       y_waiters := y_waiters y; y_frames := y_frames y; y_dt := y_dt y; y_buf := y_buf y |}.
  Definition with_cmds (f : cmds -> cmds) (s : slot) : slot :=
    {| sl_life := sl_life s; sl_marked := sl_marked s; sl_clock := sl_clock s; sl_cmds := f (sl_cmds s); sl_shared := sl_shared s |}.

  (** what the user's thread and the device do *)
  Inductive op :=
  | OAddClock (speed : cspeed T)                      (* AudioManager::add_clock *)
  | OStart (c : nat) | OPause (c : nat) | OStop (c : nat)
  | OSetSpeed (c : nat) (v : cspeed T) (tw : tween T)
  | ODrop (c : nat)                                   (* drop(ClockHandle): mark_for_removal *)
  | OWait (k : wkind) (st : stime T)                  (* play a sound / set a tween / resume_at with this start time *)
  | OStartProcessing                                  (* Renderer::on_start_processing *)
  | OProcess (frames : Z).                            (* Renderer::process *)

  Definition sys_step (y : sys) (o : op) : outcome sys :=
    match o with
    | OAddClock sp =>
        Ok {| y_slots := y_slots y ++ [{| sl_life := Pending; sl_marked := false; sl_clock := clock_new (Fixed sp);
                                          sl_cmds := no_cmds; sl_shared := shared_new |}];
              y_waiters := y_waiters y; y_frames := y_frames y; y_dt := y_dt y; y_buf := y_buf y |}
    | OStart c => Ok (upd_slot y c (with_cmds (fun k => {| k_speed := k_speed k; k_ticking := Some true; k_reset := k_reset k |})))
    | OPause c => Ok (upd_slot y c (with_cmds (fun k => {| k_speed := k_speed k; k_ticking := Some false; k_reset := k_reset k |})))
    | OStop c =>
        (* two commands, then the caller-side stores of (0, 0.0) into ClockShared *)
        Ok (upd_slot y c (fun s =>
              {| sl_life := sl_life s; sl_marked := sl_marked s; sl_clock := sl_clock s;
                 sl_cmds := {| k_speed := k_speed (sl_cmds s); k_ticking := Some false; k_reset := true |};
                 sl_shared := {| s_ticking := s_ticking (sl_shared s); s_ticks := 0; s_frac := n0 |} |}))
    | OSetSpeed c v tw =>
        Ok (upd_slot y c (with_cmds (fun k => {| k_speed := Some (Fixed v, tw); k_ticking := k_ticking k; k_reset := k_reset k |})))
    | ODrop c =>
        Ok (upd_slot y c (fun s => {| sl_life := sl_life s; sl_marked := true; sl_clock := sl_clock s;
                                      sl_cmds := sl_cmds s; sl_shared := sl_shared s |}))
    | OWait k st =>
        Ok {| y_slots := y_slots y; y_waiters := y_waiters y ++ [{| w_kind := k; w_start := st; w_state := WWaiting |}];
              y_frames := y_frames y; y_dt := y_dt y; y_buf := y_buf y |}
    | OStartProcessing =>
        Ok {| y_slots := map slot_on_start (y_slots y); y_waiters := y_waiters y; y_frames := y_frames y;
              y_dt := y_dt y; y_buf := y_buf y |}
    | OProcess frames => sys_chunks y (chunks_of (y_buf y) frames)
    end.
  Fixpoint sys_run (y : sys) (ops : list op) : outcome sys :=
    match ops with
    | [] => Ok y
    | o :: ops' => let! y' := sys_step y o in sys_run y' ops'
    end.

  (** [ClockHandle::ticking] / [ClockHandle::time] (sequential view) *)
  Definition handle_view (y : sys) (c : nat) : option (bool * Z * T) :=
    match nth_error (y_slots y) c with
    | Some s => Some (s_ticking (sl_shared s), s_ticks (sl_shared s), s_frac (sl_shared s))
    | None => None
    end.
End Generic.

Arguments cstate : clear implicits.
Arguments clock : clear implicits.
Arguments cmds : clear implicits.
Arguments shared : clear implicits.
Arguments slot : clear implicits.
Arguments waiter : clear implicits.
Arguments sys : clear implicits.
Arguments op : clear implicits.
Arguments NotStarted {T}.
