(** C05 — model side of the correspondence check: histories of handle calls and device callbacks
    on a real [AudioManager]; the same history is run with the binary64 instance (bit-for-bit) and,
    in the dyadic regime, with the rational instance (exact). *)
From Coq Require Import ZArith QArith List Bool.
From KV Require Import Base.IEEE Base.Outcome Base.Num Base.Corr C19.Model C06.Model C06.Dur C05.Model C05.Shared.
Import ListNotations.
Local Open Scope Z_scope.

(** a number literal: binary64 bit pattern and (dyadic regime) its exact value [num / den] *)
Inductive rnum := RN (bits num den : Z).
Inductive rstart := SImm | SDel (ns : Z) | SClk (clock ticks : Z) (fr : rnum).
Inductive rop :=
| RAddClock (kind : Z) (x : rnum)
| RStart (c : Z) | RPause (c : Z) | RStop (c : Z)
| RSetSpeed (c kind : Z) (x : rnum) (start : rstart) (dur_ns ekind p : Z)
| RDrop (c : Z)
| RWait (kind : Z) (start : rstart)
| RStartProc
| RProcess (frames : Z)
| RObs (c : Z).

Inductive case :=
| CSys64 (sr buf : Z) (ops : list rop)
| CSysQ (sr buf : Z) (ops : list rop)
| CSched (pubs : list (Z * Z)) (prog : list Z) (sched : list Z).   (* the two-word protocol under a schedule *)

Section Run.
  Context {T : Type} {NT : Num T} {ND : NumDur T}.
  Variable dec : rnum -> T.
  Variable enc : T -> list Z.
  Variable powf : T -> T -> T.

  Definition mk_speed (kind : Z) (x : rnum) : cspeed T :=
    match kind with
    | 0 => SecondsPerTick (dec x) | 1 => TicksPerSecond (dec x) | _ => TicksPerMinute (dec x)
    end.
  Definition mk_start (s : rstart) : stime T :=
    match s with
    | SImm => Immediate | SDel ns => Delayed ns
    | SClk c tk fr => ClockT (Z.to_nat c) tk (dec fr)
    end.
  (** only the easings that need no libm are driven here *)
  Definition mk_easing (ekind p : Z) : easing T :=
    match ekind with 1 => InPowi p | 2 => OutPowi p | 3 => InOutPowi p | _ => Linear end.
  Definition mk_op (o : rop) : op T :=
    match o with
    | RAddClock k x => OAddClock (mk_speed k x)
    | RStart c => OStart (Z.to_nat c) | RPause c => OPause (Z.to_nat c) | RStop c => OStop (Z.to_nat c)
    | RSetSpeed c k x st d ek p =>
        OSetSpeed (Z.to_nat c) (mk_speed k x) {| tw_start := mk_start st; tw_dur := d; tw_easing := mk_easing ek p |}
    | RDrop c => ODrop (Z.to_nat c)
    | RWait k st => OWait (if k =? 1 then WTween else WSound) (mk_start st)
    | RStartProc => OStartProcessing
    | RProcess n => OProcess n
    | RObs _ => OStartProcessing
    end.
  Definition enc_waiter (w : waiter T) : list Z :=
    match w_state w with WWaiting => [0; -1] | WBegun f => [1; f] | WStopped => [2; -1] end.

  Fixpoint go (y : sys T) (ops : list rop) : list Z :=
    match ops with
    | [] => flat_map enc_waiter (y_waiters y)
    | RObs c :: ops' =>
        match handle_view y (Z.to_nat c) with
        | Some (b, tk, fr) => (if b then 1 else 0) :: tk :: enc fr
        | None => [-7]
        end ++ go y ops'
    | o :: ops' =>
        match sys_step powf y (mk_op o) with
        | Ok y' => go y' ops'
        | Panic k => [1000 + panic_code k]
        | Hang => [2000]
        end
    end.
  Definition run_sys (sr buf : Z) (ops : list rop) : list Z :=
    go (sys_new sr buf) ops.
End Run.

Definition dec64 (x : rnum) : f64 := let 'RN b _ _ := x in f64_of_bits b.
Definition decQ (x : rnum) : Q := let 'RN _ n d := x in Qred (Qmake n (Z.to_pos d)).
Definition enc64 (x : f64) : list Z := [bits_of_f64 x].
Definition encQ (x : Q) : list Z := [Qnum x; Zpos (Qden x)].

Definition mk_tid (z : Z) : tid := if z =? 0 then Audio else Handle.
Definition mk_hop (z : Z) : hop := if z =? 0 then HRead else HStop.
Definition enc_read (r : read_rec) : list Z :=
  [r_tk r; r_fr r; match r_clean r with Some n => Z.of_nat n | None => -1 end].

Definition run (c : case) : list Z :=
  match c with
  | CSys64 sr buf ops => run_sys dec64 enc64 (fun _ _ => f64_of_bits 0x0123456789ABCDEF) sr buf ops
  | CSysQ sr buf ops => run_sys decQ encQ (fun _ _ => 0%Q) sr buf ops
  | CSched pubs prog sched =>
      let s := run_sched (map mk_tid sched) (init_st pubs (map mk_hop prog)) in
      m_ticks s :: m_frac s :: flat_map enc_read (rev (h_reads s))
  end.
