(** C05 — the two-word time protocol under ALL schedules: what holds (no out-of-thin-air words;
    reads that overlap no publication are exact and monotone) and what does not (torn reads). *)
From Coq Require Import ZArith List Bool Lia Arith.
From KV Require Import C05.Shared.
Import ListNotations.
Local Open Scope Z_scope.

Lemma run_inv (I : st -> Prop) :
  (forall t s s', I s -> step t s = Some s' -> I s') ->
  forall sched s, I s -> I (run_sched sched s).
Proof.
  intros Hstep sched. induction sched as [|t sched IH]; intros s Hs; [exact Hs|].
  cbn [run_sched]. apply IH. destruct (step t s) as [s'|] eqn:E; [eapply Hstep; eassumption|exact Hs].
Qed.

(** ** every word read is a value that word had *)
Definition tvals (pubs : list (Z * Z)) : list Z := 0 :: map fst pubs.
Definition fvals (pubs : list (Z * Z)) : list Z := 0 :: map snd pubs.
Definition read_ok (pubs : list (Z * Z)) (r : read_rec) : Prop := In (r_tk r) (tvals pubs) /\ In (r_fr r) (fvals pubs).
Definition inv_words (pubs : list (Z * Z)) (s : st) : Prop :=
  In (m_ticks s) (tvals pubs) /\ In (m_frac s) (fvals pubs) /\ In (h_tk s) (tvals pubs) /\
  incl (a_todo s) pubs /\ Forall (read_ok pubs) (h_reads s).

Lemma inv_words_step pubs t s s' : inv_words pubs s -> step t s = Some s' -> inv_words pubs s'.
Proof.
  intros (Ht & Hf & Hh & Hin & Hr) E. unfold step in E.
  destruct t.
  - destruct (a_todo s) as [|[tk fr] rest] eqn:Et; [discriminate|].
    assert (Hp : In (tk, fr) pubs) by (apply Hin; left; reflexivity).
    destruct (a_pc s); inversion E; subst s'; clear E; unfold inv_words; cbn [m_ticks m_frac h_tk a_todo h_reads].
    + refine (conj Ht (conj _ (conj Hh (conj _ Hr)))).
      * right. apply (in_map snd) in Hp. exact Hp.
      * intros x Hx. apply Hin. right. exact Hx.
    + refine (conj _ (conj Hf (conj Hh (conj _ Hr)))).
      * right. apply (in_map fst) in Hp. exact Hp.
      * exact Hin.
  - destruct (h_todo s) as [|[|] rest] eqn:Eh; [discriminate| |].
    + destruct (h_pc s); inversion E; subst s'; clear E; unfold inv_words; cbn [m_ticks m_frac h_tk a_todo h_reads].
      * refine (conj Ht (conj Hf (conj Hh (conj Hin _)))). constructor; [|exact Hr]. split; assumption.
      * exact (conj Ht (conj Hf (conj Ht (conj Hin Hr)))).
    + destruct (h_pc s); inversion E; subst s'; clear E; unfold inv_words; cbn [m_ticks m_frac h_tk a_todo h_reads].
      * refine (conj Ht (conj _ (conj Hh (conj Hin Hr)))). left. reflexivity.
      * refine (conj _ (conj Hf (conj Hh (conj Hin Hr)))). left. reflexivity.
Qed.

Lemma words_no_thin_air (pubs : list (Z * Z)) (prog : list hop) (sched : list tid) :
  let s := run_sched sched (init_st pubs prog) in
  Forall (read_ok pubs) (h_reads s) /\ In (m_ticks s) (tvals pubs) /\ In (m_frac s) (fvals pubs).
Proof.
  cbn zeta.
  assert (I : inv_words pubs (run_sched sched (init_st pubs prog))).
  { apply run_inv; [intros t s s'; apply inv_words_step|].
    unfold inv_words, init_st; cbn [m_ticks m_frac h_tk a_todo h_reads].
    refine (conj _ (conj _ (conj _ (conj (incl_refl _) (Forall_nil _))))); left; reflexivity. }
  destruct I as (A & B & _ & _ & C). repeat split; assumption.
Qed.

(** ** reads that overlap no publication *)
Fixpoint desc (l : list nat) : Prop :=
  match l with
  | a :: (b :: _) as l' => (b <= a)%nat /\ desc l'
  | _ => True
  end.
Definition clean_idx (reads : list read_rec) : list nat :=
  flat_map (fun r => match r_clean r with Some k => [k] | None => [] end) reads.
Definition clean_ok (pubs : list (Z * Z)) (n : nat) (r : read_rec) : Prop :=
  match r_clean r with Some k => (k <= n)%nat /\ (r_tk r, r_fr r) = hist pubs k | None => True end.

Definition inv_clean (pubs : list (Z * Z)) (s : st) : Prop :=
  a_todo s = skipn (a_done s) pubs /\
  Forall (eq HRead) (h_todo s) /\
  (if a_pc s then m_ticks s = fst (hist pubs (S (a_done s))) /\ m_frac s = snd (hist pubs (a_done s))
   else (m_ticks s, m_frac s) = hist pubs (a_done s)) /\
  (h_pc s = true -> snd (h_at s) = false -> h_tk s = fst (hist pubs (fst (h_at s)))) /\
  Forall (clean_ok pubs (a_done s)) (h_reads s) /\
  desc (clean_idx (h_reads s)).

Lemma skipn_cons_nth {A} (n : nat) (l : list A) (x : A) (rest : list A) (d : A) :
  skipn n l = x :: rest -> nth n l d = x /\ skipn (S n) l = rest.
Proof.
  revert l. induction n as [|n IH]; intros l E.
  - destruct l; cbn in E; [discriminate|]. inversion E. split; reflexivity.
  - destruct l as [|y l]; cbn in E; [discriminate|]. apply IH in E. exact E.
Qed.

Lemma desc_cons (n : nat) (l : list nat) : Forall (fun k => (k <= n)%nat) l -> desc l -> desc (n :: l).
Proof. intros F D. destruct l as [|b l]; cbn; [exact I|]. inversion F. split; assumption. Qed.

Lemma clean_idx_le pubs n reads : Forall (clean_ok pubs n) reads -> Forall (fun k => (k <= n)%nat) (clean_idx reads).
Proof.
  induction 1 as [|r l Hr Hl IH]; cbn; [constructor|].
  unfold clean_ok in Hr. destruct (r_clean r); cbn; [constructor; [tauto|exact IH]|exact IH].
Qed.

Lemma clean_ok_weaken pubs n reads : Forall (clean_ok pubs n) reads -> Forall (clean_ok pubs (S n)) reads.
Proof.
  apply Forall_impl. intros r. unfold clean_ok. destruct (r_clean r); [|tauto]. intros [A B]. split; [lia|exact B].
Qed.

Lemma inv_clean_step pubs t s s' : inv_clean pubs s -> step t s = Some s' -> inv_clean pubs s'.
Proof.
  intros (Htodo & Hprog & Hw & Hh & Hr & Hd) E. unfold step in E.
  destruct t.
  - destruct (a_todo s) as [|[tk fr] rest] eqn:Et; [discriminate|].
    symmetry in Htodo. destruct (skipn_cons_nth _ _ _ _ (0, 0) Htodo) as [Hn Hs].
    assert (Hnext : hist pubs (S (a_done s)) = (tk, fr)) by (unfold hist; cbn [nth]; exact Hn).
    destruct (a_pc s) eqn:Epc; inversion E; subst s'; clear E; unfold inv_clean;
      cbn [m_ticks m_frac h_tk a_todo h_reads a_pc a_done h_todo h_pc h_at].
    + destruct Hw as [W1 W2].
      refine (conj (eq_sym Hs) (conj Hprog (conj _ (conj Hh (conj (clean_ok_weaken _ _ _ Hr) Hd))))).
      rewrite Hnext. rewrite Hnext in W1. cbn [fst] in W1. subst tk. reflexivity.
    + refine (conj (eq_sym Htodo) (conj Hprog (conj _ (conj Hh (conj Hr Hd))))).
      split; [rewrite Hnext; reflexivity|rewrite <- Hw; reflexivity].
  - destruct (h_todo s) as [|[|] rest] eqn:Eh; [discriminate| |].
    + inversion Hprog as [|x xs _ Hrest]. subst x xs.
      destruct (h_pc s) eqn:Ehp; inversion E; subst s'; clear E; unfold inv_clean;
        cbn [m_ticks m_frac h_tk a_todo h_reads a_pc a_done h_todo h_pc h_at].
      * split; [exact Htodo|]. split; [exact Hrest|]. split; [exact Hw|]. split; [discriminate|].
        destruct (negb (a_pc s) && negb (snd (h_at s)) && Nat.eqb (fst (h_at s)) (a_done s)) eqn:C.
        -- apply andb_prop in C. destruct C as [C C3]. apply andb_prop in C. destruct C as [C1 C2].
           apply negb_true_iff in C1, C2. apply Nat.eqb_eq in C3.
           rewrite C1 in Hw. specialize (Hh eq_refl C2). rewrite C3 in Hh.
           split.
           ++ constructor; [|exact Hr]. unfold clean_ok. cbn [r_clean r_tk r_fr]. split; [lia|].
              rewrite <- Hw. rewrite Hh. rewrite <- Hw. reflexivity.
           ++ cbn [clean_idx flat_map r_clean app]. apply desc_cons; [|exact Hd]. apply (clean_idx_le pubs). exact Hr.
        -- split.
           ++ constructor; [|exact Hr]. unfold clean_ok. cbn [r_clean]. exact I.
           ++ cbn [clean_idx flat_map r_clean app]. exact Hd.
      * split; [exact Htodo|]. split; [exact Hprog|]. split; [exact Hw|]. split; [|split; assumption].
        cbn [fst snd]. intros _ Hp. rewrite Hp in Hw. rewrite <- Hw. reflexivity.
    + inversion Hprog as [|x xs Hx _]. discriminate Hx.
Qed.

Lemma inv_clean_init pubs n : inv_clean pubs (init_st pubs (repeat HRead n)).
Proof.
  unfold inv_clean, init_st; cbn [m_ticks m_frac h_tk a_todo h_reads a_pc a_done h_todo h_pc h_at].
  refine (conj eq_refl (conj _ (conj eq_refl (conj _ (conj (Forall_nil _) I))))).
  - apply Forall_forall. intros x Hx. apply repeat_spec in Hx. congruence.
  - discriminate.
Qed.

Lemma desc_app_le (a : list nat) : forall (k2 : nat) (b : list nat) (k1 : nat) (c : list nat),
  desc (a ++ k2 :: b ++ k1 :: c) -> (k1 <= k2)%nat.
Proof.
  assert (G : forall (b : list nat) k2 k1 c, desc (k2 :: b ++ k1 :: c) -> (k1 <= k2)%nat).
  { induction b as [|x b IH]; intros k2 k1 c D.
    - cbn in D. tauto.
    - cbn [app] in D. destruct D as [D1 D2]. specialize (IH x k1 c D2). lia. }
  induction a as [|x a IH]; intros k2 b k1 c D.
  - apply (G b k2 k1 c). exact D.
  - apply (IH k2 b k1 c). cbn [app] in D. destruct (a ++ k2 :: b ++ k1 :: c) eqn:E; [exact I|]. destruct D as [_ D]. exact D.
Qed.

Lemma clean_idx_app l1 l2 : clean_idx (l1 ++ l2) = clean_idx l1 ++ clean_idx l2.
Proof. unfold clean_idx. apply flat_map_app. Qed.

(** Reads that overlap no publication return exactly a time the clock had, namely the latest
    published one, and successive such reads never go backwards in the publication order. *)
Lemma clean_reads_exact_monotone (pubs : list (Z * Z)) (nreads : nat) (sched : list tid) :
  let s := run_sched sched (init_st pubs (repeat HRead nreads)) in
  (forall r k, In r (h_reads s) -> r_clean r = Some k -> (r_tk r, r_fr r) = hist pubs k) /\
  (forall l1 r2 l2 r1 l3 k1 k2,
      h_reads s = l1 ++ r2 :: l2 ++ r1 :: l3 ->     (* r1 was read before r2 *)
      r_clean r1 = Some k1 -> r_clean r2 = Some k2 -> (k1 <= k2)%nat).
Proof.
  cbn zeta.
  assert (Inv : inv_clean pubs (run_sched sched (init_st pubs (repeat HRead nreads)))).
  { apply run_inv; [intros t s s'; apply inv_clean_step|apply inv_clean_init]. }
  destruct Inv as (_ & _ & _ & _ & Hr & Hd). split.
  - intros r k Hin Hk. rewrite Forall_forall in Hr. specialize (Hr r Hin). unfold clean_ok in Hr. rewrite Hk in Hr. tauto.
  - intros l1 r2 l2 r1 l3 k1 k2 E H1 H2. rewrite E in Hd.
    rewrite clean_idx_app in Hd. cbn [clean_idx flat_map] in Hd. fold (clean_idx (l2 ++ r1 :: l3)) in Hd.
    rewrite H2 in Hd. rewrite clean_idx_app in Hd. cbn [clean_idx flat_map] in Hd. fold (clean_idx l3) in Hd.
    rewrite H1 in Hd. cbn [app] in Hd.
    exact (desc_app_le _ _ _ _ _ Hd).
Qed.

(** ** torn reads (F16).  Bit patterns: 0.75 = 0x3FE8000000000000, 0.25 = 0x3FD0000000000000. *)
Definition b075 : Z := 4604930618986332160.
Definition b025 : Z := 4598175219545276416.
(** order of two (ticks, fraction-bits) times with non-negative fractions *)
Definition lt_time (a b : Z * Z) : Prop := fst a < fst b \/ (fst a = fst b /\ snd a < snd b).

(** the clock runs from 0.75 to 1.25; the reader's second read straddles the publication *)
Definition torn_pubs : list (Z * Z) := [(0, b075); (1, b025)].
Definition torn_sched : list tid := [Audio; Audio; Handle; Handle; Handle; Audio; Audio; Handle].

Lemma torn_old_new :
  let s := run_sched torn_sched (init_st torn_pubs [HRead; HRead]) in
  exists r1 r2, h_reads s = [r2; r1] /\
    (r_tk r1, r_fr r1) = (0, b075) /\              (* first read: 0.75, a time the clock had *)
    (r_tk r2, r_fr r2) = (0, b025) /\              (* second read: (ticks_old, fraction_new) *)
    (forall k, (r_tk r2, r_fr r2) <> hist torn_pubs k) /\   (* a time the clock never had *)
    lt_time (r_tk r2, r_fr r2) (r_tk r1, r_fr r1) /\        (* and earlier than the previous read *)
    lt_time (hist torn_pubs 1) (hist torn_pubs 2).          (* while the clock was running forwards *)
Proof.
  cbn zeta. eexists. eexists. split; [vm_compute; reflexivity|]. cbn [r_tk r_fr].
  split; [reflexivity|]. split; [reflexivity|]. split.
  - intro k. destruct k as [|[|[|k]]]; vm_compute; try discriminate. destruct k; discriminate.
  - split; [right|left]; vm_compute; try split; reflexivity.
Qed.

(** the other tear: the read starts after the ticks word was stored and ends before the fraction is *)
Lemma torn_new_old :
  let s := run_sched [Audio; Audio; Audio; Handle; Handle; Audio; Handle; Handle] (init_st torn_pubs [HRead; HRead]) in
  exists r1 r2, h_reads s = [r2; r1] /\
    (r_tk r1, r_fr r1) = (1, b075) /\              (* (ticks_new, fraction_old): 1.75, half a tick ahead *)
    (forall k, (r_tk r1, r_fr r1) <> hist torn_pubs k) /\
    (r_tk r2, r_fr r2) = (1, b025) /\              (* then the true time 1.25: backwards *)
    lt_time (r_tk r2, r_fr r2) (r_tk r1, r_fr r1).
Proof.
  cbn zeta. eexists. eexists. split; [vm_compute; reflexivity|]. cbn [r_tk r_fr].
  split; [reflexivity|]. split.
  - intro k. destruct k as [|[|[|k]]]; vm_compute; try discriminate. destruct k; discriminate.
  - split; [reflexivity|]. right. vm_compute. split; reflexivity.
Qed.

(** [ClockHandle::stop]'s caller-side stores race with a publication in progress: the words are
    left at (0, 0.75) although the clock never showed that time *)
Lemma stop_store_race :
  let s := run_sched [Audio; Handle; Handle; Audio; Handle; Handle] (init_st [(5, b075)] [HStop; HRead]) in
  exists r, h_reads s = [r] /\ (r_tk r, r_fr r) = (0, b075) /\ forall k, (r_tk r, r_fr r) <> hist [(5, b075)] k.
Proof.
  cbn zeta. eexists. split; [vm_compute; reflexivity|]. cbn [r_tk r_fr]. split; [reflexivity|].
  intro k. destruct k as [|[|k]]; vm_compute; try discriminate. destruct k; discriminate.
Qed.

(** non-vacuity of the clean-read theorem: a schedule with a clean read of a published time *)
Example clean_read_example :
  let s := run_sched [Audio; Audio; Handle; Handle] (init_st torn_pubs (repeat HRead 1)) in
  exists r, h_reads s = [r] /\ r_clean r = Some 1%nat /\ (r_tk r, r_fr r) = (0, b075).
Proof. cbn zeta. eexists. split; [vm_compute; reflexivity|]. split; reflexivity. Qed.
