(** C05 — property theorems (statements closed by [exact]). *)
From Coq Require Import ZArith QArith Qround List Bool.
From KV Require Import Base.IEEE Base.Outcome Base.Num C19.Model C06.Model C06.Dur C06.Proofs
  C05.Model C05.Shared C05.ProofsClock.
Import ListNotations.
Local Open Scope Q_scope.

(** Exact audio time.  A ticking clock with a constant speed of [r] ticks per second, after ANY
    list of updates (= any partition of audio time into callbacks and internal buffers), shows
    exactly its old time plus [r] times the elapsed audio time; the fraction is in [0,1); the tick
    loop terminates (the result is [Ok], not [Hang]) and no u64 overflows below 2^64 ticks. *)
Theorem clock_exact_time :
  forall (powf : Q -> Q -> Q) (fuel : nat) (c : clock Q) (l : list (Q * info Q)),
    c_ticking c = true -> state_ok (c_state c) -> constant_speed (c_speed c) ->
    let r := as_tps (p_raw (c_speed c)) in
    let t := qsum (map fst l) in
    0 <= r -> Forall (fun x => 0 <= fst x) l ->
    time_of (c_state c) + r * t < inject_Z (2 ^ 64) ->
    (Z.to_nat (Qfloor (1 + r * t)) < fuel)%nat ->
    exists c', clock_run powf fuel c l = Ok c' /\ c_ticking c' = true /\ state_ok (c_state c') /\
               time_of (c_state c') == time_of (c_state c) + r * t.
Proof. exact clock_exact_time_lemma. Qed.
