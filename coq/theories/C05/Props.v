(** C05 — property theorems (statements closed by [exact]). *)
From Coq Require Import ZArith QArith Qround List Bool Reals.
From Flocq Require Import Core IEEE754.BinarySingleNaN.
From KV Require Import Base.IEEE Base.Outcome Base.Num C19.Model C06.Model C06.Dur C06.Proofs C01.Model
  C05.Model C05.Shared C05.ProofsClock C05.ProofsEvent C05.ProofsSpeed C05.ProofsShared
  C05.Pickup C05.ProofsPickup.
Import ListNotations.
Local Open Scope Q_scope.

(** The tick split of [Clock::update] (since the F7 repair: [floor], a saturating cast and one
    subtraction instead of the loop [while timer >= 1.0 { timer -= 1.0; ticks += 1 }]) in exact
    arithmetic: no fuel, no overflow condition, it always returns, and it splits the timer exactly
    into [floor timer] whole ticks (saturating at u64::MAX) and a fraction in [0,1). *)
Theorem tick_update_exact :
  forall (tk : Z) (timer : Q),
    0 <= timer -> (0 <= tk <= u64_max)%Z ->
    exists fr, tick_update tk timer = (Z.min u64_max (tk + Qfloor timer), fr) /\
               fr == timer - inject_Z (Qfloor timer) /\ 0 <= fr /\ fr < 1.
Proof. exact tick_update_spec. Qed.

(** binary64: for every finite timer up to 2^53 (where each [x - 1.0] of the old loop was exact),
    enough fuel for the loop to finish and no overflow of the tick counter, the repaired update
    returns EXACTLY what the old loop returned — same ticks, same float. *)
Theorem tick_update_agrees_with_loop_b64 :
  forall (x : f64) (fuel : nat) (tk : Z),
    is_finite x = true -> (B2R x <= IZR (2 ^ 53))%R -> (Z.to_nat (Zfloor (B2R x)) <= fuel)%nat ->
    (0 <= tk)%Z -> (tk + Zfloor (B2R x) <= u64_max)%Z ->
    tick_loop_old (T := f64) fuel tk x = Ok (tick_update (T := f64) tk x).
Proof. exact tick_update_agrees_b64. Qed.

(** binary64: the repaired update is total.  EVERY timer value — finite of any size, +inf, -inf, NaN,
    negative — gives a result; the tick count never decreases and saturates at u64::MAX; if the
    test [timer >= 1.0] holds, the new fraction is a finite number in [0,1) (finite timer: exactly
    [timer - floor timer] and exactly [floor timer] more ticks, also beyond 2^53; +inf: fraction 0.0,
    ticks u64::MAX); if it fails (below 1, negative, -inf, NaN) ticks and timer stay as they are. *)
Theorem tick_update_total_b64 :
  forall (tk : Z) (x : f64),
    (0 <= tk <= u64_max)%Z ->
    exists tk' r, tick_update (T := f64) tk x = (tk', r) /\ (tk <= tk' <= u64_max)%Z /\
      if le64 one64 x then
        is_finite r = true /\ (0 <= B2R r < 1)%R /\
        (is_finite x = true ->
           B2R r = (B2R x - IZR (Zfloor (B2R x)))%R /\ tk' = Z.min u64_max (tk + Zfloor (B2R x))) /\
        (is_finite x = false -> tk' = u64_max /\ r = B754_zero false)
      else tk' = tk /\ r = x.
Proof. exact tick_update_total_b64_lemma. Qed.

(** ... hence [Clock::update] returns whenever the update of its speed parameter does (whose only
    non-[Ok] outcome is C06's duration conversion): every number type, every clock, every [dt]. *)
Theorem clock_update_total :
  forall (T : Type) (NT : Num T) (ND : NumDur T) (powf : T -> T -> T) (c : clock T) (dt : T) (i : info T),
    is_ok (clock_update powf c dt i) = is_ok (param_update powf (cspeed T) cspeed_interpolate (c_speed c) dt i).
Proof. exact @clock_update_returns. Qed.

(** Exact audio time.  A ticking clock with a constant speed of [r] ticks per second, after ANY
    list of updates (= any partition of audio time into callbacks and internal buffers), shows
    exactly its old time plus [r] times the elapsed audio time; the fraction is in [0,1); every
    update returns ([Ok]) and nothing saturates below 2^64 ticks. *)
Theorem clock_exact_time :
  forall (powf : Q -> Q -> Q) (c : clock Q) (l : list (Q * info Q)),
    c_ticking c = true -> state_ok (c_state c) -> constant_speed (c_speed c) ->
    let r := as_tps (p_raw (c_speed c)) in
    let t := qsum (map fst l) in
    0 <= r -> Forall (fun x => 0 <= fst x) l ->
    time_of (c_state c) + r * t < inject_Z (2 ^ 64) ->
    exists c', clock_run powf c l = Ok c' /\ c_ticking c' = true /\ state_ok (c_state c') /\
               time_of (c_state c') == time_of (c_state c) + r * t.
Proof. exact clock_exact_time_lemma. Qed.

(** Partition independence: the same audio time, however it is split into callbacks and chunks,
    gives the same (ticks, fraction). *)
Theorem clock_partition_independent :
  forall (powf : Q -> Q -> Q) (c : clock Q) (l1 l2 : list (Q * info Q)),
    c_ticking c = true -> state_ok (c_state c) -> constant_speed (c_speed c) ->
    let r := as_tps (p_raw (c_speed c)) in
    0 <= r -> Forall (fun x => 0 <= fst x) l1 -> Forall (fun x => 0 <= fst x) l2 ->
    qsum (map fst l1) == qsum (map fst l2) ->
    time_of (c_state c) + r * qsum (map fst l1) < inject_Z (2 ^ 64) ->
    exists c1 c2, clock_run powf c l1 = Ok c1 /\ clock_run powf c l2 = Ok c2 /\
                  fst (state_time (c_state c1)) = fst (state_time (c_state c2)) /\
                  snd (state_time (c_state c1)) == snd (state_time (c_state c2)).
Proof. exact partition_independent_lemma. Qed.

(** Varying speed (speed changes, speed tweens, modulated speeds): the clock advances at every update
    by (the speed parameter's value at that update, as the C06 model computes it) * dt — exactly. *)
Theorem clock_exact_time_varying :
  forall (powf : Q -> Q -> Q) (l : list (Q * info Q)) (c : clock Q) (incs : list Q),
    c_ticking c = true -> state_ok (c_state c) ->
    increments powf (c_speed c) l = Ok incs -> Forall (fun x => 0 <= x) incs ->
    time_of (c_state c) + qsum incs < inject_Z (2 ^ 64) ->
    exists c', clock_run powf c l = Ok c' /\ c_ticking c' = true /\ state_ok (c_state c') /\
               time_of (c_state c') == time_of (c_state c) + qsum incs.
Proof. exact clock_run_exact. Qed.

(** Pausing freezes the clock: no list of updates changes the state of a clock that is not ticking
    (for every number type, hence bit-for-bit in binary64: [clock_paused_frozen_any]). *)
Theorem clock_paused_frozen :
  forall (powf : Q -> Q -> Q) (l : list (Q * info Q)) (c c' : clock Q),
    c_ticking c = false -> clock_run powf c l = Ok c' -> c_state c' = c_state c /\ c_ticking c' = false.
Proof. exact paused_frozen_run. Qed.
Theorem clock_paused_frozen_any :
  forall (T : Type) (NT : Num T) (ND : NumDur T) (powf : T -> T -> T) (c c' : clock T) (dt : T) (i : info T),
    c_ticking c = false -> clock_update powf c dt i = Ok c' ->
    c_state c' = c_state c /\ c_ticking c' = false.
Proof. exact @paused_frozen_any. Qed.

(** Stopping: the handle reads (0, 0.0) at once; after the next [on_start_processing] the clock is
    [NotStarted], not ticking, and reads (0, 0.0). *)
Theorem clock_stop_resets :
  forall (powf : Q -> Q -> Q) (y : sys Q) (c : nat) (s : slot Q),
    nth_error (y_slots y) c = Some s -> sl_life s = Live -> sl_marked s = false ->
    exists y1 y2 s2,
      sys_step powf y (OStop c) = Ok y1 /\
      handle_view y1 c = Some (s_ticking (sl_shared s), 0%Z, 0) /\
      sys_step powf y1 OStartProcessing = Ok y2 /\
      handle_view y2 c = Some (false, 0%Z, 0) /\
      nth_error (y_slots y2) c = Some s2 /\
      c_state (sl_clock s2) = NotStarted /\ c_ticking (sl_clock s2) = false.
Proof. exact stop_resets_lemma. Qed.

(** A speed change / speed tween takes effect when it is due: for every list of updates made after
    the command was read, the speed is the C06 law in the target's unit — the old speed until the
    start time counts, identically the target from the update at which elapsed >= duration. *)
Theorem speed_change_when_due :
  forall (powf : Q -> Q -> Q) (c c' : clock Q) (tg : cspeed Q) (tw : tween Q) (l : list (Q * info Q)),
    not_delayed (tw_start tw) -> (tw_dur tw <> 0)%Z -> l <> [] ->
    let c0 := clock_on_start c {| k_speed := Some (Fixed tg, tw); k_ticking := None; k_reset := false |} in
    clock_run powf c0 l = Ok c' ->
    let D := ns_to_secs_Q (tw_dur tw) in
    if completes (tw_start tw) D 0 l
    then p_state (c_speed c') = Idle (Fixed tg) /\ p_raw (c_speed c') = tg
    else p_raw (c_speed c') =
         cspeed_interpolate (p_raw (c_speed c)) tg (ease powf (tw_easing tw) (ndiv (elapsed (tw_start tw) 0 l) D)).
Proof. exact speed_change_when_due_lemma. Qed.

(** A speed tween measured in audio time keeps running while the clock itself is frozen: given to a
    clock that is not ticking (paused or not yet started), for every list of updates the clock's time
    stays where it was and the speed follows the same law as on a running clock — so a clock started
    after the tween's end runs at the target speed from its first update. *)
Theorem speed_tween_runs_while_paused :
  forall (powf : Q -> Q -> Q) (c c' : clock Q) (tg : cspeed Q) (tw : tween Q) (l : list (Q * info Q)),
    c_ticking c = false ->
    not_delayed (tw_start tw) -> (tw_dur tw <> 0)%Z -> l <> [] ->
    let c0 := clock_on_start c {| k_speed := Some (Fixed tg, tw); k_ticking := None; k_reset := false |} in
    clock_run powf c0 l = Ok c' ->
    let D := ns_to_secs_Q (tw_dur tw) in
    c_state c' = c_state c /\ c_ticking c' = false /\
    if completes (tw_start tw) D 0 l
    then p_state (c_speed c') = Idle (Fixed tg) /\ p_raw (c_speed c') = tg
    else p_raw (c_speed c') =
         cspeed_interpolate (p_raw (c_speed c)) tg (ease powf (tw_easing tw) (ndiv (elapsed (tw_start tw) 0 l) D)).
Proof. exact speed_tween_runs_while_paused_lemma. Qed.

(** an immediate change of zero duration is in force at the very next update *)
Theorem speed_change_immediate :
  forall (powf : Q -> Q -> Q) (p : param Q (cspeed Q)) (tg : cspeed Q) (tw : tween Q) (dt : Q) (i : info Q),
    tw_start tw = Immediate -> tw_dur tw = 0%Z -> 0 <= dt ->
    updV powf (cspeed Q) cspeed_interpolate (param_set p (Fixed tg) tw) dt i =
      Ok ({| p_state := Idle (Fixed tg); p_raw := tg; p_prev := p_raw p; p_stagnant := true |}, true).
Proof. exact (fun powf => set_immediate_zeroV powf (cspeed Q) cspeed_interpolate). Qed.

(** F17.  While clock [k] is updated its own id resolves to the non-ticking dummy: a speed tween whose
    start time is a time of the clock ITSELF never starts — for every list of updates, whatever the
    storage holds, the tween is exactly where it was. *)
Theorem self_reference_never_starts :
  forall (powf : Q -> Q -> Q) (k : nat) (tk : Z) (fr : Q) (l : list (Q * list (slot Q)))
         (c c' : clock Q) (v0 tg : cspeed Q) (t : Q) (tw : tween Q),
    midV (cspeed Q) (c_speed c) v0 tg t tw -> tw_start tw = ClockT k tk fr ->
    clock_run powf c (own_updates k l) = Ok c' ->
    midV (cspeed Q) (c_speed c') v0 tg t tw.
Proof. exact self_reference_lemma. Qed.
Theorem self_reference_own_id_never_now :
  forall (slots : list (slot Q)) (k : nat) (tk : Z) (fr : Q), when_to_start (info_for slots k) k tk fr <> Now.
Proof. exact own_id_never_now. Qed.
(** ... whereas every other id resolves to the real clock, so a speed tween scheduled on ANOTHER
    clock follows [speed_change_when_due] with that clock's time *)
Theorem other_clock_resolves :
  forall (slots : list (slot Q)) (k c : nat) (tk : Z) (fr : Q),
    c <> k -> when_to_start (info_for slots k) c tk fr = when_to_start (info_of slots) c tk fr.
Proof. exact other_id_real. Qed.
(** [Clocks::update] is [for_each]: clock [k] is updated against the storage with its own slot
    replaced by the dummy (every number type) *)
Theorem clock_updated_against_own_dummy :
  forall (T : Type) (NT : Num T) (ND : NumDur T) (powf : T -> T -> T)
         (k : nat) (todo : list nat) (slots : list (slot T)) (s : slot T) (dt : T),
    nth_error slots k = Some s -> sl_life s = Live ->
    clocks_update_from powf (k :: todo) slots dt =
      (let! c' := clock_update powf (sl_clock s) dt (info_for slots k) in
       clocks_update_from powf todo (set_nth k (with_clock s c') slots) dt).
Proof. exact @for_each_own_dummy. Qed.
(** the witness replayed on the implementation: own time => the change never happens (8 = 2 x 4 ticks),
    other clock showing the same time => it does (29 ticks) *)
Theorem self_reference_refuted :
  exists y_own y_other,
    sys_run (fun _ _ => 0) (sys_new 512 64) (f17_ops 0) = Ok y_own /\
    sys_run (fun _ _ => 0) (sys_new 512 64) (f17_ops 1) = Ok y_other /\
    handle_view y_own 0 = Some (true, 8%Z, 0) /\ handle_view y_own 1 = Some (true, 8%Z, 0) /\
    handle_view y_other 0 = Some (true, 29%Z, 0).
Proof. exact self_reference_witness. Qed.

(** [Info::when_to_start] decides exactly "the clock resolves, is ticking, and its time >= tau". *)
Theorem event_time_test :
  forall (i : info Q) (c : nat) (tk : Z) (fr : Q),
    info_frac_ok i c -> 0 <= fr -> fr < 1 ->
    (when_to_start i c tk fr = Now <-> due i c (inject_Z tk + fr)) /\
    (when_to_start i c tk fr = Never <-> ~ resolves i c).
Proof. exact when_to_start_spec. Qed.

(** The event-buffer rule, for every history of chunks: a sound start / resume ([WSound]) or tween
    start ([WTween]) scheduled for [tau] on clock [c] (a) keeps waiting through every chunk after whose
    clock update the clock is paused or short of [tau]; (b) begins at the first frame of the FIRST chunk
    after whose update the clock is ticking with time >= [tau]; (c) is cancelled (Stopped) at the
    first chunk in which the clock no longer resolves (a tween just keeps waiting). *)
Theorem event_buffer :
  forall (k : wkind) (c : nat) (tk : Z) (fr : Q) (l1 : list (Q * info Q * Z)),
    0 <= fr -> fr < 1 ->
    let w := {| w_kind := k; w_start := ClockT c tk fr; w_state := WWaiting |} in
    let tau := inject_Z tk + fr in
    Forall (pending c tau) l1 ->
    wait_run w l1 = Ok w /\
    (forall dt i f l2, info_frac_ok i c -> due i c tau ->
       exists st, wait_run w (l1 ++ (dt, i, f) :: l2) = Ok {| w_kind := k; w_start := st; w_state := WBegun f |}) /\
    (forall dt i f l2, info_frac_ok i c -> ~ resolves i c ->
       match k with
       | WSound => wait_run w (l1 ++ (dt, i, f) :: l2) = Ok {| w_kind := k; w_start := ClockT c tk fr; w_state := WStopped |}
       | WTween => wait_run w (l1 ++ [(dt, i, f)]) = Ok w
       end).
Proof. exact event_buffer_lemma. Qed.
(** at most one buffer early, never late: in a chunk that did not trigger the event although the
    clock was ticking, the clock was strictly short of [tau] at the buffer's end *)
Theorem event_not_early :
  forall (i : info Q) (c : nat) (tau : Q) (tk : Z) (fr : Q),
    nth_error (i_clocks i) c = Some (Some (true, tk, fr)) -> ~ due i c tau -> inject_Z tk + fr < tau.
Proof. exact not_due_short. Qed.
(** never while the clock is paused *)
Theorem event_never_while_paused :
  forall (i : info Q) (c : nat) (tau : Q) (tk : Z) (fr : Q),
    nth_error (i_clocks i) c = Some (Some (false, tk, fr)) -> ~ due i c tau.
Proof. exact paused_not_due. Qed.
(** the renderer's order: within a chunk the clocks advance (by the whole chunk) first; everything
    that waits is then evaluated against the advanced clocks *)
Theorem event_sees_clocks_after_advance :
  forall (powf : Q -> Q -> Q) (y y' : sys Q) (frames : Z),
    sys_chunk powf y frames = Ok y' ->
    let d := nmul (y_dt y) (nofZ frames) in
    clocks_update powf (y_slots y) d = Ok (y_slots y') /\
    waiters_update (y_waiters y) d (info_of (y_slots y')) (y_frames y) = Ok (y_waiters y') /\
    y_frames y' = (y_frames y + frames)%Z.
Proof. exact chunk_order. Qed.
(** a dropped handle: from the next [on_start_processing] on the clock does not resolve *)
Theorem event_cancelled_when_clock_dropped :
  forall (slots : list (slot Q)) (c : nat) (s : slot Q),
    nth_error slots c = Some s -> sl_life s = Live -> sl_marked s = true ->
    ~ resolves (info_of (map slot_on_start slots)) c.
Proof. exact dropped_clock_gone. Qed.

(** F7, REGRESSION (binary64).  If the first increment [x] of a fresh ticking clock satisfies
    [x >= 1] and [x - 1 = x], [Clock::update] as it was (the loop) does not return, whatever the
    fuel; [Clock::update] as repaired returns a started, ticking clock whose tick count is within
    u64 and whose fraction is a finite number in [0,1) ... *)
Theorem tick_loop_diverges :
  forall (powf : f64 -> f64 -> f64) (sp : cspeed f64) (dt : f64) (i : info f64),
    stuck_increment sp dt ->
    (forall fuel, is_ok (clock_update_old powf fuel (fresh_ticking sp) dt i) = false) /\
    exists c' tk fr, clock_update powf (fresh_ticking sp) dt i = Ok c' /\ c_ticking c' = true /\
                     c_state c' = Started tk fr /\ (0 <= tk <= u64_max)%Z /\
                     is_finite fr = true /\ (0 <= B2R fr < 1)%R.
Proof. exact stuck_clock_regression. Qed.
(** ... and [SecondsPerTick(0.0)] and [TicksPerSecond(1e300)] are such speeds (16 frames at 512 Hz):
    the old update exhausts its fuel, the repaired one shows (u64::MAX, 0.0); [TicksPerSecond(1e9)]
    over 16 frames at 1 Hz cost the old loop 1.6e10 iterations, the repaired update shows
    (16000000000, 0.0).  These are the harness's regression cases. *)
Theorem tick_loop_diverges_refuted :
  stuck_increment spt_zero dt_16_at_512 /\ stuck_increment tps_1e300 dt_16_at_512 /\
  clock_update_old (fun _ _ => f64_of_bits 0) 200 (fresh_ticking spt_zero) dt_16_at_512 no_info = Hang /\
  clock_update_old (fun _ _ => f64_of_bits 0) 200 (fresh_ticking tps_1e300) dt_16_at_512 no_info = Hang /\
  clock_update_old (fun _ _ => f64_of_bits 0) 200 (fresh_ticking tps_1e9) dt_16_at_1 no_info = Hang /\
  shown (clock_update (fun _ _ => f64_of_bits 0) (fresh_ticking spt_zero) dt_16_at_512 no_info) = Some (u64_max, 0%Z) /\
  shown (clock_update (fun _ _ => f64_of_bits 0) (fresh_ticking tps_1e300) dt_16_at_512 no_info) = Some (u64_max, 0%Z) /\
  shown (clock_update (fun _ _ => f64_of_bits 0) (fresh_ticking tps_1e9) dt_16_at_1 no_info) = Some (16000000000%Z, 0%Z).
Proof. exact stuck_witnesses. Qed.

(** The handle's two-word read under ALL schedules of the audio thread against the handle's thread
    (reads and stops): every word read is a value that word had — nothing out of thin air. *)
Theorem handle_time_no_thin_air :
  forall (pubs : list (Z * Z)) (prog : list hop) (sched : list tid),
    let s := run_sched sched (init_st pubs prog) in
    Forall (read_ok pubs) (h_reads s) /\ In (m_ticks s) (tvals pubs) /\ In (m_frac s) (fvals pubs).
Proof. exact words_no_thin_air. Qed.
(** ... and reads that overlap no publication return exactly a time the clock had (the latest
    published one) and never go backwards in the order of publication — for all schedules. *)
Theorem handle_time_atomicity :
  forall (pubs : list (Z * Z)) (nreads : nat) (sched : list tid),
    let s := run_sched sched (init_st pubs (repeat HRead nreads)) in
    (forall r k, In r (h_reads s) -> r_clean r = Some k -> (r_tk r, r_fr r) = hist pubs k) /\
    (forall l1 r2 l2 r1 l3 k1 k2,
        h_reads s = l1 ++ r2 :: l2 ++ r1 :: l3 ->
        r_clean r1 = Some k1 -> r_clean r2 = Some k2 -> (k1 <= k2)%nat).
Proof. exact clean_reads_exact_monotone. Qed.
(** F16.  A read that straddles a publication is torn: while the clock runs from 0.75 to 1.25 the
    handle first reads 0.75 and then (ticks_old, fraction_new) = (0, 0.25): a time the clock never
    had, and earlier than the previous read. *)
Theorem torn_read_refuted :
  let s := run_sched torn_sched (init_st torn_pubs [HRead; HRead]) in
  exists r1 r2, h_reads s = [r2; r1] /\
    (r_tk r1, r_fr r1) = (0, b075)%Z /\
    (r_tk r2, r_fr r2) = (0, b025)%Z /\
    (forall k, (r_tk r2, r_fr r2) <> hist torn_pubs k) /\
    lt_time (r_tk r2, r_fr r2) (r_tk r1, r_fr r1) /\
    lt_time (hist torn_pubs 1) (hist torn_pubs 2).
Proof. exact torn_old_new. Qed.
(** the other tear, (ticks_new, fraction_old) = (1, 0.75): half a tick ahead of anything the clock
    had; the next read, the true 1.25, is then backwards *)
Theorem torn_read_ahead_refuted :
  let s := run_sched [Audio; Audio; Audio; Handle; Handle; Audio; Handle; Handle] (init_st torn_pubs [HRead; HRead]) in
  exists r1 r2, h_reads s = [r2; r1] /\
    (r_tk r1, r_fr r1) = (1, b075)%Z /\
    (forall k, (r_tk r1, r_fr r1) <> hist torn_pubs k) /\
    (r_tk r2, r_fr r2) = (1, b025)%Z /\
    lt_time (r_tk r2, r_fr r2) (r_tk r1, r_fr r1).
Proof. exact torn_new_old. Qed.
(** [ClockHandle::stop]'s caller-side stores race with a publication in progress: (0, 0.75) is left
    in the words although the clock never showed that time *)
Theorem stop_store_race_refuted :
  let s := run_sched [Audio; Handle; Handle; Audio; Handle; Handle] (init_st [(5, b075)%Z] [HStop; HRead]) in
  exists r, h_reads s = [r] /\ (r_tk r, r_fr r) = (0, b075)%Z /\ forall k, (r_tk r, r_fr r) <> hist [(5, b075)%Z] k.
Proof. exact stop_store_race. Qed.

(** [Info::when_to_start] decides on the clock's own TWO WORDS, tick count first, then fraction — for
    ANY number type and any operations on it, hence bit for bit for binary64: the event is due iff the
    clock is ticking and either its tick count is past the target's, or the tick counts are equal and
    [f64::partial_cmp] puts the clock's fraction at or above the target's.  In particular a clock whose
    tick count is still below the target's is never due, however close to 1.0 its fraction is (the two
    words are never added up into one rounded number). *)
Theorem event_time_test_two_words :
  forall (T : Type) (NT : Num T) (i : info T) (c : nat) (tk : Z) (fr : T) (ticking : bool) (ctk : Z) (cfr : T),
    nth_error (i_clocks i) c = Some (Some (ticking, ctk, cfr)) ->
    (when_to_start i c tk fr = Now <->
       ticking = true /\
       ((tk < ctk)%Z \/
        (ctk = tk /\ match ncompare cfr fr with Some Gt | Some Eq => true | _ => false end = true))) /\
    ((ctk < tk)%Z -> when_to_start i c tk fr = Later).
Proof. exact (fun T NT => @when_to_start_two_words T NT). Qed.

(** Pick-up order.  The user's thread creates a clock and THEN gives a track a sound that waits for a
    time of that clock, while the audio thread is anywhere in its callback ([pc]) and the two threads
    interleave in ANY way ([sched]).  With the order of [Renderer::on_start_processing] (the mixer
    drains the tracks' new sounds first, the clocks are drained second) no buffer is ever rendered in
    which the audio thread has the sound but not the clock: the sound is never cancelled ([Never])
    while its clock exists ... *)
Theorem pickup_clock_before_waiter :
  forall (pc : nat) (sched : list ptid), (pc < 3)%nat ->
    p_cancelled (prun (callback kira_order) sched (pinit pc)) = false.
Proof. exact pickup_never_cancelled. Qed.
(** ... whereas with the two drains the other way round there is a schedule (the user's two calls fall
    between the drains) in which it is. *)
Theorem pickup_swapped_order_refuted :
  exists sched : list ptid, p_cancelled (prun (callback swapped_order) sched (pinit 0)) = true.
Proof. exact pickup_swapped_cancels. Qed.
