(** C05 — the clock's speed parameter: the C06 tween law for [Parameter<ClockSpeed>], speed changes
    take effect when due, a tween on the clock's OWN time never starts (F17), speeds whose tick
    loop never ends (F7). *)
From Coq Require Import ZArith QArith Qround Lia Lqa Bool List Eqdep_dec.
From KV Require Import Base.IEEE Base.Outcome Base.Num Base.QLemmas C19.Model C19.ProofsTime C06.Model C06.Dur C06.Proofs
  C05.Model C05.ProofsClock C05.ProofsEvent.
Import ListNotations.
Local Open Scope Q_scope.

(** ** the tween law of C06.Proofs, for any value type (same proof; [counts], [elapsed], [completes]
    are C06's) *)
Section LawV.
  Variable powf : Q -> Q -> Q.
  Variable V : Type.
  Variable interp : V -> V -> Q -> V.
  Notation paramV := (param Q V).
  Definition updV (p : paramV) (dt : Q) (i : info Q) := param_update powf V interp p dt i.
  Definition runV (p : paramV) (ops : list (pop Q V)) := param_run powf V interp p ops.
  Definition updatesV (l : list (Q * info Q)) : list (pop Q V) := map (fun '(dt, i) => OUpdate dt i) l.
  Definition the_lawV (v0 tg : V) (e : easing Q) (D t : Q) : V := interp v0 tg (ease powf e (ndiv t D)).
  Definition midV (p : paramV) (v0 tg : V) (t : Q) (tw : tween Q) : Prop :=
    p_state p = Tweening v0 (Fixed tg) t tw /\ p_stagnant p = false.

  Lemma updV_mid_counts p v0 tg t tw dt i :
    midV p v0 tg t tw -> not_delayed (tw_start tw) -> (tw_dur tw <> 0)%Z -> counts (tw_start tw) i = true ->
    let t' := nadd t dt in
    let D := ns_to_secs_Q (tw_dur tw) in
    updV p dt i =
      if Qle_bool D t'
      then Ok ({| p_state := Idle (Fixed tg); p_raw := tg; p_prev := p_raw p; p_stagnant := true |}, true)
      else Ok ({| p_state := Tweening v0 (Fixed tg) t' tw;
                  p_raw := the_lawV v0 tg (tw_easing tw) D t'; p_prev := p_raw p; p_stagnant := false |}, false).
  Proof.
    intros [Hs Hg] Hnd Hdur Hc t' D. unfold updV, param_update. rewrite Hg, Hs. cbn [update_tween].
    assert (Hstart : match tw_start tw with
                     | Immediate => Ok (true, tw)
                     | Delayed rem => if (rem =? 0)%Z then Ok (true, tw)
                                      else obind (secs_to_ns dt) (fun d => Ok (false, {| tw_start := Delayed (sat_sub rem d); tw_dur := tw_dur tw; tw_easing := tw_easing tw |}))
                     | ClockT c tk fr => Ok (match when_to_start i c tk fr with Now => true | _ => false end, tw)
                     end = Ok (true, tw)).
    { destruct (tw_start tw) as [|ns|c tk fr]; cbn in *; [reflexivity| |].
      - subst ns. reflexivity.
      - rewrite Hc. reflexivity. }
    rewrite Hstart. cbn [obind negb]. fold t'.
    change (nleb (ns_to_secs (tw_dur tw)) t') with (Qle_bool D t').
    destruct (Qle_bool D t'); cbn [obind new_raw raw_of].
    - reflexivity.
    - destruct (Z.eqb_spec (tw_dur tw) 0) as [E|E]; [contradiction|]. cbn [option_map]. reflexivity.
  Qed.

  (** an update that does not count leaves the tween where it is — whatever its duration *)
  Lemma updV_mid_skips_state p v0 tg t tw dt i :
    midV p v0 tg t tw -> not_delayed (tw_start tw) -> counts (tw_start tw) i = false ->
    exists p', updV p dt i = Ok (p', false) /\ midV p' v0 tg t tw /\
               p_raw p' = (if (tw_dur tw =? 0)%Z then p_raw p
                           else the_lawV v0 tg (tw_easing tw) (ns_to_secs_Q (tw_dur tw)) t).
  Proof.
    intros [Hs Hg] Hnd Hc. unfold updV, param_update. rewrite Hg, Hs. cbn [update_tween].
    destruct (tw_start tw) as [|ns|c tk fr] eqn:Est; cbn in Hc, Hnd.
    - discriminate.
    - subst ns. discriminate.
    - rewrite Hc. cbn [obind negb new_raw raw_of]. eexists. split; [reflexivity|].
      split; [split; reflexivity|]. cbn [p_raw]. destruct (tw_dur tw =? 0)%Z; reflexivity.
  Qed.

  Lemma idle_fixed_foreverV (p : paramV) tg l :
    p_state p = Idle (Fixed tg) -> p_raw p = tg ->
    exists p', runV p (updatesV l) = Ok p' /\ p_state p' = Idle (Fixed tg) /\ p_raw p' = tg.
  Proof.
    revert p. induction l as [|[dt i] l IH]; intros p Hs Hr.
    - exists p. repeat split; assumption.
    - cbn [updatesV map runV param_run param_step]. unfold param_update.
      destruct (p_stagnant p) eqn:Sg; cbn [obind].
      + apply IH; cbn [p_state p_raw]; [exact Hs|exact Hr].
      + rewrite Hs. cbn [update_tween obind new_raw raw_of]. apply IH; cbn [p_state p_raw]; reflexivity.
  Qed.

  Lemma law_runV (l : list (Q * info Q)) : forall (p : paramV) v0 tg t tw,
    midV p v0 tg t tw -> not_delayed (tw_start tw) -> (tw_dur tw <> 0)%Z ->
    let D := ns_to_secs_Q (tw_dur tw) in
    exists p', runV p (updatesV l) = Ok p' /\
      if completes (tw_start tw) D t l
      then p_state p' = Idle (Fixed tg) /\ p_raw p' = tg
      else midV p' v0 tg (elapsed (tw_start tw) t l) tw /\
           (l <> [] -> p_raw p' = the_lawV v0 tg (tw_easing tw) D (elapsed (tw_start tw) t l)).
  Proof.
    induction l as [|[dt i] l IH]; intros p v0 tg t tw Hm Hnd Hdur D.
    - exists p. split; [reflexivity|]. cbn. split; [assumption|]. intro H; contradiction.
    - cbn [updatesV map runV param_run param_step completes elapsed].
      destruct (counts (tw_start tw) i) eqn:Hc.
      + pose proof (updV_mid_counts p v0 tg t tw dt i Hm Hnd Hdur Hc) as U. cbn zeta in U.
        unfold updV in U. rewrite U. fold D.
        destruct (Qle_bool D (nadd t dt)) eqn:Hle; cbn [obind].
        * destruct (idle_fixed_foreverV {| p_state := Idle (Fixed tg); p_raw := tg; p_prev := p_raw p; p_stagnant := true |} tg l)
            as [p' [R [S1 S2]]]; [reflexivity|reflexivity|].
          exists p'. split; [exact R|]. split; assumption.
        * set (p1 := {| p_state := Tweening v0 (Fixed tg) (nadd t dt) tw; p_raw := _; p_prev := _; p_stagnant := false |}).
          destruct (IH p1 v0 tg (nadd t dt) tw) as [p' [R C]]; [split; reflexivity|assumption|assumption|].
          exists p'. split; [exact R|]. fold D in C.
          destruct (completes (tw_start tw) D (nadd t dt) l); [exact C|].
          destruct C as [C1 C2]. split; [exact C1|]. intros _.
          destruct l as [|x l']; [|apply C2; discriminate].
          cbn in R. inversion R. subst p'. reflexivity.
      + destruct (updV_mid_skips_state p v0 tg t tw dt i Hm Hnd Hc) as [p1 [U [M1 R1]]].
        unfold updV in U. rewrite U. cbn [obind]. fold D.
        destruct (IH p1 v0 tg t tw M1 Hnd Hdur) as [p' [R C]].
        exists p'. split; [exact R|]. fold D in C.
        destruct (completes (tw_start tw) D t l); [exact C|].
        destruct C as [C1 C2]. split; [exact C1|]. intros _.
        destruct l as [|x l']; [|apply C2; discriminate].
        cbn in R. inversion R. subst p'. rewrite R1.
        destruct (Z.eqb_spec (tw_dur tw) 0) as [E|E]; [contradiction|]. reflexivity.
  Qed.

  (** zero duration with an immediate start: the target is the value at the very next update *)
  Lemma set_immediate_zeroV (p : paramV) tg tw dt i :
    tw_start tw = Immediate -> tw_dur tw = 0%Z -> 0 <= dt ->
    updV (param_set p (Fixed tg) tw) dt i =
      Ok ({| p_state := Idle (Fixed tg); p_raw := tg; p_prev := p_raw p; p_stagnant := true |}, true).
  Proof.
    intros Hs Hd Hdt. unfold updV, param_update, param_set. cbn [p_stagnant p_state update_tween]. rewrite Hs.
    cbn [obind negb]. rewrite Hd.
    assert (L : nleb (ns_to_secs 0%Z) (nadd n0 dt) = true).
    { cbn [nleb nadd n0 ns_to_secs NumDur_Q Num_Q]. apply Qle_bool_iff. unfold ns_to_secs_Q.
      rewrite !Qred_correct. assert (Z0 : 0 # 1000000000 == 0) by reflexivity. rewrite Z0. lra. }
    rewrite L. reflexivity.
  Qed.
End LawV.

Section Speed.
  Variable powf : Q -> Q -> Q.
  Notation clockQ := (clock Q).
  Notation sp_interp := (@cspeed_interpolate Q Num_Q).

  (** the clock runs its speed parameter exactly as C06's [param_run] does *)
  Lemma clock_run_speed (l : list (Q * info Q)) : forall (c c' : clockQ),
    clock_run powf c l = Ok c' ->
    runV powf (cspeed Q) sp_interp (c_speed c) (updatesV (cspeed Q) l) = Ok (c_speed c').
  Proof.
    induction l as [|[dt i] l IH]; intros c c' R.
    - cbn in R. inversion R. reflexivity.
    - cbn [clock_run] in R. cbn [updatesV map runV param_run param_step].
      unfold clock_update in R.
      destruct (param_update powf (cspeed Q) cspeed_interpolate (c_speed c) dt i) as [[sp fin]| |]; cbn [obind] in *; try discriminate.
      destruct (negb (c_ticking c)).
      + cbn [obind] in R. apply IH in R. exact R.
      + destruct (state_time (c_state c)) as [tk fr].
        destruct (tick_update tk (nadd fr (nmul (as_tps (p_raw sp)) dt))) as [tk' fr'].
        apply IH in R. exact R.
  Qed.

  (** A speed change (a [set_speed] command read at [on_start_processing]) takes effect when due:
      for EVERY list of updates the clock then makes, the speed is the old speed until the tween's
      start time counts, then old + (target - old) * ease(elapsed / duration) in the target's unit,
      and identically the target from the update at which elapsed >= duration. *)
  Lemma speed_change_when_due_lemma (c c' : clockQ) (tg : cspeed Q) (tw : tween Q) (l : list (Q * info Q)) :
    not_delayed (tw_start tw) -> (tw_dur tw <> 0)%Z -> l <> [] ->
    let c0 := clock_on_start c {| k_speed := Some (Fixed tg, tw); k_ticking := None; k_reset := false |} in
    clock_run powf c0 l = Ok c' ->
    let D := ns_to_secs_Q (tw_dur tw) in
    if completes (tw_start tw) D 0 l
    then p_state (c_speed c') = Idle (Fixed tg) /\ p_raw (c_speed c') = tg
    else p_raw (c_speed c') =
         cspeed_interpolate (p_raw (c_speed c)) tg (ease powf (tw_easing tw) (ndiv (elapsed (tw_start tw) 0 l) D)).
  Proof.
    intros Hnd Hdur Hl c0 R D. apply clock_run_speed in R.
    assert (M : midV (cspeed Q) (c_speed c0) (p_raw (c_speed c)) tg 0 tw) by (split; reflexivity).
    destruct (law_runV powf (cspeed Q) sp_interp l (c_speed c0) _ _ _ _ M Hnd Hdur) as [p' [R' C]].
    unfold runV in R, R'. rewrite R in R'. inversion R'. subst p'. fold D in C.
    destruct (completes (tw_start tw) D 0 l); [exact C|]. destruct C as [_ C]. apply C. exact Hl.
  Qed.

  (** A speed tween measured in audio time keeps running while the clock itself is frozen: given to a
      clock that is not ticking, for every list of updates the clock's time stays where it was AND the
      speed follows the same law as on a running clock (so a clock started after the tween's end runs at
      the target speed from its first update). *)
  Lemma speed_tween_runs_while_paused_lemma (c c' : clockQ) (tg : cspeed Q) (tw : tween Q) (l : list (Q * info Q)) :
    c_ticking c = false ->
    not_delayed (tw_start tw) -> (tw_dur tw <> 0)%Z -> l <> [] ->
    let c0 := clock_on_start c {| k_speed := Some (Fixed tg, tw); k_ticking := None; k_reset := false |} in
    clock_run powf c0 l = Ok c' ->
    let D := ns_to_secs_Q (tw_dur tw) in
    c_state c' = c_state c /\ c_ticking c' = false /\
    if completes (tw_start tw) D 0 l
    then p_state (c_speed c') = Idle (Fixed tg) /\ p_raw (c_speed c') = tg
    else p_raw (c_speed c') =
         cspeed_interpolate (p_raw (c_speed c)) tg (ease powf (tw_easing tw) (ndiv (elapsed (tw_start tw) 0 l) D)).
  Proof.
    intros Ht Hnd Hdur Hl c0 R D.
    assert (Ht0 : c_ticking c0 = false) by exact Ht.
    destruct (paused_frozen_run powf l c0 c' Ht0 R) as [F1 F2].
    split; [exact F1|]. split; [exact F2|].
    exact (speed_change_when_due_lemma c c' tg tw l Hnd Hdur Hl R).
  Qed.

  (** ** F17: the clock's own id resolves to the dummy while the clock is updated *)
  Lemma nth_error_set_nth_ge {A} (k : nat) (x : A) (l : list A) : (length l <= k)%nat -> nth_error (set_nth k x l) k = None.
  Proof. intro H. apply nth_error_None. rewrite set_nth_length. exact H. Qed.

  Lemma own_id_never_now (slots : list (slot Q)) (k : nat) (tk : Z) (fr : Q) :
    when_to_start (info_for slots k) k tk fr <> Now.
  Proof.
    unfold when_to_start, info_for. cbn [i_clocks].
    destruct (Nat.lt_ge_cases k (length (map slot_info slots))) as [L|G].
    - rewrite nth_error_set_nth_eq by exact L. cbn. discriminate.
    - rewrite nth_error_set_nth_ge by exact G. discriminate.
  Qed.
  (** ... while every OTHER id resolves to the real clock *)
  Lemma other_id_real (slots : list (slot Q)) (k c : nat) (tk : Z) (fr : Q) :
    c <> k -> when_to_start (info_for slots k) c tk fr = when_to_start (info_of slots) c tk fr.
  Proof.
    intro N. unfold when_to_start, info_for, info_of. cbn [i_clocks].
    rewrite nth_error_set_nth_neq by exact N. reflexivity.
  Qed.

  (** the updates clock [k] makes: each with the storage as it is at that moment, its own slot
      replaced by the dummy *)
  Definition own_updates (k : nat) (l : list (Q * list (slot Q))) : list (Q * info Q) :=
    map (fun x => (fst x, info_for (snd x) k)) l.

  Lemma self_reference_lemma (k : nat) (tk : Z) (fr : Q) (l : list (Q * list (slot Q))) :
    forall (c c' : clockQ) v0 tg t tw,
    midV (cspeed Q) (c_speed c) v0 tg t tw -> tw_start tw = ClockT k tk fr ->
    clock_run powf c (own_updates k l) = Ok c' ->
    midV (cspeed Q) (c_speed c') v0 tg t tw.
  Proof.
    induction l as [|[dt slots] l IH]; intros c c' v0 tg t tw M Hs R.
    - cbn in R. inversion R. subst c'. exact M.
    - cbn [own_updates map fst snd clock_run] in R.
      assert (Hc : counts (tw_start tw) (info_for slots k) = false).
      { rewrite Hs. cbn [counts]. pose proof (own_id_never_now slots k tk fr) as N.
        destruct (when_to_start (info_for slots k) k tk fr); [contradiction|reflexivity|reflexivity]. }
      assert (Hnd : not_delayed (tw_start tw)) by (rewrite Hs; exact I).
      destruct (updV_mid_skips_state powf (cspeed Q) sp_interp (c_speed c) v0 tg t tw dt (info_for slots k) M Hnd Hc) as [p1 [U [M1 _]]].
      unfold clock_update in R. unfold updV in U. rewrite U in R. cbn [obind] in R.
      destruct (negb (c_ticking c)).
      + cbn [obind] in R. eapply IH; [| exact Hs | exact R]. exact M1.
      + destruct (state_time (c_state c)) as [tk0 fr0].
        destruct (tick_update tk0 (nadd fr0 (nmul (as_tps (p_raw p1)) dt))) as [tk' fr'].
        eapply IH; [| exact Hs | exact R]. exact M1.
  Qed.
End Speed.

(** [Clocks::update] = [for_each]: clock [k] is updated against the storage in which its own slot
    shows the dummy; the others are seen as they are at that moment *)
Lemma for_each_own_dummy {T : Type} {NT : Num T} {ND : NumDur T} (powf : T -> T -> T)
      (k : nat) (todo : list nat) (slots : list (slot T)) (s : slot T) (dt : T) :
  nth_error slots k = Some s -> sl_life s = Live ->
  clocks_update_from powf (k :: todo) slots dt =
    (let! c' := clock_update powf (sl_clock s) dt (info_for slots k) in
     clocks_update_from powf todo (set_nth k (with_clock s c') slots) dt).
Proof. intros E L. cbn [clocks_update_from]. rewrite E, L. reflexivity. Qed.

(** the witness: two clocks at 2 ticks/s, 512 Hz, buffers of 64 frames, 4 s of audio; clock 0 is told
    to switch to 8 ticks/s at tick 1.  Scheduled on its OWN time the change never happens (8 ticks =
    2 x 4); scheduled on the other clock (which shows the same time) it does (29 ticks). *)
Definition f17_ops (on : nat) : list (op Q) :=
  [OAddClock (TicksPerSecond 2); OAddClock (TicksPerSecond 2); OStart 0; OStart 1;
   OSetSpeed 0 (TicksPerSecond 8) {| tw_start := ClockT on 1 0; tw_dur := 0; tw_easing := Linear |};
   OStartProcessing; OProcess 2048; OStartProcessing].
Lemma self_reference_witness :
  exists y_own y_other,
    sys_run (fun _ _ => 0) (sys_new 512 64) (f17_ops 0) = Ok y_own /\
    sys_run (fun _ _ => 0) (sys_new 512 64) (f17_ops 1) = Ok y_other /\
    handle_view y_own 0 = Some (true, 8%Z, 0) /\ handle_view y_own 1 = Some (true, 8%Z, 0) /\
    handle_view y_other 0 = Some (true, 29%Z, 0).
Proof. eexists. eexists. split; [vm_compute; reflexivity|]. split; [vm_compute; reflexivity|]. repeat split. Qed.

(** ** F7 (repaired): speeds whose per-update increment [x] satisfies [x >= 1] and [x - 1 = x].
    The OLD loop never returns on them; the new [tick_update] has no loop. *)
Lemma stuck_never_returns {T : Type} {NT : Num T} (x : T) :
  nleb n1 x = true -> nsub x n1 = x -> forall (fuel : nat) (tk : Z), is_ok (tick_loop_old fuel tk x) = false.
Proof.
  intros L S. induction fuel as [|f IH]; intro tk; cbn [tick_loop_old]; rewrite L; [reflexivity|].
  cbn zeta. rewrite S. unfold add_chk. destruct (tk + 1 >? u64_max)%Z; cbn [obind]; [reflexivity|apply IH].
Qed.

Definition fresh_ticking {T : Type} {NT : Num T} (sp : cspeed T) : clock T :=
  {| c_ticking := true; c_speed := param_new (Fixed sp) (TicksPerMinute (nofZ 120)); c_state := NotStarted |}.
(** the class: the first increment of a fresh clock never lets the OLD loop condition become false *)
Definition stuck_increment (sp : cspeed f64) (dt : f64) : Prop :=
  let x := nadd n0 (nmul (as_tps sp) dt) in nleb n1 x = true /\ nsub x n1 = x.

Lemma stuck_clock_never_returned (powf : f64 -> f64 -> f64) (sp : cspeed f64) (dt : f64) (i : info f64) :
  stuck_increment sp dt -> forall fuel, is_ok (clock_update_old powf fuel (fresh_ticking sp) dt i) = false.
Proof.
  intros [L S] fuel. unfold clock_update_old, fresh_ticking, param_update, param_new.
  cbn [c_speed p_stagnant obind c_ticking negb c_state state_time p_raw].
  pose proof (stuck_never_returns _ L S fuel 0%Z) as H.
  destruct (tick_loop_old fuel 0 (nadd n0 (nmul (as_tps sp) dt))) as [[tk fr]| |]; cbn [obind is_ok] in *; [discriminate|reflexivity|reflexivity].
Qed.

(** [Clock::update] as repaired returns whenever its speed parameter's update does — for every
    number type, every clock, every [dt]: it contains no loop and no checked arithmetic *)
Lemma clock_update_returns {T : Type} {NT : Num T} {ND : NumDur T} (powf : T -> T -> T)
      (c : clock T) (dt : T) (i : info T) :
  is_ok (clock_update powf c dt i) = is_ok (param_update powf (cspeed T) cspeed_interpolate (c_speed c) dt i).
Proof.
  unfold clock_update.
  destruct (param_update powf (cspeed T) cspeed_interpolate (c_speed c) dt i) as [[sp fin]| |]; cbn [obind is_ok]; try reflexivity.
  destruct (negb (c_ticking c)); [reflexivity|].
  destruct (state_time (c_state c)) as [tk fr].
  destruct (tick_update tk (nadd fr (nmul (as_tps (p_raw sp)) dt))) as [tk' fr']. reflexivity.
Qed.

(** what a clock shows after an update, as integers (ticks, bit pattern of the fraction) *)
Definition shown (o : outcome (clock f64)) : option (Z * Z) :=
  match o with
  | Ok c => match c_state c with Started tk fr => Some (tk, bits_of_f64 fr) | NotStarted => None end
  | _ => None
  end.

Definition dt_16_at_512 : f64 := f64_of_bits 4584664420663164928.   (* 16 / 512 s *)
Definition spt_zero : cspeed f64 := SecondsPerTick (f64_of_bits 0).
Definition tps_1e300 : cspeed f64 := TicksPerSecond (f64_of_bits 9094988921128908188).
(** two floats with the same sign, mantissa and exponent are equal: the boundedness proof is an
    equality between booleans, which is unique (no axiom) *)
Definition same (a b : f64) : Prop :=
  match a, b with
  | BinarySingleNaN.B754_zero s, BinarySingleNaN.B754_zero s' => s = s'
  | BinarySingleNaN.B754_infinity s, BinarySingleNaN.B754_infinity s' => s = s'
  | BinarySingleNaN.B754_nan, BinarySingleNaN.B754_nan => True
  | BinarySingleNaN.B754_finite s m e _, BinarySingleNaN.B754_finite s' m' e' _ => s = s' /\ m = m' /\ e = e'
  | _, _ => False
  end.
Lemma same_eq (a b : f64) : same a b -> a = b.
Proof.
  destruct a as [s|s| |s m e p], b as [s'|s'| |s' m' e' p']; cbn [same]; try contradiction.
  - intros ->. reflexivity.
  - intros ->. reflexivity.
  - reflexivity.
  - intros (-> & -> & ->). f_equal. apply UIP_dec. apply Bool.bool_dec.
Qed.

Definition dt_16_at_1 : f64 := f64_of_bits 4625196817309499392.     (* 16 / 1 s: 16 frames at a 1 Hz device rate *)
Definition tps_1e9 : cspeed f64 := TicksPerSecond (f64_of_bits 4741671816366391296).
(** the witnesses replayed on the implementation.  [SecondsPerTick(0.0)] (increment +inf) and
    [TicksPerSecond(1e300)] (increment 3.125e298) are stuck increments: the old [Clock::update]
    exhausts any fuel; the repaired one shows (u64::MAX, 0.0).  [TicksPerSecond(1e9)] over 16 s is
    not stuck, but the old loop needed 1.6e10 iterations (here: more than 200); the repaired update
    shows (16000000000, 0.0) at once. *)
Lemma stuck_witnesses :
  stuck_increment spt_zero dt_16_at_512 /\ stuck_increment tps_1e300 dt_16_at_512 /\
  clock_update_old (fun _ _ => f64_of_bits 0) 200 (fresh_ticking spt_zero) dt_16_at_512 no_info = Hang /\
  clock_update_old (fun _ _ => f64_of_bits 0) 200 (fresh_ticking tps_1e300) dt_16_at_512 no_info = Hang /\
  clock_update_old (fun _ _ => f64_of_bits 0) 200 (fresh_ticking tps_1e9) dt_16_at_1 no_info = Hang /\
  shown (clock_update (fun _ _ => f64_of_bits 0) (fresh_ticking spt_zero) dt_16_at_512 no_info) = Some (u64_max, 0%Z) /\
  shown (clock_update (fun _ _ => f64_of_bits 0) (fresh_ticking tps_1e300) dt_16_at_512 no_info) = Some (u64_max, 0%Z) /\
  shown (clock_update (fun _ _ => f64_of_bits 0) (fresh_ticking tps_1e9) dt_16_at_1 no_info) = Some (16000000000%Z, 0%Z).
Proof.
  split; [split; [vm_compute; reflexivity|apply same_eq; vm_compute; reflexivity]|].
  split; [split; [vm_compute; reflexivity|apply same_eq; vm_compute; repeat split; reflexivity]|].
  repeat split; vm_compute; reflexivity.
Qed.

(** non-vacuity of [clock_run_exact]'s hypotheses: a linear speed tween 2 -> 4 ticks/s over 1 s,
    two updates of 1/2 s: the speeds in force are 3 and 4, the increments 3/2 and 2 *)
Example varying_example :
  let c := clock_on_start (fresh_ticking (TicksPerSecond 2))
             {| k_speed := Some (Fixed (TicksPerSecond 4), {| tw_start := Immediate; tw_dur := 1000000000; tw_easing := Linear |});
                k_ticking := None; k_reset := false |} in
  increments (fun _ _ => 0) (c_speed c) [(1 # 2, no_info); (1 # 2, no_info)] = Ok [3 # 2; 2] /\
  exists c', clock_run (fun _ _ => 0) c [(1 # 2, no_info); (1 # 2, no_info)] = Ok c' /\ c_state c' = Started 3 (1 # 2).
Proof. split; [vm_compute; reflexivity|]. eexists. split; vm_compute; reflexivity. Qed.

(** * binary64 proper (Flocq reals): the repaired tick split is total, and equal to the old loop
    wherever that loop was exact.  (Imported here, at the end: from this point on [lra] is the real
    one; the exact-subtraction lemmas of the carry loops are C01's.) *)
From Coq Require Import Reals Lra.
From Flocq Require Import Core IEEE754.BinarySingleNaN.
From KV Require Import C01.Model C01.ProofsLoops.
Local Open Scope R_scope.

(** [x - floor x] of a non-negative binary64 number is a binary64 number *)
Lemma frac_format (x : R) : fmt64 x -> 0 <= x -> fmt64 (x - IZR (Zfloor x)).
Proof.
  intros Fx L.
  assert (Fx' : generic_format radix2 (FLT_exp (-1074) 53) x) by exact Fx.
  apply FLT_format_generic in Fx'; [|reflexivity].
  destruct Fx' as [[m e] Hx Hm He]. cbn [Fnum Fexp] in *. unfold F2R in Hx. cbn [Fnum Fexp] in Hx.
  change (generic_format radix2 (FLT_exp (-1074) 53) (x - IZR (Zfloor x))).
  destruct (Z_lt_le_dec e 0) as [Hneg|Hpos].
  - assert (P : IZR (2 ^ (- e)) = bpow radix2 (- e)) by (apply (IZR_Zpower radix2); lia).
    assert (Pp : (0 < 2 ^ (- e))%Z) by (apply Z.pow_pos_nonneg; lia).
    assert (Be : 0 < bpow radix2 e) by apply bpow_gt_0.
    assert (Q : bpow radix2 e = / IZR (2 ^ (- e))) by (rewrite P, bpow_opp, Rinv_inv; reflexivity).
    assert (M0 : (0 <= m)%Z).
    { apply le_IZR. apply Rmult_le_reg_r with (bpow radix2 e); [exact Be|]. rewrite Rmult_0_l, <- Hx. exact L. }
    assert (Fl : Zfloor x = (m / 2 ^ (- e))%Z).
    { rewrite Hx, Q. apply Zfloor_div. lia. }
    apply generic_format_FLT.
    apply (FLT_spec radix2 (-1074) 53 _ (Float radix2 (m mod 2 ^ (- e)) e)).
    + unfold F2R. cbn [Fnum Fexp]. rewrite Fl, Hx.
      rewrite (Z.mod_eq m (2 ^ (- e))) by lia. rewrite minus_IZR, mult_IZR, Q.
      field. apply IZR_neq. lia.
    + cbn [Fnum]. pose proof (Z.mod_pos_bound m (2 ^ (- e)) Pp) as B.
      assert (m mod 2 ^ (- e) <= m)%Z by (apply Z.mod_le; lia).
      rewrite Z.abs_eq by lia. rewrite Z.abs_eq in Hm by lia. lia.
    + exact He.
  - assert (P : bpow radix2 e = IZR (2 ^ e)) by (symmetry; apply (IZR_Zpower radix2); lia).
    assert (N : x = IZR (m * 2 ^ e)) by (rewrite mult_IZR, <- P; exact Hx).
    rewrite N, Zfloor_IZR, Rminus_diag_eq by reflexivity. apply generic_format_0.
Qed.

(** [f64::floor] of a finite number *)
Lemma floor64_correct (x : f64) :
  is_finite x = true -> is_finite (floor64 x) = true /\ B2R64 (floor64 x) = IZR (Zfloor (B2R x)).
Proof.
  intro Fx. destruct (Bnearbyint_correct 53 1024 Hmax64 mode_DN x) as (R & F & _).
  change (Bnearbyint mode_DN x) with (floor64 x) in *. split; [rewrite F; exact Fx|].
  rewrite R, round_FIX_IZR. reflexivity.
Qed.

Lemma sign_of_ge1 (x : f64) : is_finite x = true -> 1 <= B2R x -> Bsign x = false.
Proof.
  intros Fx Hx. destruct x as [s|s| |s m e He]; try discriminate.
  - cbn in Hx. lra.
  - destruct s; [|reflexivity]. exfalso. cbn in Hx.
    assert (F2R (Float radix2 (Z.neg m) e) < 0) by (apply F2R_lt_0; reflexivity). lra.
Qed.

(** an exact, non-negative difference of a non-negative-signed number: finite, exact, sign + *)
Lemma sub64_exact_sign (x y : f64) :
  is_finite x = true -> is_finite y = true -> Bsign x = false ->
  fmt64 (B2R x - B2R y) -> 0 <= B2R x - B2R y -> B2R x - B2R y < bpow radix2 1024 ->
  is_finite (sub64 x y) = true /\ B2R64 (sub64 x y) = B2R x - B2R y /\ Bsign (sub64 x y) = false.
Proof.
  intros Fx Fy Sx Fmt L U.
  pose proof (Bminus_correct 53 1024 Hprec64 Hmax64 mode_NE x y Fx Fy) as H.
  change (Bminus mode_NE x y) with (sub64 x y) in H.
  pose proof (fexp_correct 53 1024 Hprec64) as Vexp.
  pose proof (valid_rnd_round_mode mode_NE) as Vrnd.
  rewrite (round_generic radix2 fexp64 (round_mode mode_NE) _ Fmt) in H.
  rewrite Rlt_bool_true in H by (rewrite Rabs_pos_eq; assumption).
  destruct H as (HR & HF & HS). split; [exact HF|]. split; [exact HR|].
  rewrite HS, Sx. destruct (Rcompare_spec (B2R x - B2R y) 0); [lra|reflexivity|reflexivity].
Qed.

Lemma sub1_exact_sign (x : f64) :
  is_finite x = true -> 1 <= B2R x <= IZR (2 ^ 53) ->
  is_finite (sub64 x one64) = true /\ B2R64 (sub64 x one64) = B2R x - 1 /\ Bsign (sub64 x one64) = false.
Proof.
  intros Fx Hx. rewrite <- B2R_one64.
  apply sub64_exact_sign; try assumption; try reflexivity.
  - apply sign_of_ge1; [exact Fx|lra].
  - rewrite B2R_one64. apply sub1_format; [apply generic_format_B2R|exact Hx].
  - rewrite B2R_one64. lra.
  - rewrite B2R_one64. apply Rle_lt_trans with (IZR (2 ^ 53)); [lra|].
    change (bpow radix2 1024) with (IZR (2 ^ 1024)). apply IZR_lt. reflexivity.
Qed.

(** COUNTER-MODEL in binary64: the old loop runs [n = floor x] times, every subtraction exact *)
Lemma tick_loop_old_b64 (n : nat) : forall (x : f64) (fuel : nat) (tk : Z),
  is_finite x = true -> Bsign x = false -> INR n <= B2R x < INR n + 1 -> B2R x <= IZR (2 ^ 53) ->
  (n <= fuel)%nat -> (tk + Z.of_nat n <= u64_max)%Z ->
  exists r, tick_loop_old (T := f64) fuel tk x = Ok ((tk + Z.of_nat n)%Z, r) /\
            is_finite r = true /\ B2R64 r = B2R x - INR n /\ Bsign r = false.
Proof.
  induction n as [|n IH]; intros x fuel tk Fx Sx Hx U Hf Hb.
  - exists x.
    assert (N : nleb n1 x = false).
    { change (nleb n1 x) with (le64 one64 x). destruct (le64 one64 x) eqn:E; [|reflexivity].
      apply (ge1_spec x Fx) in E. cbn in Hx. lra. }
    destruct fuel; cbn [tick_loop_old]; rewrite N; rewrite Z.add_0_r; cbn [INR];
      (split; [reflexivity|split; [exact Fx|split; [lra|exact Sx]]]).
  - rewrite S_INR in Hx. pose proof (pos_INR n) as Pn.
    assert (G : nleb n1 x = true) by (change (nleb n1 x) with (le64 one64 x); apply (ge1_spec x Fx); lra).
    destruct fuel as [|f]; [lia|].
    destruct (sub1_exact_sign x Fx) as (F1 & R1 & S1); [lra|].
    destruct (IH (sub64 x one64) f (tk + 1)%Z F1 S1) as [r (E & Fr & Rr & Sr)];
      [rewrite R1; lra|rewrite R1; lra|lia|lia|].
    exists r. cbn [tick_loop_old]. rewrite G. cbn zeta.
    unfold add_chk. destruct (Z.gtb_spec (tk + 1) u64_max) as [O|O]; [lia|]. cbn [obind].
    change (nsub x n1) with (sub64 x one64). rewrite E.
    split; [f_equal; f_equal; lia|]. split; [exact Fr|]. split; [|exact Sr]. rewrite Rr, R1, S_INR. lra.
Qed.

(** [whole_ticks as u64] for the floor of a finite timer >= 1 *)
Lemma to_u64_floor64 (x : f64) :
  is_finite x = true -> 1 <= B2R x -> to_u64_64 (floor64 x) = Z.min u64_max (Zfloor (B2R x)).
Proof.
  intros Fx Hx. destruct (floor64_correct x Fx) as [Ff Rf].
  assert (P : (1 <= Zfloor (B2R x))%Z) by (apply Zfloor_lub; exact Hx).
  assert (T : to_Z_trunc 53 1024 (floor64 x) = Zfloor (B2R x)).
  { apply eq_IZR. unfold to_Z_trunc. rewrite Btrunc_correct, round_FIX_IZR, Rf, Ztrunc_IZR; [reflexivity|exact Hmax64]. }
  unfold to_u64_64, to_u64. rewrite T. unfold u64_max.
  destruct (floor64 x) as [s|s| |s m e He]; try discriminate;
    (destruct (Z.ltb_spec (Zfloor (B2R x)) 0); [lia|]);
    (destruct (Z.geb_spec (Zfloor (B2R x)) (2 ^ 64)); lia).
Qed.

(** the repaired split on a finite timer >= 1 — of ANY size *)
Lemma tick_update_b64_ge1 (x : f64) (tk : Z) :
  is_finite x = true -> 1 <= B2R x -> (0 <= tk <= u64_max)%Z ->
  exists r, tick_update (T := f64) tk x = (Z.min u64_max (tk + Zfloor (B2R x)), r) /\
            is_finite r = true /\ B2R64 r = B2R x - IZR (Zfloor (B2R x)) /\ Bsign r = false /\ 0 <= B2R r < 1.
Proof.
  intros Fx Hx Htk. destruct (floor64_correct x Fx) as [Ff Rf].
  assert (P : (1 <= Zfloor (B2R x))%Z) by (apply Zfloor_lub; exact Hx).
  pose proof (Zfloor_lb (B2R x)) as Lb. pose proof (Zfloor_ub (B2R x)) as Ub.
  destruct (sub64_exact_sign x (floor64 x) Fx Ff) as (Fr & Rr & Sr).
  - apply sign_of_ge1; assumption.
  - rewrite Rf. apply frac_format; [apply generic_format_B2R|lra].
  - rewrite Rf. lra.
  - rewrite Rf. apply Rlt_trans with 1; [lra|]. apply (bpow_lt radix2 0 1024). reflexivity.
  - exists (sub64 x (floor64 x)). unfold tick_update.
    assert (G : nleb n1 x = true) by (change (nleb n1 x) with (le64 one64 x); apply (ge1_spec x Fx); exact Hx).
    rewrite G. cbn [nfloor ntoU64 nisfinite nsub Num_f64].
    change (isfinite64 (floor64 x)) with (is_finite (floor64 x)). rewrite Ff, (to_u64_floor64 x Fx Hx).
    split; [f_equal; unfold u64_max in *; lia|]. rewrite Rf in Rr.
    split; [exact Fr|]. split; [exact Rr|]. split; [exact Sr|]. rewrite Rr. lra.
Qed.

(** a timer that fails the test [timer >= 1.0] (below 1, negative, -inf, NaN) is left as it is —
    by the old loop and by the repaired update alike *)
Lemma tick_below_one (x : f64) (fuel : nat) (tk : Z) :
  le64 one64 x = false ->
  tick_loop_old (T := f64) fuel tk x = Ok (tk, x) /\ tick_update (T := f64) tk x = (tk, x).
Proof.
  intro L. unfold tick_update. change (nleb n1 x) with (le64 one64 x). rewrite L.
  split; [|reflexivity]. destruct fuel; cbn [tick_loop_old]; change (nleb n1 x) with (le64 one64 x); rewrite L; reflexivity.
Qed.

(** binary64: wherever the old loop's subtractions were exact (finite timer up to 2^53) and it
    was given the fuel to finish without overflowing the tick counter, the repaired update
    returns EXACTLY what the loop returned (same tick count, same float) *)
Lemma tick_update_agrees_b64 (x : f64) (fuel : nat) (tk : Z) :
  is_finite x = true -> B2R x <= IZR (2 ^ 53) -> (Z.to_nat (Zfloor (B2R x)) <= fuel)%nat ->
  (0 <= tk)%Z -> (tk + Zfloor (B2R x) <= u64_max)%Z ->
  tick_loop_old (T := f64) fuel tk x = Ok (tick_update (T := f64) tk x).
Proof.
  intros Fx U Hf Htk Hb.
  destruct (le64 one64 x) eqn:L.
  - apply (ge1_spec x Fx) in L.
    assert (P : (1 <= Zfloor (B2R x))%Z) by (apply Zfloor_lub; exact L).
    pose proof (Zfloor_lb (B2R x)) as Lb. pose proof (Zfloor_ub (B2R x)) as Ub.
    assert (EI : INR (Z.to_nat (Zfloor (B2R x))) = IZR (Zfloor (B2R x))) by (rewrite INR_IZR_INZ, Z2Nat.id; [reflexivity|lia]).
    destruct (tick_loop_old_b64 (Z.to_nat (Zfloor (B2R x))) x fuel tk Fx) as [r (E & Fr & Rr & Sr)];
      [apply sign_of_ge1; assumption|rewrite EI; lra|exact U|exact Hf|rewrite Z2Nat.id; lia|].
    destruct (tick_update_b64_ge1 x tk Fx L) as [r' (E' & Fr' & Rr' & Sr' & _)]; [unfold u64_max in *; lia|].
    rewrite E, E'. rewrite Z2Nat.id by lia. rewrite Z.min_r by lia.
    f_equal. f_equal. apply B2R_Bsign_inj; [exact Fr|exact Fr'|rewrite Rr, Rr', EI; reflexivity|rewrite Sr, Sr'; reflexivity].
  - destruct (tick_below_one x fuel tk L) as [A B]. rewrite A, B. reflexivity.
Qed.

(** binary64: the repaired update is TOTAL.  For every timer value whatsoever — finite of any size,
    +inf, -inf, NaN, negative — it returns; the tick count never decreases and saturates at
    [u64::MAX]; when the test [timer >= 1.0] holds the new fraction is a finite number in [0,1)
    (for a finite timer: exactly [timer - floor timer], with exactly [floor timer] ticks added, for
    +inf: 0.0 and [u64::MAX] ticks); when it fails (timer below 1, negative, -inf or NaN) ticks
    and timer are left as they are, as they always were. *)
Lemma tick_update_total_b64_lemma (tk : Z) (x : f64) :
  (0 <= tk <= u64_max)%Z ->
  exists tk' r, tick_update (T := f64) tk x = (tk', r) /\ (tk <= tk' <= u64_max)%Z /\
    if le64 one64 x then
      is_finite r = true /\ 0 <= B2R r < 1 /\
      (is_finite x = true ->
         B2R64 r = B2R x - IZR (Zfloor (B2R x)) /\ tk' = Z.min u64_max (tk + Zfloor (B2R x))) /\
      (is_finite x = false -> tk' = u64_max /\ r = B754_zero false)
    else tk' = tk /\ r = x.
Proof.
  intro Htk. destruct (le64 one64 x) eqn:L.
  - destruct (is_finite x) eqn:Fx.
    + pose proof L as L1. apply (ge1_spec x Fx) in L1.
      assert (P : (1 <= Zfloor (B2R x))%Z) by (apply Zfloor_lub; exact L1).
      destruct (tick_update_b64_ge1 x tk Fx L1 Htk) as [r (E & Fr & Rr & _ & Br)].
      exists (Z.min u64_max (tk + Zfloor (B2R x))), r. split; [exact E|]. split; [lia|].
      split; [exact Fr|]. split; [exact Br|]. split; [intros _; split; [exact Rr|reflexivity]|discriminate].
    + destruct x as [s|s| |s m e He]; try discriminate. destruct s; [discriminate|].
      exists u64_max, (B754_zero false). split.
      * unfold tick_update. change (nleb n1 (B754_infinity false)) with true. cbn iota.
        change (nfloor (B754_infinity false)) with (B754_infinity false : f64).
        change (ntoU64 (B754_infinity false : f64)) with (2 ^ 64 - 1)%Z.
        change (nisfinite (B754_infinity false : f64)) with false. cbn iota.
        f_equal. unfold u64_max in *. lia.
      * split; [lia|]. split; [reflexivity|]. split; [cbn; lra|]. split; [discriminate|intros _; split; reflexivity].
  - exists tk, x. destruct (tick_below_one x O tk L) as [_ B]. split; [exact B|]. split; [lia|]. split; reflexivity.
Qed.

(** F7 regression: on a stuck increment the OLD [Clock::update] never returned; the repaired one
    returns a started clock with a tick count within [u64] and a finite fraction in [0,1) *)
Lemma stuck_clock_regression (powf : f64 -> f64 -> f64) (sp : cspeed f64) (dt : f64) (i : info f64) :
  stuck_increment sp dt ->
  (forall fuel, is_ok (clock_update_old powf fuel (fresh_ticking sp) dt i) = false) /\
  exists c' tk fr, clock_update powf (fresh_ticking sp) dt i = Ok c' /\ c_ticking c' = true /\
                   c_state c' = Started tk fr /\ (0 <= tk <= u64_max)%Z /\
                   is_finite fr = true /\ 0 <= B2R fr < 1.
Proof.
  intro St. split; [apply stuck_clock_never_returned; exact St|]. destruct St as [L _].
  unfold clock_update, fresh_ticking, param_update, param_new.
  cbn [c_speed p_stagnant obind c_ticking negb c_state state_time p_raw].
  set (x := nadd n0 (nmul (as_tps sp) dt)) in *.
  destruct (tick_update_total_b64_lemma 0 x) as (tk' & r & E & Bt & H); [unfold u64_max; lia|].
  change (nleb n1 x) with (le64 one64 x) in L. rewrite L in H. destruct H as (Fr & Br & _).
  rewrite E. eexists. exists tk', r. split; [reflexivity|]. cbn [c_ticking c_state].
  split; [reflexivity|]. split; [reflexivity|]. split; [lia|]. split; assumption.
Qed.

(** non-vacuity / examples (observed through bit patterns): 3.5 -> three ticks and 0.5, by the old
    loop and by the repaired update; -2.5 and NaN are left alone; 2^60 -> 2^60 ticks and 0.0;
    +inf -> u64::MAX and 0.0; 2^53 + 2 (where the old loop's subtraction rounds) -> exact *)
Definition split_bits (p : Z * f64) : Z * Z := (fst p, bits_of_f64 (snd p)).
Example tick_update_examples :
  match tick_loop_old (T := f64) 5 7 (f64_of_bits 4615063718147915776) with Ok p => split_bits p | _ => (-1, -1)%Z end
    = (10, 4602678819172646912)%Z /\
  split_bits (tick_update (T := f64) 7 (f64_of_bits 4615063718147915776)) = (10, 4602678819172646912)%Z /\
  split_bits (tick_update (T := f64) 7 (f64_of_bits 13836183955189006336)) = (7, 13836183955189006336)%Z /\
  split_bits (tick_update (T := f64) 7 (f64_of_bits (-1))) = (7, -1)%Z /\
  split_bits (tick_update (T := f64) 7 (f64_of_bits 4877398396442247168)) = (7 + 2 ^ 60, 0)%Z /\
  split_bits (tick_update (T := f64) 7 (f64_of_bits 9218868437227405312)) = (u64_max, 0%Z) /\
  split_bits (tick_update (T := f64) 7 (f64_of_bits 4845873199050653697)) = (7 + 2 ^ 53 + 2, 0)%Z.
Proof. repeat split; vm_compute; reflexivity. Qed.
