(** C05 — the clock's speed parameter: the C06 tween law for [Parameter<ClockSpeed>], speed changes
    take effect when due, a tween on the clock's OWN time never starts (F17), speeds whose tick
    loop never ends (F7). *)
From Coq Require Import ZArith QArith Qround Lia Lqa Bool List Eqdep_dec.
From KV Require Import Base.IEEE Base.Outcome Base.Num Base.QLemmas C19.Model C19.ProofsTime C06.Model C06.Dur C06.Proofs
  C05.Model C05.ProofsClock C05.ProofsEvent.
Import ListNotations.
Local Open Scope Q_scope.

(** ** the tween law of C06.Proofs, for any value type (same proof; [counts], [elapsed], [completes]
    are C06's) *)
Section LawV.
  Variable powf : Q -> Q -> Q.
  Variable V : Type.
  Variable interp : V -> V -> Q -> V.
  Notation paramV := (param Q V).
  Definition updV (p : paramV) (dt : Q) (i : info Q) := param_update powf V interp p dt i.
  Definition runV (p : paramV) (ops : list (pop Q V)) := param_run powf V interp p ops.
  Definition updatesV (l : list (Q * info Q)) : list (pop Q V) := map (fun '(dt, i) => OUpdate dt i) l.
  Definition the_lawV (v0 tg : V) (e : easing Q) (D t : Q) : V := interp v0 tg (ease powf e (ndiv t D)).
  Definition midV (p : paramV) (v0 tg : V) (t : Q) (tw : tween Q) : Prop :=
    p_state p = Tweening v0 (Fixed tg) t tw /\ p_stagnant p = false.

  Lemma updV_mid_counts p v0 tg t tw dt i :
    midV p v0 tg t tw -> not_delayed (tw_start tw) -> (tw_dur tw <> 0)%Z -> counts (tw_start tw) i = true ->
    let t' := nadd t dt in
    let D := ns_to_secs_Q (tw_dur tw) in
    updV p dt i =
      if Qle_bool D t'
      then Ok ({| p_state := Idle (Fixed tg); p_raw := tg; p_prev := p_raw p; p_stagnant := true |}, true)
      else Ok ({| p_state := Tweening v0 (Fixed tg) t' tw;
                  p_raw := the_lawV v0 tg (tw_easing tw) D t'; p_prev := p_raw p; p_stagnant := false |}, false).
  Proof.
    intros [Hs Hg] Hnd Hdur Hc t' D. unfold updV, param_update. rewrite Hg, Hs. cbn [update_tween].
    assert (Hstart : match tw_start tw with
                     | Immediate => Ok (true, tw)
                     | Delayed rem => if (rem =? 0)%Z then Ok (true, tw)
                                      else obind (secs_to_ns dt) (fun d => Ok (false, {| tw_start := Delayed (sat_sub rem d); tw_dur := tw_dur tw; tw_easing := tw_easing tw |}))
                     | ClockT c tk fr => Ok (match when_to_start i c tk fr with Now => true | _ => false end, tw)
                     end = Ok (true, tw)).
    { destruct (tw_start tw) as [|ns|c tk fr]; cbn in *; [reflexivity| |].
      - subst ns. reflexivity.
      - rewrite Hc. reflexivity. }
    rewrite Hstart. cbn [obind negb]. fold t'.
    change (nleb (ns_to_secs (tw_dur tw)) t') with (Qle_bool D t').
    destruct (Qle_bool D t'); cbn [obind new_raw raw_of].
    - reflexivity.
    - destruct (Z.eqb_spec (tw_dur tw) 0) as [E|E]; [contradiction|]. cbn [option_map]. reflexivity.
  Qed.

  (** an update that does not count leaves the tween where it is — whatever its duration *)
  Lemma updV_mid_skips_state p v0 tg t tw dt i :
    midV p v0 tg t tw -> not_delayed (tw_start tw) -> counts (tw_start tw) i = false ->
    exists p', updV p dt i = Ok (p', false) /\ midV p' v0 tg t tw /\
               p_raw p' = (if (tw_dur tw =? 0)%Z then p_raw p
                           else the_lawV v0 tg (tw_easing tw) (ns_to_secs_Q (tw_dur tw)) t).
  Proof.
    intros [Hs Hg] Hnd Hc. unfold updV, param_update. rewrite Hg, Hs. cbn [update_tween].
    destruct (tw_start tw) as [|ns|c tk fr] eqn:Est; cbn in Hc, Hnd.
    - discriminate.
    - subst ns. discriminate.
    - rewrite Hc. cbn [obind negb new_raw raw_of]. eexists. split; [reflexivity|].
      split; [split; reflexivity|]. cbn [p_raw]. destruct (tw_dur tw =? 0)%Z; reflexivity.
  Qed.

  Lemma idle_fixed_foreverV (p : paramV) tg l :
    p_state p = Idle (Fixed tg) -> p_raw p = tg ->
    exists p', runV p (updatesV l) = Ok p' /\ p_state p' = Idle (Fixed tg) /\ p_raw p' = tg.
  Proof.
    revert p. induction l as [|[dt i] l IH]; intros p Hs Hr.
    - exists p. repeat split; assumption.
    - cbn [updatesV map runV param_run param_step]. unfold param_update.
      destruct (p_stagnant p) eqn:Sg; cbn [obind].
      + apply IH; cbn [p_state p_raw]; [exact Hs|exact Hr].
      + rewrite Hs. cbn [update_tween obind new_raw raw_of]. apply IH; cbn [p_state p_raw]; reflexivity.
  Qed.

  Lemma law_runV (l : list (Q * info Q)) : forall (p : paramV) v0 tg t tw,
    midV p v0 tg t tw -> not_delayed (tw_start tw) -> (tw_dur tw <> 0)%Z ->
    let D := ns_to_secs_Q (tw_dur tw) in
    exists p', runV p (updatesV l) = Ok p' /\
      if completes (tw_start tw) D t l
      then p_state p' = Idle (Fixed tg) /\ p_raw p' = tg
      else midV p' v0 tg (elapsed (tw_start tw) t l) tw /\
           (l <> [] -> p_raw p' = the_lawV v0 tg (tw_easing tw) D (elapsed (tw_start tw) t l)).
  Proof.
    induction l as [|[dt i] l IH]; intros p v0 tg t tw Hm Hnd Hdur D.
    - exists p. split; [reflexivity|]. cbn. split; [assumption|]. intro H; contradiction.
    - cbn [updatesV map runV param_run param_step completes elapsed].
      destruct (counts (tw_start tw) i) eqn:Hc.
      + pose proof (updV_mid_counts p v0 tg t tw dt i Hm Hnd Hdur Hc) as U. cbn zeta in U.
        unfold updV in U. rewrite U. fold D.
        destruct (Qle_bool D (nadd t dt)) eqn:Hle; cbn [obind].
        * destruct (idle_fixed_foreverV {| p_state := Idle (Fixed tg); p_raw := tg; p_prev := p_raw p; p_stagnant := true |} tg l)
            as [p' [R [S1 S2]]]; [reflexivity|reflexivity|].
          exists p'. split; [exact R|]. split; assumption.
        * set (p1 := {| p_state := Tweening v0 (Fixed tg) (nadd t dt) tw; p_raw := _; p_prev := _; p_stagnant := false |}).
          destruct (IH p1 v0 tg (nadd t dt) tw) as [p' [R C]]; [split; reflexivity|assumption|assumption|].
          exists p'. split; [exact R|]. fold D in C.
          destruct (completes (tw_start tw) D (nadd t dt) l); [exact C|].
          destruct C as [C1 C2]. split; [exact C1|]. intros _.
          destruct l as [|x l']; [|apply C2; discriminate].
          cbn in R. inversion R. subst p'. reflexivity.
      + destruct (updV_mid_skips_state p v0 tg t tw dt i Hm Hnd Hc) as [p1 [U [M1 R1]]].
        unfold updV in U. rewrite U. cbn [obind]. fold D.
        destruct (IH p1 v0 tg t tw M1 Hnd Hdur) as [p' [R C]].
        exists p'. split; [exact R|]. fold D in C.
        destruct (completes (tw_start tw) D t l); [exact C|].
        destruct C as [C1 C2]. split; [exact C1|]. intros _.
        destruct l as [|x l']; [|apply C2; discriminate].
        cbn in R. inversion R. subst p'. rewrite R1.
        destruct (Z.eqb_spec (tw_dur tw) 0) as [E|E]; [contradiction|]. reflexivity.
  Qed.

  (** zero duration with an immediate start: the target is the value at the very next update *)
  Lemma set_immediate_zeroV (p : paramV) tg tw dt i :
    tw_start tw = Immediate -> tw_dur tw = 0%Z -> 0 <= dt ->
    updV (param_set p (Fixed tg) tw) dt i =
      Ok ({| p_state := Idle (Fixed tg); p_raw := tg; p_prev := p_raw p; p_stagnant := true |}, true).
  Proof.
    intros Hs Hd Hdt. unfold updV, param_update, param_set. cbn [p_stagnant p_state update_tween]. rewrite Hs.
    cbn [obind negb]. rewrite Hd.
    assert (L : nleb (ns_to_secs 0%Z) (nadd n0 dt) = true).
    { cbn [nleb nadd n0 ns_to_secs NumDur_Q Num_Q]. apply Qle_bool_iff. unfold ns_to_secs_Q.
      rewrite !Qred_correct. assert (Z0 : 0 # 1000000000 == 0) by reflexivity. rewrite Z0. lra. }
    rewrite L. reflexivity.
  Qed.
End LawV.

Section Speed.
  Variable powf : Q -> Q -> Q.
  Notation clockQ := (clock Q).
  Notation sp_interp := (@cspeed_interpolate Q Num_Q).

  (** the clock runs its speed parameter exactly as C06's [param_run] does *)
  Lemma clock_run_speed (fuel : nat) (l : list (Q * info Q)) : forall (c c' : clockQ),
    clock_run powf fuel c l = Ok c' ->
    runV powf (cspeed Q) sp_interp (c_speed c) (updatesV (cspeed Q) l) = Ok (c_speed c').
  Proof.
    induction l as [|[dt i] l IH]; intros c c' R.
    - cbn in R. inversion R. reflexivity.
    - cbn [clock_run] in R. cbn [updatesV map runV param_run param_step].
      unfold clock_update in R.
      destruct (param_update powf (cspeed Q) cspeed_interpolate (c_speed c) dt i) as [[sp fin]| |]; cbn [obind] in *; try discriminate.
      destruct (negb (c_ticking c)).
      + cbn [obind] in R. apply IH in R. exact R.
      + destruct (state_time (c_state c)) as [tk fr].
        destruct (tick_loop fuel tk (nadd fr (nmul (as_tps (p_raw sp)) dt))) as [[tk' fr']| |]; cbn [obind] in R; try discriminate.
        apply IH in R. exact R.
  Qed.

  (** A speed change (a [set_speed] command read at [on_start_processing]) takes effect when due:
      for EVERY list of updates the clock then makes, the speed is the old speed until the tween's
      start time counts, then old + (target - old) * ease(elapsed / duration) in the target's unit,
      and identically the target from the update at which elapsed >= duration. *)
  Lemma speed_change_when_due_lemma (fuel : nat) (c c' : clockQ) (tg : cspeed Q) (tw : tween Q) (l : list (Q * info Q)) :
    not_delayed (tw_start tw) -> (tw_dur tw <> 0)%Z -> l <> [] ->
    let c0 := clock_on_start c {| k_speed := Some (Fixed tg, tw); k_ticking := None; k_reset := false |} in
    clock_run powf fuel c0 l = Ok c' ->
    let D := ns_to_secs_Q (tw_dur tw) in
    if completes (tw_start tw) D 0 l
    then p_state (c_speed c') = Idle (Fixed tg) /\ p_raw (c_speed c') = tg
    else p_raw (c_speed c') =
         cspeed_interpolate (p_raw (c_speed c)) tg (ease powf (tw_easing tw) (ndiv (elapsed (tw_start tw) 0 l) D)).
  Proof.
    intros Hnd Hdur Hl c0 R D. apply clock_run_speed in R.
    assert (M : midV (cspeed Q) (c_speed c0) (p_raw (c_speed c)) tg 0 tw) by (split; reflexivity).
    destruct (law_runV powf (cspeed Q) sp_interp l (c_speed c0) _ _ _ _ M Hnd Hdur) as [p' [R' C]].
    unfold runV in R, R'. rewrite R in R'. inversion R'. subst p'. fold D in C.
    destruct (completes (tw_start tw) D 0 l); [exact C|]. destruct C as [_ C]. apply C. exact Hl.
  Qed.

  (** ** F17: the clock's own id resolves to the dummy while the clock is updated *)
  Lemma nth_error_set_nth_ge {A} (k : nat) (x : A) (l : list A) : (length l <= k)%nat -> nth_error (set_nth k x l) k = None.
  Proof. intro H. apply nth_error_None. rewrite set_nth_length. exact H. Qed.

  Lemma own_id_never_now (slots : list (slot Q)) (k : nat) (tk : Z) (fr : Q) :
    when_to_start (info_for slots k) k tk fr <> Now.
  Proof.
    unfold when_to_start, info_for. cbn [i_clocks].
    destruct (Nat.lt_ge_cases k (length (map slot_info slots))) as [L|G].
    - rewrite nth_error_set_nth_eq by exact L. cbn. discriminate.
    - rewrite nth_error_set_nth_ge by exact G. discriminate.
  Qed.
  (** ... while every OTHER id resolves to the real clock *)
  Lemma other_id_real (slots : list (slot Q)) (k c : nat) (tk : Z) (fr : Q) :
    c <> k -> when_to_start (info_for slots k) c tk fr = when_to_start (info_of slots) c tk fr.
  Proof.
    intro N. unfold when_to_start, info_for, info_of. cbn [i_clocks].
    rewrite nth_error_set_nth_neq by exact N. reflexivity.
  Qed.

  (** the updates clock [k] makes: each with the storage as it is at that moment, its own slot
      replaced by the dummy *)
  Definition own_updates (k : nat) (l : list (Q * list (slot Q))) : list (Q * info Q) :=
    map (fun x => (fst x, info_for (snd x) k)) l.

  Lemma self_reference_lemma (fuel : nat) (k : nat) (tk : Z) (fr : Q) (l : list (Q * list (slot Q))) :
    forall (c c' : clockQ) v0 tg t tw,
    midV (cspeed Q) (c_speed c) v0 tg t tw -> tw_start tw = ClockT k tk fr ->
    clock_run powf fuel c (own_updates k l) = Ok c' ->
    midV (cspeed Q) (c_speed c') v0 tg t tw.
  Proof.
    induction l as [|[dt slots] l IH]; intros c c' v0 tg t tw M Hs R.
    - cbn in R. inversion R. subst c'. exact M.
    - cbn [own_updates map fst snd clock_run] in R.
      assert (Hc : counts (tw_start tw) (info_for slots k) = false).
      { rewrite Hs. cbn [counts]. pose proof (own_id_never_now slots k tk fr) as N.
        destruct (when_to_start (info_for slots k) k tk fr); [contradiction|reflexivity|reflexivity]. }
      assert (Hnd : not_delayed (tw_start tw)) by (rewrite Hs; exact I).
      destruct (updV_mid_skips_state powf (cspeed Q) sp_interp (c_speed c) v0 tg t tw dt (info_for slots k) M Hnd Hc) as [p1 [U [M1 _]]].
      unfold clock_update in R. unfold updV in U. rewrite U in R. cbn [obind] in R.
      destruct (negb (c_ticking c)).
      + cbn [obind] in R. eapply IH; [| exact Hs | exact R]. exact M1.
      + destruct (state_time (c_state c)) as [tk0 fr0].
        destruct (tick_loop fuel tk0 (nadd fr0 (nmul (as_tps (p_raw p1)) dt))) as [[tk' fr']| |]; cbn [obind] in R; try discriminate.
        eapply IH; [| exact Hs | exact R]. exact M1.
  Qed.
End Speed.

(** [Clocks::update] = [for_each]: clock [k] is updated against the storage in which its own slot
    shows the dummy; the others are seen as they are at that moment *)
Lemma for_each_own_dummy {T : Type} {NT : Num T} {ND : NumDur T} (powf : T -> T -> T)
      (fuel : nat) (k : nat) (todo : list nat) (slots : list (slot T)) (s : slot T) (dt : T) :
  nth_error slots k = Some s -> sl_life s = Live ->
  clocks_update_from powf fuel (k :: todo) slots dt =
    (let! c' := clock_update powf fuel (sl_clock s) dt (info_for slots k) in
     clocks_update_from powf fuel todo (set_nth k (with_clock s c') slots) dt).
Proof. intros E L. cbn [clocks_update_from]. rewrite E, L. reflexivity. Qed.

(** the witness: two clocks at 2 ticks/s, 512 Hz, buffers of 64 frames, 4 s of audio; clock 0 is told
    to switch to 8 ticks/s at tick 1.  Scheduled on its OWN time the change never happens (8 ticks =
    2 x 4); scheduled on the other clock (which shows the same time) it does (29 ticks). *)
Definition f17_ops (on : nat) : list (op Q) :=
  [OAddClock (TicksPerSecond 2); OAddClock (TicksPerSecond 2); OStart 0; OStart 1;
   OSetSpeed 0 (TicksPerSecond 8) {| tw_start := ClockT on 1 0; tw_dur := 0; tw_easing := Linear |};
   OStartProcessing; OProcess 2048; OStartProcessing].
Lemma self_reference_witness :
  exists y_own y_other,
    sys_run (fun _ _ => 0) 100 (sys_new 512 64) (f17_ops 0) = Ok y_own /\
    sys_run (fun _ _ => 0) 100 (sys_new 512 64) (f17_ops 1) = Ok y_other /\
    handle_view y_own 0 = Some (true, 8%Z, 0) /\ handle_view y_own 1 = Some (true, 8%Z, 0) /\
    handle_view y_other 0 = Some (true, 29%Z, 0).
Proof. eexists. eexists. split; [vm_compute; reflexivity|]. split; [vm_compute; reflexivity|]. repeat split. Qed.

(** ** F7: speeds whose per-update increment [x] satisfies [x >= 1] and [x - 1 = x] *)
Lemma stuck_never_returns {T : Type} {NT : Num T} (x : T) :
  nleb n1 x = true -> nsub x n1 = x -> forall (fuel : nat) (tk : Z), is_ok (tick_loop fuel tk x) = false.
Proof.
  intros L S. induction fuel as [|f IH]; intro tk; cbn [tick_loop]; rewrite L; [reflexivity|].
  cbn zeta. rewrite S. unfold add_chk. destruct (tk + 1 >? u64_max)%Z; cbn [obind]; [reflexivity|apply IH].
Qed.

Definition fresh_ticking {T : Type} {NT : Num T} (sp : cspeed T) : clock T :=
  {| c_ticking := true; c_speed := param_new (Fixed sp) (TicksPerMinute (nofZ 120)); c_state := NotStarted |}.
(** the class: the first increment of a fresh clock never lets the loop condition become false *)
Definition stuck_increment (sp : cspeed f64) (dt : f64) : Prop :=
  let x := nadd n0 (nmul (as_tps sp) dt) in nleb n1 x = true /\ nsub x n1 = x.

Lemma stuck_clock_never_returns (powf : f64 -> f64 -> f64) (sp : cspeed f64) (dt : f64) (i : info f64) :
  stuck_increment sp dt -> forall fuel, is_ok (clock_update powf fuel (fresh_ticking sp) dt i) = false.
Proof.
  intros [L S] fuel. unfold clock_update, fresh_ticking, param_update, param_new.
  cbn [c_speed p_stagnant obind c_ticking negb c_state state_time p_raw].
  pose proof (stuck_never_returns _ L S fuel 0%Z) as H.
  destruct (tick_loop fuel 0 (nadd n0 (nmul (as_tps sp) dt))) as [[tk fr]| |]; cbn [obind is_ok] in *; [discriminate|reflexivity|reflexivity].
Qed.

Definition dt_16_at_512 : f64 := f64_of_bits 4584664420663164928.   (* 16 / 512 s *)
Definition spt_zero : cspeed f64 := SecondsPerTick (f64_of_bits 0).
Definition tps_1e300 : cspeed f64 := TicksPerSecond (f64_of_bits 9094988921128908188).
(** two floats with the same sign, mantissa and exponent are equal: the boundedness proof is an
    equality between booleans, which is unique (no axiom) *)
Definition same (a b : f64) : Prop :=
  match a, b with
  | BinarySingleNaN.B754_zero s, BinarySingleNaN.B754_zero s' => s = s'
  | BinarySingleNaN.B754_infinity s, BinarySingleNaN.B754_infinity s' => s = s'
  | BinarySingleNaN.B754_nan, BinarySingleNaN.B754_nan => True
  | BinarySingleNaN.B754_finite s m e _, BinarySingleNaN.B754_finite s' m' e' _ => s = s' /\ m = m' /\ e = e'
  | _, _ => False
  end.
Lemma same_eq (a b : f64) : same a b -> a = b.
Proof.
  destruct a as [s|s| |s m e p], b as [s'|s'| |s' m' e' p']; cbn [same]; try contradiction.
  - intros ->. reflexivity.
  - intros ->. reflexivity.
  - reflexivity.
  - intros (-> & -> & ->). f_equal. apply UIP_dec. apply Bool.bool_dec.
Qed.

Lemma stuck_witnesses :
  stuck_increment spt_zero dt_16_at_512 /\ stuck_increment tps_1e300 dt_16_at_512 /\
  clock_update (fun _ _ => f64_of_bits 0) 200 (fresh_ticking spt_zero) dt_16_at_512 no_info = Hang /\
  clock_update (fun _ _ => f64_of_bits 0) 200 (fresh_ticking tps_1e300) dt_16_at_512 no_info = Hang.
Proof.
  split; [split; [vm_compute; reflexivity|apply same_eq; vm_compute; reflexivity]|].
  split; [split; [vm_compute; reflexivity|apply same_eq; vm_compute; repeat split; reflexivity]|].
  split; vm_compute; reflexivity.
Qed.

(** non-vacuity of [clock_run_exact]'s hypotheses: a linear speed tween 2 -> 4 ticks/s over 1 s,
    two updates of 1/2 s: the speeds in force are 3 and 4, the increments 3/2 and 2 *)
Example varying_example :
  let c := clock_on_start (fresh_ticking (TicksPerSecond 2))
             {| k_speed := Some (Fixed (TicksPerSecond 4), {| tw_start := Immediate; tw_dur := 1000000000; tw_easing := Linear |});
                k_ticking := None; k_reset := false |} in
  increments (fun _ _ => 0) (c_speed c) [(1 # 2, no_info); (1 # 2, no_info)] = Ok [3 # 2; 2] /\
  exists c', clock_run (fun _ _ => 0) 10 c [(1 # 2, no_info); (1 # 2, no_info)] = Ok c' /\ c_state c' = Started 3 (1 # 2).
Proof. split; [vm_compute; reflexivity|]. eexists. split; vm_compute; reflexivity. Qed.

