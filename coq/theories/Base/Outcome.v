(** Outcomes of a modelled call: the model *predicts* panics and non-termination. *)
From Coq Require Import ZArith List.
Import ListNotations.

Inductive panic_kind := Overflow | OutOfBounds | ChunkSizeZero | ClampMinMax | InvalidState | QueueFull | OtherPanic.

Inductive outcome (A : Type) :=
| Ok (a : A)
| Panic (why : panic_kind)
| Hang.
Arguments Ok {A} a.
Arguments Panic {A} why.
Arguments Hang {A}.

Definition obind {A B} (x : outcome A) (f : A -> outcome B) : outcome B :=
  match x with Ok a => f a | Panic w => Panic w | Hang => Hang end.
Definition omap {A B} (f : A -> B) (x : outcome A) : outcome B :=
  match x with Ok a => Ok (f a) | Panic w => Panic w | Hang => Hang end.
Notation "'let!' x ':=' e 'in' f" := (obind e (fun x => f)) (at level 200, x pattern, e at level 100, f at level 200).

Definition is_ok {A} (x : outcome A) : bool := match x with Ok _ => true | _ => false end.

Definition panic_code (k : panic_kind) : Z :=
  match k with
  | Overflow => 1 | OutOfBounds => 2 | ChunkSizeZero => 3 | ClampMinMax => 4
  | InvalidState => 5 | QueueFull => 6 | OtherPanic => 7
  end%Z.

(** encoding of an outcome for the correspondence check: [0 :: payload], [1; code], [2] *)
Definition encode_outcome {A} (enc : A -> list Z) (x : outcome A) : list Z :=
  match x with
  | Ok a => 0%Z :: enc a
  | Panic k => [1%Z; panic_code k]
  | Hang => [2%Z]
  end.

(** checked u64 / usize arithmetic (debug builds panic on overflow) *)
Definition u64_max : Z := (2 ^ 64 - 1)%Z.
Definition add_chk (a b : Z) : outcome Z :=
  if (a + b >? u64_max)%Z then Panic Overflow else Ok (a + b)%Z.
Definition sub_chk (a b : Z) : outcome Z :=
  if (a <? b)%Z then Panic Overflow else Ok (a - b)%Z.
Definition sat_sub (a b : Z) : Z := Z.max 0 (a - b).
