(** A small signature of the f64 operations kira's time / unit code uses, so that one
    Gallina term is both (a) run bit-exactly with Flocq binary64 against the real code and
    (b) reasoned about in exact rational arithmetic.  No law is assumed here. *)
From Coq Require Import ZArith QArith Qround Bool.
From KV Require Import Base.IEEE.

Class Num (T : Type) := {
  n0 : T; n1 : T;
  nadd : T -> T -> T; nsub : T -> T -> T; nmul : T -> T -> T; ndiv : T -> T -> T;
  nneg : T -> T;
  nltb : T -> T -> bool; nleb : T -> T -> bool; neqb : T -> T -> bool;
  ntrunc : T -> T; nceil : T -> T; nfloor : T -> T; nround : T -> T;
  nfract : T -> T;          (* Rust f64::fract  = x - trunc x *)
  nrem1 : T -> T;           (* Rust x % 1.0 *)
  nsignneg : T -> bool;     (* Rust is_sign_negative *)
  nofZ : Z -> T;            (* u64 as f64 *)
  ntoU64 : T -> Z;          (* f64 as u64, saturating *)
  npowi : T -> Z -> T;
  nisnan : T -> bool;
  nisfinite : T -> bool;
}.

(** ** binary64 instance (bit-exact, executable) *)
#[global] Instance Num_f64 : Num f64 := {|
  n0 := Z64 0; n1 := Z64 1;
  nadd := add64; nsub := sub64; nmul := mul64; ndiv := div64; nneg := neg64;
  nltb := lt64; nleb := le64; neqb := eq64;
  ntrunc := trunc64; nceil := ceil64; nfloor := floor64; nround := round64;
  nfract := fract64; nrem1 := rem1_64; nsignneg := signbit64;
  nofZ := Z64; ntoU64 := to_u64_64; npowi := powi64; nisnan := isnan64; nisfinite := isfinite64;
|}.

(** ** exact rational instance (executable; division by zero is 0 as in [Qinv], so every
    theorem that divides carries a non-zero guard) *)
Definition Qtruncz (q : Q) : Z := if Qle_bool 0 q then Qfloor q else Qceiling q.
Definition Qtrunc (q : Q) : Q := inject_Z (Qtruncz q).
(** round half away from zero *)
Definition Qroundz (q : Q) : Z := if Qle_bool 0 q then Qfloor (q + (1#2)) else Qceiling (q - (1#2)).
Definition Qltb (a b : Q) : bool := negb (Qle_bool b a).
Definition Qfract (q : Q) : Q := Qred (q - Qtrunc q).
Fixpoint Qpow_pos_nat (a : Q) (n : nat) : Q :=
  match n with O => 1 | S n' => Qred (a * Qpow_pos_nat a n') end.
Definition Qpowi (a : Q) (b : Z) : Q :=
  match b with
  | Z0 => 1
  | Zpos p => Qpow_pos_nat a (Pos.to_nat p)
  | Zneg p => Qred (/ Qpow_pos_nat a (Pos.to_nat p))
  end.
#[global] Instance Num_Q : Num Q := {|
  n0 := 0%Q; n1 := 1%Q;
  nadd := fun a b => Qred (a + b); nsub := fun a b => Qred (a - b);
  nmul := fun a b => Qred (a * b); ndiv := fun a b => Qred (a / b);
  nneg := fun a => Qred (- a);
  nltb := Qltb; nleb := Qle_bool; neqb := Qeq_bool;
  ntrunc := Qtrunc; nceil := fun q => inject_Z (Qceiling q); nfloor := fun q => inject_Z (Qfloor q); nround := fun q => inject_Z (Qroundz q);
  nfract := Qfract; nrem1 := Qfract;
  nsignneg := fun q => Qltb q 0;
  nofZ := inject_Z;
  ntoU64 := fun q => Z.min (2 ^ 64 - 1) (Z.max 0 (Qtruncz q));
  npowi := Qpowi; nisnan := fun _ => false; nisfinite := fun _ => true;
|}.
