(** Facts about the rational instance of [Num]: truncation, fractional part. *)
From Coq Require Import ZArith QArith Qround Qabs Lia Lqa Bool.
From KV Require Import Base.Num.
Local Open Scope Q_scope.

Lemma Qle_bool_true a b : Qle_bool a b = true <-> a <= b.
Proof. apply Qle_bool_iff. Qed.
Lemma Qle_bool_false a b : Qle_bool a b = false <-> b < a.
Proof.
  split; intro H.
  - apply Qnot_le_lt. intro H1. apply Qle_bool_iff in H1. congruence.
  - destruct (Qle_bool a b) eqn:E; auto. apply Qle_bool_iff in E. exfalso. apply (Qlt_not_le _ _ H E).
Qed.
Lemma Qltb_true a b : Qltb a b = true <-> a < b.
Proof. unfold Qltb. rewrite negb_true_iff. apply Qle_bool_false. Qed.
Lemma Qltb_false a b : Qltb a b = false <-> b <= a.
Proof. unfold Qltb. rewrite negb_false_iff. apply Qle_bool_true. Qed.

Lemma Qfloor_bounds q : inject_Z (Qfloor q) <= q /\ q < inject_Z (Qfloor q) + 1.
Proof.
  split. apply Qfloor_le.
  pose proof (Qlt_floor q) as H. rewrite inject_Z_plus in H. change (inject_Z 1) with 1 in H. exact H.
Qed.
Lemma Qceiling_bounds q : inject_Z (Qceiling q) - 1 < q /\ q <= inject_Z (Qceiling q).
Proof.
  split; [|apply Qle_ceiling].
  pose proof (Qceiling_lt q) as H. unfold Z.sub in H. rewrite inject_Z_plus, inject_Z_opp in H. change (inject_Z 1) with 1 in H. lra.
Qed.

Lemma Qtrunc_nonneg q : 0 <= q -> Qtrunc q = inject_Z (Qfloor q).
Proof. intro H. unfold Qtrunc, Qtruncz. apply Qle_bool_iff in H. now rewrite H. Qed.
Lemma Qtrunc_neg q : q < 0 -> Qtrunc q = inject_Z (Qceiling q).
Proof. intro H. unfold Qtrunc, Qtruncz. apply Qle_bool_false in H. now rewrite H. Qed.

Lemma Qfract_eq q : Qfract q == q - Qtrunc q.
Proof. unfold Qfract. apply Qred_correct. Qed.

Lemma Qfract_nonneg_range q : 0 <= q -> 0 <= Qfract q /\ Qfract q < 1.
Proof.
  intro H. rewrite Qfract_eq, (Qtrunc_nonneg q H).
  destruct (Qfloor_bounds q). split; lra.
Qed.
Lemma Qfract_neg_range q : q < 0 -> -1 < Qfract q /\ Qfract q <= 0.
Proof.
  intro H. rewrite Qfract_eq, (Qtrunc_neg q H).
  destruct (Qceiling_bounds q). split; lra.
Qed.
Lemma Qfract_range q : -1 < Qfract q /\ Qfract q < 1.
Proof.
  destruct (Qlt_le_dec q 0) as [H|H].
  - destruct (Qfract_neg_range q H). split; lra.
  - destruct (Qfract_nonneg_range q H). split; lra.
Qed.

Lemma Qfloor_unique (q : Q) (z : Z) : inject_Z z <= q -> q < inject_Z z + 1 -> Qfloor q = z.
Proof.
  intros H1 H2. destruct (Qfloor_bounds q) as [F1 F2].
  assert (A : (Qfloor q < z + 1)%Z).
  { rewrite Zlt_Qlt, inject_Z_plus. change (inject_Z 1) with 1. lra. }
  assert (B : (z < Qfloor q + 1)%Z).
  { rewrite Zlt_Qlt, inject_Z_plus. change (inject_Z 1) with 1. lra. }
  lia.
Qed.
Lemma Qceiling_unique (q : Q) (z : Z) : inject_Z z - 1 < q -> q <= inject_Z z -> Qceiling q = z.
Proof.
  intros H1 H2. destruct (Qceiling_bounds q) as [F1 F2].
  assert (A : (Qceiling q < z + 1)%Z).
  { rewrite Zlt_Qlt, inject_Z_plus. change (inject_Z 1) with 1. lra. }
  assert (B : (z < Qceiling q + 1)%Z).
  { rewrite Zlt_Qlt, inject_Z_plus. change (inject_Z 1) with 1. lra. }
  lia.
Qed.

Lemma Qtruncz_nonneg q : 0 <= q -> (0 <= Qtruncz q)%Z.
Proof.
  intro H. unfold Qtruncz. apply Qle_bool_iff in H as Hb. rewrite Hb.
  apply Qfloor_resp_le in H. exact H.
Qed.

Lemma Qtruncz_comp a b : a == b -> Qtruncz a = Qtruncz b.
Proof.
  intro E. unfold Qtruncz.
  destruct (Qle_bool 0 a) eqn:A, (Qle_bool 0 b) eqn:B.
  - apply Qfloor_comp; assumption.
  - apply Qle_bool_true in A. apply Qle_bool_false in B. lra.
  - apply Qle_bool_false in A. apply Qle_bool_true in B. lra.
  - apply Qceiling_comp; assumption.
Qed.
Lemma Qtruncz_inject z : Qtruncz (inject_Z z) = z.
Proof.
  unfold Qtruncz. destruct (Qle_bool 0 (inject_Z z)); [apply Qfloor_Z|apply Qceiling_Z].
Qed.
Lemma Qtruncz_eq_inject a z : a == inject_Z z -> Qtruncz a = z.
Proof. intro E. rewrite (Qtruncz_comp _ _ E). apply Qtruncz_inject. Qed.
