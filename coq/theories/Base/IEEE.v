(** Executable IEEE-754 binary32 / binary64 arithmetic on top of Flocq 4.1
    (BinarySingleNaN: one NaN, which is also how the harness canonicalises NaNs).
    Everything here is a plain Gallina definition: it runs under [vm_compute] and
    the correctness theorems of Flocq ([Bplus_correct] ...) apply to it. *)
From Coq Require Import ZArith Bool List Lia.
From Flocq Require Import Core IEEE754.BinarySingleNaN.
From Flocq Require IEEE754.Binary IEEE754.Bits.

Local Open Scope Z_scope.

Section Generic.
  Variables prec emax : Z.
  Context {Hprec : Prec_gt_0 prec} {Hmax : Prec_lt_emax prec emax}.
  Let float := BinarySingleNaN.binary_float prec emax.

  Definition fadd (x y : float) : float := Bplus mode_NE x y.
  Definition fsub (x y : float) : float := Bminus mode_NE x y.
  Definition fmul (x y : float) : float := Bmult mode_NE x y.
  Definition fdiv (x y : float) : float := Bdiv mode_NE x y.
  Definition fsqrt (x : float) : float := Bsqrt mode_NE x.
  Definition fneg (x : float) : float := BinarySingleNaN.Bopp x.
  Definition fabs (x : float) : float := BinarySingleNaN.Babs x.
  Definition flt (x y : float) : bool := Bltb x y.
  Definition fle (x y : float) : bool := Bleb x y.
  Definition feq (x y : float) : bool := Beqb x y.
  Definition fgt (x y : float) : bool := Bltb y x.
  Definition fge (x y : float) : bool := Bleb y x.
  Definition fisnan (x : float) : bool := BinarySingleNaN.is_nan x.
  Definition fisfinite (x : float) : bool := BinarySingleNaN.is_finite x.
  Definition fsignbit (x : float) : bool := BinarySingleNaN.Bsign x.
  Definition ftrunc (x : float) : float := Bnearbyint mode_ZR x.
  Definition fceil (x : float) : float := Bnearbyint mode_UP x.
  Definition ffloor (x : float) : float := Bnearbyint mode_DN x.
  (** Rust [f.round()]: half away from zero *)
  Definition fround (x : float) : float := Bnearbyint mode_NA x.
  Definition of_Z (z : Z) : float := binary_normalize prec emax Hprec Hmax mode_NE z 0 false.
  (** [m * 2^e] rounded to nearest *)
  Definition of_dyadic (m e : Z) : float := binary_normalize prec emax Hprec Hmax mode_NE m e false.
  (** Rust [f.fract()] = [f - f.trunc()] *)
  Definition ffract (x : float) : float := fsub x (ftrunc x).
  (** Rust [x % 1.0] (C fmod): exact; the result has the sign of [x], also when zero *)
  Definition frem1 (x : float) : float :=
    match x with
    | B754_finite _ _ _ _ =>
        let r := fsub x (ftrunc x) in
        match r with
        | B754_zero _ => B754_zero (fsignbit x)
        | _ => r
        end
    | B754_zero s => B754_zero s
    | _ => B754_nan
    end.
  (** Rust [f.max(g)] / [f.min(g)]: a NaN argument is ignored *)
  Definition fmax (x y : float) : float :=
    if fisnan x then y else if fisnan y then x else if flt x y then y else x.
  Definition fmin (x y : float) : float :=
    if fisnan x then y else if fisnan y then x else if flt y x then y else x.
  (** Rust [f.clamp(lo, hi)] for [lo <= hi] (it panics otherwise; callers model that):
      [let mut x = self; if x < min { x = min }; if x > max { x = max }; x] *)
  Definition fclamp (x lo hi : float) : float :=
    let x1 := if flt x lo then lo else x in
    if fgt x1 hi then hi else x1.
  (** integer part as Z (0 for non-finite) *)
  Definition to_Z_trunc (x : float) : Z := BinarySingleNaN.Btrunc x.
  (** Rust [x as u64]: saturating, NaN -> 0 *)
  Definition to_u64 (x : float) : Z :=
    match x with
    | B754_nan => 0
    | B754_infinity s => if s then 0 else 2^64 - 1
    | _ => let z := to_Z_trunc x in
           if z <? 0 then 0 else if z >=? 2^64 then 2^64 - 1 else z
    end.
  (** compiler-rt [__powidf2]/[__powisf2] (what Rust's [powi] lowers to) *)
  Fixpoint powi_loop (fuel : nat) (a r : float) (b : Z) : float :=
    match fuel with
    | O => r
    | S fuel' =>
        let r' := if Z.odd b then fmul r a else r in
        let b' := Z.quot b 2 in
        if b' =? 0 then r' else powi_loop fuel' (fmul a a) r' b'
    end.
  Definition fpowi (a : float) (b : Z) : float :=
    let r := powi_loop 40 a (of_Z 1) b in
    if b <? 0 then fdiv (of_Z 1) r else r.
End Generic.

(** * binary64 *)
Definition f64 := BinarySingleNaN.binary_float 53 1024.
Lemma Hprec64 : Prec_gt_0 53. Proof. reflexivity. Qed.
Lemma Hmax64 : Prec_lt_emax 53 1024. Proof. reflexivity. Qed.
#[global] Existing Instance Hprec64.
#[global] Existing Instance Hmax64.

Definition bits_of_bsn (mw ew : Z) {prec emax} (x : BinarySingleNaN.binary_float prec emax) : Z :=
  let emin := (3 - emax - prec) in
  match x with
  | B754_zero sx => Bits.join_bits mw ew sx 0 0
  | B754_infinity sx => Bits.join_bits mw ew sx 0 (2 ^ ew - 1)
  | B754_nan => -1
  | B754_finite sx mx ex _ =>
      let m := Zpos mx - 2 ^ mw in
      if 0 <=? m then Bits.join_bits mw ew sx m (ex - emin + 1)
      else Bits.join_bits mw ew sx (Zpos mx) 0
  end.

(** a negative argument is the harness's token for NaN *)
Definition f64_of_bits (z : Z) : f64 := if z <? 0 then B754_nan else Binary.B2BSN 53 1024 (Bits.b64_of_bits z).
Definition bits_of_f64 (x : f64) : Z := bits_of_bsn 52 11 x.

Definition add64 := fadd 53 1024.
Definition sub64 := fsub 53 1024.
Definition mul64 := fmul 53 1024.
Definition div64 := fdiv 53 1024.
Definition sqrt64 := fsqrt 53 1024.
Definition neg64 : f64 -> f64 := fneg 53 1024.
Definition abs64 : f64 -> f64 := fabs 53 1024.
Definition lt64 : f64 -> f64 -> bool := flt 53 1024.
Definition le64 : f64 -> f64 -> bool := fle 53 1024.
Definition eq64 : f64 -> f64 -> bool := feq 53 1024.
Definition gt64 : f64 -> f64 -> bool := fgt 53 1024.
Definition ge64 : f64 -> f64 -> bool := fge 53 1024.
Definition isnan64 : f64 -> bool := fisnan 53 1024.
Definition isfinite64 : f64 -> bool := fisfinite 53 1024.
Definition signbit64 : f64 -> bool := fsignbit 53 1024.
Definition trunc64 := ftrunc 53 1024.
Definition ceil64 := fceil 53 1024.
Definition floor64 := ffloor 53 1024.
Definition round64 := fround 53 1024.
Definition fract64 := ffract 53 1024.
Definition rem1_64 := frem1 53 1024.
Definition max64 : f64 -> f64 -> f64 := fmax 53 1024.
Definition min64 : f64 -> f64 -> f64 := fmin 53 1024.
Definition clamp64 : f64 -> f64 -> f64 -> f64 := fclamp 53 1024.
Definition Z64 (z : Z) : f64 := of_Z 53 1024 z.
Definition dy64 (m e : Z) : f64 := of_dyadic 53 1024 m e.
Definition to_u64_64 : f64 -> Z := to_u64 53 1024.
Definition powi64 := fpowi 53 1024.

(** * binary32 *)
Definition f32 := BinarySingleNaN.binary_float 24 128.
Lemma Hprec32 : Prec_gt_0 24. Proof. reflexivity. Qed.
Lemma Hmax32 : Prec_lt_emax 24 128. Proof. reflexivity. Qed.
#[global] Existing Instance Hprec32.
#[global] Existing Instance Hmax32.

Definition f32_of_bits (z : Z) : f32 := if z <? 0 then B754_nan else Binary.B2BSN 24 128 (Bits.b32_of_bits z).
Definition bits_of_f32 (x : f32) : Z := bits_of_bsn 23 8 x.

Definition add32 := fadd 24 128.
Definition sub32 := fsub 24 128.
Definition mul32 := fmul 24 128.
Definition div32 := fdiv 24 128.
Definition sqrt32 := fsqrt 24 128.
Definition neg32 : f32 -> f32 := fneg 24 128.
Definition abs32 : f32 -> f32 := fabs 24 128.
Definition lt32 : f32 -> f32 -> bool := flt 24 128.
Definition le32 : f32 -> f32 -> bool := fle 24 128.
Definition eq32 : f32 -> f32 -> bool := feq 24 128.
Definition gt32 : f32 -> f32 -> bool := fgt 24 128.
Definition ge32 : f32 -> f32 -> bool := fge 24 128.
Definition isnan32 : f32 -> bool := fisnan 24 128.
Definition isfinite32 : f32 -> bool := fisfinite 24 128.
Definition max32 : f32 -> f32 -> f32 := fmax 24 128.
Definition min32 : f32 -> f32 -> f32 := fmin 24 128.
Definition clamp32 : f32 -> f32 -> f32 -> f32 := fclamp 24 128.
Definition Z32 (z : Z) : f32 := of_Z 24 128 z.
Definition dy32 (m e : Z) : f32 := of_dyadic 24 128 m e.

(** casts: [x as f32] rounds to nearest even, [x as f64] is exact *)
Definition f64_to_f32 (x : f64) : f32 :=
  match x with
  | B754_zero s => B754_zero s
  | B754_infinity s => B754_infinity s
  | B754_nan => B754_nan
  | B754_finite s m e _ =>
      binary_normalize 24 128 Hprec32 Hmax32 mode_NE (cond_Zopp s (Zpos m)) e s
  end.
Definition f32_to_f64 (x : f32) : f64 :=
  match x with
  | B754_zero s => B754_zero s
  | B754_infinity s => B754_infinity s
  | B754_nan => B754_nan
  | B754_finite s m e _ =>
      binary_normalize 53 1024 Hprec64 Hmax64 mode_NE (cond_Zopp s (Zpos m)) e s
  end.

(** Exact value of a finite float as a dyadic pair (mantissa, exponent); (0,0) otherwise *)
Definition dyadic_of {prec emax} (x : BinarySingleNaN.binary_float prec emax) : Z * Z :=
  match x with
  | B754_finite s m e _ => (cond_Zopp s (Zpos m), e)
  | _ => (0, 0)
  end.
