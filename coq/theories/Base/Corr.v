(** Generic driver for the correspondence check: each case carries the observable the
    implementation produced (a [list Z]); the model is run and the cases on which it
    predicts something else are returned together with the prediction. *)
From Coq Require Import ZArith List Bool.
Import ListNotations.
Local Open Scope Z_scope.

Fixpoint list_Z_eqb (a b : list Z) : bool :=
  match a, b with
  | [], [] => true
  | x :: a', y :: b' => (x =? y) && list_Z_eqb a' b'
  | _, _ => false
  end.

Definition mismatches {C : Type} (run : C -> list Z) (cases : list (Z * C * list Z)) : list (Z * list Z) :=
  flat_map (fun '(i, c, expected) =>
              let got := run c in
              if list_Z_eqb got expected then [] else [(i, got)]) cases.
