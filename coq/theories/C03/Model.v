(** C03 — executable model of the playback life cycle.
    Transcribed from crates/kira/src/playback_state_manager.rs, start_time.rs and the shell that
    [StaticSound::process] and [StreamingSound::process] share (sound/static_sound/sound.rs):
    parameter updates, state-manager update, start-time update, the two early returns, the
    per-frame gain, natural end, [read_commands] order, the [Shared] state mirror.
    Generic over time [T] ([Num], [NumDur]), the fade value type [V] (decibels) with its
    interpolation, and the amplitude type [A]. *)
From Coq Require Import ZArith List Bool.
From KV Require Import Base.Outcome Base.Num C19.Model C06.Model.
Import ListNotations.
Local Open Scope Z_scope.

Section Generic.
  Context {T : Type} {NT : Num T} {ND : NumDur T}.
  Variable powf : T -> T -> T.
  Variable V : Type.
  Variable interp : V -> V -> T -> V.
  Variables silence identity : V.           (* Decibels::SILENCE = -60 dB, Decibels::IDENTITY = 0 dB *)

  Notation paramV := (param T V).
  Notation pupdate := (param_update powf V interp).

  (** ** playback_state_manager.rs *)
  Inductive pstate7 :=
  | Playing | Pausing | Paused | WaitingToResume (st : stime T) (tw : tween T)
  | Resuming | Stopping | Stopped.
  Record psm := { ps : pstate7; fade : paramV }.

  Definition psm_new (fade_in : option (tween T)) : psm :=
    {| ps := Playing;
       fade := match fade_in with
               | Some tw => param_set (param_new (Fixed silence) silence) (Fixed identity) tw
               | None => param_new (Fixed identity) identity
               end |}.

  Definition is_stopped (s : pstate7) : bool := match s with Stopped => true | _ => false end.
  (** [PlaybackState::is_advancing] *)
  Definition is_advancing (s : pstate7) : bool :=
    match s with Playing | Pausing | Resuming | Stopping => true | _ => false end.
  (** the public [PlaybackState] as stored in the handle's mirror *)
  Definition state_code (s : pstate7) : Z :=
    match s with
    | Playing => 0 | Pausing => 1 | Paused => 2 | WaitingToResume _ _ => 3
    | Resuming => 4 | Stopping => 5 | Stopped => 6
    end.

  Definition psm_pause (m : psm) (tw : tween T) : psm :=
    if is_stopped (ps m) then m
    else {| ps := Pausing; fade := param_set (fade m) (Fixed silence) tw |}.
  Definition psm_resume (m : psm) (st : stime T) (tw : tween T) : psm :=
    if is_stopped (ps m) then m
    else match st with
         | Immediate => {| ps := Resuming; fade := param_set (fade m) (Fixed identity) tw |}
         | _ => {| ps := WaitingToResume st tw; fade := fade m |}
         end.
  Definition psm_stop (m : psm) (tw : tween T) : psm :=
    if is_stopped (ps m) then m
    else {| ps := Stopping; fade := param_set (fade m) (Fixed silence) tw |}.
  Definition psm_mark_stopped (m : psm) : psm := {| ps := Stopped; fade := fade m |}.

  (** [StartTime::update]: new start time, will-never-start *)
  Definition stime_update (st : stime T) (dt : T) (i : info T) : outcome (stime T * bool) :=
    match st with
    | Immediate => Ok (Immediate, false)
    | Delayed rem =>
        let! d := secs_to_ns dt in
        let r := sat_sub rem d in
        Ok (if r =? 0 then Immediate else Delayed r, false)
    | ClockT c tk fr =>
        match when_to_start i c tk fr with
        | Now => Ok (Immediate, false)
        | Later => Ok (st, false)
        | Never => Ok (st, true)
        end
    end.
  Definition is_immediate (st : stime T) : bool := match st with Immediate => true | _ => false end.

  (** [PlaybackStateManager::update] *)
  Definition psm_update (m : psm) (dt : T) (i : info T) : outcome (psm * bool) :=
    let! (f, finished) := pupdate (fade m) dt i in
    match ps m with
    | Pausing => Ok (if finished then ({| ps := Paused; fade := f |}, true) else ({| ps := Pausing; fade := f |}, false))
    | Resuming => Ok (if finished then ({| ps := Playing; fade := f |}, true) else ({| ps := Resuming; fade := f |}, false))
    | Stopping => Ok (if finished then ({| ps := Stopped; fade := f |}, true) else ({| ps := Stopping; fade := f |}, false))
    | WaitingToResume st tw =>
        let! (st', never) := stime_update st dt i in
        if never then Ok ({| ps := Stopped; fade := f |}, true)
        else if is_immediate st' then Ok (psm_resume {| ps := WaitingToResume st' tw; fade := f |} Immediate tw, true)
        else Ok ({| ps := WaitingToResume st' tw; fade := f |}, false)
    | s => Ok ({| ps := s; fade := f |}, false)
    end.

  (** ** the playing core at rate 1, forwards (transport + the resampler's occupancy).
      One [update_position] per output frame.  [win] = the four (present, index) slots. *)
  Record inner := {
    in_n : Z;                     (* number of frames *)
    in_loop : bool;               (* loop region = whole sound *)
    in_pos : Z; in_playing : bool;
    in_win : list (bool * Z);     (* 4 slots, oldest first; present = a real frame was pushed *)
    in_tue : Z;                   (* Resampler::time_until_empty *)
  }.
  Definition inner_push (x : inner) : inner :=
    let present := in_playing x && (in_pos x <? in_n x) in
    {| in_n := in_n x; in_loop := in_loop x; in_pos := in_pos x; in_playing := in_playing x;
       in_win := tl (in_win x) ++ [(present, in_pos x)];
       in_tue := if in_playing x then 4 else Z.max 0 (in_tue x - 1) |}.
  (** [Transport::increment_position] (loop region (0, n): [while position >= n { position -= n }]) *)
  Definition inner_increment (x : inner) : inner :=
    if negb (in_playing x) then x
    else
      let p := in_pos x + 1 in
      let p := if in_loop x && (0 <? in_n x) then p mod in_n x else p in
      {| in_n := in_n x; in_loop := in_loop x; in_pos := p; in_playing := negb (in_n x <=? p);
         in_win := in_win x; in_tue := in_tue x |}.
  (** [StaticSound::update_position]: push, advance; reports "now stopped" *)
  Definition inner_update_position (x : inner) : inner * bool :=
    let x := inner_increment (inner_push x) in
    (x, negb (in_playing x) && (in_tue x =? 0)).
  (** [StaticSound::new]: window of four absent frames at [start], then three pre-fill pushes *)
  Definition inner_new (n start : Z) (lp : bool) : inner * bool :=
    let x0 := {| in_n := n; in_loop := lp; in_pos := start; in_playing := true;
                 in_win := [(false, start); (false, start); (false, start); (false, start)]; in_tue := 0 |} in
    let '(x1, s1) := inner_update_position x0 in
    let '(x2, s2) := inner_update_position x1 in
    let '(x3, s3) := inner_update_position x2 in
    (x3, s1 || s2 || s3).
  (** slot 1: the frame being heard *)
  Definition inner_heard (x : inner) : bool * Z := nth 1 (in_win x) (false, 0).

  (** ** the sound *)
  Record sound := {
    s_psm : psm;
    s_start : stime T;
    s_inner : inner;
    s_mirror : Z;          (* Shared.state *)
    s_position : Z;        (* Shared.position, as a frame index (the code stores index / sample_rate) *)
  }.
  Definition set_mirror (s : sound) : sound :=
    {| s_psm := s_psm s; s_start := s_start s; s_inner := s_inner s;
       s_mirror := state_code (ps (s_psm s)); s_position := s_position s |}.
  Definition with_psm (s : sound) (m : psm) : sound :=
    {| s_psm := m; s_start := s_start s; s_inner := s_inner s; s_mirror := s_mirror s; s_position := s_position s |}.

  Definition sound_new (n start : Z) (lp : bool) (st : stime T) (fade_in : option (tween T)) : sound :=
    let '(x, stopped) := inner_new n start lp in
    let m := psm_new fade_in in
    let m := if stopped then psm_mark_stopped m else m in
    {| s_psm := m; s_start := st; s_inner := x;
       s_mirror := if stopped then 6 else 0; s_position := start |}.

  (** commands read in [on_start_processing], at most one of each kind, in the code's order *)
  Record commands := {
    c_pause : option (tween T);
    c_resume : option (stime T * tween T);
    c_stop : option (tween T);
  }.
  (** [Sound::on_start_processing] *)
  Definition sound_on_start (s : sound) (c : commands) : sound :=
    let s := {| s_psm := s_psm s; s_start := s_start s; s_inner := s_inner s; s_mirror := s_mirror s;
                s_position := snd (inner_heard (s_inner s)) |} in
    let s := match c_pause c with Some tw => set_mirror (with_psm s (psm_pause (s_psm s) tw)) | None => s end in
    let s := match c_resume c with Some (st, tw) => set_mirror (with_psm s (psm_resume (s_psm s) st tw)) | None => s end in
    let s := match c_stop c with Some tw => set_mirror (with_psm s (psm_stop (s_psm s) tw)) | None => s end in
    s.

  Section Gain.
    Variable A : Type.
    Variable amp : V -> A.                 (* Decibels::as_amplitude *)
    Variable gain : bool -> A -> A.        (* source sample (present = 1.0, absent = 0.0) times the fade amplitude (times unit volume) *)
    Variable azero : A.

    (** the per-frame loop of [process]: frame [k] of [len] *)
    Fixpoint frames (m : psm) (x : inner) (len : nat) (k : nat) (todo : nat) : psm * inner * list A :=
      match todo with
      | O => (m, x, [])
      | S todo' =>
          let amount := ndiv (nofZ (Z.of_nat k + 1)) (nofZ (Z.of_nat len)) in
          let fade_amp := amp (param_interpolated V interp (fade m) amount) in
          let out := gain (fst (inner_heard x)) fade_amp in
          let '(x', stopped) := inner_update_position x in
          let m' := if stopped then psm_mark_stopped m else m in
          let '(m'', x'', outs) := frames m' x' len (S k) todo' in
          (m'', x'', out :: outs)
      end.

    (** [Sound::process] on a slice of [len] frames with per-frame [dt] *)
    Definition sound_process (s : sound) (len : nat) (dt : T) (i : info T) : outcome (sound * list A) :=
      let dtl := nmul dt (nofZ (Z.of_nat len)) in
      let! (m, changed) := psm_update (s_psm s) dtl i in
      let s := with_psm s m in
      let s := if changed then set_mirror s else s in
      let! (st, never) := stime_update (s_start s) dtl i in
      let s := {| s_psm := s_psm s; s_start := st; s_inner := s_inner s; s_mirror := s_mirror s; s_position := s_position s |} in
      let s := if never then set_mirror (with_psm s (psm_mark_stopped (s_psm s))) else s in
      if negb (is_immediate (s_start s)) then Ok (s, repeat azero len)
      else if negb (is_advancing (ps (s_psm s))) then Ok (s, repeat azero len)
      else
        let '(m', x', outs) := frames (s_psm s) (s_inner s) len O len in
        let s' := {| s_psm := m'; s_start := s_start s; s_inner := x'; s_mirror := s_mirror s; s_position := s_position s |} in
        (* update_position's mark_as_stopped also refreshes the mirror *)
        let s' := if is_stopped (ps m') then set_mirror s' else s' in
        Ok (s', outs).

    (** [Sound::finished] *)
    Definition sound_finished (s : sound) : bool := is_stopped (ps (s_psm s)).
  End Gain.
End Generic.

Arguments pstate7 : clear implicits.
Arguments psm : clear implicits.
Arguments sound : clear implicits.
Arguments commands : clear implicits.
Arguments Playing {T}. Arguments Pausing {T}. Arguments Paused {T}. Arguments WaitingToResume {T}.
Arguments Resuming {T}. Arguments Stopping {T}. Arguments Stopped {T}.
Arguments ps {T V}. Arguments fade {T V}. Arguments Build_psm {T V}.
Arguments s_psm {T V}. Arguments s_start {T V}. Arguments s_inner {T V}. Arguments s_mirror {T V}.
Arguments s_position {T V}. Arguments Build_sound {T V}.
Arguments c_pause {T}. Arguments c_resume {T}. Arguments c_stop {T}. Arguments Build_commands {T}.
