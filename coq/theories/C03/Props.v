(** C03 — property theorems: statements (as printed by Coq) closed by [exact]. *)
From Coq Require Import ZArith QArith List.
From KV Require Import Base.Outcome Base.Num C19.Model C19.ProofsEasing C06.Model C06.Dur C06.Proofs C06.Proofs2
  C03.Model C03.ProofsInner C03.ProofsLife.
Import ListNotations.
Local Open Scope Q_scope.

Theorem stopped_ignores_commands_thm :
  forall (m : psm Q Q) (tw : tween Q) (st : stime Q),
       ps m = Stopped -> ppause m tw = m /\ presume m st tw = m /\ pstop m tw = m.
Proof. exact @stopped_ignores_commands. Qed.

Theorem stopped_survives_update :
  forall (powf : Q -> Q -> Q) (m m' : psm Q Q) (dt : Q) (i : info Q) (c : bool),
       ps m = Stopped -> pupd powf m dt i = Ok (m', c) -> ps m' = Stopped /\ c = false.
Proof. exact @upd_stopped. Qed.

Theorem stopped_ignores_command_drain :
  forall (s : sound Q Q) (c : commands Q),
       ps (s_psm s) = Stopped ->
       ps (s_psm (son_start s c)) = Stopped /\
       s_inner (son_start s c) = s_inner s /\ s_start (son_start s c) = s_start s.
Proof. exact @on_start_stopped. Qed.

Theorem stopped_is_silent_and_frozen :
  forall (powf : Q -> Q -> Q) (amp : Q -> Q) (s s' : sound Q Q) (len : nat) 
         (dt : Q) (i : info Q) (outs : list Q),
       ps (s_psm s) = Stopped ->
       sprocess powf amp s len dt i = Ok (s', outs) ->
       ps (s_psm s') = Stopped /\ outs = repeat 0 len /\ s_inner s' = s_inner s.
Proof. exact @process_stopped. Qed.

Theorem silent_and_frozen_when_not_playing :
  forall (powf : Q -> Q -> Q) (amp : Q -> Q) (s s' : sound Q Q) (len : nat) 
         (dt : Q) (i : info Q) (outs : list Q),
       sprocess powf amp s len dt i = Ok (s', outs) ->
       ps (s_psm s') = Paused \/
       (exists (st : stime Q) (tw : tween Q), ps (s_psm s') = WaitingToResume st tw) \/
       ps (s_psm s) = Stopped \/ is_immediate (s_start s') = false ->
       outs = repeat 0 len /\ s_inner s' = s_inner s.
Proof. exact @process_silent_frozen. Qed.

Theorem lifecycle_pause :
  forall (powf : Q -> Q -> Q) (m : psm Q Q) (tw : tween Q) (l : list (Q * info Q)),
       ps m <> Stopped ->
       not_delayed (tw_start tw) ->
       tw_dur tw <> 0%Z ->
       let D := ns_to_secs_Q (tw_dur tw) in
       ps (ppause m tw) = Pausing /\
       (exists m' : psm Q Q,
          prun powf (ppause m tw) l = Ok m' /\
          (if completes (tw_start tw) D 0 l
           then ps m' = Paused /\ p_raw (fade m') = silenceQ
           else
            ps m' = Pausing /\
            (l <> [] ->
             p_raw (fade m') =
             the_law powf (p_raw (fade m)) silenceQ (tw_easing tw) D (elapsed (tw_start tw) 0 l)))).
Proof. exact @pause_lifecycle. Qed.

Theorem lifecycle_stop :
  forall (powf : Q -> Q -> Q) (m : psm Q Q) (tw : tween Q) (l : list (Q * info Q)),
       ps m <> Stopped ->
       not_delayed (tw_start tw) ->
       tw_dur tw <> 0%Z ->
       let D := ns_to_secs_Q (tw_dur tw) in
       ps (pstop m tw) = Stopping /\
       (exists m' : psm Q Q,
          prun powf (pstop m tw) l = Ok m' /\
          (if completes (tw_start tw) D 0 l
           then ps m' = Stopped /\ p_raw (fade m') = silenceQ
           else
            ps m' = Stopping /\
            (l <> [] ->
             p_raw (fade m') =
             the_law powf (p_raw (fade m)) silenceQ (tw_easing tw) D (elapsed (tw_start tw) 0 l)))).
Proof. exact @stop_lifecycle. Qed.

Theorem lifecycle_resume :
  forall (powf : Q -> Q -> Q) (m : psm Q Q) (tw : tween Q) (l : list (Q * info Q)),
       ps m <> Stopped ->
       not_delayed (tw_start tw) ->
       tw_dur tw <> 0%Z ->
       let D := ns_to_secs_Q (tw_dur tw) in
       ps (presume m Immediate tw) = Resuming /\
       (exists m' : psm Q Q,
          prun powf (presume m Immediate tw) l = Ok m' /\
          (if completes (tw_start tw) D 0 l
           then ps m' = Playing /\ p_raw (fade m') = identityQ
           else
            ps m' = Resuming /\
            (l <> [] ->
             p_raw (fade m') =
             the_law powf (p_raw (fade m)) identityQ (tw_easing tw) D (elapsed (tw_start tw) 0 l)))).
Proof. exact @resume_lifecycle. Qed.

Theorem lifecycle_resume_at :
  forall (powf : Q -> Q -> Q) (m : psm Q Q) (st : stime Q) (tw : tween Q) (dt : Q) 
         (i : info Q) (f : param Q Q) (fin : bool),
       ps m = WaitingToResume st tw ->
       param_update powf Q lerp (fade m) dt i = Ok (f, fin) ->
       forall (st' : stime Q) (never : bool),
       stime_update st dt i = Ok (st', never) ->
       pupd powf m dt i =
       Ok
         (if never
          then ({| ps := Stopped; fade := f |}, true)
          else
           if is_immediate st'
           then ({| ps := Resuming; fade := param_set f (Fixed identityQ) tw |}, true)
           else ({| ps := WaitingToResume st' tw; fade := f |}, false)).
Proof. exact @waiting_step. Qed.

Theorem resume_at_clock_cases :
  forall (c : nat) (tk : Z) (fr dt : Q) (i : info Q),
       stime_update (ClockT c tk fr) dt i =
       match when_to_start i c tk fr with
       | Now => Ok (Immediate, false)
       | Later => Ok (ClockT c tk fr, false)
       | Never => Ok (ClockT c tk fr, true)
       end.
Proof. exact @stime_clock_cases. Qed.

Theorem handle_mirror_new :
  forall (n start : Z) (lp : bool) (st : stime Q) (fi : option (tween Q)),
       mirror_ok (sound_new Q silenceQ identityQ n start lp st fi).
Proof. exact @mirror_new. Qed.

Theorem handle_mirror_commands :
  forall (s : sound Q Q) (c : commands Q), mirror_ok s -> mirror_ok (son_start s c).
Proof. exact @mirror_on_start. Qed.

Theorem handle_mirror_process :
  forall (powf : Q -> Q -> Q) (amp : Q -> Q) (s s' : sound Q Q) (len : nat) 
         (dt : Q) (i : info Q) (outs : list Q),
       mirror_ok s -> sprocess powf amp s len dt i = Ok (s', outs) -> mirror_ok s'.
Proof. exact @mirror_process. Qed.

Theorem finite_core_stops_exactly :
  forall n start : Z,
       (0 <= start < n)%Z ->
       forall j : nat, stopped_at j (x_init n start false) = (n - start + 4 <=? Z.of_nat j)%Z.
Proof. exact @finite_stops_exactly. Qed.

Theorem looping_core_never_stops :
  forall (n start : Z) (j : nat),
       (0 <= start < n)%Z ->
       let x := iter_up j (x_init n start true) in
       in_n x = n /\ in_loop x = true /\ in_playing x = true /\ (0 <= in_pos x < n)%Z.
Proof. exact @looping_never_stops. Qed.

Theorem finite_sound_reaches_stopped_thm :
  forall (powf : Q -> Q -> Q) (amp : Q -> Q) (n start : Z) (lens : list nat) (dt : Q) (i : info Q),
       (0 <= start < n)%Z ->
       0 <= dt ->
       let s0 := sound_new Q silenceQ identityQ n start false Immediate None in
       exists s' : sound Q Q,
         run_chunks powf amp s0 lens dt i = Ok s' /\
         (ps (s_psm s') = Stopped <-> (n - start + 1 <= Z.of_nat (total lens))%Z) /\
         (ps (s_psm s') = Stopped \/ ps (s_psm s') = Playing).
Proof. exact @finite_sound_reaches_stopped. Qed.

Theorem fade_out_monotone_to_silence :
  forall (powf : Q -> Q -> Q) (amp : Q -> Q),
       (forall a b : Q, a <= b -> amp a <= amp b) ->
       amp silenceQ == 0 ->
       forall (v0 : Q) (e : easing Q) (D t1 t2 : Q),
       shape (ease powf e) ->
       0 < D ->
       0 <= t1 ->
       t1 <= t2 ->
       t2 <= D ->
       silenceQ <= v0 ->
       amp (the_law powf v0 silenceQ e D t2) <= amp (the_law powf v0 silenceQ e D t1) /\
       0 <= amp (the_law powf v0 silenceQ e D t2).
Proof. exact @fade_out_gain_monotone. Qed.

Theorem fade_in_monotone_to_unity :
  forall (powf : Q -> Q -> Q) (amp : Q -> Q),
       (forall a b : Q, a <= b -> amp a <= amp b) ->
       amp identityQ == 1 ->
       forall (v0 : Q) (e : easing Q) (D t1 t2 : Q),
       shape (ease powf e) ->
       0 < D ->
       0 <= t1 ->
       t1 <= t2 ->
       t2 <= D ->
       v0 <= identityQ ->
       amp (the_law powf v0 identityQ e D t1) <= amp (the_law powf v0 identityQ e D t2) <= 1.
Proof. exact @fade_in_gain_monotone. Qed.
