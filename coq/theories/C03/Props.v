(** C03 — property theorems: statements (as printed by Coq) closed by [exact]. *)
From Coq Require Import ZArith QArith List.
From KV Require Import Base.Outcome Base.Num C19.Model C19.ProofsEasing C06.Model C06.Dur C06.Proofs C06.Proofs2
  C03.Model C03.ProofsInner C03.ProofsLife C03.ModelStream C03.ProofsStream C03.ProofsBoundary C03.ProofsTweenStart.
Import ListNotations.
Local Open Scope Q_scope.

Theorem stopped_ignores_commands_thm :
  forall (m : psm Q Q) (tw : tween Q) (st : stime Q),
       ps m = Stopped -> ppause m tw = m /\ presume m st tw = m /\ pstop m tw = m.
Proof. exact @stopped_ignores_commands. Qed.

Theorem stopped_survives_update :
  forall (powf : Q -> Q -> Q) (m m' : psm Q Q) (dt : Q) (i : info Q) (c : bool),
       ps m = Stopped -> pupd powf m dt i = Ok (m', c) -> ps m' = Stopped /\ c = false.
Proof. exact @upd_stopped. Qed.

Theorem stopped_ignores_command_drain :
  forall (s : sound Q Q) (c : commands Q),
       ps (s_psm s) = Stopped ->
       ps (s_psm (son_start s c)) = Stopped /\
       s_inner (son_start s c) = s_inner s /\ s_start (son_start s c) = s_start s.
Proof. exact @on_start_stopped. Qed.

Theorem stopped_is_silent_and_frozen :
  forall (powf : Q -> Q -> Q) (amp : Q -> Q) (s s' : sound Q Q) (len : nat) 
         (dt : Q) (i : info Q) (outs : list Q),
       ps (s_psm s) = Stopped ->
       sprocess powf amp s len dt i = Ok (s', outs) ->
       ps (s_psm s') = Stopped /\ outs = repeat 0 len /\ s_inner s' = s_inner s.
Proof. exact @process_stopped. Qed.

Theorem silent_and_frozen_when_not_playing :
  forall (powf : Q -> Q -> Q) (amp : Q -> Q) (s s' : sound Q Q) (len : nat) 
         (dt : Q) (i : info Q) (outs : list Q),
       sprocess powf amp s len dt i = Ok (s', outs) ->
       ps (s_psm s') = Paused \/
       (exists (st : stime Q) (tw : tween Q), ps (s_psm s') = WaitingToResume st tw) \/
       ps (s_psm s) = Stopped \/ is_immediate (s_start s') = false ->
       outs = repeat 0 len /\ s_inner s' = s_inner s.
Proof. exact @process_silent_frozen. Qed.

Theorem lifecycle_pause :
  forall (powf : Q -> Q -> Q) (m : psm Q Q) (tw : tween Q) (l : list (Q * info Q)),
       ps m <> Stopped ->
       not_delayed (tw_start tw) ->
       tw_dur tw <> 0%Z ->
       let D := ns_to_secs_Q (tw_dur tw) in
       ps (ppause m tw) = Pausing /\
       (exists m' : psm Q Q,
          prun powf (ppause m tw) l = Ok m' /\
          (if completes (tw_start tw) D 0 l
           then ps m' = Paused /\ p_raw (fade m') = silenceQ
           else
            ps m' = Pausing /\
            (l <> [] ->
             p_raw (fade m') =
             the_law powf (p_raw (fade m)) silenceQ (tw_easing tw) D (elapsed (tw_start tw) 0 l)))).
Proof. exact @pause_lifecycle. Qed.

Theorem lifecycle_stop :
  forall (powf : Q -> Q -> Q) (m : psm Q Q) (tw : tween Q) (l : list (Q * info Q)),
       ps m <> Stopped ->
       not_delayed (tw_start tw) ->
       tw_dur tw <> 0%Z ->
       let D := ns_to_secs_Q (tw_dur tw) in
       ps (pstop m tw) = Stopping /\
       (exists m' : psm Q Q,
          prun powf (pstop m tw) l = Ok m' /\
          (if completes (tw_start tw) D 0 l
           then ps m' = Stopped /\ p_raw (fade m') = silenceQ
           else
            ps m' = Stopping /\
            (l <> [] ->
             p_raw (fade m') =
             the_law powf (p_raw (fade m)) silenceQ (tw_easing tw) D (elapsed (tw_start tw) 0 l)))).
Proof. exact @stop_lifecycle. Qed.

Theorem lifecycle_resume :
  forall (powf : Q -> Q -> Q) (m : psm Q Q) (tw : tween Q) (l : list (Q * info Q)),
       ps m <> Stopped ->
       not_delayed (tw_start tw) ->
       tw_dur tw <> 0%Z ->
       let D := ns_to_secs_Q (tw_dur tw) in
       ps (presume m Immediate tw) = Resuming /\
       (exists m' : psm Q Q,
          prun powf (presume m Immediate tw) l = Ok m' /\
          (if completes (tw_start tw) D 0 l
           then ps m' = Playing /\ p_raw (fade m') = identityQ
           else
            ps m' = Resuming /\
            (l <> [] ->
             p_raw (fade m') =
             the_law powf (p_raw (fade m)) identityQ (tw_easing tw) D (elapsed (tw_start tw) 0 l)))).
Proof. exact @resume_lifecycle. Qed.

Theorem lifecycle_resume_at :
  forall (powf : Q -> Q -> Q) (m : psm Q Q) (st : stime Q) (tw : tween Q) (dt : Q) 
         (i : info Q) (f : param Q Q) (fin : bool),
       ps m = WaitingToResume st tw ->
       param_update powf Q lerp (fade m) dt i = Ok (f, fin) ->
       forall (st' : stime Q) (never : bool),
       stime_update st dt i = Ok (st', never) ->
       pupd powf m dt i =
       Ok
         (if never
          then ({| ps := Stopped; fade := f |}, true)
          else
           if is_immediate st'
           then ({| ps := Resuming; fade := param_set f (Fixed identityQ) tw |}, true)
           else ({| ps := WaitingToResume st' tw; fade := f |}, false)).
Proof. exact @waiting_step. Qed.

Theorem resume_at_clock_cases :
  forall (c : nat) (tk : Z) (fr dt : Q) (i : info Q),
       stime_update (ClockT c tk fr) dt i =
       match when_to_start i c tk fr with
       | Now => Ok (Immediate, false)
       | Later => Ok (ClockT c tk fr, false)
       | Never => Ok (ClockT c tk fr, true)
       end.
Proof. exact @stime_clock_cases. Qed.

Theorem handle_mirror_new :
  forall (n start : Z) (lp : bool) (st : stime Q) (fi : option (tween Q)),
       mirror_ok (sound_new Q silenceQ identityQ n start lp st fi).
Proof. exact @mirror_new. Qed.

Theorem handle_mirror_commands :
  forall (s : sound Q Q) (c : commands Q), mirror_ok s -> mirror_ok (son_start s c).
Proof. exact @mirror_on_start. Qed.

Theorem handle_mirror_process :
  forall (powf : Q -> Q -> Q) (amp : Q -> Q) (s s' : sound Q Q) (len : nat) 
         (dt : Q) (i : info Q) (outs : list Q),
       mirror_ok s -> sprocess powf amp s len dt i = Ok (s', outs) -> mirror_ok s'.
Proof. exact @mirror_process. Qed.

Theorem finite_core_stops_exactly :
  forall n start : Z,
       (0 <= start < n)%Z ->
       forall j : nat, stopped_at j (x_init n start false) = (n - start + 4 <=? Z.of_nat j)%Z.
Proof. exact @finite_stops_exactly. Qed.

Theorem looping_core_never_stops :
  forall (n start : Z) (j : nat),
       (0 <= start < n)%Z ->
       let x := iter_up j (x_init n start true) in
       in_n x = n /\ in_loop x = true /\ in_playing x = true /\ (0 <= in_pos x < n)%Z.
Proof. exact @looping_never_stops. Qed.

Theorem finite_sound_reaches_stopped_thm :
  forall (powf : Q -> Q -> Q) (amp : Q -> Q) (n start : Z) (lens : list nat) (dt : Q) (i : info Q),
       (0 <= start < n)%Z ->
       0 <= dt ->
       let s0 := sound_new Q silenceQ identityQ n start false Immediate None in
       exists s' : sound Q Q,
         run_chunks powf amp s0 lens dt i = Ok s' /\
         (ps (s_psm s') = Stopped <-> (n - start + 1 <= Z.of_nat (total lens))%Z) /\
         (ps (s_psm s') = Stopped \/ ps (s_psm s') = Playing).
Proof. exact @finite_sound_reaches_stopped. Qed.

Theorem fade_out_monotone_to_silence :
  forall (powf : Q -> Q -> Q) (amp : Q -> Q),
       (forall a b : Q, a <= b -> amp a <= amp b) ->
       amp silenceQ == 0 ->
       forall (v0 : Q) (e : easing Q) (D t1 t2 : Q),
       shape (ease powf e) ->
       0 < D ->
       0 <= t1 ->
       t1 <= t2 ->
       t2 <= D ->
       silenceQ <= v0 ->
       amp (the_law powf v0 silenceQ e D t2) <= amp (the_law powf v0 silenceQ e D t1) /\
       0 <= amp (the_law powf v0 silenceQ e D t2).
Proof. exact @fade_out_gain_monotone. Qed.

Theorem fade_in_monotone_to_unity :
  forall (powf : Q -> Q -> Q) (amp : Q -> Q),
       (forall a b : Q, a <= b -> amp a <= amp b) ->
       amp identityQ == 1 ->
       forall (v0 : Q) (e : easing Q) (D t1 t2 : Q),
       shape (ease powf e) ->
       0 < D ->
       0 <= t1 ->
       t1 <= t2 ->
       t2 <= D ->
       v0 <= identityQ ->
       amp (the_law powf v0 identityQ e D t1) <= amp (the_law powf v0 identityQ e D t2) <= 1.
Proof. exact @fade_in_gain_monotone. Qed.

(** *** streaming sounds, sounds that end at construction, main-track pick-up order *)

Theorem stream_error_stops_in_any_state :
  forall (powf : Q -> Q -> Q) (amp : Q -> Q) (s : stream Q Q) (len : nat) (dt : Q) (i : info Q),
  st_err s = true ->
  exists s' : stream Q Q,
    zprocess powf amp s len dt i = Ok (s', repeat 0 len) /\
    ps (st_psm s') = Stopped /\
    st_mirror s' = 6%Z /\
    stream_finished Q s' = true /\ st_ring s' = st_ring s /\ st_position s' = st_position s.
Proof. exact @stream_error_stops. Qed.

Theorem stream_state_step_is_starvation_independent :
  forall (powf : Q -> Q -> Q) (amp : Q -> Q) (s : stream Q Q) (len : nat) (dt : Q)
    (i : info Q) (m : psm Q Q) (changed : bool) (st : stime Q) (never : bool),
  st_err s = false ->
  pupd powf (st_psm s) (dtl dt len) i = Ok (m, changed) ->
  stime_update (st_start s) (dtl dt len) i = Ok (st, never) ->
  exists (s' : stream Q Q) (outs : list Q),
    zprocess powf amp s len dt i = Ok (s', outs) /\
    length outs = len /\
    st_start s' = st /\
    st_err s' = false /\
    st_end s' = st_end s /\
    (st_psm s' = (if never then psm_mark_stopped Q m else m) \/
     st_end s = true /\ st_ring s' = [] /\ st_psm s' = psm_mark_stopped Q m).
Proof. exact @stream_psm_step. Qed.

Theorem stream_follows_state_manager :
  forall (powf : Q -> Q -> Q) (amp : Q -> Q) (l : list sstep) (s : stream Q Q),
  st_err s = false ->
  st_end s = false ->
  st_start s = Immediate ->
  Forall quiet l ->
  match prun powf (st_psm s) (upds l) with
  | Ok m' =>
      exists s' : stream Q Q,
        zrun powf amp s l = Ok s' /\
        st_psm s' = m' /\ st_err s' = false /\ st_end s' = false /\ st_start s' = Immediate
  | Panic k => zrun powf amp s l = Panic k
  | Hang => zrun powf amp s l = Hang
  end.
Proof. exact @stream_follows_psm. Qed.

Theorem stream_lifecycle_pause :
  forall (powf : Q -> Q -> Q) (amp : Q -> Q) (s : stream Q Q) (tw : tween Q) (l : list sstep),
  live s ->
  Forall quiet l ->
  not_delayed (tw_start tw) ->
  tw_dur tw <> 0%Z ->
  let D := ns_to_secs_Q (tw_dur tw) in
  let s1 := zon_start s (cmd_pause tw) in
  ps (st_psm s1) = Pausing /\
  st_mirror s1 = 1%Z /\
  (exists s' : stream Q Q,
     zrun powf amp s1 l = Ok s' /\
     (if completes (tw_start tw) D 0 (upds l)
      then ps (st_psm s') = Paused /\ st_mirror s' = 2%Z /\ p_raw (fade (st_psm s')) = silenceQ
      else
       ps (st_psm s') = Pausing /\
       st_mirror s' = 1%Z /\
       (upds l <> [] ->
        p_raw (fade (st_psm s')) =
        the_law powf (p_raw (fade (st_psm s))) silenceQ (tw_easing tw) D
          (elapsed (tw_start tw) 0 (upds l))))).
Proof. exact @stream_pause_lifecycle. Qed.

Theorem stream_lifecycle_stop :
  forall (powf : Q -> Q -> Q) (amp : Q -> Q) (s : stream Q Q) (tw : tween Q) (l : list sstep),
  live s ->
  Forall quiet l ->
  not_delayed (tw_start tw) ->
  tw_dur tw <> 0%Z ->
  let D := ns_to_secs_Q (tw_dur tw) in
  let s1 := zon_start s (cmd_stop tw) in
  ps (st_psm s1) = Stopping /\
  st_mirror s1 = 5%Z /\
  (exists s' : stream Q Q,
     zrun powf amp s1 l = Ok s' /\
     (if completes (tw_start tw) D 0 (upds l)
      then ps (st_psm s') = Stopped /\ st_mirror s' = 6%Z /\ p_raw (fade (st_psm s')) = silenceQ
      else
       ps (st_psm s') = Stopping /\
       st_mirror s' = 5%Z /\
       (upds l <> [] ->
        p_raw (fade (st_psm s')) =
        the_law powf (p_raw (fade (st_psm s))) silenceQ (tw_easing tw) D
          (elapsed (tw_start tw) 0 (upds l))))).
Proof. exact @stream_stop_lifecycle. Qed.

Theorem stream_lifecycle_resume :
  forall (powf : Q -> Q -> Q) (amp : Q -> Q) (s : stream Q Q) (tw : tween Q) (l : list sstep),
  live s ->
  Forall quiet l ->
  not_delayed (tw_start tw) ->
  tw_dur tw <> 0%Z ->
  let D := ns_to_secs_Q (tw_dur tw) in
  let s1 := zon_start s (cmd_resume Immediate tw) in
  ps (st_psm s1) = Resuming /\
  st_mirror s1 = 4%Z /\
  (exists s' : stream Q Q,
     zrun powf amp s1 l = Ok s' /\
     (if completes (tw_start tw) D 0 (upds l)
      then ps (st_psm s') = Playing /\ st_mirror s' = 0%Z /\ p_raw (fade (st_psm s')) = identityQ
      else
       ps (st_psm s') = Resuming /\
       st_mirror s' = 4%Z /\
       (upds l <> [] ->
        p_raw (fade (st_psm s')) =
        the_law powf (p_raw (fade (st_psm s))) identityQ (tw_easing tw) D
          (elapsed (tw_start tw) 0 (upds l))))).
Proof. exact @stream_resume_lifecycle. Qed.

Theorem stream_lifecycle_resume_at :
  forall (powf : Q -> Q -> Q) (amp : Q -> Q) (s : stream Q Q) (st : stime Q)
    (tw : tween Q) (len : nat) (dt : Q) (i : info Q) (f : param Q Q) (fin : bool) 
    (st' : stime Q) (never : bool),
  zmirror_ok s ->
  st_err s = false ->
  st_start s = Immediate ->
  ps (st_psm s) = WaitingToResume st tw ->
  param_update powf Q lerp (fade (st_psm s)) (dtl dt len) i = Ok (f, fin) ->
  stime_update st (dtl dt len) i = Ok (st', never) ->
  exists (s' : stream Q Q) (outs : list Q),
    zprocess powf amp s len dt i = Ok (s', outs) /\
    zmirror_ok s' /\
    (if never
     then ps (st_psm s') = Stopped /\ outs = repeat 0 len /\ st_ring s' = st_ring s
     else
      if is_immediate st'
      then
       st_psm s' = {| ps := Resuming; fade := param_set f (Fixed identityQ) tw |} \/
       st_end s = true /\ st_ring s' = [] /\ ps (st_psm s') = Stopped
      else
       st_psm s' = {| ps := WaitingToResume st' tw; fade := f |} /\
       outs = repeat 0 len /\ st_ring s' = st_ring s).
Proof. exact @stream_resume_at_step. Qed.

Theorem stream_silent_and_frozen :
  forall (powf : Q -> Q -> Q) (amp : Q -> Q) (s s' : stream Q Q) (len : nat)
    (dt : Q) (i : info Q) (outs : list Q),
  zprocess powf amp s len dt i = Ok (s', outs) ->
  ps (st_psm s') = Paused \/
  (exists (st : stime Q) (tw : tween Q), ps (st_psm s') = WaitingToResume st tw) \/
  ps (st_psm s) = Stopped \/ is_immediate (st_start s') = false \/ zstarved s = true \/ st_err s = true ->
  outs = repeat 0 len /\ st_ring s' = st_ring s /\ st_position s' = st_position s.
Proof. exact @stream_silent_frozen. Qed.

Theorem stream_stopped_ignores_commands :
  forall (s : stream Q Q) (c : commands Q),
  ps (st_psm s) = Stopped ->
  st_psm (zon_start s c) = st_psm s /\
  st_ring (zon_start s c) = st_ring s /\ st_start (zon_start s c) = st_start s.
Proof. exact @zon_start_stopped. Qed.

Theorem stream_stopped_is_silent_and_frozen :
  forall (powf : Q -> Q -> Q) (amp : Q -> Q) (s s' : stream Q Q) (len : nat)
    (dt : Q) (i : info Q) (outs : list Q),
  ps (st_psm s) = Stopped ->
  zprocess powf amp s len dt i = Ok (s', outs) ->
  ps (st_psm s') = Stopped /\
  outs = repeat 0 len /\ st_ring s' = st_ring s /\ st_position s' = st_position s.
Proof. exact @zprocess_stopped. Qed.

Theorem stream_stopped_absorbing :
  forall (powf : Q -> Q -> Q) (amp : Q -> Q) (l : list sstep) (s s' : stream Q Q),
  ps (st_psm s) = Stopped -> zrun powf amp s l = Ok s' -> ps (st_psm s') = Stopped.
Proof. exact @stream_stopped_forever. Qed.

Theorem stream_handle_mirror_new :
  forall (start : Z) (st : stime Q) (fi : option (tween Q)), zmirror_ok (znew start st fi).
Proof. exact @zmirror_new. Qed.

Theorem stream_handle_mirror_commands :
  forall (s : stream Q Q) (c : commands Q), zmirror_ok s -> zmirror_ok (zon_start s c).
Proof. exact @zmirror_on_start. Qed.

Theorem stream_handle_mirror_process :
  forall (powf : Q -> Q -> Q) (amp : Q -> Q) (s s' : stream Q Q) (len : nat)
    (dt : Q) (i : info Q) (outs : list Q),
  zmirror_ok s -> zprocess powf amp s len dt i = Ok (s', outs) -> zmirror_ok s'.
Proof. exact @zmirror_process. Qed.

Theorem stream_handle_mirror_decoder :
  forall (s : stream Q Q) (e : env_step), zmirror_ok s -> zmirror_ok (zenv s e).
Proof. exact @zmirror_env. Qed.

Theorem finite_stream_reaches_stopped_thm :
  forall (powf : Q -> Q -> Q) (amp : Q -> Q) (lens : list nat) (s : stream Q Q) (dt : Q) (i : info Q),
  zsteady s ->
  st_end s = true ->
  st_ring s <> [] ->
  exists s' : stream Q Q,
    zrun powf amp s (procs lens dt i) = Ok s' /\
    (ps (st_psm s') = Stopped <-> (length (st_ring s) <= total lens)%nat) /\
    (ps (st_psm s') = Stopped \/ ps (st_psm s') = Playing) /\
    st_ring s' = skipn (total lens) (st_ring s).
Proof. exact @finite_stream_reaches_stopped. Qed.

Theorem stopped_at_construction_is_published :
  forall (x0 : inner) (st : stime Q) (fi : option (tween Q)),
  in_playing x0 = false ->
  (in_tue x0 <= 3)%Z ->
  let s := qnew_from x0 st fi in
  ps (s_psm s) = Stopped /\ s_mirror s = 6%Z /\ mirror_ok s /\ sound_finished Q s = true.
Proof. exact @stopped_at_construction. Qed.

Theorem reverse_with_nothing_to_play_is_stopped :
  forall (n : Z) (lp : bool) (st : stime Q) (fi : option (tween Q)),
  let s := qnew_from (inner_ended n lp) st fi in
  ps (s_psm s) = Stopped /\ s_mirror s = 6%Z /\ mirror_ok s /\ sound_finished Q s = true.
Proof. exact @reverse_with_nothing_to_play. Qed.

Theorem handle_mirror_new_from_any_core :
  forall (x0 : inner) (st : stime Q) (fi : option (tween Q)), mirror_ok (qnew_from x0 st fi).
Proof. exact @mirror_new_from. Qed.

Theorem constructor_generalises_sound_new :
  forall (n start : Z) (lp : bool) (st : stime Q) (fi : option (tween Q)),
  sound_new Q silenceQ identityQ n start lp st fi = qnew_from (x_init n start lp) st fi.
Proof. exact @sound_new_is_from. Qed.

Theorem main_track_picks_up_before_polling :
  forall (S C : Type) (on_start : S -> C -> S) (finished : S -> bool) (none : C)
    (t : mtrack S C) (s : S) (c : C),
  In (s, c) (mt_queue t) ->
  In (on_start s c, none) (mt_arena (main_on_start S C on_start finished none t)).
Proof. exact @main_picks_up_then_polls. Qed.

Theorem main_track_arena_after_start :
  forall (S C : Type) (on_start : S -> C -> S) (finished : S -> bool) (none : C)
    (t : mtrack S C) (e : S * C),
  In e (mt_arena (main_on_start S C on_start finished none t)) ->
  exists (s : S) (c : C),
    e = (on_start s c, none) /\ (In (s, c) (mt_arena t) /\ finished s = false \/ In (s, c) (mt_queue t)).
Proof. exact @main_arena_origin. Qed.

Theorem main_track_unloads_finished :
  forall (S C : Type) (on_start : S -> C -> S) (finished : S -> bool) (none : C) (t : mtrack S C),
  mt_num_sounds S C (main_on_start S C on_start finished none t) =
  (length (filter (fun e : S * C => negb (finished (fst e))) (mt_arena t)) + length (mt_queue t))%nat.
Proof. exact @main_unloads_finished. Qed.

Theorem command_before_first_callback_pause_static :
  forall (powf : Q -> Q -> Q) (amp : Q -> Q) (t : mtrack (sound Q Q) (commands Q))
    (s : sound Q Q) (tw : tween Q) (len : nat) (dt : Q) (i : info Q),
  ps (s_psm s) <> Stopped ->
  s_start s = Immediate ->
  instant tw ->
  0 <= dt ->
  let s1 := son_start s (cmd_pause tw) in
  In (s1, no_cmd) (mt_arena (qmain (mt_play (sound Q Q) (commands Q) t s (cmd_pause tw)))) /\
  ps (s_psm s1) = Pausing /\
  s_mirror s1 = 1%Z /\
  (exists s2 : sound Q Q,
     sprocess powf amp s1 len dt i = Ok (s2, repeat 0 len) /\
     ps (s_psm s2) = Paused /\ s_mirror s2 = 2%Z /\ s_inner s2 = s_inner s).
Proof. exact @static_first_callback_pause. Qed.

Theorem command_before_first_callback_stop_static :
  forall (powf : Q -> Q -> Q) (amp : Q -> Q) (t : mtrack (sound Q Q) (commands Q))
    (s : sound Q Q) (tw : tween Q) (len : nat) (dt : Q) (i : info Q),
  ps (s_psm s) <> Stopped ->
  s_start s = Immediate ->
  instant tw ->
  0 <= dt ->
  let s1 := son_start s (cmd_stop tw) in
  In (s1, no_cmd) (mt_arena (qmain (mt_play (sound Q Q) (commands Q) t s (cmd_stop tw)))) /\
  ps (s_psm s1) = Stopping /\
  s_mirror s1 = 5%Z /\
  (exists s2 : sound Q Q,
     sprocess powf amp s1 len dt i = Ok (s2, repeat 0 len) /\
     ps (s_psm s2) = Stopped /\ s_mirror s2 = 6%Z /\ sound_finished Q s2 = true).
Proof. exact @static_first_callback_stop. Qed.

Theorem command_before_first_callback_pause_stream :
  forall (powf : Q -> Q -> Q) (amp : Q -> Q) (t : mtrack (stream Q Q) (commands Q))
    (s : stream Q Q) (tw : tween Q) (len : nat) (dt : Q) (i : info Q),
  ps (st_psm s) <> Stopped ->
  st_start s = Immediate ->
  st_err s = false ->
  instant tw ->
  0 <= dt ->
  let s1 := zon_start s (cmd_pause tw) in
  In (s1, no_cmd) (mt_arena (zmain (mt_play (stream Q Q) (commands Q) t s (cmd_pause tw)))) /\
  ps (st_psm s1) = Pausing /\
  st_mirror s1 = 1%Z /\
  (exists s2 : stream Q Q,
     zprocess powf amp s1 len dt i = Ok (s2, repeat 0 len) /\
     ps (st_psm s2) = Paused /\ st_mirror s2 = 2%Z /\ st_ring s2 = st_ring s).
Proof. exact @stream_first_callback_pause. Qed.

Theorem command_before_first_callback_stop_stream :
  forall (powf : Q -> Q -> Q) (amp : Q -> Q) (t : mtrack (stream Q Q) (commands Q))
    (s : stream Q Q) (tw : tween Q) (len : nat) (dt : Q) (i : info Q),
  ps (st_psm s) <> Stopped ->
  st_start s = Immediate ->
  st_err s = false ->
  instant tw ->
  0 <= dt ->
  let s1 := zon_start s (cmd_stop tw) in
  In (s1, no_cmd) (mt_arena (zmain (mt_play (stream Q Q) (commands Q) t s (cmd_stop tw)))) /\
  ps (st_psm s1) = Stopping /\
  st_mirror s1 = 5%Z /\
  (exists s2 : stream Q Q,
     zprocess powf amp s1 len dt i = Ok (s2, repeat 0 len) /\
     ps (st_psm s2) = Stopped /\ st_mirror s2 = 6%Z /\ stream_finished Q s2 = true).
Proof. exact @stream_first_callback_stop. Qed.

Theorem starved_return_before_updates_refuted :
  ps (st_psm w_starved) = Pausing /\
  zstarved w_starved = true /\
  st_err w_starved = false /\
  (forall (n len : nat) (dt : Q) (i : info Q),
   exists s' : stream Q Q,
     iter_process (starved_first len dt i) n w_starved = Ok s' /\
     ps (st_psm s') = Pausing /\ st_mirror s' = 1%Z) /\
  (exists s' : stream Q Q,
     zrun powf0 amp_lin w_starved [SProc 1 1 info0; SProc 1 1 info0] = Ok s' /\
     ps (st_psm s') = Paused /\ st_mirror s' = 2%Z).
Proof. exact @starved_return_before_updates_refuted_w. Qed.

Theorem error_check_after_early_returns_refuted :
  st_err w_paused_err = true /\
  zmirror_ok w_paused_err /\
  (forall (n len : nat) (dt : Q) (i : info Q),
   exists s' : stream Q Q,
     iter_process (error_late len dt i) n w_paused_err = Ok s' /\
     ps (st_psm s') = Paused /\ st_mirror s' = 2%Z /\ stream_finished Q s' = false) /\
  (forall (len : nat) (dt : Q) (i : info Q),
   exists s' : stream Q Q,
     zprocess powf0 amp_lin w_paused_err len dt i = Ok (s', repeat 0 len) /\
     ps (st_psm s') = Stopped /\ st_mirror s' = 6%Z).
Proof. exact @error_check_after_returns_refuted_w. Qed.

Theorem on_start_before_pickup_refuted :
  (mt_arena (qmain_poll_first w_track) = [(w_sound, cmd_pause (tw_of 0))] /\
   (exists s' : sound Q Q,
      sprocess powf0 amp_lin w_sound 2 1 info0 = Ok (s', [1; 1]) /\
      ps (s_psm s') = Playing /\ s_mirror s' = 0%Z)) /\
  (exists s1 : sound Q Q,
     mt_arena (qmain w_track) = [(s1, no_cmd)] /\
     ps (s_psm s1) = Pausing /\
     (exists s' : sound Q Q,
        sprocess powf0 amp_lin s1 2 1 info0 = Ok (s', [0; 0]) /\
        ps (s_psm s') = Paused /\ s_mirror s' = 2%Z)).
Proof. exact @on_start_before_pickup_refuted_w. Qed.

Theorem publish_per_buffer_refuted :
  ps (s_psm w_unpublished) = Stopped /\
  sound_finished Q w_unpublished = true /\
  s_mirror w_unpublished = 0%Z /\
  ~ mirror_ok w_unpublished /\
  (forall (len : nat) (dt : Q) (i : info Q) (s' : sound Q Q) (outs : list Q),
   sprocess powf0 amp_lin w_unpublished len dt i = Ok (s', outs) -> s_mirror s' = 0%Z) /\
  mirror_ok (qnew_from (inner_ended 4 false) Immediate None).
Proof. exact @publish_per_buffer_refuted_w. Qed.

(** *** several commands issued at one callback boundary (no callback between them): [drained m c] is the
    state manager after pause, resume, stop of [c] were read in the code's order; the command read last
    decides, and what the handle's mirror showed while the commands were issued plays no part *)

Theorem same_boundary_drain_static :
  forall (s : sound Q Q) (c : commands Q),
       s_psm (son_start s c) = drained (s_psm s) c.
Proof. exact @on_start_psm. Qed.

Theorem same_boundary_drain_stream :
  forall (s : stream Q Q) (c : commands Q),
       st_psm (zon_start s c) = drained (st_psm s) c.
Proof. exact @stream_on_start_psm. Qed.

Theorem same_boundary_resume_last :
  forall (m : psm Q Q) (c : commands Q) (tr : tween Q),
       ps m <> Stopped ->
       c_resume c = Some (Immediate, tr) ->
       c_stop c = None ->
       ps (drained m c) = Resuming /\
       p_raw (fade (drained m c)) = p_raw (fade m) /\
       drained m c =
       presume match c_pause c with
               | Some tw => ppause m tw
               | None => m
               end Immediate tr.
Proof. exact @drained_resume_last. Qed.

Theorem same_boundary_pause_resume_lifecycle :
  forall (powf : Q -> Q -> Q) (m : psm Q Q) (c : commands Q)
         (tr : tween Q) (l : list (Q * info Q)),
       ps m <> Stopped ->
       c_resume c = Some (Immediate, tr) ->
       c_stop c = None ->
       not_delayed (tw_start tr) ->
       tw_dur tr <> 0%Z ->
       let D := ns_to_secs_Q (tw_dur tr) in
       ps (drained m c) = Resuming /\
       (exists m' : psm Q Q,
          prun powf (drained m c) l = Ok m' /\
          (if completes (tw_start tr) D 0 l
           then ps m' = Playing /\ p_raw (fade m') = identityQ
           else
            ps m' = Resuming /\
            (l <> [] ->
             p_raw (fade m') =
             the_law powf (p_raw (fade m)) identityQ 
               (tw_easing tr) D (elapsed (tw_start tr) 0 l)))).
Proof. exact @boundary_pause_resume_lifecycle. Qed.

Theorem same_boundary_stop_last :
  forall (m : psm Q Q) (c : commands Q) (ts : tween Q),
       ps m <> Stopped -> c_stop c = Some ts -> ps (drained m c) = Stopping.
Proof. exact @drained_stop_last. Qed.

Theorem same_boundary_pause_only :
  forall (m : psm Q Q) (c : commands Q) (tp : tween Q),
       ps m <> Stopped ->
       c_pause c = Some tp ->
       c_resume c = None -> c_stop c = None -> ps (drained m c) = Pausing.
Proof. exact @drained_pause_only. Qed.

(** *** a fade command whose tween carries its own start time: [resume(tween)] is an immediate resume (Resuming at
    once, whatever the tween's start time); only the fade waits, and it counts the tween's delay once *)

Theorem resume_is_immediate_for_any_tween :
  forall (m : psm Q Q) (tw : tween Q),
       ps m <> Stopped ->
       ps (presume m Immediate tw) = Resuming /\
       p_state (fade (presume m Immediate tw)) = Tweening (p_raw (fade m)) (Fixed identityQ) 0 tw /\
       p_raw (fade (presume m Immediate tw)) = p_raw (fade m) /\
       p_stagnant (fade (presume m Immediate tw)) = false.
Proof. exact @resume_now_any_tween. Qed.

Theorem fading_state_waits_for_tween_delay :
  forall (powf : Q -> Q -> Q) (m : psm Q Q) (d : pstate7 Q) (v0 tg t : Q)
         (tw : tween Q) (rem : Z) (dt : Q) (i : info Q) (ns : Z),
       fading (ps m) = Some d ->
       p_state (fade m) = Tweening v0 (Fixed tg) t tw ->
       p_stagnant (fade m) = false ->
       tw_start tw = Delayed rem ->
       rem <> 0%Z ->
       secs_to_ns dt = Ok ns ->
       exists f : param Q Q,
         pupd powf m dt i = Ok ({| ps := ps m; fade := f |}, false) /\
         p_state f = Tweening v0 (Fixed tg) t (with_delay tw (sat_sub rem ns)) /\
         p_stagnant f = false.
Proof. exact @delay_pending_step. Qed.

Theorem resume_tween_delay_counted_once :
  forall (powf : Q -> Q -> Q) (m : psm Q Q) (tw : tween Q) (rem : Z)
         (dt : Q) (i : info Q) (ns : Z),
       ps m <> Stopped ->
       tw_start tw = Delayed rem ->
       rem <> 0%Z ->
       secs_to_ns dt = Ok ns ->
       exists f : param Q Q,
         pupd powf (presume m Immediate tw) dt i = Ok ({| ps := Resuming; fade := f |}, false) /\
         p_state f = Tweening (p_raw (fade m)) (Fixed identityQ) 0 (with_delay tw (sat_sub rem ns)) /\
         p_stagnant f = false.
Proof. exact @resume_delay_counted_once. Qed.
