(** C03 — the playing core: a finite non-looping sound runs out after exactly
    [n - start + 4] position updates (3 of them are the pre-fill): closed form by induction. *)
From Coq Require Import ZArith Lia Bool List.
From KV Require Import Base.Outcome Base.Num C19.Model C06.Model C03.Model.
Import ListNotations.
Local Open Scope Z_scope.

Fixpoint iter_up (j : nat) (x : inner) : inner :=
  match j with O => x | S j' => fst (inner_update_position (iter_up j' x)) end.
(** "now stopped" reported by the [j]-th update (j >= 1) *)
Definition stopped_at (j : nat) (x : inner) : bool :=
  match j with O => false | S j' => snd (inner_update_position (iter_up j' x)) end.

Definition x_init (n start : Z) (lp : bool) : inner :=
  {| in_n := n; in_loop := lp; in_pos := start; in_playing := true;
     in_win := [(false, start); (false, start); (false, start); (false, start)]; in_tue := 0 |}.

Lemma inner_new_iter n start lp : fst (inner_new n start lp) = iter_up 3 (x_init n start lp).
Proof.
  unfold inner_new. fold (x_init n start lp). cbn [iter_up].
  destruct (inner_update_position (x_init n start lp)) as [x1 s1] eqn:E1. cbn [fst].
  destruct (inner_update_position x1) as [x2 s2] eqn:E2. cbn [fst].
  destruct (inner_update_position x2) as [x3 s3] eqn:E3. reflexivity.
Qed.

Section Finite.
  Variables n start : Z.
  Hypothesis Hs : 0 <= start < n.

  (** closed form of transport position, playing flag and resampler occupancy after [j] updates *)
  Lemma finite_closed_form (j : nat) :
    let x := iter_up j (x_init n start false) in
    in_n x = n /\ in_loop x = false /\
    in_pos x = Z.min (start + Z.of_nat j) n /\
    in_playing x = (start + Z.of_nat j <? n) /\
    in_tue x = (if (j =? 0)%nat then 0
                else if Z.of_nat j <=? n - start then 4
                else Z.max 0 (4 - (Z.of_nat j - (n - start)))).
  Proof.
    induction j as [|j IH].
    - cbn [iter_up x_init in_n in_loop in_pos in_playing in_tue Nat.eqb Z.of_nat]. cbv zeta.
      cbn [iter_up x_init in_n in_loop in_pos in_playing in_tue].
      split; [reflexivity|]. split; [reflexivity|]. split; [lia|]. split; [|reflexivity].
      destruct (Z.ltb_spec (start + 0) n); [reflexivity|lia].
    - cbn zeta in IH. destruct IH as [In [Il [Ip [Ipl It]]]].
      cbn [iter_up]. set (x := iter_up j (x_init n start false)) in *.
      unfold inner_update_position. cbn [fst]. unfold inner_increment, inner_push.
      cbn [in_playing in_pos in_n in_loop in_tue in_win].
      rewrite Ipl, In, Il, Ip.
      destruct (Z.ltb_spec (start + Z.of_nat j) n) as [L|L]; cbn [negb andb].
      + (* still playing *)
        cbn [in_n in_loop in_pos in_playing in_tue].
        rewrite Z.min_l by lia.
        repeat split.
        * lia.
        * destruct (Z.leb_spec n (start + Z.of_nat j + 1)), (Z.ltb_spec (start + Z.of_nat (S j)) n); cbn; try reflexivity; lia.
        * destruct (Nat.eqb_spec (S j) 0); [lia|].
          destruct (Z.leb_spec (Z.of_nat (S j)) (n - start)); [reflexivity|lia].
      + cbn [in_n in_loop in_pos in_playing in_tue].
        repeat split.
        * lia.
        * destruct (Z.ltb_spec (start + Z.of_nat (S j)) n); [lia|reflexivity].
        * rewrite It.
          destruct (Nat.eqb_spec (S j) 0); [lia|].
          destruct (Z.leb_spec (Z.of_nat (S j)) (n - start)); [lia|].
          destruct (Nat.eqb_spec j 0).
          -- subst j. lia.
          -- destruct (Z.leb_spec (Z.of_nat j) (n - start)); lia.
  Qed.

  (** the sound is marked Stopped exactly from update [n - start + 4] on *)
  Lemma finite_stops_exactly (j : nat) :
    stopped_at j (x_init n start false) = (n - start + 4 <=? Z.of_nat j).
  Proof.
    destruct j as [|j].
    - cbn. destruct (Z.leb_spec (n - start + 4) 0); [lia|reflexivity].
    - unfold stopped_at.
      pose proof (finite_closed_form (S j)) as H. cbn zeta in H. cbn [iter_up] in H.
      destruct H as [_ [_ [_ [Ipl It]]]].
      unfold inner_update_position at 1. cbn [snd].
      unfold inner_update_position in Ipl, It. cbn [fst] in Ipl, It.
      rewrite Ipl, It.
      destruct (Nat.eqb_spec (S j) 0); [lia|].
      destruct (Z.ltb_spec (start + Z.of_nat (S j)) n); cbn [negb andb].
      + destruct (Z.leb_spec (n - start + 4) (Z.of_nat (S j))); [lia|reflexivity].
      + destruct (Z.leb_spec (Z.of_nat (S j)) (n - start)).
        * destruct (Z.leb_spec (n - start + 4) (Z.of_nat (S j))); [lia|reflexivity].
        * destruct (Z.eqb_spec (Z.max 0 (4 - (Z.of_nat (S j) - (n - start)))) 0),
                   (Z.leb_spec (n - start + 4) (Z.of_nat (S j))); try reflexivity; lia.
  Qed.
End Finite.

(** a looping sound never stops by itself *)
Lemma looping_never_stops n start (j : nat) :
  0 <= start < n ->
  let x := iter_up j (x_init n start true) in
  in_n x = n /\ in_loop x = true /\ in_playing x = true /\ 0 <= in_pos x < n.
Proof.
  intro Hs. induction j as [|j IH].
  - cbn. repeat split; lia.
  - cbn zeta in IH. destruct IH as [In [Il [Ipl Ip]]].
    cbn [iter_up]. set (x := iter_up j (x_init n start true)) in *.
    unfold inner_update_position. cbn [fst]. unfold inner_increment, inner_push.
    cbn [in_playing in_pos in_n in_loop in_tue in_win]. rewrite Ipl, In, Il. cbn [negb andb].
    destruct (Z.ltb_spec 0 n); [|lia].
    cbn [in_n in_loop in_pos in_playing].
    pose proof (Z.mod_pos_bound (in_pos x + 1) n ltac:(lia)).
    split; [reflexivity|]. split; [reflexivity|]. split; [|lia].
    destruct (Z.leb_spec n ((in_pos x + 1) mod n)); [lia|reflexivity].
Qed.
