(** C03 — the streaming shell, sounds that have ended before their first callback, and the order in
    which the main track picks up new sounds and lets them read their commands.

    Transcribed from crates/kira/src/sound/streaming/sound.rs ([StreamingSound::new],
    [on_start_processing], [process], [finished], the [Shared] mirror, [reached_end] and
    [encountered_error] flags written by the decoder thread, the frame ring buffer pre-seeded with one
    silent frame by [DecodeScheduler::new]), sound/static_sound/sound.rs ([StaticSound::new]: three
    pre-fill [update_position]s, the first of which already reports "stopped" when [Transport::new]
    produced [playing = false]: reverse playback with start position >= length, or of an empty slice) and
    track/main.rs ([MainTrack::on_start_processing]).

    The streaming shell is the shell of [C03/Model.v] ([sound_process]) with the transport / resampler
    core replaced by the consumer end of the ring buffer, one more early return ("starved") and the
    decoder-error check in front of everything.  Playback rate 1 and [sample_rate * dt = 1], so one ring
    entry is popped per output frame and the fractional position stays 0 (the frame heard is ring slot 1). *)
From Coq Require Import ZArith List Bool.
From KV Require Import Base.Outcome Base.Num C19.Model C06.Model C03.Model.
Import ListNotations.
Local Open Scope Z_scope.

Section Generic.
  Context {T : Type} {NT : Num T} {ND : NumDur T}.
  Variable powf : T -> T -> T.
  Variable V : Type.
  Variable interp : V -> V -> T -> V.
  Variables silence identity : V.

  Notation psmV := (psm T V).

  (** ** the streaming sound (audio-thread side) *)
  Record stream := {
    st_psm : psmV;
    st_start : stime T;
    st_ring : list (bool * Z);   (* frame_consumer: (a real frame?, source index), oldest first *)
    st_end : bool;               (* Shared.reached_end (written by the decoder thread) *)
    st_err : bool;               (* Shared.encountered_error (written by the decoder thread) *)
    st_mirror : Z;               (* Shared.state *)
    st_position : Z;             (* current_frame = Shared.position, as a frame index *)
  }.
  Definition st_with_psm (s : stream) (m : psmV) : stream :=
    {| st_psm := m; st_start := st_start s; st_ring := st_ring s; st_end := st_end s; st_err := st_err s;
       st_mirror := st_mirror s; st_position := st_position s |}.
  (** [update_shared_playback_state] *)
  Definition st_set_mirror (s : stream) : stream :=
    {| st_psm := st_psm s; st_start := st_start s; st_ring := st_ring s; st_end := st_end s; st_err := st_err s;
       st_mirror := state_code (ps (st_psm s)); st_position := st_position s |}.
  (** [mark_as_stopped(); update_shared_playback_state()] *)
  Definition st_mark_stopped (s : stream) : stream :=
    st_set_mirror (st_with_psm s (psm_mark_stopped V (st_psm s))).

  (** [DecodeScheduler::new] (ring pre-seeded with one silent frame of index 0) + [StreamingSound::new] *)
  Definition stream_new (start : Z) (st : stime T) (fade_in : option (tween T)) : stream :=
    {| st_psm := psm_new V silence identity fade_in; st_start := st; st_ring := [(false, 0)];
       st_end := false; st_err := false; st_mirror := 0; st_position := start |}.

  (** what the decoder thread does between two calls of the audio thread *)
  Inductive env_step := EPush (present : bool) (index : Z) | EEnd | EErr.
  Definition stream_env (s : stream) (e : env_step) : stream :=
    match e with
    | EPush p ix =>
        {| st_psm := st_psm s; st_start := st_start s; st_ring := st_ring s ++ [(p, ix)]; st_end := st_end s;
           st_err := st_err s; st_mirror := st_mirror s; st_position := st_position s |}
    | EEnd =>
        {| st_psm := st_psm s; st_start := st_start s; st_ring := st_ring s; st_end := true;
           st_err := st_err s; st_mirror := st_mirror s; st_position := st_position s |}
    | EErr =>
        {| st_psm := st_psm s; st_start := st_start s; st_ring := st_ring s; st_end := st_end s;
           st_err := true; st_mirror := st_mirror s; st_position := st_position s |}
    end.

  (** [Sound::on_start_processing]: [update_current_frame] (index of ring slot 1, if there is one), publish the
      position, then [read_commands]: pause, resume, stop in this order *)
  Definition stream_on_start (s : stream) (c : commands T) : stream :=
    let s := {| st_psm := st_psm s; st_start := st_start s; st_ring := st_ring s; st_end := st_end s; st_err := st_err s;
                st_mirror := st_mirror s;
                st_position := match nth_error (st_ring s) 1 with Some (_, ix) => ix | None => st_position s end |} in
    let s := match c_pause c with Some tw => st_set_mirror (st_with_psm s (psm_pause V silence (st_psm s) tw)) | None => s end in
    let s := match c_resume c with Some (st, tw) => st_set_mirror (st_with_psm s (psm_resume V identity (st_psm s) st tw)) | None => s end in
    let s := match c_stop c with Some tw => st_set_mirror (st_with_psm s (psm_stop V silence (st_psm s) tw)) | None => s end in
    s.

  (** "pause playback while waiting for audio data": fewer than two frames and the end not reached *)
  Definition starved (s : stream) : bool := (Z.of_nat (length (st_ring s)) <? 2) && negb (st_end s).
  Definition ring_heard (r : list (bool * Z)) : bool := fst (nth 1 r (false, 0)).
  Definition is_nil {X} (l : list X) : bool := match l with [] => true | _ => false end.

  (** the part of [process] between the error check and the early returns: state manager (+ mirror if it
      changed), the sound's own start time (never -> Stopped + mirror) *)
  Definition stream_updates (s : stream) (dtl : T) (i : info T) : outcome stream :=
    let! (m, changed) := psm_update powf V interp identity (st_psm s) dtl i in
    let s := st_with_psm s m in
    let s := if changed then st_set_mirror s else s in
    let! (st, never) := stime_update (st_start s) dtl i in
    let s := {| st_psm := st_psm s; st_start := st; st_ring := st_ring s; st_end := st_end s; st_err := st_err s;
                st_mirror := st_mirror s; st_position := st_position s |} in
    Ok (if never then st_mark_stopped s else s).

  Section Gain.
    Variable A : Type.
    Variable amp : V -> A.
    Variable gain : bool -> A -> A.
    Variable azero : A.

    (** the per-frame loop: frame [k] of [len]; one ring entry popped per frame ([pop().ok()]: nothing
        happens on an empty ring); [reached_end && is_empty] -> Stopped *)
    Fixpoint sframes (m : psmV) (r : list (bool * Z)) (rend : bool) (len : nat) (k : nat) (todo : nat)
      : psmV * list (bool * Z) * list A :=
      match todo with
      | O => (m, r, [])
      | S todo' =>
          let amount := ndiv (nofZ (Z.of_nat k + 1)) (nofZ (Z.of_nat len)) in
          let fade_amp := amp (param_interpolated V interp (fade m) amount) in
          let out := gain (ring_heard r) fade_amp in
          let r' := tl r in
          let m' := if rend && is_nil r' then psm_mark_stopped V m else m in
          let '(m'', r'', outs) := sframes m' r' rend len (S k) todo' in
          (m'', r'', out :: outs)
      end.

    Definition stream_silent (s : stream) (len : nat) : outcome (stream * list A) := Ok (s, repeat azero len).
    (** the error branch *)
    Definition stream_fail (s : stream) (len : nat) : outcome (stream * list A) :=
      Ok (st_mark_stopped s, repeat azero len).
    Definition stream_render (s : stream) (len : nat) : outcome (stream * list A) :=
      let '(m', r', outs) := sframes (st_psm s) (st_ring s) (st_end s) len O len in
      let s' := {| st_psm := m'; st_start := st_start s; st_ring := r'; st_end := st_end s; st_err := st_err s;
                   st_mirror := st_mirror s; st_position := st_position s |} in
      (* the loop's mark_as_stopped also refreshes the mirror *)
      Ok (if is_stopped (ps m') then st_set_mirror s' else s', outs).

    (** [Sound::process] on a slice of [len] frames with per-frame [dt] *)
    Definition stream_process (s : stream) (len : nat) (dt : T) (i : info T) : outcome (stream * list A) :=
      if st_err s then stream_fail s len
      else
        let! s := stream_updates s (nmul dt (nofZ (Z.of_nat len))) i in
        if negb (is_immediate (st_start s)) then stream_silent s len
        else if negb (is_advancing (ps (st_psm s))) then stream_silent s len
        else if starved s then stream_silent s len
        else stream_render s len.

    (** [Sound::finished] *)
    Definition stream_finished (s : stream) : bool := is_stopped (ps (st_psm s)).

    (** *** counter-models: two other orders of the same blocks (what a re-ordering of [process] would do) *)
    (** the starved return in front of the parameter / state-manager updates *)
    Definition stream_process_starved_first (s : stream) (len : nat) (dt : T) (i : info T) : outcome (stream * list A) :=
      if st_err s then stream_fail s len
      else if starved s then stream_silent s len
      else
        let! s := stream_updates s (nmul dt (nofZ (Z.of_nat len))) i in
        if negb (is_immediate (st_start s)) then stream_silent s len
        else if negb (is_advancing (ps (st_psm s))) then stream_silent s len
        else stream_render s len.
    (** the error check behind the two early returns *)
    Definition stream_process_error_late (s : stream) (len : nat) (dt : T) (i : info T) : outcome (stream * list A) :=
      let! s := stream_updates s (nmul dt (nofZ (Z.of_nat len))) i in
      if negb (is_immediate (st_start s)) then stream_silent s len
      else if negb (is_advancing (ps (st_psm s))) then stream_silent s len
      else if st_err s then stream_fail s len
      else if starved s then stream_silent s len
      else stream_render s len.
  End Gain.

  (** ** static sounds that have ended before the first callback
      [StaticSound::new] for ANY transport / resampler state the constructor starts from: the three pre-fill
      position updates, and if one of them reports "stopped" the state manager is marked Stopped AND the
      handle's mirror is written (update_position does both). *)
  Definition inner_prefill (x0 : inner) : inner * bool :=
    let '(x1, s1) := inner_update_position x0 in
    let '(x2, s2) := inner_update_position x1 in
    let '(x3, s3) := inner_update_position x2 in
    (x3, s1 || s2 || s3).
  Definition sound_new_from (x0 : inner) (st : stime T) (fade_in : option (tween T)) : sound T V :=
    let '(x, stopped) := inner_prefill x0 in
    let m := psm_new V silence identity fade_in in
    let m := if stopped then psm_mark_stopped V m else m in
    {| s_psm := m; s_start := st; s_inner := x; s_mirror := if stopped then 6 else 0; s_position := in_pos x0 |}.
  (** what [Transport::new] + [Resampler::new] give for reverse playback with nothing to play
      (start position >= number of frames, or no frames at all): position 0, not playing *)
  Definition inner_ended (n : Z) (lp : bool) : inner :=
    {| in_n := n; in_loop := lp; in_pos := 0; in_playing := false;
       in_win := [(false, 0); (false, 0); (false, 0); (false, 0)]; in_tue := 0 |}.
  (** counter-model: the constructor's position updates mark the state manager only; the mirror is written by
      [process] (which such a sound never reaches: it is not advancing) *)
  Definition sound_new_from_unpublished (x0 : inner) (st : stime T) (fade_in : option (tween T)) : sound T V :=
    let '(x, stopped) := inner_prefill x0 in
    let m := psm_new V silence identity fade_in in
    let m := if stopped then psm_mark_stopped V m else m in
    {| s_psm := m; s_start := st; s_inner := x; s_mirror := 0; s_position := in_pos x0 |}.
End Generic.

(** ** [MainTrack::on_start_processing]: [remove_and_add(finished)], THEN every sound's [on_start_processing].
    A resource is a sound together with the commands its handle has written and the sound has not read yet;
    [queue] = sounds played since the last callback (the new-resource ring). *)
Section Track.
  Variable S : Type.                          (* the sound *)
  Variable C : Type.                          (* pending commands *)
  Variable on_start : S -> C -> S.            (* Sound::on_start_processing: reads (and so clears) them *)
  Variable finished : S -> bool.
  Variable none : C.

  Record mtrack := { mt_arena : list (S * C); mt_queue : list (S * C) }.
  Definition mt_remove_and_add (t : mtrack) : mtrack :=
    {| mt_arena := filter (fun e => negb (finished (fst e))) (mt_arena t) ++ mt_queue t; mt_queue := [] |}.
  Definition mt_poll (t : mtrack) : mtrack :=
    {| mt_arena := map (fun e => (on_start (fst e) (snd e), none)) (mt_arena t); mt_queue := mt_queue t |}.
  Definition main_on_start (t : mtrack) : mtrack := mt_poll (mt_remove_and_add t).
  (** counter-model: the sounds are polled before the new ones are picked up *)
  Definition main_on_start_poll_first (t : mtrack) : mtrack := mt_remove_and_add (mt_poll t).
  (** [manager.play(sound)] followed by commands on the returned handle, before the next callback *)
  Definition mt_play (t : mtrack) (s : S) (c : C) : mtrack :=
    {| mt_arena := mt_arena t; mt_queue := mt_queue t ++ [(s, c)] |}.
  Definition mt_num_sounds (t : mtrack) : nat := length (mt_arena t).
End Track.

Arguments stream : clear implicits.
Arguments st_psm {T V}. Arguments st_start {T V}. Arguments st_ring {T V}. Arguments st_end {T V}.
Arguments st_err {T V}. Arguments st_mirror {T V}. Arguments st_position {T V}. Arguments Build_stream {T V}.
Arguments mt_arena {S C}. Arguments mt_queue {S C}. Arguments Build_mtrack {S C}.
