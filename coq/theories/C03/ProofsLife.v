(** C03 — life-cycle theorems over the exact instance (time Q, fade in decibels Q). *)
From Coq Require Import ZArith QArith Qround Lia Lqa Bool List.
From KV Require Import Base.Outcome Base.Num Base.QLemmas C19.Model C19.ProofsEasing
  C06.Model C06.Dur C06.Proofs C06.Proofs2 C03.Model C03.ProofsInner.
Import ListNotations.
Local Open Scope Q_scope.

Section Life.
  Variable powf : Q -> Q -> Q.
  Notation lerpQ := (@lerp Q Num_Q).
  Definition silenceQ : Q := -60.
  Definition identityQ : Q := 0.
  Notation psmQ := (psm Q Q).
  Notation soundQ := (sound Q Q).

  Definition pnew := psm_new Q silenceQ identityQ.
  Definition ppause (m : psmQ) := psm_pause Q silenceQ m.
  Definition presume (m : psmQ) := psm_resume Q identityQ m.
  Definition pstop (m : psmQ) := psm_stop Q silenceQ m.
  Definition pupd (m : psmQ) := psm_update powf Q lerpQ identityQ m.

  (** the amplitude law and the rendered sample *)
  Variable amp : Q -> Q.
  Definition gainQ (present : bool) (a : Q) : Q := if present then a else 0.
  Definition sprocess (s : soundQ) := sound_process powf Q lerpQ identityQ Q amp gainQ 0 s.
  Definition son_start (s : soundQ) := sound_on_start Q silenceQ identityQ s.

  (** ** Stopped is final *)
  Lemma stopped_ignores_commands (m : psmQ) tw st :
    ps m = Stopped -> ppause m tw = m /\ presume m st tw = m /\ pstop m tw = m.
  Proof. intro H. unfold ppause, presume, pstop, psm_pause, psm_resume, psm_stop. rewrite H. cbn. repeat split. Qed.

  Lemma upd_stopped (m m' : psmQ) dt i c :
    ps m = Stopped -> pupd m dt i = Ok (m', c) -> ps m' = Stopped /\ c = false.
  Proof.
    intros H. unfold pupd, psm_update. rewrite H.
    destruct (param_update powf Q lerpQ (fade m) dt i) as [[f fin]| |]; cbn [obind]; try discriminate.
    intro E. inversion E. split; reflexivity.
  Qed.

  Lemma on_start_stopped (s : soundQ) c :
    ps (s_psm s) = Stopped ->
    ps (s_psm (son_start s c)) = Stopped /\ s_inner (son_start s c) = s_inner s /\ s_start (son_start s c) = s_start s.
  Proof.
    intro H. unfold son_start, sound_on_start.
    set (s0 := {| s_psm := s_psm s; s_start := s_start s; s_inner := s_inner s; s_mirror := s_mirror s;
                  s_position := snd (inner_heard (s_inner s)) |}).
    assert (H0 : ps (s_psm s0) = Stopped /\ s_inner s0 = s_inner s /\ s_start s0 = s_start s) by (repeat split; exact H).
    clearbody s0.
    assert (Step : forall (s1 : soundQ) (f : psmQ -> psmQ),
               (forall m, ps m = Stopped -> f m = m) ->
               ps (s_psm s1) = Stopped /\ s_inner s1 = s_inner s /\ s_start s1 = s_start s ->
               let s2 := set_mirror Q (with_psm Q s1 (f (s_psm s1))) in
               ps (s_psm s2) = Stopped /\ s_inner s2 = s_inner s /\ s_start s2 = s_start s).
    { intros s1 f Hf [A [B C]]. cbn [set_mirror with_psm s_psm s_inner s_start]. rewrite (Hf _ A). repeat split; assumption. }
    set (s1 := match c_pause c with Some tw => set_mirror Q (with_psm Q s0 (psm_pause Q silenceQ (s_psm s0) tw)) | None => s0 end).
    assert (H1 : ps (s_psm s1) = Stopped /\ s_inner s1 = s_inner s /\ s_start s1 = s_start s).
    { unfold s1. destruct (c_pause c) as [tw|]; [|exact H0].
      apply (Step s0 (fun m => psm_pause Q silenceQ m tw)); [|exact H0].
      intros m Hm. unfold psm_pause. rewrite Hm. reflexivity. }
    clearbody s1.
    set (s2 := match c_resume c with Some (st, tw) => set_mirror Q (with_psm Q s1 (psm_resume Q identityQ (s_psm s1) st tw)) | None => s1 end).
    assert (H2 : ps (s_psm s2) = Stopped /\ s_inner s2 = s_inner s /\ s_start s2 = s_start s).
    { unfold s2. destruct (c_resume c) as [[st tw]|]; [|exact H1].
      apply (Step s1 (fun m => psm_resume Q identityQ m st tw)); [|exact H1].
      intros m Hm. unfold psm_resume. rewrite Hm. reflexivity. }
    clearbody s2.
    destruct (c_stop c) as [tw|]; [|exact H2].
    apply (Step s2 (fun m => psm_stop Q silenceQ m tw)); [|exact H2].
    intros m Hm. unfold psm_stop. rewrite Hm. reflexivity.
  Qed.

  (** the per-frame loop only ever changes the state to Stopped, and advances the core by one
      position update per frame *)
  Lemma frames_spec (m : psmQ) (x : inner) len k todo :
    let '(m', x', outs) := frames Q lerpQ Q amp gainQ m x len k todo in
    x' = iter_up todo x /\ length outs = todo /\ fade m' = fade m /\
    (ps m' = ps m \/ ps m' = Stopped) /\
    (ps m' = Stopped <-> ps m = Stopped \/ exists j, (1 <= j <= todo)%nat /\ stopped_at j x = true).
  Proof.
    revert m x k. induction todo as [|todo IH]; intros m x k.
    - cbn. repeat split; auto. intros [H|[j [Hj _]]]; [assumption|lia].
    - cbn [frames].
      destruct (inner_update_position x) as [x1 st1] eqn:E1.
      specialize (IH (if st1 then psm_mark_stopped Q m else m) x1 (S k)).
      destruct (frames Q lerpQ Q amp gainQ (if st1 then psm_mark_stopped Q m else m) x1 len (S k) todo) as [[m2 x2] outs2].
      destruct IH as [Hx [Hl [Hf [Hs Hiff]]]].
      assert (Ex1 : x1 = iter_up 1 x) by (cbn [iter_up]; rewrite E1; reflexivity).
      assert (Est1 : st1 = stopped_at 1 x) by (unfold stopped_at; cbn [iter_up]; rewrite E1; reflexivity).
      assert (Hshift : forall j, iter_up j x1 = iter_up (S j) x).
      { intro j. induction j as [|j IHj]; [exact Ex1|]. cbn [iter_up]. rewrite IHj. reflexivity. }
      assert (Hshift2 : forall j, (1 <= j)%nat -> stopped_at j x1 = stopped_at (S j) x).
      { intros j Hj. destruct j as [|j]; [lia|]. unfold stopped_at. rewrite Hshift. reflexivity. }
      split; [rewrite Hx; apply Hshift|]. split; [cbn; lia|].
      split; [rewrite Hf; destruct st1; reflexivity|].
      split.
      + destruct Hs as [Hs|Hs]; [|right; exact Hs]. destruct st1; [right; rewrite Hs; reflexivity|left; exact Hs].
      + rewrite Hiff. split.
        * intros [H|[j [Hj Hst]]].
          -- destruct st1; [|left; exact H]. right. exists 1%nat. split; [lia|]. rewrite <- Est1. reflexivity.
          -- right. exists (S j). split; [lia|]. rewrite <- Hshift2 by lia. exact Hst.
        * intros [H|[j [Hj Hst]]].
          -- left. destruct st1; [reflexivity|exact H].
          -- destruct (Nat.eq_dec j 1) as [->|Hne].
             ++ left. rewrite <- Est1 in Hst. rewrite Hst. reflexivity.
             ++ right. exists (j - 1)%nat. split; [lia|]. rewrite Hshift2 by lia.
                replace (S (j - 1)) with j by lia. exact Hst.
  Qed.

  (** ** silence and frozen position while Paused / WaitingToResume / Stopped / not yet started *)
  Lemma process_silent_frozen (s s' : soundQ) len dt i outs :
    sprocess s len dt i = Ok (s', outs) ->
    (ps (s_psm s') = Paused \/ (exists st tw, ps (s_psm s') = WaitingToResume st tw) \/
     ps (s_psm s) = Stopped \/ is_immediate (s_start s') = false) ->
    outs = repeat 0 len /\ s_inner s' = s_inner s.
  Proof.
    unfold sprocess, sound_process. fold (pupd (s_psm s) (nmul dt (nofZ (Z.of_nat len))) i).
    destruct (pupd (s_psm s) (nmul dt (nofZ (Z.of_nat len))) i) as [[m changed]| |] eqn:EU; cbn [obind]; try discriminate.
    set (s1 := if changed then set_mirror Q (with_psm Q s m) else with_psm Q s m).
    assert (S1 : s_psm s1 = m /\ s_inner s1 = s_inner s /\ s_start s1 = s_start s) by (unfold s1; destruct changed; repeat split).
    destruct S1 as [S1a [S1b S1c]].
    destruct (stime_update (s_start s1) (nmul dt (nofZ (Z.of_nat len))) i) as [[st never]| |] eqn:ES; cbn [obind]; try discriminate.
    set (s2 := {| s_psm := s_psm s1; s_start := st; s_inner := s_inner s1; s_mirror := s_mirror s1; s_position := s_position s1 |}).
    set (s3 := if never then set_mirror Q (with_psm Q s2 (psm_mark_stopped Q (s_psm s2))) else s2).
    assert (S3 : s_inner s3 = s_inner s /\ s_start s3 = st /\ (ps (s_psm s3) = ps m \/ ps (s_psm s3) = Stopped)).
    { unfold s3, s2. destruct never; cbn [set_mirror with_psm s_inner s_start s_psm psm_mark_stopped ps]; rewrite ?S1a, ?S1b; repeat split; auto. }
    destruct S3 as [S3a [S3b S3c]].
    destruct (is_immediate (s_start s3)) eqn:Imm; cbn [negb].
    - destruct (is_advancing (ps (s_psm s3))) eqn:Adv; cbn [negb].
      + (* the chunk is rendered *)
        pose proof (frames_spec (s_psm s3) (s_inner s3) len 0 len) as F.
        destruct (frames Q lerpQ Q amp gainQ (s_psm s3) (s_inner s3) len 0 len) as [[m' x'] outs'].
        destruct F as [_ [_ [_ [Fs _]]]].
        intro E. inversion E. subst s' outs. clear E.
        assert (P : ps (s_psm (if is_stopped (ps m')
                               then set_mirror Q {| s_psm := m'; s_start := s_start s3; s_inner := x'; s_mirror := s_mirror s3; s_position := s_position s3 |}
                               else {| s_psm := m'; s_start := s_start s3; s_inner := x'; s_mirror := s_mirror s3; s_position := s_position s3 |})) = ps m'
                    /\ s_start (if is_stopped (ps m')
                               then set_mirror Q {| s_psm := m'; s_start := s_start s3; s_inner := x'; s_mirror := s_mirror s3; s_position := s_position s3 |}
                               else {| s_psm := m'; s_start := s_start s3; s_inner := x'; s_mirror := s_mirror s3; s_position := s_position s3 |}) = s_start s3).
        { destruct (is_stopped (ps m')); split; reflexivity. }
        destruct P as [P1 P2]. rewrite P1, P2.
        intros [H|[[st0 [tw0 H]]|[H|H]]].
        * destruct Fs as [Fs|Fs]; rewrite Fs in H; [rewrite H in Adv; discriminate|discriminate].
        * destruct Fs as [Fs|Fs]; rewrite Fs in H; [rewrite H in Adv; discriminate|discriminate].
        * destruct (upd_stopped _ _ _ _ _ H EU) as [Hm _].
          destruct S3c as [S3c|S3c]; rewrite S3c in Adv; [rewrite Hm in Adv|]; discriminate.
        * rewrite Imm in H. discriminate.
      + intro E. inversion E. subst s' outs. intros _. split; [reflexivity|exact S3a].
    - intro E. inversion E. subst s' outs. intros _. split; [reflexivity|exact S3a].
  Qed.

  (** Stopped is absorbing for processing too *)
  Lemma process_stopped (s s' : soundQ) len dt i outs :
    ps (s_psm s) = Stopped -> sprocess s len dt i = Ok (s', outs) ->
    ps (s_psm s') = Stopped /\ outs = repeat 0 len /\ s_inner s' = s_inner s.
  Proof.
    intros H E. destruct (process_silent_frozen s s' len dt i outs E) as [A B]; [right; right; left; exact H|].
    split; [|split; assumption].
    revert E. unfold sprocess, sound_process. fold (pupd (s_psm s) (nmul dt (nofZ (Z.of_nat len))) i).
    destruct (pupd (s_psm s) (nmul dt (nofZ (Z.of_nat len))) i) as [[m changed]| |] eqn:EU; cbn [obind]; try discriminate.
    destruct (upd_stopped _ _ _ _ _ H EU) as [Hm Hc]. subst changed.
    destruct (stime_update (s_start (with_psm Q s m)) (nmul dt (nofZ (Z.of_nat len))) i) as [[st never]| |] eqn:ES; cbn [obind]; try discriminate.
    set (s2 := {| s_psm := s_psm (with_psm Q s m); s_start := st; s_inner := s_inner (with_psm Q s m);
                  s_mirror := s_mirror (with_psm Q s m); s_position := s_position (with_psm Q s m) |}).
    set (s3 := if never then set_mirror Q (with_psm Q s2 (psm_mark_stopped Q (s_psm s2))) else s2).
    assert (S3 : ps (s_psm s3) = Stopped) by (unfold s3, s2; destruct never; cbn; [reflexivity|exact Hm]).
    destruct (is_immediate (s_start s3)); cbn [negb].
    - rewrite S3. cbn [is_advancing negb]. intro E. inversion E. exact S3.
    - intro E. inversion E. exact S3.
  Qed.

  (** ** fade-driven steps complete exactly when their tween completes *)
  Fixpoint prun (m : psmQ) (l : list (Q * info Q)) : outcome psmQ :=
    match l with
    | [] => Ok m
    | (dt, i) :: l' => match pupd m dt i with Ok (m', _) => prun m' l' | Panic k => Panic k | Hang => Hang end
    end.

  Definition fading (s : pstate7 Q) : option (pstate7 Q) :=
    match s with Pausing => Some Paused | Resuming => Some Playing | Stopping => Some Stopped | _ => None end.
  Definition settled (s : pstate7 Q) : Prop := s = Paused \/ s = Playing \/ s = Stopped.

  Lemma settled_forever (l : list (Q * info Q)) : forall (m : psmQ) tg,
    settled (ps m) -> p_state (fade m) = Idle (Fixed tg) -> p_raw (fade m) = tg ->
    exists m', prun m l = Ok m' /\ ps m' = ps m /\ p_state (fade m') = Idle (Fixed tg) /\ p_raw (fade m') = tg.
  Proof.
    induction l as [|[dt i] l IH]; intros m tg Hs Hf Hr.
    - exists m. repeat split; assumption.
    - cbn [prun]. unfold pupd, psm_update.
      destruct (idle_fixed_forever powf (fade m) tg [(dt, i)] Hf Hr) as [f' [R [F1 F2]]].
      cbn [updates map run param_run param_step] in R. unfold run in R. cbn [param_run param_step] in R.
      destruct (param_update powf Q lerpQ (fade m) dt i) as [[f fin]| |]; cbn [obind] in R |- *; try discriminate.
      inversion R. subst f'.
      destruct Hs as [Hs|[Hs|Hs]]; rewrite Hs.
      + destruct (IH {| ps := Paused; fade := f |} tg) as [m' [R' [A [B C]]]]; [left; reflexivity|exact F1|exact F2|].
        exists m'. repeat split; assumption.
      + destruct (IH {| ps := Playing; fade := f |} tg) as [m' [R' [A [B C]]]]; [right; left; reflexivity|exact F1|exact F2|].
        exists m'. repeat split; assumption.
      + destruct (IH {| ps := Stopped; fade := f |} tg) as [m' [R' [A [B C]]]]; [right; right; reflexivity|exact F1|exact F2|].
        exists m'. repeat split; assumption.
  Qed.

  Lemma fading_settles s d : fading s = Some d -> settled d.
  Proof. destruct s; cbn; intro H; inversion H; unfold settled; auto. Qed.

  Lemma pupd_fading (m : psmQ) d dt i f fin :
    fading (ps m) = Some d -> param_update powf Q lerpQ (fade m) dt i = Ok (f, fin) ->
    pupd m dt i = Ok (if fin then ({| ps := d; fade := f |}, true) else ({| ps := ps m; fade := f |}, false)).
  Proof.
    intros Hd E. unfold pupd, psm_update. rewrite E. cbn [obind].
    destruct (ps m); cbn in Hd; inversion Hd; reflexivity.
  Qed.

  Lemma fade_run (l : list (Q * info Q)) : forall (m : psmQ) d v0 tg t tw,
    fading (ps m) = Some d -> mid (fade m) v0 tg t tw -> not_delayed (tw_start tw) -> (tw_dur tw <> 0)%Z ->
    let D := ns_to_secs_Q (tw_dur tw) in
    exists m', prun m l = Ok m' /\
      if completes (tw_start tw) D t l
      then ps m' = d /\ p_raw (fade m') = tg /\ p_state (fade m') = Idle (Fixed tg)
      else ps m' = ps m /\ mid (fade m') v0 tg (elapsed (tw_start tw) t l) tw /\
           (l <> [] -> p_raw (fade m') = the_law powf v0 tg (tw_easing tw) D (elapsed (tw_start tw) t l)).
  Proof.
    induction l as [|[dt i] l IH]; intros m d v0 tg t tw Hd Hm Hnd Hdur D.
    - exists m. split; [reflexivity|]. cbn. split; [reflexivity|]. split; [assumption|]. intro H; contradiction.
    - cbn [prun completes elapsed].
      destruct (counts (tw_start tw) i) eqn:Hc.
      + pose proof (upd_mid_counts powf (fade m) v0 tg t tw dt i Hm Hnd Hdur Hc) as U. cbn zeta in U. unfold upd in U. fold D in U.
        destruct (Qle_bool D (nadd t dt)) eqn:Hle.
        * rewrite (pupd_fading m d dt i _ _ Hd U).
          destruct (settled_forever l {| ps := d; fade := {| p_state := Idle (Fixed tg); p_raw := tg; p_prev := p_raw (fade m); p_stagnant := true |} |} tg)
            as [m' [R [A [B C]]]]; [exact (fading_settles _ _ Hd)|reflexivity|reflexivity|].
          exists m'. split; [exact R|]. repeat split; assumption.
        * rewrite (pupd_fading m d dt i _ _ Hd U).
          set (f1 := {| p_state := Tweening v0 (Fixed tg) (nadd t dt) tw; p_raw := _; p_prev := _; p_stagnant := false |}).
          destruct (IH {| ps := ps m; fade := f1 |} d v0 tg (nadd t dt) tw) as [m' [R C]]; [exact Hd|split; reflexivity|assumption|assumption|].
          exists m'. split; [exact R|]. fold D in C.
          destruct (completes (tw_start tw) D (nadd t dt) l); [exact C|].
          destruct C as [C1 [C2 C3]]. split; [exact C1|]. split; [exact C2|]. intros _.
          destruct l as [|x l']; [|apply C3; discriminate]. cbn in R. inversion R. reflexivity.
      + pose proof (upd_mid_skips powf (fade m) v0 tg t tw dt i Hm Hnd Hdur Hc) as U. unfold upd in U.
        rewrite (pupd_fading m d dt i _ _ Hd U).
        set (f1 := {| p_state := Tweening v0 (Fixed tg) t tw; p_raw := _; p_prev := _; p_stagnant := false |}).
        destruct (IH {| ps := ps m; fade := f1 |} d v0 tg t tw) as [m' [R C]]; [exact Hd|split; reflexivity|assumption|assumption|].
        exists m'. split; [exact R|]. fold D in C.
        destruct (completes (tw_start tw) D t l); [exact C|].
        destruct C as [C1 [C2 C3]]. split; [exact C1|]. split; [exact C2|]. intros _.
        destruct l as [|x l']; [|apply C3; discriminate]. cbn in R. inversion R. reflexivity.
  Qed.

  (** pause: Pausing, then Paused exactly when the fade-out tween completes, at exactly silence *)
  Lemma pause_lifecycle (m : psmQ) tw l :
    ps m <> Stopped -> not_delayed (tw_start tw) -> (tw_dur tw <> 0)%Z ->
    let D := ns_to_secs_Q (tw_dur tw) in
    ps (ppause m tw) = Pausing /\
    exists m', prun (ppause m tw) l = Ok m' /\
      if completes (tw_start tw) D 0 l
      then ps m' = Paused /\ p_raw (fade m') = silenceQ
      else ps m' = Pausing /\ (l <> [] -> p_raw (fade m') = the_law powf (p_raw (fade m)) silenceQ (tw_easing tw) D (elapsed (tw_start tw) 0 l)).
  Proof.
    intros Hns Hnd Hdur D.
    assert (E : ppause m tw = {| ps := Pausing; fade := param_set (fade m) (Fixed silenceQ) tw |}).
    { unfold ppause, psm_pause. destruct (ps m); try reflexivity. contradiction. }
    rewrite E. split; [reflexivity|].
    destruct (fade_run l {| ps := Pausing; fade := param_set (fade m) (Fixed silenceQ) tw |} Paused (p_raw (fade m)) silenceQ 0 tw)
      as [m' [R C]]; [reflexivity|split; reflexivity|assumption|assumption|].
    exists m'. split; [exact R|]. fold D in C. destruct (completes (tw_start tw) D 0 l).
    - destruct C as [A [B _]]. split; assumption.
    - destruct C as [A [_ B]]. split; assumption.
  Qed.

  Lemma stop_lifecycle (m : psmQ) tw l :
    ps m <> Stopped -> not_delayed (tw_start tw) -> (tw_dur tw <> 0)%Z ->
    let D := ns_to_secs_Q (tw_dur tw) in
    ps (pstop m tw) = Stopping /\
    exists m', prun (pstop m tw) l = Ok m' /\
      if completes (tw_start tw) D 0 l
      then ps m' = Stopped /\ p_raw (fade m') = silenceQ
      else ps m' = Stopping /\ (l <> [] -> p_raw (fade m') = the_law powf (p_raw (fade m)) silenceQ (tw_easing tw) D (elapsed (tw_start tw) 0 l)).
  Proof.
    intros Hns Hnd Hdur D.
    assert (E : pstop m tw = {| ps := Stopping; fade := param_set (fade m) (Fixed silenceQ) tw |}).
    { unfold pstop, psm_stop. destruct (ps m); try reflexivity. contradiction. }
    rewrite E. split; [reflexivity|].
    destruct (fade_run l {| ps := Stopping; fade := param_set (fade m) (Fixed silenceQ) tw |} Stopped (p_raw (fade m)) silenceQ 0 tw)
      as [m' [R C]]; [reflexivity|split; reflexivity|assumption|assumption|].
    exists m'. split; [exact R|]. fold D in C. destruct (completes (tw_start tw) D 0 l).
    - destruct C as [A [B _]]. split; assumption.
    - destruct C as [A [_ B]]. split; assumption.
  Qed.

  Lemma resume_lifecycle (m : psmQ) tw l :
    ps m <> Stopped -> not_delayed (tw_start tw) -> (tw_dur tw <> 0)%Z ->
    let D := ns_to_secs_Q (tw_dur tw) in
    ps (presume m Immediate tw) = Resuming /\
    exists m', prun (presume m Immediate tw) l = Ok m' /\
      if completes (tw_start tw) D 0 l
      then ps m' = Playing /\ p_raw (fade m') = identityQ
      else ps m' = Resuming /\ (l <> [] -> p_raw (fade m') = the_law powf (p_raw (fade m)) identityQ (tw_easing tw) D (elapsed (tw_start tw) 0 l)).
  Proof.
    intros Hns Hnd Hdur D.
    assert (E : presume m Immediate tw = {| ps := Resuming; fade := param_set (fade m) (Fixed identityQ) tw |}).
    { unfold presume, psm_resume. destruct (ps m); try reflexivity. contradiction. }
    rewrite E. split; [reflexivity|].
    destruct (fade_run l {| ps := Resuming; fade := param_set (fade m) (Fixed identityQ) tw |} Playing (p_raw (fade m)) identityQ 0 tw)
      as [m' [R C]]; [reflexivity|split; reflexivity|assumption|assumption|].
    exists m'. split; [exact R|]. fold D in C. destruct (completes (tw_start tw) D 0 l).
    - destruct C as [A [B _]]. split; assumption.
    - destruct C as [A [_ B]]. split; assumption.
  Qed.

  (** ** resume_at: WaitingToResume until the start time resolves; cancelled if its clock is gone *)
  Lemma waiting_step (m : psmQ) st tw dt i f fin :
    ps m = WaitingToResume st tw -> param_update powf Q lerpQ (fade m) dt i = Ok (f, fin) ->
    forall st' never, stime_update st dt i = Ok (st', never) ->
    pupd m dt i =
      Ok (if never then ({| ps := Stopped; fade := f |}, true)
          else if is_immediate st'
               then ({| ps := Resuming; fade := param_set f (Fixed identityQ) tw |}, true)
               else ({| ps := WaitingToResume st' tw; fade := f |}, false)).
  Proof.
    intros Hs E st' never ES. unfold pupd, psm_update. rewrite E, Hs. cbn [obind]. rewrite ES. cbn [obind].
    destruct never; [reflexivity|]. destruct (is_immediate st'); reflexivity.
  Qed.
  Lemma stime_clock_cases c tk fr dt i :
    stime_update (ClockT c tk fr) dt i =
      match when_to_start i c tk fr with
      | Now => Ok (Immediate, false) | Later => Ok (ClockT c tk fr, false) | Never => Ok (ClockT c tk fr, true)
      end.
  Proof. reflexivity. Qed.

  (** ** the handle's mirror always shows the manager's state *)
  Definition mirror_ok (s : soundQ) : Prop := s_mirror s = state_code (ps (s_psm s)).
  Lemma mirror_new n start lp st fi : mirror_ok (sound_new Q silenceQ identityQ n start lp st fi).
  Proof.
    unfold mirror_ok, sound_new. destruct (inner_new n start lp) as [x stopped].
    destruct stopped; cbn; reflexivity.
  Qed.
  Lemma mirror_on_start (s : soundQ) c : mirror_ok s -> mirror_ok (son_start s c).
  Proof.
    unfold mirror_ok, son_start, sound_on_start. intro H.
    destruct (c_stop c) as [tw3|]; [reflexivity|].
    destruct (c_resume c) as [[st2 tw2]|]; [reflexivity|].
    destruct (c_pause c) as [tw1|]; [reflexivity|]. exact H.
  Qed.
  Lemma pupd_unchanged (m m' : psmQ) dt i :
    pupd m dt i = Ok (m', false) -> state_code (ps m') = state_code (ps m).
  Proof.
    unfold pupd, psm_update.
    destruct (param_update powf Q lerpQ (fade m) dt i) as [[f fin]| |]; cbn [obind]; try discriminate.
    destruct (ps m) as [| | |st tw| | |].
    - intro E. inversion E. reflexivity.
    - destruct fin; intro E; inversion E. reflexivity.
    - intro E. inversion E. reflexivity.
    - destruct (stime_update st dt i) as [[st' never]| |]; cbn [obind]; try discriminate.
      destruct never; [intro E; inversion E|].
      destruct (is_immediate st').
      + unfold psm_resume. cbn [ps is_stopped]. intro E. inversion E.
      + intro E. inversion E. reflexivity.
    - destruct fin; intro E; inversion E. reflexivity.
    - destruct fin; intro E; inversion E. reflexivity.
    - intro E. inversion E. reflexivity.
  Qed.

  Lemma mirror_process (s s' : soundQ) len dt i outs :
    mirror_ok s -> sprocess s len dt i = Ok (s', outs) -> mirror_ok s'.
  Proof.
    unfold mirror_ok, sprocess, sound_process. intro H. fold (pupd (s_psm s) (nmul dt (nofZ (Z.of_nat len))) i).
    destruct (pupd (s_psm s) (nmul dt (nofZ (Z.of_nat len))) i) as [[m changed]| |] eqn:EU; cbn [obind]; try discriminate.
    set (s1 := if changed then set_mirror Q (with_psm Q s m) else with_psm Q s m).
    assert (M1 : s_mirror s1 = state_code (ps (s_psm s1))).
    { unfold s1. destruct changed; [reflexivity|]. cbn [with_psm s_mirror s_psm]. rewrite H.
      symmetry. apply (pupd_unchanged _ _ _ _ EU). }
    clearbody s1.
    destruct (stime_update (s_start s1) (nmul dt (nofZ (Z.of_nat len))) i) as [[st never]| |]; cbn [obind]; try discriminate.
    set (s2 := {| s_psm := s_psm s1; s_start := st; s_inner := s_inner s1; s_mirror := s_mirror s1; s_position := s_position s1 |}).
    set (s3 := if never then set_mirror Q (with_psm Q s2 (psm_mark_stopped Q (s_psm s2))) else s2).
    assert (M3 : s_mirror s3 = state_code (ps (s_psm s3))).
    { unfold s3, s2. destruct never; [reflexivity|]. exact M1. }
    clearbody s3.
    destruct (is_immediate (s_start s3)); cbn [negb]; [|intro E; inversion E; subst; exact M3].
    destruct (is_advancing (ps (s_psm s3))) eqn:Adv; cbn [negb]; [|intro E; inversion E; subst; exact M3].
    pose proof (frames_spec (s_psm s3) (s_inner s3) len 0 len) as F.
    destruct (frames Q lerpQ Q amp gainQ (s_psm s3) (s_inner s3) len 0 len) as [[m' x'] outs'].
    destruct F as [_ [_ [_ [Fs _]]]].
    intro E. inversion E. subst s' outs. clear E.
    destruct (is_stopped (ps m')) eqn:St; [reflexivity|].
    cbn [s_mirror s_psm]. rewrite M3.
    destruct Fs as [Fs|Fs]; rewrite Fs; [reflexivity|]. rewrite Fs in St. discriminate.
  Qed.

  (** ** a playing sound of finitely many frames reaches Stopped, for every chunking *)
  Lemma iter_up_add a b x : iter_up (a + b) x = iter_up b (iter_up a x).
  Proof.
    induction b as [|b IH]; [rewrite Nat.add_0_r; reflexivity|].
    rewrite Nat.add_succ_r. cbn [iter_up]. rewrite IH. reflexivity.
  Qed.
  Lemma stopped_at_add a j x : (1 <= j)%nat -> stopped_at j (iter_up a x) = stopped_at (a + j) x.
  Proof.
    intro Hj. destruct j as [|j]; [lia|]. rewrite Nat.add_succ_r. unfold stopped_at. rewrite iter_up_add. reflexivity.
  Qed.

  Definition steady_playing (s : soundQ) : Prop :=
    ps (s_psm s) = Playing /\ p_stagnant (fade (s_psm s)) = true /\ s_start s = Immediate.

  Lemma playing_upd (m : psmQ) dt i :
    ps m = Playing -> p_stagnant (fade m) = true ->
    pupd m dt i = Ok ({| ps := Playing; fade := {| p_state := p_state (fade m); p_raw := p_raw (fade m);
                                                  p_prev := p_raw (fade m); p_stagnant := true |} |}, false).
  Proof.
    intros Hp Hg. unfold pupd, psm_update, param_update. rewrite Hg. cbn [obind]. rewrite Hp. reflexivity.
  Qed.

  Lemma playing_process (s : soundQ) len dt i :
    steady_playing s ->
    exists s' outs, sprocess s len dt i = Ok (s', outs) /\ s_inner s' = iter_up len (s_inner s) /\
      s_start s' = Immediate /\ p_stagnant (fade (s_psm s')) = true /\
      ((exists j, (1 <= j <= len)%nat /\ stopped_at j (s_inner s) = true) -> ps (s_psm s') = Stopped) /\
      ((forall j, (1 <= j <= len)%nat -> stopped_at j (s_inner s) = false) -> ps (s_psm s') = Playing).
  Proof.
    intros [Hp [Hg Hst]]. unfold sprocess, sound_process.
    fold (pupd (s_psm s) (nmul dt (nofZ (Z.of_nat len))) i).
    rewrite (playing_upd _ _ _ Hp Hg). cbn [obind with_psm s_psm s_inner s_start s_mirror s_position]. rewrite Hst.
    cbn [stime_update obind is_immediate negb s_psm s_inner s_start s_mirror s_position ps is_advancing].
    set (m0 := {| ps := Playing; fade := _ |}).
    pose proof (frames_spec m0 (s_inner s) len 0 len) as F.
    destruct (frames Q lerpQ Q amp gainQ m0 (s_inner s) len 0 len) as [[m' x'] outs'].
    destruct F as [Fx [_ [Ff [Fs Fiff]]]].
    eexists. eexists. split; [reflexivity|].
    destruct (is_stopped (ps m')); cbn [set_mirror s_inner s_start s_psm];
      (split; [exact Fx|]; split; [reflexivity|]; split; [rewrite Ff; reflexivity|]; split;
       [intro H; apply Fiff; right; exact H
       |intro H; destruct Fs as [Fs|Fs]; [exact Fs|]; exfalso;
        apply Fiff in Fs; destruct Fs as [Fs|[j [Hj Hs]]]; [discriminate|]; rewrite (H j Hj) in Hs; discriminate]).
  Qed.

  Fixpoint run_chunks (s : soundQ) (lens : list nat) (dt : Q) (i : info Q) : outcome soundQ :=
    match lens with
    | [] => Ok s
    | len :: lens' => match sprocess s len dt i with
                      | Ok (s', _) => run_chunks s' lens' dt i | Panic k => Panic k | Hang => Hang end
    end.
  Definition total (lens : list nat) : nat := fold_right Nat.add O lens.

  Lemma stopped_stays (lens : list nat) : forall (s : soundQ) dt i,
    0 <= dt -> ps (s_psm s) = Stopped -> is_immediate (s_start s) = true ->
    p_stagnant (fade (s_psm s)) = true ->
    exists s', run_chunks s lens dt i = Ok s' /\ ps (s_psm s') = Stopped.
  Proof.
    induction lens as [|len lens IH]; intros s dt i Hdt Hs Hi Hg.
    - exists s. split; [reflexivity|exact Hs].
    - cbn [run_chunks].
      assert (E : exists s1 outs, sprocess s len dt i = Ok (s1, outs) /\ is_immediate (s_start s1) = true /\ p_stagnant (fade (s_psm s1)) = true).
      { unfold sprocess, sound_process, psm_update, param_update. rewrite Hg. cbn [obind]. rewrite Hs.
        cbn [obind with_psm s_psm s_inner s_start s_mirror s_position].
        destruct (s_start s) as [|ns|c tk fr]; cbn in Hi; try discriminate.
        cbn [stime_update obind is_immediate negb s_psm s_inner s_start s_mirror s_position ps is_advancing].
        eexists. eexists. split; [reflexivity|]. split; reflexivity. }
      destruct E as [s1 [outs [E [Hi1 Hg1]]]]. rewrite E.
      destruct (process_stopped s s1 len dt i outs Hs E) as [Hs1 _].
      apply IH; assumption.
  Qed.

  (** A finite, non-looping sound that is simply left playing reports Stopped exactly once
      [n - start + 1] frames have been rendered (the last of them silent), however the
      frames are split into process calls. *)
  Lemma finite_sound_reaches_stopped (n start : Z) (lens : list nat) dt i :
    (0 <= start < n)%Z -> 0 <= dt ->
    let s0 := sound_new Q silenceQ identityQ n start false Immediate None in
    exists s', run_chunks s0 lens dt i = Ok s' /\
      (ps (s_psm s') = Stopped <-> (n - start + 1 <= Z.of_nat (total lens))%Z) /\
      (ps (s_psm s') = Stopped \/ ps (s_psm s') = Playing).
  Proof.
    intros Hs Hdt s0.
    set (x := x_init n start false).
    assert (Gen : forall lens (s : soundQ) (a : nat),
               steady_playing s -> s_inner s = iter_up (3 + a) x -> (Z.of_nat a < n - start + 1)%Z ->
               exists s', run_chunks s lens dt i = Ok s' /\
                 (ps (s_psm s') = Stopped <-> (n - start + 1 <= Z.of_nat (a + total lens))%Z) /\
                 (ps (s_psm s') = Stopped \/ ps (s_psm s') = Playing)).
    { clear lens. induction lens as [|len lens IH]; intros s a Hst Hin Ha.
      - exists s. split; [reflexivity|]. destruct Hst as [Hp _]. rewrite Hp. cbn [total fold_right].
        split; [|right; reflexivity]. split; [discriminate|lia].
      - cbn [run_chunks total fold_right]. fold (total lens).
        destruct (playing_process s len dt i Hst) as [s1 [outs [E [Hin1 [Hst1 [Hg1 [Hyes Hno]]]]]]].
        rewrite E.
        assert (Hat : forall j, (1 <= j)%nat -> stopped_at j (s_inner s) = (n - start + 4 <=? Z.of_nat (3 + a + j))%Z).
        { intros j Hj. rewrite Hin, stopped_at_add by exact Hj. apply finite_stops_exactly. exact Hs. }
        destruct (Z.le_gt_cases (n - start + 1) (Z.of_nat (a + len))) as [L|L].
        + (* reaches the end within this call *)
          assert (Hst' : ps (s_psm s1) = Stopped).
          { apply Hyes. exists len. split.
            - destruct len; lia.
            - rewrite Hat by (destruct len; lia). apply Z.leb_le. lia. }
          destruct (stopped_stays lens s1 dt i Hdt Hst') as [s' [R Hs']]; [rewrite Hst1; reflexivity|exact Hg1|].
          exists s'. split; [exact R|]. split; [|left; exact Hs']. split; [intros _; lia|intros _; exact Hs'].
        + assert (Hpl : ps (s_psm s1) = Playing).
          { apply Hno. intros j Hj. rewrite Hat by lia. apply Z.leb_gt. lia. }
          destruct (IH s1 (a + len)%nat) as [s' [R [Hiff Hor]]].
          * split; [exact Hpl|]. split; assumption.
          * rewrite Hin1, Hin, <- iter_up_add. reflexivity.
          * lia.
          * exists s'. split; [exact R|]. split; [|exact Hor]. rewrite Hiff. rewrite Nat.add_assoc. reflexivity. }
    assert (H0 : steady_playing s0 /\ s_inner s0 = iter_up 3 x).
    { unfold s0, sound_new. pose proof (inner_new_iter n start false) as E.
      destruct (inner_new n start false) as [x3 stp] eqn:En. cbn [fst] in E.
      assert (Hstp : stp = false).
      { revert En. unfold inner_new. fold (x_init n start false). fold x.
        destruct (inner_update_position x) as [x1 s1] eqn:E1.
        destruct (inner_update_position x1) as [x2 s2] eqn:E2.
        destruct (inner_update_position x2) as [x3' s3] eqn:E3.
        intro En. inversion En.
        assert (A1 : s1 = stopped_at 1 x) by (unfold stopped_at; cbn [iter_up]; rewrite E1; reflexivity).
        assert (X1 : x1 = iter_up 1 x) by (cbn [iter_up]; rewrite E1; reflexivity).
        assert (A2 : s2 = stopped_at 2 x) by (unfold stopped_at; cbn [iter_up]; rewrite E1; cbn [fst]; rewrite E2; reflexivity).
        assert (X2 : x2 = iter_up 2 x) by (cbn [iter_up]; rewrite E1; cbn [fst]; rewrite E2; reflexivity).
        assert (A3 : s3 = stopped_at 3 x) by (unfold stopped_at; cbn [iter_up]; rewrite E1; cbn [fst]; rewrite E2; cbn [fst]; rewrite E3; reflexivity).
        rewrite A1, A2, A3. unfold x. rewrite !finite_stops_exactly by exact Hs.
        destruct (Z.leb_spec (n - start + 4) (Z.of_nat 1)), (Z.leb_spec (n - start + 4) (Z.of_nat 2)), (Z.leb_spec (n - start + 4) (Z.of_nat 3)); try lia; reflexivity. }
      subst stp. split; [|exact E]. split; [reflexivity|]. split; reflexivity. }
    destruct H0 as [H0 H1].
    destruct (Gen lens s0 0%nat H0) as [s' [R [Hiff Hor]]]; [rewrite H1; reflexivity|lia|].
    exists s'. split; [exact R|]. split; [|exact Hor]. exact Hiff.
  Qed.

  (** ** during one fade the gain moves monotonically, and ends at exactly silence / unity *)
  Lemma law_monotone v0 tg e D t1 t2 :
    shape (ease powf e) -> 0 < D -> 0 <= t1 -> t1 <= t2 -> t2 <= D ->
    (tg <= v0 -> the_law powf v0 tg e D t2 <= the_law powf v0 tg e D t1) /\
    (v0 <= tg -> the_law powf v0 tg e D t1 <= the_law powf v0 tg e D t2).
  Proof.
    intros S HD H0 H12 H2.
    destruct (the_law_eq powf v0 tg e D t1) as [E1 F1]. destruct (the_law_eq powf v0 tg e D t2) as [E2 F2].
    assert (M : ease powf e (ndiv t1 D) <= ease powf e (ndiv t2 D)).
    { apply (sh_mono _ S); rewrite ?F1, ?F2.
      - apply Qle_shift_div_l; lra.
      - apply Qle_shift_div_l; [lra|]. unfold Qdiv. rewrite <- Qmult_assoc, (Qmult_comm (/ D)), Qmult_inv_r by lra. lra.
      - apply Qle_shift_div_r; lra. }
    rewrite E1, E2. split; intro H; nra.
  Qed.

  Variable amp_mono : forall a b, a <= b -> amp a <= amp b.
  Variable amp_silence : amp silenceQ == 0.
  Variable amp_identity : amp identityQ == 1.

  Lemma fade_out_gain_monotone v0 e D t1 t2 :
    shape (ease powf e) -> 0 < D -> 0 <= t1 -> t1 <= t2 -> t2 <= D -> silenceQ <= v0 ->
    amp (the_law powf v0 silenceQ e D t2) <= amp (the_law powf v0 silenceQ e D t1) /\
    0 <= amp (the_law powf v0 silenceQ e D t2).
  Proof.
    intros S HD H0 H12 H2 Hv.
    destruct (law_monotone v0 silenceQ e D t1 t2 S HD H0 H12 H2) as [A _].
    split; [apply amp_mono; apply A; exact Hv|].
    rewrite <- amp_silence. apply amp_mono.
    destruct (law_in_range powf v0 silenceQ e D t2 S HD) as [_ B]; [lra|lra|]. apply B. exact Hv.
  Qed.
  Lemma fade_in_gain_monotone v0 e D t1 t2 :
    shape (ease powf e) -> 0 < D -> 0 <= t1 -> t1 <= t2 -> t2 <= D -> v0 <= identityQ ->
    amp (the_law powf v0 identityQ e D t1) <= amp (the_law powf v0 identityQ e D t2) /\
    amp (the_law powf v0 identityQ e D t2) <= 1.
  Proof.
    intros S HD H0 H12 H2 Hv.
    destruct (law_monotone v0 identityQ e D t1 t2 S HD H0 H12 H2) as [_ A].
    split; [apply amp_mono; apply A; exact Hv|].
    rewrite <- amp_identity. apply amp_mono.
    destruct (law_in_range powf v0 identityQ e D t2 S HD) as [B _]; [lra|lra|]. apply B. exact Hv.
  Qed.
End Life.
