(** C03 — a fade command whose TWEEN carries its own start time ([Tween { start_time: Delayed d, .. }]).
    [resume(tween)] is [resume_at(Immediate, tween)]: the sound is Resuming at once, whatever the tween's start
    time; only the fade waits, and it counts the tween's delay ONCE: every update while the delay is pending keeps
    the fading state, leaves the tween's clock where it was and takes the length of the update off the delay.
    (Sending the tween's start time as the resume's start time as well would park the sound in WaitingToResume
    for the delay and then start the fade with the same, still unconsumed, delay.) *)
From Coq Require Import ZArith QArith Lia Bool List.
From KV Require Import Base.Outcome Base.Num C19.Model C06.Model C06.Dur C03.Model C03.ProofsLife.
Import ListNotations.
Local Open Scope Q_scope.

Section TweenStart.
  Variable powf : Q -> Q -> Q.
  Notation psmQ := (psm Q Q).

  Definition with_delay (tw : tween Q) (rem : Z) : tween Q :=
    {| tw_start := Delayed rem; tw_dur := tw_dur tw; tw_easing := tw_easing tw |}.

  (** an immediate resume is Resuming at once for ANY tween; the fade is set with the tween as it was given *)
  Lemma resume_now_any_tween (m : psmQ) (tw : tween Q) :
    ps m <> Stopped ->
    ps (presume m Immediate tw) = Resuming /\
    p_state (fade (presume m Immediate tw)) = Tweening (p_raw (fade m)) (Fixed identityQ) 0 tw /\
    p_raw (fade (presume m Immediate tw)) = p_raw (fade m) /\
    p_stagnant (fade (presume m Immediate tw)) = false.
  Proof.
    intro H. unfold presume, psm_resume.
    destruct (ps m); try (exfalso; apply H; reflexivity); cbn; repeat split; reflexivity.
  Qed.

  (** one update of a fading state whose tween's own delay is still pending *)
  Lemma delay_pending_step (m : psmQ) d v0 tg t tw rem dt i ns :
    fading (ps m) = Some d ->
    p_state (fade m) = Tweening v0 (Fixed tg) t tw -> p_stagnant (fade m) = false ->
    tw_start tw = Delayed rem -> (rem <> 0)%Z ->
    secs_to_ns dt = Ok ns ->
    exists f, pupd powf m dt i = Ok ({| ps := ps m; fade := f |}, false) /\
              p_state f = Tweening v0 (Fixed tg) t (with_delay tw (sat_sub rem ns)) /\
              p_stagnant f = false.
  Proof.
    intros Hd Hs Hg Hst Hrem Hns.
    assert (E : exists f, param_update powf Q (@lerp Q Num_Q) (fade m) dt i = Ok (f, false) /\
                          p_state f = Tweening v0 (Fixed tg) t (with_delay tw (sat_sub rem ns)) /\ p_stagnant f = false).
    { unfold param_update. rewrite Hg, Hs. unfold update_tween. rewrite Hst.
      destruct (rem =? 0)%Z eqn:Hz; [apply Z.eqb_eq in Hz; contradiction|].
      rewrite Hns. cbn [obind negb]. eexists. split; [reflexivity|]. split; reflexivity. }
    destruct E as [f [E [F1 F2]]]. exists f. split; [|split; assumption].
    rewrite (pupd_fading powf m d dt i f false Hd E). reflexivity.
  Qed.

  (** resume(tween) with a delayed tween: Resuming through the first update, the delay reduced by that update *)
  Lemma resume_delay_counted_once (m : psmQ) (tw : tween Q) rem dt i ns :
    ps m <> Stopped -> tw_start tw = Delayed rem -> (rem <> 0)%Z -> secs_to_ns dt = Ok ns ->
    exists f, pupd powf (presume m Immediate tw) dt i = Ok ({| ps := Resuming; fade := f |}, false) /\
              p_state f = Tweening (p_raw (fade m)) (Fixed identityQ) 0 (with_delay tw (sat_sub rem ns)) /\
              p_stagnant f = false.
  Proof.
    intros H Hst Hrem Hns.
    destruct (resume_now_any_tween m tw H) as [A [B [_ C]]].
    destruct (delay_pending_step (presume m Immediate tw) Playing (p_raw (fade m)) identityQ 0 tw rem dt i ns)
      as [f [U [F1 F2]]]; try assumption.
    { rewrite A. reflexivity. }
    exists f. rewrite A in U. repeat split; assumption.
  Qed.
End TweenStart.

(** the hypotheses are met: a paused sound resumed with a tween delayed by 8 frames of 1/1024 s, updated by 4 frames *)
Example resume_delay_counted_once_applies :
  let m := ppause (pnew None) ({| tw_start := Immediate; tw_dur := 0; tw_easing := Linear |} : tween Q) in
  let tw : tween Q := {| tw_start := Delayed 7812500; tw_dur := 7812500; tw_easing := Linear |} in
  ps m <> Stopped /\ tw_start tw = Delayed 7812500 /\ (7812500 <> 0)%Z /\
  secs_to_ns (4 # 1024) = Ok 3906250%Z /\ sat_sub 7812500 3906250 = 3906250%Z.
Proof. cbn. repeat split; try discriminate; vm_compute; reflexivity. Qed.
