(** C03 — several commands issued at ONE callback boundary (no callback between them): the command
    drained last decides, whatever the handle's mirror showed while they were issued.
    [read_commands] drains pause, resume, stop in this order; a [resume] that follows a [pause] not yet
    seen by the audio thread (the mirror still says Playing) therefore leaves the sound Resuming, with the
    fade still where it was, and the resume life cycle takes it to Playing at exactly unity. *)
From Coq Require Import ZArith QArith Lia Bool List.
From KV Require Import Base.Outcome Base.Num C19.Model C06.Model C06.Dur C06.Proofs C06.Proofs2
  C03.Model C03.ProofsInner C03.ProofsLife C03.ModelStream C03.ProofsStream.
Import ListNotations.
Local Open Scope Q_scope.

Section Boundary.
  Variable powf : Q -> Q -> Q.
  Notation psmQ := (psm Q Q).
  Notation soundQ := (sound Q Q).
  Notation streamQ := (stream Q Q).

  (** the state manager after the drain of [c] *)
  Definition drained (m : psmQ) (c : commands Q) : psmQ :=
    let m := match c_pause c with Some tw => ppause m tw | None => m end in
    let m := match c_resume c with Some (st, tw) => presume m st tw | None => m end in
    match c_stop c with Some tw => pstop m tw | None => m end.

  Lemma on_start_psm (s : soundQ) c : s_psm (son_start s c) = drained (s_psm s) c.
  Proof.
    unfold son_start, sound_on_start, drained, ppause, presume, pstop.
    destruct (c_pause c) as [tp|]; destruct (c_resume c) as [[st tr]|]; destruct (c_stop c) as [ts|]; reflexivity.
  Qed.
  Lemma stream_on_start_psm (s : streamQ) c : st_psm (zon_start s c) = drained (st_psm s) c.
  Proof.
    unfold zon_start, stream_on_start, drained, ppause, presume, pstop.
    destruct (c_pause c) as [tp|]; destruct (c_resume c) as [[st tr]|]; destruct (c_stop c) as [ts|]; reflexivity.
  Qed.

  Lemma pause_not_stopped (m : psmQ) tw : ps m <> Stopped -> ps (ppause m tw) = Pausing /\ p_raw (fade (ppause m tw)) = p_raw (fade m).
  Proof. intro H. unfold ppause, psm_pause. destruct (ps m); try (split; reflexivity). contradiction. Qed.

  (** resume is the last command of the boundary (no stop): Resuming, fade value untouched by the pause
      that preceded it; nothing in the hypotheses mentions the mirror *)
  Lemma drained_resume_last (m : psmQ) (c : commands Q) tr :
    ps m <> Stopped -> c_resume c = Some (Immediate, tr) -> c_stop c = None ->
    ps (drained m c) = Resuming /\ p_raw (fade (drained m c)) = p_raw (fade m) /\
    drained m c = presume (match c_pause c with Some tw => ppause m tw | None => m end) Immediate tr.
  Proof.
    intros Hns Hr Hs. unfold drained. rewrite Hr, Hs.
    destruct (c_pause c) as [tp|].
    - destruct (pause_not_stopped m tp Hns) as [A B].
      unfold presume, psm_resume. rewrite A. cbn [is_stopped ps fade param_set p_raw]. repeat split. exact B.
    - unfold presume, psm_resume. destruct (ps m); try (repeat split; reflexivity). contradiction.
  Qed.

  (** ... and from there: Resuming while the tween runs, Playing at exactly unity once it completes *)
  Lemma boundary_pause_resume_lifecycle (m : psmQ) (c : commands Q) tr (l : list (Q * info Q)) :
    ps m <> Stopped -> c_resume c = Some (Immediate, tr) -> c_stop c = None ->
    not_delayed (tw_start tr) -> (tw_dur tr <> 0)%Z ->
    let D := ns_to_secs_Q (tw_dur tr) in
    ps (drained m c) = Resuming /\
    exists m', prun powf (drained m c) l = Ok m' /\
      if completes (tw_start tr) D 0 l
      then ps m' = Playing /\ p_raw (fade m') = identityQ
      else ps m' = Resuming /\
           (l <> [] -> p_raw (fade m') = the_law powf (p_raw (fade m)) identityQ (tw_easing tr) D (elapsed (tw_start tr) 0 l)).
  Proof.
    intros Hns Hr Hs Hnd Hdur D.
    destruct (drained_resume_last m c tr Hns Hr Hs) as [A [_ E]].
    split; [exact A|]. rewrite E.
    set (m0 := match c_pause c with Some tw => ppause m tw | None => m end).
    assert (H0 : ps m0 <> Stopped /\ p_raw (fade m0) = p_raw (fade m)).
    { unfold m0. destruct (c_pause c) as [tp|]; [|split; [exact Hns|reflexivity]].
      destruct (pause_not_stopped m tp Hns) as [P Q]. split; [rewrite P; discriminate|exact Q]. }
    destruct H0 as [H0 H1].
    destruct (resume_lifecycle powf m0 tr l H0 Hnd Hdur) as [_ [m' [R C]]].
    exists m'. split; [exact R|]. fold D in C. rewrite H1 in C. exact C.
  Qed.

  (** stop drained last wins over both; pause alone (or pause with a non-immediate resume_at after it) *)
  Lemma drained_stop_last (m : psmQ) (c : commands Q) ts :
    ps m <> Stopped -> c_stop c = Some ts -> ps (drained m c) = Stopping.
  Proof.
    intros Hns Hs. unfold drained. rewrite Hs.
    set (m1 := match c_pause c with Some tw => ppause m tw | None => m end).
    assert (H1 : ps m1 <> Stopped).
    { unfold m1. destruct (c_pause c) as [tp|]; [|exact Hns]. destruct (pause_not_stopped m tp Hns) as [P _]. rewrite P. discriminate. }
    set (m2 := match c_resume c with Some (st, tw) => presume m1 st tw | None => m1 end).
    assert (H2 : ps m2 <> Stopped).
    { unfold m2. destruct (c_resume c) as [[st tw]|]; [|exact H1].
      unfold presume, psm_resume. destruct (ps m1) eqn:E; try contradiction; destruct st; cbn; discriminate. }
    unfold pstop, psm_stop. destruct (ps m2); try reflexivity. contradiction.
  Qed.
  Lemma drained_pause_only (m : psmQ) (c : commands Q) tp :
    ps m <> Stopped -> c_pause c = Some tp -> c_resume c = None -> c_stop c = None -> ps (drained m c) = Pausing.
  Proof. intros Hns Hp Hr Hs. unfold drained. rewrite Hp, Hr, Hs. apply pause_not_stopped. exact Hns. Qed.
End Boundary.

(** the hypotheses are satisfiable: a fresh playing sound, pause and resume at the same boundary *)
Example boundary_example :
  let m := pnew None in
  let c := {| c_pause := Some {| tw_start := Immediate; tw_dur := 20000000%Z; tw_easing := Linear |};
              c_resume := Some (Immediate, {| tw_start := Immediate; tw_dur := 20000000%Z; tw_easing := Linear |});
              c_stop := None |} in
  ps m <> Stopped /\ ps (drained m c) = Resuming /\ p_raw (fade (drained m c)) == identityQ.
Proof. cbn. repeat split; try discriminate; reflexivity. Qed.
