(** C03 — the streaming shell, sounds that end at construction, main-track pick-up order:
    theorems over the exact instance (time Q, fade in decibels Q). *)
From Coq Require Import ZArith QArith Qround Lia Lqa Bool List.
From KV Require Import Base.Outcome Base.Num Base.QLemmas C19.Model C19.ProofsEasing
  C06.Model C06.Dur C06.Proofs C06.Proofs2 C03.Model C03.ProofsInner C03.ProofsLife C03.ModelStream.
Import ListNotations.
Local Open Scope Q_scope.

Lemma skipn_tl {X} (n : nat) (r : list X) : skipn (S n) r = skipn n (tl r).
Proof. destruct r as [|x r]; [destruct n; reflexivity|reflexivity]. Qed.
Lemma is_nil_tl_length {X} (r : list X) : is_nil (tl r) = true <-> (length r <= 1)%nat.
Proof. destruct r as [|x [|y r]]; cbn; split; intro H; try reflexivity; try lia; discriminate. Qed.
Lemma skipn_all_nil {X} (n : nat) (r : list X) : (length r <= n)%nat -> skipn n r = [].
Proof. revert r. induction n as [|n IH]; intros [|x r] H; cbn in *; try reflexivity; try lia. apply IH. lia. Qed.
Lemma skipn_length' {X} (n : nat) (r : list X) : length (skipn n r) = (length r - n)%nat.
Proof. revert r. induction n as [|n IH]; intros [|x r]; cbn; try reflexivity; try lia. apply IH. Qed.

Section Stream.
  Variable powf : Q -> Q -> Q.
  Variable amp : Q -> Q.
  Notation lerpQ := (@lerp Q Num_Q).
  Notation psmQ := (psm Q Q).
  Notation streamQ := (stream Q Q).
  Notation soundQ := (sound Q Q).

  Definition znew := stream_new Q silenceQ identityQ.
  Definition zon_start (s : streamQ) := stream_on_start Q silenceQ identityQ s.
  Definition zupdates (s : streamQ) := stream_updates powf Q lerpQ identityQ s.
  Definition zprocess (s : streamQ) := stream_process powf Q lerpQ identityQ Q amp gainQ 0 s.
  Definition zenv (s : streamQ) := stream_env Q s.
  Definition zmirror_ok (s : streamQ) : Prop := st_mirror s = state_code (ps (st_psm s)).
  Definition zstarved (s : streamQ) : bool := starved Q s.
  (** what [process] does once the updates are done *)
  Definition zafter (s : streamQ) (len : nat) : outcome (streamQ * list Q) :=
    if negb (is_immediate (st_start s)) then stream_silent Q Q 0 s len
    else if negb (is_advancing (ps (st_psm s))) then stream_silent Q Q 0 s len
    else if zstarved s then stream_silent Q Q 0 s len
    else stream_render Q lerpQ Q amp gainQ s len.
  Definition dtl (dt : Q) (len : nat) : Q := nmul dt (nofZ (Z.of_nat len)).

  Lemma zprocess_unfold (s : streamQ) len dt i :
    zprocess s len dt i =
      if st_err s then Ok (st_mark_stopped Q s, repeat 0 len)
      else match zupdates s (dtl dt len) i with Ok s1 => zafter s1 len | Panic k => Panic k | Hang => Hang end.
  Proof. unfold zprocess, stream_process. destruct (st_err s); reflexivity. Qed.

  (** the updates, in terms of the state manager's own update *)
  Lemma zupdates_spec (s : streamQ) d i :
    zupdates s d i =
      match pupd powf (st_psm s) d i with
      | Ok (m, changed) =>
          match stime_update (st_start s) d i with
          | Ok (st, never) =>
              Ok {| st_psm := if never then psm_mark_stopped Q m else m; st_start := st; st_ring := st_ring s;
                    st_end := st_end s; st_err := st_err s;
                    st_mirror := if never then 6%Z else if changed then state_code (ps m) else st_mirror s;
                    st_position := st_position s |}
          | Panic k => Panic k
          | Hang => Hang
          end
      | Panic k => Panic k
      | Hang => Hang
      end.
  Proof.
    unfold zupdates, stream_updates, pupd.
    destruct (psm_update powf Q lerpQ identityQ (st_psm s) d i) as [[m changed]| |]; cbn [obind]; try reflexivity.
    assert (E : st_start (if changed then st_set_mirror Q (st_with_psm Q s m) else st_with_psm Q s m) = st_start s)
      by (destruct changed; reflexivity).
    rewrite E. destruct (stime_update (st_start s) d i) as [[st never]| |]; cbn [obind]; try reflexivity.
    destruct never, changed; reflexivity.
  Qed.

  (** the per-frame loop pops one ring entry per frame, keeps the fade, and only ever changes the state to
      Stopped: exactly when the decoder has reached the end and the ring runs empty within the call *)
  Lemma sframes_spec (todo : nat) : forall (m : psmQ) (r : list (bool * Z)) (rend : bool) len k,
    let '(m', r', outs) := sframes Q lerpQ Q amp gainQ m r rend len k todo in
    r' = skipn todo r /\ length outs = todo /\ fade m' = fade m /\
    (m' = m \/ m' = psm_mark_stopped Q m) /\
    (ps m' = Stopped <-> ps m = Stopped \/ (rend = true /\ (1 <= todo)%nat /\ (length r <= todo)%nat)).
  Proof.
    induction todo as [|todo IH]; intros m r rend len k.
    - cbn. repeat split; auto. intros [H|[_ [H _]]]; [exact H|lia].
    - cbn [sframes].
      set (m1 := if rend && is_nil (tl r) then psm_mark_stopped Q m else m).
      specialize (IH m1 (tl r) rend len (S k)).
      destruct (sframes Q lerpQ Q amp gainQ m1 (tl r) rend len (S k) todo) as [[m2 r2] outs2].
      destruct IH as [Hr [Hl [Hf [Hm Hiff]]]].
      assert (M1 : (m1 = m /\ (rend && is_nil (tl r) = false)%bool) \/ (m1 = psm_mark_stopped Q m /\ rend = true /\ (length r <= 1)%nat)).
      { unfold m1. destruct rend; cbn [andb]; [|left; split; reflexivity].
        destruct (is_nil (tl r)) eqn:En; [right|left; split; reflexivity].
        split; [reflexivity|]. split; [reflexivity|]. apply is_nil_tl_length. exact En. }
      split; [rewrite skipn_tl; exact Hr|]. split; [cbn; lia|].
      split; [rewrite Hf; destruct M1 as [[-> _]|[-> _]]; reflexivity|].
      split.
      + destruct Hm as [->| ->]; destruct M1 as [[-> _]|[-> _]]; auto.
      + rewrite Hiff. assert (Lt : length (tl r) = (length r - 1)%nat) by (destruct r; cbn; lia).
        rewrite Lt. destruct M1 as [[-> Hn]|[-> [Hre Hlen]]].
        * split.
          -- intros [H|[H1 [H2 H3]]]; [left; exact H|right]. split; [exact H1|]. split; lia.
          -- intros [H|[H1 [H2 H3]]]; [left; exact H|]. right. subst rend. cbn [andb] in Hn.
             assert (Hr1 : ~ (length r <= 1)%nat) by (intro Hc; apply is_nil_tl_length in Hc; congruence).
             split; [reflexivity|]. split; lia.
        * cbn [psm_mark_stopped ps]. split; intros _; [right|left; reflexivity].
          split; [exact Hre|]. split; lia.
  Qed.

  (** everything [process] does after the updates *)
  Lemma zafter_spec (s1 : streamQ) len :
    exists s' outs, zafter s1 len = Ok (s', outs) /\ length outs = len /\
      st_start s' = st_start s1 /\ st_err s' = st_err s1 /\ st_end s' = st_end s1 /\ st_position s' = st_position s1 /\
      fade (st_psm s') = fade (st_psm s1) /\
      (zmirror_ok s1 -> zmirror_ok s') /\
      ((s' = s1 /\ outs = repeat 0 len /\
        (is_immediate (st_start s1) = false \/ is_advancing (ps (st_psm s1)) = false \/ zstarved s1 = true)) \/
       (is_immediate (st_start s1) = true /\ is_advancing (ps (st_psm s1)) = true /\ zstarved s1 = false /\
        st_ring s' = skipn len (st_ring s1) /\
        (st_psm s' = st_psm s1 \/ (st_psm s' = psm_mark_stopped Q (st_psm s1) /\ st_end s1 = true /\ st_ring s' = [])) /\
        (ps (st_psm s') = Stopped <-> st_end s1 = true /\ (1 <= len)%nat /\ (length (st_ring s1) <= len)%nat))).
  Proof.
    unfold zafter, stream_silent.
    destruct (is_immediate (st_start s1)) eqn:Imm; cbn [negb].
    2:{ exists s1, (repeat 0 len). rewrite repeat_length.
        do 8 (split; [solve [reflexivity|intro; assumption]|]). left. split; [reflexivity|]. split; [reflexivity|]. left. reflexivity. }
    destruct (is_advancing (ps (st_psm s1))) eqn:Adv; cbn [negb].
    2:{ exists s1, (repeat 0 len). rewrite repeat_length.
        do 8 (split; [solve [reflexivity|intro; assumption]|]). left. split; [reflexivity|]. split; [reflexivity|]. right. left. reflexivity. }
    destruct (zstarved s1) eqn:Sv.
    { exists s1, (repeat 0 len). rewrite repeat_length.
      do 8 (split; [solve [reflexivity|intro; assumption]|]). left. split; [reflexivity|]. split; [reflexivity|]. right. right. reflexivity. }
    unfold stream_render.
    pose proof (sframes_spec len (st_psm s1) (st_ring s1) (st_end s1) len 0) as F.
    destruct (sframes Q lerpQ Q amp gainQ (st_psm s1) (st_ring s1) (st_end s1) len 0 len) as [[m' r'] outs].
    destruct F as [Fr [Fl [Ff [Fm Fiff]]]].
    set (s0 := {| st_psm := m'; st_start := st_start s1; st_ring := r'; st_end := st_end s1; st_err := st_err s1;
                  st_mirror := st_mirror s1; st_position := st_position s1 |}).
    exists (if is_stopped (ps m') then st_set_mirror Q s0 else s0), outs.
    assert (NS : ps (st_psm s1) <> Stopped) by (intro Hc; rewrite Hc in Adv; discriminate).
    split; [reflexivity|]. split; [exact Fl|].
    split; [destruct (is_stopped (ps m')); reflexivity|].
    split; [destruct (is_stopped (ps m')); reflexivity|].
    split; [destruct (is_stopped (ps m')); reflexivity|].
    split; [destruct (is_stopped (ps m')); reflexivity|].
    split; [destruct (is_stopped (ps m')); exact Ff|].
    split.
    { unfold zmirror_ok. intro M. destruct (is_stopped (ps m')) eqn:St; [reflexivity|].
      cbn [s0 st_mirror st_psm]. rewrite M. destruct Fm as [->| ->]; [reflexivity|]. discriminate. }
    right. split; [reflexivity|]. split; [reflexivity|]. split; [reflexivity|].
    split; [destruct (is_stopped (ps m')); exact Fr|].
    assert (P : st_psm (if is_stopped (ps m') then st_set_mirror Q s0 else s0) = m') by (destruct (is_stopped (ps m')); reflexivity).
    assert (R : st_ring (if is_stopped (ps m') then st_set_mirror Q s0 else s0) = r') by (destruct (is_stopped (ps m')); reflexivity).
    rewrite P, R.
    assert (Iff : ps m' = Stopped <-> st_end s1 = true /\ (1 <= len)%nat /\ (length (st_ring s1) <= len)%nat).
    { rewrite Fiff. split; [intros [H|H]; [contradiction|exact H]|intro H; right; exact H]. }
    split; [|exact Iff].
    destruct Fm as [Hm|Hm]; [left; exact Hm|right].
    split; [exact Hm|].
    assert (St : ps m' = Stopped) by (rewrite Hm; reflexivity).
    apply Iff in St. destruct St as [A [_ B]]. split; [exact A|]. rewrite Fr. apply skipn_all_nil. exact B.
  Qed.

  (** the state after the updates, as a function of the two update results *)
  Definition zupdated (s : streamQ) (m : psmQ) (changed : bool) (st : stime Q) (never : bool) : streamQ :=
    {| st_psm := if never then psm_mark_stopped Q m else m; st_start := st; st_ring := st_ring s;
       st_end := st_end s; st_err := st_err s;
       st_mirror := if never then 6%Z else if changed then state_code (ps m) else st_mirror s;
       st_position := st_position s |}.
  Lemma zprocess_ok (s : streamQ) len dt i m changed st never :
    st_err s = false -> pupd powf (st_psm s) (dtl dt len) i = Ok (m, changed) ->
    stime_update (st_start s) (dtl dt len) i = Ok (st, never) ->
    zprocess s len dt i = zafter (zupdated s m changed st never) len.
  Proof. intros He Hu Hs. rewrite zprocess_unfold, He, zupdates_spec, Hu, Hs. reflexivity. Qed.
  Lemma zprocess_inv (s s' : streamQ) len dt i outs :
    st_err s = false -> zprocess s len dt i = Ok (s', outs) ->
    exists m changed st never, pupd powf (st_psm s) (dtl dt len) i = Ok (m, changed) /\
      stime_update (st_start s) (dtl dt len) i = Ok (st, never) /\
      zafter (zupdated s m changed st never) len = Ok (s', outs).
  Proof.
    intros He. rewrite zprocess_unfold, He, zupdates_spec.
    destruct (pupd powf (st_psm s) (dtl dt len) i) as [[m changed]| |]; try discriminate.
    destruct (stime_update (st_start s) (dtl dt len) i) as [[st never]| |]; try discriminate.
    intro E. exists m, changed, st, never. repeat split. exact E.
  Qed.

  (** ** (a) a decoder error stops the sound at the next process call, whatever its state *)
  Lemma stream_error_stops (s : streamQ) len dt i :
    st_err s = true ->
    exists s', zprocess s len dt i = Ok (s', repeat 0 len) /\
      ps (st_psm s') = Stopped /\ st_mirror s' = 6%Z /\ stream_finished Q s' = true /\
      st_ring s' = st_ring s /\ st_position s' = st_position s.
  Proof.
    intro He. exists (st_mark_stopped Q s). rewrite zprocess_unfold, He. repeat split.
  Qed.

  (** ** (b) without an error the state manager advances exactly as [PlaybackStateManager::update] says,
      whatever the ring holds (starved or not); the shell adds Stopped for a start time that can never
      come and for the natural end *)
  Lemma stream_psm_step (s : streamQ) len dt i m changed st never :
    st_err s = false -> pupd powf (st_psm s) (dtl dt len) i = Ok (m, changed) ->
    stime_update (st_start s) (dtl dt len) i = Ok (st, never) ->
    exists s' outs, zprocess s len dt i = Ok (s', outs) /\ length outs = len /\
      st_start s' = st /\ st_err s' = false /\ st_end s' = st_end s /\
      (st_psm s' = (if never then psm_mark_stopped Q m else m) \/
       (st_end s = true /\ st_ring s' = [] /\ st_psm s' = psm_mark_stopped Q m)).
  Proof.
    intros He Hu Hs. rewrite (zprocess_ok s len dt i m changed st never He Hu Hs).
    destruct (zafter_spec (zupdated s m changed st never) len)
      as [s' [outs [E [Hl [H1 [H2 [H3 [H4 [H5 [H6 H7]]]]]]]]]].
    exists s', outs. split; [exact E|]. split; [exact Hl|]. split; [exact H1|]. split; [rewrite H2; exact He|].
    split; [exact H3|].
    destruct H7 as [[-> _]|[_ [Adv [_ [_ [[P|[P [Q1 Q2]]] _]]]]]].
    - left. reflexivity.
    - left. exact P.
    - destruct never.
      + cbn [zupdated st_psm psm_mark_stopped ps is_advancing] in Adv. discriminate.
      + right. split; [exact Q1|]. split; [exact Q2|]. exact P.
  Qed.
  Lemma stream_psm_step_panics (s : streamQ) len dt i k :
    st_err s = false ->
    pupd powf (st_psm s) (dtl dt len) i = Panic k \/
    (exists r, pupd powf (st_psm s) (dtl dt len) i = Ok r /\ stime_update (st_start s) (dtl dt len) i = Panic k) ->
    zprocess s len dt i = Panic k.
  Proof.
    intros He H. rewrite zprocess_unfold, He, zupdates_spec. destruct H as [->|[[m c] [-> ->]]]; reflexivity.
  Qed.

  (** ** (c) silent and frozen *)
  Lemma stream_silent_frozen (s s' : streamQ) len dt i outs :
    zprocess s len dt i = Ok (s', outs) ->
    (ps (st_psm s') = Paused \/ (exists st tw, ps (st_psm s') = WaitingToResume st tw) \/
     ps (st_psm s) = Stopped \/ is_immediate (st_start s') = false \/ zstarved s = true \/ st_err s = true) ->
    outs = repeat 0 len /\ st_ring s' = st_ring s /\ st_position s' = st_position s.
  Proof.
    destruct (st_err s) eqn:He.
    - rewrite zprocess_unfold, He. intro E. inversion E. intros _. repeat split.
    - intro E. destruct (zprocess_inv s s' len dt i outs He E) as [m [changed [st [never [Hu [Hs Ha]]]]]].
      destruct (zafter_spec (zupdated s m changed st never) len)
        as [s2 [outs2 [E2 [Hl [H1 [H2 [H3 [H4 [H5 [H6 H7]]]]]]]]]].
      rewrite Ha in E2. inversion E2. subst s2 outs2. clear E2.
      destruct H7 as [[-> [-> _]]|[Imm [Adv [Sv [_ [P _]]]]]].
      + intros _. repeat split.
      + assert (Ps : ps (st_psm s') = ps (st_psm (zupdated s m changed st never)) \/ ps (st_psm s') = Stopped).
        { destruct P as [->|[-> _]]; [left|right]; reflexivity. }
        intros [H|[[st0 [tw0 H]]|[H|[H|[H|H]]]]]; exfalso.
        * destruct Ps as [Ps|Ps]; rewrite Ps in H; [rewrite H in Adv|]; discriminate.
        * destruct Ps as [Ps|Ps]; rewrite Ps in H; [rewrite H in Adv|]; discriminate.
        * destruct (upd_stopped powf _ _ _ _ _ H Hu) as [Hm _].
          destruct never; cbn [zupdated st_psm psm_mark_stopped ps] in Adv; [|rewrite Hm in Adv]; discriminate.
        * rewrite H1, Imm in H. discriminate.
        * unfold zstarved, starved in H, Sv. cbn [zupdated st_ring st_end] in Sv. rewrite H in Sv. discriminate.
        * discriminate.
  Qed.

  (** ** (d) Stopped is absorbing: commands, processing, the decoder thread *)
  Lemma zon_start_psm (s : streamQ) c :
    st_psm (zon_start s c) =
      let m := st_psm s in
      let m := match c_pause c with Some tw => ppause m tw | None => m end in
      let m := match c_resume c with Some (st, tw) => presume m st tw | None => m end in
      match c_stop c with Some tw => pstop m tw | None => m end.
  Proof.
    unfold zon_start, stream_on_start, ppause, presume, pstop.
    destruct (c_pause c) as [tw1|], (c_resume c) as [[st2 tw2]|], (c_stop c) as [tw3|]; reflexivity.
  Qed.
  Lemma zon_start_rest (s : streamQ) c :
    st_ring (zon_start s c) = st_ring s /\ st_start (zon_start s c) = st_start s /\
    st_end (zon_start s c) = st_end s /\ st_err (zon_start s c) = st_err s /\
    st_position (zon_start s c) = match nth_error (st_ring s) 1 with Some (_, ix) => ix | None => st_position s end.
  Proof.
    unfold zon_start, stream_on_start.
    destruct (c_pause c) as [tw1|], (c_resume c) as [[st2 tw2]|], (c_stop c) as [tw3|]; repeat split.
  Qed.
  Lemma zon_start_stopped (s : streamQ) c :
    ps (st_psm s) = Stopped ->
    st_psm (zon_start s c) = st_psm s /\ st_ring (zon_start s c) = st_ring s /\ st_start (zon_start s c) = st_start s.
  Proof.
    intro H. destruct (zon_start_rest s c) as [A [B _]]. split; [|split; assumption].
    rewrite zon_start_psm. cbn zeta.
    assert (P : forall tw, ppause (st_psm s) tw = st_psm s) by (intro tw; apply (stopped_ignores_commands _ tw Immediate H)).
    assert (R : forall st tw, presume (st_psm s) st tw = st_psm s) by (intros st tw; apply (stopped_ignores_commands _ tw st H)).
    assert (S : forall tw, pstop (st_psm s) tw = st_psm s) by (intro tw; apply (stopped_ignores_commands _ tw Immediate H)).
    destruct (c_pause c) as [tw1|]; [rewrite P|];
      (destruct (c_resume c) as [[st2 tw2]|]; [rewrite R|]);
      (destruct (c_stop c) as [tw3|]; [rewrite S|]); reflexivity.
  Qed.
  Lemma zprocess_stopped (s s' : streamQ) len dt i outs :
    ps (st_psm s) = Stopped -> zprocess s len dt i = Ok (s', outs) ->
    ps (st_psm s') = Stopped /\ outs = repeat 0 len /\ st_ring s' = st_ring s /\ st_position s' = st_position s.
  Proof.
    intros H E.
    destruct (stream_silent_frozen s s' len dt i outs E) as [A [B C]]; [right; right; left; exact H|].
    split; [|repeat split; assumption].
    destruct (st_err s) eqn:He.
    - rewrite zprocess_unfold, He in E. inversion E. reflexivity.
    - destruct (zprocess_inv s s' len dt i outs He E) as [m [changed [st [never [Hu [Hs Ha]]]]]].
      destruct (upd_stopped powf _ _ _ _ _ H Hu) as [Hm _].
      destruct (zafter_spec (zupdated s m changed st never) len)
        as [s2 [outs2 [E2 [_ [_ [_ [_ [_ [_ [_ H7]]]]]]]]]].
      rewrite Ha in E2. inversion E2. subst s2 outs2.
      assert (Hz : ps (st_psm (zupdated s m changed st never)) = Stopped) by (destruct never; [reflexivity|exact Hm]).
      destruct H7 as [[-> _]|[_ [Adv _]]]; [exact Hz|]. rewrite Hz in Adv. discriminate.
  Qed.

  (** histories: process calls, what the decoder thread does in between, command drains *)
  Inductive sstep := SProc (len : nat) (dt : Q) (i : info Q) | SEnv (e : env_step) | SCmd (c : commands Q).
  Definition zstep (s : streamQ) (x : sstep) : outcome streamQ :=
    match x with
    | SProc len dt i => match zprocess s len dt i with Ok (s', _) => Ok s' | Panic k => Panic k | Hang => Hang end
    | SEnv e => Ok (zenv s e)
    | SCmd c => Ok (zon_start s c)
    end.
  Fixpoint zrun (s : streamQ) (l : list sstep) : outcome streamQ :=
    match l with
    | [] => Ok s
    | x :: l' => match zstep s x with Ok s' => zrun s' l' | Panic k => Panic k | Hang => Hang end
    end.
  Lemma zenv_psm (s : streamQ) e : st_psm (zenv s e) = st_psm s /\ st_mirror (zenv s e) = st_mirror s /\
    st_start (zenv s e) = st_start s /\ st_position (zenv s e) = st_position s.
  Proof. destruct e; repeat split. Qed.

  Lemma stream_stopped_forever (l : list sstep) : forall (s s' : streamQ),
    ps (st_psm s) = Stopped -> zrun s l = Ok s' -> ps (st_psm s') = Stopped.
  Proof.
    induction l as [|x l IH]; intros s s' H.
    - cbn. intro E. inversion E. subst. exact H.
    - cbn [zrun]. destruct x as [len dt i|e|c]; cbn [zstep].
      + destruct (zprocess s len dt i) as [[s1 outs]| |] eqn:E; try discriminate.
        apply IH. apply (zprocess_stopped s s1 len dt i outs H E).
      + apply IH. destruct (zenv_psm s e) as [-> _]. exact H.
      + apply IH. destruct (zon_start_stopped s c H) as [-> _]. exact H.
  Qed.

  (** ** (e) the handle's mirror *)
  Lemma zmirror_new start st fi : zmirror_ok (znew start st fi).
  Proof. reflexivity. Qed.
  Lemma zmirror_on_start (s : streamQ) c : zmirror_ok s -> zmirror_ok (zon_start s c).
  Proof.
    unfold zmirror_ok, zon_start, stream_on_start. intro H.
    destruct (c_stop c) as [tw3|]; [reflexivity|].
    destruct (c_resume c) as [[st2 tw2]|]; [reflexivity|].
    destruct (c_pause c) as [tw1|]; [reflexivity|]. exact H.
  Qed.
  Lemma zmirror_env (s : streamQ) e : zmirror_ok s -> zmirror_ok (zenv s e).
  Proof. unfold zmirror_ok. destruct (zenv_psm s e) as [-> [-> _]]. auto. Qed.
  Lemma zmirror_process (s s' : streamQ) len dt i outs :
    zmirror_ok s -> zprocess s len dt i = Ok (s', outs) -> zmirror_ok s'.
  Proof.
    intros M E. destruct (st_err s) eqn:He.
    - rewrite zprocess_unfold, He in E. inversion E. reflexivity.
    - destruct (zprocess_inv s s' len dt i outs He E) as [m [changed [st [never [Hu [Hs Ha]]]]]].
      destruct (zafter_spec (zupdated s m changed st never) len)
        as [s2 [outs2 [E2 [_ [_ [_ [_ [_ [_ [H6 _]]]]]]]]]].
      rewrite Ha in E2. inversion E2. subst s2 outs2. apply H6.
      unfold zmirror_ok, zupdated. cbn [st_mirror st_psm]. destruct never; [reflexivity|].
      destruct changed; [reflexivity|]. rewrite M. symmetry. apply (pupd_unchanged powf _ _ _ _ Hu).
  Qed.
  Lemma zmirror_run (l : list sstep) : forall (s s' : streamQ), zmirror_ok s -> zrun s l = Ok s' -> zmirror_ok s'.
  Proof.
    induction l as [|x l IH]; intros s s' M.
    - cbn. intro E. inversion E. subst. exact M.
    - cbn [zrun]. destruct x as [len dt i|e|c]; cbn [zstep].
      + destruct (zprocess s len dt i) as [[s1 outs]| |] eqn:E; try discriminate.
        apply IH. apply (zmirror_process s s1 len dt i outs M E).
      + apply IH. apply zmirror_env. exact M.
      + apply IH. apply zmirror_on_start. exact M.
  Qed.

  (** ** (b, continued) over whole histories: as long as the decoder neither fails nor reaches the end, the
      state manager of a stream whose own start time has come is EXACTLY the state manager run on the
      same updates — whatever is in the ring and whatever the decoder pushes (in particular: nothing) *)
  Definition upds (l : list sstep) : list (Q * info Q) :=
    flat_map (fun x => match x with SProc len dt i => [(dtl dt len, i)] | _ => [] end) l.
  Definition quiet (x : sstep) : Prop :=
    match x with SProc _ _ _ => True | SEnv (EPush _ _) => True | _ => False end.

  Lemma stream_follows_psm (l : list sstep) : forall (s : streamQ),
    st_err s = false -> st_end s = false -> st_start s = Immediate -> Forall quiet l ->
    match prun powf (st_psm s) (upds l) with
    | Ok m' => exists s', zrun s l = Ok s' /\ st_psm s' = m' /\ st_err s' = false /\ st_end s' = false /\
                          st_start s' = Immediate
    | Panic k => zrun s l = Panic k
    | Hang => zrun s l = Hang
    end.
  Proof.
    induction l as [|x l IH]; intros s He Hn Hst Hq.
    - cbn. exists s. repeat split; assumption.
    - inversion Hq as [|x0 l0 Hx Hl]. subst x0 l0.
      destruct x as [len dt i|e|c]; cbn [upds flat_map app prun zrun zstep].
      + fold (upds l).
        destruct (pupd powf (st_psm s) (dtl dt len) i) as [[m changed]| |] eqn:Hu.
        * assert (Hs : stime_update (st_start s) (dtl dt len) i = Ok (Immediate, false)) by (rewrite Hst; reflexivity).
          destruct (stream_psm_step s len dt i m changed Immediate false He Hu Hs)
            as [s1 [outs [E [_ [H1 [H2 [H3 H4]]]]]]].
          rewrite E.
          assert (P : st_psm s1 = m).
          { destruct H4 as [P|[Q1 _]]; [exact P|]. rewrite Hn in Q1. discriminate. }
          specialize (IH s1 H2 (eq_trans H3 Hn) H1 Hl). rewrite P in IH. exact IH.
        * rewrite (stream_psm_step_panics s len dt i why He); [reflexivity|]. left. exact Hu.
        * rewrite zprocess_unfold, He, zupdates_spec, Hu. reflexivity.
      + fold (upds l). destruct e as [p ix| |]; cbn in Hx; try contradiction.
        apply (IH (zenv s (EPush p ix))); try assumption.
      + cbn in Hx. contradiction.
  Qed.

  Definition only (p r st : option (tween Q)) (rs : option (stime Q * tween Q)) : commands Q :=
    {| c_pause := p; c_resume := rs; c_stop := st |}.
  Definition cmd_pause (tw : tween Q) : commands Q := {| c_pause := Some tw; c_resume := None; c_stop := None |}.
  Definition cmd_stop (tw : tween Q) : commands Q := {| c_pause := None; c_resume := None; c_stop := Some tw |}.
  Definition cmd_resume (st : stime Q) (tw : tween Q) : commands Q :=
    {| c_pause := None; c_resume := Some (st, tw); c_stop := None |}.

  (** a stream that can still be commanded, whose own start time has come, whose decoder is alive *)
  Definition live (s : streamQ) : Prop :=
    zmirror_ok s /\ st_err s = false /\ st_end s = false /\ st_start s = Immediate /\ ps (st_psm s) <> Stopped.

  Lemma stream_fade_lifecycle (s : streamQ) (c : commands Q) (m1 : psmQ) (l : list sstep) :
    live s -> Forall quiet l -> st_psm (zon_start s c) = m1 ->
    forall m', prun powf m1 (upds l) = Ok m' ->
    exists s', zrun (zon_start s c) l = Ok s' /\ st_psm s' = m' /\ st_mirror s' = state_code (ps m') /\
      st_mirror (zon_start s c) = state_code (ps m1).
  Proof.
    intros [M [He [Hn [Hst _]]]] Hq Hm m' R.
    destruct (zon_start_rest s c) as [_ [B [C [D _]]]].
    pose proof (stream_follows_psm l (zon_start s c) (eq_trans D He) (eq_trans C Hn) (eq_trans B Hst) Hq) as F.
    rewrite Hm, R in F. destruct F as [s' [E [P _]]].
    exists s'. split; [exact E|]. split; [exact P|].
    pose proof (zmirror_on_start s c M) as M1.
    split; [|rewrite <- Hm; exact M1].
    rewrite <- P. apply (zmirror_run l _ _ M1 E).
  Qed.

  (** pause on a stream — starved or not: Pausing, then Paused exactly when the tween completes *)
  Lemma stream_pause_lifecycle (s : streamQ) tw (l : list sstep) :
    live s -> Forall quiet l -> not_delayed (tw_start tw) -> (tw_dur tw <> 0)%Z ->
    let D := ns_to_secs_Q (tw_dur tw) in
    let s1 := zon_start s (cmd_pause tw) in
    ps (st_psm s1) = Pausing /\ st_mirror s1 = 1%Z /\
    exists s', zrun s1 l = Ok s' /\
      if completes (tw_start tw) D 0 (upds l)
      then ps (st_psm s') = Paused /\ st_mirror s' = 2%Z /\ p_raw (fade (st_psm s')) = silenceQ
      else ps (st_psm s') = Pausing /\ st_mirror s' = 1%Z /\
           (upds l <> [] -> p_raw (fade (st_psm s')) =
              the_law powf (p_raw (fade (st_psm s))) silenceQ (tw_easing tw) D (elapsed (tw_start tw) 0 (upds l))).
  Proof.
    intros L Hq Hnd Hdur D s1.
    assert (NS : ps (st_psm s) <> Stopped) by (destruct L as [_ [_ [_ [_ H]]]]; exact H).
    destruct (pause_lifecycle powf (st_psm s) tw (upds l) NS Hnd Hdur) as [P0 [m' [R C]]].
    assert (Hm : st_psm (zon_start s (cmd_pause tw)) = ppause (st_psm s) tw) by (rewrite zon_start_psm; reflexivity).
    destruct (stream_fade_lifecycle s (cmd_pause tw) _ l L Hq Hm m' R) as [s' [E [P [M' M1]]]].
    unfold s1. rewrite Hm. split; [exact P0|]. split; [rewrite M1, P0; reflexivity|].
    exists s'. split; [exact E|]. fold D in C. rewrite P, M'.
    destruct (completes (tw_start tw) D 0 (upds l)).
    - destruct C as [A B]. rewrite A. repeat split. exact B.
    - destruct C as [A B]. rewrite A. repeat split. exact B.
  Qed.
  Lemma stream_stop_lifecycle (s : streamQ) tw (l : list sstep) :
    live s -> Forall quiet l -> not_delayed (tw_start tw) -> (tw_dur tw <> 0)%Z ->
    let D := ns_to_secs_Q (tw_dur tw) in
    let s1 := zon_start s (cmd_stop tw) in
    ps (st_psm s1) = Stopping /\ st_mirror s1 = 5%Z /\
    exists s', zrun s1 l = Ok s' /\
      if completes (tw_start tw) D 0 (upds l)
      then ps (st_psm s') = Stopped /\ st_mirror s' = 6%Z /\ p_raw (fade (st_psm s')) = silenceQ
      else ps (st_psm s') = Stopping /\ st_mirror s' = 5%Z /\
           (upds l <> [] -> p_raw (fade (st_psm s')) =
              the_law powf (p_raw (fade (st_psm s))) silenceQ (tw_easing tw) D (elapsed (tw_start tw) 0 (upds l))).
  Proof.
    intros L Hq Hnd Hdur D s1.
    assert (NS : ps (st_psm s) <> Stopped) by (destruct L as [_ [_ [_ [_ H]]]]; exact H).
    destruct (stop_lifecycle powf (st_psm s) tw (upds l) NS Hnd Hdur) as [P0 [m' [R C]]].
    assert (Hm : st_psm (zon_start s (cmd_stop tw)) = pstop (st_psm s) tw) by (rewrite zon_start_psm; reflexivity).
    destruct (stream_fade_lifecycle s (cmd_stop tw) _ l L Hq Hm m' R) as [s' [E [P [M' M1]]]].
    unfold s1. rewrite Hm. split; [exact P0|]. split; [rewrite M1, P0; reflexivity|].
    exists s'. split; [exact E|]. fold D in C. rewrite P, M'.
    destruct (completes (tw_start tw) D 0 (upds l)).
    - destruct C as [A B]. rewrite A. repeat split. exact B.
    - destruct C as [A B]. rewrite A. repeat split. exact B.
  Qed.
  Lemma stream_resume_lifecycle (s : streamQ) tw (l : list sstep) :
    live s -> Forall quiet l -> not_delayed (tw_start tw) -> (tw_dur tw <> 0)%Z ->
    let D := ns_to_secs_Q (tw_dur tw) in
    let s1 := zon_start s (cmd_resume Immediate tw) in
    ps (st_psm s1) = Resuming /\ st_mirror s1 = 4%Z /\
    exists s', zrun s1 l = Ok s' /\
      if completes (tw_start tw) D 0 (upds l)
      then ps (st_psm s') = Playing /\ st_mirror s' = 0%Z /\ p_raw (fade (st_psm s')) = identityQ
      else ps (st_psm s') = Resuming /\ st_mirror s' = 4%Z /\
           (upds l <> [] -> p_raw (fade (st_psm s')) =
              the_law powf (p_raw (fade (st_psm s))) identityQ (tw_easing tw) D (elapsed (tw_start tw) 0 (upds l))).
  Proof.
    intros L Hq Hnd Hdur D s1.
    assert (NS : ps (st_psm s) <> Stopped) by (destruct L as [_ [_ [_ [_ H]]]]; exact H).
    destruct (resume_lifecycle powf (st_psm s) tw (upds l) NS Hnd Hdur) as [P0 [m' [R C]]].
    assert (Hm : st_psm (zon_start s (cmd_resume Immediate tw)) = presume (st_psm s) Immediate tw) by (rewrite zon_start_psm; reflexivity).
    destruct (stream_fade_lifecycle s (cmd_resume Immediate tw) _ l L Hq Hm m' R) as [s' [E [P [M' M1]]]].
    unfold s1. rewrite Hm. split; [exact P0|]. split; [rewrite M1, P0; reflexivity|].
    exists s'. split; [exact E|]. fold D in C. rewrite P, M'.
    destruct (completes (tw_start tw) D 0 (upds l)).
    - destruct C as [A B]. rewrite A. repeat split. exact B.
    - destruct C as [A B]. rewrite A. repeat split. exact B.
  Qed.

  Lemma zprocess_not_advancing (s : streamQ) len dt i m changed :
    st_err s = false -> st_start s = Immediate -> pupd powf (st_psm s) (dtl dt len) i = Ok (m, changed) ->
    is_advancing (ps m) = false ->
    zprocess s len dt i = Ok (zupdated s m changed Immediate false, repeat 0 len).
  Proof.
    intros He Hst Hu Ha.
    assert (Hs0 : stime_update (st_start s) (dtl dt len) i = Ok (Immediate, false)) by (rewrite Hst; reflexivity).
    rewrite (zprocess_ok s len dt i m changed Immediate false He Hu Hs0).
    unfold zafter. cbn [zupdated st_start st_psm is_immediate negb]. rewrite Ha. reflexivity.
  Qed.

  (** resume_at on a stream: WaitingToResume (silent, ring untouched) until the start time resolves; Stopped if
      it never can; when it resolves the fade-in starts in the same call *)
  Lemma stream_resume_at_step (s : streamQ) st tw len dt i f fin st' never :
    zmirror_ok s -> st_err s = false -> st_start s = Immediate ->
    ps (st_psm s) = WaitingToResume st tw ->
    param_update powf Q lerpQ (fade (st_psm s)) (dtl dt len) i = Ok (f, fin) ->
    stime_update st (dtl dt len) i = Ok (st', never) ->
    exists s' outs, zprocess s len dt i = Ok (s', outs) /\ zmirror_ok s' /\
      if never then ps (st_psm s') = Stopped /\ outs = repeat 0 len /\ st_ring s' = st_ring s
      else if is_immediate st'
           then (st_psm s' = {| ps := Resuming; fade := param_set f (Fixed identityQ) tw |} \/
                 (st_end s = true /\ st_ring s' = [] /\ ps (st_psm s') = Stopped))
           else st_psm s' = {| ps := WaitingToResume st' tw; fade := f |} /\ outs = repeat 0 len /\
                st_ring s' = st_ring s.
  Proof.
    intros M He Hst Hw Hp Hs.
    pose proof (waiting_step powf (st_psm s) st tw (dtl dt len) i f fin Hw Hp st' never Hs) as U.
    destruct never.
    - pose proof (zprocess_not_advancing s len dt i _ _ He Hst U eq_refl) as E.
      eexists. eexists. split; [exact E|]. split; [apply (zmirror_process s _ len dt i _ M E)|]. repeat split.
    - destruct (is_immediate st') eqn:Imm.
      + assert (Hs0 : stime_update (st_start s) (dtl dt len) i = Ok (Immediate, false)) by (rewrite Hst; reflexivity).
        destruct (stream_psm_step s len dt i _ _ Immediate false He U Hs0) as [s' [outs [E [_ [H1 [H2 [H3 H4]]]]]]].
        exists s', outs. split; [exact E|]. split; [apply (zmirror_process s s' len dt i outs M E)|].
        destruct H4 as [P|[A [B C]]]; [left; exact P|right]. split; [exact A|]. split; [exact B|]. rewrite C. reflexivity.
      + pose proof (zprocess_not_advancing s len dt i _ _ He Hst U eq_refl) as E.
        eexists. eexists. split; [exact E|]. split; [apply (zmirror_process s _ len dt i _ M E)|]. repeat split.
  Qed.

  (** ** (f) a stream whose decoder has delivered everything plays the ring out and stops, for every chunking *)
  Definition zsteady (s : streamQ) : Prop :=
    ps (st_psm s) = Playing /\ p_stagnant (fade (st_psm s)) = true /\ st_start s = Immediate /\ st_err s = false.
  Definition procs (lens : list nat) (dt : Q) (i : info Q) : list sstep := map (fun len => SProc len dt i) lens.

  Lemma stagnant_upd (m : psmQ) d i :
    p_stagnant (fade m) = true -> ps m = Playing \/ ps m = Stopped ->
    pupd powf m d i = Ok ({| ps := ps m; fade := {| p_state := p_state (fade m); p_raw := p_raw (fade m);
                                                   p_prev := p_raw (fade m); p_stagnant := true |} |}, false).
  Proof.
    intros Hg Hs. unfold pupd, psm_update, param_update. rewrite Hg. cbn [obind].
    destruct Hs as [Hs|Hs]; rewrite Hs; reflexivity.
  Qed.

  Lemma stopped_stream_stays (lens : list nat) : forall (s : streamQ) dt i,
    ps (st_psm s) = Stopped -> p_stagnant (fade (st_psm s)) = true -> st_start s = Immediate -> st_err s = false ->
    exists s', zrun s (procs lens dt i) = Ok s' /\ ps (st_psm s') = Stopped /\ st_ring s' = st_ring s.
  Proof.
    induction lens as [|len lens IH]; intros s dt i Hs Hg Hst He.
    - exists s. repeat split. exact Hs.
    - cbn [procs map zrun zstep]. fold (procs lens dt i).
      pose proof (stagnant_upd (st_psm s) (dtl dt len) i Hg (or_intror Hs)) as U.
      rewrite (zprocess_not_advancing s len dt i _ _ He Hst U) by (cbn [ps]; rewrite Hs; reflexivity).
      match goal with |- context [zrun ?x (procs lens dt i)] => destruct (IH x dt i) as [s' [R [A B]]] end;
        try reflexivity; try assumption.
      exists s'. split; [exact R|]. split; [exact A|exact B].
  Qed.

  Lemma finite_stream_reaches_stopped (lens : list nat) : forall (s : streamQ) dt i,
    zsteady s -> st_end s = true -> st_ring s <> [] ->
    exists s', zrun s (procs lens dt i) = Ok s' /\
      (ps (st_psm s') = Stopped <-> (length (st_ring s) <= total lens)%nat) /\
      (ps (st_psm s') = Stopped \/ ps (st_psm s') = Playing) /\
      st_ring s' = skipn (total lens) (st_ring s).
  Proof.
    induction lens as [|len lens IH]; intros s dt i [Hp [Hg [Hst He]]] Hend Hr.
    - exists s. split; [reflexivity|]. rewrite Hp. cbn [total fold_right skipn].
      split; [|split; [right; reflexivity|reflexivity]].
      split; [discriminate|]. destruct (st_ring s); [contradiction|cbn; lia].
    - cbn [procs map zrun zstep total fold_right]. fold (procs lens dt i). fold (total lens).
      pose proof (stagnant_upd (st_psm s) (dtl dt len) i Hg (or_introl Hp)) as U.
      assert (Hs0 : stime_update (st_start s) (dtl dt len) i = Ok (Immediate, false)) by (rewrite Hst; reflexivity).
      rewrite (zprocess_ok s len dt i _ _ Immediate false He U Hs0).
      match goal with |- context [zafter ?x len] => set (s1 := x) end.
      destruct (zafter_spec s1 len) as [s2 [outs [E [_ [H1 [H2 [H3 [_ [H5 [_ H7]]]]]]]]]].
      rewrite E.
      assert (Sv : zstarved s1 = false) by (unfold zstarved, starved, s1; cbn [zupdated st_end]; rewrite Hend; apply andb_false_r).
      assert (Adv : is_advancing (ps (st_psm s1)) = true) by (unfold s1; cbn [zupdated st_psm ps]; rewrite Hp; reflexivity).
      destruct H7 as [[_ [_ [H|[H|H]]]]|[_ [_ [_ [Hring [Hpsm Hiff]]]]]].
      { discriminate. } { rewrite Adv in H. discriminate. } { rewrite Sv in H. discriminate. }
      change (st_ring s1) with (st_ring s) in Hring, Hiff. change (st_end s1) with (st_end s) in Hiff.
      destruct (ps (st_psm s2)) eqn:P2;
        try (exfalso; destruct Hpsm as [Hpsm|[Hpsm _]]; rewrite Hpsm in P2; unfold s1 in P2;
             cbn [zupdated st_psm ps psm_mark_stopped] in P2; rewrite ?Hp in P2; discriminate).
      + (* still Playing *)
        assert (NI : ~ (st_end s = true /\ (1 <= len)%nat /\ (length (st_ring s) <= len)%nat))
          by (intro Hc; apply Hiff in Hc; discriminate).
        assert (Hlen : (len = 0 \/ len < length (st_ring s))%nat).
        { destruct (Nat.eq_dec len 0) as [Z0|NZ]; [left; exact Z0|right].
          destruct (Nat.lt_ge_cases len (length (st_ring s))) as [L|L]; [exact L|].
          exfalso. apply NI. split; [exact Hend|]. split; lia. }
        assert (Hr1 : st_ring s <> []) by exact Hr.
        assert (L0 : (1 <= length (st_ring s))%nat) by (destruct (st_ring s); [contradiction|cbn; lia]).
        assert (Hr2 : st_ring s2 <> []).
        { intro Hc. pose proof (skipn_length' len (st_ring s)) as SL. rewrite <- Hring, Hc in SL. cbn in SL. lia. }
        assert (St2 : zsteady s2).
        { split; [exact P2|]. split; [rewrite H5; reflexivity|]. split; [rewrite H1; reflexivity|]. rewrite H2. exact He. }
        destruct (IH s2 dt i St2 (eq_trans H3 Hend) Hr2) as [s' [R [Iff [Or Ring]]]].
        exists s'. split; [exact R|].
        pose proof (skipn_length' len (st_ring s)) as SL. rewrite <- Hring in SL.
        split; [rewrite Iff, SL; lia|]. split; [exact Or|].
        rewrite Ring, Hring. clear. revert len. generalize (st_ring s) as r. intros r len.
        revert r. induction len as [|len IHl]; intros r; [reflexivity|].
        destruct r as [|x r]; [cbn; destruct (total lens); reflexivity|]. cbn [skipn Nat.add]. apply IHl.
      + (* stopped within this call *)
        assert (HS : st_end s = true /\ (1 <= len)%nat /\ (length (st_ring s) <= len)%nat) by (apply Hiff; reflexivity).
        destruct HS as [_ [L1 L2]].
        destruct (stopped_stream_stays lens s2 dt i P2) as [s' [R [A B]]];
          [rewrite H5; reflexivity|rewrite H1; reflexivity|rewrite H2; exact He|].
        exists s'. split; [exact R|]. split; [split; [intros _; lia|intros _; exact A]|].
        split; [left; exact A|].
        rewrite B, Hring. rewrite !skipn_all_nil by lia. reflexivity.
  Qed.

  (** ** a fade-out / fade-in whose tween has zero length completes in the first update *)
  Lemma dtl_nonneg dt len : 0 <= dt -> 0 <= dtl dt len.
  Proof.
    intro H. unfold dtl. cbn [nmul nofZ Num_Q]. rewrite Qred_correct.
    apply Qmult_le_0_compat; [exact H|]. change 0 with (inject_Z 0). rewrite <- Zle_Qle. lia.
  Qed.
  Definition instant (tw : tween Q) : Prop := tw_start tw = Immediate /\ tw_dur tw = 0%Z.
  Lemma zero_tween_settles (m : psmQ) d (f0 : param Q Q) tg tw dt i :
    fading (ps m) = Some d -> fade m = param_set f0 (Fixed tg) tw -> instant tw -> 0 <= dt ->
    pupd powf m dt i =
      Ok ({| ps := d; fade := {| p_state := Idle (Fixed tg); p_raw := tg; p_prev := p_raw f0; p_stagnant := true |} |}, true).
  Proof.
    intros Hd Hf [Hst Hdur] Hdt.
    assert (U : upd powf (fade m) dt i =
                Ok ({| p_state := Idle (Fixed tg); p_raw := tg; p_prev := p_raw (fade m); p_stagnant := true |}, true)).
    { apply (zero_duration_update powf (fade m) (p_raw f0) tg 0 tw dt i).
      - rewrite Hf. apply set_is_mid.
      - rewrite Hst. exact I.
      - exact Hdur.
      - rewrite Hst. reflexivity.
      - lra.
      - exact Hdt. }
    unfold upd in U. rewrite (pupd_fading powf m d dt i _ _ Hd U). rewrite Hf. reflexivity.
  Qed.
End Stream.

(** ** (g) a sound that has ended before its first callback is Stopped AND says so *)
Section Construction.
  Notation soundQ := (sound Q Q).
  Definition qnew_from := sound_new_from Q silenceQ identityQ.

  Lemma up_not_playing (x : inner) :
    in_playing x = false ->
    in_playing (fst (inner_update_position x)) = false /\
    in_tue (fst (inner_update_position x)) = Z.max 0 (in_tue x - 1) /\
    snd (inner_update_position x) = (Z.max 0 (in_tue x - 1) =? 0)%Z.
  Proof.
    intro H. unfold inner_update_position, inner_increment, inner_push.
    cbn [in_playing in_tue in_pos in_n in_loop in_win fst snd]. rewrite H. cbn [negb andb in_playing in_tue].
    repeat split.
  Qed.
  Lemma prefill_not_playing (x0 : inner) :
    in_playing x0 = false -> (in_tue x0 <= 3)%Z -> snd (inner_prefill x0) = true.
  Proof.
    intros H Ht. unfold inner_prefill.
    destruct (up_not_playing x0 H) as [P1 [T1 S1]].
    destruct (inner_update_position x0) as [x1 s1]. cbn [fst snd] in *.
    destruct (up_not_playing x1 P1) as [P2 [T2 S2]].
    destruct (inner_update_position x1) as [x2 s2]. cbn [fst snd] in *.
    destruct (up_not_playing x2 P2) as [P3 [T3 S3]].
    destruct (inner_update_position x2) as [x3 s3]. cbn [fst snd] in *.
    subst s1 s2 s3. rewrite T2, T1.
    destruct (Z.eqb_spec (Z.max 0 (in_tue x0 - 1)) 0); [reflexivity|].
    destruct (Z.eqb_spec (Z.max 0 (Z.max 0 (in_tue x0 - 1) - 1)) 0); [reflexivity|].
    destruct (Z.eqb_spec (Z.max 0 (Z.max 0 (Z.max 0 (in_tue x0 - 1) - 1) - 1)) 0); [reflexivity|]. lia.
  Qed.

  Lemma mirror_new_from (x0 : inner) st fi : mirror_ok (qnew_from x0 st fi).
  Proof.
    unfold mirror_ok, qnew_from, sound_new_from. destruct (inner_prefill x0) as [x stopped].
    destruct stopped; reflexivity.
  Qed.
  Lemma stopped_at_construction (x0 : inner) st fi :
    in_playing x0 = false -> (in_tue x0 <= 3)%Z ->
    let s := qnew_from x0 st fi in
    ps (s_psm s) = Stopped /\ s_mirror s = 6%Z /\ mirror_ok s /\ sound_finished Q s = true.
  Proof.
    intros H Ht s. pose proof (prefill_not_playing x0 H Ht) as P.
    unfold s, qnew_from, sound_new_from, mirror_ok, sound_finished.
    destruct (inner_prefill x0) as [x stopped]. cbn [snd] in P. subst stopped. repeat split.
  Qed.
  (** the constructor of [C03/Model.v] is the instance "window of four absent frames at [start], playing" *)
  Lemma sound_new_is_from n start lp st fi :
    sound_new Q silenceQ identityQ n start lp st fi = qnew_from (x_init n start lp) st fi.
  Proof. reflexivity. Qed.
  (** reverse playback with nothing to play (what [Transport::new] returns then) is such a sound *)
  Lemma reverse_with_nothing_to_play n lp st fi :
    let s := qnew_from (inner_ended n lp) st fi in
    ps (s_psm s) = Stopped /\ s_mirror s = 6%Z /\ mirror_ok s /\ sound_finished Q s = true.
  Proof. apply stopped_at_construction; [reflexivity|cbn; lia]. Qed.
End Construction.

(** ** (h) the main track picks new sounds up BEFORE it lets the sounds read their commands *)
Section TrackProofs.
  Variables (S C : Type) (on_start : S -> C -> S) (finished : S -> bool) (none : C).
  Notation mainS := (main_on_start S C on_start finished none).
  Notation lateS := (main_on_start_poll_first S C on_start finished none).

  Lemma main_picks_up_then_polls (t : mtrack S C) s c :
    In (s, c) (mt_queue t) -> In (on_start s c, none) (mt_arena (mainS t)).
  Proof.
    intro H. unfold main_on_start, mt_poll, mt_remove_and_add. cbn [mt_arena mt_queue].
    apply (in_map (fun e => (on_start (fst e) (snd e), none)) _ (s, c)). apply in_or_app. right. exact H.
  Qed.
  Lemma main_play_first_callback (t : mtrack S C) s c :
    In (on_start s c, none) (mt_arena (mainS (mt_play S C t s c))) /\ mt_queue (mainS (mt_play S C t s c)) = [].
  Proof.
    split; [|reflexivity]. apply main_picks_up_then_polls. unfold mt_play. cbn [mt_queue].
    apply in_or_app. right. left. reflexivity.
  Qed.
  (** every sound in the arena after the call has read its commands, and none of them had finished *)
  Lemma main_arena_origin (t : mtrack S C) e :
    In e (mt_arena (mainS t)) ->
    exists s c, e = (on_start s c, none) /\ ((In (s, c) (mt_arena t) /\ finished s = false) \/ In (s, c) (mt_queue t)).
  Proof.
    unfold main_on_start, mt_poll, mt_remove_and_add. cbn [mt_arena mt_queue]. intro H.
    apply in_map_iff in H. destruct H as [[s c] [E H]]. exists s, c. split; [symmetry; exact E|].
    apply in_app_or in H. destruct H as [H|H]; [left|right; exact H].
    apply filter_In in H. destruct H as [H1 H2]. cbn [fst] in H2. split; [exact H1|].
    destruct (finished s); [discriminate|reflexivity].
  Qed.
  Lemma main_unloads_finished (t : mtrack S C) :
    mt_num_sounds S C (mainS t) =
      (length (filter (fun e => negb (finished (fst e))) (mt_arena t)) + length (mt_queue t))%nat.
  Proof.
    unfold mt_num_sounds, main_on_start, mt_poll, mt_remove_and_add. cbn [mt_arena]. rewrite map_length, app_length. reflexivity.
  Qed.
  (** the other order: the new sound enters the arena with its commands unread *)
  Lemma poll_first_leaves_commands_unread (t : mtrack S C) s c :
    In (s, c) (mt_arena (lateS (mt_play S C t s c))).
  Proof.
    unfold main_on_start_poll_first, mt_poll, mt_remove_and_add, mt_play. cbn [mt_arena mt_queue].
    apply in_or_app. right. apply in_or_app. right. left. reflexivity.
  Qed.
End TrackProofs.

Section FirstCallback.
  Variable powf : Q -> Q -> Q.
  Variable amp : Q -> Q.
  Notation lerpQ := (@lerp Q Num_Q).
  Notation soundQ := (sound Q Q).
  Notation streamQ := (stream Q Q).
  Definition no_cmd : commands Q := {| c_pause := None; c_resume := None; c_stop := None |}.
  Definition qmain := main_on_start soundQ (commands Q) son_start (sound_finished Q) no_cmd.
  Definition zmain := main_on_start streamQ (commands Q) zon_start (stream_finished Q) no_cmd.

  Lemma son_start_pause (s : soundQ) tw :
    s_psm (son_start s (cmd_pause tw)) = ppause (s_psm s) tw /\ s_start (son_start s (cmd_pause tw)) = s_start s /\
    s_mirror (son_start s (cmd_pause tw)) = state_code (ps (ppause (s_psm s) tw)) /\
    s_inner (son_start s (cmd_pause tw)) = s_inner s.
  Proof. repeat split. Qed.
  Lemma son_start_stop (s : soundQ) tw :
    s_psm (son_start s (cmd_stop tw)) = pstop (s_psm s) tw /\ s_start (son_start s (cmd_stop tw)) = s_start s /\
    s_mirror (son_start s (cmd_stop tw)) = state_code (ps (pstop (s_psm s) tw)) /\
    s_inner (son_start s (cmd_stop tw)) = s_inner s.
  Proof. repeat split. Qed.

  (** one process call of a static sound whose state manager settles in a non-advancing state *)
  Lemma sprocess_settles (s : soundQ) len dt i m :
    s_start s = Immediate -> pupd powf (s_psm s) (dtl dt len) i = Ok (m, true) -> is_advancing (ps m) = false ->
    exists s', sprocess powf amp s len dt i = Ok (s', repeat 0 len) /\ s_psm s' = m /\ s_mirror s' = state_code (ps m) /\
      s_inner s' = s_inner s.
  Proof.
    intros Hst Hu Ha. unfold sprocess, sound_process. fold (dtl dt len). fold (pupd powf (s_psm s) (dtl dt len) i).
    rewrite Hu. cbn [obind with_psm set_mirror s_start s_psm]. rewrite Hst.
    cbn [stime_update obind is_immediate negb s_start s_psm]. rewrite Ha. cbn [negb].
    eexists. split; [reflexivity|]. repeat split.
  Qed.

  (** a command written between [play()] and the first callback is applied IN that first callback: pause with an
      instant tween => the sound is never heard, it is Paused after callback 1 *)
  Lemma static_first_callback_pause (t : mtrack soundQ (commands Q)) (s : soundQ) tw len dt i :
    ps (s_psm s) <> Stopped -> s_start s = Immediate -> instant tw -> 0 <= dt ->
    let s1 := son_start s (cmd_pause tw) in
    In (s1, no_cmd) (mt_arena (qmain (mt_play _ _ t s (cmd_pause tw)))) /\
    ps (s_psm s1) = Pausing /\ s_mirror s1 = 1%Z /\
    exists s2, sprocess powf amp s1 len dt i = Ok (s2, repeat 0 len) /\ ps (s_psm s2) = Paused /\ s_mirror s2 = 2%Z /\
      s_inner s2 = s_inner s.
  Proof.
    intros NS Hst Hi Hdt s1.
    split; [apply main_play_first_callback|].
    destruct (son_start_pause s tw) as [A [B [M X]]]. fold s1 in A, B, M, X.
    assert (E : ppause (s_psm s) tw = {| ps := Pausing; fade := param_set (fade (s_psm s)) (Fixed silenceQ) tw |}).
    { unfold ppause, psm_pause. destruct (ps (s_psm s)); try reflexivity. contradiction. }
    split; [rewrite A, E; reflexivity|]. split; [rewrite M, E; reflexivity|].
    assert (U := zero_tween_settles powf {| ps := Pausing; fade := param_set (fade (s_psm s)) (Fixed silenceQ) tw |}
                   Paused (fade (s_psm s)) silenceQ tw (dtl dt len) i eq_refl eq_refl Hi (dtl_nonneg dt len Hdt)).
    rewrite <- E, <- A in U.
    destruct (sprocess_settles s1 len dt i _ (eq_trans B Hst) U eq_refl) as [s2 [P [Q1 [Q2 Q3]]]].
    exists s2. split; [exact P|]. rewrite Q1, Q2, Q3. repeat split; try exact X.
  Qed.
  Lemma static_first_callback_stop (t : mtrack soundQ (commands Q)) (s : soundQ) tw len dt i :
    ps (s_psm s) <> Stopped -> s_start s = Immediate -> instant tw -> 0 <= dt ->
    let s1 := son_start s (cmd_stop tw) in
    In (s1, no_cmd) (mt_arena (qmain (mt_play _ _ t s (cmd_stop tw)))) /\
    ps (s_psm s1) = Stopping /\ s_mirror s1 = 5%Z /\
    exists s2, sprocess powf amp s1 len dt i = Ok (s2, repeat 0 len) /\ ps (s_psm s2) = Stopped /\ s_mirror s2 = 6%Z /\
      sound_finished Q s2 = true.
  Proof.
    intros NS Hst Hi Hdt s1.
    split; [apply main_play_first_callback|].
    destruct (son_start_stop s tw) as [A [B [M X]]]. fold s1 in A, B, M, X.
    assert (E : pstop (s_psm s) tw = {| ps := Stopping; fade := param_set (fade (s_psm s)) (Fixed silenceQ) tw |}).
    { unfold pstop, psm_stop. destruct (ps (s_psm s)); try reflexivity. contradiction. }
    split; [rewrite A, E; reflexivity|]. split; [rewrite M, E; reflexivity|].
    assert (U := zero_tween_settles powf {| ps := Stopping; fade := param_set (fade (s_psm s)) (Fixed silenceQ) tw |}
                   Stopped (fade (s_psm s)) silenceQ tw (dtl dt len) i eq_refl eq_refl Hi (dtl_nonneg dt len Hdt)).
    rewrite <- E, <- A in U.
    destruct (sprocess_settles s1 len dt i _ (eq_trans B Hst) U eq_refl) as [s2 [P [Q1 [Q2 Q3]]]].
    exists s2. split; [exact P|]. unfold sound_finished. rewrite Q1, Q2. repeat split.
  Qed.

  (** the same for a streaming sound, whatever its ring holds *)
  Lemma stream_first_callback_pause (t : mtrack streamQ (commands Q)) (s : streamQ) tw len dt i :
    ps (st_psm s) <> Stopped -> st_start s = Immediate -> st_err s = false -> instant tw -> 0 <= dt ->
    let s1 := zon_start s (cmd_pause tw) in
    In (s1, no_cmd) (mt_arena (zmain (mt_play _ _ t s (cmd_pause tw)))) /\
    ps (st_psm s1) = Pausing /\ st_mirror s1 = 1%Z /\
    exists s2, zprocess powf amp s1 len dt i = Ok (s2, repeat 0 len) /\ ps (st_psm s2) = Paused /\ st_mirror s2 = 2%Z /\
      st_ring s2 = st_ring s.
  Proof.
    intros NS Hst He Hi Hdt s1.
    split; [apply main_play_first_callback|].
    assert (A : st_psm s1 = ppause (st_psm s) tw) by (unfold s1; rewrite zon_start_psm; reflexivity).
    destruct (zon_start_rest s (cmd_pause tw)) as [R1 [R2 [_ [R4 _]]]]. fold s1 in R1, R2, R4.
    assert (E : ppause (st_psm s) tw = {| ps := Pausing; fade := param_set (fade (st_psm s)) (Fixed silenceQ) tw |}).
    { unfold ppause, psm_pause. destruct (ps (st_psm s)); try reflexivity. contradiction. }
    split; [rewrite A, E; reflexivity|].
    split; [change (st_mirror s1) with (state_code (ps (ppause (st_psm s) tw))); rewrite E; reflexivity|].
    assert (U := zero_tween_settles powf {| ps := Pausing; fade := param_set (fade (st_psm s)) (Fixed silenceQ) tw |}
                   Paused (fade (st_psm s)) silenceQ tw (dtl dt len) i eq_refl eq_refl Hi (dtl_nonneg dt len Hdt)).
    rewrite <- E, <- A in U.
    rewrite (zprocess_not_advancing powf amp s1 len dt i _ _ (eq_trans R4 He) (eq_trans R2 Hst) U eq_refl).
    eexists. split; [reflexivity|]. repeat split; try exact R1.
  Qed.
  Lemma stream_first_callback_stop (t : mtrack streamQ (commands Q)) (s : streamQ) tw len dt i :
    ps (st_psm s) <> Stopped -> st_start s = Immediate -> st_err s = false -> instant tw -> 0 <= dt ->
    let s1 := zon_start s (cmd_stop tw) in
    In (s1, no_cmd) (mt_arena (zmain (mt_play _ _ t s (cmd_stop tw)))) /\
    ps (st_psm s1) = Stopping /\ st_mirror s1 = 5%Z /\
    exists s2, zprocess powf amp s1 len dt i = Ok (s2, repeat 0 len) /\ ps (st_psm s2) = Stopped /\ st_mirror s2 = 6%Z /\
      stream_finished Q s2 = true.
  Proof.
    intros NS Hst He Hi Hdt s1.
    split; [apply main_play_first_callback|].
    assert (A : st_psm s1 = pstop (st_psm s) tw) by (unfold s1; rewrite zon_start_psm; reflexivity).
    destruct (zon_start_rest s (cmd_stop tw)) as [R1 [R2 [_ [R4 _]]]]. fold s1 in R1, R2, R4.
    assert (E : pstop (st_psm s) tw = {| ps := Stopping; fade := param_set (fade (st_psm s)) (Fixed silenceQ) tw |}).
    { unfold pstop, psm_stop. destruct (ps (st_psm s)); try reflexivity. contradiction. }
    split; [rewrite A, E; reflexivity|].
    split; [change (st_mirror s1) with (state_code (ps (pstop (st_psm s) tw))); rewrite E; reflexivity|].
    assert (U := zero_tween_settles powf {| ps := Stopping; fade := param_set (fade (st_psm s)) (Fixed silenceQ) tw |}
                   Stopped (fade (st_psm s)) silenceQ tw (dtl dt len) i eq_refl eq_refl Hi (dtl_nonneg dt len Hdt)).
    rewrite <- E, <- A in U.
    rewrite (zprocess_not_advancing powf amp s1 len dt i _ _ (eq_trans R4 He) (eq_trans R2 Hst) U eq_refl).
    eexists. split; [reflexivity|]. repeat split.
  Qed.
End FirstCallback.

(** ** counter-models of other readings of the code, refuted on witnesses; non-vacuity of the hypotheses *)
Definition powf0 (x y : Q) : Q := 0.
Definition amp_lin (db : Q) : Q := Qred (1 + db / 60).      (* any law with amp(-60) = 0 and amp(0) = 1 will do here *)
Definition tw_of (ns : Z) : tween Q := {| tw_start := Immediate; tw_dur := ns; tw_easing := Linear |}.
Definition info0 : info Q := no_info.
Local Notation lerpQ := (@lerp Q Num_Q).

Fixpoint iter_process (proc : stream Q Q -> outcome (stream Q Q * list Q)) (n : nat) (s : stream Q Q) : outcome (stream Q Q) :=
  match n with
  | O => Ok s
  | S n' => match proc s with Ok (s', _) => iter_process proc n' s' | Panic k => Panic k | Hang => Hang end
  end.
Lemma iter_process_fixed proc (s : stream Q Q) :
  (exists outs, proc s = Ok (s, outs)) -> forall n, iter_process proc n s = Ok s.
Proof. intros [outs H] n. induction n as [|n IH]; [reflexivity|]. cbn [iter_process]. rewrite H. exact IH. Qed.

(** a stream that has just been played (ring: the pre-seeded frame only; decoder still busy), paused with a 2 s fade *)
Definition w_starved : stream Q Q := zon_start (znew 0 Immediate None) (cmd_pause (tw_of 2000000000)).
Definition starved_first (len : nat) (dt : Q) (i : info Q) (s : stream Q Q) :=
  stream_process_starved_first powf0 Q lerpQ identityQ Q amp_lin gainQ 0 s len dt i.
Lemma starved_first_freezes (s : stream Q Q) len dt i :
  st_err s = false -> zstarved s = true -> starved_first len dt i s = Ok (s, repeat 0 len).
Proof. intros He Hs. unfold starved_first, stream_process_starved_first. unfold zstarved in Hs. rewrite He, Hs. reflexivity. Qed.

Lemma starved_return_before_updates_refuted_w :
  ps (st_psm w_starved) = Pausing /\ zstarved w_starved = true /\ st_err w_starved = false /\
  (forall n len dt i, exists s', iter_process (starved_first len dt i) n w_starved = Ok s' /\
                                 ps (st_psm s') = Pausing /\ st_mirror s' = 1%Z) /\
  (exists s', zrun powf0 amp_lin w_starved [SProc 1 1 info0; SProc 1 1 info0] = Ok s' /\
              ps (st_psm s') = Paused /\ st_mirror s' = 2%Z).
Proof.
  split; [reflexivity|]. split; [reflexivity|]. split; [reflexivity|]. split.
  - intros n len dt i. exists w_starved. split; [|split; reflexivity].
    apply iter_process_fixed. exists (repeat 0 len). apply starved_first_freezes; reflexivity.
  - eexists. split; [vm_compute; reflexivity|]. split; reflexivity.
Qed.

(** a Paused stream whose decoder has failed *)
Definition w_paused_err : stream Q Q :=
  {| st_psm := {| ps := Paused; fade := param_new (Fixed silenceQ) silenceQ |}; st_start := Immediate;
     st_ring := [(false, 0%Z)]; st_end := false; st_err := true; st_mirror := 2; st_position := 0 |}.
Definition error_late (len : nat) (dt : Q) (i : info Q) (s : stream Q Q) :=
  stream_process_error_late powf0 Q lerpQ identityQ Q amp_lin gainQ 0 s len dt i.
Lemma error_check_after_returns_refuted_w :
  st_err w_paused_err = true /\ zmirror_ok w_paused_err /\
  (forall n len dt i, exists s', iter_process (error_late len dt i) n w_paused_err = Ok s' /\
                                 ps (st_psm s') = Paused /\ st_mirror s' = 2%Z /\ stream_finished Q s' = false) /\
  (forall len dt i, exists s', zprocess powf0 amp_lin w_paused_err len dt i = Ok (s', repeat 0 len) /\
                               ps (st_psm s') = Stopped /\ st_mirror s' = 6%Z).
Proof.
  split; [reflexivity|]. split; [reflexivity|]. split.
  - intros n len dt i. exists w_paused_err. split; [|repeat split].
    apply iter_process_fixed. exists (repeat 0 len). reflexivity.
  - intros len dt i. destruct (stream_error_stops powf0 amp_lin w_paused_err len dt i eq_refl) as [s' [E [A [B _]]]].
    exists s'. repeat split; assumption.
Qed.

(** a looping DC sound played on the main track and paused, with an instant tween, before the first callback *)
Definition w_sound : sound Q Q := sound_new Q silenceQ identityQ 4 0 true Immediate None.
Definition w_track : mtrack (sound Q Q) (commands Q) :=
  mt_play _ _ {| mt_arena := []; mt_queue := [] |} w_sound (cmd_pause (tw_of 0)).
Definition qmain_poll_first := main_on_start_poll_first (sound Q Q) (commands Q) son_start (sound_finished Q) no_cmd.
Lemma on_start_before_pickup_refuted_w :
  (* poll first: the sound enters its first callback with the pause unread, and is heard *)
  (mt_arena (qmain_poll_first w_track) = [(w_sound, cmd_pause (tw_of 0))] /\
   exists s', sprocess powf0 amp_lin w_sound 2 1 info0 = Ok (s', [1; 1]) /\ ps (s_psm s') = Playing /\ s_mirror s' = 0%Z) /\
  (* pick up first: it is Paused after its first callback and was never heard *)
  (exists s1, mt_arena (qmain w_track) = [(s1, no_cmd)] /\ ps (s_psm s1) = Pausing /\
   exists s', sprocess powf0 amp_lin s1 2 1 info0 = Ok (s', [0; 0]) /\ ps (s_psm s') = Paused /\ s_mirror s' = 2%Z).
Proof.
  split.
  - split; [reflexivity|]. eexists. split; [vm_compute; reflexivity|]. split; reflexivity.
  - eexists. split; [reflexivity|]. split; [reflexivity|].
    eexists. split; [vm_compute; reflexivity|]. split; reflexivity.
Qed.

(** a reversed sound with nothing to play, built by a constructor that leaves publishing to [process] *)
Definition w_unpublished : sound Q Q := sound_new_from_unpublished Q silenceQ identityQ (inner_ended 4 false) Immediate None.
Lemma publish_per_buffer_refuted_w :
  ps (s_psm w_unpublished) = Stopped /\ sound_finished Q w_unpublished = true /\ s_mirror w_unpublished = 0%Z /\
  ~ mirror_ok w_unpublished /\
  (* and no process call ever repairs it: the sound is not advancing *)
  (forall len dt i s' outs, sprocess powf0 amp_lin w_unpublished len dt i = Ok (s', outs) -> s_mirror s' = 0%Z) /\
  mirror_ok (qnew_from (inner_ended 4 false) Immediate None).
Proof.
  split; [reflexivity|]. split; [reflexivity|]. split; [reflexivity|]. split; [intro H; discriminate H|].
  split; [|apply mirror_new_from].
  intros len dt i s' outs E. unfold sprocess, sound_process in E. cbn in E. inversion E. reflexivity.
Qed.

(** *** the hypotheses of the theorems are met by ordinary states *)
Example live_example : live (znew 0 Immediate None).
Proof. repeat split. discriminate. Qed.
Example quiet_example : Forall quiet [SProc 4 (1 # 1024) info0; SEnv (EPush true 0); SProc 4 (1 # 1024) info0].
Proof. repeat constructor. Qed.
Example starved_pause_completes :
  completes (tw_start (tw_of 2000000000)) (ns_to_secs_Q 2000000000) 0
            (upds [SProc 1 1 info0; SEnv (EPush true 0); SProc 1 1 info0]) = true /\
  zstarved (znew 0 Immediate None) = true.
Proof. split; reflexivity. Qed.
Example error_hypothesis_met_while_waiting :
  let s := stream_env Q (zon_start (znew 0 Immediate None) (cmd_resume (Delayed 1000) (tw_of 0))) EErr in
  st_err s = true /\ exists st tw, ps (st_psm s) = WaitingToResume st tw.
Proof. split; [reflexivity|]. eexists. eexists. reflexivity. Qed.
Example error_hypothesis_met_before_start :
  let s := stream_env Q (znew 0 (ClockT 0 2 0) None) EErr in
  st_err s = true /\ is_immediate (st_start s) = false /\ ps (st_psm s) = Playing.
Proof. repeat split. Qed.
Example steady_example :
  let s := stream_env Q (stream_env Q (stream_env Q (znew 0 Immediate None) (EPush true 0)) (EPush true 1)) EEnd in
  zsteady s /\ st_end s = true /\ st_ring s <> [] /\ length (st_ring s) = 3%nat.
Proof. repeat split. discriminate. Qed.
Example finite_stream_example :
  exists s', zrun powf0 amp_lin (stream_env Q (stream_env Q (stream_env Q (znew 0 Immediate None) (EPush true 0)) (EPush true 1)) EEnd)
               (procs [2; 1]%nat 1 info0) = Ok s' /\ ps (st_psm s') = Stopped /\ st_mirror s' = 6%Z.
Proof. eexists. split; [vm_compute; reflexivity|]. split; reflexivity. Qed.
Example instant_example : instant (tw_of 0) /\ ps (s_psm w_sound) <> Stopped /\ s_start w_sound = Immediate.
Proof. repeat split. discriminate. Qed.
Example waiting_example :
  let s := zon_start (znew 0 Immediate None) (cmd_resume (Delayed 1000) (tw_of 0)) in
  zmirror_ok s /\ st_err s = false /\ st_start s = Immediate /\
  ps (st_psm s) = WaitingToResume (Delayed 1000) (tw_of 0) /\
  exists f fin, param_update powf0 Q lerpQ (fade (st_psm s)) (dtl 1 1) info0 = Ok (f, fin) /\
  stime_update (Delayed 1000) (dtl 1 1) info0 = Ok (Immediate, false).
Proof. repeat split. eexists. eexists. split; reflexivity. Qed.
