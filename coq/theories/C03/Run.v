(** C03 — model side of the correspondence check: a real static sound of DC frames (all 1.0)
    driven through callbacks with pause / resume_at / stop commands. *)
From Coq Require Import ZArith List Bool.
From KV Require Import Base.IEEE Base.Outcome Base.Num Base.Corr C19.Model C19.ModelF32 C19.Run
  C06.Model C06.Dur C06.Run C03.Model C03.ModelStream.
Import ListNotations.
Local Open Scope Z_scope.

Definition rtw : Type := (rstart * Z * Z * Z)%type.       (* start, duration ns, easing kind, power *)
Definition mk_tw (t : rtw) : tween f64 :=
  let '(s, d, ek, p) := t in {| tw_start := mk_start s; tw_dur := d; tw_easing := mk_easing ek p |}.

Inductive rcb :=
| RCb (pause : option rtw) (resume : option (rstart * rtw)) (stop : option rtw)
      (lens : list Z) (dt : Z) (clocks : list (Z * Z * Z * Z)).
(** a callback of a streaming sound: what the decoder thread did since the previous callback (frames pushed:
    (real frame?, source index); flags: 1 = reached_end set, 2 = encountered_error set, 3 = both), then the
    callback itself *)
Inductive rscb :=
| RSCb (push : list (Z * Z)) (flags : Z) (cb : rcb).
Inductive case :=
| CSound (n start lp : Z) (st : rstart) (fade_in : option rtw) (cbs : list rcb) (tab : list (Z * Z * Z))
(** a real streaming sound of DC frames whose decoder thread is paced by the harness *)
| CStream (start : Z) (st : rstart) (fade_in : option rtw) (cbs : list rscb) (tab : list (Z * Z * Z))
(** a real static sound played in reverse with nothing to play ([n] frames, start position >= [n]) *)
| CEnded (n lp : Z) (st : rstart) (fade_in : option rtw) (cbs : list rcb) (tab : list (Z * Z * Z)).

Section Run.
  Variable tab : list (Z * Z * Z).
  Definition silence32 : f32 := Z32 (-60).
  Definition identity32 : f32 := Z32 0.
  Definition amp32 (db : f32) : f32 := db_as_amplitude (powf32_tab tab (Z32 10)) db.
  (** [(resampler_out * fade_volume * volume)] with DC content and unit volume *)
  Definition gain32 (present : bool) (a : f32) : f32 :=
    mul32 (mul32 (if present then Z32 1 else Z32 0) a) (Z32 1).
  Definition powf_none (x y : f64) : f64 := powf64_tab [] x y.

  Definition process_all (s : sound f64 f32) (lens : list Z) (dt : f64) (i : info f64)
    : outcome (sound f64 f32 * list Z) :=
    fold_left (fun acc len =>
                 let! (s, outs) := acc in
                 let! (s', o) := sound_process powf_none f32 lerp32 identity32 f32 amp32 gain32 (Z32 0) s (Z.to_nat len) dt i in
                 Ok (s', outs ++ map bits_of_f32 o)) lens (Ok (s, [])).

  Fixpoint go (s : sound f64 f32) (cbs : list rcb) : list Z :=
    match cbs with
    | [] => []
    | RCb p r st lens dt clocks :: cbs' =>
        let c := {| c_pause := option_map mk_tw p;
                    c_resume := option_map (fun '(s0, t) => (mk_start s0, mk_tw t)) r;
                    c_stop := option_map mk_tw st |} in
        let s1 := sound_on_start f32 silence32 identity32 s c in
        match process_all s1 lens (f64_of_bits dt) (mk_info clocks []) with
        | Ok (s2, outs) =>
            s_mirror s2 :: s_position s1 :: (if sound_finished f32 s2 then 1 else 0) :: outs ++ go s2 cbs'
        | Panic k => [1000 + panic_code k]
        | Hang => [2000]
        end
    end.

  (** *** streaming *)
  Definition st_process_all (s : stream f64 f32) (lens : list Z) (dt : f64) (i : info f64)
    : outcome (stream f64 f32 * list Z) :=
    fold_left (fun acc len =>
                 let! (s, outs) := acc in
                 let! (s', o) := stream_process powf_none f32 lerp32 identity32 f32 amp32 gain32 (Z32 0) s (Z.to_nat len) dt i in
                 Ok (s', outs ++ map bits_of_f32 o)) lens (Ok (s, [])).
  Definition st_apply_env (s : stream f64 f32) (push : list (Z * Z)) (flags : Z) : stream f64 f32 :=
    let s := fold_left (fun s '(p, ix) => stream_env f32 s (EPush (negb (p =? 0)) ix)) push s in
    let s := if Z.odd flags then stream_env f32 s EEnd else s in
    if 2 <=? flags then stream_env f32 s EErr else s.
  Fixpoint go_stream (s : stream f64 f32) (cbs : list rscb) : list Z :=
    match cbs with
    | [] => []
    | RSCb push flags (RCb p r st lens dt clocks) :: cbs' =>
        let c := {| c_pause := option_map mk_tw p;
                    c_resume := option_map (fun '(s0, t) => (mk_start s0, mk_tw t)) r;
                    c_stop := option_map mk_tw st |} in
        let s0 := st_apply_env s push flags in
        let s1 := stream_on_start f32 silence32 identity32 s0 c in
        match st_process_all s1 lens (f64_of_bits dt) (mk_info clocks []) with
        | Ok (s2, outs) =>
            st_mirror s2 :: st_position s1 :: (if stream_finished f32 s2 then 1 else 0) :: outs ++ go_stream s2 cbs'
        | Panic k => [1000 + panic_code k]
        | Hang => [2000]
        end
    end.
End Run.

Definition run (c : case) : list Z :=
  match c with
  | CSound n start lp st fade_in cbs tab =>
      go tab (sound_new f32 silence32 identity32 n start (negb (lp =? 0)) (mk_start st) (option_map mk_tw fade_in)) cbs
  | CStream start st fade_in cbs tab =>
      go_stream tab (stream_new f32 silence32 identity32 start (mk_start st) (option_map mk_tw fade_in)) cbs
  | CEnded n lp st fade_in cbs tab =>
      go tab (sound_new_from f32 silence32 identity32 (inner_ended n (negb (lp =? 0))) (mk_start st) (option_map mk_tw fade_in)) cbs
  end.
