(** C03 — model side of the correspondence check: a real static sound of DC frames (all 1.0)
    driven through callbacks with pause / resume_at / stop commands. *)
From Coq Require Import ZArith List Bool.
From KV Require Import Base.IEEE Base.Outcome Base.Num Base.Corr C19.Model C19.ModelF32 C19.Run
  C06.Model C06.Dur C06.Run C03.Model.
Import ListNotations.
Local Open Scope Z_scope.

Definition rtw : Type := (rstart * Z * Z * Z)%type.       (* start, duration ns, easing kind, power *)
Definition mk_tw (t : rtw) : tween f64 :=
  let '(s, d, ek, p) := t in {| tw_start := mk_start s; tw_dur := d; tw_easing := mk_easing ek p |}.

Inductive rcb :=
| RCb (pause : option rtw) (resume : option (rstart * rtw)) (stop : option rtw)
      (lens : list Z) (dt : Z) (clocks : list (Z * Z * Z * Z)).
Inductive case :=
| CSound (n start lp : Z) (st : rstart) (fade_in : option rtw) (cbs : list rcb) (tab : list (Z * Z * Z)).

Section Run.
  Variable tab : list (Z * Z * Z).
  Definition silence32 : f32 := Z32 (-60).
  Definition identity32 : f32 := Z32 0.
  Definition amp32 (db : f32) : f32 := db_as_amplitude (powf32_tab tab (Z32 10)) db.
  (** [(resampler_out * fade_volume * volume)] with DC content and unit volume *)
  Definition gain32 (present : bool) (a : f32) : f32 :=
    mul32 (mul32 (if present then Z32 1 else Z32 0) a) (Z32 1).
  Definition powf_none (x y : f64) : f64 := powf64_tab [] x y.

  Definition process_all (s : sound f64 f32) (lens : list Z) (dt : f64) (i : info f64)
    : outcome (sound f64 f32 * list Z) :=
    fold_left (fun acc len =>
                 let! (s, outs) := acc in
                 let! (s', o) := sound_process powf_none f32 lerp32 identity32 f32 amp32 gain32 (Z32 0) s (Z.to_nat len) dt i in
                 Ok (s', outs ++ map bits_of_f32 o)) lens (Ok (s, [])).

  Fixpoint go (s : sound f64 f32) (cbs : list rcb) : list Z :=
    match cbs with
    | [] => []
    | RCb p r st lens dt clocks :: cbs' =>
        let c := {| c_pause := option_map mk_tw p;
                    c_resume := option_map (fun '(s0, t) => (mk_start s0, mk_tw t)) r;
                    c_stop := option_map mk_tw st |} in
        let s1 := sound_on_start f32 silence32 identity32 s c in
        match process_all s1 lens (f64_of_bits dt) (mk_info clocks []) with
        | Ok (s2, outs) =>
            s_mirror s2 :: s_position s1 :: (if sound_finished f32 s2 then 1 else 0) :: outs ++ go s2 cbs'
        | Panic k => [1000 + panic_code k]
        | Hang => [2000]
        end
    end.
End Run.

Definition run (c : case) : list Z :=
  match c with
  | CSound n start lp st fade_in cbs tab =>
      go tab (sound_new f32 silence32 identity32 n start (negb (lp =? 0)) (mk_start st) (option_map mk_tw fade_in)) cbs
  end.
